(** C03 (core): the reader model reads the byte string [flat_map encb rs ++ tail] produced from the
    records of a library back to that library (reals through the codec), for ARBITRARY [tail].
    Structure: one record ([read_record]); the parser state [stR] over a list of records still to
    come; one lemma per parser loop. Lemmas only; property theorems in Properties/C03.v. *)
From Coq Require Import ZArith Bool List Lia.
From L21 Require Import Base.Outcome Base.Hex Base.F64 Gds.GdsReal Gds.GdsData Gds.GdsRecord
  Gds.GdsWrite Gds.GdsRead Gds.GdsSpec Gds.GdsRtDefs Gds.GdsBytes_proofs Gds.GdsWrite_proofs Gds.GdsRtUnfold_proofs.
Import ListNotations.
Local Open Scope Z_scope.
Local Open Scope outcome_scope.

(** * One record *)
Lemma GdsRt_rec_len_facts r dt len : rec_len r = Some (dt, len) -> 0 <= len /\ len mod 2 = 0.
Proof.
  destruct r as [rt pl]. unfold rec_len. cbn [fst snd].
  destruct (arm_of rt) as [[d ls]|] eqn:A; [|discriminate].
  destruct d, ls, pl; try discriminate.
  - intros H; apply GdsW_some_pair_inj in H; destruct H as [<- <-]. destruct (GdsW_arm_fixed _ _ _ A) as (H1 & H2 & _). auto.
  - intros H; apply GdsW_some_pair_inj in H; destruct H as [<- <-]. destruct (GdsW_arm_fixed _ _ _ A) as (H1 & H2 & _). auto.
  - destruct (Z.eqb_spec (2 * zlen l) n); [|discriminate]. intros H; apply GdsW_some_pair_inj in H; destruct H as [<- <-]. subst n. unfold zlen. split; [lia|].
    rewrite Z.mul_comm. apply Z.mod_mul. lia.
  - destruct (Z.eqb_spec (4 * zlen l) n); [|discriminate]. intros H; apply GdsW_some_pair_inj in H; destruct H as [<- <-]. subst n. unfold zlen. split; [lia|].
    replace (4 * Z.of_nat (length l)) with (2 * Z.of_nat (length l) * 2) by ring. apply Z.mod_mul. lia.
  - intros H; apply GdsW_some_pair_inj in H; destruct H as [<- <-]. unfold zlen. split; [lia|].
    replace (4 * Z.of_nat (length l)) with (2 * Z.of_nat (length l) * 2) by ring. apply Z.mod_mul. lia.
  - destruct (Z.eqb_spec (8 * zlen l) n); [|discriminate]. intros H; apply GdsW_some_pair_inj in H; destruct H as [<- <-]. subst n. unfold zlen. split; [lia|].
    replace (8 * Z.of_nat (length l)) with (4 * Z.of_nat (length l) * 2) by ring. apply Z.mod_mul. lia.
  - intros H; apply GdsW_some_pair_inj in H; destruct H as [<- <-]. unfold gds_strlen, zlen. split; [Z.div_mod_to_equations; lia|].
    Z.div_mod_to_equations; lia.
Qed.

Lemma GdsRt_read_header r rest dt len :
  rec_len r = Some (dt, len) -> len + 4 <= 65535 -> rtype_valid (fst r) = true ->
  read_header (encb r ++ rest) = Ok (fst r, dt, len, enc_payload (snd r) ++ rest).
Proof.
  intros HL Hfit Hv. destruct (GdsRt_rec_len_facts r dt len HL) as [H0 H2].
  unfold encb. rewrite HL. unfold be16. cbn [app]. unfold read_header.
  rewrite u16_of_be16 by lia.
  destruct (Z.ltb_spec (len + 4) 4); [lia|].
  assert (E : (len + 4) mod 2 = 0) by (Z.div_mod_to_equations; lia). rewrite E. cbn [Z.eqb negb].
  rewrite rtype_of_Z_code, Hv. cbn [negb]. rewrite dtype_of_Z_code.
  replace (len + 4 - 4) with len by lia. reflexivity.
Qed.

Lemma GdsRt_last_app_1 (s : bytes) x d : last (s ++ [x]) d = x.
Proof. apply last_last. Qed.

Lemma GdsRt_read_str s rest :
  str_okb s = true -> even_trailing_nul s = false ->
  read_str true (gds_strlen s) ((s ++ (if zlen s mod 2 =? 0 then [] else [0])) ++ rest) = Ok (s, rest).
Proof.
  intros Hs Hk. unfold str_okb in Hs. apply andb_true_iff in Hs. destruct Hs as [_ Hu].
  unfold read_str. rewrite read_exact_app.
  2:{ rewrite app_length. unfold gds_strlen, zlen.
      destruct (Z.eqb_spec (Z.of_nat (length s) mod 2) 0) as [E|E]; cbn [length].
      - rewrite E. lia.
      - assert (Z.of_nat (length s) mod 2 = 1) by (Z.div_mod_to_equations; lia). lia. }
  cbn [obind negb andb].
  unfold even_trailing_nul in Hk. unfold gds_strlen, zlen in *.
  destruct (Z.eqb_spec (Z.of_nat (length s) mod 2) 0) as [E|E].
  - rewrite app_nil_r.
    assert (Ev : Z.even (Z.of_nat (length s)) = true).
    { rewrite Z.even_spec. exists (Z.of_nat (length s) / 2). Z.div_mod_to_equations; lia. }
    rewrite Ev in Hk. cbn [andb] in Hk. rewrite Hk, andb_false_r, Hu. reflexivity.
  - assert (E1 : Z.of_nat (length s) mod 2 = 1) by (Z.div_mod_to_equations; lia).
    rewrite E1. rewrite last_last. cbn [Z.eqb].
    destruct (Z.ltb_spec 0 (Z.of_nat (length s) + 1)); [|lia]. cbn [andb].
    rewrite removelast_last, Hu. reflexivity.
Qed.

Lemma GdsRt_flat_map_be64 (g : Z -> Z) l : flat_map (fun x => be64 (g x)) l = flat_map be64 (map g l).
Proof. induction l as [|x l IH]; cbn [flat_map map]; [reflexivity|]. rewrite IH. reflexivity. Qed.

Lemma GdsRt_read_content r rest dt len :
  rec_len r = Some (dt, len) -> payload_okb (snd r) = true ->
  read_content true (fst r) dt len (enc_payload (snd r) ++ rest) = Ok (rd_rec r, rest).
Proof.
  destruct r as [rt pl]. unfold rec_len, read_content, rd_rec. cbn [fst snd].
  destruct (arm_of rt) as [[d ls]|] eqn:A; [|discriminate].
  destruct d, ls, pl; try discriminate; cbn [payload_okb enc_payload rd_payload].
  - (* NoData *) intros H _; apply GdsW_some_pair_inj in H; destruct H as [<- <-]. cbn [dtype_eqb dtype_code len_matches]. rewrite ?Z.eqb_refl. reflexivity.
  - (* BitArray *) intros H _; apply GdsW_some_pair_inj in H; destruct H as [<- <-]. destruct (GdsW_arm_fixed _ _ _ A) as (_ & _ & _ & H2).
    rewrite (H2 eq_refl). cbn [dtype_eqb dtype_code len_matches]. rewrite ?Z.eqb_refl. cbn [andb negb Z.eqb Pos.eqb].
    rewrite read_exact_app by reflexivity. reflexivity.
  - (* I16 fixed *) destruct (Z.eqb_spec (2 * zlen l) n); [|discriminate]. intros H Hok; apply GdsW_some_pair_inj in H; destruct H as [<- <-]. subst n.
    cbn [dtype_eqb dtype_code len_matches]. rewrite ?Z.eqb_refl. cbn [andb negb Z.eqb Pos.eqb].
    rewrite read_exact_app by (rewrite length_be16s; unfold zlen; lia). cbn [obind].
    rewrite pairs16_be16 by (apply forallb_Forall; exact Hok).
    unfold need, fixed_count.
    destruct (Z.leb_spec (2 * zlen l / 2) (Z.of_nat (length l))) as [_|Hc]; [reflexivity|].
    exfalso. unfold zlen in Hc. Z.div_mod_to_equations; lia.
  - (* I32 fixed *) destruct (Z.eqb_spec (4 * zlen l) n); [|discriminate]. intros H Hok; apply GdsW_some_pair_inj in H; destruct H as [<- <-]. subst n.
    cbn [dtype_eqb dtype_code len_matches]. rewrite ?Z.eqb_refl. cbn [andb negb Z.eqb Pos.eqb].
    rewrite read_exact_app by (rewrite length_be32s; unfold zlen; lia). cbn [obind].
    rewrite quads32_be32 by (apply forallb_Forall; exact Hok).
    unfold need, fixed_count.
    destruct (Z.leb_spec (4 * zlen l / 4) (Z.of_nat (length l))) as [_|Hc]; [reflexivity|].
    exfalso. unfold zlen in Hc. Z.div_mod_to_equations; lia.
  - (* I32 any *) intros H Hok; apply GdsW_some_pair_inj in H; destruct H as [<- <-].
    cbn [dtype_eqb dtype_code len_matches]. rewrite ?Z.eqb_refl. cbn [andb negb Z.eqb Pos.eqb].
    rewrite read_exact_app by (rewrite length_be32s; unfold zlen; lia). cbn [obind].
    rewrite quads32_be32 by (apply forallb_Forall; exact Hok).
    unfold need, fixed_count. cbn [Z.leb]. destruct (Z.leb_spec 0 (Z.of_nat (length l))); [reflexivity|lia].
  - (* F64 *) destruct (Z.eqb_spec (8 * zlen l) n); [|discriminate]. intros H _; apply GdsW_some_pair_inj in H; destruct H as [<- <-]. subst n.
    cbn [dtype_eqb dtype_code len_matches]. rewrite ?Z.eqb_refl. cbn [andb negb Z.eqb Pos.eqb].
    replace (8 * (8 * zlen l / 8)) with (8 * zlen l) by (Z.div_mod_to_equations; lia).
    rewrite read_exact_app by (rewrite (length_be64s gds_encode); unfold zlen; lia). cbn [obind].
    rewrite GdsRt_flat_map_be64, octs64_be64.
    2:{ apply Forall_forall. intros w Hw. apply in_map_iff in Hw. destruct Hw as (x & <- & _). apply GdsW_encode_word. }
    rewrite map_map. unfold need, fixed_count. rewrite map_length.
    destruct (Z.leb_spec (8 * zlen l / 8) (Z.of_nat (length l))) as [_|Hc]; [reflexivity|].
    exfalso. unfold zlen in Hc. Z.div_mod_to_equations; lia.
  - (* Str *) intros H Hok; apply GdsW_some_pair_inj in H; destruct H as [<- <-]. apply andb_true_iff in Hok. destruct Hok as [Hs Hk].
    apply negb_true_iff in Hk.
    cbn [dtype_eqb dtype_code len_matches]. rewrite ?Z.eqb_refl. cbn [andb negb Z.eqb Pos.eqb].
    rewrite GdsRt_read_str by assumption. reflexivity.
Qed.

Lemma GdsRt_read_record r rest :
  rec_goodb r = true -> read_record true (encb r ++ rest) = Ok (rd_rec r, rest).
Proof.
  unfold rec_goodb, rec_fitsb. rewrite !andb_true_iff. intros [[Hf Hv] Hp].
  destruct (rec_len r) as [[dt len]|] eqn:HL; [|discriminate]. apply Z.leb_le in Hf.
  unfold read_record. rewrite (GdsRt_read_header r rest dt len HL Hf Hv). cbn [obind].
  apply GdsRt_read_content; assumption.
Qed.

Lemma GdsRt_encb_length r : rec_goodb r = true -> (4 <= length (encb r))%nat.
Proof.
  unfold rec_goodb, rec_fitsb, encb. destruct (rec_len r) as [[dt len]|]; [|discriminate]. intros _.
  rewrite !app_length. cbn [length be16]. lia.
Qed.

(** * Parser state over the records still to come *)
Definition GdsRt_endlib : record := (EndLib, PNone).
Definition stR (rs : list record) (tail : bytes) : pstate :=
  match rs with
  | [] => mkSt GdsRt_endlib tail
  | r :: rs' => mkSt (rd_rec r) (flat_map encb rs' ++ tail)
  end.
Arguments stR : simpl never.

(** every record reads back, the last one (and only the last) is ENDLIB *)
Fixpoint wfRb (rs : list record) : bool :=
  match rs with
  | [] => false
  | r :: rs' =>
    rec_goodb r && match rs' with [] => is_endlib r | _ => negb (is_endlib r) && wfRb rs' end
  end.
Definition noEnd (rs : list record) : bool := forallb (fun r => negb (is_endlib r)) rs.

Lemma wfRb_cons r rs : wfRb (r :: rs) = true -> is_endlib r = false -> rs <> [] /\ wfRb rs = true /\ rec_goodb r = true.
Proof.
  cbn [wfRb]. destruct rs as [|r' rs'].
  - rewrite andb_true_iff. intros [_ H] H'. congruence.
  - rewrite !andb_true_iff. intros [Hg [_ Hw]] _. repeat split; [discriminate | exact Hw | exact Hg].
Qed.
Lemma wfRb_app a rs : wfRb (a ++ rs) = true -> noEnd a = true -> wfRb rs = true.
Proof.
  induction a as [|r a IH]; [auto|]. cbn [app noEnd forallb]. rewrite andb_true_iff, negb_true_iff.
  intros Hw [Hr Ha]. destruct (wfRb_cons _ _ Hw Hr) as (_ & Hw' & _). auto.
Qed.
Lemma wfRb_nonempty rs : wfRb rs = true -> rs <> [].
Proof. destruct rs; [discriminate | discriminate]. Qed.
Lemma wfRb_hd_good r rs : wfRb (r :: rs) = true -> rec_goodb r = true.
Proof. cbn [wfRb]. rewrite andb_true_iff. tauto. Qed.

Lemma is_endlib_rd r : is_endlib (rd_rec r) = is_endlib r.
Proof. reflexivity. Qed.

Lemma GdsRt_next r rs tail :
  wfRb (r :: rs) = true -> is_endlib r = false ->
  next true (stR (r :: rs) tail) = Ok (rd_rec r, stR rs tail).
Proof.
  intros Hw He. destruct (wfRb_cons _ _ Hw He) as (Hne & Hw' & _).
  destruct rs as [|r' rs']; [congruence|]. pose proof (wfRb_hd_good _ _ Hw') as Hg.
  unfold next, stR. cbn [nxt rest]. rewrite is_endlib_rd, He. cbn [flat_map]. rewrite <- app_assoc.
  rewrite (GdsRt_read_record r' _ Hg). reflexivity.
Qed.

(** * parse_strans *)
Definition notMA (rt : rtype) : bool := match rt with Mag | Angle => false | _ => true end.

Lemma GdsRt_strans_stop f st s : notMA (fst (nxt st)) = true -> strans_loop true (S f) st s = Ok (s, st).
Proof.
  destruct st as [[rt pl] bs]. cbn [nxt fst]. destruct rt; try discriminate; reflexivity.
Qed.

Definition GdsRt_hd_notMA (rs : list record) : bool :=
  match rs with r :: _ => notMA (fst r) | [] => false end.

Lemma GdsRt_strans_loop_S fx f st s :
  strans_loop fx (S f) st s =
    match nxt st with
    | (Mag, PF64 (d :: _)) =>
      let? (_, st1) := next fx st in
      strans_loop fx f st1 (mkStrans (st_reflected s) (st_abs_mag s) (st_abs_angle s) (Some d) (st_angle s))
    | (Angle, PF64 (d :: _)) =>
      let? (_, st1) := next fx st in
      strans_loop fx f st1 (mkStrans (st_reflected s) (st_abs_mag s) (st_abs_angle s) (st_mag s) (Some d))
    | _ => Ok (s, st)
    end.
Proof. reflexivity. Qed.

Lemma GdsRt_strans_mag f x rs tail s :
  wfRb (r_f64 Mag x :: rs) = true ->
  strans_loop true (S f) (stR (r_f64 Mag x :: rs) tail) s =
  strans_loop true f (stR rs tail) (mkStrans (st_reflected s) (st_abs_mag s) (st_abs_angle s) (Some (rd_real x)) (st_angle s)).
Proof.
  intros Hw. rewrite GdsRt_strans_loop_S.
  change (nxt (stR (r_f64 Mag x :: rs) tail)) with (Mag, PF64 [rd_real x]). cbv iota beta.
  rewrite GdsRt_next by (assumption || reflexivity). reflexivity.
Qed.
Lemma GdsRt_strans_angle f x rs tail s :
  wfRb (r_f64 Angle x :: rs) = true ->
  strans_loop true (S f) (stR (r_f64 Angle x :: rs) tail) s =
  strans_loop true f (stR rs tail) (mkStrans (st_reflected s) (st_abs_mag s) (st_abs_angle s) (st_mag s) (Some (rd_real x))).
Proof.
  intros Hw. rewrite GdsRt_strans_loop_S.
  change (nxt (stR (r_f64 Angle x :: rs) tail)) with (Angle, PF64 [rd_real x]). cbv iota beta.
  rewrite GdsRt_next by (assumption || reflexivity). reflexivity.
Qed.

Lemma GdsRt_strans_loop f m a rs tail s :
  wfRb (opt_rec (r_f64 Mag) m ++ opt_rec (r_f64 Angle) a ++ rs) = true ->
  GdsRt_hd_notMA rs = true -> (length (opt_rec (r_f64 Mag) m ++ opt_rec (r_f64 Angle) a) < f)%nat ->
  st_mag s = None -> st_angle s = None ->
  strans_loop true f (stR (opt_rec (r_f64 Mag) m ++ opt_rec (r_f64 Angle) a ++ rs) tail) s =
  Ok (mkStrans (st_reflected s) (st_abs_mag s) (st_abs_angle s) (option_map rd_real m) (option_map rd_real a),
      stR rs tail).
Proof.
  intros Hw Hh Hf Hm Ha.
  assert (Hstop : forall g s', strans_loop true (S g) (stR rs tail) s' = Ok (s', stR rs tail)).
  { intros g s'. apply GdsRt_strans_stop. destruct rs as [|r0 rs0]; [discriminate|]. exact Hh. }
  destruct s as [fr fm fa sm sa]. cbn [st_mag st_angle st_reflected st_abs_mag st_abs_angle] in *. subst sm sa.
  destruct m as [x|], a as [y|]; cbn [opt_rec app option_map length] in *.
  - destruct f as [|[|[|f]]]; try lia.
    rewrite GdsRt_strans_mag by exact Hw. destruct (wfRb_cons _ _ Hw eq_refl) as (_ & Hw' & _).
    rewrite GdsRt_strans_angle by exact Hw'. apply Hstop.
  - destruct f as [|[|f]]; try lia. rewrite GdsRt_strans_mag by exact Hw. apply Hstop.
  - destruct f as [|[|f]]; try lia. rewrite GdsRt_strans_angle by exact Hw. apply Hstop.
  - destruct f as [|f]; try lia. apply Hstop.
Qed.

(** * parse_property, parse_elem: one lemma per kind of record block, in continuation style:
      [RES] is the final result; the continuation receives the facts about the remaining records. *)
Lemma GdsRt_parse_property v rs tail attr :
  wfRb ((PropValue, PStr v) :: rs) = true ->
  parse_property true (stR ((PropValue, PStr v) :: rs) tail) attr = Ok (mkProp attr v, stR rs tail).
Proof. intros Hw. unfold parse_property. rewrite GdsRt_next by (assumption || reflexivity). reflexivity. Qed.

Definition plain_rt (rt : rtype) : bool :=
  match rt with EndElement | Strans | PropAttr | EndLib => false | _ => true end.
Lemma plain_rt_not_endlib r : plain_rt (fst r) = true -> is_endlib r = false.
Proof. destruct r as [[] ?]; cbn; intros H; try discriminate; reflexivity. Qed.

Definition optb {A} (rt : rtype) (g : A -> fval) (o : option A) : builder :=
  match o with Some x => [(rt, g x)] | None => [] end.
Definition ostb (s : option strans) : builder :=
  match s with Some s => [(Strans, VStrans (strans_map_reals rd_real s))] | None => [] end.

Section Elem.
Variable tail : bytes.
Variable k : elkind.
Variable RES : res (element * pstate).

Lemma GdsRt_pe_field f r rs b ps v :
  wfRb (r :: rs) = true -> (length (r :: rs) <= f)%nat ->
  plain_rt (fst r) = true -> accepts k (fst r) = true -> field_of k (rd_rec r) = Ok v ->
  (forall f', wfRb rs = true -> (length rs <= f')%nat ->
              parse_elem true f' k (stR rs tail) ((fst r, v) :: b) ps = RES) ->
  parse_elem true f k (stR (r :: rs) tail) b ps = RES.
Proof.
  intros Hw Hf Hp Ha Hv K. pose proof (plain_rt_not_endlib r Hp) as He.
  destruct (wfRb_cons _ _ Hw He) as (_ & Hw' & _).
  destruct f as [|f]; [cbn in Hf; lia|].
  rewrite GdsRt_parse_elem_S, (GdsRt_next r rs tail Hw He). cbn [obind].
  rewrite <- (K f Hw') by (cbn in Hf; lia).
  destruct r as [rt pl]. unfold rd_rec in *. cbn [fst snd] in *.
  destruct rt; try discriminate Hp; cbv iota beta; rewrite Ha; cbn [negb]; rewrite Hv; reflexivity.
Qed.

Lemma GdsRt_pe_opt {A} (mk : A -> record) (g : A -> fval) rt f o rs b ps :
  wfRb (opt_rec mk o ++ rs) = true -> (length (opt_rec mk o ++ rs) <= f)%nat ->
  plain_rt rt = true -> accepts k rt = true ->
  (forall x, fst (mk x) = rt /\ field_of k (rd_rec (mk x)) = Ok (g x)) ->
  (forall f', wfRb rs = true -> (length rs <= f')%nat ->
              parse_elem true f' k (stR rs tail) (optb rt g o ++ b) ps = RES) ->
  parse_elem true f k (stR (opt_rec mk o ++ rs) tail) b ps = RES.
Proof.
  destruct o as [x|]; cbn [opt_rec app optb].
  - intros Hw Hf Hp Ha Hx K. destruct (Hx x) as [E1 E2].
    apply (GdsRt_pe_field f (mk x) rs b ps (g x)); rewrite ?E1; auto.
  - intros Hw Hf _ _ _ K. apply K; assumption.
Qed.

Lemma GdsRt_strans_flags s m a :
  mkStrans (Z.testbit (if st_reflected s then 128 else 0) 7)
           (Z.testbit ((if st_abs_mag s then 4 else 0) + (if st_abs_angle s then 2 else 0)) 2)
           (Z.testbit ((if st_abs_mag s then 4 else 0) + (if st_abs_angle s then 2 else 0)) 1) m a =
  mkStrans (st_reflected s) (st_abs_mag s) (st_abs_angle s) m a.
Proof. destruct (st_reflected s), (st_abs_mag s), (st_abs_angle s); reflexivity. Qed.

Lemma GdsRt_pe_ostrans f s rs b ps :
  wfRb (flat_ostrans s ++ rs) = true -> (length (flat_ostrans s ++ rs) <= f)%nat ->
  GdsRt_hd_notMA rs = true -> accepts k Strans = true ->
  (forall f', wfRb rs = true -> (length rs <= f')%nat ->
              parse_elem true f' k (stR rs tail) (ostb s ++ b) ps = RES) ->
  parse_elem true f k (stR (flat_ostrans s ++ rs) tail) b ps = RES.
Proof.
  destruct s as [s|]; cbn [flat_ostrans app ostb]; [|intros Hw Hf _ _ K; apply K; assumption].
  unfold flat_strans. cbn [app]. rewrite <- app_assoc.
  intros Hw Hf Hh Ha K.
  destruct (wfRb_cons _ _ Hw eq_refl) as (_ & Hw1 & _).
  assert (Hw2 : wfRb rs = true).
  { refine (wfRb_app (opt_rec (r_f64 Angle) (st_angle s)) rs (wfRb_app (opt_rec (r_f64 Mag) (st_mag s)) _ Hw1 _) _);
      [destruct (st_mag s) | destruct (st_angle s)]; reflexivity. }
  assert (Hrs : (1 <= length rs)%nat) by (destruct rs; [discriminate | cbn; lia]).
  destruct f as [|f]; [cbn in Hf; lia|].
  rewrite GdsRt_parse_elem_S, GdsRt_next by (assumption || reflexivity). cbn [obind].
  change (rd_rec (Strans, PBits (if st_reflected s then 128 else 0)
                               ((if st_abs_mag s then 4 else 0) + (if st_abs_angle s then 2 else 0))))
    with (Strans, PBits (if st_reflected s then 128 else 0)
                        ((if st_abs_mag s then 4 else 0) + (if st_abs_angle s then 2 else 0))).
  cbv iota beta. rewrite Ha. cbn [negb]. unfold parse_strans.
  assert (Hlen : (length (opt_rec (r_f64 Mag) (st_mag s) ++ opt_rec (r_f64 Angle) (st_angle s)) < f)%nat).
  { cbn [length] in Hf. rewrite !app_length in Hf. rewrite app_length. lia. }
  rewrite GdsRt_strans_loop; [| exact Hw1 | exact Hh | exact Hlen | reflexivity | reflexivity].
  cbn [obind st_reflected st_abs_mag st_abs_angle]. rewrite GdsRt_strans_flags.
  apply K; [exact Hw2|]. cbn [length] in Hf. rewrite !app_length in Hf. lia.
Qed.

Lemma GdsRt_noEnd_props ps : noEnd (flat_props ps) = true.
Proof. unfold noEnd, flat_props. rewrite GdsW_forallb_flat_map. apply forallb_forall. intros p _. reflexivity. Qed.

Lemma GdsRt_pe_props f ps' rs b ps :
  wfRb (flat_props ps' ++ rs) = true -> (length (flat_props ps' ++ rs) <= f)%nat -> accepts k PropAttr = true ->
  (forall f', wfRb rs = true -> (length rs <= f')%nat ->
              parse_elem true f' k (stR rs tail) b (ps ++ ps') = RES) ->
  parse_elem true f k (stR (flat_props ps' ++ rs) tail) b ps = RES.
Proof.
  intros Hw Hf Ha. revert f ps Hw Hf. induction ps' as [|p ps' IH]; intros f ps Hw Hf K.
  - rewrite app_nil_r in K. apply K; assumption.
  - destruct p as [attr v]. unfold flat_props in *. cbn [flat_map app pr_attr pr_value] in *.
    destruct (wfRb_cons _ _ Hw eq_refl) as (_ & Hw1 & _).
    destruct (wfRb_cons _ _ Hw1 eq_refl) as (_ & Hw2 & _).
    destruct f as [|f]; [cbn in Hf; lia|].
    rewrite GdsRt_parse_elem_S, GdsRt_next by (assumption || reflexivity). cbn [obind].
    change (rd_rec (r_i16 PropAttr attr)) with (PropAttr, PI16 [attr]).
    cbv iota beta. rewrite Ha. cbn [negb].
    change (r_str PropValue v) with (PropValue, PStr v).
    rewrite GdsRt_parse_property by exact Hw1. cbn [obind].
    apply IH; [exact Hw2 | cbn [length] in Hf; lia |].
    intros f' Hw' Hf'. rewrite <- app_assoc. cbn [app]. apply K; assumption.
Qed.

Lemma GdsRt_pe_end f rs b ps :
  wfRb (r_none EndElement :: rs) = true -> (1 <= f)%nat ->
  parse_elem true f k (stR (r_none EndElement :: rs) tail) b ps =
  let? e := build_elem k b ps in Ok (e, stR rs tail).
Proof.
  intros Hw Hf. destruct f as [|f]; [lia|].
  rewrite GdsRt_parse_elem_S, GdsRt_next by (assumption || reflexivity). reflexivity.
Qed.
End Elem.

(** * XY records *)
Lemma GdsRt_pair_points l : pair_points (flat_points l) = l.
Proof.
  induction l as [|[x y] l IH]; [reflexivity|].
  unfold flat_points in *. cbn [flat_map flat_point px py app pair_points]. rewrite IH. reflexivity.
Qed.
Lemma GdsRt_len_flat_points l : length (flat_points l) = (2 * length l)%nat.
Proof. unfold flat_points. apply length_flat_map_const. reflexivity. Qed.
Lemma GdsRt_parse_vec l : parse_vec (flat_points l) = Ok l.
Proof.
  unfold parse_vec. rewrite GdsRt_len_flat_points, Nat2Z.inj_mul, Z.mul_comm, Z.mod_mul by lia.
  cbn [Z.eqb]. rewrite GdsRt_pair_points. reflexivity.
Qed.
Lemma GdsRt_field_xy_vec k l :
  (k = KBoundary \/ k = KPath \/ k = KNode) -> field_of k (rd_rec (r_xy l)) = Ok (VPts l).
Proof.
  intros H. change (rd_rec (r_xy l)) with (Xy, PI32 (flat_points l)).
  destruct H as [-> | [-> | ->]]; cbn [field_of]; rewrite GdsRt_parse_vec; reflexivity.
Qed.
Lemma GdsRt_field_xy_box l : Z.of_nat (length l) = 5 -> field_of KBox (rd_rec (r_xy l)) = Ok (VPts l).
Proof.
  intros H. change (rd_rec (r_xy l)) with (Xy, PI32 (flat_points l)).
  cbn [field_of]. rewrite GdsRt_parse_vec. cbn [obind]. rewrite H. reflexivity.
Qed.
Lemma GdsRt_field_xy_aref l : Z.of_nat (length l) = 3 -> field_of KAref (rd_rec (r_xy l)) = Ok (VPts l).
Proof.
  intros H. change (rd_rec (r_xy l)) with (Xy, PI32 (flat_points l)).
  cbn [field_of]. rewrite GdsRt_parse_vec. cbn [obind]. rewrite H. reflexivity.
Qed.
Lemma GdsRt_field_xy_pt k p : (k = KText \/ k = KSref) -> field_of k (rd_rec (r_xy [p])) = Ok (VPts [p]).
Proof. intros [-> | ->]; destruct p; reflexivity. Qed.

(** * One element: the step of the loop of parse_struct *)
Definition GdsRt_elem_parse (f : nat) (st : pstate) : res (element * pstate) :=
  let? (r, st1) := next true st in
  match elkind_of (fst r) with
  | Some k => parse_elem true f k st1 [] []
  | None => Err EParse
  end.

Ltac GdsRt_norm := repeat first [rewrite <- app_assoc | progress cbn [app]].
(* one block lemma; the facts about the remaining records are re-introduced under the same names *)
Ltac GdsRt_opt RT G Hw Hf :=
  eapply (GdsRt_pe_opt _ _ _ _ G RT);
  [exact Hw | exact Hf | reflexivity | reflexivity | intros ?; split; reflexivity | clear Hw Hf; intros ? Hw Hf].
Ltac GdsRt_fld V Hw Hf :=
  eapply (GdsRt_pe_field _ _ _ _ _ _ _ _ V);
  [exact Hw | exact Hf | reflexivity | reflexivity | | clear Hw Hf; intros ? Hw Hf]; [try reflexivity|].
Ltac GdsRt_head Hw Hf :=
  GdsRt_opt ElemFlags (fun b : bits2 => VPair (fst b) (snd b)) Hw Hf;
  GdsRt_opt Plex VZ Hw Hf.
Ltac GdsRt_tail Hw Hf :=
  eapply GdsRt_pe_props; [exact Hw | exact Hf | reflexivity | clear Hw Hf; intros ? Hw Hf];
  rewrite GdsRt_pe_end by first [exact Hw | cbn [length] in Hf; lia]; cbn [app].
Ltac GdsRt_start Hw Hf :=
  unfold GdsRt_elem_parse; rewrite GdsRt_next by first [exact Hw | reflexivity]; cbn [obind];
  let Hw1 := fresh "Hw1" in
  destruct (wfRb_cons _ _ Hw eq_refl) as (_ & Hw1 & _); cbn [length] in Hf; apply le_S_n in Hf;
  clear Hw; rename Hw1 into Hw.

Lemma GdsRt_elem_boundary e rs tail f :
  wfRb (flat_boundary e ++ rs) = true -> (length (flat_boundary e ++ rs) <= S f)%nat ->
  GdsRt_elem_parse f (stR (flat_boundary e ++ rs) tail) = Ok (EBoundary e, stR rs tail).
Proof.
  destruct e as [layer dt xy fl pl ps]. unfold flat_boundary, flat_head, flat_tail. cbn [b_layer b_datatype b_xy b_elflags b_plex b_props].
  GdsRt_norm. intros Hw Hf. GdsRt_start Hw Hf.
  change (fst (rd_rec (r_none Boundary))) with Boundary. cbn [elkind_of].
  GdsRt_head Hw Hf. GdsRt_fld (VZ layer) Hw Hf. GdsRt_fld (VZ dt) Hw Hf.
  GdsRt_fld (VPts xy) Hw Hf; [apply GdsRt_field_xy_vec; auto|].
  GdsRt_tail Hw Hf. destruct fl as [[? ?]|], pl; reflexivity.
Qed.

Lemma GdsRt_elem_path e rs tail f :
  wfRb (flat_path e ++ rs) = true -> (length (flat_path e ++ rs) <= S f)%nat ->
  GdsRt_elem_parse f (stR (flat_path e ++ rs) tail) = Ok (EPath e, stR rs tail).
Proof.
  destruct e as [layer dt xy w pt be ee fl pl ps]. unfold flat_path, flat_head, flat_tail.
  cbn [p_layer p_datatype GdsData.p_xy p_width p_path_type p_begin_extn p_end_extn p_elflags p_plex GdsData.p_props].
  GdsRt_norm. intros Hw Hf. GdsRt_start Hw Hf.
  change (fst (rd_rec (r_none Path))) with Path. cbn [elkind_of].
  GdsRt_head Hw Hf. GdsRt_fld (VZ layer) Hw Hf. GdsRt_fld (VZ dt) Hw Hf.
  GdsRt_opt PathType VZ Hw Hf. GdsRt_opt Width VZ Hw Hf. GdsRt_opt BeginExtn VZ Hw Hf. GdsRt_opt EndExtn VZ Hw Hf.
  GdsRt_fld (VPts xy) Hw Hf; [apply GdsRt_field_xy_vec; auto|].
  GdsRt_tail Hw Hf. destruct fl as [[? ?]|], pl, w, pt, be, ee; reflexivity.
Qed.

Lemma GdsRt_elem_node e rs tail f :
  wfRb (flat_node e ++ rs) = true -> (length (flat_node e ++ rs) <= S f)%nat ->
  GdsRt_elem_parse f (stR (flat_node e ++ rs) tail) = Ok (ENode e, stR rs tail).
Proof.
  destruct e as [layer nt xy fl pl ps]. unfold flat_node, flat_head, flat_tail. cbn [n_layer n_nodetype n_xy n_elflags n_plex n_props].
  GdsRt_norm. intros Hw Hf. GdsRt_start Hw Hf.
  change (fst (rd_rec (r_none Node))) with Node. cbn [elkind_of].
  GdsRt_head Hw Hf. GdsRt_fld (VZ layer) Hw Hf. GdsRt_fld (VZ nt) Hw Hf.
  GdsRt_fld (VPts xy) Hw Hf; [apply GdsRt_field_xy_vec; auto|].
  GdsRt_tail Hw Hf. destruct fl as [[? ?]|], pl; reflexivity.
Qed.

Lemma GdsRt_elem_box e rs tail f :
  Z.of_nat (length (x_xy e)) = 5 ->
  wfRb (flat_box e ++ rs) = true -> (length (flat_box e ++ rs) <= S f)%nat ->
  GdsRt_elem_parse f (stR (flat_box e ++ rs) tail) = Ok (EBox e, stR rs tail).
Proof.
  destruct e as [layer bt xy fl pl ps]. unfold flat_box, flat_head, flat_tail. cbn [x_layer x_boxtype x_xy x_elflags x_plex x_props].
  GdsRt_norm. intros H5 Hw Hf. GdsRt_start Hw Hf.
  change (fst (rd_rec (r_none RBox))) with RBox. cbn [elkind_of].
  GdsRt_head Hw Hf. GdsRt_fld (VZ layer) Hw Hf. GdsRt_fld (VZ bt) Hw Hf.
  GdsRt_fld (VPts xy) Hw Hf; [apply GdsRt_field_xy_box; exact H5|].
  GdsRt_tail Hw Hf. destruct fl as [[? ?]|], pl; reflexivity.
Qed.

Ltac GdsRt_strans Hw Hf :=
  eapply GdsRt_pe_ostrans; [exact Hw | exact Hf | reflexivity | reflexivity | clear Hw Hf; intros ? Hw Hf].

Lemma GdsRt_elem_sref e rs tail f :
  wfRb (flat_sref e ++ rs) = true -> (length (flat_sref e ++ rs) <= S f)%nat ->
  GdsRt_elem_parse f (stR (flat_sref e ++ rs) tail) = Ok (element_map_reals rd_real (ESref e), stR rs tail).
Proof.
  destruct e as [name xy st fl pl ps]. unfold flat_sref, flat_head, flat_tail. cbn [sr_name sr_xy sr_strans sr_elflags sr_plex sr_props element_map_reals].
  GdsRt_norm. intros Hw Hf. GdsRt_start Hw Hf.
  change (fst (rd_rec (r_none StructRef))) with StructRef. cbn [elkind_of].
  GdsRt_head Hw Hf. GdsRt_fld (VStr name) Hw Hf. GdsRt_strans Hw Hf.
  GdsRt_fld (VPts [xy]) Hw Hf; [apply GdsRt_field_xy_pt; auto|].
  GdsRt_tail Hw Hf. destruct fl as [[? ?]|], pl, st; reflexivity.
Qed.

Lemma GdsRt_elem_aref e rs tail f :
  Z.of_nat (length (ar_xy e)) = 3 ->
  wfRb (flat_aref e ++ rs) = true -> (length (flat_aref e ++ rs) <= S f)%nat ->
  GdsRt_elem_parse f (stR (flat_aref e ++ rs) tail) = Ok (element_map_reals rd_real (EAref e), stR rs tail).
Proof.
  destruct e as [name xy cols rows st fl pl ps]. unfold flat_aref, flat_head, flat_tail.
  cbn [ar_name ar_xy ar_cols ar_rows ar_strans ar_elflags ar_plex ar_props element_map_reals].
  GdsRt_norm. intros H3 Hw Hf. GdsRt_start Hw Hf.
  change (fst (rd_rec (r_none ArrayRef))) with ArrayRef. cbn [elkind_of].
  GdsRt_head Hw Hf. GdsRt_fld (VStr name) Hw Hf. GdsRt_strans Hw Hf.
  GdsRt_fld (VPair cols rows) Hw Hf.
  GdsRt_fld (VPts xy) Hw Hf; [apply GdsRt_field_xy_aref; exact H3|].
  GdsRt_tail Hw Hf. destruct fl as [[? ?]|], pl, st; reflexivity.
Qed.

Lemma GdsRt_elem_text e rs tail f :
  wfRb (flat_text e ++ rs) = true -> (length (flat_text e ++ rs) <= S f)%nat ->
  GdsRt_elem_parse f (stR (flat_text e ++ rs) tail) = Ok (element_map_reals rd_real (EText e), stR rs tail).
Proof.
  destruct e as [str layer tt xy pres pt w st fl pl ps]. unfold flat_text, flat_head, flat_tail.
  cbn [t_string t_layer t_texttype t_xy t_presentation t_path_type t_width t_strans t_elflags t_plex t_props element_map_reals].
  GdsRt_norm. intros Hw Hf. GdsRt_start Hw Hf.
  change (fst (rd_rec (r_none Text))) with Text. cbn [elkind_of].
  GdsRt_head Hw Hf. GdsRt_fld (VZ layer) Hw Hf. GdsRt_fld (VZ tt) Hw Hf.
  GdsRt_opt Presentation (fun b : bits2 => VPair (fst b) (snd b)) Hw Hf.
  GdsRt_opt PathType VZ Hw Hf. GdsRt_opt Width VZ Hw Hf. GdsRt_strans Hw Hf.
  GdsRt_fld (VPts [xy]) Hw Hf; [apply GdsRt_field_xy_pt; auto|].
  GdsRt_fld (VStr str) Hw Hf.
  GdsRt_tail Hw Hf. destruct fl as [[? ?]|], pl, pres as [[? ?]|], pt, w, st; reflexivity.
Qed.

Ltac GdsRt_bsplit :=
  repeat match goal with
         | H : (_ && _) = true |- _ => apply andb_true_iff in H; destruct H as [? ?]
         | H : (_ || _) = false |- _ => apply orb_false_iff in H; destruct H as [? ?]
         end.
Ltac GdsRt_brew :=
  repeat match goal with
         | H : _ = true |- _ => rewrite H
         | H : _ = false |- _ => rewrite H
         end.

Lemma GdsRt_elem e rs tail f :
  element_okb_with (fun _ => true) e = true ->
  wfRb (flat_element e ++ rs) = true -> (length (flat_element e ++ rs) <= S f)%nat ->
  GdsRt_elem_parse f (stR (flat_element e ++ rs) tail) = Ok (element_map_reals rd_real e, stR rs tail).
Proof.
  destruct e as [e|e|e|e|e|e|e]; cbn [flat_element element_okb_with]; intros Hok.
  - apply GdsRt_elem_boundary.
  - apply GdsRt_elem_path.
  - apply GdsRt_elem_sref.
  - apply GdsRt_elem_aref. unfold aref_okb_with in Hok. GdsRt_bsplit. apply Z.eqb_eq. assumption.
  - apply GdsRt_elem_text.
  - apply GdsRt_elem_node.
  - apply GdsRt_elem_box. unfold box_okb in Hok. GdsRt_bsplit. apply Z.eqb_eq. assumption.
Qed.

Lemma GdsRt_noEnd_props' ps : forallb (fun r : record => negb (is_endlib r)) (flat_props ps) = true.
Proof. exact (GdsRt_noEnd_props ps). Qed.
Lemma GdsRt_noEnd_ostrans' s : forallb (fun r : record => negb (is_endlib r)) (flat_ostrans s) = true.
Proof. destruct s as [[? ? ? [?|] [?|]]|]; reflexivity. Qed.
Lemma GdsRt_noEnd_element e : noEnd (flat_element e) = true.
Proof.
  unfold noEnd.
  destruct e as [e|e|e|e|e|e|e]; cbn [flat_element];
    unfold flat_boundary, flat_path, flat_sref, flat_aref, flat_text, flat_node, flat_box, flat_head, flat_tail;
    repeat first [rewrite forallb_app | progress cbn [forallb app]];
    rewrite ?GdsRt_noEnd_props', ?GdsRt_noEnd_ostrans';
    repeat match goal with |- context [opt_rec _ ?o] => destruct o; cbn [opt_rec] end; reflexivity.
Qed.

(** * parse_struct *)
Lemma GdsRt_struct_loop_elem f st e st2 :
  GdsRt_elem_parse f st = Ok (e, st2) ->
  struct_loop true (S f) st = let? (es, st3) := struct_loop true f st2 in Ok (e :: es, st3).
Proof.
  unfold GdsRt_elem_parse. rewrite GdsRt_struct_loop_S.
  destruct (next true st) as [[r st1]| | |]; cbn [obind]; try discriminate.
  destruct r as [rt pl]. cbn [fst]. destruct rt; cbn [elkind_of]; try discriminate; intros ->; reflexivity.
Qed.

Lemma GdsRt_struct_loop es : forall f rs tail,
  forallb (element_okb_with (fun _ => true)) es = true ->
  wfRb (flat_map flat_element es ++ r_none EndStruct :: rs) = true ->
  (length (flat_map flat_element es ++ r_none EndStruct :: rs) <= f)%nat ->
  struct_loop true f (stR (flat_map flat_element es ++ r_none EndStruct :: rs) tail) =
  Ok (map (element_map_reals rd_real) es, stR rs tail).
Proof.
  induction es as [|e es IH]; intros f rs tail Hok Hw Hf.
  - cbn [flat_map app map] in *. destruct f as [|f]; [cbn in Hf; lia|].
    rewrite GdsRt_struct_loop_S, GdsRt_next by first [exact Hw | reflexivity]. reflexivity.
  - cbn [flat_map map forallb] in *. rewrite <- app_assoc in *. apply andb_true_iff in Hok. destruct Hok as [Hoe Hoes].
    destruct f as [|f].
    { exfalso. destruct e as [e|e|e|e|e|e|e]; cbn in Hf; lia. }
    assert (Hw' : wfRb (flat_map flat_element es ++ r_none EndStruct :: rs) = true).
    { apply (wfRb_app (flat_element e)); [exact Hw | apply GdsRt_noEnd_element]. }
    rewrite (GdsRt_struct_loop_elem f _ _ _ (GdsRt_elem e _ tail f Hoe Hw Hf)).
    rewrite IH; [reflexivity | exact Hoes | exact Hw' |].
    rewrite app_length in Hf.
    assert (1 <= length (flat_element e))%nat by (destruct e as [e|e|e|e|e|e|e]; cbn; lia). lia.
Qed.

Lemma GdsRt_dates_of d : dates_of (flat_dates d) = Ok d.
Proof. destruct d as [[? ? ? ? ? ?] [? ? ? ? ? ?]]. reflexivity. Qed.

Lemma GdsRt_parse_struct name d es rs tail f :
  forallb (element_okb_with (fun _ => true)) es = true ->
  wfRb (r_str StructName name :: flat_map flat_element es ++ r_none EndStruct :: rs) = true ->
  (length (r_str StructName name :: flat_map flat_element es ++ r_none EndStruct :: rs) <= f)%nat ->
  parse_struct true f (stR (r_str StructName name :: flat_map flat_element es ++ r_none EndStruct :: rs) tail) (flat_dates d) =
  Ok (mkStruct name d (map (element_map_reals rd_real) es), stR rs tail).
Proof.
  intros Hok Hw Hf. unfold parse_struct. rewrite GdsRt_dates_of. cbn [obind].
  rewrite GdsRt_next by first [exact Hw | reflexivity]. cbn [obind].
  change (rd_rec (r_str StructName name)) with (StructName, PStr name). cbv iota beta.
  destruct (wfRb_cons _ _ Hw eq_refl) as (_ & Hw1 & _).
  rewrite GdsRt_struct_loop; [reflexivity | exact Hok | exact Hw1 | cbn [length] in Hf |- *; lia].
Qed.

(** * parse_lib *)
Lemma GdsRt_flat_struct_eq s :
  flat_struct s = (BgnStruct, PI16 (flat_dates (s_dates s))) :: r_str StructName (s_name s) ::
                  flat_map flat_element (s_elems s) ++ [r_none EndStruct].
Proof. reflexivity. Qed.

Lemma GdsRt_lib_loop_structs ss : forall f acc name units tail,
  forallb (struct_okb_with (fun _ => true)) ss = true ->
  wfRb (flat_map flat_struct ss ++ [r_none EndLib]) = true ->
  (length (flat_map flat_struct ss ++ [r_none EndLib]) <= f)%nat ->
  lib_loop true f (stR (flat_map flat_struct ss ++ [r_none EndLib]) tail) name units acc =
  Ok (name, units, acc ++ map (struct_map_reals rd_real) ss).
Proof.
  induction ss as [|s ss IH]; intros f acc name units tail Hok Hw Hf.
  - cbn [flat_map app map] in *. destruct f as [|f]; [cbn in Hf; lia|].
    rewrite GdsRt_lib_loop_S, app_nil_r. reflexivity.
  - cbn [flat_map map forallb] in Hok, Hw, Hf |- *. apply andb_true_iff in Hok. destruct Hok as [Hos Hoss].
    unfold struct_okb_with in Hos. apply andb_true_iff in Hos. destruct Hos as [_ Hoes].
    assert (E : flat_struct s ++ flat_map flat_struct ss ++ [r_none EndLib] =
                (BgnStruct, PI16 (flat_dates (s_dates s))) :: r_str StructName (s_name s) ::
                flat_map flat_element (s_elems s) ++ r_none EndStruct :: flat_map flat_struct ss ++ [r_none EndLib]).
    { rewrite GdsRt_flat_struct_eq. cbn [app]. rewrite <- app_assoc. reflexivity. }
    rewrite <- app_assoc in Hw, Hf |- *. rewrite E in Hw, Hf |- *. clear E.
    destruct f as [|f]; [cbn in Hf; lia|].
    rewrite GdsRt_lib_loop_S, GdsRt_next by first [exact Hw | reflexivity]. cbn [obind].
    change (rd_rec (BgnStruct, PI16 (flat_dates (s_dates s)))) with (BgnStruct, PI16 (flat_dates (s_dates s))).
    cbv iota beta.
    destruct (wfRb_cons _ _ Hw eq_refl) as (_ & Hw1 & _).
    rewrite GdsRt_parse_struct; [| exact Hoes | exact Hw1 | cbn [length] in Hf |- *; lia]. cbn [obind].
    assert (Hw2 : wfRb (flat_map flat_struct ss ++ [r_none EndLib]) = true).
    { destruct (wfRb_cons _ _ Hw1 eq_refl) as (_ & Hw2 & _).
      assert (Hn : noEnd (flat_map flat_element (s_elems s)) = true).
      { unfold noEnd. rewrite GdsW_forallb_flat_map. apply forallb_forall. intros e _. apply GdsRt_noEnd_element. }
      pose proof (wfRb_app _ _ Hw2 Hn) as Hw3.
      destruct (wfRb_cons _ _ Hw3 eq_refl) as (_ & Hw4 & _). exact Hw4. }
    rewrite IH; [| exact Hoss | exact Hw2 |].
    + rewrite <- app_assoc. destruct s as [n d es]. reflexivity.
    + cbn [length] in Hf. rewrite app_length in Hf. cbn [length] in Hf. lia.
Qed.

Lemma GdsRt_parse_lib l tail f :
  lib_shape_ok l -> wfRb (flatten_lib l) = true -> (length (flatten_lib l) <= f)%nat ->
  parse_lib true f (stR (flatten_lib l) tail) = Ok (lib_readback l).
Proof.
  intros Hok Hw Hf. destruct l as [name ver dates [u0 u1] ss].
  unfold lib_shape_ok, lib_shapeb, lib_okb_with in Hok. cbn [l_name l_version l_dates l_units l_structs fst snd] in Hok.
  GdsRt_bsplit.
  unfold flatten_lib in *. cbn [l_name l_version l_dates l_units l_structs fst snd app] in *.
  unfold parse_lib.
  rewrite GdsRt_next by first [exact Hw | reflexivity]. cbn [obind].
  change (rd_rec (r_i16 Header ver)) with (Header, PI16 [ver]). cbv iota beta.
  destruct (wfRb_cons _ _ Hw eq_refl) as (_ & Hw1 & _).
  rewrite GdsRt_next by first [exact Hw1 | reflexivity]. cbn [obind].
  change (rd_rec (BgnLib, PI16 (flat_dates dates))) with (BgnLib, PI16 (flat_dates dates)). cbv iota beta.
  rewrite GdsRt_dates_of. cbn [obind].
  destruct (wfRb_cons _ _ Hw1 eq_refl) as (_ & Hw2 & _).
  destruct (wfRb_cons _ _ Hw2 eq_refl) as (_ & Hw3 & _).
  destruct (wfRb_cons _ _ Hw3 eq_refl) as (_ & Hw4 & _).
  cbn [length] in Hf.
  destruct f as [|[|[|f]]]; try lia.
  rewrite GdsRt_lib_loop_S, GdsRt_next by first [exact Hw2 | reflexivity]. cbn [obind].
  change (rd_rec (r_str LibName name)) with (LibName, PStr name). cbv iota beta.
  rewrite GdsRt_lib_loop_S, GdsRt_next by first [exact Hw3 | reflexivity]. cbn [obind].
  change (rd_rec (Units, PF64 [u0; u1])) with (Units, PF64 [rd_real u0; rd_real u1]). cbv iota beta.
  rewrite GdsRt_lib_loop_structs; [reflexivity | assumption | exact Hw4 | lia].
Qed.

(** * The fuel computed by [read_fuel] suffices *)
Lemma wfRb_all_good rs : wfRb rs = true -> forallb rec_goodb rs = true.
Proof.
  induction rs as [|r rs IH]; [reflexivity|]. cbn [wfRb forallb]. rewrite !andb_true_iff. intros [Hg H].
  split; [exact Hg|]. destruct rs as [|r' rs']; [reflexivity|]. apply andb_true_iff in H. destruct H as [_ H]. auto.
Qed.
Lemma GdsRt_bytes_length rs : forallb rec_goodb rs = true -> (4 * length rs <= length (flat_map encb rs))%nat.
Proof.
  induction rs as [|r rs IH]; cbn [forallb flat_map length]; [lia|]. rewrite andb_true_iff. intros [Hg H].
  rewrite app_length. pose proof (GdsRt_encb_length r Hg). specialize (IH H). lia.
Qed.
Lemma GdsRt_fuel rs tail : wfRb rs = true -> (length rs <= read_fuel (flat_map encb rs ++ tail))%nat.
Proof.
  intros Hw. pose proof (GdsRt_bytes_length rs (wfRb_all_good rs Hw)) as H. unfold read_fuel.
  rewrite app_length.
  assert (length rs <= (length (flat_map encb rs) + length tail) / 4)%nat; [|lia].
  apply Nat.div_le_lower_bound; lia.
Qed.

Theorem GdsRt_read_lib_core l tail :
  lib_shape_ok l -> wfRb (flatten_lib l) = true ->
  read_lib (flat_map encb (flatten_lib l) ++ tail) = Ok (lib_readback l).
Proof.
  intros Hok Hw. unfold read_lib, read_lib_fuel.
  pose proof (GdsRt_fuel _ tail Hw) as Hf.
  remember (read_fuel (flat_map encb (flatten_lib l) ++ tail)) as f eqn:Ef. clear Ef.
  pose proof (GdsRt_parse_lib l tail f Hok Hw Hf) as HP.
  unfold flatten_lib in *. cbn [app flat_map] in *. rewrite <- app_assoc.
  rewrite GdsRt_read_record by (apply (wfRb_hd_good _ _ Hw)). cbn [obind].
  exact HP.
Qed.
