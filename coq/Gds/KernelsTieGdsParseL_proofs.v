(** Tie (a) of DESIGN.md 2.3 for `GdsParser::parse_struct`, `parse_lib`, `parse_datetimes` (family "gds_parse_lib"): whole functions on
    fuel = [parse_struct], [struct_loop], [lib_loop], [parse_lib] of Gds/GdsRead.v; and their composition with the generated
    `read_record` = [read_lib_fuel] (`GdsLibrary::from_bytes`). *)
From Coq Require Import ZArith Bool List Lia.
From L21 Require Import Base.KernelOps Base.KernelOpsX Base.KernelOpsS Base.KernelOpsL Base.Outcome Gen.KernelsGdsReadGen.
From L21 Require Import Gds.GdsReal Gds.GdsData Gds.GdsRecord Gds.GdsRead Gds.KernelsInstGdsRead Gds.KernelsInstGdsParse.
From L21 Require Import Gds.KernelsTieGdsRead_proofs Gds.KernelsTieGdsParse_proofs Gds.KernelsTieGdsParseE1_proofs Gds.KernelsTieGdsParseE2_proofs.
Import ListNotations.
Local Open Scope Z_scope.


(** `parse_datetimes` (with `parse_datetime`, `impl From<&[i16; 6]> for GdsDateTime`): twelve numbers *)
Lemma tie_parse_datetimes : forall d s, length d = 12%nat ->
  g_parse_datetimes d s = match dates_of d with Ok ds => Ok (mk_gGdsDateTimes (mk_gGdsDateTime (dt_year (d_modified ds)) (dt_month (d_modified ds)) (dt_day (d_modified ds)) (dt_hour (d_modified ds)) (dt_minute (d_modified ds)) (dt_second (d_modified ds)))
                                                                       (mk_gGdsDateTime (dt_year (d_accessed ds)) (dt_month (d_accessed ds)) (dt_day (d_accessed ds)) (dt_hour (d_accessed ds)) (dt_minute (d_accessed ds)) (dt_second (d_accessed ds))), s)
                                  | Err _ => Err tt | Panic => Panic | OutOfFuel => OutOfFuel end.
Proof.
  intros d s H. do 12 (destruct d as [|? d]; [discriminate H|]). destruct d; [|discriminate H]. reflexivity.
Qed.
Lemma dates_of_12 : forall d, length d = 12%nat -> exists ds, dates_of d = Ok ds.
Proof. intros d H. do 12 (destruct d as [|? d]; [discriminate H|]). destruct d; [|discriminate H]. eexists; reflexivity. Qed.

(** ** parse_struct *)
Definition struct_lrun (f : nat) (acc : list (gGdsElement bytes Z Z)) (s : pst) :=
  k_loop pm_kops (pm_nofuel _) f (fun fuel st => g_GdsParser_parse_struct_loop1 pm_xops bytes pm_nofuel x_next x_peek x_parse_vec fuel st) acc s.
Definition pre_elems (acc : list (gGdsElement bytes Z Z)) (x : res (list element * pstate)) : res (option (list element) * pstate) :=
  omap (fun es_st => (Some (map Melement acc ++ fst es_st), snd es_st)) x.

(** one element parsed inside the loop of parse_struct, then the rest of the loop *)
Ltac elem_arm IH tie acc :=
  lazymatch goal with K : u8s ?s1 |- sim _ _ (omap _ (obind (parse_elem true ?f ?k (Rst ?s1) [] []) _)) =>
    let E2 := fresh "E" in let K2 := fresh "K" in
    destruct (tie f s1 K) as [E2 K2];
    lazymatch type of E2 with back _ ?x = _ => destruct x as [[?t ?s2]| | |] end;
    destruct (parse_elem true f k (Rst s1) [] []) as [[?e0 ?st2]|?e9| |];
    cbn [back omap obind ounit fst snd keeps] in E2, K2; try discriminate E2; cbn [obind omap]; try cls;
    inversion E2; subst; ps; cbv beta iota;
    lazymatch goal with |- context [k_loop _ _ f _ (acc ++ [?el]) ?s2] =>
      let P := fresh "P" in pose proof (IH s2 (acc ++ [el]) K2) as P; unfold struct_lrun, pre_elems in P;
      destruct (struct_loop true f (Rst s2)) as [[?es ?st3]|?e8| |]; cbn [omap obind fst snd] in P |- *;
      unfold sim in P |- *; destruct P as [P1 P2]; (split; [|exact P2]);
      rewrite P1; try reflexivity; cbn [ounit Melement]; rewrite map_app, <- app_assoc; reflexivity end end.

Lemma tie_parse_struct_loop : forall f s acc, u8s s ->
  sim (unctrl (fun _ => None) (fun l => Some (map Melement l))) (struct_lrun f acc s) (pre_elems acc (struct_loop true f (Rst s))).
Proof.
  induction f as [|f IH]; intros s acc U; unfold struct_lrun, pre_elems; [split; [reflexivity|exact I]|].
  cbn [k_loop struct_loop]. ps. unfold g_GdsParser_parse_struct_loop1 at 1. ps.
  step_next s U; cbn [obind omap]; try cls.
  destruct r; cbn [Grec fst elkind_of]; try cls.
  - (* EndStruct *) unfold sim. cbn [back omap obind ounit keeps fst snd unctrl]. rewrite app_nil_r. split; [reflexivity|assumption].
  - change (g_GdsParser_parse_boundary pm_xops bytes pm_nofuel x_next x_parse_vec f s1) with (g_parse_boundary f s1). elem_arm IH tie_parse_boundary acc.
  - change (g_GdsParser_parse_path pm_xops bytes pm_nofuel x_next x_parse_vec f s1) with (g_parse_path f s1). elem_arm IH tie_parse_path acc.
  - change (g_GdsParser_parse_struct_ref pm_xops bytes pm_nofuel x_next x_peek f s1) with (g_parse_struct_ref f s1). elem_arm IH tie_parse_struct_ref acc.
  - change (g_GdsParser_parse_array_ref pm_xops bytes pm_nofuel x_next x_peek x_parse_vec f s1) with (g_parse_array_ref f s1). elem_arm IH tie_parse_array_ref acc.
  - change (g_GdsParser_parse_text_elem pm_xops bytes pm_nofuel x_next x_peek f s1) with (g_parse_text_elem f s1). elem_arm IH tie_parse_text_elem acc.
  - change (g_GdsParser_parse_node pm_xops bytes pm_nofuel x_next x_parse_vec f s1) with (g_parse_node f s1). elem_arm IH tie_parse_node acc.
  - change (g_GdsParser_parse_box pm_xops bytes pm_nofuel x_next x_parse_vec f s1) with (g_parse_box f s1). elem_arm IH tie_parse_box acc.
Qed.

Lemma tie_parse_struct : forall f s dates, u8s s -> length dates = 12%nat ->
  sim Mstruct (g_parse_struct f dates s) (parse_struct true f (Rst s) dates).
Proof.
  intros f s dates U H. unfold g_parse_struct, g_GdsParser_parse_struct, parse_struct. ps.
  change (g_GdsParser_parse_datetimes pm_xops dates s) with (g_parse_datetimes dates s). rewrite (tie_parse_datetimes dates s H).
  destruct (dates_of_12 dates H) as [ds Hd]. rewrite Hd. cbn [obind]. unfold g_GdsStructBuilder_dates. ps. cbv beta iota.
  step_next s U; cbn [obind]; try cls.
  destruct r; cbn [Grec]; try cls.
  unfold g_GdsStructBuilder_name. ps. cbv beta iota.
  fold (struct_lrun f [] s1).
  destruct (tie_parse_struct_loop f s1 [] K) as [P1 P2]. unfold pre_elems in P1.
  destruct (struct_lrun f [] s1) as [[[v|es'] s2]| | |]; destruct (struct_loop true f (Rst s1)) as [[es st2]|e8| |];
    cbn [back omap obind ounit fst snd keeps unctrl map app] in P1, P2; try discriminate P1; cbn [obind]; try cls.
  inversion P1; subst. unfold g_GdsStructBuilder_elems, g_GdsStructBuilder_build. ps. cbv beta iota.
  cbn [gGdsStructBuilder_name gGdsStructBuilder_dates gGdsStructBuilder_elems].
  unfold sim, Mstruct, Mdts, Mdt. cbn [back omap obind ounit keeps fst snd gGdsStruct_name gGdsStruct_dates gGdsStruct_elems
      gGdsDateTimes_modified gGdsDateTimes_accessed gGdsDateTime_year gGdsDateTime_month gGdsDateTime_day gGdsDateTime_hour gGdsDateTime_minute gGdsDateTime_second].
    destruct ds as [[? ? ? ? ? ?] [? ? ? ? ? ?]]. split; [reflexivity|assumption].
Qed.

(** ** parse_lib *)
Definition Gunits (u : Z * Z) : gGdsUnits Z Z := mk_gGdsUnits (fst u) (snd u).
Definition Glb (v : Z) (gds : gGdsDateTimes Z Z) (name : option bytes) (units : option (Z * Z)) : gGdsLibraryBuilder bytes Z Z :=
  mk_gGdsLibraryBuilder bytes name (Some v) (Some gds) (option_map Gunits units) None None None None None None None None None.
Definition lib_lrun (f : nat) (st : gGdsLibraryBuilder bytes Z Z * list (gGdsStruct bytes Z Z)) (s : pst) :=
  k_loop pm_kops (pm_nofuel _) f (fun fuel st => g_GdsParser_parse_lib_loop1 pm_xops bytes pm_nofuel x_next x_peek x_parse_vec fuel st) st s.
(** the loop of parse_lib against [lib_loop]: same outcome class; on success the builder holds the name and units the model returns,
    the structs are the model's, the state is fine; the loop is not left by `return` with a value *)
Definition lib_rel (v : Z) (gds : gGdsDateTimes Z Z)
           (x : ures (ctrl (gGdsLibrary bytes Z Z) (gGdsLibraryBuilder bytes Z Z * list (gGdsStruct bytes Z Z)) * pst))
           (y : res (option bytes * option (Z * Z) * list gstruct)) : Prop :=
  match x, y with
  | Ok (Cont (lb, gs), s'), Ok (n', u', ss') => lb = Glb v gds n' u' /\ map Mstruct gs = ss' /\ u8s s'
  | Err _, Err _ => True
  | Panic, Panic => True
  | OutOfFuel, OutOfFuel => True
  | _, _ => False
  end.
Lemma tie_parse_lib_loop : forall f s v gds name units gs, u8s s ->
  lib_rel v gds (lib_lrun f (Glb v gds name units, gs) s) (lib_loop true f (Rst s) name units (map Mstruct gs)).
Proof.
  induction f as [|f IH]; intros s v gds name units gs U; unfold lib_lrun; [exact I|].
  cbn [k_loop lib_loop]. ps. unfold g_GdsParser_parse_lib_loop1 at 1. ps.
  step_next s U; cbn [obind lib_rel]; try exact I.
  destruct r; cbn [Grec]; try exact I.
  - (* LibName *) unfold g_GdsLibraryBuilder_name. ps. cbv beta iota. exact (IH s1 v gds (Some b) units gs K).
  - (* Units *) unfold g_GdsLibraryBuilder_units. ps. cbv beta iota. exact (IH s1 v gds name (Some (z, z0)) gs K).
  - (* EndLib *) cbn [lib_rel]. split; [reflexivity|split; [reflexivity|assumption]].
  - (* BgnStruct *) change (g_GdsParser_parse_struct pm_xops bytes pm_nofuel x_next x_peek x_parse_vec f l s1) with (g_parse_struct f l s1).
    cbn [wfrec] in Kr.
    destruct (tie_parse_struct f s1 l K Kr) as [E2 K2].
    destruct (g_parse_struct f l s1) as [[t s2]| | |]; destruct (parse_struct true f (Rst s1) l) as [[t0 st2]|e9| |];
      cbn [back omap obind ounit fst snd keeps] in E2, K2; try discriminate E2; cbn [obind lib_rel]; try exact I.
    inversion E2; subst. ps. cbv beta iota.
    replace (map Mstruct gs ++ [Mstruct t]) with (map Mstruct (gs ++ [t])) by (rewrite map_app; reflexivity).
    exact (IH s2 v gds name units (gs ++ [t]) K2).
Qed.

Lemma tie_parse_lib : forall f s, u8s s ->
  omap (fun ls => Mlib (fst ls)) (g_parse_lib f s) = ounit (parse_lib true f (Rst s)).
Proof.
  intros f s U. unfold g_parse_lib, g_GdsParser_parse_lib, parse_lib. ps.
  step_next s U; cbn [obind omap ounit]; try (repeat match goal with u : unit |- _ => destruct u end; reflexivity).
  destruct r; cbn [Grec]; try (repeat match goal with u : unit |- _ => destruct u end; reflexivity).
  unfold g_GdsLibraryBuilder_version. ps. cbv beta iota.
  step_next s1 K; cbn [obind omap ounit]; try (repeat match goal with u : unit |- _ => destruct u end; reflexivity).
  destruct r; cbn [Grec]; try (repeat match goal with u : unit |- _ => destruct u end; reflexivity).
  cbn [wfrec] in Kr0.
  change (g_GdsParser_parse_datetimes pm_xops l s0) with (g_parse_datetimes l s0). rewrite (tie_parse_datetimes l s0 Kr0).
  destruct (dates_of_12 l Kr0) as [[[a0 a1 a2 a3 a4 a5] [c0 c1 c2 c3 c4 c5]] Hd]. rewrite Hd. cbn [obind d_modified d_accessed GdsData.dt_year GdsData.dt_month GdsData.dt_day GdsData.dt_hour GdsData.dt_minute GdsData.dt_second]. unfold g_GdsLibraryBuilder_dates. ps. cbv beta iota.
  cbn [gGdsLibraryBuilder_name gGdsLibraryBuilder_version gGdsLibraryBuilder_dates gGdsLibraryBuilder_units gGdsLibraryBuilder_structs
       gGdsLibraryBuilder_libdirsize gGdsLibraryBuilder_srfname gGdsLibraryBuilder_libsecur gGdsLibraryBuilder_reflibs gGdsLibraryBuilder_fonts
       gGdsLibraryBuilder_attrtable gGdsLibraryBuilder_generations gGdsLibraryBuilder_format_type].
  set (gds := mk_gGdsDateTimes (mk_gGdsDateTime a0 a1 a2 a3 a4 a5) (mk_gGdsDateTime c0 c1 c2 c3 c4 c5)).
  match goal with |- context [k_loop _ _ f ?body (?lb, []) s0] =>
    change (k_loop pm_kops (pm_nofuel _) f body (lb, []) s0) with (lib_lrun f (Glb z gds None None, []) s0) end.
  pose proof (tie_parse_lib_loop f s0 z gds None None [] K0) as P. cbn [map] in P.
  destruct (lib_lrun f (Glb z gds None None, []) s0) as [[[v|[lb gs]] s2]| | |];
    destruct (lib_loop true f (Rst s0) None None []) as [[[n' u'] ss']|e8| |];
    cbn [lib_rel] in P; try contradiction; cbn [obind omap ounit]; try (repeat match goal with u : unit |- _ => destruct u end; reflexivity).
  destruct P as [-> [<- K2]]. unfold g_GdsLibraryBuilder_structs, g_GdsLibraryBuilder_build, Glb. ps. cbv beta iota.
  cbn [gGdsLibraryBuilder_name gGdsLibraryBuilder_version gGdsLibraryBuilder_dates gGdsLibraryBuilder_units gGdsLibraryBuilder_structs
       gGdsLibraryBuilder_libdirsize gGdsLibraryBuilder_srfname gGdsLibraryBuilder_libsecur gGdsLibraryBuilder_reflibs gGdsLibraryBuilder_fonts
       gGdsLibraryBuilder_attrtable gGdsLibraryBuilder_generations gGdsLibraryBuilder_format_type].
  destruct n' as [n|], u' as [[u0 u1]|]; cbn [option_map omap obind ounit fst]; try (repeat match goal with u : unit |- _ => destruct u end; reflexivity).
Qed.

(** `GdsLibrary::from_bytes`: the first record read with the generated `read_record`, then `parse_lib` *)
Definition g_read_lib (f : nat) (bs : bytes) : ures (gGdsLibrary bytes Z Z * pst) :=
  match g_read_record bs with Ok (r, bs') => g_parse_lib f (r, bs') | Err e => Err e | Panic => Panic | OutOfFuel => OutOfFuel end.
Lemma tie_read_lib : forall f bs, forallb u8b bs = true ->
  omap (fun ls => Mlib (fst ls)) (g_read_lib f bs) = ounit (read_lib_fuel true f bs).
Proof.
  intros f bs U. unfold g_read_lib, read_lib_fuel.
  assert (U0 : u8s (gGdsRecord_EndStruct bytes, bs)) by (split; [exact U|exact I]).
  destruct (next_sim _ U0) as [E K]. unfold x_next, next, Rst in E, K. cbn [fst snd g_is_endlib is_endlib Grec nxt rest] in E, K.
  destruct (g_read_record bs) as [[r bs']| | |]; destruct (read_record true bs) as [[r0 bs0]|e7| |];
    cbn [back_rec omap obind ounit fst snd keepsr] in E, K; try discriminate E; cbn [obind omap ounit]; try (repeat match goal with u : unit |- _ => destruct u end; reflexivity).
  inversion E; subst. destruct K as [_ K]. exact (tie_parse_lib f _ K).
Qed.
