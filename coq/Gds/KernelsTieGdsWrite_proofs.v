(** Tie (a) of DESIGN.md 2.3 for the GDSII writer (family "gds_write", properties C01, C02): the definitions generated from the
    provided methods of `trait Encode` in gds21/src/write.rs (encode_lib, encode_struct, encode_element, encode_boundary,
    encode_path, encode_struct_ref, encode_array_ref, encode_text_elem, encode_node, encode_box, encode_strans, encode_datetimes
    with encode_datetime) and from `GdsPoint::flatten / flatten_vec` of data.rs (Gen/KernelsGdsWriteGen.v), read as in
    Gds/KernelsInstGdsWrite.v, hand to `encode_record` EXACTLY the records [flat_*] / [flatten_lib] of Gds/GdsWrite.v, in that
    order, and stop at its first error: for ANY state type and ANY `encode_record` ([emit]). *)
From Coq Require Import ZArith Bool List Lia.
From L21 Require Import Base.KernelOps Base.KernelOpsX Base.KernelOpsS Base.KernelOpsL Base.Outcome Gen.KernelsGdsWriteGen.
From L21 Require Import Gds.GdsData Gds.GdsRecord Gds.GdsWrite Gds.KernelsInstGdsWrite.
Import ListNotations.
Local Open Scope Z_scope.

Lemma tie_flatten_vec_from : forall l acc,
  k_foreach gw_kops (map Gpt l) (fun pt st => g_GdsPoint_flatten_vec_loop1 gw_xops pt st) acc = Ok (Cont (acc ++ flat_points l)).
Proof.
  induction l as [|p l IH]; intros acc; cbn [map k_foreach].
  - cbn. rewrite app_nil_r. reflexivity.
  - unfold g_GdsPoint_flatten_vec_loop1 at 1. cbn [gw_xops kx_base gw_kops k_bind k_ret]. unfold gw_bind, gw_ret. cbn [obind Gpt gGdsPoint_x gGdsPoint_y].
    rewrite IH. unfold flat_points. cbn [flat_map flat_point]. rewrite <- !app_assoc. reflexivity.
Qed.
(** `GdsPoint::flatten_vec` (data.rs) = [flat_points] *)
Lemma tie_flatten_vec : forall l, len2_ok l -> g_GdsPoint_flatten_vec gw_xops (map Gpt l) = Ok (flat_points l).
Proof.
  intros l H. unfold g_GdsPoint_flatten_vec. cbn [gw_xops kx_base gw_kops k_bind k_ret i_mul v_len i_lit]. unfold gw_bind, gw_ret, gw_chk.
  rewrite map_length.
  assert (E : ity_in Usize (Z.of_nat (length l) * 2) = true).
  { unfold len2_ok in H. unfold ity_in. change (ity_min Usize) with 0. change (ity_max Usize) with (2 ^ 64 - 1).
    apply andb_true_iff; split; apply Z.leb_le; lia. }
  rewrite E. cbn [obind]. rewrite tie_flatten_vec_from. reflexivity.
Qed.
Lemma tie_flatten : forall p, g_GdsPoint_flatten gw_xops (Gpt p) = Ok (flat_point p).
Proof. reflexivity. Qed.

Section Ties.
Context {S : Type} (emit : S -> record -> gres S).

Ltac is := cbn [gw_xops kx_base gw_kops k_bind k_ret k_panic]; unfold gw_bind, gw_ret, gw_pan, x_record; cbn [obind Grec].

Lemma emit_all_app : forall a b s, emit_all emit s (a ++ b) = obind (emit_all emit s a) (fun s' => emit_all emit s' b).
Proof. induction a as [|r a IH]; intros b s; [reflexivity|]. cbn [app emit_all]. destruct (emit s r); cbn [obind]; auto. Qed.

(** a `for` loop whose body hands the records [fl a] of the element a to `encode_record` *)
Lemma tie_foreach : forall (A B : Type) (conv : A -> B) (body : B -> S -> gres (ctrl unit S)) (fl : A -> list record) (P : A -> Prop),
  (forall a s, P a -> body (conv a) s = obind (emit_all emit s (fl a)) (fun s' => Ok (Cont s'))) ->
  forall l s, Forall P l -> k_foreach gw_kops (map conv l) body s = obind (emit_all emit s (flat_map fl l)) (fun s' => Ok (Cont s')).
Proof.
  intros A B conv body fl P Hb. induction l as [|a l IH]; intros s Hl; [reflexivity|].
  inversion Hl as [|a' l' Ha Hl']; subst. cbn [map k_foreach flat_map]. rewrite (Hb a s Ha). rewrite emit_all_app.
  is. destruct (emit_all emit s (fl a)); cbn [obind]; try reflexivity. apply IH. exact Hl'.
Qed.
Definition prop_recs (p : property) : list record := [r_i16 PropAttr (pr_attr p); r_str PropValue (pr_value p)].
Lemma Forall_True : forall A (l : list A), Forall (fun _ => True) l.
Proof. induction l; constructor; auto. Qed.

Ltac unf_loops := cbv beta zeta delta [g_Encode_encode_boundary_loop1 g_Encode_encode_path_loop1 g_Encode_encode_struct_ref_loop1
  g_Encode_encode_array_ref_loop1 g_Encode_encode_text_elem_loop1 g_Encode_encode_node_loop1 g_Encode_encode_box_loop1].
(** one effect at the head of both sides: by cases on its outcome *)
Ltac hd :=
  match goal with
  | |- context [emit ?s ?r] => is_var s; destruct (emit s r); cbn [obind]; try reflexivity
  | |- context [emit_all emit ?s (?a ++ ?b)] => is_var s; rewrite (emit_all_app a b s)
  | |- context [k_foreach gw_kops (map Gprop ?ps) ?body ?s] => is_var s;
      let H := fresh "Hbody" in
      assert (H : forall pq sq, True -> body (Gprop pq) sq = obind (emit_all emit sq (prop_recs pq)) (fun s' => Ok (Cont s')));
      [ intros pq sq _; unf_loops; unfold prop_recs, r_i16, r_str; cbn [Gprop gGdsProperty_attr gGdsProperty_value emit_all];
        is; repeat (match goal with |- context [emit ?s1 ?r1] => is_var s1; destruct (emit s1 r1); cbn [obind]; try reflexivity end; is)
      | rewrite (tie_foreach property _ Gprop body prop_recs (fun _ => True) H ps s (Forall_True _ ps)); clear H;
        change (flat_map prop_recs ps) with (flat_props ps) ]
  | |- context [emit_all emit ?s (flat_props ?ps)] => is_var s; destruct (emit_all emit s (flat_props ps)); cbn [obind]; try reflexivity
  end.
Ltac go := is; cbn [emit_all app]; repeat (hd; is; cbn [emit_all app]).

Lemma tie_encode_strans : forall s x, g_encode_strans emit s x = emit_all emit s (flat_strans x).
Proof.
  intros s [r am aa mg an]. unfold g_encode_strans, g_Encode_encode_strans, flat_strans, Gstrans, opt_rec, r_f64.
  cbn [gGdsStrans_reflected gGdsStrans_abs_mag gGdsStrans_abs_angle gGdsStrans_mag gGdsStrans_angle st_reflected st_abs_mag st_abs_angle st_mag st_angle].
  destruct r, am, aa, mg, an; cbn; go.
Qed.

Lemma tie_encode_boundary : forall s x, len2_ok (b_xy x) -> g_encode_boundary emit s x = emit_all emit s (flat_boundary x).
Proof.
  intros s [ly dt xy fl pl ps] H. cbn [b_xy] in H.
  unfold g_encode_boundary, g_Encode_encode_boundary, Gboundary.
  cbn [gGdsBoundary_layer gGdsBoundary_datatype gGdsBoundary_xy gGdsBoundary_elflags gGdsBoundary_plex gGdsBoundary_properties
       b_layer b_datatype b_xy b_elflags b_plex b_props].
  rewrite (tie_flatten_vec xy H).
  unfold flat_boundary, flat_head, flat_tail, opt_rec, r_none, r_bits, r_i32, r_i16, r_xy.
  cbn [b_layer b_datatype b_xy b_elflags b_plex b_props].
  destruct fl as [[f0 f1]|], pl as [pl|]; cbn [option_map Gflags Gplex gGdsElemFlags_0 gGdsElemFlags_1 gGdsPlex_0 fst snd app]; go.
Qed.

Ltac hd2 :=
  match goal with
  | |- context [g_Encode_encode_strans gw_xops S bytes ?x ?s (Gstrans ?st)] => is_var s;
      change (g_Encode_encode_strans gw_xops S bytes x s (Gstrans st)) with (g_encode_strans emit s st); rewrite (tie_encode_strans s st)
  | |- context [emit_all emit ?s (?a ++ ?b)] => is_var s; rewrite (emit_all_app a b s)
  | |- context [emit_all emit ?s (flat_strans ?st)] => is_var s; destruct (emit_all emit s (flat_strans st)); cbn [obind]; try reflexivity
  | _ => hd
  end.
Ltac go2 := is; cbn [emit_all app flat_ostrans]; repeat (hd2; is; cbn [emit_all app]).
Ltac opts := cbn [option_map Gflags Gplex Gpres gGdsElemFlags_0 gGdsElemFlags_1 gGdsPresentation_0 gGdsPresentation_1 gGdsPlex_0 fst snd app].
Ltac unr := unfold flat_head, flat_tail, opt_rec, r_none, r_bits, r_i32, r_i16, r_xy, r_str.

Lemma tie_encode_path : forall s x, len2_ok (p_xy x) -> g_encode_path emit s x = emit_all emit s (flat_path x).
Proof.
  intros s [ly dt xy w pt be ee fl pl ps] H. cbn [p_xy] in H.
  unfold g_encode_path, g_Encode_encode_path, Gpath.
  cbn [gGdsPath_layer gGdsPath_datatype gGdsPath_xy gGdsPath_width gGdsPath_path_type gGdsPath_begin_extn gGdsPath_end_extn
       gGdsPath_elflags gGdsPath_plex gGdsPath_properties].
  cbn [p_layer p_datatype p_xy p_width p_path_type p_begin_extn p_end_extn p_elflags p_plex p_props].
  rewrite (tie_flatten_vec xy H).
  unfold flat_path. unr. cbn [p_layer p_datatype p_xy p_width p_path_type p_begin_extn p_end_extn p_elflags p_plex p_props].
  destruct fl as [[f0 f1]|], pl as [pl|], pt as [pt|], w as [w|], be as [be|], ee as [ee|]; opts; go.
Qed.

Lemma tie_encode_node : forall s x, len2_ok (n_xy x) -> g_encode_node emit s x = emit_all emit s (flat_node x).
Proof.
  intros s [ly nt xy fl pl ps] H. cbn [n_xy] in H.
  unfold g_encode_node, g_Encode_encode_node, Gnode.
  cbn [gGdsNode_layer gGdsNode_nodetype gGdsNode_xy gGdsNode_elflags gGdsNode_plex gGdsNode_properties
       n_layer n_nodetype n_xy n_elflags n_plex n_props].
  rewrite (tie_flatten_vec xy H).
  unfold flat_node. unr. cbn [n_layer n_nodetype n_xy n_elflags n_plex n_props].
  destruct fl as [[f0 f1]|], pl as [pl|]; opts; go.
Qed.

Lemma tie_encode_box : forall s x, len2_ok (x_xy x) -> g_encode_box emit s x = emit_all emit s (flat_box x).
Proof.
  intros s [ly bt xy fl pl ps] H. cbn [x_xy] in H.
  unfold g_encode_box, g_Encode_encode_box, Gbox.
  cbn [gGdsBox_layer gGdsBox_boxtype gGdsBox_xy gGdsBox_elflags gGdsBox_plex gGdsBox_properties
       x_layer x_boxtype x_xy x_elflags x_plex x_props].
  rewrite (tie_flatten_vec xy H).
  unfold flat_box. unr. cbn [x_layer x_boxtype x_xy x_elflags x_plex x_props].
  destruct fl as [[f0 f1]|], pl as [pl|]; opts; go.
Qed.

Lemma tie_encode_struct_ref : forall s x, g_encode_struct_ref emit s x = emit_all emit s (flat_sref x).
Proof.
  intros s [nm xy st fl pl ps].
  unfold g_encode_struct_ref, g_Encode_encode_struct_ref, Gsref.
  cbn [gGdsStructRef_name gGdsStructRef_xy gGdsStructRef_strans gGdsStructRef_elflags gGdsStructRef_plex gGdsStructRef_properties
       sr_name sr_xy sr_strans sr_elflags sr_plex sr_props].
  rewrite (tie_flatten xy).
  unfold flat_sref. unr. cbn [sr_name sr_xy sr_strans sr_elflags sr_plex sr_props].
  unfold flat_points. cbn [flat_map]. rewrite app_nil_r.
  destruct fl as [[f0 f1]|], pl as [pl|], st as [st|]; opts; go2.
Qed.

Lemma tie_encode_text_elem : forall s x, g_encode_text_elem emit s x = emit_all emit s (flat_text x).
Proof.
  intros s [str ly tt xy pr pt w st fl pl ps].
  unfold g_encode_text_elem, g_Encode_encode_text_elem, Gtext.
  cbn [gGdsTextElem_string gGdsTextElem_layer gGdsTextElem_texttype gGdsTextElem_xy gGdsTextElem_presentation gGdsTextElem_path_type
       gGdsTextElem_width gGdsTextElem_strans gGdsTextElem_elflags gGdsTextElem_plex gGdsTextElem_properties
       t_string t_layer t_texttype t_xy t_presentation t_path_type t_width t_strans t_elflags t_plex t_props].
  rewrite (tie_flatten xy).
  unfold flat_text. unr. cbn [t_string t_layer t_texttype t_xy t_presentation t_path_type t_width t_strans t_elflags t_plex t_props].
  unfold flat_points. cbn [flat_map]. rewrite app_nil_r.
  destruct fl as [[f0 f1]|], pl as [pl|], pr as [[p0 p1]|], pt as [pt|], w as [w|], st as [st|]; opts; go2.
Qed.

Lemma tie_encode_array_ref : forall s x, length (ar_xy x) = 3%nat -> g_encode_array_ref emit s x = emit_all emit s (flat_aref x).
Proof.
  intros s [nm xy c r st fl pl ps] H. cbn [ar_xy] in H.
  destruct xy as [|q0 [|q1 [|q2 [|q3 xy]]]]; try discriminate H.
  unfold g_encode_array_ref, g_Encode_encode_array_ref, Garef.
  cbn [gGdsArrayRef_name gGdsArrayRef_xy gGdsArrayRef_cols gGdsArrayRef_rows gGdsArrayRef_strans gGdsArrayRef_elflags gGdsArrayRef_plex
       gGdsArrayRef_properties ar_name ar_xy ar_cols ar_rows ar_strans ar_elflags ar_plex ar_props map].
  cbn [gw_xops kx_base gw_kops v_get i_lit]. unfold gw_get. change (0 <? 0) with false. change (1 <? 0) with false. change (2 <? 0) with false.
  cbv iota. change (Z.to_nat 0) with 0%nat. change (Z.to_nat 1) with 1%nat. change (Z.to_nat 2) with 2%nat. cbn [nth_error].
  is. unfold g_GdsPoint_flatten. is. cbn [Gpt gGdsPoint_x gGdsPoint_y app].
  unfold flat_aref. unr. cbn [ar_name ar_xy ar_cols ar_rows ar_strans ar_elflags ar_plex ar_props].
  unfold flat_points. cbn [flat_map flat_point app].
  destruct fl as [[f0 f1]|], pl as [pl|], st as [st|]; opts; go2.
Qed.

Lemma tie_encode_element : forall s x, element_len_ok x -> g_encode_element emit s x = emit_all emit s (flat_element x).
Proof.
  intros s x H. unfold g_encode_element, g_Encode_encode_element.
  destruct x as [x|x|x|x|x|x|x]; cbn [Gelement flat_element element_len_ok] in *; is.
  - change (g_Encode_encode_boundary gw_xops S bytes _ s (Gboundary x)) with (g_encode_boundary emit s x). rewrite (tie_encode_boundary s x H).
    destruct (emit_all emit s (flat_boundary x)); reflexivity.
  - change (g_Encode_encode_path gw_xops S bytes _ s (Gpath x)) with (g_encode_path emit s x). rewrite (tie_encode_path s x H).
    destruct (emit_all emit s (flat_path x)); reflexivity.
  - change (g_Encode_encode_struct_ref gw_xops S bytes _ s (Gsref x)) with (g_encode_struct_ref emit s x). rewrite (tie_encode_struct_ref s x).
    destruct (emit_all emit s (flat_sref x)); reflexivity.
  - change (g_Encode_encode_array_ref gw_xops S bytes _ s (Garef x)) with (g_encode_array_ref emit s x). rewrite (tie_encode_array_ref s x H).
    destruct (emit_all emit s (flat_aref x)); reflexivity.
  - change (g_Encode_encode_text_elem gw_xops S bytes _ s (Gtext x)) with (g_encode_text_elem emit s x). rewrite (tie_encode_text_elem s x).
    destruct (emit_all emit s (flat_text x)); reflexivity.
  - change (g_Encode_encode_node gw_xops S bytes _ s (Gnode x)) with (g_encode_node emit s x). rewrite (tie_encode_node s x H).
    destruct (emit_all emit s (flat_node x)); reflexivity.
  - change (g_Encode_encode_box gw_xops S bytes _ s (Gbox x)) with (g_encode_box emit s x). rewrite (tie_encode_box s x H).
    destruct (emit_all emit s (flat_box x)); reflexivity.
Qed.

(** `encode_datetimes`: twelve zeros, the two halves overwritten through `&mut rv[0..6]` / `&mut rv[6..12]` *)
Lemma tie_encode_datetimes : forall (s : S) d, g_encode_datetimes s d = Ok (flat_dates d).
Proof. intros s [[a0 a1 a2 a3 a4 a5] [b0 b1 b2 b3 b4 b5]]. reflexivity. Qed.

Lemma tie_encode_struct : forall s x, struct_len_ok x -> g_encode_struct emit s x = emit_all emit s (flat_struct x).
Proof.
  intros s [nm ds es] H. unfold struct_len_ok in H. cbn [s_elems] in H.
  unfold g_encode_struct, g_Encode_encode_struct, Gstruct. cbn [gGdsStruct_name gGdsStruct_dates gGdsStruct_elems s_name s_dates s_elems].
  change (g_Encode_encode_datetimes gw_xops S s (Gdts ds)) with (g_encode_datetimes s ds). rewrite tie_encode_datetimes.
  is. unfold x_records. cbn [map Grec].
  unfold flat_struct. unr. cbn [s_name s_dates s_elems emit_all app].
  destruct (emit s (BgnStruct, PI16 (flat_dates ds))) as [s1| | |]; cbn [obind]; try reflexivity.
  destruct (emit s1 (StructName, PStr nm)) as [s2| | |]; cbn [obind]; try reflexivity.
  rewrite (tie_foreach element _ Gelement _ flat_element element_len_ok) by
      (try exact H; intros a s0 Ha; cbv beta zeta delta [g_Encode_encode_struct_loop1]; is;
       change (g_Encode_encode_element gw_xops S bytes _ s0 (Gelement a)) with (g_encode_element emit s0 a);
       rewrite (tie_encode_element s0 a Ha); destruct (emit_all emit s0 (flat_element a)); reflexivity).
  rewrite emit_all_app. destruct (emit_all emit s2 (flat_map flat_element es)) as [s3| | |]; cbn [obind emit_all]; try reflexivity.
  destruct (emit s3 (EndStruct, PNone)); reflexivity.
Qed.

Lemma tie_encode_lib : forall s x, lib_len_ok x -> g_encode_lib emit s x = emit_all emit s (flatten_lib x).
Proof.
  intros s [nm v ds [u0 u1] ss] H. unfold lib_len_ok in H. cbn [l_structs] in H.
  unfold g_encode_lib, g_Encode_encode_lib, Glib.
  cbn [gGdsLibrary_name gGdsLibrary_version gGdsLibrary_dates gGdsLibrary_units gGdsLibrary_structs gGdsUnits_0 gGdsUnits_1 fst snd
       l_name l_version l_dates l_units l_structs].
  change (g_Encode_encode_datetimes gw_xops S s (Gdts ds)) with (g_encode_datetimes s ds). rewrite tie_encode_datetimes.
  is. unfold x_records. cbn [map Grec].
  unfold flatten_lib. unr. cbn [l_name l_version l_dates l_units l_structs fst snd emit_all app].
  destruct (emit s (Header, PI16 [v])) as [s1| | |]; cbn [obind]; try reflexivity.
  destruct (emit s1 (BgnLib, PI16 (flat_dates ds))) as [s2| | |]; cbn [obind]; try reflexivity.
  destruct (emit s2 (LibName, PStr nm)) as [s3| | |]; cbn [obind]; try reflexivity.
  destruct (emit s3 (Units, PF64 [u0; u1])) as [s4| | |]; cbn [obind]; try reflexivity.
  rewrite (tie_foreach gstruct _ Gstruct _ flat_struct struct_len_ok) by
      (try exact H; intros a s0 Ha; cbv beta zeta delta [g_Encode_encode_lib_loop1]; is;
       change (g_Encode_encode_struct gw_xops S bytes _ _ s0 (Gstruct a)) with (g_encode_struct emit s0 a);
       rewrite (tie_encode_struct s0 a Ha); destruct (emit_all emit s0 (flat_struct a)); reflexivity).
  rewrite emit_all_app. destruct (emit_all emit s4 (flat_map flat_struct ss)) as [s5| | |]; cbn [obind emit_all]; try reflexivity.
  destruct (emit s5 (EndLib, PNone)); reflexivity.
Qed.
End Ties.

(** * the writer over a byte vector: `encode_record` = [enc_record] appended to the bytes written so far *)
Definition emit_bytes (acc : bytes) (r : record) : gres bytes :=
  match enc_record r with Ok b => Ok (acc ++ b) | Err e => Err e | Panic => Panic | OutOfFuel => OutOfFuel end.
Lemma write_records_emit : forall rs acc,
  emit_all emit_bytes acc rs = match write_records rs with Ok bs => Ok (acc ++ bs) | Err e => Err e | Panic => Panic | OutOfFuel => OutOfFuel end.
Proof.
  induction rs as [|r rs IH]; intros acc; cbn [emit_all write_records].
  - rewrite app_nil_r. reflexivity.
  - unfold emit_bytes at 1. destruct (enc_record r) as [b| | |]; cbn [obind]; try reflexivity.
    rewrite IH. destruct (write_records rs); try reflexivity. rewrite app_assoc. reflexivity.
Qed.
(** `GdsLibrary::write` into a Vec<u8> = [write_lib] *)
Lemma tie_write_lib : forall l, lib_len_ok l -> g_encode_lib emit_bytes [] l = write_lib l.
Proof.
  intros l H. rewrite (tie_encode_lib emit_bytes [] l H). rewrite write_records_emit. unfold write_lib.
  destruct (write_records (flatten_lib l)); reflexivity.
Qed.
