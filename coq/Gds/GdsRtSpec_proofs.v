(** Self-consistency of the format specification Gds/GdsSpec.v: the reference decoder [spec_parse]
    inverts the reference encoder [spec_render] (arbitrary bytes may follow the stream), and the
    reference encoding is a well-formed stream [stream_wf]. Used for the corollaries of C02 and for C03.
    Phase 1: [split_stream]; phase 2: the top-down parser [p_library] over the record list. *)
From Coq Require Import ZArith Bool List Lia.
From L21 Require Import Base.Outcome Base.Hex Base.F64 Gds.GdsReal Gds.GdsReal_proofs Gds.GdsData Gds.GdsRecord
  Gds.GdsWrite Gds.GdsRead Gds.GdsSpec Gds.GdsRtDefs Gds.GdsBytes_proofs Gds.GdsWrite_proofs
  Gds.GdsRtUnfold_proofs Gds.GdsRtRead_proofs Gds.GdsRoundtrip_proofs.
Import ListNotations.
Local Open Scope Z_scope.

(** * Phase 1: splitting by length fields *)
Lemma GdsRtS_cut (a b : bytes) n : n = Z.of_nat (length a) -> cut n (a ++ b) = Some (a, b).
Proof.
  intros ->. unfold cut. rewrite Nat2Z.id, app_length.
  destruct (Nat.leb_spec (length a) (length a + length b)); [|lia].
  destruct (firstn_skipn_app a b) as [H1 H2]. rewrite H1, H2. reflexivity.
Qed.

Lemma GdsRtS_split_one r rest fuel :
  rec_goodb r = true ->
  split_records (S fuel) (encb r ++ rest) =
    if is_endlib r then Some ([GdsW_srec_of r], rest)
    else match split_records fuel rest with
         | Some (rs, t) => Some (GdsW_srec_of r :: rs, t)
         | None => None
         end.
Proof.
  unfold rec_goodb, rec_fitsb. rewrite !andb_true_iff. intros [[Hf Hv] Hp].
  unfold encb, GdsW_srec_of. destruct (rec_len r) as [[dt len]|] eqn:HL; [|discriminate]. apply Z.leb_le in Hf.
  destruct (GdsRt_rec_len_facts r dt len HL) as [H0 H2].
  pose proof (GdsW_payload_len r dt len HL) as Hpl.
  unfold be16. cbn [app split_records].
  change ((len + 4) / 256 mod 256 * 256 + (len + 4) mod 256) with (u16_of ((len + 4) / 256 mod 256) ((len + 4) mod 256)).
  rewrite u16_of_be16 by lia.
  destruct (Z.ltb_spec (len + 4) 4); [lia|].
  assert (Ho : Z.odd (len + 4) = false).
  { rewrite <- Z.negb_even. apply negb_false_iff. apply Z.even_spec. exists (len / 2 + 2). Z.div_mod_to_equations; lia. }
  rewrite Ho. cbn [orb].
  rewrite GdsRtS_cut by (unfold zlen in Hpl; lia).
  destruct r as [rt pl]. cbn [fst snd is_endlib]. destruct rt; reflexivity.
Qed.

Lemma GdsRtS_split rs : forall tail fuel,
  wfRb rs = true -> (length rs <= fuel)%nat ->
  split_records fuel (flat_map encb rs ++ tail) = Some (map GdsW_srec_of rs, tail).
Proof.
  induction rs as [|r rs IH]; intros tail fuel Hw Hf; [discriminate|].
  destruct fuel as [|fuel]; [cbn in Hf; lia|].
  cbn [flat_map map]. rewrite <- app_assoc. rewrite GdsRtS_split_one by (apply (wfRb_hd_good _ _ Hw)).
  destruct (is_endlib r) eqn:E.
  - cbn [wfRb] in Hw. destruct rs as [|r' rs']; [reflexivity|].
    rewrite E in Hw. cbn in Hw. rewrite andb_false_r in Hw. discriminate.
  - destruct (wfRb_cons _ _ Hw E) as (_ & Hw' & _). rewrite IH; [reflexivity | exact Hw' | cbn in Hf; lia].
Qed.

Lemma GdsRtS_split_stream rs tail :
  wfRb rs = true -> split_stream (flat_map encb rs ++ tail) = Some (map GdsW_srec_of rs, tail).
Proof.
  intros Hw. unfold split_stream. apply GdsRtS_split; [exact Hw|].
  pose proof (GdsRt_bytes_length rs (wfRb_all_good rs Hw)). rewrite app_length. lia.
Qed.

(** * Phase 2: parser combinators *)
Definition hdc (rs : list srec) : Z := match rs with (c, _, _) :: _ => c | [] => -1 end.

Lemma pbind_some {A B} (p : P A) (f : A -> P B) rs a r : p rs = Some (a, r) -> pbind p f rs = f a r.
Proof. intros H. unfold pbind. rewrite H. reflexivity. Qed.
Lemma pbind_none {A B} (p : P A) (f : A -> P B) rs : p rs = None -> pbind p f rs = None.
Proof. intros H. unfold pbind. rewrite H. reflexivity. Qed.

Lemma p_rec_hit rt dt pl r : p_rec rt dt ((rt, dt, pl) :: r) = Some (pl, r).
Proof. unfold p_rec. rewrite !Z.eqb_refl. reflexivity. Qed.
Lemma p_rec_miss rt dt rs : hdc rs <> rt -> p_rec rt dt rs = None.
Proof.
  destruct rs as [|[[c d] pl] r]; cbn [hdc p_rec]; [reflexivity|]. intros H.
  destruct (Z.eqb_spec c rt); [contradiction | reflexivity].
Qed.

Lemma p_none_hit rt r : p_none rt (s_none rt :: r) = Some (tt, r).
Proof. unfold p_none, s_none. rewrite (pbind_some _ _ _ _ _ (p_rec_hit _ _ _ _)). reflexivity. Qed.
Lemma p_none_miss rt rs : hdc rs <> rt -> p_none rt rs = None.
Proof. intros H. unfold p_none. apply pbind_none, p_rec_miss, H. Qed.

Lemma GdsRtS_i16_range x : i16b x = true -> - 256 ^ Z.of_nat 2 <= 2 * x < 256 ^ Z.of_nat 2.
Proof. intros H. apply i16b_iff in H. change (256 ^ Z.of_nat 2) with 65536. lia. Qed.
Lemma GdsRtS_i32_range x : i32b x = true -> - 256 ^ Z.of_nat 4 <= 2 * x < 256 ^ Z.of_nat 4.
Proof. intros H. apply i32b_iff in H. change (256 ^ Z.of_nat 4) with 4294967296. lia. Qed.

Lemma p_i16s_hit rt l r : forallb i16b l = true -> p_i16s rt (s_i16 rt l :: r) = Some (l, r).
Proof.
  intros H. unfold p_i16s, s_i16. rewrite (pbind_some _ _ _ _ _ (p_rec_hit _ _ _ _)).
  unfold p_lift. rewrite dec_ints_enc_ints; [reflexivity | lia |].
  apply forallb_Forall in H. eapply Forall_impl; [|exact H]. intros x Hx. apply GdsRtS_i16_range, Hx.
Qed.
Lemma p_i32s_hit rt l r : forallb i32b l = true -> p_i32s rt (s_i32 rt l :: r) = Some (l, r).
Proof.
  intros H. unfold p_i32s, s_i32. rewrite (pbind_some _ _ _ _ _ (p_rec_hit _ _ _ _)).
  unfold p_lift. rewrite dec_ints_enc_ints; [reflexivity | lia |].
  apply forallb_Forall in H. eapply Forall_impl; [|exact H]. intros x Hx. apply GdsRtS_i32_range, Hx.
Qed.
Lemma p_i16_hit rt x r : i16b x = true -> p_i16 rt (s_i16 rt [x] :: r) = Some (x, r).
Proof. intros H. unfold p_i16. rewrite (pbind_some _ _ _ _ _ (p_i16s_hit rt [x] r ltac:(cbn; rewrite H; reflexivity))). reflexivity. Qed.
Lemma p_i32_hit rt x r : i32b x = true -> p_i32 rt (s_i32 rt [x] :: r) = Some (x, r).
Proof. intros H. unfold p_i32. rewrite (pbind_some _ _ _ _ _ (p_i32s_hit rt [x] r ltac:(cbn; rewrite H; reflexivity))). reflexivity. Qed.
Lemma p_i16_miss rt rs : hdc rs <> rt -> p_i16 rt rs = None.
Proof. intros H. unfold p_i16, p_i16s. apply pbind_none, pbind_none, p_rec_miss, H. Qed.
Lemma p_i32_miss rt rs : hdc rs <> rt -> p_i32 rt rs = None.
Proof. intros H. unfold p_i32, p_i32s. apply pbind_none, pbind_none, p_rec_miss, H. Qed.
Lemma p_bits_hit rt b r : p_bits rt (s_bits rt b :: r) = Some (b, r).
Proof. unfold p_bits, s_bits. rewrite (pbind_some _ _ _ _ _ (p_rec_hit _ _ _ _)). destruct b. reflexivity. Qed.
Lemma p_bits_miss rt rs : hdc rs <> rt -> p_bits rt rs = None.
Proof. intros H. unfold p_bits. apply pbind_none, p_rec_miss, H. Qed.

Lemma GdsRtS_dec_string s : even_trailing_nul s = false -> dec_string (enc_string s) = s.
Proof.
  unfold even_trailing_nul, enc_string, dec_string. destruct (Z.even (Z.of_nat (length s))) eqn:E; cbn [andb].
  - intros H. destruct s as [|x s]; [reflexivity|]. rewrite H. reflexivity.
  - intros _. destruct (s ++ [0]) eqn:E2; [destruct s; discriminate|]. rewrite <- E2.
    rewrite last_last. cbn [Z.eqb]. apply removelast_last.
Qed.
Lemma p_str_hit rt s r : even_trailing_nul s = false -> p_str rt (s_str rt s :: r) = Some (s, r).
Proof.
  intros H. unfold p_str, s_str. rewrite (pbind_some _ _ _ _ _ (p_rec_hit _ _ _ _)). unfold pret.
  rewrite GdsRtS_dec_string by exact H. reflexivity.
Qed.

Lemma GdsRtS_dec_reals l :
  dec_reals (flat_map enc_real l) = Some (map (fun x => gds_decode (gds_spec_encode x mod two64)) l).
Proof.
  unfold dec_reals, enc_real.
  rewrite (length_flat_map_const (fun x => be_nat 8 (gds_spec_encode x)) 8) by (intros; apply be_nat_length).
  rewrite Nat.mul_comm, Nat.mod_mul by lia. cbn [Nat.eqb].
  rewrite <- (GdsW_flat_map_map gds_spec_encode (be_nat 8)).
  rewrite chunks_be_nat by (rewrite ?map_length; lia).
  rewrite !map_map. f_equal. apply map_ext. intros x. rewrite unsigned_be_be_nat. reflexivity.
Qed.
Lemma GdsRtS_real_ok_spec x : real_okb x = true -> gds_decode (gds_spec_encode x mod two64) = canon_real x.
Proof.
  intros H. rewrite <- (GdsW_real_ok_encode x H), <- (GdsW_real_ok_rd x H). unfold rd_real.
  rewrite Z.mod_small by apply GdsW_encode_word. reflexivity.
Qed.
Lemma p_reals_hit rt l r :
  forallb real_okb l = true -> p_reals rt (s_real rt l :: r) = Some (map canon_real l, r).
Proof.
  intros H. unfold p_reals, s_real. rewrite (pbind_some _ _ _ _ _ (p_rec_hit _ _ _ _)).
  unfold p_lift. rewrite GdsRtS_dec_reals. do 2 f_equal. apply map_ext_in. intros x Hx.
  apply GdsRtS_real_ok_spec. rewrite forallb_forall in H. apply H, Hx.
Qed.
Lemma p_real_hit rt x r : real_okb x = true -> p_real rt (s_real rt [x] :: r) = Some (canon_real x, r).
Proof.
  intros H. unfold p_real. rewrite (pbind_some _ _ _ _ _ (p_reals_hit rt [x] r ltac:(cbn; rewrite H; reflexivity))). reflexivity.
Qed.
Lemma p_real_miss rt rs : hdc rs <> rt -> p_real rt rs = None.
Proof. intros H. unfold p_real, p_reals. apply pbind_none, pbind_none, p_rec_miss, H. Qed.

Lemma p_opt_some {A} (p : P A) rs a r : p rs = Some (a, r) -> p_opt p rs = Some (Some a, r).
Proof. intros H. unfold p_opt. rewrite H. reflexivity. Qed.
Lemma p_opt_none {A} (p : P A) rs : p rs = None -> p_opt p rs = Some (None, rs).
Proof. intros H. unfold p_opt. rewrite H. reflexivity. Qed.

(** an optional record: present, or the next record is of another type *)
Lemma p_opt_i16 rt o rest :
  opt_okb i16b o = true -> hdc rest <> rt ->
  p_opt (p_i16 rt) (s_opt (fun v => s_i16 rt [v]) o ++ rest) = Some (o, rest).
Proof.
  destruct o as [x|]; cbn [s_opt app opt_okb]; intros H Hh.
  - apply p_opt_some, p_i16_hit, H.
  - apply p_opt_none, p_i16_miss, Hh.
Qed.
Lemma p_opt_i32 rt o rest :
  opt_okb i32b o = true -> hdc rest <> rt ->
  p_opt (p_i32 rt) (s_opt (fun v => s_i32 rt [v]) o ++ rest) = Some (o, rest).
Proof.
  destruct o as [x|]; cbn [s_opt app opt_okb]; intros H Hh.
  - apply p_opt_some, p_i32_hit, H.
  - apply p_opt_none, p_i32_miss, Hh.
Qed.
Lemma p_opt_bits rt o rest :
  hdc rest <> rt -> p_opt (p_bits rt) (s_opt (s_bits rt) o ++ rest) = Some (o, rest).
Proof.
  destruct o as [x|]; cbn [s_opt app]; intros Hh.
  - apply p_opt_some, p_bits_hit.
  - apply p_opt_none, p_bits_miss, Hh.
Qed.
Lemma p_opt_real rt o rest :
  opt_okb real_okb o = true -> hdc rest <> rt ->
  p_opt (p_real rt) (s_opt (fun x => s_real rt [x]) o ++ rest) = Some (option_map canon_real o, rest).
Proof.
  destruct o as [x|]; cbn [s_opt app opt_okb option_map]; intros H Hh.
  - apply p_opt_some, p_real_hit, H.
  - apply p_opt_none, p_real_miss, Hh.
Qed.

(** * Phase 2: the grammar *)
(** solve [hdc (optional records ++ ... ++ definite record :: _) <> code] *)
Ltac GdsRtS_hd :=
  repeat match goal with
         | |- context [s_opt _ ?o] => destruct o; cbn [s_opt app]
         | |- context [g_strans ?o] => destruct o; cbn [g_strans app]
         end;
  cbn [hdc app s_opt g_strans s_i32 s_i16 s_bits s_real s_none s_str s_xy s_dts];
  first [assumption | discriminate | lia].
Ltac GdsRtS_step L := erewrite pbind_some; [| apply L; first [assumption | GdsRtS_hd | idtac]].
Lemma p_flags_ok fl pl rest :
  opt_okb i32b pl = true -> hdc rest <> 0x26 -> hdc rest <> 0x2F ->
  p_flags (g_flags fl pl ++ rest) = Some ((fl, pl), rest).
Proof.
  intros Hp H1 H2. unfold p_flags, g_flags. rewrite <- app_assoc.
  GdsRtS_step p_opt_bits. GdsRtS_step p_opt_i32. reflexivity.
Qed.

Lemma GdsRtS_strans_mk s m a :
  mkStrans (Z.testbit (unsigned_be [strans_word s / 256 mod 256; strans_word s mod 256]) (15 - 0))
           (Z.testbit (unsigned_be [strans_word s / 256 mod 256; strans_word s mod 256]) (15 - 13))
           (Z.testbit (unsigned_be [strans_word s / 256 mod 256; strans_word s mod 256]) (15 - 14)) m a =
  mkStrans (st_reflected s) (st_abs_mag s) (st_abs_angle s) m a.
Proof. unfold strans_word. destruct (st_reflected s), (st_abs_mag s), (st_abs_angle s); reflexivity. Qed.

Lemma p_strans_ok s rest :
  strans_okb s = true -> hdc rest <> 0x1B -> hdc rest <> 0x1C ->
  p_strans (g_strans (Some s) ++ rest) = Some (strans_map_reals canon_real s, rest).
Proof.
  unfold strans_okb. rewrite andb_true_iff. intros [Hm Ha] H1 H2.
  unfold g_strans. cbn [app]. rewrite <- app_assoc. unfold p_strans.
  rewrite (pbind_some _ _ _ _ _ (p_rec_hit _ _ _ _)).
  change (be_nat 2 (strans_word s)) with [strans_word s / 256 mod 256; strans_word s mod 256]. cbv iota beta.
  GdsRtS_step p_opt_real. GdsRtS_step p_opt_real.
  unfold pret, strans_map_reals. rewrite GdsRtS_strans_mk. reflexivity.
Qed.

Lemma p_opt_strans o rest :
  opt_okb strans_okb o = true -> hdc rest <> 0x1A -> hdc rest <> 0x1B -> hdc rest <> 0x1C ->
  p_opt p_strans (g_strans o ++ rest) = Some (option_map (strans_map_reals canon_real) o, rest).
Proof.
  destruct o as [s|]; cbn [opt_okb option_map]; intros H H0 H1 H2.
  - apply p_opt_some, p_strans_ok; assumption.
  - cbn [g_strans app]. apply p_opt_none. unfold p_strans. apply pbind_none, p_rec_miss, H0.
Qed.

Lemma p_props_ok ps : forall fuel rest,
  forallb prop_okb ps = true -> existsb even_trailing_nul (props_strings ps) = false ->
  hdc rest <> 0x2B -> (length ps <= fuel)%nat ->
  p_props fuel (g_props ps ++ rest) = Some (ps, rest).
Proof.
  unfold g_props, props_strings. induction ps as [|[attr v] ps IH]; intros fuel rest Hok Hk Hh Hf.
  - cbn [flat_map app]. destruct fuel; [reflexivity|]. cbn [p_props]. rewrite p_i16_miss by exact Hh. reflexivity.
  - destruct fuel as [|fuel]; [cbn in Hf; lia|].
    cbn [forallb map existsb flat_map app pr_attr pr_value] in *. unfold prop_okb in Hok at 1. cbn [pr_attr pr_value] in Hok.
    GdsRt_bsplit. cbn [p_props]. rewrite p_i16_hit by assumption.
    rewrite (pbind_some _ _ _ _ _ (p_str_hit 0x2C v _ ltac:(assumption))).
    rewrite (pbind_some _ _ _ _ _ (IH fuel rest ltac:(assumption) ltac:(assumption) Hh ltac:(cbn in Hf; lia))).
    reflexivity.
Qed.

Lemma GdsRtS_len_props ps : length (g_props ps) = (2 * length ps)%nat.
Proof. unfold g_props. apply length_flat_map_const. reflexivity. Qed.

Lemma p_tail_ok ps rest :
  forallb prop_okb ps = true -> existsb even_trailing_nul (props_strings ps) = false ->
  p_tail (g_props ps ++ s_none 0x11 :: rest) = Some (ps, rest).
Proof.
  intros Hok Hk. unfold p_tail.
  erewrite pbind_some; [| apply p_props_ok; [exact Hok | exact Hk | GdsRtS_hd | rewrite app_length, GdsRtS_len_props; lia]].
  cbn [app]. rewrite (pbind_some _ _ _ _ _ (p_none_hit 0x11 rest)). reflexivity.
Qed.

Lemma GdsRtS_to_points l : to_points (flat_map (fun p => [px p; py p]) l) = Some l.
Proof. induction l as [|[x y] l IH]; [reflexivity|]. cbn [flat_map app px py to_points]. rewrite IH. reflexivity. Qed.
Lemma GdsRtS_points_ok l : forallb point_okb l = true -> forallb i32b (flat_map (fun p => [px p; py p]) l) = true.
Proof. exact (GdsRt_val_points l). Qed.
Lemma p_xy_hit l r : forallb point_okb l = true -> p_xy (s_xy l :: r) = Some (l, r).
Proof.
  intros H. unfold p_xy, s_xy. rewrite (pbind_some _ _ _ _ _ (p_i32s_hit _ _ r (GdsRtS_points_ok l H))).
  unfold p_lift. rewrite GdsRtS_to_points. reflexivity.
Qed.
Lemma p_xy1_hit p r : point_okb p = true -> p_xy1 (s_xy [p] :: r) = Some (p, r).
Proof.
  intros H. unfold p_xy1. rewrite (pbind_some _ _ _ _ _ (p_xy_hit [p] r ltac:(cbn; rewrite H; reflexivity))). reflexivity.
Qed.
Lemma p_xy_n_hit n l r : forallb point_okb l = true -> length l = n -> p_xy_n n (s_xy l :: r) = Some (l, r).
Proof.
  intros H Hn. unfold p_xy_n. rewrite (pbind_some _ _ _ _ _ (p_xy_hit l r H)). rewrite Hn, Nat.eqb_refl. reflexivity.
Qed.


Lemma p_element_ok e rest :
  element_okb e = true -> existsb even_trailing_nul (element_strings e) = false ->
  p_element (g_element e ++ rest) = Some (element_map_reals canon_real e, rest).
Proof.
  destruct e as [[layer dt xy fl pl ps]|[layer dt xy w pt be ee fl pl ps]|[name xy st fl pl ps]|[name xy cols rows st fl pl ps]
                 |[str layer tt xy pres pt w st fl pl ps]|[layer nt xy fl pl ps]|[layer bt xy fl pl ps]];
    cbn [element_okb element_strings g_element existsb element_map_reals].
  - unfold boundary_okb. cbn [b_layer b_datatype b_xy b_elflags b_plex b_props]. intros Hok Hk. GdsRt_bsplit.
    GdsRt_norm. unfold p_element, s_none at 1. cbv iota beta. cbn [Z.eqb Pos.eqb]. cbv iota.
    GdsRtS_step p_flags_ok.
    GdsRtS_step p_i16_hit. GdsRtS_step p_i16_hit. GdsRtS_step p_xy_hit. GdsRtS_step p_tail_ok. reflexivity.
  - unfold path_okb. cbn [p_layer p_datatype GdsData.p_xy p_width p_path_type p_begin_extn p_end_extn p_elflags p_plex GdsData.p_props].
    intros Hok Hk. GdsRt_bsplit.
    GdsRt_norm. unfold p_element, s_none at 1. cbv iota beta. cbn [Z.eqb Pos.eqb]. cbv iota.
    GdsRtS_step p_flags_ok. GdsRtS_step p_i16_hit. GdsRtS_step p_i16_hit.
    GdsRtS_step p_opt_i16. GdsRtS_step p_opt_i32. GdsRtS_step p_opt_i32. GdsRtS_step p_opt_i32.
    GdsRtS_step p_xy_hit. GdsRtS_step p_tail_ok. reflexivity.
  - unfold sref_okb. cbn [sr_name sr_xy sr_strans sr_elflags sr_plex sr_props]. intros Hok Hk. GdsRt_bsplit.
    GdsRt_norm. unfold p_element, s_none at 1. cbv iota beta. cbn [Z.eqb Pos.eqb]. cbv iota.
    GdsRtS_step p_flags_ok. GdsRtS_step p_str_hit. GdsRtS_step p_opt_strans.
    GdsRtS_step p_xy1_hit. GdsRtS_step p_tail_ok. reflexivity.
  - unfold aref_okb. cbn [ar_name ar_xy ar_cols ar_rows ar_strans ar_elflags ar_plex ar_props]. intros Hok Hk. GdsRt_bsplit.
    GdsRt_norm. unfold p_element, s_none at 1. cbv iota beta. cbn [Z.eqb Pos.eqb]. cbv iota.
    GdsRtS_step p_flags_ok. GdsRtS_step p_str_hit. GdsRtS_step p_opt_strans.
    erewrite pbind_some; [| apply p_i16s_hit; cbn [forallb]; GdsRt_brew; reflexivity]. cbv iota beta.
    erewrite pbind_some; [| apply p_xy_n_hit; [assumption | match goal with H : (_ =? 3) = true |- _ => apply Z.eqb_eq in H; lia end]].
    GdsRtS_step p_tail_ok. reflexivity.
  - unfold text_okb. cbn [t_string t_layer t_texttype t_xy t_presentation t_path_type t_width t_strans t_elflags t_plex t_props].
    intros Hok Hk. GdsRt_bsplit.
    GdsRt_norm. unfold p_element, s_none at 1. cbv iota beta. cbn [Z.eqb Pos.eqb]. cbv iota.
    GdsRtS_step p_flags_ok. GdsRtS_step p_i16_hit. GdsRtS_step p_i16_hit.
    GdsRtS_step p_opt_bits. GdsRtS_step p_opt_i16. GdsRtS_step p_opt_i32. GdsRtS_step p_opt_strans.
    GdsRtS_step p_xy1_hit. GdsRtS_step p_str_hit. GdsRtS_step p_tail_ok. reflexivity.
  - unfold node_okb. cbn [n_layer n_nodetype n_xy n_elflags n_plex n_props]. intros Hok Hk. GdsRt_bsplit.
    GdsRt_norm. unfold p_element, s_none at 1. cbv iota beta. cbn [Z.eqb Pos.eqb]. cbv iota.
    GdsRtS_step p_flags_ok.
    GdsRtS_step p_i16_hit. GdsRtS_step p_i16_hit. GdsRtS_step p_xy_hit. GdsRtS_step p_tail_ok. reflexivity.
  - unfold box_okb. cbn [x_layer x_boxtype x_xy x_elflags x_plex x_props]. intros Hok Hk. GdsRt_bsplit.
    GdsRt_norm. unfold p_element, s_none at 1. cbv iota beta. cbn [Z.eqb Pos.eqb]. cbv iota.
    GdsRtS_step p_flags_ok. GdsRtS_step p_i16_hit. GdsRtS_step p_i16_hit.
    erewrite pbind_some; [| apply p_xy_n_hit; [assumption | match goal with H : (_ =? 5) = true |- _ => apply Z.eqb_eq in H; lia end]].
    GdsRtS_step p_tail_ok. reflexivity.
Qed.

Lemma GdsRtS_hdc_element e rest : hdc (g_element e ++ rest) <> 0x07 /\ hdc (g_element e ++ rest) <> 0x04.
Proof. destruct e; cbn; split; discriminate. Qed.
Lemma GdsRtS_len_element e : (1 <= length (g_element e))%nat.
Proof. destruct e; cbn; lia. Qed.

Lemma p_elements_ok es : forall fuel rest,
  forallb element_okb es = true -> existsb even_trailing_nul (flat_map element_strings es) = false ->
  (length es < fuel)%nat ->
  p_elements fuel (flat_map g_element es ++ s_none 0x07 :: rest) = Some (map (element_map_reals canon_real) es, rest).
Proof.
  induction es as [|e es IH]; intros fuel rest Hok Hk Hf; (destruct fuel as [|fuel]; [cbn in Hf; lia|]).
  - cbn [flat_map app p_elements map]. rewrite p_none_hit. reflexivity.
  - cbn [flat_map forallb map] in *. rewrite existsb_app in Hk. GdsRt_bsplit. rewrite <- app_assoc.
    cbn [p_elements]. rewrite p_none_miss by apply GdsRtS_hdc_element.
    erewrite pbind_some; [| apply p_element_ok; assumption].
    erewrite pbind_some; [| apply IH; [assumption | assumption | cbn in Hf; lia]].
    reflexivity.
Qed.

Lemma GdsRtS_len_elements es : (length es <= length (flat_map g_element es))%nat.
Proof.
  induction es as [|e es IH]; cbn [flat_map length]; [lia|]. rewrite app_length.
  pose proof (GdsRtS_len_element e). lia.
Qed.

Lemma p_dates_hit rt d r : dts_okb d = true -> p_dates rt (s_dts rt d :: r) = Some (d, r).
Proof.
  intros H. unfold p_dates, s_dts.
  erewrite pbind_some; [| apply p_i16s_hit; exact (GdsRt_val_dates d H)].
  destruct d as [[? ? ? ? ? ?] [? ? ? ? ? ?]]. reflexivity.
Qed.

Lemma p_structure_ok s rest :
  struct_okb s = true -> existsb even_trailing_nul (struct_strings s) = false ->
  p_structure (g_struct s ++ rest) = Some (struct_map_reals canon_real s, rest).
Proof.
  destruct s as [name d es]. unfold struct_okb, struct_strings, g_struct. cbn [s_name s_dates s_elems existsb].
  intros Hok Hk. GdsRt_bsplit. GdsRt_norm. unfold p_structure.
  GdsRtS_step p_dates_hit. GdsRtS_step p_str_hit.
  erewrite pbind_some; [| apply p_elements_ok; [assumption | assumption |]].
  - reflexivity.
  - cbn [length]. rewrite app_length. pose proof (GdsRtS_len_elements es). lia.
Qed.

Lemma GdsRtS_hdc_struct s rest : hdc (g_struct s ++ rest) <> 0x04.
Proof. cbn. discriminate. Qed.

Lemma p_structures_ok ss : forall fuel rest,
  forallb struct_okb ss = true -> existsb even_trailing_nul (flat_map struct_strings ss) = false ->
  (length ss < fuel)%nat ->
  p_structures fuel (flat_map g_struct ss ++ s_none 0x04 :: rest) = Some (map (struct_map_reals canon_real) ss, rest).
Proof.
  induction ss as [|s ss IH]; intros fuel rest Hok Hk Hf; (destruct fuel as [|fuel]; [cbn in Hf; lia|]).
  - cbn [flat_map app p_structures map]. rewrite p_none_hit. reflexivity.
  - cbn [flat_map forallb map] in *. rewrite existsb_app in Hk. GdsRt_bsplit. rewrite <- app_assoc.
    cbn [p_structures]. rewrite p_none_miss by apply GdsRtS_hdc_struct.
    erewrite pbind_some; [| apply p_structure_ok; assumption].
    erewrite pbind_some; [| apply IH; [assumption | assumption | cbn in Hf; lia]].
    reflexivity.
Qed.

Lemma GdsRtS_len_structs ss : (length ss <= length (flat_map g_struct ss))%nat.
Proof.
  induction ss as [|s ss IH]; cbn [flat_map length]; [lia|]. rewrite app_length. cbn [g_struct app length]. lia.
Qed.

Theorem p_library_ok l :
  lib_ok l -> ~ KnownClass_C01 l -> p_library (g_library l) = Some (lib_canon l, []).
Proof.
  intros Hok Hk. apply GdsRt_not_known in Hk. destruct l as [name ver dates [u0 u1] ss].
  unfold lib_ok, lib_okb, known_class_c01b, lib_strings in *.
  cbn [l_name l_version l_dates l_units l_structs fst snd existsb] in *. GdsRt_bsplit.
  unfold g_library, g_library_with. cbn [l_name l_version l_dates l_units l_structs fst snd app].
  unfold p_library.
  GdsRtS_step p_i16_hit. GdsRtS_step p_dates_hit. GdsRtS_step p_str_hit.
  erewrite pbind_some; [| apply p_reals_hit; cbn [forallb]; GdsRt_brew; reflexivity].
  cbn [map]. cbv iota beta.
  erewrite pbind_some; [| apply p_structures_ok; [assumption | assumption |]].
  - reflexivity.
  - cbn [length]. rewrite app_length. pose proof (GdsRtS_len_structs ss). cbn [length]. lia.
Qed.

(** * The reference decoder on the reference encoding *)
Theorem GdsRtS_g_library_srecs l : lib_ok l -> map GdsW_srec_of (flatten_lib l) = g_library l.
Proof.
  intros Hok. apply GdsW_map_library. intros x Hx. apply GdsW_real_ok_encode, (GdsRt_lib_ok_reals l Hok x Hx).
Qed.

Theorem GdsRtS_spec_render_encb l : lib_ok l -> spec_render l = flat_map encb (flatten_lib l).
Proof.
  intros Hok. apply GdsW_spec_render_eq. intros x Hx. apply GdsW_real_ok_encode, (GdsRt_lib_ok_reals l Hok x Hx).
Qed.

Theorem GdsRtS_split_render l tail :
  lib_ok l -> ~ KnownClass_C01 l -> lib_fitsb l = true ->
  split_stream (spec_render l ++ tail) = Some (g_library l, tail).
Proof.
  intros Hok Hk Hf. rewrite (GdsRtS_spec_render_encb l Hok), <- (GdsRtS_g_library_srecs l Hok).
  apply GdsRtS_split_stream, GdsRt_wfRb_lib; [apply GdsRt_lib_ok_shape, Hok | apply GdsRt_not_known, Hk | exact Hf].
Qed.

Theorem GdsRtS_spec_parse_render l tail :
  lib_ok l -> ~ KnownClass_C01 l -> lib_fitsb l = true ->
  spec_parse (spec_render l ++ tail) = Some (lib_canon l).
Proof.
  intros Hok Hk Hf. unfold spec_parse. rewrite (GdsRtS_split_render l tail Hok Hk Hf), (p_library_ok l Hok Hk). reflexivity.
Qed.

(** every record of the reference encoding is in the specification's table *)
Lemma GdsRtS_table_opt {A} (f : A -> srec) o : (forall x, srec_in_table (f x) = true) -> forallb srec_in_table (s_opt f o) = true.
Proof. intros H. destruct o; cbn; [rewrite H|]; reflexivity. Qed.
Lemma GdsRtS_table_props ps : forallb srec_in_table (g_props ps) = true.
Proof. unfold g_props. rewrite GdsW_forallb_flat_map. apply forallb_forall. intros p _. reflexivity. Qed.
Lemma GdsRtS_table_strans s : forallb srec_in_table (g_strans s) = true.
Proof. destruct s as [s|]; [|reflexivity]. cbn [g_strans forallb]. rewrite forallb_app. destruct (st_mag s), (st_angle s); reflexivity. Qed.
Lemma GdsRtS_table_element e : forallb srec_in_table (g_element e) = true.
Proof.
  destruct e as [e|e|e|e|e|e|e]; cbn [g_element]; unfold g_flags;
    repeat first [rewrite forallb_app | progress cbn [forallb app]];
    rewrite ?GdsRtS_table_props, ?GdsRtS_table_strans;
    repeat match goal with |- context [s_opt _ ?o] => destruct o; cbn [s_opt forallb] end; reflexivity.
Qed.
Lemma GdsRtS_table_library l : forallb srec_in_table (g_library l) = true.
Proof.
  unfold g_library, g_library_with. repeat first [rewrite forallb_app | progress cbn [forallb app]].
  rewrite GdsW_forallb_flat_map.
  replace (forallb (fun x => forallb srec_in_table (g_struct x)) (l_structs l)) with true; [reflexivity|].
  symmetry. apply forallb_forall. intros s _. unfold g_struct.
  repeat first [rewrite forallb_app | progress cbn [forallb app]]. rewrite GdsW_forallb_flat_map.
  replace (forallb (fun x => forallb srec_in_table (g_element x)) (s_elems s)) with true; [reflexivity|].
  symmetry. apply forallb_forall. intros e _. apply GdsRtS_table_element.
Qed.

Theorem GdsRtS_stream_wf_render l tail :
  lib_ok l -> ~ KnownClass_C01 l -> lib_fitsb l = true -> stream_wf (spec_render l ++ tail).
Proof.
  intros Hok Hk Hf. unfold stream_wf, stream_wfb.
  rewrite (GdsRtS_split_render l tail Hok Hk Hf), (p_library_ok l Hok Hk), GdsRtS_table_library. reflexivity.
Qed.
