(** Executable checks for the correspondence runs of C01, C02, C03, C10 (tools/props/gdscommon.py).
    Result codes: 0 = impl agrees with the model and the property holds on the impl's output;
    1 = impl differs from the model, property still holds on the impl's output;
    2 = the property fails on the impl's output. No proofs here. *)
From Coq Require Import ZArith Bool List.
From L21 Require Import Base.Outcome Base.Hex Gds.GdsReal Gds.GdsData Gds.GdsRecord Gds.GdsWrite Gds.GdsRead Gds.GdsSpec.
Import ListNotations.
Local Open Scope Z_scope.

(** What the implementation returned, as reported by the harness. Error kinds are [ekind_code]s. *)
Inductive wres := WOk (b : bytes) | WErr (k : Z) | WPanic.
Inductive rres := ROk (l : library) | RErr (k : Z) | RPanic | RNone.

Definition code (prop_ok model_eq : bool) : Z :=
  if negb prop_ok then 2 else if model_eq then 0 else 1.

Definition w_agree (m : outcome ekind bytes) (w : wres) : bool :=
  match m, w with
  | Ok b, WOk b' => zlist_eqb b b'
  | Err e, WErr k => ekind_code e =? k
  | Panic, WPanic => true
  | _, _ => false
  end.
Definition r_agree (m : outcome ekind library) (r : rres) : bool :=
  match m, r with
  | Ok l, ROk l' => lib_eqb l l'
  | Err e, RErr k => ekind_code e =? k
  | Panic, RPanic => true
  | _, _ => false
  end.
Definition r_is_none (r : rres) : bool := match r with RNone => true | _ => false end.

(** C01: library [l], impl write result [w], impl read-back result [r] ([RNone] when write failed). *)
Definition c01_check (l : library) (w : wres) (r : rres) : Z :=
  let model_eq :=
    w_agree (write_lib l) w &&
    match w with WOk bs => r_agree (read_lib bs) r | _ => r_is_none r end in
  let prop_ok :=
    negb (lib_okb l) || (* outside the property's domain (a real outside the GDSII range): silent *)
    match w with
    | WErr _ => true
    | WPanic => false
    | WOk _ => match r with ROk l' => lib_rust_eqb l l' | _ => false end
    end in
  code prop_ok model_eq.

(** the same against the reader as found (before the repair of read_str): used to show that the
    model of the unrepaired code predicts the panics the unrepaired implementation shows *)
Definition c01_check_orig (l : library) (w : wres) (r : rres) : Z :=
  let model_eq :=
    w_agree (write_lib l) w &&
    match w with WOk bs => r_agree (read_lib_orig bs) r | _ => r_is_none r end in
  code true model_eq.

(** C02: library [l], impl write result [w]. Property: the bytes are a well-formed stream and the
    reference decoder recovers [l] from them. *)
Definition c02_check (l : library) (w : wres) : Z :=
  let model_eq := w_agree (write_lib l) w in
  let prop_ok :=
    negb (lib_okb l) ||
    match w with
    | WErr _ => true
    | WPanic => false
    | WOk bs => stream_wfb bs && match split_stream bs with Some (_, []) => true | _ => false end   (* nothing after ENDLIB *)
                && match spec_parse bs with Some l' => lib_rust_eqb l l' | None => false end
    end in
  code prop_ok model_eq.

(** C03: the stream is [spec_render_with pre post l ++ tail] (computed here, printed for the
    harness by [c03_stream]); [r] is what the impl read. Plain library ([pre] = [post] = []):
    must read back [l]. With library-level optional records: must be an error. *)
Definition c03_stream (pre post : list srec) (l : library) (tail : bytes) : bytes :=
  spec_render_with pre post l ++ tail.
Definition c03_check (pre post : list srec) (l : library) (tail : bytes) (r : rres) : Z :=
  let bs := c03_stream pre post l tail in
  let model_eq := r_agree (read_lib bs) r in
  let prop_ok :=
    negb (lib_okb l) ||
    match pre ++ post with
    | [] => match r with ROk l' => lib_rust_eqb l l' | _ => false end
    | _ => match r with RErr _ => true | _ => false end
    end in
  code prop_ok model_eq.

(** C10: arbitrary bytes [bs]; [r] = impl read; when it is a library: [wtag] = 0 if the impl wrote
    it again successfully (1 error, 2 panic, 3 not run) and [r2] = what the impl read back. *)
Definition c10_check (bs : bytes) (r : rres) (wtag : Z) (r2 : rres) : Z :=
  let m := read_lib bs in
  let model_eq :=
    r_agree m r &&
    match m with
    | Ok l =>
      match write_lib l with
      | Ok bs' => (wtag =? 0) && r_agree (read_lib bs') r2
      | Err _ => wtag =? 1
      | _ => false
      end
    | _ => true
    end in
  let prop_ok :=
    match r with
    | RPanic | RNone => false
    | RErr _ => true
    | ROk l =>
      complete_to_endlib bs && (wtag =? 0) &&
      match r2 with ROk l2 => lib_rust_eqb l l2 | _ => false end
    end in
  code prop_ok model_eq.

(** the reader as found, for the record of what the unrepaired code does *)
Definition c10_check_orig (bs : bytes) (r : rres) : Z :=
  code true (r_agree (read_lib_orig bs) r).

(** C03, foreign-written files: when the bytes are a well-formed stream per the specification,
    the reference decoder and the impl must agree. 10 is added when the file is NOT well-formed
    per GdsSpec.v (then the property is silent; reported). *)
Definition c03_foreign_check (bs : bytes) (r : rres) : Z :=
  let model_eq := r_agree (read_lib bs) r in
  if stream_wfb bs then
    code (match spec_parse bs, r with Some l, ROk l' => lib_rust_eqb l l' | _, _ => false end) model_eq
  else 10 + code true model_eq.
