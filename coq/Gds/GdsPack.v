(** Byte strings handed to Coq by the C10 runner, seven bytes to a primitive 63-bit integer literal
    (reading a string literal costs coqc about 100 microseconds per byte, a primitive integer literal
    almost nothing). [unpack ws tail]: the bytes of the words, most significant first, then [tail]
    (the last zero to six bytes of the string, given as they are). Checked against [Base.Hex.unhex]
    on a sample in every shard of every run (tools/props/c10.py). No proofs in this file. *)
From Coq Require Import ZArith List Uint63.
Import ListNotations.
Local Open Scope Z_scope.

Definition unpack7 (w : int) (acc : list Z) : list Z :=
  let z := Uint63.to_Z w in
  Z.land (Z.shiftr z 48) 255 :: Z.land (Z.shiftr z 40) 255 :: Z.land (Z.shiftr z 32) 255 ::
  Z.land (Z.shiftr z 24) 255 :: Z.land (Z.shiftr z 16) 255 :: Z.land (Z.shiftr z 8) 255 ::
  Z.land z 255 :: acc.

Definition unpack (ws : list int) (tail : list Z) : list Z := fold_right unpack7 tail ws.
