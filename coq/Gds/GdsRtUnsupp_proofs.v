(** C03, second part: a stream that carries an optional library-level record (LIBDIRSIZE, SRFNAME,
    LIBSECUR after BGNLIB; REFLIBS, FONTS, ATTRTABLE, GENERATIONS, FORMAT, MASK, ENDMASKS after
    LIBNAME) is answered with an error, never with a library. Proved for ANY record at those places
    whose type is not one the reader's library loop consumes (LIBNAME, UNITS, ENDLIB, BGNSTR), with
    any payload bytes. Uses the record-level safety lemma [read_record_wp] of Gds/GdsSafety_proofs.v
    (C10): [read_record] never panics and returns a record of the type byte it read. *)
From Coq Require Import ZArith Bool List Lia.
From L21 Require Import Base.Outcome Base.Hex Base.F64 Gds.GdsReal Gds.GdsData Gds.GdsRecord
  Gds.GdsWrite Gds.GdsRead Gds.GdsSpec Gds.GdsRtDefs Gds.GdsBytes_proofs Gds.GdsWrite_proofs
  Gds.GdsRtUnfold_proofs Gds.GdsRtRead_proofs Gds.GdsRoundtrip_proofs Gds.GdsSafety_proofs.
Import ListNotations.
Local Open Scope Z_scope.
Local Open Scope outcome_scope.

(** record types the loop of parse_lib consumes: LIBNAME, UNITS, ENDLIB, BGNSTR *)
Definition GdsRt_lib_loop_code (c : Z) : bool := (c =? 2) || (c =? 3) || (c =? 4) || (c =? 5).

Lemma GdsRt_rr_cases bs :
  (exists r bs', read_record true bs = Ok (r, bs') /\ rec_at bs r bs') \/ (exists e, read_record true bs = Err e).
Proof.
  pose proof (read_record_wp bs) as H. destruct (read_record true bs) as [[r bs']|e| |]; cbn in H.
  - left. exists r, bs'. tauto.
  - right. eauto.
  - contradiction.
  - contradiction.
Qed.

Lemma GdsRt_render_srec_hd x rest :
  exists a b, render_srec x ++ rest = a :: b :: fst (fst x) :: snd (fst x) :: snd x ++ rest.
Proof. destruct x as [[rt dt] pl]. unfold render_srec. cbn [be_nat app fst snd]. eauto. Qed.

Lemma GdsRt_rec_at_code x rest r bs' : rec_at (render_srec x ++ rest) r bs' -> rtype_code (fst r) = fst (fst x).
Proof.
  destruct (GdsRt_render_srec_hd x rest) as (a & b & ->).
  intros (l0 & l1 & c & d & pl & E & _ & _ & _ & Hc). injection E as _ _ <- _ _. symmetry. exact Hc.
Qed.

(** the library loop on a record of another type: an error whatever follows *)
Lemma GdsRt_lib_loop_other f r bs name units structs :
  GdsRt_lib_loop_code (rtype_code (fst r)) = false ->
  exists o, lib_loop true (S f) (mkSt r bs) name units structs = o /\ forall v, o <> Ok v.
Proof.
  intros Hc. rewrite GdsRt_lib_loop_S. unfold next. cbn [nxt rest].
  assert (He : is_endlib r = false) by (destruct r as [[] ?]; try reflexivity; discriminate Hc).
  rewrite He. destruct (GdsRt_rr_cases bs) as [(ry & bs' & E & _) | (e & E)]; rewrite E; cbn [obind].
  - destruct r as [rt pl]. cbn [fst] in Hc.
    destruct rt; try discriminate Hc; cbv iota beta;
      match goal with |- exists o, ?x = o /\ _ => exists x; split; [reflexivity|] end;
      intros v; destruct (unsupported_lib _); discriminate.
  - eexists; split; [reflexivity | discriminate].
Qed.

Lemma GdsRt_not_ok_err bs : (forall l, read_lib bs <> Ok l) -> exists e, read_lib bs = Err e.
Proof. intros H. destruct (read_total bs) as [[l E] | [e E]]; [exfalso; exact (H l E) | eauto]. Qed.

Lemma GdsRt_hdr_good v : i16b v = true -> rec_goodb (r_i16 Header v) = true.
Proof. intros H. unfold rec_goodb, rec_fitsb, payload_okb, r_i16. cbn [rec_len fst snd arm_of forallb rtype_valid]. rewrite H. reflexivity. Qed.
Lemma GdsRt_bgnlib_good d : dts_okb d = true -> rec_goodb (BgnLib, PI16 (flat_dates d)) = true.
Proof.
  intros H. unfold rec_goodb, rec_fitsb, payload_okb. cbn [fst snd rtype_valid].
  rewrite (GdsRt_val_dates d H). destruct d as [[? ? ? ? ? ?] [? ? ? ? ? ?]]. reflexivity.
Qed.
Lemma GdsRt_libname_good s :
  str_okb s = true -> even_trailing_nul s = false -> gds_strlen s + 4 <= 65535 -> rec_goodb (r_str LibName s) = true.
Proof.
  intros H1 H2 H3. unfold rec_goodb, rec_fitsb, payload_okb, r_str. cbn [rec_len fst snd arm_of rtype_valid].
  rewrite H1, H2. apply Z.leb_le in H3. rewrite H3. reflexivity.
Qed.

Lemma GdsRt_render_hdr v : render_srec (s_i16 0x00 [v]) = encb (r_i16 Header v).
Proof. rewrite <- (GdsW_render_srec_of (r_i16 Header v)) by reflexivity. rewrite GdsW_s_i16 by reflexivity. reflexivity. Qed.
Lemma GdsRt_render_bgnlib d : render_srec (s_dts 0x01 d) = encb (BgnLib, PI16 (flat_dates d)).
Proof. rewrite <- (GdsW_render_srec_of (BgnLib, PI16 (flat_dates d))) by reflexivity. rewrite GdsW_s_dates by reflexivity. reflexivity. Qed.
Lemma GdsRt_render_libname s : render_srec (s_str 0x02 s) = encb (r_str LibName s).
Proof. rewrite <- (GdsW_render_srec_of (r_str LibName s)) by reflexivity. rewrite GdsW_s_str by reflexivity. reflexivity. Qed.

Theorem GdsRt_unsupported_pre l x pre post tail :
  i16b (l_version l) = true -> dts_okb (l_dates l) = true ->
  GdsRt_lib_loop_code (fst (fst x)) = false ->
  exists e, read_lib (spec_render_with (x :: pre) post l ++ tail) = Err e.
Proof.
  intros Hv Hd Hc. apply GdsRt_not_ok_err. intros lib.
  unfold spec_render_with, g_library_with, render_srecs. cbn [app flat_map].
  rewrite GdsRt_render_hdr, GdsRt_render_bgnlib, <- !app_assoc.
  set (REST := flat_map render_srec _ ++ tail).
  unfold read_lib. set (f := read_fuel _). unfold read_lib_fuel.
  rewrite GdsRt_read_record by (apply GdsRt_hdr_good, Hv). cbn [obind].
  unfold parse_lib. unfold next at 1. cbn [nxt rest]. rewrite is_endlib_rd. cbn [is_endlib r_i16 fst].
  rewrite GdsRt_read_record by (apply GdsRt_bgnlib_good, Hd). cbn [obind].
  change (rd_rec (r_i16 Header (l_version l))) with (Header, PI16 [l_version l]). cbv iota beta.
  unfold next at 1. cbn [nxt rest]. rewrite is_endlib_rd. cbn [is_endlib fst].
  destruct (GdsRt_rr_cases (render_srec x ++ REST)) as [(rx & R2 & E & Hat) | (e & E)]; rewrite E; cbn [obind]; [|discriminate].
  change (rd_rec (BgnLib, PI16 (flat_dates (l_dates l)))) with (BgnLib, PI16 (flat_dates (l_dates l))). cbv iota beta.
  rewrite GdsRt_dates_of. cbn [obind].
  pose proof (GdsRt_rec_at_code _ _ _ _ Hat) as Hcode.
  subst f. unfold read_fuel.
  destruct (GdsRt_lib_loop_other (S (S (Nat.div (length (encb (r_i16 Header (l_version l)) ++
              encb (BgnLib, PI16 (flat_dates (l_dates l))) ++ render_srec x ++ REST)) 4))) rx R2 None None [])
    as (o & Eo & Hno); [rewrite Hcode; exact Hc|].
  rewrite Eo. destruct o as [[[n u] s]| | |]; cbn [obind]; try discriminate. exfalso. exact (Hno _ eq_refl).
Qed.

Theorem GdsRt_unsupported_post l x post tail :
  i16b (l_version l) = true -> dts_okb (l_dates l) = true ->
  str_okb (l_name l) = true -> even_trailing_nul (l_name l) = false -> gds_strlen (l_name l) + 4 <= 65535 ->
  GdsRt_lib_loop_code (fst (fst x)) = false ->
  exists e, read_lib (spec_render_with [] (x :: post) l ++ tail) = Err e.
Proof.
  intros Hv Hd Hn1 Hn2 Hn3 Hc. apply GdsRt_not_ok_err. intros lib.
  unfold spec_render_with, g_library_with, render_srecs. cbn [app flat_map].
  rewrite GdsRt_render_hdr, GdsRt_render_bgnlib, GdsRt_render_libname, <- !app_assoc.
  set (REST := flat_map render_srec _ ++ tail).
  unfold read_lib. set (f := read_fuel _). unfold read_lib_fuel.
  rewrite GdsRt_read_record by (apply GdsRt_hdr_good, Hv). cbn [obind].
  unfold parse_lib. unfold next at 1. cbn [nxt rest]. rewrite is_endlib_rd. cbn [is_endlib r_i16 fst].
  rewrite GdsRt_read_record by (apply GdsRt_bgnlib_good, Hd). cbn [obind].
  change (rd_rec (r_i16 Header (l_version l))) with (Header, PI16 [l_version l]). cbv iota beta.
  unfold next at 1. cbn [nxt rest]. rewrite is_endlib_rd. cbn [is_endlib fst].
  rewrite GdsRt_read_record by (apply GdsRt_libname_good; assumption). cbn [obind].
  change (rd_rec (BgnLib, PI16 (flat_dates (l_dates l)))) with (BgnLib, PI16 (flat_dates (l_dates l))). cbv iota beta.
  rewrite GdsRt_dates_of. cbn [obind].
  subst f. unfold read_fuel. rewrite GdsRt_lib_loop_S.
  unfold next at 1. cbn [nxt rest]. rewrite is_endlib_rd. cbn [is_endlib r_str fst].
  destruct (GdsRt_rr_cases (render_srec x ++ REST)) as [(rx & R2 & E & Hat) | (e & E)]; rewrite E; cbn [obind]; [|discriminate].
  change (rd_rec (r_str LibName (l_name l))) with (LibName, PStr (l_name l)). cbv iota beta.
  pose proof (GdsRt_rec_at_code _ _ _ _ Hat) as Hcode.
  match goal with |- context [lib_loop true (S ?g) (mkSt rx R2) ?n ?u ?s] =>
    destruct (GdsRt_lib_loop_other g rx R2 n u s) as (o & Eo & Hno); [rewrite Hcode; exact Hc|] end.
  rewrite Eo. destruct o as [[[n u] s]| | |]; cbn [obind]; try discriminate. exfalso. exact (Hno _ eq_refl).
Qed.

(** the optional records of the manual are of such types *)
Lemma GdsRt_optrec_code o : GdsRt_lib_loop_code (fst (fst (optrec_srec o))) = false.
Proof. destruct o; reflexivity. Qed.

Theorem GdsRt_unsupported_is_error l (pre post : list optrec) tail :
  lib_ok l -> ~ KnownClass_C01 l -> lib_fitsb l = true -> pre ++ post <> [] ->
  exists e, read_lib (spec_render_with (map optrec_srec pre) (map optrec_srec post) l ++ tail) = Err e.
Proof.
  intros Hok Hk Hf Hne. pose proof (GdsRt_lib_ok_shape l Hok) as Hs.
  pose proof (GdsRt_wfRb_lib l Hs (GdsRt_not_known l Hk) Hf) as Hw.
  unfold lib_shape_ok, lib_shapeb, lib_okb_with in Hs. GdsRt_bsplit.
  destruct pre as [|x pre]; cbn [map].
  - destruct post as [|x post]; [exfalso; apply Hne; reflexivity|]. cbn [map].
    unfold flatten_lib in Hw. cbn [app] in Hw.
    destruct (wfRb_cons _ _ Hw eq_refl) as (_ & Hw1 & _). destruct (wfRb_cons _ _ Hw1 eq_refl) as (_ & Hw2 & _).
    pose proof (wfRb_hd_good _ _ Hw2) as Hg. unfold rec_goodb, rec_fitsb, payload_okb, r_str in Hg.
    cbn [rec_len fst snd arm_of rtype_valid] in Hg. GdsRt_bsplit.
    apply GdsRt_unsupported_post; try assumption.
    + match goal with H : negb (even_trailing_nul _) = true |- _ => apply negb_true_iff in H; exact H end.
    + match goal with H : (_ <=? 65535) = true |- _ => apply Z.leb_le in H; exact H end.
    + apply GdsRt_optrec_code.
  - apply GdsRt_unsupported_pre; try assumption. apply GdsRt_optrec_code.
Qed.
