(** GDSII stream format, written from the format description (Calma GDSII Stream Format
    Manual, release 6.0), NOT from gds21. It does not import the models of write.rs / read.rs.

    A stream is a sequence of records. A record is
        <2 bytes total length, unsigned big-endian, includes these 4 bytes; even; >= 4>
        <1 byte record type> <1 byte data type> <payload>.
    Data types: 0 no data, 1 bit array (2 bytes), 2 two-byte signed integer, 3 four-byte signed
    integer, 4 four-byte real (unused), 5 eight-byte real, 6 ASCII string (padded with one NUL
    to even length). Integers are two's complement, most significant byte first.
    Eight-byte reals: sign bit, 7-bit excess-64 base-16 exponent, 56-bit mantissa (C15).

    Grammar (manual, "Stream syntax"):
      <library>   ::= HEADER BGNLIB [LIBDIRSIZE] [SRFNAME] [LIBSECUR] LIBNAME [REFLIBS] [FONTS]
                      [ATTRTABLE] [GENERATIONS] [<FormatType>] UNITS {<structure>}* ENDLIB
      <structure> ::= BGNSTR STRNAME [STRCLASS] {<element>}* ENDSTR
      <element>   ::= {<boundary>|<path>|<SREF>|<AREF>|<text>|<node>|<box>} {<property>}* ENDEL
      <boundary>  ::= BOUNDARY [ELFLAGS] [PLEX] LAYER DATATYPE XY
      <path>      ::= PATH [ELFLAGS] [PLEX] LAYER DATATYPE [PATHTYPE] [WIDTH] [BGNEXTN] [ENDEXTN] XY
      <SREF>      ::= SREF [ELFLAGS] [PLEX] SNAME [<strans>] XY
      <AREF>      ::= AREF [ELFLAGS] [PLEX] SNAME [<strans>] COLROW XY
      <text>      ::= TEXT [ELFLAGS] [PLEX] LAYER TEXTTYPE [PRESENTATION] [PATHTYPE] [WIDTH] [<strans>] XY STRING
      <node>      ::= NODE [ELFLAGS] [PLEX] LAYER NODETYPE XY
      <box>       ::= BOX [ELFLAGS] [PLEX] LAYER BOXTYPE XY
      <strans>    ::= STRANS [MAG] [ANGLE]
      <property>  ::= PROPATTR PROPVALUE
    STRANS bit array: bit 0 (the most significant) reflection, bit 13 absolute magnification,
    bit 14 absolute angle. COLROW: columns then rows. BGNLIB/BGNSTR: twelve two-byte integers,
    (year, month, day, hour, minute, second) of last modification, then of last access.
    SREF/TEXT XY: one point; AREF: three; BOX: five.

    [spec_render]: reference encoder (library value -> bytes).
    [spec_parse]: reference decoder, in two phases: split the byte string into records by their
    length fields up to ENDLIB, then parse the record list top-down with the fixed field order of
    the grammar. The optional library-level records and STRCLASS have no place in a
    [library] value; [spec_render_with] inserts such records for C03 (expected: reader error).
    No proofs in this file. *)
From Coq Require Import ZArith Bool List String.
From L21 Require Import Base.Hex Base.F64 Gds.GdsReal Gds.GdsData.
Import ListNotations.
Local Open Scope string_scope.
Local Open Scope list_scope.
Local Open Scope Z_scope.

(** * Record table: mnemonic, name of the variant in gds21's `GdsRecordType`, number, data type *)
Definition spec_records : list (string * string * Z * Z) :=
  [ ("HEADER", "Header", 0x00, 2); ("BGNLIB", "BgnLib", 0x01, 2); ("LIBNAME", "LibName", 0x02, 6);
    ("UNITS", "Units", 0x03, 5); ("ENDLIB", "EndLib", 0x04, 0); ("BGNSTR", "BgnStruct", 0x05, 2);
    ("STRNAME", "StructName", 0x06, 6); ("ENDSTR", "EndStruct", 0x07, 0); ("BOUNDARY", "Boundary", 0x08, 0);
    ("PATH", "Path", 0x09, 0); ("SREF", "StructRef", 0x0A, 0); ("AREF", "ArrayRef", 0x0B, 0);
    ("TEXT", "Text", 0x0C, 0); ("LAYER", "Layer", 0x0D, 2); ("DATATYPE", "DataType", 0x0E, 2);
    ("WIDTH", "Width", 0x0F, 3); ("XY", "Xy", 0x10, 3); ("ENDEL", "EndElement", 0x11, 0);
    ("SNAME", "StructRefName", 0x12, 6); ("COLROW", "ColRow", 0x13, 2); ("TEXTNODE", "TextNode", 0x14, 0);
    ("NODE", "Node", 0x15, 0); ("TEXTTYPE", "TextType", 0x16, 2); ("PRESENTATION", "Presentation", 0x17, 1);
    ("SPACING", "Spacing", 0x18, 0); ("STRING", "String", 0x19, 6); ("STRANS", "Strans", 0x1A, 1);
    ("MAG", "Mag", 0x1B, 5); ("ANGLE", "Angle", 0x1C, 5); ("UINTEGER", "Uinteger", 0x1D, 0);
    ("USTRING", "Ustring", 0x1E, 0); ("REFLIBS", "RefLibs", 0x1F, 6); ("FONTS", "Fonts", 0x20, 6);
    ("PATHTYPE", "PathType", 0x21, 2); ("GENERATIONS", "Generations", 0x22, 2); ("ATTRTABLE", "AttrTable", 0x23, 6);
    ("STYPTABLE", "StypTable", 0x24, 6); ("STRTYPE", "StrType", 0x25, 2); ("ELFLAGS", "ElemFlags", 0x26, 1);
    ("ELKEY", "ElemKey", 0x27, 3); ("LINKTYPE", "LinkType", 0x28, 0); ("LINKKEYS", "LinkKeys", 0x29, 0);
    ("NODETYPE", "Nodetype", 0x2A, 2); ("PROPATTR", "PropAttr", 0x2B, 2); ("PROPVALUE", "PropValue", 0x2C, 6);
    ("BOX", "Box", 0x2D, 0); ("BOXTYPE", "BoxType", 0x2E, 2); ("PLEX", "Plex", 0x2F, 3);
    ("BGNEXTN", "BeginExtn", 0x30, 3); ("ENDEXTN", "EndExtn", 0x31, 3); ("TAPENUM", "TapeNum", 0x32, 2);
    ("TAPECODE", "TapeCode", 0x33, 2); ("STRCLASS", "StrClass", 0x34, 1); ("RESERVED", "Reserved", 0x35, 3);
    ("FORMAT", "Format", 0x36, 2); ("MASK", "Mask", 0x37, 6); ("ENDMASKS", "EndMasks", 0x38, 0);
    ("LIBDIRSIZE", "LibDirSize", 0x39, 2); ("SRFNAME", "SrfName", 0x3A, 6); ("LIBSECUR", "LibSecur", 0x3B, 2) ].

(** data type names as in gds21's `GdsDataType` *)
Definition spec_dtypes : list (string * Z) :=
  [("NoData", 0); ("BitArray", 1); ("I16", 2); ("I32", 3); ("F32", 4); ("F64", 5); ("Str", 6)].

(** records the manual marks as unused / unreleased / internal: a conformant stream has none *)
Definition spec_unused : list string :=
  ["TextNode"; "Spacing"; "Uinteger"; "Ustring"; "StypTable"; "StrType"; "ElemKey"; "LinkType"; "LinkKeys";
   "StrClass"; "Reserved"].

Definition spec_dtype_of (code : Z) : option Z :=
  match find (fun '(_, _, c, _) => c =? code) spec_records with
  | Some (_, _, _, d) => Some d
  | None => None
  end.

(** * Records of a stream *)
Definition srec := (Z * Z * bytes)%type.   (* record type, data type, payload *)

(** big-endian two's complement, [n] bytes *)
Fixpoint be_nat (n : nat) (x : Z) : bytes :=
  match n with
  | O => []
  | S k => be_nat k (x / 256) ++ [x mod 256]
  end.
Definition unsigned_be (bs : bytes) : Z := fold_left (fun acc b => acc * 256 + b) bs 0.
Definition signed_be (bs : bytes) : Z :=
  let u := unsigned_be bs in
  let m := 256 ^ Z.of_nat (List.length bs) in
  if 2 * u <? m then u else u - m.

Definition render_srec (r : srec) : bytes :=
  let '(rt, dt, pl) := r in
  be_nat 2 (Z.of_nat (List.length pl) + 4) ++ [rt; dt] ++ pl.

(** ** Payload encodings *)
Definition enc_ints (n : nat) (l : list Z) : bytes := flat_map (be_nat n) l.
Definition enc_string (s : bytes) : bytes := if Z.even (Z.of_nat (List.length s)) then s else s ++ [0].
Definition enc_real (x : Z) : bytes := be_nat 8 (gds_spec_encode x).

Fixpoint chunks (n : nat) (fuel : nat) (bs : bytes) : list bytes :=
  match fuel with
  | O => []
  | S f => match bs with [] => [] | _ => firstn n bs :: chunks n f (skipn n bs) end
  end.
(** [None] unless the payload is a whole number of [n]-byte groups *)
Definition dec_ints (n : nat) (bs : bytes) : option (list Z) :=
  if Nat.eqb (Nat.modulo (List.length bs) n) 0 then Some (map signed_be (chunks n (List.length bs) bs)) else None.
Definition dec_string (bs : bytes) : bytes :=
  match bs with
  | [] => []
  | _ => if last bs 1 =? 0 then removelast bs else bs
  end.
(** the double a GDSII real denotes, correctly rounded: [gds_decode] (proved so in C15) *)
Definition dec_reals (bs : bytes) : option (list Z) :=
  if Nat.eqb (Nat.modulo (List.length bs) 8) 0 then Some (map (fun c => gds_decode (unsigned_be c)) (chunks 8 (List.length bs) bs)) else None.

(** * Reference encoder *)
Definition s_none (rt : Z) : srec := (rt, 0, []).
Definition s_i16 (rt : Z) (l : list Z) : srec := (rt, 2, enc_ints 2 l).
Definition s_i32 (rt : Z) (l : list Z) : srec := (rt, 3, enc_ints 4 l).
Definition s_bits (rt : Z) (b : bits2) : srec := (rt, 1, [fst b; snd b]).
Definition s_real (rt : Z) (l : list Z) : srec := (rt, 5, flat_map enc_real l).
Definition s_str (rt : Z) (s : bytes) : srec := (rt, 6, enc_string s).
Definition s_opt {A} (f : A -> srec) (o : option A) : list srec := match o with Some x => [f x] | None => [] end.

Definition date_fields (d : datetime) : list Z :=
  [dt_year d; dt_month d; dt_day d; dt_hour d; dt_minute d; dt_second d].
Definition s_dts (rt : Z) (d : datetimes) : srec :=
  s_i16 rt (date_fields (d_modified d) ++ date_fields (d_accessed d)).
Definition s_xy (pts : list point) : srec := s_i32 0x10 (flat_map (fun p => [px p; py p]) pts).

(** STRANS flag word: bit 0 = most significant *)
Definition strans_word (s : strans) : Z :=
  (if st_reflected s then 2 ^ 15 else 0) + (if st_abs_mag s then 2 ^ (15 - 13) else 0) +
  (if st_abs_angle s then 2 ^ (15 - 14) else 0).
Definition g_strans (s : option strans) : list srec :=
  match s with
  | None => []
  | Some s => (0x1A, 1, be_nat 2 (strans_word s)) ::
              s_opt (fun x => s_real 0x1B [x]) (st_mag s) ++ s_opt (fun x => s_real 0x1C [x]) (st_angle s)
  end.
Definition g_props (ps : list property) : list srec :=
  flat_map (fun p => [s_i16 0x2B [pr_attr p]; s_str 0x2C (pr_value p)]) ps.
Definition g_flags (fl : option bits2) (pl : option Z) : list srec :=
  s_opt (s_bits 0x26) fl ++ s_opt (fun x => s_i32 0x2F [x]) pl.

Definition g_element (e : element) : list srec :=
  match e with
  | EBoundary x =>
    [s_none 0x08] ++ g_flags (b_elflags x) (b_plex x) ++
    [s_i16 0x0D [b_layer x]; s_i16 0x0E [b_datatype x]; s_xy (b_xy x)] ++ g_props (b_props x) ++ [s_none 0x11]
  | EPath x =>
    [s_none 0x09] ++ g_flags (p_elflags x) (p_plex x) ++
    [s_i16 0x0D [p_layer x]; s_i16 0x0E [p_datatype x]] ++
    s_opt (fun v => s_i16 0x21 [v]) (p_path_type x) ++ s_opt (fun v => s_i32 0x0F [v]) (p_width x) ++
    s_opt (fun v => s_i32 0x30 [v]) (p_begin_extn x) ++ s_opt (fun v => s_i32 0x31 [v]) (p_end_extn x) ++
    [s_xy (p_xy x)] ++ g_props (p_props x) ++ [s_none 0x11]
  | ESref x =>
    [s_none 0x0A] ++ g_flags (sr_elflags x) (sr_plex x) ++
    [s_str 0x12 (sr_name x)] ++ g_strans (sr_strans x) ++ [s_xy [sr_xy x]] ++ g_props (sr_props x) ++ [s_none 0x11]
  | EAref x =>
    [s_none 0x0B] ++ g_flags (ar_elflags x) (ar_plex x) ++
    [s_str 0x12 (ar_name x)] ++ g_strans (ar_strans x) ++
    [s_i16 0x13 [ar_cols x; ar_rows x]; s_xy (ar_xy x)] ++ g_props (ar_props x) ++ [s_none 0x11]
  | EText x =>
    [s_none 0x0C] ++ g_flags (t_elflags x) (t_plex x) ++
    [s_i16 0x0D [t_layer x]; s_i16 0x16 [t_texttype x]] ++
    s_opt (s_bits 0x17) (t_presentation x) ++ s_opt (fun v => s_i16 0x21 [v]) (t_path_type x) ++
    s_opt (fun v => s_i32 0x0F [v]) (t_width x) ++ g_strans (t_strans x) ++
    [s_xy [t_xy x]; s_str 0x19 (t_string x)] ++ g_props (t_props x) ++ [s_none 0x11]
  | ENode x =>
    [s_none 0x15] ++ g_flags (n_elflags x) (n_plex x) ++
    [s_i16 0x0D [n_layer x]; s_i16 0x2A [n_nodetype x]; s_xy (n_xy x)] ++ g_props (n_props x) ++ [s_none 0x11]
  | EBox x =>
    [s_none 0x2D] ++ g_flags (x_elflags x) (x_plex x) ++
    [s_i16 0x0D [x_layer x]; s_i16 0x2E [x_boxtype x]; s_xy (x_xy x)] ++ g_props (x_props x) ++ [s_none 0x11]
  end.

Definition g_struct (s : gstruct) : list srec :=
  [s_dts 0x05 (s_dates s); s_str 0x06 (s_name s)] ++ flat_map g_element (s_elems s) ++ [s_none 0x07].

(** [pre]: records between BGNLIB and LIBNAME; [post]: between LIBNAME and UNITS
    (the optional library-level records; empty for a plain library) *)
Definition g_library_with (pre post : list srec) (l : library) : list srec :=
  [s_i16 0x00 [l_version l]; s_dts 0x01 (l_dates l)] ++ pre ++ [s_str 0x02 (l_name l)] ++ post ++
  [s_real 0x03 [fst (l_units l); snd (l_units l)]] ++ flat_map g_struct (l_structs l) ++ [s_none 0x04].
Definition g_library : library -> list srec := g_library_with [] [].

Definition render_srecs (rs : list srec) : bytes := flat_map render_srec rs.
Definition spec_render (l : library) : bytes := render_srecs (g_library l).
Definition spec_render_with (pre post : list srec) (l : library) : bytes := render_srecs (g_library_with pre post l).

(** the optional library-level records, as the manual describes them *)
Definition x_libdirsize (n : Z) : srec := s_i16 0x39 [n].
Definition x_srfname (s : bytes) : srec := s_str 0x3A s.
(** LIBSECUR: 1..32 triples (group, user, access rights) *)
Definition x_libsecur (l : list Z) : srec := s_i16 0x3B l.
Definition x_reflibs (s : bytes) : srec := s_str 0x1F s.
Definition x_fonts (s : bytes) : srec := s_str 0x20 s.
Definition x_attrtable (s : bytes) : srec := s_str 0x23 s.
Definition x_generations (n : Z) : srec := s_i16 0x22 [n].
Definition x_format (n : Z) : srec := s_i16 0x36 [n].
Definition x_mask (s : bytes) : srec := s_str 0x37 s.
Definition x_endmasks : srec := s_none 0x38.
Definition lib_level_optional_pre (r : srec) : bool :=
  let '(rt, _, _) := r in (rt =? 0x39) || (rt =? 0x3A) || (rt =? 0x3B).
Definition lib_level_optional_post (r : srec) : bool :=
  let '(rt, _, _) := r in (rt =? 0x1F) || (rt =? 0x20) || (rt =? 0x23) || (rt =? 0x22) || (rt =? 0x36) || (rt =? 0x37) || (rt =? 0x38).

(** * Reference decoder, phase 1: split by length fields, up to and including ENDLIB *)
Definition cut (n : Z) (bs : bytes) : option (bytes * bytes) :=
  let k := Z.to_nat n in
  if (k <=? List.length bs)%nat then Some (firstn k bs, skipn k bs) else None.

Fixpoint split_records (fuel : nat) (bs : bytes) : option (list srec * bytes) :=
  match fuel with
  | O => None
  | S f =>
    match bs with
    | l0 :: l1 :: rt :: dt :: r =>
      let len := l0 * 256 + l1 in
      if (len <? 4) || Z.odd len then None
      else match cut (len - 4) r with
           | None => None
           | Some (pl, r') =>
             if rt =? 0x04 then Some ([(rt, dt, pl)], r')
             else match split_records f r' with
                  | Some (rs, t) => Some ((rt, dt, pl) :: rs, t)
                  | None => None
                  end
           end
    | _ => None
    end
  end.
Definition split_stream (bs : bytes) : option (list srec * bytes) := split_records (S (List.length bs)) bs.

(** a prefix of [bs] consists of complete records the last of which is ENDLIB *)
Definition complete_to_endlib (bs : bytes) : bool :=
  match split_stream bs with Some _ => true | None => false end.

(** * Reference decoder, phase 2: top-down over the record list *)
Definition P (A : Type) := list srec -> option (A * list srec).
Definition pbind {A B} (p : P A) (f : A -> P B) : P B :=
  fun rs => match p rs with Some (a, r) => f a r | None => None end.
Definition pret {A} (a : A) : P A := fun rs => Some (a, rs).
Definition pfail {A} : P A := fun _ => None.
Notation "'do' x <- p ; k" := (pbind p (fun x => k)) (at level 200, x pattern, p at level 100, k at level 200).

(** the next record has type [rt] and data type [dt]: its payload *)
Definition p_rec (rt dt : Z) : P bytes :=
  fun rs => match rs with
            | (c, d, pl) :: r => if (c =? rt) && (d =? dt) then Some (pl, r) else None
            | [] => None
            end.
Definition p_opt {A} (p : P A) : P (option A) :=
  fun rs => match p rs with Some (a, r) => Some (Some a, r) | None => Some (None, rs) end.
Definition p_lift {A} (o : option A) : P A := fun rs => match o with Some a => Some (a, rs) | None => None end.

Definition p_none (rt : Z) : P unit :=
  do pl <- p_rec rt 0; match pl with [] => pret tt | _ => pfail end.
Definition p_i16s (rt : Z) : P (list Z) := do pl <- p_rec rt 2; p_lift (dec_ints 2 pl).
Definition p_i32s (rt : Z) : P (list Z) := do pl <- p_rec rt 3; p_lift (dec_ints 4 pl).
Definition p_i16 (rt : Z) : P Z := do l <- p_i16s rt; match l with [x] => pret x | _ => pfail end.
Definition p_i32 (rt : Z) : P Z := do l <- p_i32s rt; match l with [x] => pret x | _ => pfail end.
Definition p_bits (rt : Z) : P bits2 := do pl <- p_rec rt 1; match pl with [a; b] => pret (a, b) | _ => pfail end.
Definition p_reals (rt : Z) : P (list Z) := do pl <- p_rec rt 5; p_lift (dec_reals pl).
Definition p_real (rt : Z) : P Z := do l <- p_reals rt; match l with [x] => pret x | _ => pfail end.
Definition p_str (rt : Z) : P bytes := do pl <- p_rec rt 6; pret (dec_string pl).

Fixpoint to_points (l : list Z) : option (list point) :=
  match l with
  | [] => Some []
  | x :: y :: r => match to_points r with Some ps => Some (mkPt x y :: ps) | None => None end
  | _ => None
  end.
Definition p_xy : P (list point) := do l <- p_i32s 0x10; p_lift (to_points l).
Definition p_xy_n (n : nat) : P (list point) :=
  do ps <- p_xy; if Nat.eqb (List.length ps) n then pret ps else pfail.
Definition p_xy1 : P point := do ps <- p_xy; match ps with [p] => pret p | _ => pfail end.

Definition p_dates (rt : Z) : P datetimes :=
  do l <- p_i16s rt;
  match l with
  | [a0; a1; a2; a3; a4; a5; b0; b1; b2; b3; b4; b5] =>
    pret (mkDTs (mkDT a0 a1 a2 a3 a4 a5) (mkDT b0 b1 b2 b3 b4 b5))
  | _ => pfail
  end.

Definition p_strans : P strans :=
  do pl <- p_rec 0x1A 1;
  match pl with
  | [_; _] =>
    let w := unsigned_be pl in
    do mag <- p_opt (p_real 0x1B);
    do ang <- p_opt (p_real 0x1C);
    pret (mkStrans (Z.testbit w (15 - 0)) (Z.testbit w (15 - 13)) (Z.testbit w (15 - 14)) mag ang)
  | _ => pfail
  end.

Fixpoint p_props (fuel : nat) : P (list property) :=
  match fuel with
  | O => pret []
  | S f =>
    fun rs =>
      match p_i16 0x2B rs with
      | None => Some ([], rs)
      | Some (attr, r1) =>
        (do v <- p_str 0x2C; do ps <- p_props f; pret (mkProp attr v :: ps)) r1
      end
  end.
Definition p_tail : P (list property) :=
  fun rs => (do ps <- p_props (List.length rs); do _ <- p_none 0x11; pret ps) rs.
Definition p_flags : P (option bits2 * option Z) :=
  do fl <- p_opt (p_bits 0x26); do pl <- p_opt (p_i32 0x2F); pret (fl, pl).

Definition p_element : P element :=
  fun rs =>
    match rs with
    | (c, 0, []) :: r =>
      (if c =? 0x08 then
         do fp <- p_flags; do layer <- p_i16 0x0D; do dt <- p_i16 0x0E; do xy <- p_xy; do ps <- p_tail;
         pret (EBoundary (mkBoundary layer dt xy (fst fp) (snd fp) ps))
       else if c =? 0x09 then
         do fp <- p_flags; do layer <- p_i16 0x0D; do dt <- p_i16 0x0E;
         do pt <- p_opt (p_i16 0x21); do w <- p_opt (p_i32 0x0F);
         do be <- p_opt (p_i32 0x30); do ee <- p_opt (p_i32 0x31);
         do xy <- p_xy; do ps <- p_tail;
         pret (EPath (mkPath layer dt xy w pt be ee (fst fp) (snd fp) ps))
       else if c =? 0x0A then
         do fp <- p_flags; do name <- p_str 0x12; do st <- p_opt p_strans; do xy <- p_xy1; do ps <- p_tail;
         pret (ESref (mkSref name xy st (fst fp) (snd fp) ps))
       else if c =? 0x0B then
         do fp <- p_flags; do name <- p_str 0x12; do st <- p_opt p_strans;
         do cr <- p_i16s 0x13;
         match cr with
         | [cols; rows] =>
           do xy <- p_xy_n 3; do ps <- p_tail;
           pret (EAref (mkAref name xy cols rows st (fst fp) (snd fp) ps))
         | _ => pfail
         end
       else if c =? 0x0C then
         do fp <- p_flags; do layer <- p_i16 0x0D; do ty <- p_i16 0x16;
         do pres <- p_opt (p_bits 0x17); do pt <- p_opt (p_i16 0x21); do w <- p_opt (p_i32 0x0F);
         do st <- p_opt p_strans; do xy <- p_xy1; do s <- p_str 0x19; do ps <- p_tail;
         pret (EText (mkText s layer ty xy pres pt w st (fst fp) (snd fp) ps))
       else if c =? 0x15 then
         do fp <- p_flags; do layer <- p_i16 0x0D; do nt <- p_i16 0x2A; do xy <- p_xy; do ps <- p_tail;
         pret (ENode (mkNode layer nt xy (fst fp) (snd fp) ps))
       else if c =? 0x2D then
         do fp <- p_flags; do layer <- p_i16 0x0D; do bt <- p_i16 0x2E; do xy <- p_xy_n 5; do ps <- p_tail;
         pret (EBox (mkBox layer bt xy (fst fp) (snd fp) ps))
       else pfail) r
    | _ => None
    end.

(** {<element>}* ENDSTR *)
Fixpoint p_elements (fuel : nat) : P (list element) :=
  match fuel with
  | O => pfail
  | S f =>
    fun rs =>
      match p_none 0x07 rs with
      | Some (_, r) => Some ([], r)
      | None => (do e <- p_element; do es <- p_elements f; pret (e :: es)) rs
      end
  end.
Definition p_structure : P gstruct :=
  fun rs => (do ds <- p_dates 0x05; do name <- p_str 0x06; do es <- p_elements (List.length rs);
             pret (mkStruct name ds es)) rs.
(** {<structure>}* ENDLIB *)
Fixpoint p_structures (fuel : nat) : P (list gstruct) :=
  match fuel with
  | O => pfail
  | S f =>
    fun rs =>
      match p_none 0x04 rs with
      | Some (_, r) => Some ([], r)
      | None => (do s <- p_structure; do ss <- p_structures f; pret (s :: ss)) rs
      end
  end.
Definition p_library : P library :=
  fun rs => (do v <- p_i16 0x00; do ds <- p_dates 0x01; do name <- p_str 0x02; do u <- p_reals 0x03;
             match u with
             | [u0; u1] => do ss <- p_structures (List.length rs); pret (mkLib name v ds (u0, u1) ss)
             | _ => pfail
             end) rs.

Definition spec_parse (bs : bytes) : option library :=
  match split_stream bs with
  | Some (rs, _) =>
    match p_library rs with
    | Some (l, []) => Some l
    | _ => None
    end
  | None => None
  end.

(** * Well-formed stream: complete records with even lengths >= 4 up to ENDLIB, every
    (record type, data type) pair from the table, no unused record type, and the record
    sequence derives from <library>. *)
Definition srec_in_table (r : srec) : bool :=
  let '(rt, dt, _) := r in
  match find (fun '(_, _, c, _) => c =? rt) spec_records with
  | Some (_, nm, _, d) => (d =? dt) && negb (existsb (String.eqb nm) spec_unused)
  | None => false
  end.
Definition stream_wfb (bs : bytes) : bool :=
  match split_stream bs with
  | Some (rs, _) => forallb srec_in_table rs && match p_library rs with Some (_, []) => true | _ => false end
  | None => false
  end.
Definition stream_wf (bs : bytes) : Prop := stream_wfb bs = true.
