(** Reading of the generated GDSII-parser kernels (Gen/KernelsGdsReadGen.v: gds21/src/read.rs `GdsParser::parse_lib`,
    `parse_struct`, the seven element parsers, `parse_strans`, `parse_property`, `parse_datetimes`; data.rs `GdsPoint::parse /
    parse_vec`, `impl From<&[i16; 6]> for GdsDateTime`; the `derive_builder` builders of the element / struct / library types,
    synthesised by the translator from their `#[builder(..)]` attributes) at the level of the parser model Gds/GdsRead.v.

    MONADIC SELF: the `GdsParser` is the state of the effect, the look-ahead record `nxt` (a value of the GENERATED enum
    `GdsRecord`) and the bytes not yet read: [pm A] = pst -> outcome of (A, pst).  `GdsParser::next` (external: it swaps the
    look-ahead with the record read by `GdsReader::read_record`) is DEFINED here through the generated `read_record`
    ([KernelsInstGdsRead.g_read_record], itself tied to the model's [read_record] by Ktie_read_record): [x_next]; `peek` is the
    look-ahead.  Loops run on fuel; running out of fuel is [OutOfFuel].  [Rst] is the model's parser state of a state.
    Errors are abstract ([ures]); results are read back into the model's data ([M*] functions).  No proofs in this file. *)
From Coq Require Import ZArith Bool List.
From L21 Require Import Base.KernelOps Base.KernelOpsX Base.KernelOpsS Base.KernelOpsL Base.Outcome Gen.KernelsGdsReadGen.
From L21 Require Import Gds.GdsReal Gds.GdsData Gds.GdsRecord Gds.GdsRead Gds.KernelsInstGdsRead.
Import ListNotations.
Local Open Scope Z_scope.

(* the projections of the generated records that hold strings: the string type implicit *)
Arguments gGdsProperty_attr {T_String F I} _.
Arguments gGdsProperty_value {T_String F I} _.
Arguments gGdsArrayRef_name {T_String F I} _.
Arguments gGdsArrayRef_xy {T_String F I} _.
Arguments gGdsArrayRef_cols {T_String F I} _.
Arguments gGdsArrayRef_rows {T_String F I} _.
Arguments gGdsArrayRef_strans {T_String F I} _.
Arguments gGdsArrayRef_elflags {T_String F I} _.
Arguments gGdsArrayRef_plex {T_String F I} _.
Arguments gGdsArrayRef_properties {T_String F I} _.
Arguments gGdsArrayRefBuilder_name {T_String F I} _.
Arguments gGdsArrayRefBuilder_xy {T_String F I} _.
Arguments gGdsArrayRefBuilder_cols {T_String F I} _.
Arguments gGdsArrayRefBuilder_rows {T_String F I} _.
Arguments gGdsArrayRefBuilder_strans {T_String F I} _.
Arguments gGdsArrayRefBuilder_elflags {T_String F I} _.
Arguments gGdsArrayRefBuilder_plex {T_String F I} _.
Arguments gGdsArrayRefBuilder_properties {T_String F I} _.
Arguments gGdsBoundary_layer {T_String F I} _.
Arguments gGdsBoundary_datatype {T_String F I} _.
Arguments gGdsBoundary_xy {T_String F I} _.
Arguments gGdsBoundary_elflags {T_String F I} _.
Arguments gGdsBoundary_plex {T_String F I} _.
Arguments gGdsBoundary_properties {T_String F I} _.
Arguments gGdsBoundaryBuilder_layer {T_String F I} _.
Arguments gGdsBoundaryBuilder_datatype {T_String F I} _.
Arguments gGdsBoundaryBuilder_xy {T_String F I} _.
Arguments gGdsBoundaryBuilder_elflags {T_String F I} _.
Arguments gGdsBoundaryBuilder_plex {T_String F I} _.
Arguments gGdsBoundaryBuilder_properties {T_String F I} _.
Arguments gGdsBox_layer {T_String F I} _.
Arguments gGdsBox_boxtype {T_String F I} _.
Arguments gGdsBox_xy {T_String F I} _.
Arguments gGdsBox_elflags {T_String F I} _.
Arguments gGdsBox_plex {T_String F I} _.
Arguments gGdsBox_properties {T_String F I} _.
Arguments gGdsBoxBuilder_layer {T_String F I} _.
Arguments gGdsBoxBuilder_boxtype {T_String F I} _.
Arguments gGdsBoxBuilder_xy {T_String F I} _.
Arguments gGdsBoxBuilder_elflags {T_String F I} _.
Arguments gGdsBoxBuilder_plex {T_String F I} _.
Arguments gGdsBoxBuilder_properties {T_String F I} _.
Arguments gGdsPath_layer {T_String F I} _.
Arguments gGdsPath_datatype {T_String F I} _.
Arguments gGdsPath_xy {T_String F I} _.
Arguments gGdsPath_width {T_String F I} _.
Arguments gGdsPath_path_type {T_String F I} _.
Arguments gGdsPath_begin_extn {T_String F I} _.
Arguments gGdsPath_end_extn {T_String F I} _.
Arguments gGdsPath_elflags {T_String F I} _.
Arguments gGdsPath_plex {T_String F I} _.
Arguments gGdsPath_properties {T_String F I} _.
Arguments gGdsStructRef_name {T_String F I} _.
Arguments gGdsStructRef_xy {T_String F I} _.
Arguments gGdsStructRef_strans {T_String F I} _.
Arguments gGdsStructRef_elflags {T_String F I} _.
Arguments gGdsStructRef_plex {T_String F I} _.
Arguments gGdsStructRef_properties {T_String F I} _.
Arguments gGdsTextElem_string {T_String F I} _.
Arguments gGdsTextElem_layer {T_String F I} _.
Arguments gGdsTextElem_texttype {T_String F I} _.
Arguments gGdsTextElem_xy {T_String F I} _.
Arguments gGdsTextElem_presentation {T_String F I} _.
Arguments gGdsTextElem_path_type {T_String F I} _.
Arguments gGdsTextElem_width {T_String F I} _.
Arguments gGdsTextElem_strans {T_String F I} _.
Arguments gGdsTextElem_elflags {T_String F I} _.
Arguments gGdsTextElem_plex {T_String F I} _.
Arguments gGdsTextElem_properties {T_String F I} _.
Arguments gGdsNode_layer {T_String F I} _.
Arguments gGdsNode_nodetype {T_String F I} _.
Arguments gGdsNode_xy {T_String F I} _.
Arguments gGdsNode_elflags {T_String F I} _.
Arguments gGdsNode_plex {T_String F I} _.
Arguments gGdsNode_properties {T_String F I} _.
Arguments gGdsStruct_name {T_String F I} _.
Arguments gGdsStruct_dates {T_String F I} _.
Arguments gGdsStruct_elems {T_String F I} _.
Arguments gGdsLibrary_name {T_String F I} _.
Arguments gGdsLibrary_version {T_String F I} _.
Arguments gGdsLibrary_dates {T_String F I} _.
Arguments gGdsLibrary_units {T_String F I} _.
Arguments gGdsLibrary_structs {T_String F I} _.
Arguments gGdsLibrary_libdirsize {T_String F I} _.
Arguments gGdsLibrary_srfname {T_String F I} _.
Arguments gGdsLibrary_libsecur {T_String F I} _.
Arguments gGdsLibrary_reflibs {T_String F I} _.
Arguments gGdsLibrary_fonts {T_String F I} _.
Arguments gGdsLibrary_attrtable {T_String F I} _.
Arguments gGdsLibrary_generations {T_String F I} _.
Arguments gGdsLibrary_format_type {T_String F I} _.
Arguments gGdsLibraryBuilder_name {T_String F I} _.
Arguments gGdsLibraryBuilder_version {T_String F I} _.
Arguments gGdsLibraryBuilder_dates {T_String F I} _.
Arguments gGdsLibraryBuilder_units {T_String F I} _.
Arguments gGdsLibraryBuilder_structs {T_String F I} _.
Arguments gGdsLibraryBuilder_libdirsize {T_String F I} _.
Arguments gGdsLibraryBuilder_srfname {T_String F I} _.
Arguments gGdsLibraryBuilder_libsecur {T_String F I} _.
Arguments gGdsLibraryBuilder_reflibs {T_String F I} _.
Arguments gGdsLibraryBuilder_fonts {T_String F I} _.
Arguments gGdsLibraryBuilder_attrtable {T_String F I} _.
Arguments gGdsLibraryBuilder_generations {T_String F I} _.
Arguments gGdsLibraryBuilder_format_type {T_String F I} _.
Arguments gGdsNodeBuilder_layer {T_String F I} _.
Arguments gGdsNodeBuilder_nodetype {T_String F I} _.
Arguments gGdsNodeBuilder_xy {T_String F I} _.
Arguments gGdsNodeBuilder_elflags {T_String F I} _.
Arguments gGdsNodeBuilder_plex {T_String F I} _.
Arguments gGdsNodeBuilder_properties {T_String F I} _.
Arguments gGdsPathBuilder_layer {T_String F I} _.
Arguments gGdsPathBuilder_datatype {T_String F I} _.
Arguments gGdsPathBuilder_xy {T_String F I} _.
Arguments gGdsPathBuilder_width {T_String F I} _.
Arguments gGdsPathBuilder_path_type {T_String F I} _.
Arguments gGdsPathBuilder_begin_extn {T_String F I} _.
Arguments gGdsPathBuilder_end_extn {T_String F I} _.
Arguments gGdsPathBuilder_elflags {T_String F I} _.
Arguments gGdsPathBuilder_plex {T_String F I} _.
Arguments gGdsPathBuilder_properties {T_String F I} _.
Arguments gGdsStructBuilder_name {T_String F I} _.
Arguments gGdsStructBuilder_dates {T_String F I} _.
Arguments gGdsStructBuilder_elems {T_String F I} _.
Arguments gGdsStructRefBuilder_name {T_String F I} _.
Arguments gGdsStructRefBuilder_xy {T_String F I} _.
Arguments gGdsStructRefBuilder_strans {T_String F I} _.
Arguments gGdsStructRefBuilder_elflags {T_String F I} _.
Arguments gGdsStructRefBuilder_plex {T_String F I} _.
Arguments gGdsStructRefBuilder_properties {T_String F I} _.
Arguments gGdsTextElemBuilder_string {T_String F I} _.
Arguments gGdsTextElemBuilder_layer {T_String F I} _.
Arguments gGdsTextElemBuilder_texttype {T_String F I} _.
Arguments gGdsTextElemBuilder_xy {T_String F I} _.
Arguments gGdsTextElemBuilder_presentation {T_String F I} _.
Arguments gGdsTextElemBuilder_path_type {T_String F I} _.
Arguments gGdsTextElemBuilder_width {T_String F I} _.
Arguments gGdsTextElemBuilder_strans {T_String F I} _.
Arguments gGdsTextElemBuilder_elflags {T_String F I} _.
Arguments gGdsTextElemBuilder_plex {T_String F I} _.
Arguments gGdsTextElemBuilder_properties {T_String F I} _.

Definition grec : Type := gGdsRecord bytes Z Z.
Definition pst : Type := (grec * bytes)%type.
Definition Rst (s : pst) : pstate := mkSt (Grec (fst s)) (snd s).
Definition pm (A : Type) : Type := pst -> ures (A * pst).
Definition pm_ret (A : Type) (a : A) : pm A := fun s => Ok (a, s).
Definition pm_bind (A B : Type) (x : pm A) (f : A -> pm B) : pm B :=
  fun s => match x s with Ok (a, s') => f a s' | Err e => Err e | Panic => Panic | OutOfFuel => OutOfFuel end.
Definition pm_pan (A : Type) : pm A := fun _ => Panic.
Definition pm_err (A : Type) : pm A := fun _ => Err tt.
Definition pm_nofuel (A : Type) : pm A := fun _ => OutOfFuel.
Definition pm_chk (t : ity) (z : Z) : pm Z := if ity_in t z then pm_ret Z z else pm_pan Z.
Definition pm_nof1 (x : Z) : pm Z := pm_pan Z.
Definition pm_nof2 (x y : Z) : pm Z := pm_pan Z.
Definition pm_get (A : Type) (l : list A) (i : Z) : pm A :=
  if i <? 0 then pm_pan A else match nth_error l (Z.to_nat i) with Some x => pm_ret A x | None => pm_pan A end.
Definition pm_kops : kops pm Z Z :=
  {| k_ret := pm_ret; k_bind := pm_bind; k_panic := pm_pan;
     f_zero := 0; f_one := 0; f_lit := fun _ _ => 0;       (* no float literal occurs *)
     f_add := pm_nof2; f_sub := pm_nof2; f_mul := pm_nof2; f_div := pm_nof2; f_neg := pm_nof1;
     f_eq := fun _ _ => false; f_lt := fun _ _ => false; f_le := fun _ _ => false;
     KernelOps.f_round := pm_nof1; f_rem_euclid := pm_nof2;
     f_to_radians := pm_nof1; f_sin := pm_nof1; f_cos := pm_nof1;
     f_powi := fun _ _ => pm_pan Z;
     i_lit := fun z => z; i_minval := ity_min; i_maxval := ity_max;
     i_add := fun t a b => pm_chk t (a + b);
     i_sub := fun t a b => pm_chk t (a - b);
     i_mul := fun t a b => pm_chk t (a * b);
     i_div := fun t a b => if b =? 0 then pm_pan Z else pm_chk t (Z.quot a b);
     i_rem := fun t a b => if b =? 0 then pm_pan Z else pm_chk t (Z.rem a b);
     i_neg := fun t a => pm_chk t (- a);
     i_and := fun t a b => pm_ret Z (Z.land a b);
     i_or := fun t a b => pm_ret Z (Z.lor a b);
     i_shl := fun _ _ _ => pm_pan Z; i_shr := fun _ _ _ => pm_pan Z;
     i_min := Z.min; i_max := Z.max; i_eq := Z.eqb; i_lt := Z.ltb; i_le := Z.leb;
     i_cast := fun _ t z => if ity_in t z then pm_ret Z z else pm_pan Z;
     i_try_from := fun _ t z => if ity_in t z then pm_ret Z z else pm_pan Z;
     i_to_f := fun _ _ => pm_pan Z; f_to_i := fun _ _ => pm_pan Z;
     v_len := fun A l => Z.of_nat (List.length l); v_get := pm_get;
     k_for := fun Rt St => for_Z pm_ret pm_bind |}.
Definition pm_xops : kxops pm Z Z :=
  {| kx_base := pm_kops; k_fail := pm_err;
     k_unwrap := fun A x s => match x s with Err _ => Panic | y => y end;
     i_try_from_q := fun _ t z => if ity_in t z then pm_ret Z z else pm_err Z;
     v_set := fun A l i x =>
       if (i <? 0) || (Z.of_nat (List.length l) <=? i) then pm_pan _ else pm_ret _ (k_list_set l (Z.to_nat i) x);
     v_insert := fun A l i x =>
       if (i <? 0) || (Z.of_nat (List.length l) <? i) then pm_pan _ else pm_ret _ (k_list_insert l (Z.to_nat i) x) |}.

(** `GdsParser::next`: the look-ahead; unless it is ENDLIB, one more record is read with the generated `read_record` *)
Definition g_is_endlib (r : grec) : bool := match r with gGdsRecord_EndLib _ => true | _ => false end.
Definition x_next : pm grec :=
  fun s => if g_is_endlib (fst s) then Ok (fst s, s)
           else match g_read_record (snd s) with
                | Ok (r, bs') => Ok (fst s, (r, bs'))
                | Err e => Err e | Panic => Panic | OutOfFuel => OutOfFuel
                end.
Definition x_peek : pm grec := fun s => Ok (fst s, s).

(** * the generated data read back into the model's *)
Definition Mpt (p : gGdsPoint Z Z) : point := mkPt (gGdsPoint_x p) (gGdsPoint_y p).
Definition Mprop (p : gGdsProperty bytes Z Z) : property := mkProp (gGdsProperty_attr p) (gGdsProperty_value p).
Definition Mflags (x : gGdsElemFlags Z Z) : bits2 := (gGdsElemFlags_0 x, gGdsElemFlags_1 x).
Definition Mpres (x : gGdsPresentation Z Z) : bits2 := (gGdsPresentation_0 x, gGdsPresentation_1 x).
Definition Mplex (x : gGdsPlex Z Z) : Z := gGdsPlex_0 x.
Definition Mstrans (s : gGdsStrans Z Z) : strans :=
  mkStrans (gGdsStrans_reflected s) (gGdsStrans_abs_mag s) (gGdsStrans_abs_angle s) (gGdsStrans_mag s) (gGdsStrans_angle s).
Definition Mdt (d : gGdsDateTime Z Z) : datetime :=
  mkDT (gGdsDateTime_year d) (gGdsDateTime_month d) (gGdsDateTime_day d) (gGdsDateTime_hour d) (gGdsDateTime_minute d) (gGdsDateTime_second d).
Definition Mdts (d : gGdsDateTimes Z Z) : datetimes := mkDTs (Mdt (gGdsDateTimes_modified d)) (Mdt (gGdsDateTimes_accessed d)).
Definition Mboundary (e : gGdsBoundary bytes Z Z) : boundary :=
  mkBoundary (gGdsBoundary_layer e) (gGdsBoundary_datatype e) (map Mpt (gGdsBoundary_xy e)) (option_map Mflags (gGdsBoundary_elflags e))
             (option_map Mplex (gGdsBoundary_plex e)) (map Mprop (gGdsBoundary_properties e)).
Definition Mpath (e : gGdsPath bytes Z Z) : path :=
  mkPath (gGdsPath_layer e) (gGdsPath_datatype e) (map Mpt (gGdsPath_xy e)) (gGdsPath_width e) (gGdsPath_path_type e)
         (gGdsPath_begin_extn e) (gGdsPath_end_extn e) (option_map Mflags (gGdsPath_elflags e)) (option_map Mplex (gGdsPath_plex e))
         (map Mprop (gGdsPath_properties e)).
Definition Msref (e : gGdsStructRef bytes Z Z) : sref :=
  mkSref (gGdsStructRef_name e) (Mpt (gGdsStructRef_xy e)) (option_map Mstrans (gGdsStructRef_strans e))
         (option_map Mflags (gGdsStructRef_elflags e)) (option_map Mplex (gGdsStructRef_plex e)) (map Mprop (gGdsStructRef_properties e)).
Definition Maref (e : gGdsArrayRef bytes Z Z) : aref :=
  mkAref (gGdsArrayRef_name e) (map Mpt (gGdsArrayRef_xy e)) (gGdsArrayRef_cols e) (gGdsArrayRef_rows e)
         (option_map Mstrans (gGdsArrayRef_strans e)) (option_map Mflags (gGdsArrayRef_elflags e)) (option_map Mplex (gGdsArrayRef_plex e))
         (map Mprop (gGdsArrayRef_properties e)).
Definition Mtext (e : gGdsTextElem bytes Z Z) : textelem :=
  mkText (gGdsTextElem_string e) (gGdsTextElem_layer e) (gGdsTextElem_texttype e) (Mpt (gGdsTextElem_xy e))
         (option_map Mpres (gGdsTextElem_presentation e)) (gGdsTextElem_path_type e) (gGdsTextElem_width e)
         (option_map Mstrans (gGdsTextElem_strans e)) (option_map Mflags (gGdsTextElem_elflags e)) (option_map Mplex (gGdsTextElem_plex e))
         (map Mprop (gGdsTextElem_properties e)).
Definition Mnode (e : gGdsNode bytes Z Z) : node :=
  mkNode (gGdsNode_layer e) (gGdsNode_nodetype e) (map Mpt (gGdsNode_xy e)) (option_map Mflags (gGdsNode_elflags e))
         (option_map Mplex (gGdsNode_plex e)) (map Mprop (gGdsNode_properties e)).
Definition Mbox (e : gGdsBox bytes Z Z) : gbox :=
  mkBox (gGdsBox_layer e) (gGdsBox_boxtype e) (map Mpt (gGdsBox_xy e)) (option_map Mflags (gGdsBox_elflags e))
        (option_map Mplex (gGdsBox_plex e)) (map Mprop (gGdsBox_properties e)).
Definition Melement (e : gGdsElement bytes Z Z) : element :=
  match e with
  | gGdsElement_GdsBoundary _ x => EBoundary (Mboundary x)
  | gGdsElement_GdsPath _ x => EPath (Mpath x)
  | gGdsElement_GdsStructRef _ x => ESref (Msref x)
  | gGdsElement_GdsArrayRef _ x => EAref (Maref x)
  | gGdsElement_GdsTextElem _ x => EText (Mtext x)
  | gGdsElement_GdsNode _ x => ENode (Mnode x)
  | gGdsElement_GdsBox _ x => EBox (Mbox x)
  end.
Definition Mstruct (s : gGdsStruct bytes Z Z) : gstruct :=
  mkStruct (gGdsStruct_name s) (Mdts (gGdsStruct_dates s)) (map Melement (gGdsStruct_elems s)).
Definition Mlib (l : gGdsLibrary bytes Z Z) : library :=
  mkLib (gGdsLibrary_name l) (gGdsLibrary_version l) (Mdts (gGdsLibrary_dates l))
        (gGdsUnits_0 (gGdsLibrary_units l), gGdsUnits_1 (gGdsLibrary_units l)) (map Mstruct (gGdsLibrary_structs l)).

(** the outcome of a generated parser function, its value and its state read back into the model's *)
Definition back {A B : Type} (f : A -> B) (x : ures (A * pst)) : ures (B * pstate) := omap (fun as_ => (f (fst as_), Rst (snd as_))) x.

(** `GdsPoint::parse_vec`, as the element parsers see it (its own tie: Ktie_parse_vec) *)
Definition Gpt (p : point) : gGdsPoint Z Z := mk_gGdsPoint (px p) (py p).
Definition x_parse_vec (l : list Z) : pm (list (gGdsPoint Z Z)) :=
  fun s => match parse_vec l with Ok v => Ok (map Gpt v, s) | Err _ => Err tt | Panic => Panic | OutOfFuel => OutOfFuel end.

Definition g_parse_point (l : list Z) : pm (gGdsPoint Z Z) := g_GdsPoint_parse pm_xops l.
Definition g_parse_vec (l : list Z) : pm (list (gGdsPoint Z Z)) := g_GdsPoint_parse_vec pm_xops l.
Definition g_parse_datetimes (d : list Z) : pm (gGdsDateTimes Z Z) := g_GdsParser_parse_datetimes pm_xops d.
Definition g_parse_property (attr : Z) : pm (gGdsProperty bytes Z Z) := g_GdsParser_parse_property pm_xops bytes x_next attr.
Definition g_parse_strans (f : nat) (d0 d1 : Z) : pm (gGdsStrans Z Z) := g_GdsParser_parse_strans pm_xops bytes pm_nofuel x_next x_peek f d0 d1.
Definition g_parse_boundary (f : nat) : pm (gGdsBoundary bytes Z Z) := g_GdsParser_parse_boundary pm_xops bytes pm_nofuel x_next x_parse_vec f.
Definition g_parse_path (f : nat) : pm (gGdsPath bytes Z Z) := g_GdsParser_parse_path pm_xops bytes pm_nofuel x_next x_parse_vec f.
Definition g_parse_text_elem (f : nat) : pm (gGdsTextElem bytes Z Z) := g_GdsParser_parse_text_elem pm_xops bytes pm_nofuel x_next x_peek f.
Definition g_parse_node (f : nat) : pm (gGdsNode bytes Z Z) := g_GdsParser_parse_node pm_xops bytes pm_nofuel x_next x_parse_vec f.
Definition g_parse_box (f : nat) : pm (gGdsBox bytes Z Z) := g_GdsParser_parse_box pm_xops bytes pm_nofuel x_next x_parse_vec f.
Definition g_parse_struct_ref (f : nat) : pm (gGdsStructRef bytes Z Z) := g_GdsParser_parse_struct_ref pm_xops bytes pm_nofuel x_next x_peek f.
Definition g_parse_array_ref (f : nat) : pm (gGdsArrayRef bytes Z Z) := g_GdsParser_parse_array_ref pm_xops bytes pm_nofuel x_next x_peek x_parse_vec f.
Definition g_parse_struct (f : nat) (dates : list Z) : pm (gGdsStruct bytes Z Z) := g_GdsParser_parse_struct pm_xops bytes pm_nofuel x_next x_peek x_parse_vec f dates.
Definition g_parse_lib (f : nat) : pm (gGdsLibrary bytes Z Z) := g_GdsParser_parse_lib pm_xops bytes pm_nofuel x_next x_peek x_parse_vec f.
(** what holds of every state of a run: the bytes not yet read are bytes, and the look-ahead record is a value of the Rust type
    (`BgnLib { dates: [i16; 12] }`, `BgnStruct { dates: [i16; 12] }`: arrays of a length other than 2 are lists in the generated types) *)
Definition wfrec (r : grec) : Prop :=
  match r with gGdsRecord_BgnLib _ d | gGdsRecord_BgnStruct _ d => length d = 12%nat | _ => True end.
Definition u8s (s : pst) : Prop := forallb u8b (snd s) = true /\ wfrec (fst s).
