(** C12, Layer B (Flocq) -- the float level of the instance-transform model (Geom/Transform.v part (B))
    IS IEEE-754 binary64 arithmetic, as formalised by Flocq 4.1.0 (Flocq.IEEE754.Binary / Bits).

    Properties/C12.v parts (8)-(10) prove "no rounding drift at right angles" about a model in which a
    double is an exact dyadic (m, e) over Z and every `*`, `+`, `isize as f64` is exact arithmetic followed
    by the hand-written [round_flt] (nearest even to 53 bits, gradual underflow, overflow = outside the
    model), `f64::round` is [f_round], `as isize` is [as_isize]. Here each of these is a theorem against
    Flocq (bridge definitions in Base/F64Flocq.v, proofs in Base/F64Flocq_proofs.v), and the drift
    theorems are restated about the computation carried out by Flocq's own operations ([chain_image_b]).

    [repr x d]: the [binary64] x is finite and has the value of the dyadic d. The dyadic model does not
    carry the sign of a zero (it cannot reach an integer coordinate), so the correspondences are on values;
    the bit-level statements (B5) are exact for every non-zero result and say "a zero" otherwise.

    AXIOMS. Flocq is built on the standard library's classical real numbers; every theorem of this file
    depends on exactly
      ClassicalDedekindReals.sig_forall_dec, ClassicalDedekindReals.sig_not_dec,
      FunctionalExtensionality.functional_extensionality_dep, Classical_Prop.classic
    (see the Print Assumptions at the end) and on nothing else. Properties/C12.v does not import this file
    nor the bridge, and stays closed under the global context. *)
From Coq Require Import ZArith Bool List Reals.
From Flocq Require Import Core Binary Bits.
From L21 Require Import Base.F64 Gen.LibmGen Geom.Transform Geom.TransformSpec Geom.Transform_proofs Geom.TransformFloat.
From L21 Require Import Base.F64Flocq Base.F64Flocq_proofs.
Import ListNotations.
Local Open Scope Z_scope.

(** (B1) The model's rounding is Flocq's: [round_flt] of ANY dyadic is
    round radix2 (FLT_exp (-1074) 53) ZnearestE of its value ([rnd64]); [finite_ok] is the IEEE overflow test
    |rounded| < 2^1024. This is what the error analysis of C12 (8) rests on. *)
Theorem C12B_round_flt_is_flocq_round :
  forall d : dy, dyR (round_flt d) = round radix2 (FLT_exp (-1074) 53) ZnearestE (dyR d).
Proof. exact round_flt_is_flocq_round. Qed.

Theorem C12B_finite_ok_is_overflow_test :
  forall d : dy, finite_ok d = Rlt_bool (Rabs (dyR d)) (bpow radix2 1024).
Proof. exact finite_ok_Rlt. Qed.

(** (B2) Doubles given as bit patterns: [dy_of_bits] gives the value of Flocq's [b64_of_bits], and [None]
    exactly on infinities and NaNs. *)
Theorem C12B_dy_of_bits_is_flocq :
  forall b d, dy_of_bits b = Some d -> repr (b64_of_bits b) d.
Proof. exact dy_of_bits_repr. Qed.

Theorem C12B_dy_of_bits_none_is_nonfinite :
  forall b, dy_of_bits b = None -> is_finite 53 1024 (b64_of_bits b) = false.
Proof. exact dy_of_bits_none. Qed.

(** (B3) The operations. For finite doubles x, y with the values of a, b:
    f64 `*` = [Bmult] mode_NE, f64 `+` = [Bplus] mode_NE, unary `-` = [Bopp], `n as f64` (n: isize) =
    [binary_normalize] mode_NE of n * 2^0. When the model answers [None] (outside the model) Flocq's result
    is an infinity: the model's exclusion is exactly IEEE overflow. *)
Theorem C12B_fmul_is_Bmult :
  forall x y a b, repr x a -> repr y b ->
    match fmul a b with
    | Some r => repr (b64_mult mode_NE x y) r
    | None => b64_mult mode_NE x y = B754_infinity 53 1024 (xorb (Bsign 53 1024 x) (Bsign 53 1024 y))
    end.
Proof. exact fmul_is_Bmult. Qed.

Theorem C12B_fadd_is_Bplus :
  forall x y a b, repr x a -> repr y b ->
    match fadd a b with
    | Some r => repr (b64_plus mode_NE x y) r
    | None => b64_plus mode_NE x y = B754_infinity 53 1024 (Bsign 53 1024 x)
    end.
Proof. exact fadd_is_Bplus. Qed.

Theorem C12B_fneg_is_Bopp :
  forall x a, repr x a -> repr (b64_opp x) (fneg a).
Proof. exact fneg_is_Bopp. Qed.

Theorem C12B_f_of_int_is_normalize :
  forall n,
    match f_of_int n with
    | Some r => repr (b64_of_Z n) r
    | None => b64_of_Z n = B754_infinity 53 1024 (n <? 0)
    end.
Proof. exact f_of_int_is_normalize. Qed.

(** (B4) `x.round() as isize`: [f_round] is rounding to the nearest integer with ties away from zero
    ([ZnearestA]), which is what Flocq's [Bnearbyint] in mode_NA followed by [Btrunc] delivers; the model's
    [as_isize] then saturates that integer ([b64_to_isize] in Base/F64Flocq.v is [as_isize] of [Btrunc]). *)
Theorem C12B_f_round_is_nearest_away :
  forall d : dy, f_round d = ZnearestA (dyR d).
Proof. exact f_round_is_ZnearestA. Qed.

Theorem C12B_f_round_is_flocq :
  forall x d, repr x d -> b64_trunc (b64_round x) = f_round d.
Proof. exact f_round_is_flocq. Qed.

(** (B5) Bit pattern in, bit pattern out. For finite doubles given as 64-bit patterns, the pattern the
    model returns ([dy_to_bits] of its result) is [bits_of_b64] of Flocq's result whenever the result is
    finite and non-zero; for a zero result the model returns +0 and Flocq a zero of either sign; the model
    is outside ([None]) exactly when Flocq's result is not finite. [dy_to_bits] never fails on a value
    that is a double. *)
Theorem C12B_dy_to_bits_is_flocq_bits :
  forall z d, repr z d ->
    exists b, dy_to_bits d = Some b /\
      (fst d <> 0 -> b = bits_of_b64 z) /\
      (fst d = 0 -> b = 0 /\ f64_is_zero (bits_of_b64 z) = true).
Proof. exact dy_to_bits_is_flocq_bits. Qed.

Theorem C12B_fmul_bits :
  forall ba bb a b, dy_of_bits ba = Some a -> dy_of_bits bb = Some b ->
    let z := b64_mult mode_NE (b64_of_bits ba) (b64_of_bits bb) in
    match fmul a b with
    | Some r => exists br, dy_to_bits r = Some br /\
                  (fst r <> 0 -> br = bits_of_b64 z) /\
                  (fst r = 0 -> br = 0 /\ f64_is_zero (bits_of_b64 z) = true)
    | None => is_finite 53 1024 z = false
    end.
Proof. exact fmul_bits. Qed.

Theorem C12B_fadd_bits :
  forall ba bb a b, dy_of_bits ba = Some a -> dy_of_bits bb = Some b ->
    let z := b64_plus mode_NE (b64_of_bits ba) (b64_of_bits bb) in
    match fadd a b with
    | Some r => exists br, dy_to_bits r = Some br /\
                  (fst r <> 0 -> br = bits_of_b64 z) /\
                  (fst r = 0 -> br = 0 /\ f64_is_zero (bits_of_b64 z) = true)
    | None => is_finite 53 1024 z = false
    end.
Proof. exact fadd_bits. Qed.

Theorem C12B_f_of_int_bits :
  forall n,
    match f_of_int n with
    | Some r => exists br, dy_to_bits r = Some br /\
                  (n <> 0 -> br = bits_of_b64 (b64_of_Z n)) /\ (n = 0 -> br = 0)
    | None => is_finite 53 1024 (b64_of_Z n) = false
    end.
Proof. exact f_of_int_bits. Qed.

(** (B6) The whole pipeline. [cascade_b], [from_instance_b], [apply_b], [chain_image_b]
    (Base/F64Flocq.v) are `Transform::cascade`, `Transform::from_instance`, `Point::transform` and the
    transform accumulated by `flatten_helper` along a chain of placements, transcribed exactly as in
    Geom/Transform.v part (B) but computing on [binary64] with Flocq's operations only (libm's sine and
    cosine enter as the doubles of the table Gen/LibmGen.v through [b64_of_bits]).
    Whenever the dyadic model is inside its domain, Flocq's computation returns the same integers. *)
Theorem C12B_cascade_is_flocq :
  forall pb cb p c t, trepr pb p -> trepr cb c -> cascade_f p c = Some t -> trepr (cascade_b pb cb) t.
Proof. exact cascade_repr. Qed.

Theorem C12B_apply_is_flocq :
  forall tb t v r, trepr tb t -> apply_f t v = Some r -> apply_b tb v = r.
Proof. exact apply_repr. Qed.

Theorem C12B_chain_image_is_flocq :
  forall chain v r, chain_image_f chain v = Some r -> chain_image_b chain v = Some r.
Proof. exact chain_image_flocq. Qed.

(** (B7) NO ROUNDING DRIFT AT RIGHT ANGLES, about Flocq's arithmetic: the statements of C12 (8) and (10)
    with the IEEE computation [chain_image_b] in place of the dyadic model. Same hypotheses, same bound
    [drift_budget D L X]: 10 D^2 L + D L + 16 X D + 4 X + 4 <= 2^52. *)
Theorem C12B_right_angle_chain_no_drift_flocq :
  forall (D L X : Z) (chain : list fplacement) (x y : Z),
    drift_budget D L X ->
    Z.of_nat (length chain) <= D -> Forall (placement_ok L) chain ->
    Z.abs x <= X -> Z.abs y <= X ->
    exists sp, spec_path_of chain = Some sp /\ chain_image_b chain (x, y) = Some (path_image sp (x, y)).
Proof. exact chain_image_exact_flocq. Qed.

Theorem C12B_right_angle_no_drift_any_depth_uniform_flocq :
  table_exactb = true ->
  forall (L X : Z) (chain : list fplacement) (x y : Z),
    0 <= L -> Forall (placement_ok L) chain -> Z.abs x <= X -> Z.abs y <= X ->
    Z.of_nat (length chain) * L + X < 2 ^ 53 ->
    exists sp, spec_path_of chain = Some sp /\ chain_image_b chain (x, y) = Some (path_image sp (x, y)).
Proof. exact chain_image_exact_any_depth_uniform_flocq. Qed.

(** (B8) The same for the whole of `Layout::flatten`: [flatten_b] (Base/F64Flocq.v) walks the hierarchy as
    `flatten_helper` does, with Flocq's cascade, from_instance and Point::transform. Whenever the dyadic
    model is inside its domain (result [Ok] or [Panic]), Flocq's walk returns the same result; hence C12 (9)
    about Flocq's arithmetic: same elements as the exact (K = Z) flatten, panic exactly on a missing layout. *)
Theorem C12B_flatten_is_flocq :
  forall l : layout fplacement (Z * Z), flatten_f l <> OutOfModel -> flatten_b l = flatten_f l.
Proof. exact flatten_flocq. Qed.

Theorem C12B_right_angle_flatten_no_drift_flocq :
  forall (D : nat) (L X : Z) (l : layout fplacement (Z * Z)),
    drift_budget (Z.of_nat D) L X -> layout_ok L X l D ->
    exists zl, zlayout_of l = Some zl /\ flatten_b l = flatten_K ZR zl /\
      flatten_b l =
      match paths zl with
      | Some ps => Ok (map (fun pe => elem_map (path_map ZR (fst pe)) (snd pe)) ps)
      | None => Panic
      end.
Proof. exact flatten_no_drift_flocq. Qed.

(** Non-vacuity: Flocq's operations compute inside Coq. 1.2 * 3.0 = 3.5999999999999996 and
    0.1 + 0.2 = 0.30000000000000004 bit for bit, on both sides; 2^53 + 1 as f64 rounds to 2^53; round(2.5) = 3,
    round(-2.5) = -3; and the chain of C12_right_angle_chain_nonvacuous (depth 3, locations and point near 2^31,
    inexact float matrix on the libm table) evaluated by Flocq gives the exact image. *)
Example C12B_nonvacuous :
  bits_of_b64 (b64_mult mode_NE (b64_of_bits 4608083138725491507) (b64_of_bits 4613937818241073152))
    = 4615288898129284300 /\
  (match dy_of_bits 4608083138725491507, dy_of_bits 4613937818241073152 with
   | Some a, Some b => match fmul a b with Some r => dy_to_bits r | None => None end
   | _, _ => None end) = Some 4615288898129284300 /\
  bits_of_b64 (b64_plus mode_NE (b64_of_bits 4591870180066957722) (b64_of_bits 4596373779694328218))
    = 4599075939470750516 /\
  (match dy_of_bits 4591870180066957722, dy_of_bits 4596373779694328218 with
   | Some a, Some b => match fadd a b with Some r => dy_to_bits r | None => None end
   | _, _ => None end) = Some 4599075939470750516 /\
  bits_of_b64 (b64_of_Z (2 ^ 53 + 1)) = 4845873199050653696 /\
  (match f_of_int (2 ^ 53 + 1) with Some r => dy_to_bits r | None => None end) = Some 4845873199050653696 /\
  b64_trunc (b64_round (b64_of_bits 4612811918334230528)) = 3 /\ f_round (5, -1) = 3 /\
  b64_trunc (b64_round (b64_of_bits 13836183955189006336)) = -3 /\ f_round (-5, -1) = -3.
Proof. vm_compute. repeat split; reflexivity. Qed.

Example C12B_chain_nonvacuous :
  let chain := [(2 ^ 31 - 5, - 2 ^ 31 + 7, true, Some 90); (123456789, - 2 ^ 31, false, Some (-270));
                (- 2 ^ 31 + 1, 2 ^ 31 - 1, true, Some 180)] in
  chain_image_b chain (2 ^ 31 - 1, - 2 ^ 31) = Some (-4294967299, -2024026851) /\
  chain_image_f chain (2 ^ 31 - 1, - 2 ^ 31) = Some (-4294967299, -2024026851).
Proof. vm_compute. split; reflexivity. Qed.

Example C12B_flatten_nonvacuous :
  let l := Layout [(7, Rect (0, 0) (3, 1))]
             [((2 ^ 31 - 1, - 2 ^ 31, true, Some 90),
               Some (Layout [(8, Polygon [(3, 1); (0, 2 ^ 31)])]
                            [((1, 1, false, Some (-180)), Some (Layout [(9, Path [(1, 0)] 5)] []));
                             ((- 2 ^ 30, 5, true, None),
                              Some (Layout [(10, Rect (-7, 2) (2 ^ 20, - 2 ^ 20))] []))]))] in
  flatten_b l = Ok [(7, Rect (0, 0) (3, 1));
                    (8, Polygon [(2147483648, -2147483645); (4294967295, -2147483648)]);
                    (9, Path [(2147483648, -2147483648)] 5);
                    (10, Rect (2147483650, -3221225479) (2148532228, -3220176896))].
Proof. vm_compute. reflexivity. Qed.

Print Assumptions C12B_round_flt_is_flocq_round.
Print Assumptions C12B_finite_ok_is_overflow_test.
Print Assumptions C12B_dy_of_bits_is_flocq.
Print Assumptions C12B_dy_of_bits_none_is_nonfinite.
Print Assumptions C12B_fmul_is_Bmult.
Print Assumptions C12B_fadd_is_Bplus.
Print Assumptions C12B_fneg_is_Bopp.
Print Assumptions C12B_f_of_int_is_normalize.
Print Assumptions C12B_f_round_is_nearest_away.
Print Assumptions C12B_f_round_is_flocq.
Print Assumptions C12B_dy_to_bits_is_flocq_bits.
Print Assumptions C12B_fmul_bits.
Print Assumptions C12B_fadd_bits.
Print Assumptions C12B_f_of_int_bits.
Print Assumptions C12B_cascade_is_flocq.
Print Assumptions C12B_apply_is_flocq.
Print Assumptions C12B_chain_image_is_flocq.
Print Assumptions C12B_right_angle_chain_no_drift_flocq.
Print Assumptions C12B_right_angle_no_drift_any_depth_uniform_flocq.
Print Assumptions C12B_flatten_is_flocq.
Print Assumptions C12B_right_angle_flatten_no_drift_flocq.
