(** Kernels: the generated Gallina reading of the small arithmetic Rust functions EQUALS the
    hand-written model functions (tie (a) of DESIGN.md 2.3 for algorithmic code).

    Gen/KernelsGen.v is rewritten from /repo on every run by tools/translate_rust_kernels.py (a
    tokenizer, a recursive-descent parser for a subset of Rust, a type-directed generator); each
    [g_<Type>_<fn>] there is the Rust function of that name, parametric in the primitive operations
    [kops] (Base/KernelOps.v).  The theorems below instantiate the operations at the level of a
    model (Geom/KernelsInst.v) and state equality with the model function that the C12 / C13
    theorems are about.  An edit to a translated Rust function therefore breaks an obligation here,
    whether or not a sampled input shows the difference.

    Only statements here; proofs in Geom/KernelsTie_proofs.v (transforms: C12, and C06/C07 through the
    shared transform model) and Geom/KernelsTieContains_proofs.v (containment: C13). *)
From Coq Require Import ZArith Bool List.
From L21 Require Import Base.KernelOps Gen.KernelsGen Geom.Transform Geom.Contains Geom.KernelsInst.
From L21 Require Geom.KernelsTie_proofs Geom.KernelsTieContains_proofs.
Local Open Scope Z_scope.

(** * layout21raw/src/geom.rs, transforms -- ring level (any ring, any sine/cosine callee) *)
Section Ring.
  Context {K : Type} (R : ring_ops K).

  Theorem Ktie_matmul : forall p q : transform K,
    g_matmul (ring_kops R) (A_of p) (A_of q) = Some (M4_of (matmul R p q)).
  Proof. exact (KernelsTie_proofs.tie_matmul R). Qed.

  Theorem Ktie_matvec : forall (p : transform K) (v : K * K),
    g_matvec (ring_kops R) (A_of p) v = Some (matvec R p v).
  Proof. exact (KernelsTie_proofs.tie_matvec R). Qed.

  Theorem Ktie_cascade : forall p q : transform K,
    g_Transform_cascade (ring_kops R) (T_of p) (T_of q) = Some (T_of (cascade R p q)).
  Proof. exact (KernelsTie_proofs.tie_cascade R). Qed.

  Theorem Ktie_identity : g_Transform_identity (ring_kops R) = Some (T_of (identity R)).
  Proof. exact (KernelsTie_proofs.tie_identity R). Qed.

  Theorem Ktie_translate : forall x y : K,
    g_Transform_translate (ring_kops R) x y = Some (T_of (translate R x y)).
  Proof. exact (KernelsTie_proofs.tie_translate R). Qed.

  Theorem Ktie_reflect_vert : g_Transform_reflect_vert (ring_kops R) = Some (T_of (reflect_vert R)).
  Proof. exact (KernelsTie_proofs.tie_reflect_vert R). Qed.

  Theorem Ktie_rotate : forall (sc : K -> option (K * K)) (a : K),
    g_Transform_rotate (ring_kops R) sc a =
    match sc a with Some (s, c) => Some (T_of (rotate R c s)) | None => None end.
  Proof. exact (KernelsTie_proofs.tie_rotate R). Qed.

  Theorem Ktie_from_instance : forall (sc : K -> option (K * K)) (lx ly : K) (r : bool) (oa : option K),
    g_Transform_from_instance (ring_kops R) sc (P_of (lx, ly)) r oa =
    match oa with
    | None => Some (T_of (from_instance_opt R lx ly r None))
    | Some a => match sc a with
                | Some (s, c) => Some (T_of (from_instance_opt R lx ly r (Some (c, s))))
                | None => None
                end
    end.
  Proof. exact (KernelsTie_proofs.tie_from_instance R). Qed.

  Theorem Ktie_point_transform : forall (t : transform K) (v : K * K),
    g_Point_transform (ring_kops R) (P_of v) (T_of t) = Some (P_of (apply R t v)).
  Proof. exact (KernelsTie_proofs.tie_point_transform R). Qed.

  Theorem Ktie_rect_transform : forall (t : transform K) (p0 p1 : K * K),
    g_Rect_transform (ring_kops R) (R_of p0 p1) (T_of t) =
    match shape_transform (fun v => Some (apply R t v)) (Rect p0 p1) with
    | Some (Rect q0 q1) => Some (R_of q0 q1)
    | _ => None
    end.
  Proof. exact (KernelsTie_proofs.tie_rect_transform R). Qed.
End Ring.

(** * the same functions at the float level (binary64 as dyadics, every operation rounded) *)
Theorem Ktie_matmul_f : forall p q : ftransform,
  g_matmul float_kops (A_of p) (A_of q) = option_map M4_of (matmul_f p q).
Proof. exact KernelsTie_proofs.tie_matmul_f. Qed.

Theorem Ktie_matvec_f : forall (p : ftransform) (v : dy * dy),
  g_matvec float_kops (A_of p) v = matvec_f p v.
Proof. exact KernelsTie_proofs.tie_matvec_f. Qed.

Theorem Ktie_cascade_f : forall p q : ftransform,
  g_Transform_cascade float_kops (T_of p) (T_of q) = option_map T_of (cascade_f p q).
Proof. exact KernelsTie_proofs.tie_cascade_f. Qed.

Theorem Ktie_identity_f : g_Transform_identity float_kops = Some (T_of identity_f).
Proof. exact KernelsTie_proofs.tie_identity_f. Qed.

Theorem Ktie_translate_f : forall x y : dy,
  g_Transform_translate float_kops x y = Some (T_of (translate_f x y)).
Proof. exact KernelsTie_proofs.tie_translate_f. Qed.

Theorem Ktie_reflect_vert_f : g_Transform_reflect_vert float_kops = Some (T_of reflect_vert_f).
Proof. exact KernelsTie_proofs.tie_reflect_vert_f. Qed.

Theorem Ktie_rotate_f : forall (sc : dy -> option (dy * dy)) (a : dy),
  g_Transform_rotate float_kops sc a =
  match sc a with Some (s, c) => Some (T_of (rotate_f s c)) | None => None end.
Proof. exact KernelsTie_proofs.tie_rotate_f. Qed.

Theorem Ktie_from_instance_f : forall (sc : dy -> option (dy * dy)) (lx ly : Z) (r : bool) (oa : option dy),
  g_Transform_from_instance float_kops sc (P_of (lx, ly)) r oa =
  match oa with
  | None => option_map T_of (from_instance_f lx ly r None)
  | Some a => match sc a with
              | Some p => option_map T_of (from_instance_f lx ly r (Some p))
              | None => None
              end
  end.
Proof. exact KernelsTie_proofs.tie_from_instance_f. Qed.

Theorem Ktie_point_transform_f : forall (t : ftransform) (v : Z * Z),
  g_Point_transform float_kops (P_of v) (T_of t) = option_map P_of (apply_f t v).
Proof. exact KernelsTie_proofs.tie_point_transform_f. Qed.

Theorem Ktie_rect_transform_f : forall (t : ftransform) (p0 p1 : Z * Z),
  g_Rect_transform float_kops (R_of p0 p1) (T_of t) =
  match shape_transform (apply_f t) (Rect p0 p1) with
  | Some (Rect q0 q1) => Some (R_of q0 q1)
  | _ => None
  end.
Proof. exact KernelsTie_proofs.tie_rect_transform_f. Qed.

(** `sin_cos_degrees` at every multiple of 90 degrees below 2^53 is exactly the specification's
    [exact_cs] (as doubles); hence `Transform::rotate` there is the exact quarter turn *)
Theorem Ktie_sin_cos_degrees_right : forall a : Z, Z.abs a < 2 ^ 53 -> a mod 90 = 0 ->
  g_sin_cos_degrees float_kops (dy_of_Z a) =
  match exact_cs a with Some (c, s) => Some (dy_of_Z s, dy_of_Z c) | None => None end.
Proof. exact KernelsTie_proofs.tie_sin_cos_degrees_right. Qed.

Theorem Ktie_rotate_full_right : forall a : Z, Z.abs a < 2 ^ 53 ->
  forall c s, exact_cs a = Some (c, s) ->
  KernelsTie_proofs.g_rotate_full float_kops (dy_of_Z a) = Some (T_of (rotate_f (dy_of_Z s) (dy_of_Z c))).
Proof. exact KernelsTie_proofs.tie_rotate_full_right. Qed.

(** * layout21raw/src/geom.rs and bbox.rs, containment -- Z with range checks *)
Theorem Ktie_rect_contains : forall p0 p1 q : point,
  g_Rect_contains zc_kops (R_of p0 p1) (P_of q) = CVal (rect_contains p0 p1 q).
Proof. exact KernelsTieContains_proofs.tie_rect_contains. Qed.

Theorem Ktie_bbox_contains : forall (bb : point * point) (q : point),
  g_BoundBox_contains zc_kops (B_of bb) (P_of q) = CVal (bbox_contains bb q).
Proof. exact KernelsTieContains_proofs.tie_bbox_contains. Qed.

Theorem Ktie_bbox_empty : g_BoundBox_empty zc_kops = CVal (B_of bbox_empty).
Proof. exact KernelsTieContains_proofs.tie_bbox_empty. Qed.

Theorem Ktie_points_bbox : forall ps : list point,
  g_Vec_Point_bbox zc_kops (map P_of ps) = CVal (B_of (points_bbox ps)).
Proof. exact KernelsTieContains_proofs.tie_points_bbox. Qed.

(** `Path::contains` and `Polygon::contains`, loops included: for every vertex list a Vec can hold and
    (polygon) coordinates that are values of `Int`, the generated function returns what the model returns --
    the same answer, the same overflow, the same panic *)
Theorem Ktie_path_contains : forall (ps : list point) (width : Z) (q : point),
  Z.of_nat (length ps) <= 2 ^ 63 ->
  res_of (g_Path_contains zc_kops (mk_gPath (map P_of ps) width) (P_of q)) = path_contains ps width q.
Proof. exact KernelsTieContains_proofs.tie_path_contains. Qed.

Theorem Ktie_polygon_contains : forall (ps : list point) (q : point),
  Forall pt_ok ps -> pt_ok q -> Z.of_nat (length ps) <= 2 ^ 62 ->
  res_of (g_Polygon_contains zc_kops (mk_gPolygon (map P_of ps)) (P_of q)) = poly_contains ps q.
Proof. exact KernelsTieContains_proofs.tie_polygon_contains. Qed.

Print Assumptions Ktie_matmul.
Print Assumptions Ktie_matvec.
Print Assumptions Ktie_cascade.
Print Assumptions Ktie_identity.
Print Assumptions Ktie_translate.
Print Assumptions Ktie_reflect_vert.
Print Assumptions Ktie_rotate.
Print Assumptions Ktie_from_instance.
Print Assumptions Ktie_point_transform.
Print Assumptions Ktie_matmul_f.
Print Assumptions Ktie_matvec_f.
Print Assumptions Ktie_cascade_f.
Print Assumptions Ktie_identity_f.
Print Assumptions Ktie_translate_f.
Print Assumptions Ktie_reflect_vert_f.
Print Assumptions Ktie_rotate_f.
Print Assumptions Ktie_from_instance_f.
Print Assumptions Ktie_point_transform_f.
Print Assumptions Ktie_sin_cos_degrees_right.
Print Assumptions Ktie_rotate_full_right.
Print Assumptions Ktie_rect_contains.
Print Assumptions Ktie_bbox_contains.
Print Assumptions Ktie_bbox_empty.
Print Assumptions Ktie_points_bbox.
Print Assumptions Ktie_path_contains.
Print Assumptions Ktie_polygon_contains.
Print Assumptions Ktie_rect_transform.
Print Assumptions Ktie_rect_transform_f.
