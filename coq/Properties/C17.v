(** C17 -- Dependency orderings are complete, duplicate-free and dependencies-first.
    Property theorems only; proofs are in Order/DepOrder_proofs.v.

    Model (Order/DepOrder.v): [order_pending fuel deps items] is layout21utils
    DepOrderer::order/push (seen + pending sets; used by tetris PlaceOrder and CellOrder);
    [order_nopending fuel defined deps items] is the three hand-rolled orderers without a
    pending set (raw DepOrder, tetris library DepOrder: [defined = all_defined]; raw
    GdsDepOrder: [defined x] = "a struct named x exists", a failing lookup is [Panic]).
    [fuel] bounds the recursion DEPTH; [OutOfFuel] = deeper than that.
    Specification (Order/DepOrderSpec.v): [topo_ok], [cyclic], [dangling], [reachable].
    All statements are for arbitrary graphs [deps : N -> list N] and root lists; no size bound. *)
From Coq Require Import ZArith NArith List Bool.
From L21 Require Import Order.DepOrder Order.DepOrderSpec Order.DepOrderCheck Order.DepOrder_proofs
  Order.DepOrderFixed Order.DepOrderFixed_proofs.
Import ListNotations.

(** ** The generic helper (with pending set) *)

(** (1) A returned order contains each reachable item exactly once and every item after all
    its dependencies -- for every graph, listing order and sharing structure. *)
Theorem C17_pending_sound :
  forall fuel deps items out,
    order_pending fuel deps items = Ok out -> topo_ok deps items out.
Proof. exact (fun fuel deps items out => order_pending_sound deps items fuel out). Qed.

(** (2) Whenever the recursion depth allowed is sufficient (see (3)), an error is returned
    exactly when there is a cycle (incl. a self-reference) among the reachable items; together
    with (1): otherwise an order is returned.  The helper never panics. *)
Theorem C17_pending_cycle :
  forall fuel deps items,
    order_pending fuel deps items <> OutOfFuel ->
    (order_pending fuel deps items = Err <-> cyclic deps items).
Proof. exact (fun fuel deps items => order_pending_cycle deps items fuel). Qed.

Theorem C17_pending_no_panic :
  forall fuel deps items, order_pending fuel deps items <> Panic.
Proof. exact (fun fuel deps items => order_pending_no_panic deps items fuel). Qed.

(** (3) "does not recurse without bound": if the reachable items lie in a finite list
    [nodes], recursion depth [length nodes + 1] is always enough -- also on cyclic graphs. *)
Theorem C17_pending_bounded :
  forall deps items nodes fuel,
    (forall x, reachable deps items x -> In x nodes) ->
    (length nodes < fuel)%nat ->
    order_pending fuel deps items <> OutOfFuel.
Proof. exact (fun deps items nodes fuel H => order_pending_bounded deps items nodes H fuel). Qed.

(** (1)-(3) in one statement. *)
Theorem C17_pending_total :
  forall deps items nodes,
    (forall x, reachable deps items x -> In x nodes) ->
    let r := order_pending (S (length nodes)) deps items in
    (cyclic deps items /\ r = Err) \/
    (~ cyclic deps items /\ exists out, r = Ok out /\ topo_ok deps items out).
Proof. exact order_pending_total. Qed.

(** ** The hand-rolled orderers (no pending set) *)

(** (4) On an acyclic graph whose references all resolve they return a correct order, with
    recursion depth at most [length nodes + 1]. *)
Theorem C17_nopending_acyclic :
  forall defined deps items nodes fuel,
    ~ cyclic deps items -> ~ dangling defined deps items ->
    (forall x, reachable deps items x -> In x nodes) -> (length nodes < fuel)%nat ->
    exists out, order_nopending fuel defined deps items = Ok out /\ topo_ok deps items out.
Proof. exact (fun defined deps items => order_nopending_acyclic defined deps items). Qed.

(** (5) Whatever they return is a correct order (so the graph was acyclic and closed). *)
Theorem C17_nopending_sound :
  forall fuel defined deps items out,
    order_nopending fuel defined deps items = Ok out ->
    topo_ok deps items out /\ ~ cyclic deps items /\ ~ dangling defined deps items.
Proof. exact order_nopending_sound_full. Qed.

(** (6) REFUTATION of the cycle clause for the hand-rolled orderers.  The full statement would be
    [C17_nopending_cycle_full]; instead, on EVERY cyclic graph and for EVERY recursion depth the
    pointer-based orderers (raw DepOrder, tetris library DepOrder) exceed the depth: no error
    value exists, the real code recurses until the stack overflows. *)
Definition C17_nopending_cycle_full : Prop :=
  forall defined deps items nodes,
    (forall x, reachable deps items x -> In x nodes) ->
    cyclic deps items -> order_nopending (S (length nodes)) defined deps items = Err.

Theorem C17_nopending_cycle_unbounded :
  forall deps items fuel,
    cyclic deps items -> order_nopending fuel all_defined deps items = OutOfFuel.
Proof. exact order_nopending_cyclic_overflow. Qed.

(** the GDSII orderer on a cyclic graph: unbounded recursion, or a panic when it meets a
    dangling name first; never an error value, never an order *)
Theorem C17_nopending_cycle_gds :
  forall defined deps items fuel,
    cyclic deps items ->
    order_nopending fuel defined deps items = OutOfFuel \/ order_nopending fuel defined deps items = Panic.
Proof. exact (fun defined deps items fuel => order_nopending_cyclic defined deps items fuel). Qed.

Theorem C17_nopending_never_err :
  forall fuel defined deps items, order_nopending fuel defined deps items <> Err.
Proof. exact (fun fuel defined deps items => order_nopending_no_err defined deps items fuel). Qed.

(** the one-node self-loop as a concrete witness *)
Theorem C17_nopending_cycle_refuted :
  exists deps items, cyclic deps items /\
    forall fuel, order_nopending fuel all_defined deps items = OutOfFuel.
Proof. exact nopending_cycle_refuted. Qed.

Theorem C17_nopending_cycle_full_refuted : ~ C17_nopending_cycle_full.
Proof. exact nopending_cycle_full_refuted. Qed.

(** (7) GdsDepOrder on a graph with a dangling reference never returns an order (it panics in
    `unwrap()`, or overflows if there is also a cycle). *)
Theorem C17_nopending_dangling :
  forall fuel defined deps items out,
    dangling defined deps items -> order_nopending fuel defined deps items <> Ok out.
Proof. exact (fun fuel defined deps items out => order_nopending_dangling defined deps items fuel out). Qed.

Theorem C17_nopending_dangling_witness :
  order_nopending 10 (fun x => N.ltb x 2) (deps_of [[1%N; 5%N]; []]) [0%N; 1%N] = Panic.
Proof. vm_compute. reflexivity. Qed.

(** ** The proposed repair (Order/DepOrderFixed.v: pending set + error return; for GDSII the
    name lookup returns the error).  It satisfies the property in full: with recursion depth
    [length nodes + 1] it returns the error exactly on cyclic or dangling graphs and a correct
    order otherwise; it never panics and never needs more depth. *)
Theorem C17_repaired_total :
  forall defined deps items nodes,
    (forall x, reachable deps items x -> In x nodes) ->
    let r := order_checked (S (length nodes)) defined deps items in
    ((cyclic deps items \/ dangling defined deps items) /\ r = Err) \/
    (~ cyclic deps items /\ ~ dangling defined deps items /\
     exists out, r = Ok out /\ topo_ok deps items out).
Proof. exact order_checked_total. Qed.

Theorem C17_repaired_sound :
  forall defined deps items fuel out,
    order_checked fuel defined deps items = Ok out ->
    topo_ok deps items out /\ ~ cyclic deps items /\ ~ dangling defined deps items.
Proof. exact order_checked_sound. Qed.

(** ** The executable oracle of the correspondence run is sound *)
Theorem C17_topo_okb_sound :
  forall deps items out, topo_okb deps items out = true -> topo_ok deps items out.
Proof. exact topo_okb_sound. Qed.

Theorem C17_topo_okb_complete :
  forall deps items out, topo_ok deps items out -> topo_okb deps items out = true.
Proof. exact topo_okb_complete. Qed.

Theorem C17_cycle_walkb_sound :
  forall deps items w, cycle_walkb deps items w = true -> cyclic deps items.
Proof. exact cycle_walkb_sound. Qed.

Theorem C17_check_sound :
  forall kind g items rc out,
    (c17_check kind g items rc out = 0 \/ c17_check kind g items rc out = 1)%Z ->
    (rc = 0%Z /\ topo_ok (deps_of g) items out /\ ~ cyclic (deps_of g) items /\
       (gds_kind kind = true -> ~ dangling (definedb g) (deps_of g) items)) \/
    (rc = 1%Z /\ (cyclic (deps_of g) items \/ (gds_kind kind = true /\ dangling (definedb g) (deps_of g) items))).
Proof. exact c17_check_sound. Qed.

(** ** Non-vacuity: a diamond with a shared dependency listed users-first, a cyclic graph, and
    the same inputs through the hand-rolled model. *)
Example C17_nonvacuous :
  let g := [[1; 2]; [3]; [3; 1]; []]%N in           (* 0 -> 1,2 ; 1 -> 3 ; 2 -> 3,1 *)
  let c := [[1]; [2]; [0]; []]%N in                 (* 0 -> 1 -> 2 -> 0 *)
  order_pending 5 (deps_of g) [0; 1; 2; 3]%N = Ok [3; 1; 2; 0]%N /\
  topo_okb (deps_of g) [0; 1; 2; 3]%N [3; 1; 2; 0]%N = true /\
  topo_okb (deps_of g) [0; 1; 2; 3]%N [3; 2; 1; 0]%N = false /\
  order_nopending 5 all_defined (deps_of g) [0; 1; 2; 3]%N = Ok [3; 1; 2; 0]%N /\
  order_pending 5 (deps_of c) [3; 0]%N = Err /\
  classify 6 (deps_of c) [3; 0]%N = Cyclic /\
  order_nopending 50 all_defined (deps_of c) [3; 0]%N = OutOfFuel /\
  c17_check 0 c [3; 0]%N 1 [] = 0%Z /\ c17_check 1 c [3; 0]%N 2 [] = 2%Z.
Proof. vm_compute. repeat split; reflexivity. Qed.

Print Assumptions C17_pending_sound.
Print Assumptions C17_pending_cycle.
Print Assumptions C17_pending_no_panic.
Print Assumptions C17_pending_bounded.
Print Assumptions C17_pending_total.
Print Assumptions C17_nopending_acyclic.
Print Assumptions C17_nopending_sound.
Print Assumptions C17_nopending_cycle_unbounded.
Print Assumptions C17_nopending_cycle_gds.
Print Assumptions C17_nopending_never_err.
Print Assumptions C17_nopending_cycle_refuted.
Print Assumptions C17_nopending_cycle_full_refuted.
Print Assumptions C17_nopending_dangling.
Print Assumptions C17_nopending_dangling_witness.
Print Assumptions C17_repaired_total.
Print Assumptions C17_repaired_sound.
Print Assumptions C17_topo_okb_sound.
Print Assumptions C17_topo_okb_complete.
Print Assumptions C17_cycle_walkb_sound.
Print Assumptions C17_check_sound.
