(** C15, Layer B (Flocq) -- the Z-level binary64 arithmetic of the GDSII real codec model IS IEEE-754
    binary64 arithmetic, as formalised by Flocq 4.1.0 (Flocq.IEEE754.Binary / Bits).

    Properties/C15.v proves the codec theorems about the model Gds/GdsReal.v, in which doubles are 64-bit
    words over Z, `u64 as f64` is the hand-written [rne53], `.round()` is [rha], and the other float steps
    (`/ 2^56`, `* 16^e`, comparisons with powers of sixteen) are exact integer arithmetic "by construction".
    Here each of those is a theorem against Flocq: bridge definitions in Base/F64Flocq.v, proofs in
    Base/F64Flocq_proofs.v.

    AXIOMS. Flocq is built on the standard library's classical real numbers; every theorem of this file
    depends on exactly
      ClassicalDedekindReals.sig_forall_dec, ClassicalDedekindReals.sig_not_dec,
      FunctionalExtensionality.functional_extensionality_dep, Classical_Prop.classic
    (see the Print Assumptions at the end) and on nothing else. Properties/C15.v does not import this file
    nor the bridge, and stays closed under the global context. *)
From Coq Require Import ZArith Bool Lia Reals.
From Flocq Require Import Core Binary Bits.
From L21 Require Import Base.F64 Gds.GdsReal Gds.GdsReal_proofs Base.F64Flocq Base.F64Flocq_proofs.
Local Open Scope Z_scope.

(** (B1) The word-level view of a double is Flocq's: [f64_decomp] (Base/F64.v) reads off the sign, the
    integer significand and the exponent of [b64_of_bits b]; it answers [None] exactly on the infinities
    and NaNs. *)
Theorem C15B_decomp_is_flocq :
  forall b s m e, f64_decomp b = Some (s, m, e) ->
    is_finite 53 1024 (b64_of_bits b) = true /\
    B2R 53 1024 (b64_of_bits b) = F2R (Float radix2 (sgnZ s m) e) /\
    Bsign 53 1024 (b64_of_bits b) = s.
Proof. exact b64_of_bits_finite. Qed.

Theorem C15B_decomp_none_is_nonfinite :
  forall b, f64_decomp b = None -> is_finite 53 1024 (b64_of_bits b) = false.
Proof. exact b64_of_bits_nonfinite. Qed.

(** (B2) `mantissa as f64`: the model's [rne53] (round a positive integer to 53 significant bits, nearest,
    ties to even) is Flocq's rounding to binary64 of the same real -- for EVERY positive integer, and also
    scaled by any power of two that keeps the result out of the subnormal range. *)
Theorem C15B_rne53_is_flocq_round :
  forall M, 0 < M ->
    F2R (Float radix2 (fst (rne53 M)) (snd (rne53 M) - 52)) =
    round radix2 (FLT_exp (-1074) 53) ZnearestE (IZR M).
Proof. exact rne53_is_flocq_round. Qed.

Theorem C15B_rne53_scaled_is_flocq_round :
  forall M e2, 0 < M -> -1074 <= Z.log2 M - 52 + e2 ->
    F2R (Float radix2 (fst (rne53 M)) (snd (rne53 M) - 52 + e2)) =
    round radix2 (FLT_exp (-1074) 53) ZnearestE (IZR M * bpow radix2 e2).
Proof. exact rne53_scaled_is_flocq_round. Qed.

(** (B3) What decode returns: for every eight-byte word, [gds_decode w] is a finite double, carries the
    sign bit of w, and its value is the IEEE rounding (nearest, ties to even) of the exact value
    (-1)^sign * mantissa * 2^(4*(exp7-64)-56) of the GDSII real. *)
Theorem C15B_decode_is_rounded_value :
  forall w, word64 w ->
    is_finite 53 1024 (b64_of_bits (gds_decode w)) = true /\
    B2R 53 1024 (b64_of_bits (gds_decode w)) =
      rnd64 (F2R (Float radix2 (sgnZ (gds_sign w) (gds_mant w)) (gds_e2 w))) /\
    Bsign 53 1024 (b64_of_bits (gds_decode w)) = gds_sign w.
Proof. exact decode_is_rounded_value. Qed.

(** (B4) decode, operation by operation. [flocq_decode] (Base/F64Flocq.v) performs the float steps of
    `GdsFloat64::decode` with Flocq's operations in the order of the Rust code: `mantissa as f64`
    ([binary_normalize], nearest even), `/ 2f64.powi(56)` ([Bdiv]), then `* 16f64.powi(exp)` or
    `-1.0 * mantissa * 16f64.powi(exp)` ([Bmult], left to right), the powers of two being the exact doubles
    2^56 and 2^(4*exp). Its result has the bit pattern the model computes, for every word (both zeros
    included): the model's single rounding is what the three (four) float operations produce. *)
Theorem C15B_decode_is_flocq :
  forall w, word64 w -> bits_of_b64 (flocq_decode w) = gds_decode w.
Proof. exact flocq_decode_bits. Qed.

(** (B5) encode (after the repair), operation by operation. [flocq_encode_with] performs the float steps of
    `GdsFloat64::encode` with Flocq's operations: the tests `val == 0.0`, `val < 0.0` and `-val` on the
    constructor, the two correction loops with [b64_compare] against the doubles 16^(e-1) and 16^e,
    `val * 16_f64.powi(14 - exponent)` with [Bmult], `.round()` with [Bnearbyint] in mode nearest-away,
    `as u64` as saturated [Btrunc]. It returns the word the model returns, for EVERY 64-bit pattern and
    EVERY estimate [est] of the exponent (NaN and infinities: 0 on both sides; libm's log2 stays outside,
    as in C15_encode_is_reference). In particular the product is exact and the comparisons are the exact
    ones, as the model assumes. *)
Theorem C15B_encode_is_flocq :
  forall est b, flocq_encode_with est (b64_of_bits b) = gds_encode_with est b.
Proof. exact flocq_encode_is_model. Qed.

(** ... the two ingredients, on their own: the model's comparison of a positive dyadic with a power of two
    ([dy_lt_pow2], used by the loops `val < 16^(e-1)`, `val >= 16^e` and by [in_gds_range]) is Flocq's
    [Bcompare] against the double 2^p; the model's [rha] (`.round()` on a non-negative value) is rounding to
    the nearest integer with ties away from zero. *)
Theorem C15B_compare_is_flocq :
  forall val s m e p, reprs val s (F2R (Float radix2 m e)) -> 0 < m -> -1022 <= p <= 1023 ->
    b64_lt val (b64_pow2 p) = dy_lt_pow2 m e p.
Proof. exact b64_lt_pow2. Qed.

Theorem C15B_rha_is_nearest_away :
  forall m sh, 0 <= m -> rha m sh = ZnearestA (F2R (Float radix2 m sh)).
Proof. exact rha_is_ZnearestA. Qed.

(** (B6) Hence the round trip of Properties/C15.v (3) at the Flocq level: encoding an in-range double with
    Flocq's operations and decoding the word with Flocq's operations gives back the same bit pattern.
    [in_gds_range] is the whole normalised range 16^-65 <= |x| < 16^63 (2^-260 <= |x| < 2^252), the lowest
    hex decade (exponent byte 0) included since 2026-10-02. *)
Theorem C15B_decode_encode_flocq :
  forall est x, word64 x -> in_gds_range x ->
    bits_of_b64 (flocq_decode (flocq_encode_with est (b64_of_bits x))) = x.
Proof. exact decode_encode_flocq. Qed.

(** Non-vacuity: Flocq's operations compute inside Coq. 2.0 <-> 0x4120000000000000; a negative value; the
    smallest subnormal and the largest double (outside the format's range, still equal to the model); a
    mantissa that needs rounding with a carry (0x41FFFFFFFFFFFFFF); a double of the lowest hex decade
    (1e-78 = 0x2FBDA48CE468E7C7 <-> 0x001DA48CE468E7C7, exponent byte 0) through Flocq's operations both ways,
    with estimates on both sides of the true exponent -64. *)
Example C15B_nonvacuous :
  bits_of_b64 (flocq_decode 4692750811720056832) = 4611686018427387904 /\
  flocq_encode_with 0 (b64_of_bits 4611686018427387904) = 4692750811720056832 /\
  bits_of_b64 (flocq_decode 0x41FFFFFFFFFFFFFF) = gds_decode 0x41FFFFFFFFFFFFFF /\
  gds_decode 0x41FFFFFFFFFFFFFF = 0x4030000000000000 /\
  bits_of_b64 (flocq_decode 0xC1FFFFFFFFFFFFFB) = gds_decode 0xC1FFFFFFFFFFFFFB /\
  flocq_encode_with 7 (b64_of_bits 13826050856027422720) = gds_encode 13826050856027422720 /\
  flocq_encode_with (-3) (b64_of_bits 1) = gds_encode 1 /\
  flocq_encode_with 100 (b64_of_bits 0x7FEFFFFFFFFFFFFF) = gds_encode 0x7FEFFFFFFFFFFFFF /\
  rne53 (2 ^ 56 - 1) = (two52, 56) /\
  in_gds_rangeb 4611686018427387904 = true /\
  in_gds_rangeb 0x2FBDA48CE468E7C7 = true /\
  flocq_encode_with (-65) (b64_of_bits 0x2FBDA48CE468E7C7) = 0x001DA48CE468E7C7 /\
  flocq_encode_with (-63) (b64_of_bits 0x2FBDA48CE468E7C7) = 0x001DA48CE468E7C7 /\
  bits_of_b64 (flocq_decode 0x001DA48CE468E7C7) = 0x2FBDA48CE468E7C7 /\
  bits_of_b64 (flocq_decode (flocq_encode_with 0 (b64_of_bits 0x2FB0000000000000))) = 0x2FB0000000000000.
Proof. vm_compute. repeat split; reflexivity. Qed.

Print Assumptions C15B_decomp_is_flocq.
Print Assumptions C15B_decomp_none_is_nonfinite.
Print Assumptions C15B_rne53_is_flocq_round.
Print Assumptions C15B_rne53_scaled_is_flocq_round.
Print Assumptions C15B_decode_is_rounded_value.
Print Assumptions C15B_decode_is_flocq.
Print Assumptions C15B_encode_is_flocq.
Print Assumptions C15B_compare_is_flocq.
Print Assumptions C15B_rha_is_nearest_away.
Print Assumptions C15B_decode_encode_flocq.
