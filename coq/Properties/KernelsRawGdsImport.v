(** Kernels, GDSII importer (property C06): the definitions GENERATED on every run from layout21raw/src/gds.rs
    (Gen/KernelsRawGdsImportGen.v, tools/translate_rust_kernels.py unit "rawgdsi") against the hand-written importer model
    Raw/RawGds.v.  Readings: Raw/KernelsInstRawGdsImport.v ([rb_xops]: Z with the range checks of a debug build, doubles as
    bit patterns with IEEE `==`, abstract errors; strings as byte strings; the cell map as the model's association list).
    Proofs: Raw/KernelsTieRawGdsImport_proofs.v (family raw_gdsi).  `import_boundary`: Properties/KernelsRaw2.v. *)
From Coq Require Import ZArith Bool List String.
From L21 Require Import Base.KernelOps Base.KernelOpsX Base.KernelOpsS Base.Outcome Raw.KernelsInstRaw2 Raw.KernelsInstRawGdsImport.
From L21 Require Import Raw.RawData.
From L21 Require Gds.GdsData Raw.RawGds.
From L21 Require Raw.KernelsTieRawGdsImport_proofs.
Import ListNotations.
Local Open Scope Z_scope.
Module T := Raw.KernelsTieRawGdsImport_proofs.

Theorem Ktie_gdsi_import_point : forall q, gp_ok q -> g_import_point q = Ok (Gpt (R.import_point q)).
Proof. exact T.tie_gdsi_import_point. Qed.
Theorem Ktie_gdsi_import_point_vec : forall qs, Forall gp_ok qs ->
  g_import_point_vec qs = Ok (map Gpt (map R.import_point qs)).
Proof. exact T.tie_gdsi_import_point_vec. Qed.
(** a `GdsBox` has five coordinates by its type *)
Theorem Ktie_gdsi_import_box : forall ly x q0 q1 q2 q3 q4, G.x_xy x = [q0; q1; q2; q3; q4] -> gp_ok q0 -> gp_ok q2 ->
  g_import_box ly x = iunit (fun le => Gelem (snd le)) (R.import_box ly x).
Proof. exact T.tie_gdsi_import_box. Qed.
(** the tree as repaired; the width is a value of i32 *)
Theorem Ktie_gdsi_import_path : forall c ly x, R.fx_emptyxy c = true -> R.fx_width c = true ->
  Forall gp_ok (G.p_xy x) -> (forall w, G.p_width x = Some w -> i32_okb w = true) ->
  g_import_path ly x = iunit (fun le => Gelem (snd le)) (R.import_path c ly x).
Proof. exact T.tie_gdsi_import_path. Qed.
Theorem Ktie_gdsi_import_instance : forall c cm x, R.fx_mag c = true -> gp_ok (G.sr_xy x) ->
  g_import_instance cm x = iunit Ginst (R.import_instance c cm x).
Proof. exact T.tie_gdsi_import_instance. Qed.
(** the tree as repaired (picometres known); doubles as dyadic values, the literals as the doubles the model names *)
Theorem Ktie_gdsi_import_units : forall c u, R.fx_pico c = true -> g_import_units u = iunit Gunits (R.import_units c u).
Proof. exact T.tie_gdsi_import_units. Qed.

Print Assumptions Ktie_gdsi_import_point.
Print Assumptions Ktie_gdsi_import_point_vec.
Print Assumptions Ktie_gdsi_import_box.
Print Assumptions Ktie_gdsi_import_path.
Print Assumptions Ktie_gdsi_import_instance.
Print Assumptions Ktie_gdsi_import_units.
