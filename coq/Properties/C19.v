(** C19 -- Gridded-layout (tetris) libraries survive the trip through their protobuf schema.
    Property theorems only; model in Tetris/TProto.v (layout21tetris/src/conv/proto.rs), the
    specification predicates in Tetris/TProtoSpec.v, proofs in Tetris/TProto_proofs.v; the cell order
    is the C17 model Order/DepOrder.v with its theorems (Order/DepOrder_proofs.v).

    Reading guide.  A tetris library L is a heap of cell objects (pointer = index) plus a listing;
    [ptrs_valid L] is typing (a `Ptr` always denotes an object).  [lib_reachable L p]: p is listed or
    instantiated (transitively) by a listed cell -- these are the cells the exporter writes.
    [export L], [import P] : [res] = Ok | Err | Panic | OutOfFuel. *)
From Coq Require Import ZArith NArith List Bool String.
From L21 Require Import Order.DepOrder Order.DepOrderSpec Tetris.TProto Tetris.TProtoSpec Tetris.TProto_proofs.
Import ListNotations.
Local Open Scope Z_scope.

(** (1) Round trip.  For a placed ([placed]: no relative place), acyclic, well-formed library
    ([wf]: every reachable cell has valid outlines (exactly what `Outline::from_prim_pitches`
    accepts, see (7)), `usize` fields below 2^63, locations given as (horizontal, vertical) pitches,
    abstracts without ports; reachable cells have pairwise different names) the export succeeds,
    the import of the exported message succeeds, and the library that comes back is [tlib_equiv]:
    same library name, and for some enumeration [ord] without repetition of exactly the reachable
    cells, the k-th cell of the new library is the image of cell ord_k: same cell name, same
    abstract, same layout name, metal count, outline vectors, assignments and cuts, and instance by
    instance the same name, location and reflections, the new instance pointing at the IMAGE of
    the old instance's target cell. *)
Theorem C19_roundtrip :
  forall L, ptrs_valid L -> placed L -> acyclic L -> wf L ->
    exists P L', export L = Ok P /\ import P = Ok L' /\ tlib_equiv L L'.
Proof. exact roundtrip. Qed.

(** ... in particular the new instance's target carries the old target's name. *)
Theorem C19_equiv_target_names :
  forall L L' ord i i',
    Forall2 (fun p c' => exists c, heap_get L p = Some c /\ cell_equiv ord c c') ord (tlib_heap L') ->
    inst_equiv ord i i' ->
    exists c c', heap_get L (ti_cell i) = Some c /\ heap_get L' (ti_cell i') = Some c' /\ tc_name c' = tc_name c.
Proof. exact equiv_target_names. Qed.

(** (2) Dependency order: in ANY successfully exported message every cell is listed after the
    cells its instances name (no hypothesis on L at all). *)
Theorem C19_deps_first : forall L P, export L = Ok P -> deps_first P.
Proof. exact export_deps_first. Qed.

(** (3) Malformed messages.  [malformed P]: some cell of P has a layout without outline, an
    abstract without outline, an instance without cell reference / with an empty or external
    reference / naming a cell that is not listed EARLIER, an instance without location / with an
    empty place / with a relative place, an assignment without location, or a track cross
    (assignment or cut) without one of its two track references.  Import of such a message is an
    error.  Abstract ports are excluded: the importer has `todo!()` for them, see (6). *)
Theorem C19_malformed_is_error : forall P, no_abs_ports P -> malformed P -> import P = Err.
Proof. exact malformed_is_error. Qed.

(** Import of ANY message without abstract ports returns Ok or Err. *)
Theorem C19_import_never_crashes : forall P, no_abs_ports P -> import P <> Panic /\ import P <> OutOfFuel.
Proof. exact import_no_crash. Qed.

(** (4) A library in which a cell instantiates itself, directly or through other cells, is
    refused by the exporter with an error (and only such libraries fail in the orderer). *)
Theorem C19_export_cycle_error : forall L, ptrs_valid L -> ~ acyclic L -> export L = Err.
Proof. exact export_cycle_error. Qed.

Theorem C19_export_ok_acyclic : forall L P, export L = Ok P -> acyclic L.
Proof. exact export_ok_acyclic. Qed.

(** (5) Export of any library whose reachable abstracts have no ports returns Ok or Err
    (relative places, `usize` values from 2^63 on: Err). *)
Theorem C19_export_never_crashes :
  forall L, ptrs_valid L ->
    (forall p c a, rcell L p c -> tc_abs c = Some a -> tabs_ports a = []) ->
    export L <> Panic /\ export L <> OutOfFuel.
Proof. exact export_no_crash. Qed.

(** (6) Outside the property's list, recorded with witnesses: abstract PORTS.  A library with one
    `Edge` port exports fine and the import of the result panics (`todo!()` in
    import_abstract_port); a `ZTopInner` port panics in the exporter (`todo!()`), and so does a
    `ZTopEdge` port extending `Below` on a cell with zero metals (`metals - 1` on `usize`). *)
Theorem C19_abstract_port_import_panics : exists L P, export L = Ok P /\ import P = Panic.
Proof. exact abstract_port_import_panics_ex. Qed.

Theorem C19_abstract_port_export_panics :
  exists L1 L2, export L1 = Panic /\ export L2 = Panic /\
    tlib_heap L1 = [mkTCell "a" (Some (mkTAbs "a" (mkTO [mkPP Horiz 1] [mkPP Vert 1]) 1 [mkTP "p" PKZTopInner])) None] /\
    tlib_heap L2 = [mkTCell "a" (Some (mkTAbs "a" (mkTO [mkPP Horiz 1] [mkPP Vert 1]) 0 [mkTP "p" (PKZTopEdge 1 TopOrRight 2 Below)])) None].
Proof. exact abstract_port_export_panics_ex. Qed.

(** (7) The specification of a valid outline (TProtoSpec.v, from the documentation of `Outline`)
    is exactly what `Outline::from_prim_pitches` accepts. *)
Theorem C19_outline_valid_iff_accepted :
  forall o, from_prim_pitches (to_x o) (to_y o) = Ok o <-> outline_valid o.
Proof. exact outline_valid_iff_accepted. Qed.

(** (8) The hypotheses of (1) are needed.  Two reachable cells with one name: everything else
    holds, both conversions succeed, and the instance of the first cell (1 metal) comes back as an
    instance of the second (2 metals). *)
Theorem C19_duplicate_names_misresolve :
  exists L P L', ptrs_valid L /\ placed L /\ acyclic L /\ (forall p c, rcell L p c -> cell_wf c) /\
    export L = Ok P /\ import P = Ok L' /\
    target_metals L 2%N 0 = Some 1 /\ target_metals L' 2%N 0 = Some 2.
Proof. exact duplicate_names_misresolve_ex. Qed.

(** A metal count of 2^63 cannot be written to the schema's int64: the export is an error. *)
Theorem C19_big_metals_export_error : exists L, export L = Err /\
  tlib_heap L = [mkTCell "a" None (Some (mkTL "a" two63 (mkTO [mkPP Horiz 1] [mkPP Vert 1]) [] [] []))].
Proof. exact big_metals_export_error_ex. Qed.

(** The self-instantiating cell: hypotheses of (4) are satisfiable. *)
Theorem C19_cycle_nonvacuous : exists L, ptrs_valid L /\ ~ acyclic L /\ export L = Err.
Proof. exact ex_self_cyclic_ex. Qed.

(** Non-vacuity of (1)-(2): [ex_lib] (Tetris/TProto_proofs.v) has three cells listed as top, mid, leaf
    -- against the dependency order -- with stepped outlines, all reflection combinations,
    negative coordinates, assignments and cuts, and a port-less abstract.  It meets every
    hypothesis, is exported as leaf, mid, top, and comes back with re-targeted pointers. *)
Example C19_nonvacuous :
  ptrs_valid ex_lib /\ placed ex_lib /\ acyclic ex_lib /\ wf ex_lib /\
  exists P, export ex_lib = Ok P /\ map pc_name (plib_cells P) = ["leaf"; "mid"; "top"]%string /\
            import P = Ok (mkTLib "demo"
              [ex_leaf;
               mkTCell "mid" None (option_map (fun l => mkTL (tl_name l) (tl_metals l) (tl_outline l)
                   [mkTI "l0" 0%N (PAbs (mkPP Horiz 0) (mkPP Vert 0)) false false;
                    mkTI "l1" 0%N (PAbs (mkPP Horiz 4) (mkPP Vert 1)) true false] (tl_assigns l) (tl_cuts l)) (tc_layout ex_mid));
               mkTCell "top" None (option_map (fun l => mkTL (tl_name l) (tl_metals l) (tl_outline l)
                   [mkTI "m0" 1%N (PAbs (mkPP Horiz 6) (mkPP Vert (-3))) true true;
                    mkTI "x" 0%N (PAbs (mkPP Horiz (-1)) (mkPP Vert 2)) false true] (tl_assigns l) (tl_cuts l)) (tc_layout ex_top))]
              [0%N; 1%N; 2%N]).
Proof. exact ex_nonvacuous. Qed.

(** Non-vacuity of (3): a two-cell message whose second layout has no outline. *)
Example C19_malformed_nonvacuous : no_abs_ports ex_plib_no_outline /\ malformed ex_plib_no_outline.
Proof. exact ex_malformed_nonvacuous. Qed.

Print Assumptions C19_roundtrip.
Print Assumptions C19_equiv_target_names.
Print Assumptions C19_deps_first.
Print Assumptions C19_malformed_is_error.
Print Assumptions C19_import_never_crashes.
Print Assumptions C19_export_cycle_error.
Print Assumptions C19_export_ok_acyclic.
Print Assumptions C19_export_never_crashes.
Print Assumptions C19_abstract_port_import_panics.
Print Assumptions C19_abstract_port_export_panics.
Print Assumptions C19_outline_valid_iff_accepted.
Print Assumptions C19_duplicate_names_misresolve.
Print Assumptions C19_big_metals_export_error.
Print Assumptions C19_cycle_nonvacuous.
Print Assumptions C19_nonvacuous.
Print Assumptions C19_malformed_nonvacuous.
