(** C11 -- The LEF reader never crashes or hangs on any input text.

    Model: Lef/LefLex.v (lexer over the UTF-8 bytes of the text), Lef/LefParse.v ([parse cf src]), Lef/LefWrite.v.
    [cf : cfg] selects, defect by defect, the code as found or as repaired; the only flag that bears on crashes is
    [c_charpos] (the lexer counted characters but sliced bytes; repaired in /repo).  All theorems below hold for
    EVERY cfg with [c_charpos cf = false] and for ALL valid UTF-8 byte strings, with no bound on their size.

    Fuel.  The model has its fuel built in, linear in the input: the lexer runs with [lex_fuel src = length src + 1]
    and every parser loop starts with [fuel_of st] = (number of remaining tokens) + 1 <= length src + 1
    ([C11_fuel_linear]).  So [parse cf src] is "parse with fuel linear in length src", [parse .. <> OutOfFuel] says
    that no loop uses its fuel up: every iteration that goes round again has consumed a token (a byte, in the lexer).
    [C11_steps_linear] adds the total: all parser loops together run at most 2 * length src + 1 iterations.
    Wall-clock time and machine stack depth of the implementation are measured by the correspondence run, not proved. *)
From Coq Require Import ZArith List Bool.
From L21 Require Import Lef.LefDec Lef.LefData Lef.LefLex Lef.LefParse Lef.LefWrite
  Lef.LefLex_proofs Lef.LefParse_proofs Lef.LefSafety_proofs Lef.LefCount_proofs.
From L21 Require Lef.LefParseG.
Import ListNotations.
Local Open Scope Z_scope.

(** ** The code as found: refuted *)
Theorem C11_no_panic_orig_refuted :
  exists src, utf8_valid src /\ parse cfg_orig src = Panic.
Proof. exists witness_version. split. vm_compute; reflexivity. exact parse_orig_panics_version. Qed.

Theorem C11_lex_orig_refuted :
  exists src, utf8_valid src /\ snd (lex true src) = LPanic.
Proof. exists witness_version. split. vm_compute; reflexivity. exact lex_orig_panics. Qed.

(** ** The lexer *)
(** Every position the lexer records -- token start, token stop, line start -- is a character boundary of the
    source in range ([bnd]), start <= stop; so `Token::substr`, `lex_number`'s `&buf[0..pos-start-1]` and the
    line slice of `LefParser::state` index on boundaries. *)
Theorem C11_lex_positions_on_boundaries :
  forall src toks e, utf8_valid src -> lex false src = (toks, e) ->
    Forall (fun ti => bnd src (t_start (ti_tok ti)) /\ bnd src (t_stop (ti_tok ti))
                      /\ t_start (ti_tok ti) <= t_stop (ti_tok ti) /\ bnd src (ti_linestart ti)
                      /\ substr src (ti_tok ti) <> None) toks
    /\ (forall p l ls, e = LEof p l ls -> bnd src ls)
    /\ (length toks <= length src)%nat.
Proof. exact lex_positions. Qed.

Theorem C11_lex_no_panic : forall src, utf8_valid src -> snd (lex false src) <> LPanic.
Proof. exact lex_no_panic. Qed.

(** termination within [lex_fuel src = S (length src)] steps, for either position unit *)
Theorem C11_lex_terminates : forall cm src, snd (lex cm src) <> LFuel.
Proof. exact lex_terminates. Qed.

(** ** The reader *)
Theorem C11_no_panic :
  forall cf src, c_charpos cf = false -> utf8_valid src -> parse cf src <> Panic.
Proof. exact parse_no_panic. Qed.

Theorem C11_terminates_linear :
  forall cf src, c_charpos cf = false -> utf8_valid src -> parse cf src <> OutOfFuel.
Proof. exact parse_terminates. Qed.

(** the fuels are linear in the input: the lexer's, and that of every parser loop (the state a loop starts in
    holds a suffix of the token list, which has at most [length src] entries) *)
Theorem C11_fuel_linear :
  forall cm src, lex_fuel src = S (length src) /\
    forall v c, (fuel_of (mkpst (fst (lex cm src)) (snd (lex cm src)) v c) <= S (length src))%nat.
Proof. exact fuel_linear. Qed.

(** every parser loop advances or returns.  [st_ok src st]: every remaining token's span and line start are
    character boundaries of [src] and the stream does not end in a lexer panic; [R src st c Q r]: the outcome r is
    neither Panic nor OutOfFuel, and if r = Ok (a, st') then st' is again [st_ok] and at least c tokens of st were
    consumed.  From any such state, with a fuel above the number of remaining tokens, the loops named by the
    property (`parse_point_list`, `parse_symmetries`, the BEGINEXT loop, the "anything until ;" property loop, the
    pin / macro / library loops) neither panic nor use their fuel up -- every iteration that goes round again has
    consumed a token.  (One such lemma per `parse_*` function and loop: the [Spec] instances of
    Lef/LefParse_proofs.v.) *)
Theorem C11_loops_advance :
  forall cf src, c_charpos cf = false -> utf8_valid src ->
  forall f st, st_ok src st -> (len st < f)%nat ->
    (forall acc, R src st 0 T (point_list_loop cf src f acc st)) /\
    (forall acc, R src st 0 T (symm_loop cf src f acc st)) /\
    (forall data, R src st 0 T (ext_loop cf src f data st)) /\
    (forall acc, R src st 0 T (property_loop cf src f acc st)) /\
    (forall p props, R src st 0 T (pin_loop cf src f p props st)) /\
    (forall m props, R src st 0 T (macro_loop cf src f m props st)) /\
    (forall lib, R src st 0 T (lib_loop cf src f lib st)).
Proof. exact loops_advance. Qed.

(** work proportional to the input: [LefParseG.parse_count] (Lef/LefParseG.v, generated from the model) is the
    parser model with a counter ticked by every iteration of every parser loop and returned with every outcome.
    It returns exactly what [parse] returns, and the count is at most 2 * length src + 1 -- on success and on
    error alike (amortised: every iteration that goes round again has consumed a token; Lef/LefCount_proofs.v).
    Between two ticks the model performs a bounded number of token operations (the loop bodies are loop-free). *)
Theorem C11_steps_linear :
  forall cf src, c_charpos cf = false -> utf8_valid src ->
    fst (LefParseG.parse_count cf src) = parse cf src /\
    (snd (LefParseG.parse_count cf src) <= 2 * length src + 1)%nat.
Proof. exact parse_count_ok. Qed.

(** the reader returns a library or an error *)
Theorem C11_total :
  forall cf src, c_charpos cf = false -> utf8_valid src ->
    (exists l, parse cf src = Ok l) \/ (exists e, parse cf src = Err e) \/ parse cf src = Unmodelled.
Proof. exact parse_total. Qed.

(** ** Write and read again *)
(** every string of a library read from valid UTF-8 is valid UTF-8, and every `char` a scalar value ([val_lib],
    Lef/LefSafety_proofs.v: names, string literals, extension data, bus-bit and divider characters); any cfg *)
Theorem C11_reader_strings_valid :
  forall cf src l, utf8_valid src -> parse cf src = Ok l -> val_lib l.
Proof. intros cf src l V. apply parse_valid. apply valid_U8. exact V. Qed.

(** the writer returns text or an error; the text is valid UTF-8 (so the model's [parse] of it stands for the
    implementation's) and reading it neither panics nor runs out of fuel *)
Theorem C11_rewrite_safe :
  forall cf src l, c_charpos cf = false -> utf8_valid src -> parse cf src = Ok l ->
    write_lib cf l <> Panic /\
    (forall t, write_lib cf l = Ok t -> utf8_valid t /\ parse cf t <> Panic /\ parse cf t <> OutOfFuel).
Proof.
  intros cf src l Hcf V P. destruct (rewrite_safe_gen cf l Hcf) as [A B]. split; [exact A|].
  intros t W. split; [exact (rewrite_valid cf src l t V P W) | exact (B t W)].
Qed.

(** ** Non-vacuity *)
(** a text with multi-byte characters in a comment, in names (macro, pin, layer, property) and in a string:
<<
# commentaire é中😀 ü
VERSION 5.8 ;
BUSBITCHARS "[]" ;
DIVIDERCHAR "/" ;
MACRO mé中
  CLASS CORE ;
  PROPERTY clé "valeur é😀" ;
  SIZE 1.5 BY 2 ;
  PIN p中
    DIRECTION INPUT ;
    PORT
      LAYER métal1 ;
      RECT 0 0 1 1 ;
    END
  END p中
END mé中
END LIBRARY
>> *)
Definition c11_example : bytes :=
  [35;32;99;111;109;109;101;110;116;97;105;114;101;32;195;169;228;184;173;240;159;152;128;32;195;188;10;86;69;82;
   83;73;79;78;32;53;46;56;32;59;10;66;85;83;66;73;84;67;72;65;82;83;32;34;91;93;34;32;59;10;
   68;73;86;73;68;69;82;67;72;65;82;32;34;47;34;32;59;10;77;65;67;82;79;32;109;195;169;228;184;173;
   10;32;32;67;76;65;83;83;32;67;79;82;69;32;59;10;32;32;80;82;79;80;69;82;84;89;32;99;108;195;
   169;32;34;118;97;108;101;117;114;32;195;169;240;159;152;128;34;32;59;10;32;32;83;73;90;69;32;49;46;53;
   32;66;89;32;50;32;59;10;32;32;80;73;78;32;112;228;184;173;10;32;32;32;32;68;73;82;69;67;84;73;
   79;78;32;73;78;80;85;84;32;59;10;32;32;32;32;80;79;82;84;10;32;32;32;32;32;32;76;65;89;69;
   82;32;109;195;169;116;97;108;49;32;59;10;32;32;32;32;32;32;82;69;67;84;32;48;32;48;32;49;32;49;
   32;59;10;32;32;32;32;69;78;68;10;32;32;69;78;68;32;112;228;184;173;10;69;78;68;32;109;195;169;228;
   184;173;10;69;78;68;32;76;73;66;82;65;82;89;10].
(** "VERSION 5.8 ;\n<CJK><CJK> <e-acute> FOO <emoji>": an error whose report slices a line of multi-byte characters *)
Definition c11_example_err : bytes :=
  [86;69;82;83;73;79;78;32;53;46;56;32;59;10;228;184;173;228;184;173;32;195;169;32;70;79;79;32;240;159;
   152;128].

Example C11_nonvacuous_valid : utf8_valid c11_example /\ utf8_valid c11_example_err.
Proof. split; vm_compute; reflexivity. Qed.

(** it reads as a library with one macro named "m<e-acute><CJK>", one pin, one property (kept by the repaired reader) *)
Example C11_nonvacuous_parse :
  match parse cfg_fixed c11_example with
  | Ok l =>
    match lib_macros l with
    | [m] => bytes_eqb (mac_name m) [109;195;169;228;184;173] && (length (mac_pins m) =? 1)%nat && (length (mac_properties m) =? 1)%nat
    | _ => false
    end
  | _ => false
  end = true.
Proof. vm_compute. reflexivity. Qed.

(** with the flags of today's tree too (only [c_charpos] is repaired there besides the fix commits recorded) *)
Example C11_nonvacuous_parse_any_cfg :
  forall a b c d e f g, exists l, parse (mkcfg false a b c d e f g) c11_example = Ok l /\ length (lib_macros l) = 1%nat.
Proof. intros [] [] [] [] [] [] []; vm_compute; eexists; split; reflexivity. Qed.

(** the error path: the report's line content is the whole second line, 18 bytes for 9 characters *)
Example C11_nonvacuous_error :
  exists tp m cx tok lc ln pos, parse cfg_fixed c11_example_err = Err (EParse tp m cx tok lc ln pos) /\ length lc = 18%nat.
Proof. vm_compute. do 7 eexists. split; reflexivity. Qed.

(** the library is written and the text read again *)
Example C11_nonvacuous_rewrite :
  match parse cfg_fixed c11_example with
  | Ok l => match write_lib cfg_fixed l with
            | Ok t => match parse cfg_fixed t with Ok l' => utf8_validb t && (length (lib_macros l') =? 1)%nat | _ => false end
            | _ => false
            end
  | _ => false
  end = true.
Proof. vm_compute. reflexivity. Qed.

(** the counter at work: 45 tokens in 285 bytes, 20 loop iterations; the failing text stops after 2 *)
Example C11_nonvacuous_steps :
  snd (LefParseG.parse_count cfg_fixed c11_example) = 20%nat /\ length (fst (lex false c11_example)) = 45%nat
  /\ length c11_example = 285%nat /\ snd (LefParseG.parse_count cfg_fixed c11_example_err) = 2%nat.
Proof. vm_compute. repeat split. Qed.

(** [utf8_valid] is Rust's `str::from_utf8` acceptance: overlong forms, surrogates, values above U+10FFFF,
    stray continuation bytes and truncated sequences are rejected *)
Example C11_utf8_validator :
  utf8_validb [195;169] = true /\ utf8_validb [228;184;173] = true /\ utf8_validb [240;159;152;128] = true
  /\ utf8_validb [244;143;191;191] = true /\ utf8_validb [237;159;191] = true /\ utf8_validb [238;128;128] = true
  /\ utf8_validb [192;128] = false /\ utf8_validb [193;191] = false /\ utf8_validb [224;159;191] = false
  /\ utf8_validb [240;143;191;191] = false /\ utf8_validb [237;160;128] = false /\ utf8_validb [244;144;128;128] = false
  /\ utf8_validb [245;128;128;128] = false /\ utf8_validb [128] = false /\ utf8_validb [195] = false
  /\ utf8_validb [226;130] = false /\ utf8_validb [65;191] = false /\ utf8_validb [256] = false /\ utf8_validb [-1] = false.
Proof. vm_compute. repeat split. Qed.

(** ** Pins *)
Check C11_no_panic : forall cf src, c_charpos cf = false -> utf8_valid src -> parse cf src <> Panic.
Check C11_terminates_linear : forall cf src, c_charpos cf = false -> utf8_valid src -> parse cf src <> OutOfFuel.
Check C11_steps_linear : forall cf src, c_charpos cf = false -> utf8_valid src ->
    fst (LefParseG.parse_count cf src) = parse cf src /\ (snd (LefParseG.parse_count cf src) <= 2 * length src + 1)%nat.
Check C11_total : forall cf src, c_charpos cf = false -> utf8_valid src ->
    (exists l, parse cf src = Ok l) \/ (exists e, parse cf src = Err e) \/ parse cf src = Unmodelled.
Check C11_reader_strings_valid : forall cf src l, utf8_valid src -> parse cf src = Ok l -> val_lib l.
Check C11_lex_no_panic : forall src, utf8_valid src -> snd (lex false src) <> LPanic.
Check C11_lex_terminates : forall cm src, snd (lex cm src) <> LFuel.
Check C11_rewrite_safe : forall cf src l, c_charpos cf = false -> utf8_valid src -> parse cf src = Ok l ->
    write_lib cf l <> Panic /\
    (forall t, write_lib cf l = Ok t -> utf8_valid t /\ parse cf t <> Panic /\ parse cf t <> OutOfFuel).

Print Assumptions C11_no_panic_orig_refuted.
Print Assumptions C11_lex_orig_refuted.
Print Assumptions C11_lex_positions_on_boundaries.
Print Assumptions C11_lex_no_panic.
Print Assumptions C11_lex_terminates.
Print Assumptions C11_no_panic.
Print Assumptions C11_terminates_linear.
Print Assumptions C11_fuel_linear.
Print Assumptions C11_steps_linear.
Print Assumptions C11_loops_advance.
Print Assumptions C11_total.
Print Assumptions C11_reader_strings_valid.
Print Assumptions C11_rewrite_safe.
