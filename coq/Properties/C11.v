(** C11 -- The LEF reader never crashes or hangs on any input text. (initial statements) *)
From Coq Require Import ZArith List Bool.
From L21 Require Import Lef.LefDec Lef.LefData Lef.LefLex Lef.LefParse Lef.LefLex_proofs Lef.LefParse_proofs.
Import ListNotations.
Local Open Scope Z_scope.

Theorem C11_no_panic_orig_refuted :
  exists src, utf8_valid src /\ parse cfg_orig src = Panic.
Proof. exists witness_version. split. vm_compute; reflexivity. exact parse_orig_panics_version. Qed.

Print Assumptions C11_no_panic_orig_refuted.
