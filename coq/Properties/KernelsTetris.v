(** Kernels, tetris families: the definitions GENERATED on every run from layout21tetris/src/{validate,stack,coords,
    instance,placer,bbox,placement}.rs (Gen/KernelsTetrisGen.v, tools/translate_rust_kernels.py unit "tetris") against the
    hand-written models of C08 (Tetris/Stack.v, Tetris/Compile.v) and C09 (Tetris/Placer.v).  The generated terms are read
    over Z with the models' outcomes ([ts_xops] / [tp_xops], Tetris/KernelsInstTetris.v); see Properties/Kernels.v for the
    scheme and Base/KernelOpsX.v for `Result`, `?`, `match`, enums and external functions.
    Proofs in Tetris/KernelsTieTetris_proofs.v (family tetris_stack), Tetris/KernelsTieTracks_proofs.v (family tetris_tracks)
    and Tetris/KernelsTiePlace_proofs.v (family tetris_place). *)
From Coq Require Import ZArith Bool List.
From L21 Require Import Base.KernelOps Base.KernelOpsX Gen.KernelsTetrisGen Tetris.KernelsInstTetris.
From L21 Require Tetris.Stack Tetris.Compile Tetris.Placer.
From L21 Require Tetris.Tracks.
From L21 Require Tetris.KernelsTieTetris_proofs Tetris.KernelsTiePlace_proofs Tetris.KernelsTieTracks_proofs.
Local Open Scope Z_scope.

(** * family tetris_stack (C08) *)
Module KS.
Import Tetris.Stack Tetris.Compile.

(** the operators of `DbUnits` the track arithmetic goes through: derive_more `Add` / `Sub`, `impl Mul<usize>`, `impl Div<Int>` *)
Theorem Ktie_dbunits_add : forall a b, g_DbUnits_add ts_xops (Gu a) (Gu b) = Ok (Gu (a + b)).
Proof. exact KernelsTieTetris_proofs.tie_dbunits_add. Qed.
Theorem Ktie_dbunits_sub : forall a b, g_DbUnits_sub ts_xops (Gu a) (Gu b) = Ok (Gu (a - b)).
Proof. exact KernelsTieTetris_proofs.tie_dbunits_sub. Qed.
Theorem Ktie_dbunits_mul_usize : forall a k, g_DbUnits_mul_usize ts_xops (Gu a) k = Ok (Gu (k * a)).
Proof. exact KernelsTieTetris_proofs.tie_dbunits_mul_usize. Qed.
Theorem Ktie_dbunits_div_int : forall a k, k <> 0 -> g_DbUnits_div_Int ts_xops (Gu a) k = Ok (Gu (Z.quot a k)).
Proof. exact KernelsTieTetris_proofs.tie_dbunits_div_int. Qed.

(** `ValidMetalLayer::track_start_width` (the repaired code: mirror image in odd periods of an EveryOther layer, an
    `Err` for a layer without signal tracks) is [track_start_width fixed]; `idx : usize` *)
Theorem Ktie_track_start_width : forall vm idx, 0 <= idx ->
  g_ValidMetalLayer_track_start_width ts_xops (Gvm vm) idx = cls Gupair (track_start_width fixed vm idx).
Proof. exact KernelsTieTetris_proofs.tie_track_start_width. Qed.
Theorem Ktie_center : forall vm idx, 0 <= idx ->
  g_ValidMetalLayer_center ts_xops (Gvm vm) idx = cls Gu (center fixed vm idx).
Proof. exact KernelsTieTetris_proofs.tie_center. Qed.
Theorem Ktie_span : forall vm idx, 0 <= idx ->
  g_ValidMetalLayer_span ts_xops (Gvm vm) idx = cls Gupair (span fixed vm idx).
Proof. exact KernelsTieTetris_proofs.tie_span. Qed.
(** `ValidStack::metal` *)
Theorem Ktie_metal : forall vs idx, 0 <= idx ->
  g_ValidStack_metal ts_xops (Gvs vs) idx = cls Gvm (metal_at vs idx).
Proof. exact KernelsTieTetris_proofs.tie_metal. Qed.
(** `MetalLayer::entries`: the three nested loops with their `push` are [entries] (flat_map over one level of Repeat) *)
Theorem Ktie_entries : forall m, g_MetalLayer_entries ts_xops (Gmetal m) = Ok (map Gentry (entries m)).
Proof. exact KernelsTieTetris_proofs.tie_entries. Qed.
(** `MetalLayer::pitch`: `self.entries().iter().map(|e| e.width).sum::<DbUnits>() - self.overlap` *)
Theorem Ktie_pitch : forall m, g_MetalLayer_pitch ts_xops (Gmetal m) = Ok (Gu (pitch m)).
Proof. exact KernelsTieTetris_proofs.tie_pitch. Qed.
(** `MetalLayer::to_layer_period_data`: the loop over `self.entries()` with its cursor and the two `push`es is
    [to_layer_period_data] (walk, then filter); the generated records also carry what the model omits: every TrackData's
    index is its position in the list it was pushed onto, its direction the layer's ([Gtds]) *)
Theorem Ktie_to_layer_period_data : forall m,
  g_MetalLayer_to_layer_period_data ts_xops (Gmetal m)
  = Ok (mk_gLayerPeriodData (Gtds (m_horiz m) (fst (to_layer_period_data m))) (Gtds (m_horiz m) (snd (to_layer_period_data m)))).
Proof. exact KernelsTieTetris_proofs.tie_to_layer_period_data. Qed.
(** `ValidMetalLayer::track_index` (with its `position(|sig| sig.start + sig.width > remainder)` closure), for a non-zero pitch *)
Theorem Ktie_track_index : forall vm dist, vm_pitch vm <> 0 ->
  g_ValidMetalLayer_track_index ts_xops (Gvm vm) (Gu dist) = cls (fun z => z) (track_index vm dist).
Proof. exact KernelsTieTetris_proofs.tie_track_index. Qed.
(** `LibValidator::validate_track_ref`, `validate_track_cross` (layers inside the stack, tracks in opposite directions) *)
Theorem Ktie_validate_track_ref : forall vs layer track,
  g_LibValidator_validate_track_ref ts_xops (Gval vs) (mk_gTrackRef layer track) = cls (fun u => u) (validate_track_ref vs layer).
Proof. exact KernelsTieTetris_proofs.tie_validate_track_ref. Qed.
Theorem Ktie_validate_track_cross : forall vs c, 0 <= x_tl c -> 0 <= x_cl c ->
  g_LibValidator_validate_track_cross ts_xops (Gval vs) (Gcross4 c) = cls (fun u => u) (validate_track_cross vs c).
Proof. exact KernelsTieTetris_proofs.tie_validate_track_cross. Qed.
End KS.

(** * family tetris_tracks (C08) *)
Module KT.
Import Tetris.Stack Tetris.Tracks.
(** `Track::cut_or_block`: index-and-insert surgery on the Vec of segments = the recursive [cob_go] of the model *)
Theorem Ktie_cut_or_block : forall d start stop tp segs,
  g_cob d start stop tp segs = cls (fun s => mk_gTrack d (map Gseg s)) (cut_or_block start stop tp segs).
Proof. exact KernelsTieTracks_proofs.tie_cut_or_block. Qed.
End KT.

(** * family tetris_place (C09) *)
Module KP.
Import Tetris.Placer.

(** `impl Add / Sub for PrimPitches` (panic on different directions), `Place::abs` *)
Theorem Ktie_pp_add : forall a b, g_PrimPitches_add tp_xops (Gpp a) (Gpp b) = pmap Gpp (pp_add a b).
Proof. exact KernelsTiePlace_proofs.tie_pp_add. Qed.
Theorem Ktie_pp_sub : forall a b, g_PrimPitches_sub tp_xops (Gpp a) (Gpp b) = pmap Gpp (pp_sub a b).
Proof. exact KernelsTiePlace_proofs.tie_pp_sub. Qed.
Theorem Ktie_place_abs : forall pool p, g_Place_abs tp_xops (Gplace pool p) = pmap Gxy (place_abs p).
Proof. exact KernelsTiePlace_proofs.tie_place_abs. Qed.

(** `Instance::boundbox` *)
Theorem Ktie_inst_boundbox : forall cells pool i,
  g_boundbox cells (Ginst pool i) = pmap Gbbox (inst_boundbox cells i).
Proof. exact KernelsTiePlace_proofs.tie_inst_boundbox. Qed.

(** `Placer::resolve_instance_place`: the bounding box of `rel.to` (first statement) then the match over side, alignment,
    reflections and separation, for every instance and every relative place whose target exists *)
Theorem Ktie_resolve : forall cells pool asg inst rel, (rto rel < length pool)%nat ->
  g_resolve cells pool asg (Ginst pool inst) (Grel pool rel) =
  pmap Gxy (bind (target_boundbox cells pool asg (rto rel)) (fun bbox => resolve cells inst rel bbox)).
Proof. exact KernelsTiePlace_proofs.tie_resolve. Qed.
End KP.

Print Assumptions KS.Ktie_dbunits_add.
Print Assumptions KS.Ktie_dbunits_sub.
Print Assumptions KS.Ktie_dbunits_mul_usize.
Print Assumptions KS.Ktie_dbunits_div_int.
Print Assumptions KS.Ktie_track_start_width.
Print Assumptions KS.Ktie_center.
Print Assumptions KS.Ktie_span.
Print Assumptions KS.Ktie_metal.
Print Assumptions KS.Ktie_entries.
Print Assumptions KS.Ktie_pitch.
Print Assumptions KS.Ktie_to_layer_period_data.
Print Assumptions KS.Ktie_track_index.
Print Assumptions KS.Ktie_validate_track_ref.
Print Assumptions KS.Ktie_validate_track_cross.
Print Assumptions KT.Ktie_cut_or_block.
Print Assumptions KP.Ktie_pp_add.
Print Assumptions KP.Ktie_pp_sub.
Print Assumptions KP.Ktie_place_abs.
Print Assumptions KP.Ktie_inst_boundbox.
Print Assumptions KP.Ktie_resolve.
