(** C07 -- Raw layout exported to GDSII and imported back is unchanged.
    Property theorems only; proofs are in Raw/RawGdsExport_proofs.v (exporter against the
    specification) and Raw/RawGdsRoundtrip_proofs.v (exporter composed with the importer model).

    Model of the exporter: Raw/RawGdsExport.v ([export_lib] = repaired code, [export_lib_orig] =
    code as found; the flags of [xcfg] are read from the source text on every run).
    Model of the importer: Raw/RawGds.v (property C06; [RG.cfg_fixed] / [RG.cfg_orig]).
    Specification: Raw/RawGdsExportSpec.v -- [raw_equiv], [exportable], [labels_unambiguous_at],
    [shape_equiv], [in_region_shape] (exact geometry of Geom/ContainsSpec.v). *)
From Coq Require Import ZArith List String Bool Lia.
From L21 Require Import Base.Outcome Raw.RawData Raw.RawGdsExport Raw.RawGdsExportSpec
                        Raw.RawGdsExport_proofs Raw.RawGdsRoundtrip_proofs Raw.RawGdsBridge_proofs
                        Raw.RawGdsLibrary_proofs Raw.RawGdsNoPanic_proofs.
From L21 Require Gds.GdsData Geom.Contains Geom.ContainsSpec Raw.RawGds.
Import ListNotations.
Local Open Scope Z_scope.

(** [label_of s] (Raw/RawGdsBridge_proofs.v): the place where the repaired exporter puts the label
    of shape [s] ([label_location xcfg_fixed s], when it succeeds). *)
Definition labels_unambiguous (L : library) : Prop := labels_unambiguous_at label_of L.

(** * The round trip, full statement (DESIGN.md section 5/C07).  NOT proved as a whole; the
    theorems below are its parts.  What is missing is said at the end of this file. *)
Definition C07_roundtrip_full : Prop :=
  forall L, exportable L -> labels_unambiguous L ->
    exists g L', export_lib L = Ok g /\
                 RG.import_lib RG.cfg_fixed (lib_layers L) g = RG.IOk L' /\
                 raw_equiv L L'.

(** * (1) The label of a named shape lies inside that shape.
    Rectangles (corners in any order) and paths (first segment axis-parallel): by arithmetic,
    for ALL coordinates for which the computation does not overflow -- including negative sums,
    where `/ 2` truncates toward zero -- and every path width. *)
Theorem C07_label_inside_rect :
  forall cfg p0 p1 p, label_location cfg (Rect p0 p1) = Ok p -> in_region_shape (Rect p0 p1) p.
Proof. exact rect_label_inside. Qed.

Theorem C07_label_inside_path :
  forall cfg ps w p, label_location cfg (Path ps w) = Ok p -> manhattanb ps = true ->
    in_region_shape (Path ps w) p.
Proof. exact path_label_inside. Qed.

(** Polygons: the exporter only ever returns a point that its own [Polygon::contains] accepted
    (model level; with the C13 theorem about the repaired [contains] this is "inside"). *)
Theorem C07_label_inside_polygon_model :
  forall orig ps p, poly_label orig ps = Ok p -> poly_contains_v orig ps p = Ok true.
Proof. exact poly_label_sound. Qed.

(** * (2) An open path stays open: the XY of the exported PATH is exactly the path's point list
    (and the width is the path's width). *)
Theorem C07_path_stays_open :
  forall ps w spec g, export_shape xcfg_fixed (Path ps w) spec = Ok g ->
    g = GdsData.EPath (GdsData.mkPath (fst spec) (snd spec) (map gp ps) (Some w) None None None None None []).
Proof. exact path_stays_open. Qed.

(** The code as found appends the first point: (0,0),(10,0),(10,10) is exported with a 4th point (0,0). *)
Theorem C07_path_stays_open_orig_refuted :
  exists ps w spec xy, export_shape xcfg_orig (Path ps w) spec = Ok (mk_path spec xy w) /\ xy <> map gp ps.
Proof. exact path_open_orig_refuted. Qed.

(** * (3) Boundaries are closed exactly once: an n-vertex polygon is exported with n+1 points, the
    last one repeating the first; a rectangle as its four corners plus the first. *)
Theorem C07_polygon_closed_once :
  forall cfg p0 ps spec g, export_shape cfg (Polygon (p0 :: ps)) spec = Ok g ->
    g = GdsData.EBoundary (GdsData.mkBoundary (fst spec) (snd spec) (map gp (p0 :: ps) ++ [gp p0]) None None []).
Proof. exact polygon_closed_once. Qed.

Theorem C07_rect_closed_once :
  forall cfg p0 p1 spec g, export_shape cfg (Rect p0 p1) spec = Ok g ->
    g = GdsData.EBoundary (GdsData.mkBoundary (fst spec) (snd spec)
          [gp p0; GdsData.mkPt (px p1) (py p0); gp p1; GdsData.mkPt (px p0) (py p1); gp p0] None None []).
Proof. exact rect_closed_once. Qed.

(** * (4) Units: the importer's table inverts the exporter's, for all four units. *)
Theorem C07_units_roundtrip : forall u, import_units xcfg_fixed (export_units u) = Ok u.
Proof. exact units_roundtrip_fixed. Qed.

(** The code as found has no row for the 1e-12 database unit written for [Units::Pico]. *)
Theorem C07_units_roundtrip_orig_refuted :
  import_units xcfg_orig (export_units Pico) = Err XUnits /\
  forall u, u <> Pico -> import_units xcfg_orig (export_units u) = Ok u.
Proof. exact (conj units_roundtrip_orig_refuted units_roundtrip_orig_others). Qed.

(** * (5) Layer / purpose numbers, both ways: the exporter writes exactly the numbers the layer
    table registers for (key, purpose); and whatever (key, purpose) the importer's
    [Layers::get_or_insert] answers for a pair of numbers stands for that pair again (in a table
    whose layers are consistent), whether the layer / purpose existed or had to be created. *)
Theorem C07_layerspec_export :
  forall ly k p nx, export_layerspec ly k p = Ok nx <-> resolve_lp ly k p = Some nx.
Proof. exact layerspec_resolve. Qed.

Theorem C07_layerspec_import :
  forall ly n x, (forall k l, nth_error ly k = Some l -> layer_consistent l) ->
    let '(ly', k', p') := get_or_insert ly n x in resolve_lp ly' k' p' = Some (n, x).
Proof. exact get_or_insert_resolves. Qed.

(** * (6) Shapes survive: what the importer model makes of an exported boundary / path is the
    shape again, modulo representation (a 4-vertex axis-parallel polygon comes back as a Rect),
    on the layer and purpose the numbers stand for. *)
Theorem C07_shape_roundtrip_polygon :
  forall c ly p0 ps n x,
    exists s', RG.import_boundary c ly (GdsData.mkBoundary n x (map gp (p0 :: ps) ++ [gp p0]) None None [])
               = RG.IOk (RG.mk_element ly n x s') /\ shape_equiv (Polygon (p0 :: ps)) s'.
Proof. exact import_exported_polygon. Qed.

Theorem C07_shape_roundtrip_rect :
  forall c ly p0 p1 n x,
    RG.import_boundary c ly (GdsData.mkBoundary n x
       [gp p0; GdsData.mkPt (px p1) (py p0); gp p1; GdsData.mkPt (px p0) (py p1); gp p0] None None [])
    = RG.IOk (RG.mk_element ly n x (Rect p0 p1)).
Proof. exact import_exported_rect. Qed.

Theorem C07_shape_roundtrip_path :
  forall c ly ps w n x, (2 <= List.length ps)%nat -> 0 <= w ->
    RG.import_path c ly (GdsData.mkPath n x (map gp ps) (Some w) None None None None None [])
    = RG.IOk (RG.mk_element ly n x (Path ps w)).
Proof. exact import_exported_path. Qed.

(** * (7) A whole layout, model level: exporting a layout and importing the struct again (importer
    model of C06, any variant [c]; [cm] = the importer's name -> cell map at that moment, which holds
    every instantiated cell) leaves the layer table as it is and yields a layout with the same name,
    the same instances in order (target by name, location, reflection, angle bit-identical; the
    instance name is dropped), the same elements in order -- each with the same layer / purpose
    NUMBERS, the shape modulo representation ([ishape]: a 4-vertex axis-parallel polygon comes back
    as a Rect) and the net lower-cased -- and no annotation.  The three label hypotheses are stated
    on the importer's own [contains] here; (8) derives them from exact geometry. *)
Theorem C07_layout_roundtrip_model :
  forall c ly cells cm l g,
    layers_okb ly = true ->
    export_layout xcfg_fixed ly cells l = Ok g ->
    Forall elem_shape_ok (lay_elems l) ->
    (forall i ci, In i (lay_insts l) -> nth_error cells (i_cell i) = Some ci ->
                  exists idx, RG.cm_get cm (bytes_of_string (c_name ci)) = Some idx) ->
    (forall ej nm loc ek, In ej (lay_elems l) -> e_net ej = Some nm ->
        label_location xcfg_fixed (e_shape ej) = Ok loc -> point_i32b loc = true -> In ek (lay_elems l) ->
        exists b, RG.shape_contains c (ishape ek) loc = RG.IOk b) ->
    (forall ej nm loc, In ej (lay_elems l) -> e_net ej = Some nm ->
        label_location xcfg_fixed (e_shape ej) = Ok loc -> point_i32b loc = true ->
        RG.shape_contains c (ishape ej) loc = RG.IOk true) ->
    (forall ej nm loc ek, In ej (lay_elems l) -> e_net ej = Some nm ->
        label_location xcfg_fixed (e_shape ej) = Ok loc -> point_i32b loc = true -> In ek (lay_elems l) ->
        key_num ly (e_layer ek) = key_num ly (e_layer ej) ->
        RG.shape_contains c (ishape ek) loc = RG.IOk true ->
        exists nm', e_net ek = Some nm' /\ lower nm' = lower nm) ->
    exists l', RG.import_layout c cm ly g = RG.IOk (ly, l') /\
               lay_name l' = lay_name l /\
               Forall2 (inst_rel cells cm) (lay_insts l) (lay_insts l') /\
               Forall2 (elem_rel ly) (lay_elems l) (lay_elems l') /\
               lay_annots l' = [].
Proof. exact layout_roundtrip_model. Qed.

(** * (8) The same from exact geometry.  First: every label the repaired exporter emits for a shape
    in range lies inside that shape (rectangles, paths, and polygons -- the latter by the C13
    theorem about the repaired [Polygon::contains]; region = closed non-zero-winding region, which
    is the closed even-odd region whenever the signed crossing number stays within {-1,0,1}). *)
Theorem C07_label_inside :
  forall s p, shape_okb s = true -> label_location xcfg_fixed s = Ok p -> in_region_shape_nz s p.
Proof. exact label_inside_nz. Qed.

(** With [Polygon::contains] as found the label can lie outside: the triangle (0,0),(1,3),(1,0)
    is labelled at (0,1) (its bounding-box centre, which the code as found wrongly reports as
    contained); the repaired code labels it at (1,0). *)
Theorem C07_label_inside_orig_refuted :
  exists s p, shape_okb s = true /\ label_location xcfg_orig s = Ok p /\ ~ in_region_shape_nz s p /\
              label_location xcfg_fixed s = Ok (mkpt 1 0).
Proof. exact label_inside_orig_refuted. Qed.

(** Second: on the shape an element comes back with, the importer's [contains] (repaired
    [Polygon::contains]; either variant of [Path::contains]) decides exactly that region, without
    overflow, for every point with i32 coordinates. *)
Theorem C07_contains_is_region :
  forall c s q, RG.fx_contains c = true -> shape_okb s = true -> point_i32b q = true ->
    exists b, RG.shape_contains c (imp_shape s) q = RG.IOk b /\ (b = true <-> in_region_shape_nz s q).
Proof. exact contains_region. Qed.

(** Hence the layout round trip under the hypotheses of the property: elements in range
    ([elem_okb]: layer/purpose registered, Label purpose registered for named ones, ASCII nets,
    shapes in range) and unambiguous labels. *)
Theorem C07_layout_roundtrip :
  forall c ly cells cm l g ev,
    RG.fx_contains c = true ->
    layers_okb ly = true ->
    export_layout xcfg_fixed ly cells l = Ok g ->
    forallb (elem_okb ly) (lay_elems l) = true ->
    (forall i ci, In i (lay_insts l) -> nth_error cells (i_cell i) = Some ci ->
                  exists idx, RG.cm_get cm (bytes_of_string (c_name ci)) = Some idx) ->
    all_some (map (elem_view ly) (lay_elems l)) = Some ev ->
    unambiguous_view_gen in_region_shape_nz label_of ev ->
    exists l', RG.import_layout c cm ly g = RG.IOk (ly, l') /\
               lay_name l' = lay_name l /\
               Forall2 (inst_rel cells cm) (lay_insts l) (lay_insts l') /\
               Forall2 (elem_rel ly) (lay_elems l) (lay_elems l') /\
               lay_annots l' = [].
Proof. exact layout_roundtrip_spec. Qed.

(** * (9) The export never panics and never fails on the input space (layouts AND abstracts). *)
Theorem C07_export_no_panic : forall L, exportable L -> exists g, export_lib L = Ok g.
Proof. exact export_no_panic. Qed.

(** * (10) The whole round trip.  For every library in the input space ([exportable]) whose cells
    all have layouts ([all_layouts]) and whose labels are unambiguous (non-zero-winding region for
    polygons): the repaired exporter returns a GDSII library, and the importer model -- any variant
    with the repaired [Polygon::contains] and the Pico row of [import_units], in particular
    [RG.cfg_fixed] -- imports it, with the same layer table, into a library that is [raw_equiv] to
    the source: same units, same number of cells, every cell found by name with the same instances
    (target cell name, location, reflection, angle) in order and the same shapes (layer number,
    purpose number, shape modulo representation, lower-cased net) in order.  The nested hierarchy
    is handled through the C17 theorem on the repaired GdsDepOrder.
    PARTIAL with respect to [C07_roundtrip_full] in two points, named at the end of the file. *)
Theorem C07_roundtrip_layouts_partial :
  forall c L,
    RG.fx_contains c = true -> RG.fx_pico c = true ->
    exportable L -> all_layouts L -> labels_unambiguous_nz_at label_of L ->
    exists g L', export_lib L = Ok g /\ RG.import_lib c (lib_layers L) g = RG.IOk L' /\ raw_equiv L L'.
Proof.
  intros c L Hc Hp Hex Hall Hun. destruct (export_no_panic L Hex) as [g Hg].
  destruct (roundtrip_layouts c L g Hc Hp Hex Hall Hun Hg) as [L' [H1 H2]].
  exists g, L'. split; [exact Hg|]. split; [exact H1|exact H2].
Qed.

(** * (11) The executable oracles of the correspondence run imply the specification. *)
Theorem C07_checker_sound :
  (forall L L', raw_equivb L L' = true -> raw_equiv L L') /\
  (forall lab L, labels_unambiguous_nz_atb lab L = true -> labels_unambiguous_nz_at lab L) /\
  (forall s q, in_region_shape_nzb s q = true <-> in_region_shape_nz s q).
Proof. exact (conj raw_equivb_sound (conj labels_unambiguous_nz_atb_sound in_region_shape_nzb_spec)). Qed.

(** * Non-vacuity: a library with two cells (one instantiating the other, reflected and rotated),
    a rectangle with swapped corners and a mixed-case net, a U-shaped polygon whose bounding-box
    centre is outside, an open Manhattan path of odd width: it is exportable, its labels are
    unambiguous, and the model exports it. *)
Definition ex_layers : layers :=
  [mklayer 5 None [(0, Drawing); (1, Label); (2, Pin)]; mklayer 7 (Some "m2"%string) [(3, Label); (4, Drawing)]].
Definition ex_U : shape :=
  Polygon [mkpt 0 0; mkpt 0 10; mkpt 2 10; mkpt 2 2; mkpt 8 2; mkpt 8 10; mkpt 10 10; mkpt 10 0].
Definition ex_lib : library :=
  mklib "lib" Pico ex_layers
    [mkcell "leaf" None (Some (mklayout "leaf" []
       [mkelem (Some "VDD"%string) 0 Drawing (Rect (mkpt (-3) (-3)) (mkpt (-10) (-8)));
        mkelem (Some "u"%string) 1 Drawing ex_U;
        mkelem None 0 Pin (Path [mkpt 20 0; mkpt 30 0; mkpt 30 10] 3)] []));
     mkcell "top" None (Some (mklayout "top"
       [mkinst "i0" 0 (mkpt 100 (-50)) true (Some 4636033603912859648)] [] []))].

Example C07_nonvacuous :
  exportableb ex_lib = true /\ labels_unambiguous_atb label_of ex_lib = true /\
  is_ok (export_lib ex_lib) = true /\
  label_location xcfg_fixed ex_U = Ok (mkpt 0 1) /\
  label_location xcfg_fixed (Rect (mkpt (-3) (-3)) (mkpt (-10) (-8))) = Ok (mkpt (-6) (-5)).
Proof. vm_compute. repeat split; reflexivity. Qed.

(** the hypotheses of (10) hold for it, and the importer model run on the model's export gives a
    library the oracle accepts (the instance of the conclusion, by computation) *)
Definition ex_gds : GdsData.library :=
  Eval vm_compute in match export_lib ex_lib with Ok g => g | _ => GdsData.mkLib [] 0 zero_dates (0, 0) [] end.
Definition ex_back : library :=
  Eval vm_compute in match RG.import_lib RG.cfg_fixed (lib_layers ex_lib) ex_gds with RG.IOk L' => L' | _ => ex_lib end.

Example C07_roundtrip_nonvacuous :
  exportable ex_lib /\ all_layouts ex_lib /\ labels_unambiguous_nz_at label_of ex_lib /\
  export_lib ex_lib = Ok ex_gds /\ RG.import_lib RG.cfg_fixed (lib_layers ex_lib) ex_gds = RG.IOk ex_back /\
  raw_equivb ex_lib ex_back = true /\ lib_units ex_back = Pico.
Proof.
  split; [vm_compute; reflexivity|]. split; [vm_compute; reflexivity|].
  split; [apply labels_unambiguous_nz_atb_sound; vm_compute; reflexivity|].
  split; [vm_compute; reflexivity|]. split; [vm_compute; reflexivity|]. split; vm_compute; reflexivity.
Qed.

(** the code as found: the same library does not survive -- Pico is refused; with Nano the path is
    exported closed, its closing segment is not axis-parallel, and the importer's `Path::contains`
    panics on it when it tests the label of the rectangle on the same layer number *)
Example C07_roundtrip_orig_refuted :
  (exists g, export_lib_orig ex_lib = Ok g /\ RG.import_lib RG.cfg_orig (lib_layers ex_lib) g = RG.IErr RG.EUnits) /\
  (let L := mklib "lib" Nano ex_layers (lib_cells ex_lib) in
   exists g, export_lib_orig L = Ok g /\ RG.import_lib RG.cfg_orig (lib_layers L) g = RG.IPanic).
Proof.
  split.
  - exists (match export_lib_orig ex_lib with Ok g => g | _ => ex_gds end). split; vm_compute; reflexivity.
  - exists (match export_lib_orig (mklib "lib" Nano ex_layers (lib_cells ex_lib)) with Ok g => g | _ => ex_gds end). split; vm_compute; reflexivity.
Qed.

Print Assumptions C07_label_inside_rect.
Print Assumptions C07_label_inside_path.
Print Assumptions C07_label_inside_polygon_model.
Print Assumptions C07_path_stays_open.
Print Assumptions C07_path_stays_open_orig_refuted.
Print Assumptions C07_polygon_closed_once.
Print Assumptions C07_rect_closed_once.
Print Assumptions C07_units_roundtrip.
Print Assumptions C07_units_roundtrip_orig_refuted.
Print Assumptions C07_layerspec_export.
Print Assumptions C07_layerspec_import.
Print Assumptions C07_shape_roundtrip_polygon.
Print Assumptions C07_shape_roundtrip_rect.
Print Assumptions C07_shape_roundtrip_path.
Print Assumptions C07_layout_roundtrip_model.
Print Assumptions C07_label_inside.
Print Assumptions C07_label_inside_orig_refuted.
Print Assumptions C07_contains_is_region.
Print Assumptions C07_layout_roundtrip.
Print Assumptions C07_export_no_panic.
Print Assumptions C07_roundtrip_layouts_partial.
Print Assumptions C07_checker_sound.

(** Pinned statements (a weakened theorem above no longer matches these). *)
Check C07_roundtrip_layouts_partial :
  forall c L, RG.fx_contains c = true -> RG.fx_pico c = true ->
    exportable L -> all_layouts L -> labels_unambiguous_nz_at label_of L ->
    exists g L', export_lib L = Ok g /\ RG.import_lib c (lib_layers L) g = RG.IOk L' /\ raw_equiv L L'.
Check C07_export_no_panic : forall L, exportable L -> exists g, export_lib L = Ok g.
Check C07_label_inside :
  forall s p, shape_okb s = true -> label_location xcfg_fixed s = Ok p -> in_region_shape_nz s p.
Check C07_label_inside_rect :
  forall cfg p0 p1 p, label_location cfg (Rect p0 p1) = Ok p -> in_region_shape (Rect p0 p1) p.
Check C07_label_inside_path :
  forall cfg ps w p, label_location cfg (Path ps w) = Ok p -> manhattanb ps = true -> in_region_shape (Path ps w) p.
Check C07_path_stays_open :
  forall ps w spec g, export_shape xcfg_fixed (Path ps w) spec = Ok g ->
    g = GdsData.EPath (GdsData.mkPath (fst spec) (snd spec) (map gp ps) (Some w) None None None None None []).
Check C07_polygon_closed_once :
  forall cfg p0 ps spec g, export_shape cfg (Polygon (p0 :: ps)) spec = Ok g ->
    g = GdsData.EBoundary (GdsData.mkBoundary (fst spec) (snd spec) (map gp (p0 :: ps) ++ [gp p0]) None None []).
Check C07_units_roundtrip : forall u, import_units xcfg_fixed (export_units u) = Ok u.
Check C07_layerspec_export : forall ly k p nx, export_layerspec ly k p = Ok nx <-> resolve_lp ly k p = Some nx.
Check C07_layerspec_import :
  forall ly n x, (forall k l, nth_error ly k = Some l -> layer_consistent l) ->
    let '(ly', k', p') := get_or_insert ly n x in resolve_lp ly' k' p' = Some (n, x).
Check C07_checker_sound :
  (forall L L', raw_equivb L L' = true -> raw_equiv L L') /\
  (forall lab L, labels_unambiguous_nz_atb lab L = true -> labels_unambiguous_nz_at lab L) /\
  (forall s q, in_region_shape_nzb s q = true <-> in_region_shape_nz s q).
Check C07_path_stays_open_orig_refuted :
  exists ps w spec xy, export_shape xcfg_orig (Path ps w) spec = Ok (mk_path spec xy w) /\ xy <> map gp ps.
Check C07_units_roundtrip_orig_refuted :
  import_units xcfg_orig (export_units Pico) = Err XUnits /\
  forall u, u <> Pico -> import_units xcfg_orig (export_units u) = Ok u.

(** What is missing for [C07_roundtrip_full]:
    (a) cells that have only an abstract: their export is covered by [C07_export_no_panic], their
        re-import (outline on layer 32767/32767, which the importer adds to the layer table; every port
        shape on the Drawing and Pin numbers, both receiving the port's net) is under the
        correspondence run only;
    (b) [labels_unambiguous_nz_at] uses the non-zero-winding region for polygons where
        [labels_unambiguous] uses the even-odd region; the two coincide when the signed crossing number
        stays within {-1,0,1} (Geom/Contains_proofs.v [in_region_nz_iff]), which holds for simple
        polygons by the Jordan curve theorem -- not proved here. *)

(** * (12) ABSTRACT VIEWS (closes gap (a) above; proofs in Raw/RawGdsAbstract_proofs.v, specification in
    Raw/RawGdsAbstractSpec.v).
    What the code does (gds.rs `export_cell`, `export_abstract`, `export_abstract_port`): a cell with a layout is
    exported by its layout, whether or not it also has an abstract; a cell with only an abstract is exported as
    a struct holding the outline as a boundary on (32767, 32767), then per port, per layer (ascending key), per
    shape: the shape on the layer's Drawing number, the shape on its Pin number, and one label carrying the
    port's net; blockages are not written.  GDSII has no abstract view, so such a cell comes back as a LAYOUT
    cell; what can be "unchanged" is its content: [abstract_image] (the outline, then every port shape twice,
    on Drawing and on Pin, both carrying the net), compared as content ([layout_content_equiv]: layer and
    purpose NUMBERS, shapes modulo representation, nets lower-cased, in order). *)
From L21 Require Import Raw.RawGdsAbstractSpec Raw.RawGdsExportCheck Raw.RawGdsAbstractCheck Raw.RawGdsAbstract_proofs.

(** The whole round trip for libraries that MIX layout cells and abstract-only cells.  Input space:
    [exportable] (which already constrains abstracts: the abstract carries the cell's name, non-empty outline in
    i32, ASCII port nets, every port layer with Drawing, Pin and Label numbers, port shapes in range with a label
    location) plus [outline_slot_okb] (vacuous unless the table has a layer numbered 32767 without purpose number
    32767; then that layer must satisfy the check of `Layer::add_purpose`, as every table built through the API
    does).  Conclusion: the export succeeds, the importer model (any variant with the repaired
    [Polygon::contains] and the Pico row) imports the result, the library is [raw_equiv] to the source -- for an
    abstract-only cell [raw_equiv] compares with [abstract_view], the view of [abstract_image] --, the layer
    table is the source's, grown by the outline slot exactly when an abstract-only cell was exported
    ([table_after]), and every abstract-only cell comes back as a cell WITHOUT abstract whose layout is, as
    content, [abstract_image] of its abstract. *)
Theorem C07_roundtrip_abstract :
  forall c L,
    RG.fx_contains c = true -> RG.fx_pico c = true ->
    exportable_abs L -> labels_unambiguous_nz_at label_of L ->
    exists g L', export_lib L = Ok g /\ RG.import_lib c (lib_layers L) g = RG.IOk L' /\ raw_equiv L L' /\
      lib_layers L' = table_after L /\
      (forall c0 a, In c0 (lib_cells L) -> abstract_only c0 = Some a ->
         exists c' l', In c' (lib_cells L') /\ c_name c' = c_name c0 /\ c_abs c' = None /\ c_layout c' = Some l' /\
                       layout_content_equiv (lib_layers L') (lib_cells L') (abstract_image (lib_layers L) a) l').
Proof.
  intros c L Hc Hp Hex Hun.
  assert (Hex0 : exportable L) by (unfold exportable_abs, exportable_absb in Hex; apply andb_prop in Hex as [H _]; exact H).
  destruct (export_no_panic L Hex0) as [g Hg].
  destruct (roundtrip_abstract c L g Hc Hp Hex Hun Hg) as [L' [H1 [H2 [H3 H4]]]].
  exists g, L'. split; [exact Hg|]. split; [exact H1|]. split; [exact H2|]. split; [exact H3|exact H4].
Qed.

(** The layer table "grows only by the outline layer": [table_after L] is the source's table when every cell
    has a layout; otherwise it is [outline_table], which is the table itself when (32767, 32767) is already
    registered, the table with [outline_layer] = layer 32767 {32767 -> Other(32767)} appended when no layer is
    numbered 32767, and else the table whose layer numbered 32767 received the purpose Other(32767). *)
Theorem C07_table_after_layouts : forall L, all_layouts L -> table_after L = lib_layers L.
Proof. exact table_after_all_layouts. Qed.
Theorem C07_outline_table :
  forall ly,
    (ly_keynum ly outline_num = None /\ outline_table ly = ly ++ [outline_layer]) \/
    (exists k l, ly_keynum ly outline_num = Some k /\ nth_error ly k = Some l /\
                 ((exists p, layer_purpose l outline_num = Some p /\ outline_table ly = ly) \/
                  (layer_purpose l outline_num = None /\
                   outline_table ly = list_set ly k (mklayer (l_num l) (l_name l) (l_pairs l ++ [(outline_num, Other outline_num)]))))).
Proof. exact outline_table_cases. Qed.

(** [abstract_image] agrees with the specification [raw_equiv] already carried for abstract-only cells: its
    elements, viewed as numbers over [outline_table], are [abstract_view]. *)
Theorem C07_abstract_image_is_view :
  forall ly a av, layers_okb ly = true -> outline_slot_okb ly = true -> abstract_view ly a = Some av ->
    all_some (map (elem_view (outline_table ly)) (lay_elems (abstract_image ly a))) = Some av.
Proof. exact abstract_image_view_spec. Qed.

(** Model level: an abstract is exported exactly like the layout [abs_pre] (outline; per port shape the shape on
    Drawing without net, the shape on Pin with the port's net). *)
Theorem C07_abstract_exported_as_layout :
  forall ly cells a s, layers_okb ly = true -> outline_slot_okb ly = true ->
    export_abstract xcfg_fixed ly a = Ok s ->
    export_layout xcfg_fixed (outline_table ly) cells (abs_pre (outline_key ly) (outline_purpose ly) a) = Ok s.
Proof. exact export_abstract_as_layout. Qed.

(** Information the format mapping loses (not defects): blockages are not written; the abstract of a cell that
    also has a layout is not written. *)
Theorem C07_abstract_blockages_not_exported :
  forall cfg ly n o p b b', export_abstract cfg ly (mkabstract n o p b) = export_abstract cfg ly (mkabstract n o p b').
Proof. exact blockages_not_exported. Qed.
Theorem C07_both_views_layout_exported :
  forall cfg ly cells n a a' l, export_cell cfg ly cells (mkcell n a (Some l)) = export_cell cfg ly cells (mkcell n a' (Some l)).
Proof. exact both_views_layout_wins. Qed.

(** Where the export of an abstract fails (inputs outside [exportable]; the model agrees with the code on them
    in the correspondence run): an outline without points panics (`abs.outline.points[0]`); a port with an
    entry -- even one without shapes -- on a layer lacking a Drawing, Pin or Label number is never exported. *)
Theorem C07_abstract_empty_outline_panics :
  forall cfg ly a, ab_outline a = [] -> export_abstract cfg ly a = Panic.
Proof. exact empty_outline_panics. Qed.
Theorem C07_abstract_port_needs_purposes :
  forall cfg ly a p e, In p (ab_ports a) -> In e (ap_shapes p) ->
    resolves ly (fst e) Drawing && resolves ly (fst e) Pin && resolves ly (fst e) Label = false ->
    forall s, export_abstract cfg ly a <> Ok s.
Proof. exact port_needs_purposes. Qed.
Theorem C07_abstract_port_needs_purposes_err :
  forall ly n o e net, o <> [] -> forallb point_i32b o = true ->
    resolves ly (fst e) Drawing && resolves ly (fst e) Pin && resolves ly (fst e) Label = false ->
    exists x, export_abstract xcfg_fixed ly (mkabstract n o [mkabsport net [e]] []) = Err x.
Proof. exact port_needs_purposes_err. Qed.

(** The executable oracle of the correspondence run for abstract-only cells implies the specification. *)
Theorem C07_abstract_checker_sound :
  forall L L', abstract_cells_okb L L' = true ->
    forall c0 a, In c0 (lib_cells L) -> abstract_only c0 = Some a ->
      exists c' l', In c' (lib_cells L') /\ c_name c' = c_name c0 /\ c_abs c' = None /\ c_layout c' = Some l' /\
                    layout_content_equiv (lib_layers L') (lib_cells L') (abstract_image (lib_layers L) a) l'.
Proof. exact abstract_cells_okb_sound. Qed.

(** Non-vacuity: an abstract-only cell "macro" (two ports; "VDD" on two layers listed in descending key order:
    a U-shaped polygon whose bounding-box centre is outside, a rectangle with swapped corners, an open Manhattan
    path of odd width; a blockage), a layout cell "top" instantiating it (reflected, rotated), and a cell "both"
    with both views.  The hypotheses of [C07_roundtrip_abstract] hold; the model exports it, the importer model
    imports it, and the result satisfies the conclusion (by computation): the table has grown by
    [outline_layer], "macro" came back as a layout of 1 + 2*4 elements, "both" by its layout. *)
Definition exa_layers : layers :=
  [mklayer 5 None [(0, Drawing); (1, Label); (2, Pin)]; mklayer 7 (Some "m2"%string) [(3, Label); (4, Drawing); (9, Pin)]].
Definition exa_U : shape :=
  Polygon [mkpt 50 0; mkpt 50 10; mkpt 52 10; mkpt 52 2; mkpt 58 2; mkpt 58 10; mkpt 60 10; mkpt 60 0].
Definition exa_abs : abstract :=
  mkabstract "macro" [mkpt 0 0; mkpt 70 0; mkpt 70 30; mkpt 0 30]
    [mkabsport "VDD" [(1%nat, [exa_U]); (0%nat, [Rect (mkpt 10 6) (mkpt 2 2); Path [mkpt 20 5; mkpt 30 5; mkpt 30 15] 3])];
     mkabsport "a" [(0%nat, [Rect (mkpt 40 20) (mkpt 44 28)])]]
    [(0%nat, [Rect (mkpt 0 0) (mkpt 70 1)])].
Definition exa_lib : library :=
  mklib "lib" Nano exa_layers
    [mkcell "macro" (Some exa_abs) None;
     mkcell "top" None (Some (mklayout "top"
       [mkinst "i0" 0 (mkpt 100 (-50)) true (Some 4636033603912859648)]
       [mkelem (Some "Net"%string) 0 Drawing (Rect (mkpt 0 0) (mkpt 5 5))] []));
     mkcell "both" (Some exa_abs) (Some (mklayout "both" [] [mkelem None 1 Drawing (Rect (mkpt 1 1) (mkpt 2 3))] []))].
Definition exa_gds : GdsData.library :=
  Eval vm_compute in match export_lib exa_lib with Ok g => g | _ => GdsData.mkLib [] 0 zero_dates (0, 0) [] end.
Definition exa_back : library :=
  Eval vm_compute in match RG.import_lib RG.cfg_fixed (lib_layers exa_lib) exa_gds with RG.IOk L' => L' | _ => exa_lib end.

Example C07_roundtrip_abstract_nonvacuous :
  exportable_abs exa_lib /\ labels_unambiguous_nz_at label_of exa_lib /\
  export_lib exa_lib = Ok exa_gds /\ RG.import_lib RG.cfg_fixed (lib_layers exa_lib) exa_gds = RG.IOk exa_back /\
  raw_equivb exa_lib exa_back = true /\ abstract_cells_okb exa_lib exa_back = true /\
  lib_layers exa_back = exa_layers ++ [outline_layer] /\ table_after exa_lib = exa_layers ++ [outline_layer] /\
  List.length (GdsData.l_structs exa_gds) = 3%nat /\
  option_map (fun l => List.length (lay_elems l)) (match lib_cells exa_back with c0 :: _ => c_layout c0 | [] => None end) = Some 9%nat /\
  c07_abstract_check exa_lib (GOk exa_gds) (ROk exa_back) = 0.
Proof.
  split; [vm_compute; reflexivity|].
  split; [apply labels_unambiguous_nz_atb_sound; vm_compute; reflexivity|].
  repeat split; vm_compute; reflexivity.
Qed.

(** outside the input space: the same abstract without outline points panics in the model (and in the code:
    directed case of the correspondence run); a port on a layer without Pin number is an error *)
Example C07_abstract_failures :
  export_lib (mklib "lib" Nano exa_layers [mkcell "m" (Some (mkabstract "m" [] [] [])) None]) = Panic /\
  export_lib (mklib "lib" Nano [mklayer 5 None [(0, Drawing); (1, Label)]]
                    [mkcell "m" (Some (mkabstract "m" [mkpt 0 0; mkpt 4 0; mkpt 4 4] [mkabsport "p" [(0%nat, [])]] [])) None]) = Err XPurpose.
Proof. split; vm_compute; reflexivity. Qed.

Print Assumptions C07_roundtrip_abstract.
Print Assumptions C07_table_after_layouts.
Print Assumptions C07_outline_table.
Print Assumptions C07_abstract_image_is_view.
Print Assumptions C07_abstract_exported_as_layout.
Print Assumptions C07_abstract_blockages_not_exported.
Print Assumptions C07_both_views_layout_exported.
Print Assumptions C07_abstract_empty_outline_panics.
Print Assumptions C07_abstract_port_needs_purposes.
Print Assumptions C07_abstract_port_needs_purposes_err.
Print Assumptions C07_abstract_checker_sound.

Check C07_roundtrip_abstract :
  forall c L, RG.fx_contains c = true -> RG.fx_pico c = true ->
    exportable_abs L -> labels_unambiguous_nz_at label_of L ->
    exists g L', export_lib L = Ok g /\ RG.import_lib c (lib_layers L) g = RG.IOk L' /\ raw_equiv L L' /\
      lib_layers L' = table_after L /\
      (forall c0 a, In c0 (lib_cells L) -> abstract_only c0 = Some a ->
         exists c' l', In c' (lib_cells L') /\ c_name c' = c_name c0 /\ c_abs c' = None /\ c_layout c' = Some l' /\
                       layout_content_equiv (lib_layers L') (lib_cells L') (abstract_image (lib_layers L) a) l').
Check C07_abstract_image_is_view :
  forall ly a av, layers_okb ly = true -> outline_slot_okb ly = true -> abstract_view ly a = Some av ->
    all_some (map (elem_view (outline_table ly)) (lay_elems (abstract_image ly a))) = Some av.
Check C07_abstract_empty_outline_panics : forall cfg ly a, ab_outline a = [] -> export_abstract cfg ly a = Panic.
Check C07_abstract_port_needs_purposes :
  forall cfg ly a p e, In p (ab_ports a) -> In e (ap_shapes p) ->
    resolves ly (fst e) Drawing && resolves ly (fst e) Pin && resolves ly (fst e) Label = false ->
    forall s, export_abstract cfg ly a <> Ok s.
Check C07_abstract_checker_sound :
  forall L L', abstract_cells_okb L L' = true ->
    forall c0 a, In c0 (lib_cells L) -> abstract_only c0 = Some a ->
      exists c' l', In c' (lib_cells L') /\ c_name c' = c_name c0 /\ c_abs c' = None /\ c_layout c' = Some l' /\
                    layout_content_equiv (lib_layers L') (lib_cells L') (abstract_image (lib_layers L) a) l'.

(** What is still missing for [C07_roundtrip_full] after (12): gap (a) above is CLOSED by [C07_roundtrip_abstract]
    (with the side condition [outline_slot_okb] on a table that already has a layer numbered 32767); gap (b)
    (even-odd vs non-zero-winding region for polygons) remains as stated. *)
