(** C06 -- Importing GDSII into the raw model preserves the flattened geometry.
    Property theorems only; proofs are in Raw/RawGds_proofs.v and Raw/RawFlatten_proofs.v.

    Model: Raw/RawGds.v ([import_lib cfg ly0 g], layout21raw/src/gds.rs GdsImporter) and
    Raw/RawFlatten.v ([raw_flatten L i], `Layout::flatten`, over the transform model of C12).
    Specification: Raw/RawGdsSpec.v ([gds_flatten] by GDSII semantics, [flat_equiv], labels).
    [cfg_orig] is the importer as found, [cfg_fixed] the importer with every repair proposed in
    work/c06/fix-*.patch (and C07's Pico repair); [cfg_without_*] has one repair missing. *)
From Coq Require Import ZArith List String Bool.
From L21 Require Import Base.Hex Raw.RawData Raw.RawGds Raw.RawFlatten Raw.RawGdsCheck Raw.RawGds_proofs Raw.RawFlatten_proofs Raw.RawGdsSafe_proofs.
From L21 Require Gds.GdsData Raw.RawGdsSpec Geom.Transform Geom.TransformSpec.
Import ListNotations.
Local Open Scope Z_scope.

Module G := Gds.GdsData.
Module S := Raw.RawGdsSpec.
Module T := Geom.Transform.
Module TS := Geom.TransformSpec.

(** * The property for the repaired importer

    [S.right_angle g]: struct names are pairwise distinct and no struct of [g] takes the library
    out of the specification's reach (every ANGLE a whole multiple of 90 degrees, lattice
    displacements divisible by COLS / ROWS, boundaries closed, boxes rectangular: see
    Raw/RawGdsSpec.v [SSilent]).  [S.malformed g]: some struct has a dangling or cyclic reference,
    an array with COLS <= 0 or ROWS <= 0, a BOUNDARY or PATH without coordinates, an absolute
    flag or a magnification other than 1 -- the cases for which the property demands an error.
    [S.flat_equiv ly es fs]: the raw elements [es], read through the layer table [ly], are
    exactly the shapes [fs] as a multiset of normal forms (a 4-vertex axis-parallel boundary and
    the rectangle with the same corners are the same shape). *)

(** (1) Whenever the repaired importer returns a library, that library has, for EVERY struct of
    the GDSII library, a cell of that name with a layout, and flattening that cell gives exactly
    the shapes obtained by flattening the struct under GDSII semantics: every boundary, box and
    path on its layer / datatype with its coordinates, every SREF reflected, rotated and
    translated, every AREF expanded to cols x rows placements on the lattice of its three points,
    through every level of the hierarchy -- nothing dropped, nothing misplaced.  All libraries,
    all depths, all coordinates; no size bound. *)
Theorem C06_import_flatten :
  forall g L, import_lib cfg_fixed [] g = IOk L -> S.right_angle g ->
  forall s, In s (G.l_structs g) ->
  exists k cell l fs es,
    nth_error (lib_cells L) k = Some cell /\ c_name cell = str_of_bytes (G.s_name s) /\ c_layout cell = Some l /\
    S.gds_flatten g (G.s_name s) = S.SOk fs /\ raw_flatten L k = T.Ok es /\
    S.flat_equiv (lib_layers L) es fs.
Proof. exact import_flatten_fixed. Qed.

(** (1') The same for every importer variant that has the six repairs the statement needs
    ([cfg_ok]: rows/cols check, degrees, lattice from the three points, empty XY, SREF
    magnification, path width) and for every caller-supplied layer table whose purposes are the
    importer's own `Other(n)` ([ly_inv]; the empty table in particular) -- whatever the capacity
    expression, `Polygon::contains`, `Path::contains` and the unit table are. *)
Theorem C06_import_flatten_gen :
  forall c ly0 g L, cfg_ok c -> ly_inv ly0 -> S.names_distinct g = true ->
  import_lib c ly0 g = IOk L ->
  forall s, In s (G.l_structs g) -> S.gds_flatten g (G.s_name s) <> S.SSilent ->
  exists k cell l fs es,
    nth_error (lib_cells L) k = Some cell /\ c_name cell = str_of_bytes (G.s_name s) /\ c_layout cell = Some l /\
    S.gds_flatten g (G.s_name s) = S.SOk fs /\ raw_flatten L k = T.Ok es /\
    S.flat_equiv (lib_layers L) es fs.
Proof. exact import_flatten_gen. Qed.

(** (2) Malformed libraries: the repaired importer NEVER returns a library for them (so no
    placement of a malformed library is ever silently dropped or misplaced) ... *)
Theorem C06_malformed_never_ok :
  forall g L, import_lib cfg_fixed [] g = IOk L -> ~ S.malformed g.
Proof. exact (fun g L => import_ok_not_malformed cfg_fixed [] g L cfg_fixed_ok (Forall_nil _)). Qed.

(** ... and it never panics: for every library of gds21's types ([G.lib_ok]: `i32` coordinates and widths,
    `i16` layers and counts, three-point and five-point XY arrays) -- all libraries, hierarchies, labels,
    paths of any direction -- the outcome is not a panic.  (`Polygon::contains` as repaired for C13,
    `Path::contains` with work/c06/fix-8: every intermediate of the label tests stays inside i128 / u128.) *)
Theorem C06_no_panic :
  forall g, G.lib_ok g -> import_lib cfg_fixed [] g <> IPanic.
Proof. exact no_panic_fixed. Qed.

(** Hence the error cases: a malformed library is rejected with an error. *)
Theorem C06_error_cases :
  forall g, G.lib_ok g -> S.malformed g -> exists e, import_lib cfg_fixed [] g = IErr e.
Proof. exact error_cases_fixed. Qed.

(** The property's disjunction: an error, or a library (to which (1) applies) of a library that is
    not malformed. *)
Theorem C06_error_or_library :
  forall g, G.lib_ok g ->
  (exists e, import_lib cfg_fixed [] g = IErr e) \/
  (exists L, import_lib cfg_fixed [] g = IOk L /\ ~ S.malformed g).
Proof. exact outcome_fixed. Qed.

(** (3) Single elements.  A BOUNDARY is imported as the polygon of its vertices, or -- for both
    windings and all four start corners of an axis-parallel rectangle -- as the rectangle with the
    same corners ([shape_rel]; same normal form); a BOX as the rectangle of its corners; a PATH as
    the path with the same points and the magnitude of its width; each on the layer and purpose
    that stand for its layer and datatype numbers. *)
Theorem C06_boundary :
  forall c ly b ly' e, import_boundary c ly b = IOk (ly', e) ->
  exists gm, S.boundary_geom b = S.SOk gm /\ shape_rel (e_shape e) gm /\
             S.norm_raw_shape (e_shape e) = S.norm_geom gm /\
             (ly_inv ly -> resolve_lp ly' (e_layer e) (e_purpose e) = Some (G.b_layer b, G.b_datatype b)).
Proof.
  intros c ly b ly' e H. destruct (import_boundary_rel c ly b ly' e H) as [gm [H1 [H2 [_ H4]]]].
  exists gm. split; [exact H1|]. split; [exact H2|]. split; [apply shape_rel_norm; exact H2|].
  intro Hinv. symmetry in H4. exact (proj1 (proj2 (get_or_insert_spec _ _ _ _ _ _ Hinv H4))).
Qed.
Theorem C06_box :
  forall ly b ly' e gm, import_box ly b = IOk (ly', e) -> S.box_geom b = S.SOk gm ->
  shape_rel (e_shape e) gm /\ S.norm_raw_shape (e_shape e) = S.norm_geom gm.
Proof.
  intros ly b ly' e gm H Hg. destruct (import_box_rel ly b ly' e H) as [_ [H2 _]].
  split; [apply H2; exact Hg | apply shape_rel_norm; apply H2; exact Hg].
Qed.
Theorem C06_path :
  forall c ly p ly' e, fx_width c = true -> fx_emptyxy c = true -> import_path c ly p = IOk (ly', e) ->
  exists gm, S.path_geom p = S.SOk gm /\ shape_rel (e_shape e) gm.
Proof.
  intros c ly p ly' e Hw He H. destruct (import_path_rel c ly p ly' e Hw H) as [gm [H1 [H2 _]]].
  exists gm. split; [apply H1; eapply import_path_nonempty; eassumption | exact H2].
Qed.
(** a right-angle placement keeps the rectangle pattern: rectangles stay rectangles through the hierarchy *)
Theorem C06_rectangles_stay_rectangles :
  forall pl a b c d, S.rect4 a b c d = true ->
  S.rect4 (TS.place_pt pl a) (TS.place_pt pl b) (TS.place_pt pl c) (TS.place_pt pl d) = true.
Proof. exact rect4_place. Qed.

(** (4) References.  An SREF becomes one instance whose exact transform (C12's [from_placement]
    at K = Z) is the specification's reflect-rotate-translate placement; an AREF becomes
    cols x rows instances, instance [i][j] at p0 + i*(p1-p0)/cols + j*(p2-p0)/rows, each with the
    array's reflection and rotation. *)
Theorem C06_sref_placement :
  forall c cm r i, fx_mag c = true -> import_instance c cm r = IOk i ->
  S.sref_placements r <> S.SErr /\ cm_get cm (G.sr_name r) = Some (i_cell i) /\
  forall pls, S.sref_placements r = S.SOk pls -> exists pl, pls = [pl] /\ inst_rel i pl.
Proof. exact import_instance_rel. Qed.
Theorem C06_aref_lattice :
  forall c cm a oi, fx_dims c = true -> fx_deg c = true -> fx_lattice c = true ->
  import_instance_array c cm a = IOk oi ->
  S.aref_placements a <> S.SErr /\
  exists cell insts, oi = Some insts /\ cm_get cm (G.ar_name a) = Some cell /\
     Forall (fun i => i_cell i = cell) insts /\
     forall pls, S.aref_placements a = S.SOk pls -> Forall2 inst_rel insts pls.
Proof. exact import_array_rel. Qed.

(** (6) Labels, the part that is proved: the test the importer applies to a label and a shape
    (`Shape::contains`: `Rect::contains`, `Polygon::contains` as repaired for C13) agrees with the
    specification's "inside": where the specification says inside (on the boundary included) the test is
    true, where it says outside it is false; for a rectangle imported from a 4-vertex boundary the
    answer is that of the boundary's own polygon (both windings, all start corners).  Paths are not
    covered by this lemma.  The full statement -- the nets and annotations of every imported cell follow
    the labels ([S.nets_okb], [S.annots_okb]) -- is [C06_nets_full]; it is checked on every case of the
    correspondence run and not proved (missing: the two-pass loop of `import_layout` against the relation,
    and the path case of the test). *)
Theorem C06_label_test_sound_partial :
  forall c sh gm q b, fx_contains c = true -> shape_rel sh gm -> (forall pts w, sh <> Path pts w) ->
  shape_contains c sh q = IOk b -> tri_agrees (S.label_in gm (S.rpt q)) b.
Proof. exact label_test_sound_partial. Qed.

Definition C06_nets_full : Prop :=
  forall g L, import_lib cfg_fixed [] g = IOk L -> S.right_angle g -> S.labels_ascii g = true ->
  forall s, In s (G.l_structs g) ->
  exists k cell l shapes,
    nth_error (lib_cells L) k = Some cell /\ c_name cell = str_of_bytes (G.s_name s) /\ c_layout cell = Some l /\
    S.own_shapes s = S.SOk shapes /\
    S.omap_all (S.norm_raw_elem (lib_layers L)) (lay_elems l) = Some (map S.norm_fshape shapes) /\
    S.nets_okb (S.own_texts s) shapes (map e_net (lay_elems l)) = true /\
    S.annots_okb shapes (S.own_texts s) (map annot_pair (lay_annots l)) = true.

(** (5) `Layout::flatten` one level at a time: whenever the recursion [rflat] on the library itself
    (a cell's own elements, then instance by instance the flattening of the instantiated cell
    moved by the instance's transform) is defined, the model of `flatten` (C12's [flatten_helper]
    on the unfolded tree) returns exactly that list. *)
Theorem C06_flatten_one_level :
  forall L k es, rflat (S (List.length (lib_cells L))) (lib_cells L) k = Some es -> raw_flatten L k = T.Ok es.
Proof. exact rflat_raw_flatten. Qed.

(** * Closed witnesses: each defect of the importer as found breaks the property, and the
    proposed repair removes it.  One small library per defect. *)
Definition zdt : G.datetimes := G.mkDTs (G.mkDT 0 0 0 0 0 0) (G.mkDT 0 0 0 0 0 0).
Definition nano : Z * Z := (4562254508917369340, 4472406533629990549).      (* GdsUnits(1e-3, 1e-9) *)
Definition wlib (structs : list G.gstruct) : G.library := G.mkLib (unhex "6c6962") 3 zdt nano structs.
Definition nm_leaf : G.bytes := unhex "6c656166".
Definition nm_top : G.bytes := unhex "746f70".
Definition pts (l : list (Z * Z)) : list G.point := map (fun p => G.mkPt (fst p) (snd p)) l.
(** leaf: one 3 x 2 rectangle on layer 1 / datatype 0 *)
Definition leaf : G.gstruct :=
  G.mkStruct nm_leaf zdt [G.EBoundary (G.mkBoundary 1 0 (pts [(0,0); (3,0); (3,2); (0,2); (0,0)]) None None [])].
Definition aref (xy : list (Z * Z)) (cols rows : Z) (st : option G.strans) : G.element :=
  G.EAref (G.mkAref nm_leaf (pts xy) cols rows st None None []).
Definition sref (xy : Z * Z) (st : option G.strans) : G.element :=
  G.ESref (G.mkSref nm_leaf (G.mkPt (fst xy) (snd xy)) st None None []).
Definition top (es : list G.element) : G.gstruct := G.mkStruct nm_top zdt es.
Definition deg90 : Z := 4636033603912859648.   (* 90.0 *)
Definition two_f : Z := 4611686018427387904.   (* 2.0 *)

Definition cfg_without_dims : cfg := mkcfg false true true true true true true true true true.
Definition cfg_without_cap : cfg := mkcfg true false true true true true true true true true.
Definition cfg_without_deg : cfg := mkcfg true true false true true true true true true true.
Definition cfg_without_lattice : cfg := mkcfg true true true false true true true true true true.
Definition cfg_without_emptyxy : cfg := mkcfg true true true true false true true true true true.
Definition cfg_without_mag : cfg := mkcfg true true true true true false true true true true.
Definition cfg_without_width : cfg := mkcfg true true true true true true false true true true.
Definition cfg_without_pathdiag : cfg := mkcfg true true true true true true true true true false.

(** what the correspondence checker says about the model's own output on a library:
    0 = the property holds, 1 = the specification is silent, 2 = the property fails *)
Definition verdict_of (c : cfg) (g : G.library) : Z :=
  prop_verdict g
    (match import_lib c [] g with
     | IOk L => MLib L (map (fun i => match raw_flatten L i with
                                     | T.Ok es => FOk es | T.Panic => FPanic | T.OutOfModel => FNotRun end)
                            (seq 0 (List.length (lib_cells L))))
     | IErr _ => MErr
     | _ => MPanic
     end).

(** (w1) COLS = 0: a division by zero (a panic is neither an error nor a library). *)
Definition w_zero_cols : G.library := wlib [leaf; top [aref [(0,0); (20,0); (0,30)] 0 3 None]].
Theorem C06_zero_dims_orig_refuted :
  S.malformed w_zero_cols /\ import_lib cfg_orig [] w_zero_cols = IPanic
  /\ import_lib cfg_without_dims [] w_zero_cols = IPanic.
Proof. vm_compute. repeat split; reflexivity. Qed.
Theorem C06_zero_dims_repaired : import_lib cfg_fixed [] w_zero_cols = IErr EArrayDims.
Proof. vm_compute. reflexivity. Qed.

(** (w2) 200 x 200: the capacity `rows * cols` overflows i16. *)
Definition w_capacity : G.library := wlib [leaf; top [aref [(0,0); (1000,0); (0,800)] 200 200 None]].
Theorem C06_capacity_orig_refuted :
  import_lib cfg_orig [] w_capacity = IPanic /\ import_lib cfg_without_cap [] w_capacity = IPanic.
Proof. vm_compute. split; reflexivity. Qed.
Theorem C06_capacity_repaired :
  match import_lib cfg_fixed [] w_capacity with
  | IOk L => match nth_error (lib_cells L) 1 with
             | Some c => option_map (fun l => Z.of_nat (List.length (lay_insts l))) (c_layout c)
             | None => None
             end
  | _ => None
  end = Some 40000.
Proof. vm_compute. reflexivity. Qed.

(** (w3) the angle of array instances is stored in radians: ANGLE 90 becomes 1.5707963267948966,
    while `Instance::angle` and `Transform::from_instance` are in degrees.  (A 1 x 1 array: the
    lattice plays no part.) *)
Definition w_radians : G.library :=
  wlib [leaf; top [aref [(4,4); (4,4); (4,4)] 1 1 (Some (G.mkStrans false false false None (Some deg90)))]].
Definition first_inst_angle (r : ires library) : option (option Z) :=
  match r with
  | IOk L => match nth_error (lib_cells L) 1 with
             | Some c => match c_layout c with
                         | Some l => match lay_insts l with i :: _ => Some (i_angle i) | [] => None end
                         | None => None
                         end
             | None => None
             end
  | _ => None
  end.
Theorem C06_radians_orig_refuted :
  S.right_angle w_radians /\ S.malformedb w_radians = false /\
  first_inst_angle (import_lib cfg_orig [] w_radians) = Some (Some 4609753056924675352) /\      (* pi/2 *)
  first_inst_angle (import_lib cfg_without_deg [] w_radians) = Some (Some 4609753056924675352) /\
  verdict_of cfg_without_deg w_radians = 2.
Proof. vm_compute. repeat split; reflexivity. Qed.
Theorem C06_radians_repaired :
  first_inst_angle (import_lib cfg_fixed [] w_radians) = Some (Some deg90) /\ verdict_of cfg_fixed w_radians = 0.
Proof. vm_compute. split; reflexivity. Qed.

(** (w4) a 2 x 3 array rotated by 90 degrees, XY as GDSII defines them (the lattice vectors lie as
    in the parent cell: columns run up, rows run left): the importer as found returns no instance
    at all and reports nothing -- six placements dropped. *)
Definition w_lattice_gds : G.library :=
  wlib [leaf; top [aref [(0,0); (0,20); (-30,0)] 2 3 (Some (G.mkStrans false false false None (Some deg90)))]].
Definition inst_count (r : ires library) : option nat :=
  match r with
  | IOk L => match nth_error (lib_cells L) 1 with
             | Some c => option_map (fun l => List.length (lay_insts l)) (c_layout c)
             | None => None
             end
  | _ => None
  end.
Theorem C06_lattice_dropped_orig_refuted :
  S.right_angle w_lattice_gds /\ S.malformedb w_lattice_gds = false /\
  inst_count (import_lib cfg_orig [] w_lattice_gds) = Some O /\
  inst_count (import_lib cfg_without_lattice [] w_lattice_gds) = Some O /\
  verdict_of cfg_without_lattice w_lattice_gds = 2.
Proof. vm_compute. repeat split; reflexivity. Qed.
(** (w4') the same array with axis-parallel XY: as found the lattice is rotated once more, so the
    copies land at (-10 i, 10 j) instead of (10 i, 10 j). *)
Definition w_lattice_axis : G.library :=
  wlib [leaf; top [aref [(0,0); (20,0); (0,30)] 2 3 (Some (G.mkStrans false false false None (Some deg90)))]].
Theorem C06_lattice_rotated_orig_refuted :
  S.right_angle w_lattice_axis /\ inst_count (import_lib cfg_without_lattice [] w_lattice_axis) = Some 6%nat /\
  verdict_of cfg_without_lattice w_lattice_axis = 2.
Proof. vm_compute. repeat split; reflexivity. Qed.
Theorem C06_lattice_repaired :
  inst_count (import_lib cfg_fixed [] w_lattice_gds) = Some 6%nat /\ verdict_of cfg_fixed w_lattice_gds = 0 /\
  verdict_of cfg_fixed w_lattice_axis = 0.
Proof. vm_compute. repeat split; reflexivity. Qed.

(** (w5) a BOUNDARY without coordinates: `pts[0]` panics. *)
Definition w_empty_xy : G.library := wlib [top [G.EBoundary (G.mkBoundary 1 0 [] None None [])]].
Theorem C06_empty_xy_orig_refuted :
  S.malformed w_empty_xy /\ import_lib cfg_orig [] w_empty_xy = IPanic /\ import_lib cfg_without_emptyxy [] w_empty_xy = IPanic.
Proof. vm_compute. repeat split; reflexivity. Qed.
Theorem C06_empty_xy_repaired : import_lib cfg_fixed [] w_empty_xy = IErr EEmptyXY.
Proof. vm_compute. reflexivity. Qed.

(** (w6) SREF with MAG 2: imported as if MAG were 1 (the copy is half the size it should be). *)
Definition w_mag : G.library :=
  wlib [leaf; top [sref (1,1) (Some (G.mkStrans false false false (Some two_f) None))]].
Theorem C06_sref_mag_orig_refuted :
  S.malformed w_mag /\ inst_count (import_lib cfg_orig [] w_mag) = Some 1%nat /\
  inst_count (import_lib cfg_without_mag [] w_mag) = Some 1%nat.
Proof. vm_compute. repeat split; reflexivity. Qed.
Theorem C06_sref_mag_repaired : import_lib cfg_fixed [] w_mag = IErr EMag.
Proof. vm_compute. reflexivity. Qed.

(** (w7) PATH with WIDTH -4 (an absolute width of 4): `as usize` makes it 2^64 - 4. *)
Definition w_neg_width : G.library :=
  wlib [top [G.EPath (G.mkPath 1 0 (pts [(0,0); (10,0)]) (Some (-4)) None None None None None [])]].
Theorem C06_neg_width_orig_refuted :
  S.right_angle w_neg_width /\ S.malformedb w_neg_width = false /\
  verdict_of cfg_orig w_neg_width = 2 /\ verdict_of cfg_without_width w_neg_width = 2.
Proof. vm_compute. repeat split; reflexivity. Qed.
Theorem C06_neg_width_repaired : verdict_of cfg_fixed w_neg_width = 0.
Proof. vm_compute. reflexivity. Qed.

(** (w8) a TEXT on the layer of a PATH with a diagonal segment: `Path::contains` is
    `unimplemented!` there, the import panics. *)
Definition w_diag_label : G.library :=
  wlib [top [G.EPath (G.mkPath 1 0 (pts [(0,0); (10,10)]) (Some 4) None None None None None []);
             G.EText (G.mkText (unhex "41") 1 0 (G.mkPt 5 5) None None None None None None [])]].
Theorem C06_diag_label_orig_refuted :
  S.right_angle w_diag_label /\ S.malformedb w_diag_label = false /\
  import_lib cfg_orig [] w_diag_label = IPanic /\ import_lib cfg_without_pathdiag [] w_diag_label = IPanic.
Proof. vm_compute. repeat split; reflexivity. Qed.
Theorem C06_diag_label_repaired : verdict_of cfg_fixed w_diag_label = 0.
Proof. vm_compute. reflexivity. Qed.

(** Non-vacuity: a three-level hierarchy with a reflected and rotated SREF, a rotated AREF in GDSII
    convention, a labelled rectangle given clockwise from its upper-right corner, a path and a box
    is imported by the repaired importer, and every cell flattens to exactly [gds_flatten]. *)
Definition nm_mid : G.bytes := unhex "6d6964".
Definition w_hier : G.library :=
  wlib [top [G.ESref (G.mkSref nm_mid (G.mkPt 100 200) (Some (G.mkStrans true false false None (Some deg90))) None None []);
             G.EBox (G.mkBox 2 1 (pts [(0,0); (0,5); (7,5); (7,0); (0,0)]) None None [])];
        G.mkStruct nm_mid zdt
          [aref [(10,0); (10,20); (-20,0)] 2 3 (Some (G.mkStrans false false false None (Some deg90)));
           G.EPath (G.mkPath 3 0 (pts [(0,0); (10,0); (10,10)]) (Some 2) None None None None None [])];
        G.mkStruct nm_leaf zdt
          [G.EBoundary (G.mkBoundary 1 0 (pts [(3,2); (3,0); (0,0); (0,2); (3,2)]) None None []);
           G.EText (G.mkText (unhex "566464") 1 0 (G.mkPt 1 1) None None None None None None [])]].
Example C06_nonvacuous :
  S.right_angle w_hier /\ S.malformedb w_hier = false /\ verdict_of cfg_fixed w_hier = 0 /\
  (exists L, import_lib cfg_fixed [] w_hier = IOk L /\ List.length (lib_cells L) = 3%nat /\
             match raw_flatten L 2, S.gds_flatten w_hier nm_top with
             | T.Ok es, S.SOk fs => S.flat_equivb (lib_layers L) es fs = true /\ List.length es = 8%nat
             | _, _ => False
             end).
Proof.
  split; [vm_compute; reflexivity|]. split; [vm_compute; reflexivity|]. split; [vm_compute; reflexivity|].
  eexists. split; [vm_compute; reflexivity|]. vm_compute. repeat split; reflexivity.
Qed.

Print Assumptions C06_import_flatten.
Print Assumptions C06_import_flatten_gen.
Print Assumptions C06_malformed_never_ok.
Print Assumptions C06_no_panic.
Print Assumptions C06_error_cases.
Print Assumptions C06_error_or_library.
Print Assumptions C06_boundary.
Print Assumptions C06_box.
Print Assumptions C06_path.
Print Assumptions C06_rectangles_stay_rectangles.
Print Assumptions C06_sref_placement.
Print Assumptions C06_aref_lattice.
Print Assumptions C06_flatten_one_level.
Print Assumptions C06_label_test_sound_partial.
Print Assumptions C06_zero_dims_orig_refuted.
Print Assumptions C06_zero_dims_repaired.
Print Assumptions C06_capacity_orig_refuted.
Print Assumptions C06_capacity_repaired.
Print Assumptions C06_radians_orig_refuted.
Print Assumptions C06_radians_repaired.
Print Assumptions C06_lattice_dropped_orig_refuted.
Print Assumptions C06_lattice_rotated_orig_refuted.
Print Assumptions C06_lattice_repaired.
Print Assumptions C06_empty_xy_orig_refuted.
Print Assumptions C06_empty_xy_repaired.
Print Assumptions C06_sref_mag_orig_refuted.
Print Assumptions C06_sref_mag_repaired.
Print Assumptions C06_neg_width_orig_refuted.
Print Assumptions C06_neg_width_repaired.
Print Assumptions C06_diag_label_orig_refuted.
Print Assumptions C06_diag_label_repaired.
