(** C06 -- Importing GDSII into the raw model preserves the flattened geometry. (statements follow) *)
From Coq Require Import ZArith List String Bool.
From L21 Require Import Raw.RawData Raw.RawGds Raw.RawFlatten Raw.RawGdsSpec Raw.RawGdsCheck Raw.RawGds_proofs Raw.RawFlatten_proofs.
Import ListNotations.
Local Open Scope Z_scope.
