(** C06 -- Importing GDSII into the raw model preserves the flattened geometry.
    Property theorems only; proofs are in Raw/RawGds_proofs.v, Raw/RawFlatten_proofs.v, Raw/RawGdsSafe_proofs.v and
    (the nets clause, section (7)) Raw/RawGdsNets_proofs.v.

    Model: Raw/RawGds.v ([import_lib cfg ly0 g], layout21raw/src/gds.rs GdsImporter) and
    Raw/RawFlatten.v ([raw_flatten L i], `Layout::flatten`, over the transform model of C12).
    Specification: Raw/RawGdsSpec.v ([gds_flatten] by GDSII semantics, [flat_equiv], labels).
    [cfg_orig] is the importer as found, [cfg_fixed] the importer with every repair proposed in
    work/c06/fix-*.patch (and C07's Pico repair); [cfg_without_*] has one repair missing. *)
From Coq Require Import ZArith List String Bool.
From L21 Require Import Base.Hex Raw.RawData Raw.RawGds Raw.RawFlatten Raw.RawGdsCheck Raw.RawGds_proofs Raw.RawFlatten_proofs Raw.RawGdsSafe_proofs Raw.RawGdsNets_proofs.
From L21 Require Gds.GdsData Raw.RawGdsSpec Geom.Transform Geom.TransformSpec.
Import ListNotations.
Local Open Scope Z_scope.

Module G := Gds.GdsData.
Module S := Raw.RawGdsSpec.
Module T := Geom.Transform.
Module TS := Geom.TransformSpec.

(** * The property for the repaired importer

    [S.right_angle g]: struct names are pairwise distinct and no struct of [g] takes the library
    out of the specification's reach (every ANGLE a whole multiple of 90 degrees, lattice
    displacements divisible by COLS / ROWS, boundaries closed, boxes rectangular: see
    Raw/RawGdsSpec.v [SSilent]).  [S.malformed g]: some struct has a dangling or cyclic reference,
    an array with COLS <= 0 or ROWS <= 0, a BOUNDARY or PATH without coordinates, an absolute
    flag or a magnification other than 1 -- the cases for which the property demands an error.
    [S.flat_equiv ly es fs]: the raw elements [es], read through the layer table [ly], are
    exactly the shapes [fs] as a multiset of normal forms (a 4-vertex axis-parallel boundary and
    the rectangle with the same corners are the same shape). *)

(** (1) Whenever the repaired importer returns a library, that library has, for EVERY struct of
    the GDSII library, a cell of that name with a layout, and flattening that cell gives exactly
    the shapes obtained by flattening the struct under GDSII semantics: every boundary, box and
    path on its layer / datatype with its coordinates, every SREF reflected, rotated and
    translated, every AREF expanded to cols x rows placements on the lattice of its three points,
    through every level of the hierarchy -- nothing dropped, nothing misplaced.  All libraries,
    all depths, all coordinates; no size bound. *)
Theorem C06_import_flatten :
  forall g L, import_lib cfg_fixed [] g = IOk L -> S.right_angle g ->
  forall s, In s (G.l_structs g) ->
  exists k cell l fs es,
    nth_error (lib_cells L) k = Some cell /\ c_name cell = str_of_bytes (G.s_name s) /\ c_layout cell = Some l /\
    S.gds_flatten g (G.s_name s) = S.SOk fs /\ raw_flatten L k = T.Ok es /\
    S.flat_equiv (lib_layers L) es fs.
Proof. exact import_flatten_fixed. Qed.

(** (1') The same for every importer variant that has the six repairs the statement needs
    ([cfg_ok]: rows/cols check, degrees, lattice from the three points, empty XY, SREF
    magnification, path width) and for every caller-supplied layer table whose purposes are the
    importer's own `Other(n)` ([ly_inv]; the empty table in particular) -- whatever the capacity
    expression, `Polygon::contains`, `Path::contains` and the unit table are. *)
Theorem C06_import_flatten_gen :
  forall c ly0 g L, cfg_ok c -> ly_inv ly0 -> S.names_distinct g = true ->
  import_lib c ly0 g = IOk L ->
  forall s, In s (G.l_structs g) -> S.gds_flatten g (G.s_name s) <> S.SSilent ->
  exists k cell l fs es,
    nth_error (lib_cells L) k = Some cell /\ c_name cell = str_of_bytes (G.s_name s) /\ c_layout cell = Some l /\
    S.gds_flatten g (G.s_name s) = S.SOk fs /\ raw_flatten L k = T.Ok es /\
    S.flat_equiv (lib_layers L) es fs.
Proof. exact import_flatten_gen. Qed.

(** (2) Malformed libraries: the repaired importer NEVER returns a library for them (so no
    placement of a malformed library is ever silently dropped or misplaced) ... *)
Theorem C06_malformed_never_ok :
  forall g L, import_lib cfg_fixed [] g = IOk L -> ~ S.malformed g.
Proof. exact (fun g L => import_ok_not_malformed cfg_fixed [] g L cfg_fixed_ok (Forall_nil _)). Qed.

(** ... and it never panics: for every library of gds21's types ([G.lib_ok]: `i32` coordinates and widths,
    `i16` layers and counts, three-point and five-point XY arrays) -- all libraries, hierarchies, labels,
    paths of any direction -- the outcome is not a panic.  (`Polygon::contains` as repaired for C13,
    `Path::contains` with work/c06/fix-8: every intermediate of the label tests stays inside i128 / u128.) *)
Theorem C06_no_panic :
  forall g, G.lib_ok g -> import_lib cfg_fixed [] g <> IPanic.
Proof. exact no_panic_fixed. Qed.

(** Hence the error cases: a malformed library is rejected with an error. *)
Theorem C06_error_cases :
  forall g, G.lib_ok g -> S.malformed g -> exists e, import_lib cfg_fixed [] g = IErr e.
Proof. exact error_cases_fixed. Qed.

(** The property's disjunction: an error, or a library (to which (1) applies) of a library that is
    not malformed. *)
Theorem C06_error_or_library :
  forall g, G.lib_ok g ->
  (exists e, import_lib cfg_fixed [] g = IErr e) \/
  (exists L, import_lib cfg_fixed [] g = IOk L /\ ~ S.malformed g).
Proof. exact outcome_fixed. Qed.

(** (3) Single elements.  A BOUNDARY is imported as the polygon of its vertices, or -- for both
    windings and all four start corners of an axis-parallel rectangle -- as the rectangle with the
    same corners ([shape_rel]; same normal form); a BOX as the rectangle of its corners; a PATH as
    the path with the same points and the magnitude of its width; each on the layer and purpose
    that stand for its layer and datatype numbers. *)
Theorem C06_boundary :
  forall c ly b ly' e, import_boundary c ly b = IOk (ly', e) ->
  exists gm, S.boundary_geom b = S.SOk gm /\ shape_rel (e_shape e) gm /\
             S.norm_raw_shape (e_shape e) = S.norm_geom gm /\
             (ly_inv ly -> resolve_lp ly' (e_layer e) (e_purpose e) = Some (G.b_layer b, G.b_datatype b)).
Proof.
  intros c ly b ly' e H. destruct (import_boundary_rel c ly b ly' e H) as [gm [H1 [H2 [_ H4]]]].
  exists gm. split; [exact H1|]. split; [exact H2|]. split; [apply shape_rel_norm; exact H2|].
  intro Hinv. symmetry in H4. exact (proj1 (proj2 (get_or_insert_spec _ _ _ _ _ _ Hinv H4))).
Qed.
Theorem C06_box :
  forall ly b ly' e gm, import_box ly b = IOk (ly', e) -> S.box_geom b = S.SOk gm ->
  shape_rel (e_shape e) gm /\ S.norm_raw_shape (e_shape e) = S.norm_geom gm.
Proof.
  intros ly b ly' e gm H Hg. destruct (import_box_rel ly b ly' e H) as [_ [H2 _]].
  split; [apply H2; exact Hg | apply shape_rel_norm; apply H2; exact Hg].
Qed.
Theorem C06_path :
  forall c ly p ly' e, fx_width c = true -> fx_emptyxy c = true -> import_path c ly p = IOk (ly', e) ->
  exists gm, S.path_geom p = S.SOk gm /\ shape_rel (e_shape e) gm.
Proof.
  intros c ly p ly' e Hw He H. destruct (import_path_rel c ly p ly' e Hw H) as [gm [H1 [H2 _]]].
  exists gm. split; [apply H1; eapply import_path_nonempty; eassumption | exact H2].
Qed.
(** a right-angle placement keeps the rectangle pattern: rectangles stay rectangles through the hierarchy *)
Theorem C06_rectangles_stay_rectangles :
  forall pl a b c d, S.rect4 a b c d = true ->
  S.rect4 (TS.place_pt pl a) (TS.place_pt pl b) (TS.place_pt pl c) (TS.place_pt pl d) = true.
Proof. exact rect4_place. Qed.

(** (4) References.  An SREF becomes one instance whose exact transform (C12's [from_placement]
    at K = Z) is the specification's reflect-rotate-translate placement; an AREF becomes
    cols x rows instances, instance [i][j] at p0 + i*(p1-p0)/cols + j*(p2-p0)/rows, each with the
    array's reflection and rotation. *)
Theorem C06_sref_placement :
  forall c cm r i, fx_mag c = true -> import_instance c cm r = IOk i ->
  S.sref_placements r <> S.SErr /\ cm_get cm (G.sr_name r) = Some (i_cell i) /\
  forall pls, S.sref_placements r = S.SOk pls -> exists pl, pls = [pl] /\ inst_rel i pl.
Proof. exact import_instance_rel. Qed.
Theorem C06_aref_lattice :
  forall c cm a oi, fx_dims c = true -> fx_deg c = true -> fx_lattice c = true ->
  import_instance_array c cm a = IOk oi ->
  S.aref_placements a <> S.SErr /\
  exists cell insts, oi = Some insts /\ cm_get cm (G.ar_name a) = Some cell /\
     Forall (fun i => i_cell i = cell) insts /\
     forall pls, S.aref_placements a = S.SOk pls -> Forall2 inst_rel insts pls.
Proof. exact import_array_rel. Qed.

(** (6) Labels, the part that is proved: the test the importer applies to a label and a shape
    (`Shape::contains`: `Rect::contains`, `Polygon::contains` as repaired for C13) agrees with the
    specification's "inside": where the specification says inside (on the boundary included) the test is
    true, where it says outside it is false; for a rectangle imported from a 4-vertex boundary the
    answer is that of the boundary's own polygon (both windings, all start corners).  Paths are not
    covered by this lemma; [C06_label_test_sound] in section (7) covers all three shape kinds.  The statement in
    the form the correspondence run evaluates on every case -- the nets and annotations of every imported cell
    follow the labels ([S.nets_okb], [S.annots_okb], three-valued: where the specification leaves "inside" open
    either answer is accepted) -- is [C06_nets_full], a theorem since 2026-10-02 (Raw/RawGdsNets_proofs.v); the
    exact statement, which also says what happens with ambiguous labels, is [C06_nets] in section (7). *)
Theorem C06_label_test_sound_partial :
  forall c sh gm q b, fx_contains c = true -> shape_rel sh gm -> (forall pts w, sh <> Path pts w) ->
  shape_contains c sh q = IOk b -> tri_agrees (S.label_in gm (S.rpt q)) b.
Proof. exact label_test_sound_partial. Qed.

Theorem C06_nets_full :
  forall g L, import_lib cfg_fixed [] g = IOk L -> S.right_angle g -> S.labels_ascii g = true ->
  forall s, In s (G.l_structs g) ->
  exists k cell l shapes,
    nth_error (lib_cells L) k = Some cell /\ c_name cell = str_of_bytes (G.s_name s) /\ c_layout cell = Some l /\
    S.own_shapes s = S.SOk shapes /\
    S.omap_all (S.norm_raw_elem (lib_layers L)) (lay_elems l) = Some (map S.norm_fshape shapes) /\
    S.nets_okb (S.own_texts s) shapes (map e_net (lay_elems l)) = true /\
    S.annots_okb shapes (S.own_texts s) (map annot_pair (lay_annots l)) = true.
Proof. exact nets_full_fixed. Qed.

(** (5) `Layout::flatten` one level at a time: whenever the recursion [rflat] on the library itself
    (a cell's own elements, then instance by instance the flattening of the instantiated cell
    moved by the instance's transform) is defined, the model of `flatten` (C12's [flatten_helper]
    on the unfolded tree) returns exactly that list. *)
Theorem C06_flatten_one_level :
  forall L k es, rflat (S (List.length (lib_cells L))) (lib_cells L) k = Some es -> raw_flatten L k = T.Ok es.
Proof. exact rflat_raw_flatten. Qed.

(** * Closed witnesses: each defect of the importer as found breaks the property, and the
    proposed repair removes it.  One small library per defect. *)
Definition zdt : G.datetimes := G.mkDTs (G.mkDT 0 0 0 0 0 0) (G.mkDT 0 0 0 0 0 0).
Definition nano : Z * Z := (4562254508917369340, 4472406533629990549).      (* GdsUnits(1e-3, 1e-9) *)
Definition wlib (structs : list G.gstruct) : G.library := G.mkLib (unhex "6c6962") 3 zdt nano structs.
Definition nm_leaf : G.bytes := unhex "6c656166".
Definition nm_top : G.bytes := unhex "746f70".
Definition pts (l : list (Z * Z)) : list G.point := map (fun p => G.mkPt (fst p) (snd p)) l.
(** leaf: one 3 x 2 rectangle on layer 1 / datatype 0 *)
Definition leaf : G.gstruct :=
  G.mkStruct nm_leaf zdt [G.EBoundary (G.mkBoundary 1 0 (pts [(0,0); (3,0); (3,2); (0,2); (0,0)]) None None [])].
Definition aref (xy : list (Z * Z)) (cols rows : Z) (st : option G.strans) : G.element :=
  G.EAref (G.mkAref nm_leaf (pts xy) cols rows st None None []).
Definition sref (xy : Z * Z) (st : option G.strans) : G.element :=
  G.ESref (G.mkSref nm_leaf (G.mkPt (fst xy) (snd xy)) st None None []).
Definition top (es : list G.element) : G.gstruct := G.mkStruct nm_top zdt es.
Definition deg90 : Z := 4636033603912859648.   (* 90.0 *)
Definition two_f : Z := 4611686018427387904.   (* 2.0 *)

Definition cfg_without_dims : cfg := mkcfg false true true true true true true true true true.
Definition cfg_without_cap : cfg := mkcfg true false true true true true true true true true.
Definition cfg_without_deg : cfg := mkcfg true true false true true true true true true true.
Definition cfg_without_lattice : cfg := mkcfg true true true false true true true true true true.
Definition cfg_without_emptyxy : cfg := mkcfg true true true true false true true true true true.
Definition cfg_without_mag : cfg := mkcfg true true true true true false true true true true.
Definition cfg_without_width : cfg := mkcfg true true true true true true false true true true.
Definition cfg_without_pathdiag : cfg := mkcfg true true true true true true true true true false.

(** what the correspondence checker says about the model's own output on a library:
    0 = the property holds, 1 = the specification is silent, 2 = the property fails *)
Definition verdict_of (c : cfg) (g : G.library) : Z :=
  prop_verdict g
    (match import_lib c [] g with
     | IOk L => MLib L (map (fun i => match raw_flatten L i with
                                     | T.Ok es => FOk es | T.Panic => FPanic | T.OutOfModel => FNotRun end)
                            (seq 0 (List.length (lib_cells L))))
     | IErr _ => MErr
     | _ => MPanic
     end).

(** (w1) COLS = 0: a division by zero (a panic is neither an error nor a library). *)
Definition w_zero_cols : G.library := wlib [leaf; top [aref [(0,0); (20,0); (0,30)] 0 3 None]].
Theorem C06_zero_dims_orig_refuted :
  S.malformed w_zero_cols /\ import_lib cfg_orig [] w_zero_cols = IPanic
  /\ import_lib cfg_without_dims [] w_zero_cols = IPanic.
Proof. vm_compute. repeat split; reflexivity. Qed.
Theorem C06_zero_dims_repaired : import_lib cfg_fixed [] w_zero_cols = IErr EArrayDims.
Proof. vm_compute. reflexivity. Qed.

(** (w2) 200 x 200: the capacity `rows * cols` overflows i16. *)
Definition w_capacity : G.library := wlib [leaf; top [aref [(0,0); (1000,0); (0,800)] 200 200 None]].
Theorem C06_capacity_orig_refuted :
  import_lib cfg_orig [] w_capacity = IPanic /\ import_lib cfg_without_cap [] w_capacity = IPanic.
Proof. vm_compute. split; reflexivity. Qed.
Theorem C06_capacity_repaired :
  match import_lib cfg_fixed [] w_capacity with
  | IOk L => match nth_error (lib_cells L) 1 with
             | Some c => option_map (fun l => Z.of_nat (List.length (lay_insts l))) (c_layout c)
             | None => None
             end
  | _ => None
  end = Some 40000.
Proof. vm_compute. reflexivity. Qed.

(** (w3) the angle of array instances is stored in radians: ANGLE 90 becomes 1.5707963267948966,
    while `Instance::angle` and `Transform::from_instance` are in degrees.  (A 1 x 1 array: the
    lattice plays no part.) *)
Definition w_radians : G.library :=
  wlib [leaf; top [aref [(4,4); (4,4); (4,4)] 1 1 (Some (G.mkStrans false false false None (Some deg90)))]].
Definition first_inst_angle (r : ires library) : option (option Z) :=
  match r with
  | IOk L => match nth_error (lib_cells L) 1 with
             | Some c => match c_layout c with
                         | Some l => match lay_insts l with i :: _ => Some (i_angle i) | [] => None end
                         | None => None
                         end
             | None => None
             end
  | _ => None
  end.
Theorem C06_radians_orig_refuted :
  S.right_angle w_radians /\ S.malformedb w_radians = false /\
  first_inst_angle (import_lib cfg_orig [] w_radians) = Some (Some 4609753056924675352) /\      (* pi/2 *)
  first_inst_angle (import_lib cfg_without_deg [] w_radians) = Some (Some 4609753056924675352) /\
  verdict_of cfg_without_deg w_radians = 2.
Proof. vm_compute. repeat split; reflexivity. Qed.
Theorem C06_radians_repaired :
  first_inst_angle (import_lib cfg_fixed [] w_radians) = Some (Some deg90) /\ verdict_of cfg_fixed w_radians = 0.
Proof. vm_compute. split; reflexivity. Qed.

(** (w4) a 2 x 3 array rotated by 90 degrees, XY as GDSII defines them (the lattice vectors lie as
    in the parent cell: columns run up, rows run left): the importer as found returns no instance
    at all and reports nothing -- six placements dropped. *)
Definition w_lattice_gds : G.library :=
  wlib [leaf; top [aref [(0,0); (0,20); (-30,0)] 2 3 (Some (G.mkStrans false false false None (Some deg90)))]].
Definition inst_count (r : ires library) : option nat :=
  match r with
  | IOk L => match nth_error (lib_cells L) 1 with
             | Some c => option_map (fun l => List.length (lay_insts l)) (c_layout c)
             | None => None
             end
  | _ => None
  end.
Theorem C06_lattice_dropped_orig_refuted :
  S.right_angle w_lattice_gds /\ S.malformedb w_lattice_gds = false /\
  inst_count (import_lib cfg_orig [] w_lattice_gds) = Some O /\
  inst_count (import_lib cfg_without_lattice [] w_lattice_gds) = Some O /\
  verdict_of cfg_without_lattice w_lattice_gds = 2.
Proof. vm_compute. repeat split; reflexivity. Qed.
(** (w4') the same array with axis-parallel XY: as found the lattice is rotated once more, so the
    copies land at (-10 i, 10 j) instead of (10 i, 10 j). *)
Definition w_lattice_axis : G.library :=
  wlib [leaf; top [aref [(0,0); (20,0); (0,30)] 2 3 (Some (G.mkStrans false false false None (Some deg90)))]].
Theorem C06_lattice_rotated_orig_refuted :
  S.right_angle w_lattice_axis /\ inst_count (import_lib cfg_without_lattice [] w_lattice_axis) = Some 6%nat /\
  verdict_of cfg_without_lattice w_lattice_axis = 2.
Proof. vm_compute. repeat split; reflexivity. Qed.
Theorem C06_lattice_repaired :
  inst_count (import_lib cfg_fixed [] w_lattice_gds) = Some 6%nat /\ verdict_of cfg_fixed w_lattice_gds = 0 /\
  verdict_of cfg_fixed w_lattice_axis = 0.
Proof. vm_compute. repeat split; reflexivity. Qed.

(** (w5) a BOUNDARY without coordinates: `pts[0]` panics. *)
Definition w_empty_xy : G.library := wlib [top [G.EBoundary (G.mkBoundary 1 0 [] None None [])]].
Theorem C06_empty_xy_orig_refuted :
  S.malformed w_empty_xy /\ import_lib cfg_orig [] w_empty_xy = IPanic /\ import_lib cfg_without_emptyxy [] w_empty_xy = IPanic.
Proof. vm_compute. repeat split; reflexivity. Qed.
Theorem C06_empty_xy_repaired : import_lib cfg_fixed [] w_empty_xy = IErr EEmptyXY.
Proof. vm_compute. reflexivity. Qed.

(** (w6) SREF with MAG 2: imported as if MAG were 1 (the copy is half the size it should be). *)
Definition w_mag : G.library :=
  wlib [leaf; top [sref (1,1) (Some (G.mkStrans false false false (Some two_f) None))]].
Theorem C06_sref_mag_orig_refuted :
  S.malformed w_mag /\ inst_count (import_lib cfg_orig [] w_mag) = Some 1%nat /\
  inst_count (import_lib cfg_without_mag [] w_mag) = Some 1%nat.
Proof. vm_compute. repeat split; reflexivity. Qed.
Theorem C06_sref_mag_repaired : import_lib cfg_fixed [] w_mag = IErr EMag.
Proof. vm_compute. reflexivity. Qed.

(** (w7) PATH with WIDTH -4 (an absolute width of 4): `as usize` makes it 2^64 - 4. *)
Definition w_neg_width : G.library :=
  wlib [top [G.EPath (G.mkPath 1 0 (pts [(0,0); (10,0)]) (Some (-4)) None None None None None [])]].
Theorem C06_neg_width_orig_refuted :
  S.right_angle w_neg_width /\ S.malformedb w_neg_width = false /\
  verdict_of cfg_orig w_neg_width = 2 /\ verdict_of cfg_without_width w_neg_width = 2.
Proof. vm_compute. repeat split; reflexivity. Qed.
Theorem C06_neg_width_repaired : verdict_of cfg_fixed w_neg_width = 0.
Proof. vm_compute. reflexivity. Qed.

(** (w8) a TEXT on the layer of a PATH with a diagonal segment: `Path::contains` is
    `unimplemented!` there, the import panics. *)
Definition w_diag_label : G.library :=
  wlib [top [G.EPath (G.mkPath 1 0 (pts [(0,0); (10,10)]) (Some 4) None None None None None []);
             G.EText (G.mkText (unhex "41") 1 0 (G.mkPt 5 5) None None None None None None [])]].
Theorem C06_diag_label_orig_refuted :
  S.right_angle w_diag_label /\ S.malformedb w_diag_label = false /\
  import_lib cfg_orig [] w_diag_label = IPanic /\ import_lib cfg_without_pathdiag [] w_diag_label = IPanic.
Proof. vm_compute. repeat split; reflexivity. Qed.
Theorem C06_diag_label_repaired : verdict_of cfg_fixed w_diag_label = 0.
Proof. vm_compute. reflexivity. Qed.

(** Non-vacuity: a three-level hierarchy with a reflected and rotated SREF, a rotated AREF in GDSII
    convention, a labelled rectangle given clockwise from its upper-right corner, a path and a box
    is imported by the repaired importer, and every cell flattens to exactly [gds_flatten]. *)
Definition nm_mid : G.bytes := unhex "6d6964".
Definition w_hier : G.library :=
  wlib [top [G.ESref (G.mkSref nm_mid (G.mkPt 100 200) (Some (G.mkStrans true false false None (Some deg90))) None None []);
             G.EBox (G.mkBox 2 1 (pts [(0,0); (0,5); (7,5); (7,0); (0,0)]) None None [])];
        G.mkStruct nm_mid zdt
          [aref [(10,0); (10,20); (-20,0)] 2 3 (Some (G.mkStrans false false false None (Some deg90)));
           G.EPath (G.mkPath 3 0 (pts [(0,0); (10,0); (10,10)]) (Some 2) None None None None None [])];
        G.mkStruct nm_leaf zdt
          [G.EBoundary (G.mkBoundary 1 0 (pts [(3,2); (3,0); (0,0); (0,2); (3,2)]) None None []);
           G.EText (G.mkText (unhex "566464") 1 0 (G.mkPt 1 1) None None None None None None [])]].
Example C06_nonvacuous :
  S.right_angle w_hier /\ S.malformedb w_hier = false /\ verdict_of cfg_fixed w_hier = 0 /\
  (exists L, import_lib cfg_fixed [] w_hier = IOk L /\ List.length (lib_cells L) = 3%nat /\
             match raw_flatten L 2, S.gds_flatten w_hier nm_top with
             | T.Ok es, S.SOk fs => S.flat_equivb (lib_layers L) es fs = true /\ List.length es = 8%nat
             | _, _ => False
             end).
Proof.
  split; [vm_compute; reflexivity|]. split; [vm_compute; reflexivity|]. split; [vm_compute; reflexivity|].
  eexists. split; [vm_compute; reflexivity|]. vm_compute. repeat split; reflexivity.
Qed.

Print Assumptions C06_import_flatten.
Print Assumptions C06_import_flatten_gen.
Print Assumptions C06_malformed_never_ok.
Print Assumptions C06_no_panic.
Print Assumptions C06_error_cases.
Print Assumptions C06_error_or_library.
Print Assumptions C06_boundary.
Print Assumptions C06_box.
Print Assumptions C06_path.
Print Assumptions C06_rectangles_stay_rectangles.
Print Assumptions C06_sref_placement.
Print Assumptions C06_aref_lattice.
Print Assumptions C06_flatten_one_level.
Print Assumptions C06_label_test_sound_partial.
Print Assumptions C06_zero_dims_orig_refuted.
Print Assumptions C06_zero_dims_repaired.
Print Assumptions C06_capacity_orig_refuted.
Print Assumptions C06_capacity_repaired.
Print Assumptions C06_radians_orig_refuted.
Print Assumptions C06_radians_repaired.
Print Assumptions C06_lattice_dropped_orig_refuted.
Print Assumptions C06_lattice_rotated_orig_refuted.
Print Assumptions C06_lattice_repaired.
Print Assumptions C06_empty_xy_orig_refuted.
Print Assumptions C06_empty_xy_repaired.
Print Assumptions C06_sref_mag_orig_refuted.
Print Assumptions C06_sref_mag_repaired.
Print Assumptions C06_neg_width_orig_refuted.
Print Assumptions C06_neg_width_repaired.
Print Assumptions C06_diag_label_orig_refuted.
Print Assumptions C06_diag_label_repaired.

(** * (7) The nets clause: "a text label lying inside a shape on the same layer names that shape's net, all
    other labels survive as annotations" -- proofs in Raw/RawGdsNets_proofs.v.

    Vocabulary, all on the GDSII side (Raw/RawGdsNets_proofs.v):
    - [S.own_shapes s] / [S.own_texts s]: the BOUNDARY / BOX / PATH elements of the struct as (layer, datatype,
      geometry), in element order / its TEXT elements in element order;
    - [in_geom gm q] (decided by [in_geomb]): q lies in the closed region of the geometry gm --
        BOUNDARY / BOX: C13's non-zero-winding region [in_region_nz] of the vertex list (boundary included).  For a
          rectangle this is the closed box ([C06_region_rectangle]).  For a polygon whose signed crossing count at q
          is -1, 0 or 1 it is the even-odd region [in_region] of the property statement ([C06_region_evenodd]);
          simple polygons have that bound by the Jordan curve theorem, which is the step C13 leaves unproved
          (C13_simple_winding_bound_full) -- exactly as C13 states it;
        PATH: on an axis-parallel segment, the closed rectangle of half-width [w quot 2] around it (zero-length
          segments read as vertical) -- C13's [path_cover] ([C06_region_manhattan_path]); on any other segment (only
          the repaired `Path::contains` of work/c06/fix-8 gets that far: the code as found panics there, known
          finding label-on-nonmanhattan-path, and returns no library) the projection falls on the segment and
          4 cross^2 <= w^2 |b-a|^2;
    - [insideb t f]: the TEXT t lies inside the shape f: same layer NUMBER (datatype and texttype play no part)
      and [in_geomb (fs_geom f) (t_xy t)];
    - [net_of texts f]: the lower-cased string of the FIRST text, in element order, inside f; [None] if there is none;
    - [annots_of shapes texts]: the texts inside NO shape, in element order, each with its string verbatim and its
      location.

    (7a) The label test.  For all three shape kinds, whenever `Shape::contains` returns, its answer is membership
    of that region; hence it agrees with the three-valued oracle of the correspondence run.  ([0 <= w]: the width
    of a raw path is a `usize`.)  This completes [C06_label_test_sound_partial]. *)
Theorem C06_label_test_sound :
  forall c sh gm q b, fx_contains c = true -> shape_rel sh gm -> (forall pts w, sh = Path pts w -> 0 <= w) ->
  shape_contains c sh q = IOk b -> tri_agrees (S.label_in gm (S.rpt q)) b.
Proof. exact label_test_sound_all. Qed.
Theorem C06_label_test_region :
  forall c sh gm q b, fx_contains c = true -> shape_rel sh gm -> (forall pts w, sh = Path pts w -> 0 <= w) ->
  shape_contains c sh q = IOk b -> (b = true <-> in_geom gm (S.rpt q)).
Proof. exact label_test_region. Qed.
Theorem C06_region_rectangle :
  forall a b c d q, S.rect4 a b c d = true -> (in_geom (S.GPoly [a; b; c; d]) q <-> CS.in_box a c q).
Proof. exact rect4_region_nz. Qed.
Theorem C06_region_evenodd :
  forall P q, -1 <= CS.winding P q <= 1 -> (in_geom (S.GPoly P) q <-> CS.in_region P q).
Proof. intros P q H. symmetry. exact (CP.in_region_nz_iff P q H). Qed.
Theorem C06_region_manhattan_path :
  forall w ps q, Forall (fun e => CS.manhattan_seg (fst e) (snd e)) (CS.chain ps) ->
  (in_geom (S.GPath ps w) q <-> CP.path_cover (Z.quot w 2) ps q).
Proof. exact path_cover_gen_manhattan. Qed.

(** (7b) The clause itself.  Whenever the repaired importer returns a library (right angles: the hypothesis of
    (1)), every struct has a cell of its name whose layout has, in order, one element per own shape of the struct
    (on its layer / datatype, with its geometry: [elem_rel]); the net of the i-th element is [net_of] of the i-th
    shape; the annotations are [annots_of].  Nothing else: this is an equality, so it says which shapes get which
    name in EVERY case, ambiguous ones included:
    - a label inside several shapes of its layer number names ALL of them (not only the first);
    - of two labels inside one shape the FIRST in element order wins; the later one is consumed all the same -- it is
      neither a net nor an annotation ([C06_nets_ambiguous_example]: such a label is lost; DESIGN.md section 4 puts
      these layouts outside the property by the unambiguity hypothesis);
    - no size bound, any number of shapes, labels, layers. *)
Theorem C06_nets :
  forall g L, import_lib cfg_fixed [] g = IOk L -> S.right_angle g ->
  forall s, In s (G.l_structs g) ->
  exists k cell l shapes,
    nth_error (lib_cells L) k = Some cell /\ c_name cell = str_of_bytes (G.s_name s) /\ c_layout cell = Some l /\
    S.own_shapes s = S.SOk shapes /\
    Forall2 (elem_rel (lib_layers L)) (lay_elems l) shapes /\
    map e_net (lay_elems l) = map (net_of (S.own_texts s)) shapes /\
    lay_annots l = annots_of shapes (S.own_texts s).
Proof. exact nets_exact_fixed. Qed.

(** (7b') The same for every importer variant with the six repairs of (1') and `Polygon::contains` as repaired for
    C13, whichever `Path::contains` it has, for every caller-supplied layer table with the importer's own purposes,
    and for every struct whose own boundaries are closed and boxes rectangular ([S.own_shapes s <> S.SSilent];
    references may turn by any angle).  With `Path::contains` as found, a label on the layer number of a path with a
    non-axis-parallel segment makes the import panic (unless an earlier segment already holds the label): then there
    is no library and the statement is vacuous -- that is the known finding, not excluded by a hypothesis here. *)
Theorem C06_nets_gen :
  forall c ly0 g L, cfg_ok c -> fx_contains c = true -> ly_inv ly0 -> S.names_distinct g = true ->
  import_lib c ly0 g = IOk L ->
  forall s, In s (G.l_structs g) -> S.own_shapes s <> S.SSilent ->
  exists k cell l shapes,
    nth_error (lib_cells L) k = Some cell /\ c_name cell = str_of_bytes (G.s_name s) /\ c_layout cell = Some l /\
    S.own_shapes s = S.SOk shapes /\
    Forall2 (elem_rel (lib_layers L)) (lay_elems l) shapes /\
    map e_net (lay_elems l) = map (net_of (S.own_texts s)) shapes /\
    lay_annots l = annots_of shapes (S.own_texts s).
Proof. exact nets_exact_gen. Qed.

(** (7c) What [net_of] and [annots_of] say, clause by clause.
    (i) the net of a shape is the lower-cased string of the first label inside it; every shape that holds a label
    gets a net, the name of a label inside it; *)
Theorem C06_net_is_first_label :
  forall texts f n,
  net_of texts f = Some n <->
  exists t1 t t2, texts = t1 ++ t :: t2 /\ insideb t f = true /\ (forall t', In t' t1 -> insideb t' f = false) /\
                  n = label_name t.
Proof. exact net_of_some. Qed.
Theorem C06_labelled_shape_gets_net :
  forall texts f t, In t texts -> insideb t f = true ->
  exists t', In t' texts /\ insideb t' f = true /\ net_of texts f = Some (label_name t').
Proof. exact net_of_inside. Qed.
(** (iii) a shape without a label inside gets no net; *)
Theorem C06_unlabelled_shape_no_net :
  forall texts f, net_of texts f = None <-> forall t, In t texts -> insideb t f = false.
Proof. exact net_of_none. Qed.
(** [nets_agree] under the hypothesis of DESIGN.md section 4 (labels unambiguous; here only its second half is needed,
    and in the weaker form "the labels inside one shape agree on the lower-cased name"): the net of a shape is n
    exactly when a label named n lies inside it; *)
Theorem C06_nets_agree :
  forall texts f,
  (forall t1 t2, In t1 texts -> In t2 texts -> insideb t1 f = true -> insideb t2 f = true -> label_name t1 = label_name t2) ->
  forall n, net_of texts f = Some n <-> exists t, In t texts /\ insideb t f = true /\ label_name t = n.
Proof. exact net_of_agree. Qed.
(** (ii) the annotations are exactly the labels inside no shape (their ORDER is the element order: [annots_of] is
    a [filter] of the text list), string and location unchanged; *)
Theorem C06_annotations :
  forall shapes texts a,
  In a (annots_of shapes texts) <->
  exists t, In t texts /\ (forall f, In f shapes -> insideb t f = false) /\
            a = mktext (str_of_bytes (G.t_string t)) (import_point (G.t_xy t)).
Proof. exact annots_of_in. Qed.
(** no label is duplicated, and none is lost when labels are unambiguous: always
    #labels = #labels inside some shape + #annotations; when no label lies inside two shapes of its layer number and
    no shape holds two labels ([labels_unambiguous], by position), #labels = #shapes with a net + #annotations. *)
Theorem C06_label_count :
  forall shapes texts,
  List.length texts = (countb (fun t => existsb (insideb t) shapes) texts + List.length (annots_of shapes texts))%nat.
Proof. exact label_count. Qed.
Theorem C06_label_count_unambiguous :
  forall shapes texts, labels_unambiguous shapes texts ->
  List.length texts = (countb netted (map (net_of texts) shapes) + List.length (annots_of shapes texts))%nat.
Proof. exact label_count_unambiguous. Qed.

(** (7d) Closed examples.  One struct: two overlapping rectangles on layer 1 (datatypes 0 and 5), a path on layer 2, a
    box on layer 3, a triangle on layer 4; labels: "Vdd" inside both rectangles, "OUT" inside the first rectangle only
    (already named), "clk" within half the width of the path's second segment, "x" on a corner of the box, "far" outside
    everything, "z" on a layer without shapes, "Tri" (texttype 7) on an edge of the triangle. *)
Definition txt (s : string) (layer tt : Z) (xy : Z * Z) : G.element :=
  G.EText (G.mkText (S.bytes_of_string s) layer tt (G.mkPt (fst xy) (snd xy)) None None None None None None []).
Definition s_amb : G.gstruct :=
  top [G.EBoundary (G.mkBoundary 1 0 (pts [(0,0); (10,0); (10,10); (0,10); (0,0)]) None None []);
       txt "Vdd" 1 0 (7,7);
       G.EBoundary (G.mkBoundary 1 5 (pts [(5,5); (5,20); (20,20); (20,5); (5,5)]) None None []);
       txt "OUT" 1 0 (1,1);
       G.EPath (G.mkPath 2 0 (pts [(0,0); (10,0); (10,10)]) (Some 4) None None None None None []);
       txt "clk" 2 0 (12,3);
       G.EBox (G.mkBox 3 0 (pts [(0,0); (0,4); (4,4); (4,0); (0,0)]) None None []);
       txt "x" 3 0 (4,4); txt "far" 1 0 (100,100); txt "z" 9 0 (1,1);
       G.EBoundary (G.mkBoundary 4 0 (pts [(0,0); (6,0); (3,5); (0,0)]) None None []);
       txt "Tri" 4 7 (3,0)].
Definition nets_of_cell (r : ires library) (k : nat) : option (list (option string) * list (string * TS.pt)) :=
  match r with
  | IOk L => match nth_error (lib_cells L) k with
             | Some c => option_map (fun l => (map e_net (lay_elems l), map annot_pair (lay_annots l))) (c_layout c)
             | None => None
             end
  | _ => None
  end.
(** "Vdd" names BOTH rectangles; "OUT" is lost (7 labels, 5 nets from 4 labels, 2 annotations); boundary points count
    as inside; the model's output is what [net_of] / [annots_of] say, and the verdict of the checker is 0. *)
Example C06_nets_ambiguous_example :
  S.right_angle (wlib [s_amb]) /\
  nets_of_cell (import_lib cfg_fixed [] (wlib [s_amb])) 0 =
    Some ([Some "vdd"; Some "vdd"; Some "clk"; Some "x"; Some "tri"]%string,
          [("far"%string, (100, 100)); ("z"%string, (1, 1))]) /\
  (exists shapes, S.own_shapes s_amb = S.SOk shapes /\
     map (net_of (S.own_texts s_amb)) shapes = [Some "vdd"; Some "vdd"; Some "clk"; Some "x"; Some "tri"]%string /\
     map annot_pair (annots_of shapes (S.own_texts s_amb)) = [("far"%string, (100, 100)); ("z"%string, (1, 1))] /\
     labels_unambiguousb shapes (S.own_texts s_amb) = false) /\
  List.length (S.own_texts s_amb) = 7%nat /\
  verdict_of cfg_fixed (wlib [s_amb]) = 0.
Proof.
  split; [vm_compute; reflexivity|]. split; [vm_compute; reflexivity|].
  split; [eexists; split; [vm_compute; reflexivity|]; vm_compute; repeat split; reflexivity|].
  split; vm_compute; reflexivity.
Qed.

(** Non-vacuity of (7b)-(7c) with the unambiguity hypothesis: the same struct without the second rectangle and
    without "OUT" is unambiguous; 6 labels = 4 nets + 2 annotations. *)
Definition s_unamb : G.gstruct :=
  top [G.EBoundary (G.mkBoundary 1 0 (pts [(0,0); (10,0); (10,10); (0,10); (0,0)]) None None []);
       txt "Vdd" 1 0 (7,7);
       G.EPath (G.mkPath 2 0 (pts [(0,0); (10,0); (10,10)]) (Some 4) None None None None None []);
       txt "clk" 2 0 (12,3);
       G.EBox (G.mkBox 3 0 (pts [(0,0); (0,4); (4,4); (4,0); (0,0)]) None None []);
       txt "x" 3 0 (4,4); txt "far" 1 0 (100,100); txt "z" 9 0 (1,1);
       G.EBoundary (G.mkBoundary 4 0 (pts [(0,0); (6,0); (3,5); (0,0)]) None None []);
       txt "Tri" 4 7 (3,0)].
Example C06_nets_nonvacuous :
  S.right_angle (wlib [s_unamb]) /\ S.labels_ascii (wlib [s_unamb]) = true /\
  (exists L, import_lib cfg_fixed [] (wlib [s_unamb]) = IOk L) /\
  nets_of_cell (import_lib cfg_fixed [] (wlib [s_unamb])) 0 =
    Some ([Some "vdd"; Some "clk"; Some "x"; Some "tri"]%string, [("far"%string, (100, 100)); ("z"%string, (1, 1))]) /\
  (exists shapes, S.own_shapes s_unamb = S.SOk shapes /\ labels_unambiguous shapes (S.own_texts s_unamb) /\
     List.length (S.own_texts s_unamb) = 6%nat /\ countb netted (map (net_of (S.own_texts s_unamb)) shapes) = 4%nat /\
     List.length (annots_of shapes (S.own_texts s_unamb)) = 2%nat).
Proof.
  split; [vm_compute; reflexivity|]. split; [vm_compute; reflexivity|].
  split; [eexists; vm_compute; reflexivity|]. split; [vm_compute; reflexivity|].
  eexists. split; [vm_compute; reflexivity|]. split; [apply labels_unambiguousb_sound; vm_compute; reflexivity|].
  vm_compute. repeat split; reflexivity.
Qed.

Print Assumptions C06_nets_full.
Print Assumptions C06_label_test_sound.
Print Assumptions C06_label_test_region.
Print Assumptions C06_region_rectangle.
Print Assumptions C06_region_evenodd.
Print Assumptions C06_region_manhattan_path.
Print Assumptions C06_nets.
Print Assumptions C06_nets_gen.
Print Assumptions C06_net_is_first_label.
Print Assumptions C06_labelled_shape_gets_net.
Print Assumptions C06_unlabelled_shape_no_net.
Print Assumptions C06_nets_agree.
Print Assumptions C06_annotations.
Print Assumptions C06_label_count.
Print Assumptions C06_label_count_unambiguous.
