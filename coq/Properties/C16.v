(** C16 -- Importing LEF into the raw model keeps every coordinate in place.
    Property theorems only; proofs are in Raw/RawLef_proofs.v.

    Model: Raw/RawLef.v ([LefImporter], repaired variant unsuffixed, code as found [_orig] /
    [original]), decimals Raw/RawLefDec.v (rust_decimal operations by contract), data types and
    representability predicates Raw/RawLefTypes.v, specification Raw/RawLefSpec.v.

    A decimal [d] has the value [dec_num d / 10^(dscale d)].  [scaled_is d n] says
    value(d) * 10000 = n (10000 raw units -- Angstrom -- per micron), stated without fractions as
    [dec_num d * 10000 = n * 10^(dscale d)]; [integral_scaled d] that such an [n] exists.
    [dec_wf d]: [d] is a rust_decimal value (96-bit magnitude, scale <= 28). *)
From Coq Require Import ZArith Bool List String Lia.
From L21 Require Import Base.Outcome Raw.RawLefDec Raw.RawLefTypes Raw.RawLef Raw.RawLefSpec Raw.RawLef_proofs.
Import ListNotations.
Local Open Scope Z_scope.

(** (1) [import_dist] is exact, over ALL representable decimals (no range restriction):
    it returns [Ok n] exactly when value(d)*10000 is the integer [n] and [n] fits the 64-bit
    coordinate type; it returns the "non-zero fractional part" error exactly when value(d)*10000
    is not an integer (never a rounded value); and when the scaled value is an integer that does
    not fit, the outcome is the conversion error, or -- for |n| >= 2^96, i.e. numbers of 25 and
    more digits -- rust_decimal's "Multiplication overflowed" panic.  No other outcome exists. *)
Theorem C16_dist_exact :
  forall d, dec_wf d ->
    (forall n, import_dist d = Ok n <-> scaled_is d n /\ in_isize n = true) /\
    (import_dist d = Err EFract <-> ~ integral_scaled d) /\
    (forall n, scaled_is d n -> in_isize n = false ->
       import_dist d = if Z.abs n <? two96 then Err ERange else Panic).
Proof. exact dist_exact. Qed.

(** (2) The result does not depend on how many decimals the number was written with:
    two representations of the same number ("1.5", "1.50", "1.5000000") import identically,
    including the failing outcomes. *)
Theorem C16_dist_scale_independent :
  forall d d', dec_wf d -> dec_wf d' -> dec_eq d d' -> import_dist d = import_dist d'.
Proof. exact dist_scale_independent. Qed.

(** (3) Points: x from x, y from y, each scaled exactly. *)
Theorem C16_point :
  forall p X Y, lpoint_wf p -> import_point p = Ok (X, Y) ->
    scaled_is (lpx p) X /\ scaled_is (lpy p) Y.
Proof. exact point_exact. Qed.

(** (4) Macros.  [spec_abstract L' m a] (Raw/RawLefSpec.v) says: [a] has the macro's name; its
    outline is [(0,0); (W,0); (W,H); (0,H)] with W, H the exactly scaled SIZE; there is one port
    per pin, in order, carrying the pin's name; and for each port (and for the blockages) the
    per-layer shape map realises the LEF layer statements ([shapes_match]): for every layer name
    used, the name is registered in the layer table [L'], the registered key denotes a layer of
    that name, and the shapes under that key are exactly the images of the rectangles, polygons
    and paths written under that name -- all ports of the pin merged -- in order, one shape per
    geometry, every coordinate (and path width) exactly scaled; and the map has no other key. *)
Theorem C16_macro_shapes :
  forall m L a L', lmacro_wf m -> layers_wf L -> import_abstract m L = Ok (a, L') ->
    layers_wf L' /\ layers_le L L' /\ spec_abstract L' m a.
Proof. exact import_abstract_spec. Qed.

(** "one shape per geometry, in order": what [spec_shapes_named nm lgs = Some sh] in
    [shapes_match] means, element by element. *)
Theorem C16_one_shape_per_geometry :
  forall nm lgs sh, spec_shapes_named nm lgs = Some sh ->
    Forall2 (fun wg s => spec_geom (fst wg) (snd wg) = Some s) (geoms_named nm lgs) sh.
Proof. exact shapes_one_per_geometry. Qed.

(** (5) Libraries: one abstract per macro, in order, each the image of its macro with respect
    to the final layer table (whether the caller passed a layer table or not). *)
Theorem C16_library :
  forall lib L0 cells L', Forall lmacro_wf (lib_macros lib) -> layers0_wf L0 ->
    import lib L0 = Ok (cells, L') ->
    layers_wf L' /\ Forall2 (spec_abstract L') (lib_macros lib) cells.
Proof. exact import_spec. Qed.

(** (6) A coordinate that is not a whole number of raw units makes the import fail (it is
    never rounded): any x, y or path width of any geometry of any pin or obstruction, and the
    SIZE.  (The failure is an [Err]; by (1) a panic needs an integral scaled value.) *)
Theorem C16_offgrid_rejected :
  forall m L lg g d, lmacro_wf m -> layers_wf L ->
    In lg (macro_lgs m) -> In g (lg_geoms lg) -> In d (geom_coords (lg_width lg) g) ->
    ~ integral_scaled d ->
    forall a L', import_abstract m L <> Ok (a, L').
Proof. exact offgrid_rejected. Qed.

Theorem C16_offgrid_size_rejected :
  forall m L w h, lmacro_wf m -> layers_wf L -> m_size m = Some (w, h) ->
    ~ integral_scaled w \/ ~ integral_scaled h ->
    forall a L', import_abstract m L <> Ok (a, L').
Proof. exact offgrid_size_rejected. Qed.

(** (7) The oracle the correspondence run evaluates on the implementation's output implies
    the specification used above. *)
Theorem C16_checker_sound :
  forall L m a, spec_abstractb L m a = true -> spec_abstract L m a.
Proof. exact spec_abstractb_sound. Qed.

(** (8) The code as found violates (1), (2), (3) and (4):
    "1.50" is imported as 1 500 000 instead of 15 000 ([scaled.mantissa()] ignores the scale);
    "1.5" and "1.50" import differently; the point (3, 2) becomes (30000, 30000) ([pt.x] read
    twice); SIZE 1.50 BY 2 gives the outline 1 500 000 x 1 500 000 instead of 15 000 x 20 000. *)
Theorem C16_orig_refuted :
  (exists d n, dec_wf d /\ import_dist_orig d = Ok n /\ ~ scaled_is d n) /\
  (exists d d', dec_wf d /\ dec_wf d' /\ dec_eq d d' /\ import_dist_orig d <> import_dist_orig d') /\
  (exists p X Y, lpoint_wf p /\ import_point_orig p = Ok (X, Y) /\ ~ scaled_is (lpy p) Y) /\
  (exists a L', import_abstract_gen original m_size_only layers_empty = Ok (a, L') /\
                a_outline a = outline_of 1500000 1500000 /\
                import_abstract m_size_only layers_empty =
                  Ok (mkabstract "m" (outline_of 15000 20000) [] [],
                      mklayers [mklayer 0 (Some "boundary"%string)] [(0, 0%nat)] [("boundary"%string, 0%nat)])).
Proof.
  exact (conj orig_dist_refuted (conj orig_dist_scale_dependent (conj orig_point_refuted orig_macro_refuted))).
Qed.

(** Non-vacuity: a representable macro with two pins (one with two ports that share a layer),
    an obstruction, a rectangle, a polygon and a path with width, decimals with trailing zeros
    and a negative value; the import succeeds, the hypotheses of (4) hold and the result is the
    expected abstract.  An off-grid SIZE is an error, a 29-digit one panics. *)
Definition ex_d (neg : bool) (m : Z) (s : nat) : dec := mkdec neg m s.
Definition ex_p (x y : dec) : lpoint := mklpoint x y.
Definition ex_lg1 : llayergeoms :=
  mkllg "met1" [LShape (LRect (ex_p (ex_d false 150 2) (ex_d false 2 0)) (ex_p (ex_d false 3000 3) (ex_d true 5 1)))]
        0 false None None.
Definition ex_lg2 : llayergeoms :=
  mkllg "met2" [LShape (LPath [ex_p (ex_d false 0 0) (ex_d false 1 0); ex_p (ex_d false 25 2) (ex_d false 1 0)]);
                LShape (LPolygon [ex_p (ex_d false 0 0) (ex_d false 0 2); ex_p (ex_d false 1 0) (ex_d false 0 0);
                                  ex_p (ex_d false 1 0) (ex_d false 10 1)])]
        0 false None (Some (ex_d false 140 3)).
Definition ex_macro : lmacro :=
  mklmacro "inv" (Some (ex_d false 150 2, ex_d false 2 0))
           [mklpin "A" [[ex_lg1]; [ex_lg2; ex_lg1]]; mklpin "Y" [[ex_lg2]]]
           [ex_lg1].
Definition ex_rect : shape := SRect (15000, 20000) (30000, -5000).
Definition ex_path : shape := SPath 1400 [(0, 10000); (2500, 10000)].
Definition ex_poly : shape := SPolygon [(0, 0); (10000, 0); (10000, 10000)].

Example C16_nonvacuous :
  import_abstract ex_macro layers_empty =
    Ok (mkabstract "inv" [(0, 0); (15000, 0); (15000, 20000); (0, 20000)]
          [mkaport "A" [(1%nat, [ex_rect; ex_rect]); (2%nat, [ex_path; ex_poly])];
           mkaport "Y" [(2%nat, [ex_path; ex_poly])]]
          [(1%nat, [ex_rect])],
        mklayers [mklayer 0 (Some "boundary"%string); mklayer 1 (Some "met1"%string); mklayer 2 (Some "met2"%string)]
                 [(0, 0%nat); (1, 1%nat); (2, 2%nat)]
                 [("boundary"%string, 0%nat); ("met1"%string, 1%nat); ("met2"%string, 2%nat)]) /\
  dec_wfb (ex_d false 150 2) = true /\
  import_dist (ex_d false 150 2) = Ok 15000 /\ import_dist (ex_d false 15 1) = Ok 15000 /\
  import_dist (ex_d true 12345 5) = Err EFract /\
  import_dist (ex_d false 79228162514264337593543950335 0) = Panic /\
  import_dist (ex_d false 922337203685477580800000 4) = Err ERange /\
  import_abstract (mklmacro "m" (Some (ex_d false 12345 5, ex_d false 1 0)) [] []) layers_empty = Err EFract.
Proof. vm_compute. repeat split; reflexivity. Qed.

Example C16_nonvacuous_wf : lmacro_wf ex_macro /\ layers_wf layers_empty.
Proof.
  split; [|exact layers_empty_wf].
  assert (Hd : forall n m s, 0 <= m < two96 -> (s <= 28)%nat -> dec_wf (ex_d n m s)) by (intros; split; assumption).
  assert (H96 : two96 = 79228162514264337593543950336) by reflexivity.
  unfold lmacro_wf, lpin_wf, llg_wf, ex_macro. cbn.
  repeat match goal with
         | |- _ /\ _ => split
         | |- Forall _ _ => constructor
         | |- forall _, _ => intros
         | H : Some _ = Some _ |- _ => injection H as <-
         | H : (_, _) = (_, _) |- _ => injection H as <- <-
         | H : None = Some _ |- _ => discriminate H
         | H : lg_width _ = Some _ |- _ => cbn in H
         | H : _ = ?x |- dec_wf ?x => rewrite <- H
         | |- dec_wf _ => apply Hd; [rewrite H96; lia|lia]
         | |- lgeom_wf _ => cbn
         | |- lpoint_wf _ => split
         end.
Qed.

Print Assumptions C16_dist_exact.
Print Assumptions C16_dist_scale_independent.
Print Assumptions C16_point.
Print Assumptions C16_macro_shapes.
Print Assumptions C16_one_shape_per_geometry.
Print Assumptions C16_library.
Print Assumptions C16_offgrid_rejected.
Print Assumptions C16_offgrid_size_rejected.
Print Assumptions C16_checker_sound.
Print Assumptions C16_orig_refuted.
