(** C10 -- The GDSII reader never crashes or hangs on any input bytes.
    Property theorems only; proofs are in Gds/GdsSafety_proofs.v (reader safety) and
    Gds/GdsImage_proofs.v (what the reader can return); the write-then-read round trip used by (4)
    is Gds/GdsRoundtrip_proofs.v (shared with C01).
    Model: Gds/GdsRead.v ([read_lib_fuel fixed fuel bs]; [fixed = true] is the code after the repair
    of read_str, commit a280dfb; [read_lib] / [read_lib_orig] run it with [read_fuel bs] =
    length bs / 4 + 3 units of fuel). Every slice, index and `unwrap` of the Rust code is an explicit
    [Panic] in the model, every loop takes fuel and answers [OutOfFuel] when it runs out, so the
    first two theorems are real statements. They hold for EVERY list of integers, byte-valued or not,
    of any length. Time and machine stack of the implementation are measured by the harness, not
    proved (DESIGN.md section 4): the model-level statement is the bound on fuel. *)
From Coq Require Import ZArith Bool List.
From L21 Require Import Base.Outcome Base.Hex Gds.GdsData Gds.GdsRecord Gds.GdsWrite Gds.GdsRead Gds.GdsSpec
     Gds.GdsRtDefs Gds.GdsRoundtrip_proofs Gds.GdsSafety_proofs Gds.GdsImage_proofs.
Import ListNotations.
Local Open Scope Z_scope.

(** (1) No panic: no out-of-range index, no failed `unwrap`/`try_into`, no arithmetic underflow is
    reachable, whatever the bytes and whatever the fuel. *)
Theorem C10_no_panic : forall bs f, read_lib_fuel true f bs <> Panic.
Proof. exact read_no_panic. Qed.

(** (2) Termination within a bound linear in the input: [read_fuel bs] = length bs / 4 + 3 loop
    iterations (nesting included) always suffice; more generally any fuel above length bs / 4.
    Every iteration of every parser loop either returns or reads one record, and a record takes at
    least its four header bytes. *)
Theorem C10_terminates_linear : forall bs, read_lib_fuel true (read_fuel bs) bs <> OutOfFuel.
Proof. exact read_terminates. Qed.

Theorem C10_fuel_bound : forall bs f, (length bs < 4 * f)%nat -> read_lib_fuel true f bs <> OutOfFuel.
Proof. exact read_enough_fuel. Qed.

(** The fuel is immaterial beyond that bound: every fuel above length bs / 4 gives the answer of
    [read_lib], and more fuel never changes an answer once there is one. So [read_lib] is the
    function the code computes, and no run of it nests more than length bs / 4 + 3 loop iterations. *)
Theorem C10_fuel_irrelevant : forall bs f, (length bs < 4 * f)%nat -> read_lib_fuel true f bs = read_lib bs.
Proof. exact read_fuel_irrelevant. Qed.

Theorem C10_fuel_monotone :
  forall f f' bs, (f <= f')%nat -> read_lib_fuel true f bs <> OutOfFuel -> read_lib_fuel true f' bs = read_lib_fuel true f bs.
Proof. exact read_lib_fuel_mono. Qed.

(** hence: reading returns a library or an error *)
Theorem C10_read_total : forall bs, (exists l, read_lib bs = Ok l) \/ (exists e, read_lib bs = Err e).
Proof. exact read_total. Qed.

(** (3) A stream is accepted only if some prefix of it consists of complete records -- length
    field even and >= 4, payload present -- none of which is ENDLIB except the last, in the words of
    the reference splitter of GdsSpec.v (written from the format, not from the code). *)
Theorem C10_truncation_rejected :
  forall bs l, read_lib bs = Ok l ->
    exists n rs, (n <= length bs)%nat /\ split_stream (firstn n bs) = Some (rs, []) /\
                 rs <> [] /\ fst (fst (last rs (0, 0, []))) = 0x04.
Proof.
  intros bs l H. destruct (read_ok_complete_prefix bs l H) as (n & rs & Hn & _ & Hs & Hne & Hl).
  exists n, rs. auto.
Qed.

Theorem C10_incomplete_rejected :
  forall bs, complete_to_endlib bs = false -> forall l, read_lib bs <> Ok l.
Proof. exact read_incomplete_rejected. Qed.

(** Corollary for prefixes: when the first [n] bytes of [bs] are complete records ending with the
    first ENDLIB, every shorter prefix of [bs] -- every truncation before the end of the ENDLIB
    record -- is rejected (with an error, by (1) and (2)). *)
Theorem C10_proper_prefix_rejected :
  forall bs n rs k, (n <= length bs)%nat -> split_stream (firstn n bs) = Some (rs, []) -> (k < n)%nat ->
    forall l, read_lib (firstn k bs) <> Ok l.
Proof. exact read_proper_prefix_rejected. Qed.


(** (4) Re-read: every library the reader returns for a byte string can be written again and read back
    to the same value (Rust `==`: doubles by value, so -0.0 = 0.0), EXCEPT libraries holding a real
    equal to +-2^252 = 16^63 ([KnownClass_C10]; the words with exponent byte 127 and mantissa
    >= 2^56 - 4 decode to it by rounding, and no GDSII real represents it: known-finding class
    gds-real-rounds-to-16^63, theorem C15_decode_reencode_max_refuted).
    [bytes_ok bs]: the entries of [bs] are bytes (0..255); the model's [bytes] is [list Z]. *)
Theorem C10_known_class_def :
  forall l, KnownClass_C10 l <->
    exists x, In x (lib_reals l) /\ (x = 5742089524897382400 \/ x = 5742089524897382400 + 9223372036854775808).
Proof. exact known_class_c10_spec. Qed.

Theorem C10_reread :
  forall bs l, bytes_ok bs -> read_lib bs = Ok l -> ~ KnownClass_C10 l ->
    exists bs' l', write_lib l = Ok bs' /\ read_lib bs' = Ok l' /\ lib_rust_eqb l l' = true.
Proof.
  intros bs l Hb Hr Hk.
  destruct (read_image bs l Hb Hr) as (Hs & Hk1 & _ & (bs' & Hw) & Hrt).
  destruct (GdsRt_roundtrip_rt l bs' Hs (Hrt Hk) Hk1 Hw) as (l' & Hr' & He).
  exists bs', l'. auto.
Qed.

(** more precisely: the library read back is the one returned with every real passed through the
    codec ([lib_readback]), which leaves every real as it is except that -0.0 becomes +0.0 *)
Theorem C10_reread_exact :
  forall bs l, bytes_ok bs -> read_lib bs = Ok l ->
    exists bs', write_lib l = Ok bs' /\ read_lib bs' = Ok (lib_readback l).
Proof.
  intros bs l Hb Hr.
  destruct (read_image bs l Hb Hr) as (Hs & Hk1 & _ & (bs' & Hw) & _).
  exists bs'. split; [exact Hw|]. apply GdsRt_roundtrip_core; assumption.
Qed.

(** The reader side of it (reader-image invariant): what the reader returns has the invariants of the
    Rust types ([lib_shape_ok]: integer ranges, byte-valued UTF-8 strings, three / five points in
    AREF / BOX), no string of even length with a trailing NUL (so it is outside the known class of
    C01), every record of it fits the 16-bit length field, hence [write_lib] succeeds; and outside
    [KnownClass_C10] every real-valued field survives encode-then-decode as a value ([real_rt],
    through C15_decode_reencode_stable). *)
Theorem C10_reader_image :
  forall bs l, bytes_ok bs -> read_lib bs = Ok l ->
    lib_shape_ok l /\ ~ KnownClass_C01 l /\ lib_fitsb l = true /\
    (exists bs', write_lib l = Ok bs') /\
    (~ KnownClass_C10 l -> forall x, In x (lib_reals l) -> real_rt x).
Proof. exact read_image. Qed.

(** The excluded class is really excluded: UNITS carrying the word 0x7FFFFFFFFFFFFFFF is read as
    2^252, written as 0x7F00000000000000 and read back as 0. *)
Definition c10_max_real_stream : bytes :=
  [0; 6; 0; 2; 0; 3; 0; 28; 1; 2; 0; 0; 0; 0; 0; 0; 0; 0; 0; 0; 0; 0; 0; 0; 0; 0; 0; 0; 0; 0; 0; 0; 0; 0; 0; 6; 2; 6; 97; 98; 0; 20; 3; 5; 127; 255; 255; 255; 255; 255; 255; 255; 57; 68; 184; 47; 160; 155; 90; 84; 0; 4; 4; 0].

Theorem C10_reread_known_class_refuted :
  exists bs l, bytes_ok bs /\ read_lib bs = Ok l /\ KnownClass_C10 l /\
    exists bs' l', write_lib l = Ok bs' /\ read_lib bs' = Ok l' /\ lib_rust_eqb l l' = false.
Proof.
  exists c10_max_real_stream. eexists. split.
  { apply bytes_okb_ok. vm_compute. reflexivity. }
  split; [vm_compute; reflexivity|]. split; [vm_compute; reflexivity|].
  eexists. eexists. split; [vm_compute; reflexivity|]. split; vm_compute; reflexivity.
Qed.

(** The code as found (before commit a280dfb) violated (1): a library whose name is the empty
    string -- LIBNAME with a zero-length payload -- made `data[len - 1]` underflow in read_str.
    The repaired reader accepts the same stream. *)
Definition c10_empty_name_stream : bytes :=
  [0; 6; 0; 2; 0; 3; 0; 28; 1; 2; 0; 0; 0; 0; 0; 0; 0; 0; 0; 0; 0; 0; 0; 0; 0; 0; 0; 0; 0; 0; 0; 0; 0; 0; 0; 4; 2; 6; 0; 20; 3; 5; 62; 65; 137; 55; 75; 198; 167; 240; 57; 68; 184; 47; 160; 155; 90; 84; 0; 4; 4; 0].

Theorem C10_orig_refuted :
  exists bs, read_lib_orig bs = Panic /\ exists l, read_lib bs = Ok l /\ l_name l = [].
Proof. exists c10_empty_name_stream. vm_compute. split; [reflexivity|]. eexists. split; reflexivity. Qed.

(** Non-vacuity: a stream with a structure holding a boundary (with a property) and a text (with
    STRANS and MAG), followed by three bytes of tape padding, is accepted; its records end at byte
    214; cut one byte earlier it is rejected. *)
Definition c10_sample_stream : bytes :=
  [0; 6; 0; 2; 0; 3; 0; 28; 1; 2; 1; 2; 3; 4; 5; 6; 7; 8; 9; 10; 11; 12; 13; 14; 15; 16; 17; 18; 19; 20; 21; 22; 23; 24; 0; 8; 2; 6; 108; 105; 98; 0; 0; 20; 3; 5; 62; 65; 137; 55; 75; 198; 167; 240; 57; 68; 184; 47; 160; 155; 90; 84; 0; 28; 5; 2; 0; 0; 0; 0; 0; 0; 0; 0; 0; 0; 0; 0; 0; 0; 0; 0; 0; 0; 0; 0; 0; 0; 0; 0; 0; 8; 6; 6; 99; 101; 108; 108; 0; 4; 8; 0; 0; 6; 13; 2; 0; 1; 0; 6; 14; 2; 0; 2; 0; 20; 16; 3; 0; 0; 0; 1; 0; 0; 0; 2; 0; 0; 0; 3; 0; 0; 0; 4; 0; 6; 43; 2; 0; 7; 0; 6; 44; 6; 112; 118; 0; 4; 17; 0; 0; 4; 12; 0; 0; 6; 13; 2; 0; 1; 0; 6; 22; 2; 0; 2; 0; 6; 26; 1; 128; 6; 0; 12; 27; 5; 65; 32; 0; 0; 0; 0; 0; 0; 0; 12; 16; 3; 0; 0; 0; 0; 0; 0; 0; 0; 0; 6; 25; 6; 116; 120; 0; 4; 17; 0; 0; 4; 7; 0; 0; 4; 4; 0; 0; 0; 0].

Example C10_nonvacuous :
  (exists l, read_lib c10_sample_stream = Ok l /\
             map (fun s => length (s_elems s)) (l_structs l) = [2%nat]) /\
  (exists rs, split_stream (firstn 214 c10_sample_stream) = Some (rs, []) /\ length rs = 23%nat) /\
  length c10_sample_stream = 217%nat /\
  read_lib (firstn 213 c10_sample_stream) = Err EBoxed.
Proof.
  vm_compute. split; [eexists; split; reflexivity|]. split; [eexists; split; reflexivity|]. split; reflexivity.
Qed.

(** ... and it meets the hypotheses of (4): byte-valued, outside the known class, and it does re-read
    to an equal library. *)
Example C10_reread_nonvacuous :
  forallb byte_okb c10_sample_stream = true /\
  exists l bs' l', read_lib c10_sample_stream = Ok l /\ known_class_c10b l = false /\
    write_lib l = Ok bs' /\ read_lib bs' = Ok l' /\ lib_rust_eqb l l' = true /\ length (lib_reals l) = 3%nat.
Proof.
  split; [vm_compute; reflexivity|]. eexists. eexists. eexists.
  split; [vm_compute; reflexivity|]. split; [vm_compute; reflexivity|].
  split; [vm_compute; reflexivity|]. split; [vm_compute; reflexivity|]. split; vm_compute; reflexivity.
Qed.

(** statements pinned: a change of a statement above breaks the build *)
Check C10_no_panic : forall bs f, read_lib_fuel true f bs <> Panic.
Check C10_terminates_linear : forall bs, read_lib_fuel true (read_fuel bs) bs <> OutOfFuel.
Check C10_fuel_bound : forall bs f, (length bs < 4 * f)%nat -> read_lib_fuel true f bs <> OutOfFuel.
Check C10_fuel_irrelevant : forall bs f, (length bs < 4 * f)%nat -> read_lib_fuel true f bs = read_lib bs.
Check C10_truncation_rejected :
  forall bs l, read_lib bs = Ok l ->
    exists n rs, (n <= length bs)%nat /\ split_stream (firstn n bs) = Some (rs, []) /\
                 rs <> [] /\ fst (fst (last rs (0, 0, []))) = 0x04.
Check C10_incomplete_rejected : forall bs, complete_to_endlib bs = false -> forall l, read_lib bs <> Ok l.
Check C10_proper_prefix_rejected :
  forall bs n rs k, (n <= length bs)%nat -> split_stream (firstn n bs) = Some (rs, []) -> (k < n)%nat ->
    forall l, read_lib (firstn k bs) <> Ok l.
Check C10_reread :
  forall bs l, bytes_ok bs -> read_lib bs = Ok l -> ~ KnownClass_C10 l ->
    exists bs' l', write_lib l = Ok bs' /\ read_lib bs' = Ok l' /\ lib_rust_eqb l l' = true.
Check C10_reread_exact :
  forall bs l, bytes_ok bs -> read_lib bs = Ok l ->
    exists bs', write_lib l = Ok bs' /\ read_lib bs' = Ok (lib_readback l).
Check C10_orig_refuted : exists bs, read_lib_orig bs = Panic /\ exists l, read_lib bs = Ok l /\ l_name l = [].

Print Assumptions C10_no_panic.
Print Assumptions C10_terminates_linear.
Print Assumptions C10_fuel_bound.
Print Assumptions C10_fuel_irrelevant.
Print Assumptions C10_fuel_monotone.
Print Assumptions C10_read_total.
Print Assumptions C10_truncation_rejected.
Print Assumptions C10_incomplete_rejected.
Print Assumptions C10_proper_prefix_rejected.
Print Assumptions C10_known_class_def.
Print Assumptions C10_reread.
Print Assumptions C10_reread_exact.
Print Assumptions C10_reader_image.
Print Assumptions C10_reread_known_class_refuted.
Print Assumptions C10_orig_refuted.
