(** C10 -- The GDSII reader never crashes or hangs on any input bytes.
    Property theorems only; proofs are in Gds/GdsSafety_proofs.v (reader safety) and
    Gds/GdsImage_proofs.v (what the reader can return).
    Model: Gds/GdsRead.v ([read_lib_fuel fixed fuel bs]; [fixed = true] is the code after the repair
    of read_str, commit a280dfb; [read_lib] / [read_lib_orig] run it with [read_fuel bs] =
    length bs / 4 + 3 units of fuel). Every slice, index and `unwrap` of the Rust code is an explicit
    [Panic] in the model, every loop takes fuel and answers [OutOfFuel] when it runs out, so the
    first two theorems are real statements. They hold for EVERY list of integers, byte-valued or not,
    of any length. Time and machine stack of the implementation are measured by the harness, not
    proved (DESIGN.md section 4): the model-level statement is the bound on fuel. *)
From Coq Require Import ZArith Bool List.
From L21 Require Import Base.Outcome Base.Hex Gds.GdsData Gds.GdsRecord Gds.GdsWrite Gds.GdsRead Gds.GdsSpec
     Gds.GdsSafety_proofs.
Import ListNotations.
Local Open Scope Z_scope.

(** (1) No panic: no out-of-range index, no failed `unwrap`/`try_into`, no arithmetic underflow is
    reachable, whatever the bytes and whatever the fuel. *)
Theorem C10_no_panic : forall bs f, read_lib_fuel true f bs <> Panic.
Proof. exact read_no_panic. Qed.

(** (2) Termination within a bound linear in the input: [read_fuel bs] = length bs / 4 + 3 loop
    iterations (nesting included) always suffice; more generally any fuel above length bs / 4.
    Every iteration of every parser loop either returns or reads one record, and a record takes at
    least its four header bytes. *)
Theorem C10_terminates_linear : forall bs, read_lib_fuel true (read_fuel bs) bs <> OutOfFuel.
Proof. exact read_terminates. Qed.

Theorem C10_fuel_bound : forall bs f, (length bs < 4 * f)%nat -> read_lib_fuel true f bs <> OutOfFuel.
Proof. exact read_enough_fuel. Qed.

(** hence: reading returns a library or an error *)
Theorem C10_read_total : forall bs, (exists l, read_lib bs = Ok l) \/ (exists e, read_lib bs = Err e).
Proof. exact read_total. Qed.

(** (3) A stream is accepted only if some prefix of it consists of complete records -- length
    field even and >= 4, payload present -- none of which is ENDLIB except the last, in the words of
    the reference splitter of GdsSpec.v (written from the format, not from the code). *)
Theorem C10_truncation_rejected :
  forall bs l, read_lib bs = Ok l ->
    exists n rs, (n <= length bs)%nat /\ split_stream (firstn n bs) = Some (rs, []) /\
                 rs <> [] /\ fst (fst (last rs (0, 0, []))) = 0x04.
Proof.
  intros bs l H. destruct (read_ok_complete_prefix bs l H) as (n & rs & Hn & _ & Hs & Hne & Hl).
  exists n, rs. auto.
Qed.

Theorem C10_incomplete_rejected :
  forall bs, complete_to_endlib bs = false -> forall l, read_lib bs <> Ok l.
Proof. exact read_incomplete_rejected. Qed.

(** Corollary for prefixes: when the first [n] bytes of [bs] are complete records ending with the
    first ENDLIB, every shorter prefix of [bs] -- every truncation before the end of the ENDLIB
    record -- is rejected (with an error, by (1) and (2)). *)
Theorem C10_proper_prefix_rejected :
  forall bs n rs k, (n <= length bs)%nat -> split_stream (firstn n bs) = Some (rs, []) -> (k < n)%nat ->
    forall l, read_lib (firstn k bs) <> Ok l.
Proof. exact read_proper_prefix_rejected. Qed.

(** The code as found (before commit a280dfb) violated (1): a library whose name is the empty
    string -- LIBNAME with a zero-length payload -- made `data[len - 1]` underflow in read_str.
    The repaired reader accepts the same stream. *)
Definition c10_empty_name_stream : bytes :=
  [0; 6; 0; 2; 0; 3; 0; 28; 1; 2; 0; 0; 0; 0; 0; 0; 0; 0; 0; 0; 0; 0; 0; 0; 0; 0; 0; 0; 0; 0; 0; 0; 0; 0; 0; 4; 2; 6; 0; 20; 3; 5; 62; 65; 137; 55; 75; 198; 167; 240; 57; 68; 184; 47; 160; 155; 90; 84; 0; 4; 4; 0].

Theorem C10_orig_refuted :
  exists bs, read_lib_orig bs = Panic /\ exists l, read_lib bs = Ok l /\ l_name l = [].
Proof. exists c10_empty_name_stream. vm_compute. split; [reflexivity|]. eexists. split; reflexivity. Qed.

(** Non-vacuity: a stream with a structure holding a boundary (with a property) and a text (with
    STRANS and MAG), followed by three bytes of tape padding, is accepted; its records end at byte
    214; cut one byte earlier it is rejected. *)
Definition c10_sample_stream : bytes :=
  [0; 6; 0; 2; 0; 3; 0; 28; 1; 2; 1; 2; 3; 4; 5; 6; 7; 8; 9; 10; 11; 12; 13; 14; 15; 16; 17; 18; 19; 20; 21; 22; 23; 24; 0; 8; 2; 6; 108; 105; 98; 0; 0; 20; 3; 5; 62; 65; 137; 55; 75; 198; 167; 240; 57; 68; 184; 47; 160; 155; 90; 84; 0; 28; 5; 2; 0; 0; 0; 0; 0; 0; 0; 0; 0; 0; 0; 0; 0; 0; 0; 0; 0; 0; 0; 0; 0; 0; 0; 0; 0; 8; 6; 6; 99; 101; 108; 108; 0; 4; 8; 0; 0; 6; 13; 2; 0; 1; 0; 6; 14; 2; 0; 2; 0; 20; 16; 3; 0; 0; 0; 1; 0; 0; 0; 2; 0; 0; 0; 3; 0; 0; 0; 4; 0; 6; 43; 2; 0; 7; 0; 6; 44; 6; 112; 118; 0; 4; 17; 0; 0; 4; 12; 0; 0; 6; 13; 2; 0; 1; 0; 6; 22; 2; 0; 2; 0; 6; 26; 1; 128; 6; 0; 12; 27; 5; 65; 32; 0; 0; 0; 0; 0; 0; 0; 12; 16; 3; 0; 0; 0; 0; 0; 0; 0; 0; 0; 6; 25; 6; 116; 120; 0; 4; 17; 0; 0; 4; 7; 0; 0; 4; 4; 0; 0; 0; 0].

Example C10_nonvacuous :
  (exists l, read_lib c10_sample_stream = Ok l /\
             map (fun s => length (s_elems s)) (l_structs l) = [2%nat]) /\
  (exists rs, split_stream (firstn 214 c10_sample_stream) = Some (rs, []) /\ length rs = 23%nat) /\
  length c10_sample_stream = 217%nat /\
  read_lib (firstn 213 c10_sample_stream) = Err EBoxed.
Proof.
  vm_compute. split; [eexists; split; reflexivity|]. split; [eexists; split; reflexivity|]. split; reflexivity.
Qed.

(** statements pinned: a change of a statement above breaks the build *)
Check C10_no_panic : forall bs f, read_lib_fuel true f bs <> Panic.
Check C10_terminates_linear : forall bs, read_lib_fuel true (read_fuel bs) bs <> OutOfFuel.
Check C10_fuel_bound : forall bs f, (length bs < 4 * f)%nat -> read_lib_fuel true f bs <> OutOfFuel.
Check C10_truncation_rejected :
  forall bs l, read_lib bs = Ok l ->
    exists n rs, (n <= length bs)%nat /\ split_stream (firstn n bs) = Some (rs, []) /\
                 rs <> [] /\ fst (fst (last rs (0, 0, []))) = 0x04.
Check C10_incomplete_rejected : forall bs, complete_to_endlib bs = false -> forall l, read_lib bs <> Ok l.
Check C10_proper_prefix_rejected :
  forall bs n rs k, (n <= length bs)%nat -> split_stream (firstn n bs) = Some (rs, []) -> (k < n)%nat ->
    forall l, read_lib (firstn k bs) <> Ok l.
Check C10_orig_refuted : exists bs, read_lib_orig bs = Panic /\ exists l, read_lib bs = Ok l /\ l_name l = [].

Print Assumptions C10_no_panic.
Print Assumptions C10_terminates_linear.
Print Assumptions C10_fuel_bound.
Print Assumptions C10_read_total.
Print Assumptions C10_truncation_rejected.
Print Assumptions C10_incomplete_rejected.
Print Assumptions C10_proper_prefix_rejected.
Print Assumptions C10_orig_refuted.
