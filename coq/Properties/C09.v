(** C09 -- Relative placement puts each instance exactly where its relation says.
    Property theorems only; proofs are in Tetris/Placer_proofs.v.
    Model of the code: Tetris/Placer.v ([resolve] = Placer::resolve_instance_place, [inst_boundbox] =
    Instance::boundbox, [order] = PlaceOrder / DepOrderer, [place_layout], [flatten_array_inst]).
    Specification (geometry over integers, from the property text): Tetris/PlacerSpec.v
    ([inst_box], [touches], [flush], [orthogonal], [sep_amount], [spec_array], [cyclic_from]).
    From Placer_proofs.v: [tagged p] = the x / y coordinate of p carries the Horiz / Vert unit tag,
    [tagged_box], [box_of b] = the four numbers of a BoundBox, [loc_box w h loc rh rv] = [inst_box] at loc,
    [placed cells pool n p] = the location of instance n as determined by the relation graph alone,
    [entry n i p] = the output record of instance n at p, [is_placed e] = e has an absolute location,
    [reach] / [reach1] / [term] = paths, non-empty paths, ending chains in the relation graph. *)
From Coq Require Import ZArith List Bool Arith Permutation.
From L21 Require Import Tetris.Placer Tetris.PlacerSpec Tetris.PlacerCheck Tetris.Placer_proofs.
Import ListNotations.

(** * (1) One relation: side x alignment x separation x reflection of the placed instance x any reference box *)

(** Whenever resolve_instance_place returns a location for an edge alignment [a] orthogonal to the side,
    the separation is one of the three kinds of the property ([sep_amount] = none -> 0, primitive pitches
    along the side's axis, or the size of a cell along it), the location is properly tagged, and the
    instance's box at that location touches the reference box on the requested side at that separation
    and is flush with it on edge [a].  All 4 sides x their 2 orthogonal edges x 4 reflections of the placed
    instance x every (tagged) reference box; the reference's own reflection is inside [refbox], see (2). *)
Theorem C09_touching :
  forall cells inst rel refbox loc a w h,
    ralign rel = ASide a -> orthogonal (rside rel) a = true -> tagged_box refbox ->
    nth_error cells (icell inst) = Some (Some (w, h)) -> (0 <= w)%Z -> (0 <= h)%Z ->
    resolve cells inst rel refbox = Ok loc ->
    exists s, sep_amount cells (rside rel) (rsep rel) = Some s /\ tagged loc /\
      touches (rside rel) s (loc_box w h loc (irh inst) (irv inst)) (box_of refbox) /\
      flush a (loc_box w h loc (irh inst) (irv inst)) (box_of refbox).
Proof. exact resolve_touching. Qed.

(** ... and for every such request a location IS returned (no Err, no Panic). *)
Theorem C09_resolve_total :
  forall cells inst rel refbox a w h s,
    ralign rel = ASide a -> orthogonal (rside rel) a = true -> tagged_box refbox ->
    nth_error cells (icell inst) = Some (Some (w, h)) ->
    sep_amount cells (rside rel) (rsep rel) = Some s ->
    exists loc, resolve cells inst rel refbox = Ok loc.
Proof. exact resolve_total. Qed.

(** (2) Instance::boundbox is the box of the specification for all four reflections, so (1) applied to
    refbox = boundbox(reference) covers the reflections of the reference instance. *)
Theorem C09_boundbox :
  forall cells i p w h b,
    iloc i = PAbs p -> nth_error cells (icell i) = Some (Some (w, h)) -> (0 <= w)%Z -> (0 <= h)%Z ->
    inst_boundbox cells i = Ok b ->
    tagged p /\ tagged_box b /\ box_of b = loc_box w h p (irh i) (irv i).
Proof. exact inst_boundbox_spec. Qed.

(** Outside the property's space (reported, not judged): centre and port alignment are unimplemented!()
    panics, not errors ... *)
Theorem C09_align_unimplemented :
  forall cells inst rel refbox,
    ralign rel = ACenter \/ ralign rel = APorts -> resolve cells inst rel refbox = Panic.
Proof. exact resolve_align_unimplemented. Qed.

(** ... and an alignment edge PARALLEL to the side is not rejected: depending on the placed instance's
    reflection the code either returns a location whose y coordinate carries the Horiz tag (and is the
    reference's x coordinate), or panics on adding Horiz and Vert pitches.  Witness: a 2x1 cell on the
    Left of an 11x12 reference at (16,15), aligned Left. *)
Theorem C09_parallel_alignment_not_rejected :
  let cells := [Some (11, 12); Some (2, 1)]%Z in
  let refbox := mkBBox (xy_of 16 15) (xy_of 27 27) in
  let rel := mkRel 0 Left (ASide Left) (mkSep None None None) in
  resolve cells (mkInst 1 (PRel rel) false false) rel refbox
    = Ok (mkXy (mkPP Horiz 14) (mkPP Horiz 16)) /\
  resolve cells (mkInst 1 (PRel rel) false true) rel refbox = Panic.
Proof. split; reflexivity. Qed.

(** * (3) After placement every instance has an absolute location *)
Theorem C09_all_absolute :
  forall cells pool fuel items out,
    place_layout fuel cells pool items = Ok out ->
    Forall is_placed out /\
    forall n i, In n items -> nth_error pool n = Some (NInst i) ->
      exists p, placed cells pool n p /\ In (entry n i p) out.
Proof. exact place_layout_all_absolute. Qed.

Theorem C09_all_absolute_lib :
  forall cells layouts outs, place_lib cells layouts = Ok outs -> Forall (Forall is_placed) outs.
Proof. exact place_lib_all_absolute. Qed.

(** * (4) End to end: a relatively placed instance touches its reference instance, for every
    reflection of both, with the locations found in the output of place_layout *)
Theorem C09_layout_touching :
  forall cells pool fuel items out n i r j a w h wj hj,
    place_layout fuel cells pool items = Ok out ->
    In n items -> nth_error pool n = Some (NInst i) -> iloc i = PRel r ->
    nth_error pool (rto r) = Some (NInst j) ->
    ralign r = ASide a -> orthogonal (rside r) a = true ->
    nth_error cells (icell i) = Some (Some (w, h)) -> nth_error cells (icell j) = Some (Some (wj, hj)) ->
    (0 <= w)%Z -> (0 <= h)%Z -> (0 <= wj)%Z -> (0 <= hj)%Z ->
    exists p pt s,
      In (entry n i p) out /\ In (entry (rto r) j pt) out /\ tagged p /\ tagged pt /\
      sep_amount cells (rside r) (rsep r) = Some s /\
      touches (rside r) s (loc_box w h p (irh i) (irv i)) (loc_box wj hj pt (irh j) (irv j)) /\
      flush a (loc_box w h p (irh i) (irv i)) (loc_box wj hj pt (irh j) (irv j)).
Proof. exact place_layout_touching. Qed.

(** * (5) The result does not depend on the listing order *)

(** the location of an instance is a function of the relation graph ([placed] never mentions a listing) *)
Theorem C09_location_function :
  forall cells pool n p q, placed cells pool n p -> placed cells pool n q -> p = q.
Proof. intros cells pool n p q Hp Hq. exact (placed_fun cells pool n p Hp q Hq). Qed.

(** any permutation of the listing (duplicates included) is placed as well and yields the same
    instances -- same name, cell, location and reflections -- up to the order of `layout.instances` *)
Theorem C09_order_independent :
  forall cells pool fuel l l' out,
    (length pool + 1 <= fuel)%nat -> Permutation l l' ->
    place_layout fuel cells pool l = Ok out ->
    exists out', place_layout fuel cells pool l' = Ok out' /\ Permutation out out'.
Proof. exact place_layout_perm. Qed.

Theorem C09_order_independent_failure :
  forall cells pool fuel l l',
    (length pool + 1 <= fuel)%nat -> Permutation l l' ->
    (forall out, place_layout fuel cells pool l <> Ok out) ->
    forall out', place_layout fuel cells pool l' <> Ok out'.
Proof. exact place_layout_perm_fail. Qed.

(** * (6) Arrays: count copies at successive multiples of the pitch, mirrored by the array's reflection *)

(** whenever the specification defines the elements (every pitch absent or in primitive pitches along
    its own axis, at every nesting level) flattening returns exactly them, in order: names `a[i][j]..`,
    positions origin +- (sum over levels of index * pitch), every element reflected like the array *)
Theorem C09_array :
  forall name a x y rh rv l,
    spec_array name x y rh rv a = Some l ->
    flatten_array_inst name (mkArrayInst a (PAbs (xy_of x y)) rh rv) = Ok l.
Proof. exact flatten_array_inst_spec. Qed.

Theorem C09_array_ith :
  forall name x y rh rv c count sep dx dy,
    pitch_of (sepx sep) Horiz = Some dx -> pitch_of (sepy sep) Vert = Some dy ->
    exists l, spec_array name x y rh rv (mkArray (UCell c) count sep) = Some l /\
      length l = count /\
      forall i, (i < count)%nat ->
        nth_error l i = Some (mkOInst [name; i] c
                                (PAbs (xy_of (tx rh x (Z.of_nat i * dx)) (tx rv y (Z.of_nat i * dy)))) rh rv).
Proof. exact spec_array_flat_ith. Qed.

(** nesting: element j of copy i of the inner array sits at the inner element's position plus i times
    the outer pitch (then mirrored and translated by [spec_array] like every element) *)
Theorem C09_array_nested_ith :
  forall a' count sep dx dy inner i j p c ex ey,
    pitch_of (sepx sep) Horiz = Some dx -> pitch_of (sepy sep) Vert = Some dy ->
    spec_elems a' = Some inner -> (i < count)%nat -> nth_error inner j = Some (p, c, ex, ey) ->
    exists es, spec_elems (mkArray (UArr a') count sep) = Some es /\
      length es = (count * length inner)%nat /\
      nth_error es (i * length inner + j)
      = Some (i :: p, c, (ex + Z.of_nat i * dx)%Z, (ey + Z.of_nat i * dy)%Z).
Proof. exact spec_elems_nested_ith. Qed.

(** outside the property's space (reported): an array can never serve as a reference (Array::boundbox_size
    ends in todo!()), and an array placed relatively hits resolve_array_place = todo!() *)
Theorem C09_array_reference_unimplemented :
  forall cells a b, arrayinst_boundbox cells a <> Ok b.
Proof. exact arrayinst_boundbox_not_ok. Qed.

(** * (7) Cyclic and self-referential relations are reported as errors *)
Theorem C09_cycles_error :
  forall cells pool fuel items i,
    wf_pool pool = true -> wf_items pool items = true -> (length pool + 1 <= fuel)%nat ->
    In i items -> cyclic_from pool i = true ->
    place_layout fuel cells pool items = Err.
Proof. exact place_layout_cyclic_err. Qed.

Theorem C09_cycles_error_reach :
  forall cells pool fuel items i n,
    wf_pool pool = true -> wf_items pool items = true -> (length pool + 1 <= fuel)%nat ->
    In i items -> reach pool i n -> reach1 pool n n ->
    place_layout fuel cells pool items = Err.
Proof. exact place_layout_reach_cycle_err. Qed.

Theorem C09_self_reference_error :
  forall cells pool fuel items n i r,
    wf_pool pool = true -> wf_items pool items = true -> (length pool + 1 <= fuel)%nat ->
    In n items -> nth_error pool n = Some (NInst i) -> iloc i = PRel r -> rto r = n ->
    place_layout fuel cells pool items = Err.
Proof. exact place_layout_self_reference_err. Qed.

(** the ordering phase (the only recursion) never runs out of fuel with length pool + 1 frames, and
    never panics: it returns an order or Err, and Err only when some listed object's chain never ends *)
Theorem C09_order_total :
  forall pool fuel items,
    wf_pool pool = true -> wf_items pool items = true -> (length pool + 1 <= fuel)%nat ->
    (exists ord, order fuel pool items = Ok ord) \/ order fuel pool items = Err.
Proof. exact order_total. Qed.

Theorem C09_order_err_only_cycle :
  forall pool fuel items,
    wf_pool pool = true -> wf_items pool items = true -> (length pool + 1 <= fuel)%nat ->
    order fuel pool items = Err -> exists i, In i items /\ ~ term pool i.
Proof. exact order_err_only_cycle. Qed.

(** * (8) Every acyclic program of the property's space is placed
    [in_space] (Tetris/PlacerCheck.v, the predicate the correspondence run uses): every object is an
    instance of a cell with an outline, placed absolutely (tagged location) or relative to an instance
    with an orthogonal edge alignment and one of the three separation kinds, or an absolutely placed array
    whose pitches are in primitive pitches along their own axes.  Together with (3)-(5): such a program
    gets a location for every instance, each relative one touching its reference, whatever the listing order. *)
Theorem C09_in_space_placed :
  forall cells pool fuel items,
    in_space cells pool = true -> cells_nonneg cells ->
    wf_items pool items = true -> (length pool + 1 <= fuel)%nat ->
    (forall i, In i items -> cyclic_from pool i = false) ->
    exists out, place_layout fuel cells pool items = Ok out.
Proof.
  intros cells pool fuel items Hsp Hnn. exact (place_layout_in_space_ok cells pool Hsp Hnn fuel items).
Qed.

(** * Non-vacuity *)
Section Examples.
Local Open Scope Z_scope.
Let cells : Cells := [Some (11, 12); Some (2, 1); Some (5, 7)].
Let nosep := mkSep None None None.
(** i0 absolute and reflected; i1 right of i0, top-aligned, both reflections, 3 pitches away;
    i2 below i1, left-aligned, separated by the height of cell 2; an array of 3 x 2 mirrored horizontally *)
Let pool : Pool :=
  [ NInst (mkInst 0 (PAbs (xy_of 16 15)) true false);
    NInst (mkInst 1 (PRel (mkRel 0 Right (ASide Top) (mkSep (Some (SepUnits (UPrim Horiz 3))) None None))) true true);
    NInst (mkInst 1 (PRel (mkRel 1 Bottom (ASide Left) (mkSep None (Some (SepSizeOf 2)) None))) false true);
    NArray (mkArrayInst (mkArray (UArr (mkArray (UCell 1) 3 (mkSep (Some (SepUnits (UPrim Horiz 5))) None None)))
                                 2 (mkSep None (Some (SepUnits (UPrim Vert 7))) None))
                        (PAbs (xy_of 1 2)) true false) ].

Example C09_nonvacuous :
  (* listed deepest first: the orderer has to reorder *)
  place_layout (enough_fuel pool) cells pool [2; 1; 0; 3]%nat
  = Ok [ mkOInst [0%nat] 0 (PAbs (xy_of 16 15)) true false;
         mkOInst [1%nat] 1 (PAbs (xy_of 21 27)) true true;
         mkOInst [2%nat] 1 (PAbs (xy_of 19 19)) false true;
         mkOInst [3; 0; 0]%nat 1 (PAbs (xy_of 1 2)) true false;
         mkOInst [3; 0; 1]%nat 1 (PAbs (xy_of (-4) 2)) true false;
         mkOInst [3; 0; 2]%nat 1 (PAbs (xy_of (-9) 2)) true false;
         mkOInst [3; 1; 0]%nat 1 (PAbs (xy_of 1 9)) true false;
         mkOInst [3; 1; 1]%nat 1 (PAbs (xy_of (-4) 9)) true false;
         mkOInst [3; 1; 2]%nat 1 (PAbs (xy_of (-9) 9)) true false ]
  /\ wf_pool pool = true /\ wf_items pool [2; 1; 0; 3]%nat = true /\ in_space cells pool = true
  /\ forallb (fun i => negb (cyclic_from pool i)) [2; 1; 0; 3]%nat = true
  /\ orthogonal Right Top = true /\ orthogonal Bottom Left = true
  /\ sep_amount cells Bottom (mkSep None (Some (SepSizeOf 2)) None) = Some 7
  (* i1's box [19,21]x[26,27] is 3 right of i0's box [5,16]x[15,27] and flush with its top *)
  /\ touchesb Right 3 (inst_box 2 1 21 27 true true) (inst_box 11 12 16 15 true false) = true
  /\ flushb Top (inst_box 2 1 21 27 true true) (inst_box 11 12 16 15 true false) = true
  (* the array's elements are those of the specification *)
  /\ (match nth_error pool 3 with
      | Some (NArray a) => spec_array 3 1 2 true false (aarr a)
      | _ => None
      end) <> None
  (* a two-cycle with a tail, and a self reference, are errors *)
  /\ (let cyc := [ NInst (mkInst 1 (PRel (mkRel 1 Left (ASide Bottom) nosep)) false false);
                   NInst (mkInst 1 (PRel (mkRel 2 Left (ASide Bottom) nosep)) false false);
                   NInst (mkInst 1 (PRel (mkRel 1 Top (ASide Left) nosep)) false false) ] in
      cyclic_from cyc 0 = true /\ wf_pool cyc = true /\
      place_layout (enough_fuel cyc) cells cyc [0]%nat = Err)
  /\ (let self := [ NInst (mkInst 1 (PRel (mkRel 0 Left (ASide Bottom) nosep)) false false) ] in
      place_layout (enough_fuel self) cells self [0]%nat = Err).
Proof. vm_compute. repeat split; try reflexivity; discriminate. Qed.
End Examples.

Print Assumptions C09_touching.
Print Assumptions C09_resolve_total.
Print Assumptions C09_boundbox.
Print Assumptions C09_align_unimplemented.
Print Assumptions C09_parallel_alignment_not_rejected.
Print Assumptions C09_all_absolute.
Print Assumptions C09_all_absolute_lib.
Print Assumptions C09_layout_touching.
Print Assumptions C09_location_function.
Print Assumptions C09_order_independent.
Print Assumptions C09_order_independent_failure.
Print Assumptions C09_array.
Print Assumptions C09_array_ith.
Print Assumptions C09_array_nested_ith.
Print Assumptions C09_array_reference_unimplemented.
Print Assumptions C09_cycles_error.
Print Assumptions C09_cycles_error_reach.
Print Assumptions C09_self_reference_error.
Print Assumptions C09_order_total.
Print Assumptions C09_order_err_only_cycle.
Print Assumptions C09_in_space_placed.
