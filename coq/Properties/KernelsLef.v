(** Kernels, the LEF codec lef21 (properties C04, C05, C11): the definitions GENERATED on every run from lef21/src/write.rs, read.rs
    (Gen/KernelsLefWriteGen.v, Gen/KernelsLefReadGen.v; tools/translate_rust_kernels.py units "lefw", "lefr") against the hand-written codec
    models Lef/LefWrite.v, Lef/LefParse.v.
    Writer (families lef_write, lef_write_lib; reading Lef/KernelsInstLefWrite.v, proofs Lef/KernelsTieLefWrite_proofs.v,
    Lef/KernelsTieLefWriteL_proofs.v): each translated `write_*` / `format_*` method writes exactly the lines (indentation level, text) of the
    model function of the same name and leaves indentation and session as they were; `write_macro` and `write_lib` also fail exactly when
    the model fails (the version gates).  Where the model carries a variant flag the tie is stated for the flags of the code as it is now
    ([cf_now]); `Ktie_write_lib` starts from a new writer (`LefWriter::new`: indentation 0, version 5.8, nothing written).
    Parser (family lef_parse; reading Lef/KernelsInstLefRead.v: monadic self = the model's parser state [pst], the lexer external, loops on
    the fuel the state gives; proofs Lef/KernelsTieLefRead_proofs.v): the token-level helpers and the whole of `parse_density` are the model's
    functions, the error value apart ([lunit]).
    Parser, second part (family lef_parse2; Gen/KernelsLefRead2Gen.v, unit "lefr2"; reading Lef/KernelsInstLefRead2.v: the helpers of the first
    part external = the model's functions; proofs Lef/KernelsTieLefRead2_proofs.v): the statement parsers `parse_units`, `parse_size`,
    `parse_symmetries`, `parse_macro_class`, `parse_site_def`, `parse_property`, `parse_pin_direction`, the geometry parsers (`parse_geometry_mask`,
    `parse_iterate`, `parse_step_pattern`, `parse_point_list`, `parse_geometry_tail`, `parse_geometry`), `parse_bus_bit_chars`, `parse_divider_char` and `expect_and_get_str`, `get_name`,
    `expect_ident` are the model's functions; where the model carries a variant flag the tie is stated for the reader as it is now
    ([RI2.cfr_now]).
    Parser, third part (family lef_parse3; same generated file and reading; proofs Lef/KernelsTieLefRead3_proofs.v): `parse_layer_geometries` (both
    loops, the builder), `parse_via_shape`, `parse_via_layer_geometries`, `parse_obstructions`, `parse_port`, `parse_property_definition_tail`,
    `parse_property_definitions`.
    Parser, the big loops (family lef_parse_lib; proofs Lef/KernelsTieLefReadL_proofs.v): the whole of `parse_pin` ([RI2.cfr_now_props]: the
    properties reach the builder); family lef_parse_macro (proofs Lef/KernelsTieLefReadM_proofs.v): the whole of `parse_macro`; family lef_parse_via (proofs
    Lef/KernelsTieLefReadV_proofs.v): the whole of `parse_via`. *)
From Coq Require Import ZArith Bool List String.
From L21 Require Import Lef.LefDec Lef.LefData Lef.LefLex Lef.LefParse Lef.LefWrite.
From L21 Require Import Base.KernelOps Base.KernelOpsX Base.Outcome Gen.KernelsLefWriteGen Lef.KernelsInstLefWrite.
From L21 Require Lef.KernelsTieLefWrite_proofs Lef.KernelsTieLefWriteL_proofs.
From L21 Require Lef.KernelsInstLefRead Lef.KernelsTieLefRead_proofs.
From L21 Require Lef.KernelsInstLefRead2 Lef.KernelsTieLefRead2_proofs Lef.KernelsTieLefRead3_proofs Lef.KernelsTieLefReadL_proofs Lef.KernelsTieLefReadM_proofs Lef.KernelsTieLefReadV_proofs.
Import ListNotations.
Local Open Scope Z_scope.
Module W := Lef.KernelsTieLefWrite_proofs.
Module WL := Lef.KernelsTieLefWriteL_proofs.
Module RI := Lef.KernelsInstLefRead.
Module R := Lef.KernelsTieLefRead_proofs.
Module RI2 := Lef.KernelsInstLefRead2.
Module R2 := Lef.KernelsTieLefRead2_proofs.
Module R3 := Lef.KernelsTieLefRead3_proofs.
Module RL := Lef.KernelsTieLefReadL_proofs.
Module RM := Lef.KernelsTieLefReadM_proofs.
Module RV := Lef.KernelsTieLefReadV_proofs.

Theorem Ktie_format_mask : forall m s, g_format_mask m s = Ok (format_mask m, s).
Proof. exact W.tie_format_mask. Qed.
Theorem Ktie_format_geom : forall sh p s, g_format_geom sh p s = Ok (format_geom sh p, s).
Proof. exact W.tie_format_geom. Qed.
Theorem Ktie_write_geom : forall g s, g_write_geom g s = wrote s (write_geom (w_indent (fst s)) g).
Proof. exact W.tie_write_geom. Qed.
Theorem Ktie_write_layer_geom : forall l s, g_write_layer_geom l s = wrote s (write_layer_geom (w_indent (fst s)) l).
Proof. exact W.tie_write_layer_geom. Qed.

Theorem Ktie_write_symmetries : forall l s, g_write_symmetries l s = wrote s (write_symmetries (w_indent (fst s)) l).
Proof. exact W.tie_write_symmetries. Qed.
Theorem Ktie_write_macro_class : forall c s, g_write_macro_class c s = wrote s (write_macro_class (w_indent (fst s)) c).
Proof. exact W.tie_write_macro_class. Qed.
Theorem Ktie_write_via_shape : forall sh s, g_write_via_shape sh s = wrote s (write_via_shape (w_indent (fst s)) sh).
Proof. exact W.tie_write_via_shape. Qed.
Theorem Ktie_write_density : forall d s, g_write_density d s = wrote s (write_density (w_indent (fst s)) d).
Proof. exact W.tie_write_density. Qed.
Theorem Ktie_write_units : forall u s, g_write_units u s = wrote s (write_units (w_indent (fst s)) u).
Proof. exact W.tie_write_units. Qed.
Theorem Ktie_write_via_layer_geom : forall l s, g_write_via_layer_geom l s = wrote s (write_via_layer_geom (w_indent (fst s)) l).
Proof. exact W.tie_write_via_layer_geom. Qed.
Theorem Ktie_write_via : forall v s, g_write_via v s = wrote s (write_via (w_indent (fst s)) v).
Proof. exact W.tie_write_via. Qed.
Theorem Ktie_write_port : forall p s, g_write_port p s = wrote s (write_port (w_indent (fst s)) p).
Proof. exact W.tie_write_port. Qed.
Theorem Ktie_format_numeric_prop_def : forall ot nm k v r s, g_format_numeric_prop_def ot nm k v r s = Ok (format_numeric_prop_def ot nm k v r, s).
Proof. exact WL.tie_format_numeric_prop_def. Qed.
Section WriterNow.
Variable cf : cfg.
Hypothesis Hcf : cf_now cf.
Theorem Ktie_write_property : forall p s, g_write_property p s = wrote s (write_property cf (w_indent (fst s)) p).
Proof. exact (W.tie_write_property cf Hcf). Qed.
Theorem Ktie_write_site : forall st s, g_write_site st s = wrote s (write_site cf (w_indent (fst s)) st).
Proof. exact (W.tie_write_site cf Hcf). Qed.
Theorem Ktie_write_pin : forall p s, g_write_pin p s = wrote s (write_pin cf (w_indent (fst s)) p).
Proof. exact (W.tie_write_pin cf Hcf). Qed.
Theorem Ktie_write_macro : forall m s, g_write_macro m s = wrote_res s (write_macro cf (w_ver (fst s)) (w_indent (fst s)) m).
Proof. exact (WL.tie_write_macro cf Hcf). Qed.
Theorem Ktie_write_lib : forall l,
  g_write_lib l (w_new, []) =
  match write_lib_lines cf l with
  | LefParse.Ok ls => Ok (tt, (mk_gLefWriter nat dec O (mk_gLefWriterSession dec (match lib_version l with Some v => v | None => V5P8 end)), ls))
  | LefParse.Err _ => Err tt | LefParse.Panic => Panic | LefParse.OutOfFuel => OutOfFuel | LefParse.Unmodelled => OutOfFuel
  end.
Proof. exact (WL.tie_write_lib cf Hcf). Qed.
End WriterNow.

(** * the parser *)
Section Parser.
Variable cf : cfg.
Variable src : bytes.
Theorem Ktie_advance : forall s, RI.g_advance cf src s = RI.lunit (advance s).
Proof. exact (R.tie_advance cf src). Qed.
Theorem Ktie_matches : forall t s, RI.g_matches cf src t s = Ok (matches t s, s).
Proof. exact (R.tie_matches cf src). Qed.
Theorem Ktie_expect : forall t s, RI.backl RI.Mtok (RI.g_expect cf src t s) = RI.lunit (expect cf src t s).
Proof. exact (R.tie_expect cf src). Qed.
Theorem Ktie_peek_key : forall s, RI.backl RI.MLefKey (RI.g_peek_key cf src s) = RI.lunit (peek_key cf src s).
Proof. exact (R.tie_peek_key cf src). Qed.
Theorem Ktie_get_key : forall s, RI.backl RI.MLefKey (RI.g_get_key cf src s) = RI.lunit (get_key cf src s).
Proof. exact (R.tie_get_key cf src). Qed.
Theorem Ktie_expect_key : forall k s, RI.g_expect_key cf src k s = RI.lunit (expect_key cf src k s).
Proof. exact (R.tie_expect_key cf src). Qed.
Theorem Ktie_parse_ident : forall s, RI.g_parse_ident cf src s = RI.lunit (parse_ident cf src s).
Proof. exact (R.tie_parse_ident cf src). Qed.
Theorem Ktie_parse_number : forall s, RI.g_parse_number cf src s = RI.lunit (parse_number cf src s).
Proof. exact (R.tie_parse_number cf src). Qed.
Theorem Ktie_parse_point : forall s, RI.backl RI.Mpoint (RI.g_parse_point cf src s) = RI.lunit (parse_point cf src s).
Proof. exact (R.tie_parse_point cf src). Qed.
Theorem Ktie_parse_density : forall s, RI.backl (map RI.Mdgeoms) (RI.g_parse_density cf src s) = RI.lunit (parse_density cf src s).
Proof. exact (R.tie_parse_density cf src). Qed.
End Parser.

(** * the parser, second part (family lef_parse2) *)
Section Parser2.
Variable cf : cfg.
Variable src : bytes.
Theorem Ktie_parse_size : forall s, RI2.g_parse_size cf src s = RI.lunit (parse_size cf src s).
Proof. exact (R2.tie_parse_size cf src). Qed.
Theorem Ktie_parse_units : forall s, RI.backl RI2.Munits (RI2.g_parse_units cf src s) = RI.lunit (parse_units cf src s).
Proof. exact (R2.tie_parse_units cf src). Qed.
Theorem Ktie_parse_symmetries : forall s, RI.backl (map RI2.MLefSymmetry) (RI2.g_parse_symmetries cf src s) = RI.lunit (parse_symmetries cf src s).
Proof. exact (R2.tie_parse_symmetries cf src). Qed.
Theorem Ktie_parse_macro_class : forall s, RI.backl RI2.Mmacro_class (RI2.g_parse_macro_class cf src s) = RI.lunit (parse_macro_class cf src s).
Proof. exact (R2.tie_parse_macro_class cf src). Qed.
Theorem Ktie_expect_and_get_str : forall t s, RI2.g_expect_and_get_str cf src (RI2.Gtty t) s = RI.lunit (expect_and_get_str cf src t s).
Proof. exact (R2.tie_expect_and_get_str cf src). Qed.
Theorem Ktie_get_name : forall s, RI2.g_get_name cf src s = RI.lunit (get_name cf src s).
Proof. exact (R2.tie_get_name cf src). Qed.
Theorem Ktie_expect_ident : forall id s, RI2.g_expect_ident cf src id s = RI.lunit (expect_ident cf src id s).
Proof. exact (R2.tie_expect_ident cf src). Qed.
Theorem Ktie_parse_site_def : forall s, RI.backl RI2.Msite (RI2.g_parse_site_def cf src s) = RI.lunit (parse_site_def cf src s).
Proof. exact (R2.tie_parse_site_def cf src). Qed.
Theorem Ktie_parse_property : forall acc s, RI.backl (map RI2.Mproperty) (RI2.g_parse_property cf src acc s) = RI.lunit (parse_property cf src (map RI2.Mproperty acc) s).
Proof. exact (R2.tie_parse_property cf src). Qed.
Theorem Ktie_parse_pin_direction : forall s, RI.backl RI2.Mpin_direction (RI2.g_parse_pin_direction cf src s) = RI.lunit (parse_pin_direction cf src s).
Proof. exact (R2.tie_parse_pin_direction cf src). Qed.
Theorem Ktie_parse_geometry_mask : forall s, RI.backl RI2.Mmask (RI2.g_parse_geometry_mask cf src s) = RI.lunit (parse_geometry_mask cf src s).
Proof. exact (R2.tie_parse_geometry_mask cf src). Qed.
Theorem Ktie_parse_iterate : forall s, RI2.g_parse_iterate cf src s = RI.lunit (parse_iterate cf src s).
Proof. exact (R2.tie_parse_iterate cf src). Qed.
Theorem Ktie_parse_step_pattern : forall s, RI.backl RI2.Mstep (RI2.g_parse_step_pattern cf src s) = RI.lunit (parse_step_pattern cf src s).
Proof. exact (R2.tie_parse_step_pattern cf src). Qed.
Theorem Ktie_parse_geometry_tail : forall it sh s, RI.backl RI2.Mgeometry (RI2.g_parse_geometry_tail cf src it sh s) = RI.lunit (parse_geometry_tail cf src it (RI2.Mshape sh) s).
Proof. exact (R2.tie_parse_geometry_tail cf src). Qed.
Theorem Ktie_parse_bus_bit_chars : forall s, RI2.g_parse_bus_bit_chars cf src s = RI.lunit (parse_bus_bit_chars cf src s).
Proof. exact (R2.tie_parse_bus_bit_chars cf src). Qed.
Theorem Ktie_parse_divider_char : forall s, RI2.g_parse_divider_char cf src s = RI.lunit (parse_divider_char cf src s).
Proof. exact (R2.tie_parse_divider_char cf src). Qed.
Section ReaderNow.
Hypothesis Hcf : RI2.cfr_now cf.
Theorem Ktie_parse_point_list : forall s, RI.backl (map RI2.Mpoint) (RI2.g_parse_point_list cf src s) = RI.lunit (parse_point_list cf src s).
Proof. exact (R2.tie_parse_point_list cf src Hcf). Qed.
Theorem Ktie_parse_geometry : forall s, RI.backl RI2.Mgeometry (RI2.g_parse_geometry cf src s) = RI.lunit (parse_geometry cf src s).
Proof. exact (R2.tie_parse_geometry cf src Hcf). Qed.
End ReaderNow.
End Parser2.
Check Ktie_parse_bus_bit_chars : forall cf src, forall s, RI2.g_parse_bus_bit_chars cf src s = RI.lunit (parse_bus_bit_chars cf src s).
Check Ktie_parse_divider_char : forall cf src, forall s, RI2.g_parse_divider_char cf src s = RI.lunit (parse_divider_char cf src s).
Check Ktie_parse_size : forall cf src, forall s, RI2.g_parse_size cf src s = RI.lunit (parse_size cf src s).
Check Ktie_parse_units : forall cf src, forall s, RI.backl RI2.Munits (RI2.g_parse_units cf src s) = RI.lunit (parse_units cf src s).
Check Ktie_parse_symmetries : forall cf src, forall s, RI.backl (map RI2.MLefSymmetry) (RI2.g_parse_symmetries cf src s) = RI.lunit (parse_symmetries cf src s).
Check Ktie_parse_macro_class : forall cf src, forall s, RI.backl RI2.Mmacro_class (RI2.g_parse_macro_class cf src s) = RI.lunit (parse_macro_class cf src s).
Check Ktie_expect_and_get_str : forall cf src, forall t s, RI2.g_expect_and_get_str cf src (RI2.Gtty t) s = RI.lunit (expect_and_get_str cf src t s).
Check Ktie_get_name : forall cf src, forall s, RI2.g_get_name cf src s = RI.lunit (get_name cf src s).
Check Ktie_expect_ident : forall cf src, forall id s, RI2.g_expect_ident cf src id s = RI.lunit (expect_ident cf src id s).
Check Ktie_parse_site_def : forall cf src, forall s, RI.backl RI2.Msite (RI2.g_parse_site_def cf src s) = RI.lunit (parse_site_def cf src s).
Check Ktie_parse_property : forall cf src, forall acc s, RI.backl (map RI2.Mproperty) (RI2.g_parse_property cf src acc s) = RI.lunit (parse_property cf src (map RI2.Mproperty acc) s).
Check Ktie_parse_pin_direction : forall cf src, forall s, RI.backl RI2.Mpin_direction (RI2.g_parse_pin_direction cf src s) = RI.lunit (parse_pin_direction cf src s).
Check Ktie_parse_geometry_mask : forall cf src, forall s, RI.backl RI2.Mmask (RI2.g_parse_geometry_mask cf src s) = RI.lunit (parse_geometry_mask cf src s).
Check Ktie_parse_iterate : forall cf src, forall s, RI2.g_parse_iterate cf src s = RI.lunit (parse_iterate cf src s).
Check Ktie_parse_step_pattern : forall cf src, forall s, RI.backl RI2.Mstep (RI2.g_parse_step_pattern cf src s) = RI.lunit (parse_step_pattern cf src s).
Check Ktie_parse_geometry_tail : forall cf src, forall it sh s, RI.backl RI2.Mgeometry (RI2.g_parse_geometry_tail cf src it sh s) = RI.lunit (parse_geometry_tail cf src it (RI2.Mshape sh) s).
Check Ktie_parse_point_list : forall cf src, RI2.cfr_now cf -> forall s, RI.backl (map RI2.Mpoint) (RI2.g_parse_point_list cf src s) = RI.lunit (parse_point_list cf src s).
Check Ktie_parse_geometry : forall cf src, RI2.cfr_now cf -> forall s, RI.backl RI2.Mgeometry (RI2.g_parse_geometry cf src s) = RI.lunit (parse_geometry cf src s).

(** * the parser, third part (family lef_parse3) *)
Section Parser3.
Variable cf : cfg.
Variable src : bytes.
Hypothesis Hcf : RI2.cfr_now cf.
Theorem Ktie_parse_via_shape : forall s, RI.backl RI2.Mvia_shape (RI2.g_parse_via_shape cf src s) = RI.lunit (parse_via_shape cf src s).
Proof. exact (R3.tie_parse_via_shape cf src Hcf). Qed.
Theorem Ktie_parse_via_layer_geometries : forall s, RI.backl RI2.Mvia_layer_geoms (RI2.g_parse_via_layer_geometries cf src s) = RI.lunit (parse_via_layer_geometries cf src s).
Proof. exact (R3.tie_parse_via_layer_geometries cf src Hcf). Qed.
Theorem Ktie_parse_property_definition_tail : forall s, RI.backl (R3.Mtail) (RI2.g_parse_property_definition_tail cf src s) = RI.lunit (parse_property_definition_tail cf src s).
Proof. exact (R3.tie_parse_property_definition_tail cf src). Qed.
Theorem Ktie_parse_property_definitions : forall s, RI.backl (map RI2.Mpropdef) (RI2.g_parse_property_definitions cf src s) = RI.lunit (parse_property_definitions cf src s).
Proof. exact (R3.tie_parse_property_definitions cf src). Qed.
Theorem Ktie_parse_layer_geometries : forall s, RI.backl RI2.Mlayer_geoms (RI2.g_parse_layer_geometries cf src s) = RI.lunit (parse_layer_geometries cf src s).
Proof. exact (R3.tie_parse_layer_geometries cf src Hcf). Qed.
Theorem Ktie_parse_obstructions : forall s, RI.backl (map RI2.Mlayer_geoms) (RI2.g_parse_obstructions cf src s) = RI.lunit (parse_obstructions cf src s).
Proof. exact (R3.tie_parse_obstructions cf src Hcf). Qed.
Theorem Ktie_parse_port : forall s, RI.backl RI2.Mport (RI2.g_parse_port cf src s) = RI.lunit (parse_port cf src s).
Proof. exact (R3.tie_parse_port cf src Hcf). Qed.
Theorem Ktie_parse_via : forall s, RI.backl RI2.Mvia_def (RI2.g_parse_via cf src s) = RI.lunit (parse_via cf src s).
Proof. exact (RV.tie_parse_via cf src Hcf). Qed.
End Parser3.
Check Ktie_parse_via : forall cf src, RI2.cfr_now cf -> forall s, RI.backl RI2.Mvia_def (RI2.g_parse_via cf src s) = RI.lunit (parse_via cf src s).
Check Ktie_parse_via_shape : forall cf src, RI2.cfr_now cf -> forall s, RI.backl RI2.Mvia_shape (RI2.g_parse_via_shape cf src s) = RI.lunit (parse_via_shape cf src s).
Check Ktie_parse_via_layer_geometries : forall cf src, RI2.cfr_now cf -> forall s, RI.backl RI2.Mvia_layer_geoms (RI2.g_parse_via_layer_geometries cf src s) = RI.lunit (parse_via_layer_geometries cf src s).
Check Ktie_parse_property_definition_tail : forall cf src, forall s, RI.backl (R3.Mtail) (RI2.g_parse_property_definition_tail cf src s) = RI.lunit (parse_property_definition_tail cf src s).
Check Ktie_parse_property_definitions : forall cf src, forall s, RI.backl (map RI2.Mpropdef) (RI2.g_parse_property_definitions cf src s) = RI.lunit (parse_property_definitions cf src s).
Check Ktie_parse_layer_geometries : forall cf src, RI2.cfr_now cf -> forall s, RI.backl RI2.Mlayer_geoms (RI2.g_parse_layer_geometries cf src s) = RI.lunit (parse_layer_geometries cf src s).
Check Ktie_parse_obstructions : forall cf src, RI2.cfr_now cf -> forall s, RI.backl (map RI2.Mlayer_geoms) (RI2.g_parse_obstructions cf src s) = RI.lunit (parse_obstructions cf src s).
Check Ktie_parse_port : forall cf src, RI2.cfr_now cf -> forall s, RI.backl RI2.Mport (RI2.g_parse_port cf src s) = RI.lunit (parse_port cf src s).

(** * the parser, the big loops (family lef_parse_lib) *)
Section ParserL.
Variable cf : cfg.
Variable src : bytes.
Hypothesis Hcf : RI2.cfr_now cf.
Hypothesis Hcfp : RI2.cfr_now_props cf.
Theorem Ktie_parse_pin : forall s, RI.backl RI2.Mpin (RI2.g_parse_pin cf src s) = RI.lunit (parse_pin cf src s).
Proof. exact (RL.tie_parse_pin cf src Hcf Hcfp). Qed.
Theorem Ktie_parse_macro : forall s, RI.backl RI2.Mmacro (RI2.g_parse_macro cf src s) = RI.lunit (parse_macro cf src s).
Proof. exact (RM.tie_parse_macro cf src Hcf Hcfp). Qed.
End ParserL.
Check Ktie_parse_macro : forall cf src, RI2.cfr_now cf -> RI2.cfr_now_props cf -> forall s, RI.backl RI2.Mmacro (RI2.g_parse_macro cf src s) = RI.lunit (parse_macro cf src s).
Check Ktie_parse_pin : forall cf src, RI2.cfr_now cf -> RI2.cfr_now_props cf -> forall s, RI.backl RI2.Mpin (RI2.g_parse_pin cf src s) = RI.lunit (parse_pin cf src s).

Print Assumptions Ktie_format_mask.
Print Assumptions Ktie_format_geom.
Print Assumptions Ktie_write_geom.
Print Assumptions Ktie_write_layer_geom.
Print Assumptions Ktie_write_symmetries.
Print Assumptions Ktie_write_macro_class.
Print Assumptions Ktie_write_via_shape.
Print Assumptions Ktie_write_density.
Print Assumptions Ktie_write_units.
Print Assumptions Ktie_write_via_layer_geom.
Print Assumptions Ktie_write_via.
Print Assumptions Ktie_write_port.
Print Assumptions Ktie_format_numeric_prop_def.
Print Assumptions Ktie_write_property.
Print Assumptions Ktie_write_site.
Print Assumptions Ktie_write_pin.
Print Assumptions Ktie_write_macro.
Print Assumptions Ktie_write_lib.
Print Assumptions Ktie_advance.
Print Assumptions Ktie_matches.
Print Assumptions Ktie_expect.
Print Assumptions Ktie_peek_key.
Print Assumptions Ktie_get_key.
Print Assumptions Ktie_expect_key.
Print Assumptions Ktie_parse_ident.
Print Assumptions Ktie_parse_number.
Print Assumptions Ktie_parse_point.
Print Assumptions Ktie_parse_density.
Print Assumptions Ktie_parse_size.
Print Assumptions Ktie_parse_units.
Print Assumptions Ktie_parse_symmetries.
Print Assumptions Ktie_parse_macro_class.
Print Assumptions Ktie_expect_and_get_str.
Print Assumptions Ktie_get_name.
Print Assumptions Ktie_expect_ident.
Print Assumptions Ktie_parse_site_def.
Print Assumptions Ktie_parse_property.
Print Assumptions Ktie_parse_pin_direction.
Print Assumptions Ktie_parse_geometry_mask.
Print Assumptions Ktie_parse_iterate.
Print Assumptions Ktie_parse_step_pattern.
Print Assumptions Ktie_parse_geometry_tail.
Print Assumptions Ktie_parse_point_list.
Print Assumptions Ktie_parse_geometry.
Print Assumptions Ktie_parse_via_shape.
Print Assumptions Ktie_parse_via_layer_geometries.
Print Assumptions Ktie_parse_property_definition_tail.
Print Assumptions Ktie_parse_property_definitions.
Print Assumptions Ktie_parse_layer_geometries.
Print Assumptions Ktie_parse_obstructions.
Print Assumptions Ktie_parse_port.
Print Assumptions Ktie_parse_pin.
Print Assumptions Ktie_parse_macro.
Print Assumptions Ktie_parse_bus_bit_chars.
Print Assumptions Ktie_parse_divider_char.
Print Assumptions Ktie_parse_via.
