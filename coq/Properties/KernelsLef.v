(** Kernels, the LEF codec lef21 (properties C04, C05, C11): the definitions GENERATED on every run from lef21/src/write.rs, read.rs
    (Gen/KernelsLefWriteGen.v, Gen/KernelsLefReadGen.v; tools/translate_rust_kernels.py units "lefw", "lefr") against the hand-written codec
    models Lef/LefWrite.v, Lef/LefParse.v.
    Writer (families lef_write, lef_write_lib; reading Lef/KernelsInstLefWrite.v, proofs Lef/KernelsTieLefWrite_proofs.v,
    Lef/KernelsTieLefWriteL_proofs.v): each translated `write_*` / `format_*` method writes exactly the lines (indentation level, text) of the
    model function of the same name and leaves indentation and session as they were; `write_macro` and `write_lib` also fail exactly when
    the model fails (the version gates).  Where the model carries a variant flag the tie is stated for the flags of the code as it is now
    ([cf_now]); `Ktie_write_lib` starts from a new writer (`LefWriter::new`: indentation 0, version 5.8, nothing written).
    Parser (family lef_parse; reading Lef/KernelsInstLefRead.v: monadic self = the model's parser state [pst], the lexer external, loops on
    the fuel the state gives; proofs Lef/KernelsTieLefRead_proofs.v): the token-level helpers and the whole of `parse_density` are the model's
    functions, the error value apart ([lunit]). *)
From Coq Require Import ZArith Bool List String.
From L21 Require Import Lef.LefDec Lef.LefData Lef.LefLex Lef.LefParse Lef.LefWrite.
From L21 Require Import Base.KernelOps Base.KernelOpsX Base.Outcome Gen.KernelsLefWriteGen Lef.KernelsInstLefWrite.
From L21 Require Lef.KernelsTieLefWrite_proofs Lef.KernelsTieLefWriteL_proofs.
From L21 Require Lef.KernelsInstLefRead Lef.KernelsTieLefRead_proofs.
Import ListNotations.
Local Open Scope Z_scope.
Module W := Lef.KernelsTieLefWrite_proofs.
Module WL := Lef.KernelsTieLefWriteL_proofs.
Module RI := Lef.KernelsInstLefRead.
Module R := Lef.KernelsTieLefRead_proofs.

Theorem Ktie_format_mask : forall m s, g_format_mask m s = Ok (format_mask m, s).
Proof. exact W.tie_format_mask. Qed.
Theorem Ktie_format_geom : forall sh p s, g_format_geom sh p s = Ok (format_geom sh p, s).
Proof. exact W.tie_format_geom. Qed.
Theorem Ktie_write_geom : forall g s, g_write_geom g s = wrote s (write_geom (w_indent (fst s)) g).
Proof. exact W.tie_write_geom. Qed.
Theorem Ktie_write_layer_geom : forall l s, g_write_layer_geom l s = wrote s (write_layer_geom (w_indent (fst s)) l).
Proof. exact W.tie_write_layer_geom. Qed.

Theorem Ktie_write_symmetries : forall l s, g_write_symmetries l s = wrote s (write_symmetries (w_indent (fst s)) l).
Proof. exact W.tie_write_symmetries. Qed.
Theorem Ktie_write_macro_class : forall c s, g_write_macro_class c s = wrote s (write_macro_class (w_indent (fst s)) c).
Proof. exact W.tie_write_macro_class. Qed.
Theorem Ktie_write_via_shape : forall sh s, g_write_via_shape sh s = wrote s (write_via_shape (w_indent (fst s)) sh).
Proof. exact W.tie_write_via_shape. Qed.
Theorem Ktie_write_density : forall d s, g_write_density d s = wrote s (write_density (w_indent (fst s)) d).
Proof. exact W.tie_write_density. Qed.
Theorem Ktie_write_units : forall u s, g_write_units u s = wrote s (write_units (w_indent (fst s)) u).
Proof. exact W.tie_write_units. Qed.
Theorem Ktie_write_via_layer_geom : forall l s, g_write_via_layer_geom l s = wrote s (write_via_layer_geom (w_indent (fst s)) l).
Proof. exact W.tie_write_via_layer_geom. Qed.
Theorem Ktie_write_via : forall v s, g_write_via v s = wrote s (write_via (w_indent (fst s)) v).
Proof. exact W.tie_write_via. Qed.
Theorem Ktie_write_port : forall p s, g_write_port p s = wrote s (write_port (w_indent (fst s)) p).
Proof. exact W.tie_write_port. Qed.
Theorem Ktie_format_numeric_prop_def : forall ot nm k v r s, g_format_numeric_prop_def ot nm k v r s = Ok (format_numeric_prop_def ot nm k v r, s).
Proof. exact WL.tie_format_numeric_prop_def. Qed.
Section WriterNow.
Variable cf : cfg.
Hypothesis Hcf : cf_now cf.
Theorem Ktie_write_property : forall p s, g_write_property p s = wrote s (write_property cf (w_indent (fst s)) p).
Proof. exact (W.tie_write_property cf Hcf). Qed.
Theorem Ktie_write_site : forall st s, g_write_site st s = wrote s (write_site cf (w_indent (fst s)) st).
Proof. exact (W.tie_write_site cf Hcf). Qed.
Theorem Ktie_write_pin : forall p s, g_write_pin p s = wrote s (write_pin cf (w_indent (fst s)) p).
Proof. exact (W.tie_write_pin cf Hcf). Qed.
Theorem Ktie_write_macro : forall m s, g_write_macro m s = wrote_res s (write_macro cf (w_ver (fst s)) (w_indent (fst s)) m).
Proof. exact (WL.tie_write_macro cf Hcf). Qed.
Theorem Ktie_write_lib : forall l,
  g_write_lib l (w_new, []) =
  match write_lib_lines cf l with
  | LefParse.Ok ls => Ok (tt, (mk_gLefWriter nat dec O (mk_gLefWriterSession dec (match lib_version l with Some v => v | None => V5P8 end)), ls))
  | LefParse.Err _ => Err tt | LefParse.Panic => Panic | LefParse.OutOfFuel => OutOfFuel | LefParse.Unmodelled => OutOfFuel
  end.
Proof. exact (WL.tie_write_lib cf Hcf). Qed.
End WriterNow.

(** * the parser *)
Section Parser.
Variable cf : cfg.
Variable src : bytes.
Theorem Ktie_advance : forall s, RI.g_advance cf src s = RI.lunit (advance s).
Proof. exact (R.tie_advance cf src). Qed.
Theorem Ktie_matches : forall t s, RI.g_matches cf src t s = Ok (matches t s, s).
Proof. exact (R.tie_matches cf src). Qed.
Theorem Ktie_expect : forall t s, RI.backl RI.Mtok (RI.g_expect cf src t s) = RI.lunit (expect cf src t s).
Proof. exact (R.tie_expect cf src). Qed.
Theorem Ktie_peek_key : forall s, RI.backl RI.MLefKey (RI.g_peek_key cf src s) = RI.lunit (peek_key cf src s).
Proof. exact (R.tie_peek_key cf src). Qed.
Theorem Ktie_get_key : forall s, RI.backl RI.MLefKey (RI.g_get_key cf src s) = RI.lunit (get_key cf src s).
Proof. exact (R.tie_get_key cf src). Qed.
Theorem Ktie_expect_key : forall k s, RI.g_expect_key cf src k s = RI.lunit (expect_key cf src k s).
Proof. exact (R.tie_expect_key cf src). Qed.
Theorem Ktie_parse_ident : forall s, RI.g_parse_ident cf src s = RI.lunit (parse_ident cf src s).
Proof. exact (R.tie_parse_ident cf src). Qed.
Theorem Ktie_parse_number : forall s, RI.g_parse_number cf src s = RI.lunit (parse_number cf src s).
Proof. exact (R.tie_parse_number cf src). Qed.
Theorem Ktie_parse_point : forall s, RI.backl RI.Mpoint (RI.g_parse_point cf src s) = RI.lunit (parse_point cf src s).
Proof. exact (R.tie_parse_point cf src). Qed.
Theorem Ktie_parse_density : forall s, RI.backl (map RI.Mdgeoms) (RI.g_parse_density cf src s) = RI.lunit (parse_density cf src s).
Proof. exact (R.tie_parse_density cf src). Qed.
End Parser.

Print Assumptions Ktie_format_mask.
Print Assumptions Ktie_format_geom.
Print Assumptions Ktie_write_geom.
Print Assumptions Ktie_write_layer_geom.
Print Assumptions Ktie_write_symmetries.
Print Assumptions Ktie_write_macro_class.
Print Assumptions Ktie_write_via_shape.
Print Assumptions Ktie_write_density.
Print Assumptions Ktie_write_units.
Print Assumptions Ktie_write_via_layer_geom.
Print Assumptions Ktie_write_via.
Print Assumptions Ktie_write_port.
Print Assumptions Ktie_format_numeric_prop_def.
Print Assumptions Ktie_write_property.
Print Assumptions Ktie_write_site.
Print Assumptions Ktie_write_pin.
Print Assumptions Ktie_write_macro.
Print Assumptions Ktie_write_lib.
Print Assumptions Ktie_advance.
Print Assumptions Ktie_matches.
Print Assumptions Ktie_expect.
Print Assumptions Ktie_peek_key.
Print Assumptions Ktie_get_key.
Print Assumptions Ktie_expect_key.
Print Assumptions Ktie_parse_ident.
Print Assumptions Ktie_parse_number.
Print Assumptions Ktie_parse_point.
Print Assumptions Ktie_parse_density.
