(** C12 -- Instance transforms compose like the geometric operations they name.
    Property theorems only; proofs are in Geom/Transform_proofs.v and (float level, part (8))
    Geom/TransformFloat_proofs.v.
    Model: Geom/Transform.v (layout21raw/src/geom.rs [Transform], [Point::transform],
    layout21raw/src/data.rs [Layout::flatten]); specification: Geom/TransformSpec.v;
    vocabulary of the float-level statements: Geom/TransformFloat.v.

    Ring level: matrix entries in ANY commutative ring [K] (operations [R], laws [ring_theory]),
    the angle enters as ANY pair (c, s) -- so these theorems hold for every angle and do not
    depend on libm. [from_instance] is the function after the repair; [from_instance_orig]
    is the function as found. *)
From Coq Require Import ZArith Bool List Ring_theory.
From L21 Require Import Base.F64 Gen.LibmGen Geom.Transform Geom.TransformSpec Geom.Transform_proofs.
From L21 Require Import Geom.TransformFloat Geom.TransformFloat_proofs.
Import ListNotations.
Local Open Scope Z_scope.

Definition is_ring {K : Type} (R : ring_ops K) : Prop :=
  ring_theory (k0 R) (k1 R) (kadd R) (kmul R) (ksub R) (kopp R) (@eq K).

(** (1) [cascade parent child] applies the child first, and is associative with the identity
    as unit: nesting placements composes the point maps exactly. *)
Theorem C12_cascade_apply :
  forall (K : Type) (R : ring_ops K), is_ring R ->
  forall (p q : transform K) (v : K * K),
    apply R (cascade R p q) v = apply R p (apply R q v).
Proof. exact (@cascade_apply). Qed.

Theorem C12_cascade_assoc :
  forall (K : Type) (R : ring_ops K), is_ring R ->
  forall p q r : transform K,
    cascade R (cascade R p q) r = cascade R p (cascade R q r)
    /\ cascade R (identity R) p = p /\ cascade R p (identity R) = p.
Proof.
  intros K R H p q r. split; [exact (cascade_assoc R H p q r)|].
  split; [exact (cascade_identity_l R H p) | exact (cascade_identity_r R H p)].
Qed.

(** (2) The elementary transforms are the operations they name: translation, rotation
    counter-clockwise ((1,0) goes to (c, s)), reflection about the x-axis. *)
Theorem C12_elementary_maps :
  forall (K : Type) (R : ring_ops K), is_ring R ->
  forall lx ly c s x y,
    apply R (translate R lx ly) (x, y) = (kadd R x lx, kadd R y ly)
    /\ apply R (rotate R c s) (x, y) =
       (kadd R (kmul R c x) (kopp R (kmul R s y)), kadd R (kmul R s x) (kmul R c y))
    /\ apply R (reflect_vert R) (x, y) = (x, kopp R y).
Proof.
  intros K R H lx ly c s x y. split; [exact (apply_translate R H lx ly x y)|].
  split; [exact (apply_rotate R H c s x y) | exact (apply_reflect_vert R H x y)].
Qed.

(** (3) The placement transform IS the composition of the library's own elementary transforms,
    translate . rotate . reflect: as a point map, reflect first, then rotate, then translate.
    Every location, reflection flag and (c, s). *)
Theorem C12_from_instance_is_composition :
  forall (K : Type) (R : ring_ops K), is_ring R ->
  forall (lx ly : K) (r : bool) (c s : K),
    from_instance R lx ly r c s =
    cascade R (translate R lx ly)
            (cascade R (rotate R c s) (if r then reflect_vert R else identity R)).
Proof. exact (@from_instance_is_composition). Qed.

Theorem C12_from_instance_point_map :
  forall (K : Type) (R : ring_ops K), is_ring R ->
  forall lx ly r c s v,
    apply R (from_instance R lx ly r c s) v =
    apply R (translate R lx ly)
          (apply R (rotate R c s) (apply R (if r then reflect_vert R else identity R) v)).
Proof. exact (@from_instance_point_map). Qed.

(** `angle: None` is the placement without rotation. *)
Theorem C12_from_instance_no_angle :
  forall (K : Type) (R : ring_ops K), is_ring R ->
  forall lx ly r,
    from_instance_opt R lx ly r None =
    cascade R (translate R lx ly) (if r then reflect_vert R else identity R).
Proof. exact (@from_instance_opt_none). Qed.

(** (4) The function as found is NOT that composition: reflected, 90 degrees (c = 0, s = 1),
    location (10, 20) sends (3, 1) to (9, 23); the composition sends it to (11, 23).
    Over Z it is the composition exactly when the placement is not reflected or s = 0. *)
Theorem C12_from_instance_orig_refuted :
  exists lx ly c s v,
    c * c + s * s = 1 /\
    apply_Z (from_instance_orig_Z lx ly true c s) v = (9, 23) /\
    apply_Z (cascade_Z (translate_Z lx ly) (cascade_Z (rotate_Z c s) reflect_vert_Z)) v = (11, 23).
Proof. exact from_instance_orig_refuted. Qed.

Theorem C12_from_instance_orig_correct_iff :
  forall lx ly r c s,
    from_instance_orig_Z lx ly r c s =
    cascade_Z (translate_Z lx ly) (cascade_Z (rotate_Z c s) (if r then reflect_vert_Z else identity_Z))
    <-> (r = false \/ s = 0).
Proof. exact from_instance_orig_correct_iff. Qed.

(** (5) Flattening a hierarchy of ANY depth: [flatten] emits, in order, every element of the
    hierarchy ([paths] lists them with the placements on their path, outermost first), each
    moved by the composition of the placements on its path, innermost placement first
    ([path_map]). It panics exactly when some instantiated cell has no layout. *)
Theorem C12_flatten_is_path_composition :
  forall (K : Type) (R : ring_ops K), is_ring R ->
  forall l : layout (placement K) (K * K),
    flatten_K R l =
    match paths l with
    | Some ps => Ok (map (fun pe => elem_map (path_map R (fst pe)) (snd pe)) ps)
    | None => Panic
    end.
Proof. exact (@flatten_is_path_composition). Qed.

(** ... where the transform held at the end of a path acts as the composition of the
    placements' point maps. *)
Theorem C12_path_transform_is_composition :
  forall (K : Type) (R : ring_ops K), is_ring R ->
  forall (path : list (placement K)) (v : K * K),
    apply R (along R (identity R) path) v =
    fold_right (fun p w => apply R (from_placement R p) w) v path.
Proof. exact (@along_identity_apply). Qed.

(** (6) Reflected placements are mirror images: determinant -1 when c^2 + s^2 = 1 (+1 when not
    reflected), determinants multiply along a chain, and the determinant is the factor applied
    to every signed area -- a reflected placement turns every triangle over. *)
Theorem C12_reflect_mirrors :
  forall (K : Type) (R : ring_ops K), is_ring R ->
  forall lx ly r c s,
    kadd R (kmul R c c) (kmul R s s) = k1 R ->
    det R (from_instance R lx ly r c s) = (if r then kopp R (k1 R) else k1 R).
Proof. exact (@reflect_mirrors). Qed.

Theorem C12_det_cascade :
  forall (K : Type) (R : ring_ops K), is_ring R ->
  forall p q, det R (cascade R p q) = kmul R (det R p) (det R q).
Proof. exact (@det_cascade). Qed.

Theorem C12_area_scaled_by_det :
  forall (K : Type) (R : ring_ops K), is_ring R ->
  forall t p q r,
    karea2 R (apply R t p) (apply R t q) (apply R t r) = kmul R (det R t) (karea2 R p q r).
Proof. exact (@area_scaled_by_det). Qed.

(** (7) At the right angles the (exact, K = Z) placement map is the specification's
    reflect / quarter-turns / translate. *)
Theorem C12_right_angle_is_spec :
  forall lx ly r a cs q v,
    exact_cs a = Some cs -> quarters_of a = Some q ->
    apply_Z (from_instance_Z lx ly r (fst cs) (snd cs)) v = place_pt (lx, ly, r, q) v.
Proof. exact from_instance_Z_spec. Qed.

(** Non-vacuity. *)
Example C12_nonvacuous :
  is_ring ZR /\
  exact_cs 270 = Some (0, -1) /\ quarters_of 270 = Some 3%nat /\
  apply_Z (from_instance_Z 10 20 true 0 1) (3, 1) = (11, 23) /\
  place_pt (10, 20, true, 1%nat) (3, 1) = (11, 23) /\
  flatten_K ZR (Layout [(7, Rect (0, 0) (3, 1))]
                       [((10, 20, true, Some (0, 1)),
                         Some (Layout [(8, Polygon [(3, 1); (0, 2)])]
                                      [((1, 1, false, Some (-1, 0)), Some (Layout [(9, Path [(1, 0)] 5)] []))]))])
  = Ok [(7, Rect (0, 0) (3, 1)); (8, Polygon [(11, 23); (12, 20)]); (9, Path [(11, 20)] 5)].
Proof. split; [exact ZRth|]. vm_compute. repeat split; reflexivity. Qed.

(** (8) Float level: NO ROUNDING DRIFT AT RIGHT ANGLES, up to an explicit depth.
    The binary64 arithmetic of the implementation (every `*` and `+` of `cascade` and of
    `Point::transform` rounded to nearest even, `isize as f64`, `round() as isize`), with the sine and
    cosine that libm actually returns (Gen/LibmGen.v, regenerated from the implementation on every
    run: e.g. cos 90 = 6.1e-17, sin 360 = -2.4e-16, so the float matrices are NOT the exact ones).

    For every chain of at most [D] nested placements (outermost first), each with location within
    [L], any reflect flag and an angle that is absent or in the table (0, +-90, +-180, +-270, 360
    degrees), and every integer point within [X]: the transform that [flatten_helper] accumulates
    along the chain ([chain_f identity_f chain], the float `cascade` of the `from_instance` matrices),
    applied by [Point::transform] ([apply_f]), is inside the float model (no overflow) and returns
    EXACTLY the image under the specification's composition of the placements ([path_image]:
    innermost placement first, each one reflect / quarter turns / translate) -- provided
    [drift_budget D L X]: 10 D^2 L + D L + 16 X D + 4 X + 4 <= 2^52.
    No separate hypothesis on the intermediate offsets is needed: they are within D * L < 2^52.
    Proof: an invariant along the chain (matrix entries within d * 2^-50 of the exact entries in
    {0, 1, -1}, offsets within 5/4 d^2 L 2^-50 of the exact integer offsets), each float operation
    within half an ulp, and |error| < 1/2 before the final `round`. Error analysis over Q. *)
Theorem C12_right_angle_chain_no_drift :
  forall (D L X : Z) (chain : list fplacement) (x y : Z),
    drift_budget D L X ->
    Z.of_nat (length chain) <= D -> Forall (placement_ok L) chain ->
    Z.abs x <= X -> Z.abs y <= X ->
    exists sp, spec_path_of chain = Some sp /\ chain_image_f chain (x, y) = Some (path_image sp (x, y)).
Proof. exact chain_image_exact. Qed.

(** ... in particular: depth <= 20 with locations up to 2^40, and depth <= 1024 with locations up
    to 2^28 (about 2.7e8 database units), points up to 2^31 in both cases. *)
Theorem C12_right_angle_chain_no_drift_depth20 :
  forall (chain : list fplacement) (x y : Z),
    (length chain <= 20)%nat -> Forall (placement_ok (2 ^ 40)) chain ->
    Z.abs x <= 2 ^ 31 -> Z.abs y <= 2 ^ 31 ->
    exists sp, spec_path_of chain = Some sp /\ chain_image_f chain (x, y) = Some (path_image sp (x, y)).
Proof. exact chain_image_exact_20. Qed.

Theorem C12_right_angle_chain_no_drift_depth1024 :
  forall (chain : list fplacement) (x y : Z),
    (length chain <= 1024)%nat -> Forall (placement_ok (2 ^ 28)) chain ->
    Z.abs x <= 2 ^ 31 -> Z.abs y <= 2 ^ 31 ->
    exists sp, spec_path_of chain = Some sp /\ chain_image_f chain (x, y) = Some (path_image sp (x, y)).
Proof. exact chain_image_exact_1024. Qed.

(** The exact image above is also the ring-level model's (K = Z, exact cosine and sine): the float
    result equals [apply_Z] of the exact cascade of the chain. *)
Theorem C12_right_angle_chain_float_is_ring :
  forall (D L X : Z) (chain : list fplacement) (x y : Z),
    drift_budget D L X ->
    Z.of_nat (length chain) <= D -> Forall (placement_ok L) chain ->
    Z.abs x <= X -> Z.abs y <= X ->
    exists zc t, zchain_of chain = Some zc /\ chain_f identity_f chain = Some t /\
                 apply_f t (x, y) = Some (apply_Z (chain_Z identity_Z zc) (x, y)).
Proof. exact chain_exact_Z. Qed.

(** A bound on the depth cannot be dropped: the error of the matrix entries grows linearly with
    the depth and multiplies the next location, so the offset error grows quadratically. With the
    sine of 360 degrees that libm returns on the machine where this was found (-2.4e-16, the bit
    pattern tested by [table360_as_seen]), 62 nested placements at (0, 2^40), each rotated by 360
    degrees and all within the hypotheses of the theorem except for the depth, send the origin to
    x = 1 instead of 0 (61 of them do not; the theorem covers 20; replayed on the implementation:
    `Point::transform` under the cascaded transform returns (1, 68169720922112)). *)
Theorem C12_right_angle_drift_at_depth_62 :
  table360_as_seen = true ->
  Forall (placement_ok (2 ^ 40)) (drift_chain 62) /\
  exists sp, spec_path_of (drift_chain 62) = Some sp /\ path_image sp (0, 0) = (0, 62 * 2 ^ 40) /\
             chain_image_f (drift_chain 61) (0, 0) = Some (0, 61 * 2 ^ 40) /\
             chain_image_f (drift_chain 62) (0, 0) = Some (1, 62 * 2 ^ 40).
Proof. exact drift_at_depth_62. Qed.

(** Non-vacuity of (8): a chain of depth 3 with locations and a point near 2^31, reflected twice,
    angles 90, -270, 180. Its float transform is inexact (on this machine a01 = -4967757600021511 *
    2^-105 where the exact entry is 0, and b0 = -4503599635759105 * 2^-21 is not an integer), the
    image is exact. *)
Example C12_right_angle_chain_nonvacuous :
  let chain := [(2 ^ 31 - 5, - 2 ^ 31 + 7, true, Some 90); (123456789, - 2 ^ 31, false, Some (-270));
                (- 2 ^ 31 + 1, 2 ^ 31 - 1, true, Some 180)] in
  let sp := [(2147483643, -2147483641, true, 1%nat); (123456789, -2147483648, false, 1%nat);
             (-2147483647, 2147483647, true, 2%nat)] in
  drift_budget 20 (2 ^ 40) (2 ^ 31) /\ (length chain <= 20)%nat /\ Forall (placement_ok (2 ^ 40)) chain /\
  spec_path_of chain = Some sp /\
  path_image sp (2 ^ 31 - 1, - 2 ^ 31) = (-4294967299, -2024026851) /\
  chain_image_f chain (2 ^ 31 - 1, - 2 ^ 31) = Some (-4294967299, -2024026851).
Proof. exact chain_nonvacuous. Qed.

(** (9) The same for the whole of [Layout::flatten] at the float level ([flatten_f]: the
    hierarchy walked by `flatten_helper` with the float `cascade`, `from_instance` and
    `Point::transform`): for a hierarchy with at most [D] levels of instances below the top cell,
    every placement within [L] and at a table angle, every point of every shape within [X]
    ([layout_ok]), and [drift_budget D L X]: the float-level flatten is inside the float model and
    returns exactly what the ring-level flatten (K = Z, exact cosine and sine) returns, hence
    ((5) above) every element moved by the exact composition of the placements on its path; it
    panics exactly when some instantiated cell has no layout. *)
Theorem C12_right_angle_flatten_no_drift :
  forall (D : nat) (L X : Z) (l : layout fplacement (Z * Z)),
    drift_budget (Z.of_nat D) L X -> layout_ok L X l D ->
    exists zl, zlayout_of l = Some zl /\ flatten_f l = flatten_K ZR zl /\
      flatten_f l =
      match paths zl with
      | Some ps => Ok (map (fun pe => elem_map (path_map ZR (fst pe)) (snd pe)) ps)
      | None => Panic
      end.
Proof. exact flatten_f_no_drift. Qed.

Example C12_right_angle_flatten_nonvacuous :
  let l := Layout [(7, Rect (0, 0) (3, 1))]
             [((2 ^ 31 - 1, - 2 ^ 31, true, Some 90),
               Some (Layout [(8, Polygon [(3, 1); (0, 2 ^ 31)])]
                            [((1, 1, false, Some (-180)), Some (Layout [(9, Path [(1, 0)] 5)] []));
                             ((- 2 ^ 30, 5, true, None),
                              Some (Layout [(10, Rect (-7, 2) (2 ^ 20, - 2 ^ 20))] []))]))] in
  drift_budget (Z.of_nat 2) (2 ^ 40) (2 ^ 31) /\ layout_ok (2 ^ 40) (2 ^ 31) l 2 /\
  flatten_f l = Ok [(7, Rect (0, 0) (3, 1));
                    (8, Polygon [(2147483648, -2147483645); (4294967295, -2147483648)]);
                    (9, Path [(2147483648, -2147483648)] 5);
                    (10, Rect (2147483650, -3221225479) (2148532228, -3220176896))].
Proof. exact flatten_nonvacuous. Qed.

(** (10) ANY DEPTH, when the repository computes the sine and cosine of the right angles exactly.
    [table_exactb] (decidable, Geom/TransformFloat.v) says that every sine and cosine of the
    regenerated table Gen/LibmGen.v -- read by the harness off the repository's own
    `Transform::rotate` / `Transform::from_instance` -- is exactly the mathematical value 0, 1 or -1.
    It is FALSE for `angle.to_radians().sin()` of libm (parts (8), (9) and the drift at depth 62 are
    about that table) and TRUE once geom.rs treats the multiples of 90 degrees exactly; it is a
    hypothesis here so that this file builds on both trees, and Geom/TransformFloatExact.v proves
    it ([table_exact_now], by computation) on a tree that carries the exact table.
    Then every product and every sum of `cascade` and `Point::transform` is an integer, and the
    float result is the exact image for chains of ANY depth, as long as the magnitudes stay below
    2^53 = the integers a double holds exactly. Precisely: every location |lx|, |ly| < 2^53; every
    offset of the exact cascade along the chain, one per prefix ([offsets_below (2^53) identity_Z zc]);
    the point |x|, |y| < 2^53; and both coordinates of the exact image < 2^53. *)
Theorem C12_right_angle_no_drift_any_depth :
  table_exactb = true ->
  forall (chain : list fplacement) (zc : list (placement Z)) (x y : Z),
    Forall (placement_ok (2 ^ 53 - 1)) chain -> zchain_of chain = Some zc ->
    offsets_below (2 ^ 53) identity_Z zc ->
    Z.abs x < 2 ^ 53 -> Z.abs y < 2 ^ 53 ->
    Z.abs (fst (apply_Z (chain_Z identity_Z zc) (x, y))) < 2 ^ 53 ->
    Z.abs (snd (apply_Z (chain_Z identity_Z zc) (x, y))) < 2 ^ 53 ->
    exists sp, spec_path_of chain = Some sp /\ chain_image_f chain (x, y) = Some (path_image sp (x, y)).
Proof. exact chain_image_exact_any_depth. Qed.

(** ... in particular with uniform bounds: locations within [L], point within [X], and
    (number of placements) * L + X < 2^53. No bound on the depth other than this one on magnitudes. *)
Theorem C12_right_angle_no_drift_any_depth_uniform :
  table_exactb = true ->
  forall (L X : Z) (chain : list fplacement) (x y : Z),
    0 <= L -> Forall (placement_ok L) chain -> Z.abs x <= X -> Z.abs y <= X ->
    Z.of_nat (length chain) * L + X < 2 ^ 53 ->
    exists sp, spec_path_of chain = Some sp /\ chain_image_f chain (x, y) = Some (path_image sp (x, y)).
Proof. exact chain_image_exact_any_depth_uniform. Qed.

(** ... and the whole of flatten: a hierarchy with [n] levels of instances (any n), placements
    within [L], shape points within [X], n * L + X < 2^53. *)
Theorem C12_right_angle_flatten_no_drift_any_depth :
  table_exactb = true ->
  forall (n : nat) (L X : Z) (l : layout fplacement (Z * Z)),
    0 <= L -> 0 <= X -> Z.of_nat n * L + X < 2 ^ 53 -> layout_ok L X l n ->
    exists zl, zlayout_of l = Some zl /\ flatten_f l = flatten_K ZR zl /\
      flatten_f l =
      match paths zl with
      | Some ps => Ok (map (fun pe => elem_map (path_map ZR (fst pe)) (snd pe)) ps)
      | None => Panic
      end.
Proof. exact flatten_f_exact_any_depth. Qed.

Print Assumptions C12_cascade_apply.
Print Assumptions C12_cascade_assoc.
Print Assumptions C12_elementary_maps.
Print Assumptions C12_from_instance_is_composition.
Print Assumptions C12_from_instance_point_map.
Print Assumptions C12_from_instance_no_angle.
Print Assumptions C12_from_instance_orig_refuted.
Print Assumptions C12_from_instance_orig_correct_iff.
Print Assumptions C12_flatten_is_path_composition.
Print Assumptions C12_path_transform_is_composition.
Print Assumptions C12_reflect_mirrors.
Print Assumptions C12_det_cascade.
Print Assumptions C12_area_scaled_by_det.
Print Assumptions C12_right_angle_is_spec.
Print Assumptions C12_right_angle_chain_no_drift.
Print Assumptions C12_right_angle_chain_no_drift_depth20.
Print Assumptions C12_right_angle_chain_no_drift_depth1024.
Print Assumptions C12_right_angle_chain_float_is_ring.
Print Assumptions C12_right_angle_drift_at_depth_62.
Print Assumptions C12_right_angle_flatten_no_drift.
Print Assumptions C12_right_angle_no_drift_any_depth.
Print Assumptions C12_right_angle_no_drift_any_depth_uniform.
Print Assumptions C12_right_angle_flatten_no_drift_any_depth.
