(** Kernels, converter families: the definitions GENERATED on every run from layout21raw/src/lef.rs and proto.rs
    (Gen/KernelsRaw2Gen.v, tools/translate_rust_kernels.py unit "raw2") against the hand-written models of C16
    (Raw/RawLef.v) and C14 (Raw/RawProto.v).  The generated terms are read over Z with range checks and ABSTRACT errors
    ([rc_xops], Raw/KernelsInstRaw2.v): [ounit] forgets the models' error kinds / messages.  See Properties/Kernels.v for
    the scheme and Base/KernelOpsX.v for `Result`, `?`, `match` and external functions.
    Proofs in Raw/KernelsTieRawLef_proofs.v (family raw_lef), Raw/KernelsTieRaw2_proofs.v (family raw_proto) and
    Raw/KernelsTieRawGds_proofs.v (family raw_gds, C06: Raw/RawGds.v). *)
From Coq Require Import ZArith Bool List.
From L21 Require Import Base.KernelOps Base.KernelOpsX Base.Outcome Gen.KernelsRaw2Gen Raw.KernelsInstRaw2.
From L21 Require Raw.RawData Raw.RawLefDec Raw.RawLefTypes Raw.RawLef Raw.RawProto.
From L21 Require Gds.GdsData Raw.RawGds.
From L21 Require Raw.KernelsTieRawLef_proofs Raw.KernelsTieRaw2_proofs Raw.KernelsTieRawGds_proofs.
Local Open Scope Z_scope.

(** * family raw_lef (C16) *)
Module KL.
Import Raw.RawLefDec Raw.RawLefTypes Raw.RawLef L.
(** `LefImporter::import_dist` with `dist_scale = 10_000`: `lefdec * LefDecimal::from(self.dist_scale)` is [dec_mul_10000],
    `!scaled.fract().is_zero()` an error, then `scaled.trunc().mantissa().try_into()?` *)
Theorem Ktie_lef_import_dist : forall d, g_import_dist d = ounit (import_dist d).
Proof. exact KernelsTieRawLef_proofs.tie_lef_import_dist. Qed.
(** `LefImporter::import_point`: x from `pt.x`, y from `pt.y` *)
Theorem Ktie_lef_import_point : forall p, g_import_point p = ounit (omap Gpt (import_point p)).
Proof. exact KernelsTieRawLef_proofs.tie_lef_import_point. Qed.
End KL.

(** * family raw_proto (C14) *)
Module KB.
Import Raw.RawData Raw.RawProto PB.
Theorem Ktie_proto_export_point : forall p, pt_ok p ->
  g_ProtoExporter_export_point rc_xops mk_gProtoExporter (Gpt p) = Ok (Gpp (export_point p)).
Proof. exact KernelsTieRaw2_proofs.tie_proto_export_point. Qed.
Theorem Ktie_proto_import_point : forall p, ppt_ok p ->
  g_ProtoImporter_import_point rc_xops mk_gProtoImporter (Gpp p) = Ok (Gpt (import_point p)).
Proof. exact KernelsTieRaw2_proofs.tie_proto_import_point. Qed.
(** `export_rect`: lower-left corner, width and height, an `i64` subtraction overflow being a panic *)
Theorem Ktie_proto_export_rect : forall p0 p1, pt_ok p0 -> pt_ok p1 ->
  g_ProtoExporter_export_rect rc_xops mk_gProtoExporter (mk_gRect (Gpt p0) (Gpt p1))
  = ounit (omap Gprect (export_rect p0 p1)).
Proof. exact KernelsTieRaw2_proofs.tie_proto_export_rect. Qed.
(** `import_rect`: a rectangle without location is an error, an `isize` addition overflow a panic *)
Theorem Ktie_proto_import_rect : forall r, prect_ok r ->
  g_ProtoImporter_import_rect rc_xops mk_gProtoImporter (Gprect r) = ounit (omap Gshape (import_rect r)).
Proof. exact KernelsTieRaw2_proofs.tie_proto_import_rect. Qed.
End KB.

(** * family raw_gds (C06) *)
Module KG.
Import Raw.RawData GI.
(** `GdsImporter::import_boundary` (repaired: no coordinates is an error): closure test, `pop`, the two rectangle patterns *)
Theorem Ktie_gds_import_boundary : forall c ly x, R.fx_emptyxy c = true ->
  g_import_boundary ly x = iunit (fun le => Gelem (snd le)) (R.import_boundary c ly x).
Proof. exact KernelsTieRawGds_proofs.tie_gds_import_boundary. Qed.
End KG.

Print Assumptions KL.Ktie_lef_import_dist.
Print Assumptions KL.Ktie_lef_import_point.
Print Assumptions KB.Ktie_proto_export_point.
Print Assumptions KB.Ktie_proto_import_point.
Print Assumptions KB.Ktie_proto_export_rect.
Print Assumptions KB.Ktie_proto_import_rect.
Print Assumptions KG.Ktie_gds_import_boundary.
