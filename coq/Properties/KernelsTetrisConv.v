(** Kernels, tetris -> raw compiler (property C08): the definitions GENERATED on every run from
    layout21tetris/src/conv/raw.rs (Gen/KernelsTetrisConvXGen.v, Gen/KernelsTetrisConvIGen.v; tools/translate_rust_kernels.py units
    "tconvx", "tconvi") against the hand-written model Tetris/Compile.v.  Readings: Tetris/KernelsInstConv.v.  Proofs:
    Tetris/KernelsTieConv_proofs.v (family tetris_conv).  See Properties/KernelsTetris.v for the stack / track kernels the
    external functions of these definitions are tied by. *)
From Coq Require Import ZArith Bool List.
From L21 Require Import Base.KernelOps Base.KernelOpsX Base.KernelOpsS Tetris.KernelsInstConv.
From L21 Require Tetris.Stack Tetris.Tracks Tetris.Compile.
From L21 Require Tetris.KernelsTieConv_proofs.
From L21 Require Gen.KernelsTetrisConvPGen Tetris.KernelsInstPeriod Tetris.KernelsTiePeriod_proofs.
Import ListNotations.
Local Open Scope Z_scope.

(** `track_cross_xy`, for a stack whose layers are numbered by their position (what validation produces) *)
Theorem Ktie_track_cross_xy : forall fx vs c, CX.indexed_stack vs ->
  CX.g_track_cross_xy fx vs c = S.bind (C.track_cross_xy fx vs c) (fun p => S.Ok (CX.Gxy p)).
Proof. exact KernelsTieConv_proofs.tie_track_cross_xy. Qed.
(** `instance_intersects` of an absolutely placed instance *)
Theorem Ktie_instance_intersects : forall vs i vm periodnum,
  CI.g_instance_intersects vs i vm periodnum = S.Ok (C.instance_intersects vs i vm periodnum).
Proof. exact KernelsTieConv_proofs.tie_instance_intersects. Qed.

(** * one period of one layer of one cell (family tetris_period; readings: Tetris/KernelsInstPeriod.v) *)
Module KP.
Import Tetris.KernelsInstPeriod.
Module T := Tetris.KernelsTiePeriod_proofs.
(** `assign_track`; track numbers are values of usize *)
Theorem Ktie_assign_track : forall fx vs vm sigs rails v top,
  0 <= snd (C.va_top v) -> 0 <= snd (C.va_bot v) ->
  g_assign_track fx vs vm sigs rails v top = cls (fun s' => Glp (s', rails)) (C.assign_track fx vs vm sigs v top).
Proof. exact T.tie_assign_track. Qed.
(** `export_cell_layer_period`, the whole function, for the tree as repaired (cut and via spans of odd sizes); the
    hypotheses say that indices and track numbers are values of usize and that [keyf] finds a cut's index from its crossing *)
Theorem Ktie_export_period : forall fx vs vm keyf span_ periodnum tp, C.fx_odd fx = true ->
  (forall a b i, In (a, b, i) (C.tp_blocks tp) -> 0 <= i) ->
  (forall k c, In (k, c) (C.tp_cuts tp) -> keyf c = k /\ 0 <= C.x_tt c) ->
  (forall v, In v (C.tp_bot tp) -> 0 <= snd (C.va_top v) /\ 0 <= snd (C.va_bot v)) ->
  (forall v, In v (C.tp_top tp) -> 0 <= snd (C.va_top v) /\ 0 <= snd (C.va_bot v)) ->
  g_export_period fx vs vm keyf span_ periodnum tp = cls (map Gshape) (C.export_period fx vs vm span_ periodnum tp).
Proof. exact T.tie_export_period. Qed.
End KP.

Print Assumptions Ktie_track_cross_xy.
Print Assumptions Ktie_instance_intersects.
Print Assumptions KP.Ktie_assign_track.
Print Assumptions KP.Ktie_export_period.
