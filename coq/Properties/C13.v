(** C13 -- Point-in-shape answers agree with exact geometry. (work in progress) *)
From Coq Require Import ZArith Bool List Lia.
From L21 Require Import Geom.ContainsSpec Geom.Contains Geom.ContainsCheck Geom.Contains_proofs.
Import ListNotations.
Local Open Scope Z_scope.

Theorem C13_polygon_orig_refuted_stub :
  poly_contains_orig [(0,0);(5,0);(5,4);(0,4);(1,2)] (0,2) = Ret true /\
  in_regionb [(0,0);(5,0);(5,4);(0,4);(1,2)] (0,2) = false.
Proof. exact orig_refuted_vertex. Qed.
Print Assumptions C13_polygon_orig_refuted_stub.
