(** C13 -- Point-in-shape answers agree with exact geometry.
    Property theorems only; proofs are in Geom/Contains_proofs.v.

    Model: Geom/Contains.v -- [rect_contains], [poly_contains] (Polygon::contains after the repair
    work/c13/fix-polygon-contains.patch: exact i128 cross product, half-open crossing rule),
    [poly_contains_orig] (Polygon::contains as found), [path_contains]; results are
    [Ret b | Ovf | Panic].  Specification: Geom/ContainsSpec.v, written from exact geometry:
    [on_seg], [on_boundary], [crossings] / [winding] (unsigned / signed number of edges that cross
    the open rightward ray from q under the half-open rule, sides decided by cross-product sign),
    [in_region]    = on the boundary, or an odd number of crossings      (even-odd rule),
    [in_region_nz] = on the boundary, or a non-zero signed crossing count (non-zero-winding rule),
    [in_box], [near_seg] / [far_seg] (paths, DESIGN.md section 4).  Points are pairs of [Z]. *)
From Coq Require Import ZArith Bool List Lia.
From L21 Require Import Geom.ContainsSpec Geom.Contains Geom.ContainsCheck Geom.Contains_proofs.
Import ListNotations.
Local Open Scope Z_scope.

(** * 1. Rectangles: the closed box, corners in any order, no range restriction *)
Theorem C13_rect :
  forall p0 p1 q, rect_contains p0 p1 q = true <-> in_box p0 p1 q.
Proof. exact rect_contains_spec. Qed.

(** * 2. Polygons (repaired code)

    (a) For ALL vertex lists (simple or not, any orientation, any starting vertex, repeated and
    collinear vertices, degenerate lists, any coordinates): whenever the call returns, it returns
    [true] exactly on the closed region of the non-zero-winding rule.  No coordinate bound is
    needed for this: an overflow is a distinct outcome [Ovf], never a wrong answer. *)
Theorem C13_polygon :
  forall P q b, poly_contains P q = Ret b -> (b = true <-> in_region_nz P q).
Proof. exact poly_contains_nz. Qed.

(** (b) The call does return (no overflow, no panic) when every coordinate is below 2^62 in
    magnitude ([pt_ok]); this covers the whole 32-bit GDSII range with 30 bits to spare. *)
Theorem C13_polygon_no_overflow :
  forall P q, Forall pt_ok P -> pt_ok q -> exists b, poly_contains P q = Ret b.
Proof. exact poly_contains_total. Qed.

Theorem C13_polygon_computes :
  forall P q, Forall pt_ok P -> pt_ok q -> poly_contains P q = Ret (in_region_nzb P q).
Proof. exact poly_contains_eq_nzb. Qed.

(** (c) Even-odd form, as the property is stated ("the closed region the shape covers"): the
    answer is [true] exactly on [in_region P q] whenever the signed crossing count of [q] is
    -1, 0 or 1.  Simple polygons have this bound (Jordan curve theorem); that implication is
    NOT proved here -- see [C13_polygon_simple_full] below. *)
Theorem C13_polygon_evenodd :
  forall P q b, poly_contains P q = Ret b -> -1 <= winding P q <= 1 ->
    (b = true <-> in_region P q).
Proof.
  intros P q b H Hw. rewrite (in_region_nz_iff P q Hw). exact (poly_contains_nz P q b H).
Qed.

(** The two rules are comparable in general and differ only by multiply-wound points. *)
Theorem C13_evenodd_vs_nonzero :
  (forall P q, in_region P q -> in_region_nz P q) /\
  (forall P q, -1 <= winding P q <= 1 -> (in_region P q <-> in_region_nz P q)) /\
  (forall P q, Z.odd (crossings P q) = Z.odd (winding P q)).
Proof. exact (conj in_region_in_nz (conj in_region_nz_iff crossings_winding_parity)). Qed.

(** The even-odd form does NOT hold for all vertex lists: a list running twice round a square
    has winding number 2 at the centre; the code answers true, the even-odd rule says outside.
    (The list is not simple, so the property statement is silent about it.) *)
Theorem C13_polygon_evenodd_needs_winding_bound :
  exists P q, poly_contains P q = Ret true /\ winding P q = 2 /\ ~ in_region P q /\ simpleb P = false.
Proof. exists double_square, (1, 1). exact double_square_facts. Qed.

(** The full even-odd statement for simple polygons; what is missing for it is exactly
    [C13_simple_winding_bound_full] (a discrete Jordan curve theorem for [simpleb]); the
    correspondence run checks the implementation against [in_regionb] on every generated
    simple polygon (exhaustively on small grids). *)
Definition C13_simple_winding_bound_full : Prop :=
  forall P q, simpleb P = true -> -1 <= winding P q <= 1.
Definition C13_polygon_simple_full : Prop :=
  forall P q b, simpleb P = true -> poly_contains P q = Ret b -> (b = true <-> in_region P q).
Theorem C13_polygon_simple_partial :
  C13_simple_winding_bound_full -> C13_polygon_simple_full.
Proof.
  intros HJ P q b Hs H. apply C13_polygon_evenodd; [exact H|]. apply HJ. exact Hs.
Qed.

(** (d) Containment is inclusive: every vertex of the list and every point of every edge is
    answered [true] (the documented contract of [ShapeTrait::contains]). *)
Theorem C13_polygon_boundary_inside :
  (forall P v, In v P -> on_boundary P v) /\
  (forall P q b, poly_contains P q = Ret b -> on_boundary P q -> b = true).
Proof. exact (conj vertex_on_boundary boundary_inside). Qed.

(** (e) Rect::to_poly: the polygon code and the rectangle code agree. *)
Theorem C13_polygon_rect :
  forall p0 p1 q, pt_ok p0 -> pt_ok p1 -> pt_ok q ->
    poly_contains (rect_to_poly p0 p1) q = Ret (rect_contains p0 p1 q).
Proof. exact poly_rect_agree. Qed.

(** * 3. The specification is a geometric object, not an algorithm: both regions are invariant
    under every re-presentation of the same polygon and under the symmetries that keep the
    ray horizontal. *)

(** cyclic shift of the vertex list (any starting vertex) *)
Theorem C13_region_rotate :
  forall l1 l2 q, (in_region (l2 ++ l1) q <-> in_region (l1 ++ l2) q) /\
                  (in_region_nz (l2 ++ l1) q <-> in_region_nz (l1 ++ l2) q).
Proof. intros. split; [apply in_region_rotate|apply in_region_nz_rotate]. Qed.

(** reversal (orientation) *)
Theorem C13_region_reverse :
  forall P q, (in_region (rev P) q <-> in_region P q) /\ (in_region_nz (rev P) q <-> in_region_nz P q).
Proof. intros. split; [apply in_region_rev|apply in_region_nz_rev]. Qed.

(** a vertex repeated, anywhere in the list *)
Theorem C13_region_repeated_vertex :
  forall l1 a l2 q, (in_region (l1 ++ a :: a :: l2) q <-> in_region (l1 ++ a :: l2) q) /\
                    (in_region_nz (l1 ++ a :: a :: l2) q <-> in_region_nz (l1 ++ a :: l2) q).
Proof. intros. split; [apply in_region_insert_repeat|apply in_region_nz_insert_repeat]. Qed.

(** a vertex [m] inserted on the edge from [a] to the next vertex (cyclically [hd a (l2 ++ l1)]) *)
Theorem C13_region_collinear_vertex :
  forall l1 a l2 m q, on_seg a (hd a (l2 ++ l1)) m ->
    (in_region (l1 ++ a :: m :: l2) q <-> in_region (l1 ++ a :: l2) q) /\
    (in_region_nz (l1 ++ a :: m :: l2) q <-> in_region_nz (l1 ++ a :: l2) q).
Proof. intros. split; [apply in_region_insert_collinear|apply in_region_nz_insert_collinear]; assumption. Qed.

(** translation *)
Theorem C13_region_translate :
  forall d P q, (in_region (map (shift d) P) (shift d q) <-> in_region P q) /\
                (in_region_nz (map (shift d) P) (shift d q) <-> in_region_nz P q).
Proof. intros. split; [apply in_region_shift|apply in_region_nz_shift]. Qed.

(** mirror image in the y axis (x -> -x): the ray to the right becomes the ray to the left *)
Theorem C13_region_mirror_x :
  forall P q, (in_region (map mirror_x P) (mirror_x q) <-> in_region P q) /\
              (in_region_nz (map mirror_x P) (mirror_x q) <-> in_region_nz P q).
Proof. intros. split; [apply in_region_mirror_x|apply in_region_nz_mirror_x]. Qed.

(** mirror image in the x axis (y -> -y): the half-open rule becomes upper-closed *)
Theorem C13_region_mirror_y :
  forall P q, (in_region (map mirror_y P) (mirror_y q) <-> in_region P q) /\
              (in_region_nz (map mirror_y P) (mirror_y q) <-> in_region_nz P q).
Proof. intros. split; [apply in_region_mirror_y|apply in_region_nz_mirror_y]. Qed.

(** a rectangle presented as a 4-vertex polygon -- corners in any order, any of the four starting
    corners, either orientation -- is the closed box, under both rules *)
Theorem C13_region_rectangle :
  forall p0 p1 (l1 l2 : list pt) q,
    l1 ++ l2 = rect_to_poly p0 p1 \/ l1 ++ l2 = rev (rect_to_poly p0 p1) ->
    (in_region (l2 ++ l1) q <-> in_box p0 p1 q) /\ (in_region_nz (l2 ++ l1) q <-> in_box p0 p1 q).
Proof. exact rect_poly_all_variants. Qed.

(** a point outside the bounding box of the vertices is outside both regions *)
Theorem C13_region_inside_bbox :
  forall P q, outside_bbox P q -> ~ in_region_nz P q /\ ~ in_region P q.
Proof.
  intros P q H. split; [exact (outside_bbox_not_in_region_nz P q H)|].
  intros Hr. exact (outside_bbox_not_in_region_nz P q H (in_region_in_nz P q Hr)).
Qed.

(** the oracles the correspondence run evaluates decide the specification *)
Theorem C13_checker_sound :
  (forall P q, in_regionb P q = true <-> in_region P q) /\
  (forall P q, in_region_nzb P q = true <-> in_region_nz P q) /\
  (forall P q, on_boundaryb P q = true <-> on_boundary P q).
Proof. exact (conj in_regionb_spec (conj in_region_nzb_spec on_boundaryb_spec)). Qed.

(** * 4. Manhattan paths, in the form fixed in DESIGN.md section 4.

    [path_ok ps w]: at least one point, every segment axis-parallel, 0 <= w < 2^62, coordinates
    below 2^62 in magnitude.  Then the call returns [r] (no overflow, no panic) and
    - [r = true] EXACTLY on [path_cover (w quot 2) ps q]: some segment (a, b) has
      ax = bx, |qx - ax| <= w quot 2 and qy between ay and by (zero-length segments are read this way), or
      ax <> bx, ay = by, |qy - ay| <= w quot 2 and qx between ax and bx;
    - must-accept: q on a segment, or within w/2 (exact, so odd widths lose nothing for integer
      points: 2d <= w <-> d <= w quot 2) perpendicular distance of a segment of non-zero length with its
      projection on the segment  ==>  [r = true];
    - must-reject: Chebyshev distance from q to every segment above w/2  ==>  [r = false];
    - in between (beyond segment ends, corner notches, around zero-length segments) the answer is the
      one [path_cover] gives; the property does not judge it. *)
Theorem C13_path :
  forall ps w q, path_ok ps w ->
    exists r, path_contains ps w q = Ret r /\
      (r = true <-> path_cover (Z.quot w 2) ps q) /\
      ((exists a b, In (a, b) (chain ps) /\ near_seg w a b q) -> r = true) /\
      ((forall a b, In (a, b) (chain ps) -> far_seg w a b q) -> r = false).
Proof. exact path_contains_spec. Qed.

Theorem C13_path_half_width :
  forall w d, 0 <= w -> (2 * d <= w <-> d <= Z.quot w 2).
Proof. exact half_width. Qed.

(** outside [path_ok]: an empty point list panics (usize underflow of [len - 1]); a first segment
    that is not axis-parallel panics ([unimplemented!]) *)
Theorem C13_path_panics :
  (forall w q, path_contains [] w q = Panic) /\
  (forall a b ps w q, in_int w = true -> px a <> px b -> py a <> py b ->
     path_contains (a :: b :: ps) w q = Panic).
Proof. exact (conj path_contains_empty path_contains_nonmanhattan_first). Qed.

(** * 5. The code as found violates the property on simple polygons: two independent witnesses.
    - (0,0),(5,0),(5,4),(0,4),(1,2) queried at (0,2): the ray grazes the pass-through vertex
      (1,2), both incident edges count, the answer is true, the point is outside;
    - the triangle (0,0),(1,3),(1,0) queried at (0,1): the truncating division gives x = 0 = q.x,
      the answer is true, the point is outside.
    The repaired code answers false on both.  Moreover the code as found overflows isize inside
    the 32-bit coordinate range, where the repaired code answers correctly. *)
Theorem C13_polygon_orig_refuted :
  (exists P q, simpleb P = true /\ poly_contains_orig P q = Ret true /\ ~ in_region P q /\ ~ in_region_nz P q /\
               poly_contains P q = Ret false) /\
  (simpleb wit_vertex = true /\ poly_contains_orig wit_vertex (0, 2) = Ret true /\ ~ in_region wit_vertex (0, 2)) /\
  (simpleb wit_division = true /\ poly_contains_orig wit_division (0, 1) = Ret true /\ ~ in_region wit_division (0, 1)).
Proof.
  split; [exists wit_vertex, (0, 2); exact orig_refuted_vertex|].
  destruct orig_refuted_vertex as [A [B [C _]]]. destruct orig_refuted_division as [A' [B' [C' _]]].
  exact (conj (conj A (conj B C)) (conj A' (conj B' C'))).
Qed.

Theorem C13_polygon_orig_overflows_in_i32_range :
  poly_contains_orig wit_i32 (0, -2147483647) = Ovf /\
  poly_contains wit_i32 (0, -2147483647) = Ret true /\ in_region wit_i32 (0, -2147483647).
Proof. exact orig_overflow_i32. Qed.

(** * Non-vacuity *)

(** a concave simple polygon with a pass-through vertex, a repeated vertex and a collinear vertex;
    queried inside, on an edge, at a vertex, at vertex height outside, and far away: the hypotheses
    of 2(a)-(c) hold and both answers occur *)
Definition ex_poly : list pt := [(0,0);(3,0);(5,0);(5,4);(5,4);(0,4);(1,2)].
Example C13_polygon_nonvacuous :
  simpleb ex_poly = true /\ Forall pt_ok ex_poly /\
  poly_contains ex_poly (2, 2) = Ret true /\ in_region ex_poly (2, 2) /\ winding ex_poly (2, 2) = 1 /\
  poly_contains ex_poly (0, 2) = Ret false /\ ~ in_region ex_poly (0, 2) /\ winding ex_poly (0, 2) = 0 /\
  poly_contains ex_poly (4, 0) = Ret true /\ poly_contains ex_poly (1, 2) = Ret true /\
  poly_contains ex_poly (7, 2) = Ret false /\ poly_contains ex_poly (-1, 2) = Ret false /\
  poly_contains (rev ex_poly) (2, 2) = Ret true /\ winding (rev ex_poly) (2, 2) = -1.
Proof.
  split; [vm_compute; reflexivity|]. split.
  { assert (Hk : forall x y, Z.abs x < 2 ^ 62 -> Z.abs y < 2 ^ 62 -> pt_ok (x, y)) by (intros; split; assumption).
    unfold ex_poly. repeat (apply Forall_cons; [apply Hk; reflexivity|]). apply Forall_nil. }
  split; [vm_compute; reflexivity|]. split; [apply in_regionb_spec; vm_compute; reflexivity|].
  split; [vm_compute; reflexivity|]. split; [vm_compute; reflexivity|].
  split; [intros H; apply in_regionb_spec in H; vm_compute in H; discriminate|].
  repeat split; vm_compute; reflexivity.
Qed.

(** a Manhattan path with an odd width, a corner and a zero-length segment: [path_ok] holds;
    a must-accept point, a must-reject point, and unspecified points with both answers *)
Definition ex_path : list pt := [(0,0);(6,0);(6,5);(6,5)].
Example C13_path_nonvacuous :
  path_ok ex_path 3 /\
  (exists a b, In (a, b) (chain ex_path) /\ near_seg 3 a b (2, 1)) /\ path_contains ex_path 3 (2, 1) = Ret true /\
  (forall a b, In (a, b) (chain ex_path) -> far_seg 3 a b (2, 2)) /\ path_contains ex_path 3 (2, 2) = Ret false /\
  path_contains ex_path 3 (7, -1) = Ret false /\ path_contains ex_path 3 (7, 0) = Ret true /\
  path_contains ex_path 3 (6, 6) = Ret false /\ path_contains ex_path 3 (7, 5) = Ret true.
Proof.
  split.
  { unfold path_ok, ex_path. split; [discriminate|]. split.
    - assert (Hk : forall x y, Z.abs x < 2 ^ 62 -> Z.abs y < 2 ^ 62 -> pt_ok (x, y)) by (intros; split; assumption).
      repeat (apply Forall_cons; [apply Hk; reflexivity|]). apply Forall_nil.
    - split; [split; [lia|vm_compute; reflexivity]|].
      cbn [chain]. apply Forall_cons; [right; reflexivity|]. apply Forall_cons; [left; reflexivity|].
      apply Forall_cons; [left; reflexivity|]. apply Forall_nil. }
  split.
  { exists (0,0), (6,0). split; [left; reflexivity|]. right; right.
    unfold px, py; cbn [fst snd]. repeat split; try lia; discriminate. }
  split; [vm_compute; reflexivity|]. split.
  { intros a b [H|[H|[H|[]]]]; injection H as <- <-; vm_compute; reflexivity. }
  repeat split; vm_compute; reflexivity.
Qed.

Print Assumptions C13_rect.
Print Assumptions C13_polygon.
Print Assumptions C13_polygon_no_overflow.
Print Assumptions C13_polygon_computes.
Print Assumptions C13_polygon_evenodd.
Print Assumptions C13_evenodd_vs_nonzero.
Print Assumptions C13_polygon_evenodd_needs_winding_bound.
Print Assumptions C13_polygon_simple_partial.
Print Assumptions C13_polygon_boundary_inside.
Print Assumptions C13_polygon_rect.
Print Assumptions C13_region_rotate.
Print Assumptions C13_region_reverse.
Print Assumptions C13_region_repeated_vertex.
Print Assumptions C13_region_collinear_vertex.
Print Assumptions C13_region_translate.
Print Assumptions C13_region_mirror_x.
Print Assumptions C13_region_mirror_y.
Print Assumptions C13_region_rectangle.
Print Assumptions C13_region_inside_bbox.
Print Assumptions C13_checker_sound.
Print Assumptions C13_path.
Print Assumptions C13_path_half_width.
Print Assumptions C13_path_panics.
Print Assumptions C13_polygon_orig_refuted.
Print Assumptions C13_polygon_orig_overflows_in_i32_range.
