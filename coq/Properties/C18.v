(** C18 -- JSON and YAML copies of GDSII and LEF libraries are lossless.
    Layer 1 (this file): the serde data-model round trip, for the shapes GENERATED from
    gds21/src/data.rs and lef21/src/data.rs on every run (Gen/SerdeShapeGen.v).
    The text layers (serde_json / serde_yaml printers and parsers, float printing) are
    third-party code: covered by the correspondence run only (DESIGN.md C18, partial). *)
From Coq Require Import ZArith Bool List String.
From L21 Require Import Serde.SerdeGeneric Serde.SerdeGeneric_proofs Gen.SerdeShapeGen.
Import ListNotations.
Local Open Scope string_scope.

(** (1) Generic: for ANY type shape whose attributes are consistent, every well-typed value
    whose always-skipped fields hold their defaults (and that has no Some of a nullable type)
    deserialises from its own serialisation to itself. *)
Theorem C18_de_ser :
  forall t v, shape_ok t = true -> wt t v = true -> skipped_default t v = true ->
    de t (ser t v) = Some v.
Proof. exact de_ser. Qed.

(** (2) When a shape has no lossy field at all, the value-level condition is vacuous. *)
Theorem C18_no_lossy_fields :
  forall pre t v, lossy_fields pre t = [] -> wt t v = true -> skipped_default t v = true.
Proof. exact no_lossy_fields. Qed.

(** (3) The shapes read from the Rust sources today are consistent (re-checked on every run). *)
Theorem C18_gds_shape_ok : shape_ok gds_library_ty = true.
Proof. vm_compute. reflexivity. Qed.

Theorem C18_lef_shape_ok : shape_ok lef_library_ty = true.
Proof. vm_compute. reflexivity. Qed.

(** (4) GDSII: no lossy field, hence every GdsLibrary value round-trips, unconditionally. *)
Theorem C18_gds_lossy_fields : lossy_fields "GdsLibrary" gds_library_ty = [].
Proof. vm_compute. reflexivity. Qed.

Theorem C18_gds_roundtrip :
  forall v, wt gds_library_ty v = true -> de gds_library_ty (ser gds_library_ty v) = Some v.
Proof.
  intros v Hwt. apply C18_de_ser; [exact C18_gds_shape_ok | exact Hwt |].
  apply (C18_no_lossy_fields "GdsLibrary"); [exact C18_gds_lossy_fields | exact Hwt].
Qed.

(** (5) LEF: exactly these fields can lose information (known-finding classes lef-fixed-mask-true
    and lef-some-unsupported); any OTHER lossy attribute added to the sources breaks this theorem. *)
Theorem C18_lef_lossy_fields :
  lossy_fields "LefLibrary" lef_library_ty =
  [ "LefLibrary.macros.fixed_mask"; "LefLibrary.sites.row_pattern";
    "LefLibrary.vias.data/Generated.pattern?"; "LefLibrary.vias.properties";
    "LefLibrary.fixed_mask"; "LefLibrary.layers"; "LefLibrary.max_via_stack";
    "LefLibrary.via_rules"; "LefLibrary.via_rule_generators"; "LefLibrary.non_default_rules" ].
Proof. vm_compute. reflexivity. Qed.

Theorem C18_lef_roundtrip :
  forall v, wt lef_library_ty v = true -> skipped_default lef_library_ty v = true ->
    de lef_library_ty (ser lef_library_ty v) = Some v.
Proof. intros v Hwt Hsk. apply C18_de_ser; [exact C18_lef_shape_ok | exact Hwt | exact Hsk]. Qed.

(** (6) The excluded class really loses information: a `skip_serializing` bool holding true. *)
Theorem C18_skip_always_refuted :
  exists t v, shape_ok t = true /\ wt t v = true /\ de t (ser t v) <> Some v.
Proof.
  exists (TStruct [Field "fixed_mask" "fixed_mask" SkAlways true TBool]), (VList [VB true]).
  vm_compute. repeat split; discriminate.
Qed.

(** Non-vacuity: a concrete non-trivial well-typed value for a generated shape. *)
Example C18_nonvacuous :
  let v := VList [VI 5; VS "a""b"] in
  wt ty_gds_GdsProperty v = true /\ skipped_default ty_gds_GdsProperty v = true /\
  ser ty_gds_GdsProperty v = SMap [("attr", SInt 5); ("value", SStr "a""b")].
Proof. vm_compute. repeat split; reflexivity. Qed.

Print Assumptions C18_de_ser.
Print Assumptions C18_no_lossy_fields.
Print Assumptions C18_gds_shape_ok.
Print Assumptions C18_lef_shape_ok.
Print Assumptions C18_gds_lossy_fields.
Print Assumptions C18_gds_roundtrip.
Print Assumptions C18_lef_lossy_fields.
Print Assumptions C18_lef_roundtrip.
Print Assumptions C18_skip_always_refuted.
