(** C18 -- JSON and YAML copies of GDSII and LEF libraries are lossless.
    Layer 1 (this file): the serde data-model round trip, for the shapes GENERATED from
    gds21/src/data.rs and lef21/src/data.rs on every run (Gen/SerdeShapeGen.v).
    Layer 2 (second half of this file): the JSON text - a model of serde_json's pretty printer and parser and of
    textwrap::dedent (Serde/JsonText.v, compared with the implementation on every run), the theorem that the parser
    reads back what the printer wrote, and the composition with layer 1.  The decimal form of doubles (ryu,
    serde_json's number parser) is an oracle hypothesis; the YAML text layer (serde_yaml) is third-party code
    covered by the correspondence run only (DESIGN.md C18, partial). *)
From Coq Require Import ZArith Bool List String.
From L21 Require Import Serde.SerdeGeneric Serde.SerdeGeneric_proofs Gen.SerdeShapeGen.
Import ListNotations.
Local Open Scope string_scope.

(** (1) Generic: for ANY type shape whose attributes are consistent, every well-typed value
    whose always-skipped fields hold their defaults (and that has no Some of a nullable type)
    deserialises from its own serialisation to itself. *)
Theorem C18_de_ser :
  forall t v, shape_ok t = true -> wt t v = true -> skipped_default t v = true ->
    de t (ser t v) = Some v.
Proof. exact de_ser. Qed.

(** (2) When a shape has no lossy field at all, the value-level condition is vacuous. *)
Theorem C18_no_lossy_fields :
  forall pre t v, lossy_fields pre t = [] -> wt t v = true -> skipped_default t v = true.
Proof. exact no_lossy_fields. Qed.

(** (3) The shapes read from the Rust sources today are consistent (re-checked on every run). *)
Theorem C18_gds_shape_ok : shape_ok gds_library_ty = true.
Proof. vm_compute. reflexivity. Qed.

Theorem C18_lef_shape_ok : shape_ok lef_library_ty = true.
Proof. vm_compute. reflexivity. Qed.

(** (4) GDSII: no lossy field, hence every GdsLibrary value round-trips, unconditionally. *)
Theorem C18_gds_lossy_fields : lossy_fields "GdsLibrary" gds_library_ty = [].
Proof. vm_compute. reflexivity. Qed.

Theorem C18_gds_roundtrip :
  forall v, wt gds_library_ty v = true -> de gds_library_ty (ser gds_library_ty v) = Some v.
Proof.
  intros v Hwt. apply C18_de_ser; [exact C18_gds_shape_ok | exact Hwt |].
  apply (C18_no_lossy_fields "GdsLibrary"); [exact C18_gds_lossy_fields | exact Hwt].
Qed.

(** (5) LEF: exactly these fields can lose information (known-finding classes lef-fixed-mask-true
    and lef-some-unsupported); any OTHER lossy attribute added to the sources breaks this theorem. *)
Theorem C18_lef_lossy_fields :
  lossy_fields "LefLibrary" lef_library_ty =
  [ "LefLibrary.macros.fixed_mask"; "LefLibrary.sites.row_pattern";
    "LefLibrary.vias.data/Generated.pattern?"; "LefLibrary.vias.properties";
    "LefLibrary.fixed_mask"; "LefLibrary.layers"; "LefLibrary.max_via_stack";
    "LefLibrary.via_rules"; "LefLibrary.via_rule_generators"; "LefLibrary.non_default_rules" ].
Proof. vm_compute. reflexivity. Qed.

Theorem C18_lef_roundtrip :
  forall v, wt lef_library_ty v = true -> skipped_default lef_library_ty v = true ->
    de lef_library_ty (ser lef_library_ty v) = Some v.
Proof. intros v Hwt Hsk. apply C18_de_ser; [exact C18_lef_shape_ok | exact Hwt | exact Hsk]. Qed.

(** (6) The excluded class really loses information: a `skip_serializing` bool holding true. *)
Theorem C18_skip_always_refuted :
  exists t v, shape_ok t = true /\ wt t v = true /\ de t (ser t v) <> Some v.
Proof.
  exists (TStruct [Field "fixed_mask" "fixed_mask" SkAlways true TBool]), (VList [VB true]).
  vm_compute. repeat split; discriminate.
Qed.

(** Non-vacuity: a concrete non-trivial well-typed value for a generated shape. *)
Example C18_nonvacuous :
  let v := VList [VI 5; VS "a""b"] in
  wt ty_gds_GdsProperty v = true /\ skipped_default ty_gds_GdsProperty v = true /\
  ser ty_gds_GdsProperty v = SMap [("attr", SInt 5); ("value", SStr "a""b")].
Proof. vm_compute. repeat split; reflexivity. Qed.

(** * Layer 2: the JSON text (serde_json pretty printer and parser, textwrap::dedent), Serde/JsonText.v.
    The conversion between a double and its decimal token (ryu on the way out, serde_json's number parser on
    the way in) is NOT modelled: it is a pair of functions [fmt_f64 : Z -> string], [parse_f64 : string -> option Z]
    over which every theorem below is universally quantified, and the ONLY thing assumed about the pair is
    [float_pair_ok fmt_f64 parse_f64 b] for the doubles [b] that occur in the value at hand: the printed token is
    a JSON number with a fraction or exponent, and parsing it returns [b].  This hypothesis is discharged nowhere;
    the correspondence run tests it on the implementation for every double it generates (it was false for
    serde_json without the feature float_roundtrip: repository commit b30a5a8).  YAML stays under correspondence. *)
From Coq Require Import Ascii.
From L21 Require Import Serde.JsonText Serde.JsonText_proofs.

(** (7) String escaping is lossless for EVERY byte string (so for every sequence of Unicode scalar values in
    UTF-8, with every escape class: quote, backslash, \b \t \n \f \r, \u00XX for the other control bytes,
    everything else copied): reading the escaped form up to the closing quote gives the string back. *)
Theorem C18_json_unescape_escape : forall s rest,
  parse_str_body (escape_str s ++ String (chr 34) rest) = Some (s, rest).
Proof. exact parse_str_body_escape. Qed.

(** (7b) ... and every sequence of Unicode scalar values (what a Rust String can hold) is such a string and
    reads back from its printed form; no hypothesis about doubles is involved. *)
Theorem C18_json_string_scalars : forall fmt_f64 parse_f64 l,
  Forall scalar_value l ->
  json_parse_text parse_f64 (json_print fmt_f64 (SStr (utf8_of_scalars l))) = JOk (SStr (utf8_of_scalars l)).
Proof.
  intros fmt_f64 parse_f64 l Hl. apply json_parse_print.
  - unfold sval_okb. cbn [sval_wfb]. rewrite (utf8_of_scalars_valid l Hl). reflexivity.
  - intros b [].
Qed.

(** (8) Integer tokens: every i64 and every u64 reads back as itself. *)
Theorem C18_json_int_token : forall parse_f64 z,
  int_in_rangeb z = true -> parse_number parse_f64 (print_int z) = Some (SInt z).
Proof. exact parse_number_print_int. Qed.

Section JsonFloatOracle.
  Variable fmt_f64 : Z -> string.            (* ryu: bit pattern -> shortest round-trip token *)
  Variable parse_f64 : string -> option Z.   (* serde_json: number token -> bit pattern *)

  (** (9) The parser reads back what the printer wrote: for every value of the fragment (maps and sequences of
      any size, fewer than 128 nested containers = serde_json's recursion limit, all i64/u64 integers, finite
      doubles, UTF-8 strings and keys, booleans, null). *)
  Theorem C18_json_parse_print : forall v,
    sval_ok v ->
    (forall b, In b (sval_floats v) -> float_pair_ok fmt_f64 parse_f64 b) ->
    json_parse_text parse_f64 (json_print fmt_f64 v) = JOk v.
  Proof. intros v Hok Hfl. apply json_parse_print; assumption. Qed.

  (** (10) [textwrap::dedent], which [SerializationFormat::from_str] applies first, leaves printed text alone. *)
  Theorem C18_json_dedent_print : forall v,
    sval_wf v ->
    (forall b, In b (sval_floats v) -> float_pair_ok fmt_f64 parse_f64 b) ->
    dedent (json_print fmt_f64 v) = json_print fmt_f64 v.
  Proof. intros v Hwf Hfl. apply (dedent_json_print fmt_f64 parse_f64); assumption. Qed.

  Theorem C18_json_from_str_print : forall v,
    sval_ok v ->
    (forall b, In b (sval_floats v) -> float_pair_ok fmt_f64 parse_f64 b) ->
    json_from_str_text parse_f64 (json_print fmt_f64 v) = JOk v.
  Proof. intros v Hok Hfl. apply json_from_str_print; assumption. Qed.

  (** (11) The same under ONE hypothesis on the pair of functions: every finite double round-trips. *)
  Hypothesis float_roundtrip : forall b, f64_finiteb b = true -> float_pair_ok fmt_f64 parse_f64 b.

  Theorem C18_json_parse_print_all : forall v,
    sval_ok v -> json_parse_text parse_f64 (json_print fmt_f64 v) = JOk v.
  Proof.
    intros v Hok. apply json_parse_print; [exact Hok|].
    intros b Hb. apply float_roundtrip. unfold sval_ok, sval_okb in Hok. apply andb_true_iff in Hok.
    destruct Hok as [Hwf _]. exact (wf_floats_finite v Hwf b Hb).
  Qed.
End JsonFloatOracle.

(** (12) The shapes read from the Rust sources meet what the text layer needs: integer types within i64/u64,
    field and variant names UTF-8, nesting (8 and 16 levels) below serde_json's recursion limit. *)
Theorem C18_json_gds_shape_ok : ty_json_okb gds_library_ty = true.
Proof. vm_compute. reflexivity. Qed.
Theorem C18_json_lef_shape_ok : ty_json_okb lef_library_ty = true.
Proof. vm_compute. reflexivity. Qed.

(** (13) End to end at model level, JSON: [SerializationFormat::Json.to_string] followed by [from_str]
    (dedent, parse, derive(Deserialize)) or by [save]/[open] (no dedent) returns the library value.
    [val_textb v]: every string of [v] is UTF-8 (a Rust String always is) and every double is finite (GDSII
    reals are; serde_json writes NaN/inf as null).  GDSII: no other condition.  LEF: outside the two
    known-finding classes ([skipped_default], as in layer 1). *)
Theorem C18_json_gds_end_to_end : forall fmt_f64 parse_f64 v,
  wt gds_library_ty v = true -> val_textb v = true ->
  (forall b, In b (val_floats v) -> float_pair_ok fmt_f64 parse_f64 b) ->
  json_from_str_ty parse_f64 gds_library_ty (json_to_string fmt_f64 gds_library_ty v) = Some v /\
  json_open_ty parse_f64 gds_library_ty (json_to_string fmt_f64 gds_library_ty v) = Some v.
Proof.
  intros fmt_f64 parse_f64 v Hwt Hv Hf.
  apply json_typed_roundtrip; [exact C18_gds_shape_ok | exact C18_json_gds_shape_ok | exact Hwt | | exact Hv | exact Hf].
  apply (C18_no_lossy_fields "GdsLibrary"); [exact C18_gds_lossy_fields | exact Hwt].
Qed.

Theorem C18_json_lef_end_to_end : forall fmt_f64 parse_f64 v,
  wt lef_library_ty v = true -> skipped_default lef_library_ty v = true -> val_textb v = true ->
  (forall b, In b (val_floats v) -> float_pair_ok fmt_f64 parse_f64 b) ->
  json_from_str_ty parse_f64 lef_library_ty (json_to_string fmt_f64 lef_library_ty v) = Some v /\
  json_open_ty parse_f64 lef_library_ty (json_to_string fmt_f64 lef_library_ty v) = Some v.
Proof.
  intros fmt_f64 parse_f64 v Hwt Hsk Hv Hf.
  apply json_typed_roundtrip; [exact C18_lef_shape_ok | exact C18_json_lef_shape_ok | exact Hwt | exact Hsk | exact Hv | exact Hf].
Qed.

(** (14) The nesting bound of (9) is sharp: 128 nested arrays are printed, and refused by the parser
    (serde_json's RecursionLimitExceeded; confirmed on the implementation by the correspondence run). *)
Fixpoint nest_seq (n : nat) (v : sval) : sval := match n with O => v | S k => SSeq [nest_seq k v] end.
Theorem C18_json_depth_limit_sharp :
  sval_wf (nest_seq 128 SNull) /\ sval_depth (nest_seq 128 SNull) = 128%nat /\
  json_parse_text (fun _ => None) (json_print (fun _ => EmptyString) (nest_seq 128 SNull)) = JErr /\
  json_parse_text (fun _ => None) (json_print (fun _ => EmptyString) (nest_seq 127 SNull)) = JOk (nest_seq 127 SNull).
Proof. vm_compute. repeat split; reflexivity. Qed.

(** Non-vacuity of (9)-(13): a float pair and a value with every kind of node that meet the hypotheses, and the text. *)
Definition ex_fmt (b : Z) : string :=
  if (b =? 4607182418800017408)%Z then "1.0" else if (b =? 4516783001660789123)%Z then "1e-6" else "?".
Definition ex_parse (s : string) : option Z :=
  if String.eqb s "1.0" then Some 4607182418800017408%Z else if String.eqb s "1e-6" then Some 4516783001660789123%Z else None.
Definition ex_sval : sval :=
  SMap [("name", SStr ("a""b\" ++ String (chr 10) (String (chr 0) "é")));
        ("units", SSeq [SF64 4607182418800017408; SF64 4516783001660789123]);
        ("n", SInt (-9223372036854775808)); ("u", SInt 18446744073709551615); ("e", SSeq []);
        ("m", SMap [("k", SNull); ("t", SBool true)])].
Example C18_json_nonvacuous :
  sval_ok ex_sval /\
  (forall b, In b (sval_floats ex_sval) -> float_pair_ok ex_fmt ex_parse b) /\
  json_print ex_fmt ex_sval =
"{
  ""name"": ""a\""b\\\n\u0000é"",
  ""units"": [
    1.0,
    1e-6
  ],
  ""n"": -9223372036854775808,
  ""u"": 18446744073709551615,
  ""e"": [],
  ""m"": {
    ""k"": null,
    ""t"": true
  }
}".
Proof.
  split; [vm_compute; reflexivity|]. split; [|vm_compute; reflexivity].
  intros b Hb. cbn in Hb. destruct Hb as [<- | [<- | []]]; split; vm_compute; reflexivity.
Qed.
Definition ex_gds : val :=
  VList [VS "li""b"; VI 3;
         VList [VList [VI 2020; VI 1; VI 2; VI 3; VI 4; VI 5]; VList [VI 2021; VI 1; VI 2; VI 3; VI 4; VI 5]];
         VList [VF 4607182418800017408; VF 4516783001660789123]; VList [];
         VNull; VNull; VNull; VNull; VNull; VNull; VNull; VNull].
Example C18_json_end_to_end_nonvacuous :
  wt gds_library_ty ex_gds = true /\ val_textb ex_gds = true /\
  (forall b, In b (val_floats ex_gds) -> float_pair_ok ex_fmt ex_parse b) /\
  json_from_str_ty ex_parse gds_library_ty (json_to_string ex_fmt gds_library_ty ex_gds) = Some ex_gds.
Proof.
  split; [vm_compute; reflexivity|]. split; [vm_compute; reflexivity|]. split; [|vm_compute; reflexivity].
  intros b Hb. cbn in Hb. destruct Hb as [<- | [<- | []]]; split; vm_compute; reflexivity.
Qed.

(** Statements pinned *)
Check C18_json_parse_print : forall (fmt_f64 : Z -> string) (parse_f64 : string -> option Z) (v : sval),
  sval_ok v -> (forall b, In b (sval_floats v) -> float_pair_ok fmt_f64 parse_f64 b) ->
  json_parse_text parse_f64 (json_print fmt_f64 v) = JOk v.
Check C18_json_parse_print_all : forall (fmt_f64 : Z -> string) (parse_f64 : string -> option Z),
  (forall b, f64_finiteb b = true -> float_pair_ok fmt_f64 parse_f64 b) ->
  forall v, sval_ok v -> json_parse_text parse_f64 (json_print fmt_f64 v) = JOk v.

Print Assumptions C18_de_ser.
Print Assumptions C18_no_lossy_fields.
Print Assumptions C18_gds_shape_ok.
Print Assumptions C18_lef_shape_ok.
Print Assumptions C18_gds_lossy_fields.
Print Assumptions C18_gds_roundtrip.
Print Assumptions C18_lef_lossy_fields.
Print Assumptions C18_lef_roundtrip.
Print Assumptions C18_skip_always_refuted.
Print Assumptions C18_json_unescape_escape.
Print Assumptions C18_json_string_scalars.
Print Assumptions C18_json_int_token.
Print Assumptions C18_json_parse_print.
Print Assumptions C18_json_dedent_print.
Print Assumptions C18_json_from_str_print.
Print Assumptions C18_json_parse_print_all.
Print Assumptions C18_json_gds_shape_ok.
Print Assumptions C18_json_lef_shape_ok.
Print Assumptions C18_json_gds_end_to_end.
Print Assumptions C18_json_lef_end_to_end.
Print Assumptions C18_json_depth_limit_sharp.
