(** C04 -- Reading a LEF file yields every statement in it, with exact values.

    Spec: Lef/LefSpec.v ([render], [lib_supported], [style_ok], written from the LEF reference, independent of
    lef21's writer and reader); model: Lef/LefLex.v, Lef/LefParse.v ([parse], [cfg_fixed] = the repaired code,
    the flags of [cfg] = the defects found); [lef_eq] (Lef/LefCheck.v): structural equality, decimals compared
    numerically (rust_decimal's PartialEq).  Proofs: Lef/LefRt*_proofs.v, Lef/LefRoundtrip_proofs.v. *)
From Coq Require Import String.
From Coq Require Import ZArith List Bool.
From L21 Require Import Lef.LefDec Lef.LefData Lef.LefLex Lef.LefParse Lef.LefWrite Lef.LefSpec Lef.LefCheck
                        Lef.LefLex_proofs Lef.LefRtLex_proofs Lef.LefRtDec_proofs Lef.LefRtFrame_proofs
                        Lef.LefRtConstr_proofs Lef.LefRtPin_proofs Lef.LefRtVia_proofs Lef.LefRtSiteUnits_proofs
                        Lef.LefRtMacro_proofs Lef.LefRtLib_proofs Lef.LefRtRender_proofs Lef.LefRtTop_proofs
                        Lef.LefRoundtrip_proofs Gen.LefKeysGen.
Import ListNotations.
Local Open Scope Z_scope.

(** * The property *)
(** for the reader [cf]: every supported library, rendered in any well-formed style, is read back *)
Definition C04_read_render_stmt (cf : cfg) : Prop :=
  forall sty l, lib_supported l -> style_ok sty l ->
    exists l', parse cf (render sty l) = Ok l' /\ lef_eq l l' = true.

(** The repaired reader has the property: all library values of the supported subset, all styles (separators
    with blanks, tabs, CR, LF and comments holding any UTF-8 without newline, any case of every keyword letter,
    every number spelling of [spell], every permutation that [interleave] produces, END LIBRARY present or not). *)
Theorem C04_read_render : C04_read_render_stmt cfg_fixed.
Proof. exact read_render. Qed.

(** * The lexer lemma *)
(** a text made of tokens and blanks ([items_ok]: every token followed by white space or nothing) is lexed into
    exactly its tokens, with spans whose byte slices of the text are the token texts *)
Theorem C04_lex_items : forall items, items_ok items ->
  exists tis p line ls, lex false (flatten items) = (tis, LEof p line ls)
                        /\ Forall2 (sees_tok (flatten items)) tis (toks_of items).
Proof. exact lex_items. Qed.
(** the rendering of a supported library: the lexer returns the specification's tokens *)
Theorem C04_lex_render_tokens : forall sty l, style_okb sty l = true -> lib_supportedb l = true ->
  exists tis p line ls atoks, lex false (render sty l) = (tis, LEof p line ls)
    /\ Forall2 (sees_tok (render sty l)) tis atoks /\ Forall2 arel (toks_of_lib sty spec_utf8 l) atoks.
Proof. exact LefRtRender_lex. Qed.

(** * Numbers: every spelling the style allows is read as the same number *)
Theorem C04_spell_parses : forall sp d, dec_ok d = true ->
  exists d', dec_of_bytes (spell sp d) = DOk d' /\ dec_eq d d' = true /\ dec_wf d'
             /\ d_neg d' = d_neg d /\ d_scale d <= d_scale d' /\ d_mant d' = d_mant d * 10 ^ (d_scale d' - d_scale d).
Proof. exact spell_parses. Qed.
Theorem C04_spell_is_number : forall sp d, dec_ok d = true -> is_rust_float (spell sp d) = true.
Proof. exact spell_float. Qed.

(** * The text given as items, in general form (shared with C05) *)
Theorem C04_parse_items : forall l items, items_ok items -> lib_toksP l (toks_of items) ->
  exists l', parse cfg_fixed (flatten items) = Ok l' /\ lef_eq l l' = true.
Proof. exact parse_items. Qed.

(** * The keyword tables of the model are those of lef21/src/data.rs (regenerated on every run) *)
Theorem C04_keys_tied : LefRt_model_enums = gen_lef_enums.
Proof. exact LefRt_keys_tied. Qed.

(** * The code as found (one defect at a time) does not have the property *)
Theorem C04_charpos_orig_refuted : ~ C04_read_render_stmt cfg_only_charpos.
Proof.
  intro H. destruct (H LefRt_sty_comment LefRt_lib_macro) as [l' [Hp He]]; try (vm_compute; reflexivity).
  pose proof (proj1 LefRt_charpos_refuted) as R. unfold reads_back in R. rewrite Hp in R. congruence.
Qed.
Theorem C04_drop_props_orig_refuted : ~ C04_read_render_stmt cfg_only_drop_props.
Proof.
  intro H. destruct (H LefRt_sty_plain LefRt_lib_macro_prop) as [l' [Hp He]]; try (vm_compute; reflexivity).
  pose proof (proj1 LefRt_drop_props_refuted) as R. unfold reads_back in R. rewrite Hp in R. congruence.
Qed.
Theorem C04_points_to_semi_orig_refuted : ~ C04_read_render_stmt cfg_only_points_to_semi.
Proof.
  intro H. destruct (H LefRt_sty_plain LefRt_lib_iterate) as [l' [Hp He]]; try (vm_compute; reflexivity).
  pose proof (proj1 LefRt_points_to_semi_refuted) as R. unfold reads_back in R. rewrite Hp in R. congruence.
Qed.
Theorem C04_dbu_mantissa_orig_refuted : ~ C04_read_render_stmt cfg_only_dbu_mantissa.
Proof.
  intro H. destruct (H LefRt_sty_zeros LefRt_lib_dbu) as [l' [Hp He]]; try (vm_compute; reflexivity).
  pose proof (proj1 LefRt_dbu_mantissa_refuted) as R. unfold reads_back in R. rewrite Hp in R. congruence.
Qed.

(** * Non-vacuity: a non-trivial supported library and a style with a non-ASCII comment, lower-case letters,
      padded numbers, a permutation and no END LIBRARY; the hypotheses hold and the reader returns the library *)
Definition C04_ex_lib : lef_lib :=
  let pt x y := Build_lef_point (mkdec false x 1) (mkdec false y 2) in
  let lg := Build_lef_layer_geoms (bs "met1")
              [GShape (ShRect (Some (dec_of_Z 2)) (Build_lef_point (mkdec true 5 1) (mkdec true 15 2)) (pt 25 5));
               GIterate (ShPolygon None [pt 0 0; pt 10 0; pt 10 10]) (Build_lef_step (dec_of_Z 2) (dec_of_Z 3) (dec_of_Z 4) (dec_of_Z 5))]
              [Build_lef_via_inst (bs "v12") (pt 1 1)] (Some true) (Some (LsSpacing (mkdec false 5 2))) (Some (mkdec false 14 2)) in
  let pin := Build_lef_pin (bs "A") [Build_lef_port (Some LefPortClass_Core) [lg]] (Some (DirOutput true)) (Some LefPinUse_Signal)
               None (Some LefAntennaModel_Oxide1) [Build_lef_antenna_attr (bs "AntennaGateArea") (mkdec false 15 1) (Some (bs "met1"))]
               None None None None (Some (bs """n e""")) [Build_lef_property (bs "p") (bs "1.50")] in
  let mac := Build_lef_macro (bs "inv_1") [pin] [lg] (Some (McCore (Some LefCoreClassType_TieHigh)))
               (Some (Build_lef_foreign (bs "f") (Some (pt 0 0)) (Some LefOrient_FN))) (Some (pt 0 0))
               (Some (mkdec false 138 2, mkdec false 272 2)) (Some [LefSymmetry_X; LefSymmetry_R90]) (Some (bs "unit")) None None true
               [Build_lef_property (bs "q") (bs """a b""")] None in
  Build_lef_lib [mac] [Build_lef_site (bs "unit") LefSiteClass_Core (mkdec false 46 2, mkdec false 272 2) None] []
    (Some (mkdec false 57 1)) None None (Some (91, 93)) (Some 47)
    (Some (Build_lef_units (Some 1000) None None None None None None None)) false None
    [Build_lef_extension (bs """t""") (bs "x 1.5 ; ")] (Some (mkdec false 5 3)) None [].
Definition C04_ex_sty : style :=
  mkstyle [SComment [195; 169]] [[SWs 32]; [SWs 10; SComment [228; 184; 173]; SWs 9]] [SWs 10] (Some [35])
          [[true; false]] [mknumsp 1 false 2 false; mknumsp 0 true 0 false] [3; 1; 2; 0; 5]%nat true false.
Example C04_read_render_nonvacuous :
  lib_supported C04_ex_lib /\ style_ok C04_ex_sty C04_ex_lib
  /\ List.length (render C04_ex_sty C04_ex_lib) = 1479%nat
  /\ reads_back cfg_fixed C04_ex_sty C04_ex_lib = true /\ reads_back cfg_orig C04_ex_sty C04_ex_lib = false.
Proof. vm_compute. repeat split; reflexivity. Qed.

Check C04_read_render : forall sty l, lib_supported l -> style_ok sty l ->
  exists l', parse cfg_fixed (render sty l) = Ok l' /\ lef_eq l l' = true.
Check C04_lex_items : forall items, items_ok items ->
  exists tis p line ls, lex false (flatten items) = (tis, LEof p line ls) /\ Forall2 (sees_tok (flatten items)) tis (toks_of items).
Check C04_lex_render_tokens : forall sty l, style_okb sty l = true -> lib_supportedb l = true ->
  exists tis p line ls atoks, lex false (render sty l) = (tis, LEof p line ls)
    /\ Forall2 (sees_tok (render sty l)) tis atoks /\ Forall2 arel (toks_of_lib sty spec_utf8 l) atoks.
Check C04_spell_parses : forall sp d, dec_ok d = true ->
  exists d', dec_of_bytes (spell sp d) = DOk d' /\ dec_eq d d' = true /\ dec_wf d'
             /\ d_neg d' = d_neg d /\ d_scale d <= d_scale d' /\ d_mant d' = d_mant d * 10 ^ (d_scale d' - d_scale d).
Check C04_spell_is_number : forall sp d, dec_ok d = true -> is_rust_float (spell sp d) = true.
Check C04_parse_items : forall l items, items_ok items -> lib_toksP l (toks_of items) ->
  exists l', parse cfg_fixed (flatten items) = Ok l' /\ lef_eq l l' = true.
Check C04_keys_tied : LefRt_model_enums = gen_lef_enums.
Check C04_charpos_orig_refuted : ~ C04_read_render_stmt cfg_only_charpos.
Check C04_drop_props_orig_refuted : ~ C04_read_render_stmt cfg_only_drop_props.
Check C04_points_to_semi_orig_refuted : ~ C04_read_render_stmt cfg_only_points_to_semi.
Check C04_dbu_mantissa_orig_refuted : ~ C04_read_render_stmt cfg_only_dbu_mantissa.
(** one lemma per construct (a selection; all are in Lef/LefRt*_proofs.v) *)
Check parse_geometry_ok : forall src g atoks, geom_len_ok g = true -> Forall2 arel (t_geometry g) atoks ->
  spec src (parse_geometry cfg_fixed src) atoks Any (fun g' => lef_geometry_eqb dec_eq g g' = true).
Check parse_layer_P : forall src l atoks, layer_toksP l atoks ->
  spec src (parse_layer_geometries cfg_fixed src) atoks layer_follow (fun l' => lef_layer_geoms_eqb dec_eq l l' = true).
Check parse_pin_P : forall src p atoks, pin_toksP p atoks ->
  spec src (parse_pin cfg_fixed src) atoks Any (fun p' => lef_pin_eqb dec_eq p p' = true).
Check parse_via_P : forall src v atoks, via_toksP v atoks ->
  spec src (parse_via cfg_fixed src) atoks Any (fun v' => lef_via_def_eqb dec_eq v v' = true).
Check parse_site_P : forall src s atoks, site_toksP s atoks ->
  spec src (parse_site_def cfg_fixed src) atoks Any (fun s' => lef_site_eqb dec_eq s s' = true).
Check parse_units_P : forall src u atoks, units_toksP u atoks ->
  spec src (parse_units cfg_fixed src) atoks Any (fun u' => lef_units_eqb dec_eq u u' = true).

Print Assumptions C04_read_render.
Print Assumptions C04_lex_items.
Print Assumptions C04_lex_render_tokens.
Print Assumptions C04_spell_parses.
Print Assumptions C04_spell_is_number.
Print Assumptions C04_parse_items.
Print Assumptions C04_keys_tied.
Print Assumptions C04_charpos_orig_refuted.
Print Assumptions C04_drop_props_orig_refuted.
Print Assumptions C04_points_to_semi_orig_refuted.
Print Assumptions C04_dbu_mantissa_orig_refuted.
