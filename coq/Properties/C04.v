(** C04 -- Reading a LEF file yields every statement in it, with exact values.

    Spec: Lef/LefSpec.v ([render], [lib_supported], [style_ok]); model: Lef/LefLex.v, Lef/LefParse.v ([parse]);
    [lef_eq] (Lef/LefCheck.v): structural equality, decimals compared numerically. *)
From Coq Require Import ZArith List Bool.
From L21 Require Import Lef.LefDec Lef.LefData Lef.LefLex Lef.LefParse Lef.LefWrite Lef.LefSpec Lef.LefCheck
                        Lef.LefRoundtrip_proofs.
Import ListNotations.
Local Open Scope Z_scope.

(** The property, for the reader [cf]: every supported library, rendered in any well-formed style, is read back. *)
Definition C04_read_render_stmt (cf : cfg) : Prop :=
  forall sty l, lib_supported l -> style_ok sty l ->
    exists l', parse cf (render sty l) = Ok l' /\ lef_eq l l' = true.

(** The code as found (one defect at a time) does not have the property. *)
Theorem C04_charpos_orig_refuted : ~ C04_read_render_stmt cfg_only_charpos.
Proof.
  intro H. destruct (H LefRt_sty_comment LefRt_lib_macro) as [l' [Hp He]]; try (vm_compute; reflexivity).
  pose proof (proj1 LefRt_charpos_refuted) as R. unfold reads_back in R. rewrite Hp in R. congruence.
Qed.
Theorem C04_drop_props_orig_refuted : ~ C04_read_render_stmt cfg_only_drop_props.
Proof.
  intro H. destruct (H LefRt_sty_plain LefRt_lib_macro_prop) as [l' [Hp He]]; try (vm_compute; reflexivity).
  pose proof (proj1 LefRt_drop_props_refuted) as R. unfold reads_back in R. rewrite Hp in R. congruence.
Qed.
Theorem C04_points_to_semi_orig_refuted : ~ C04_read_render_stmt cfg_only_points_to_semi.
Proof.
  intro H. destruct (H LefRt_sty_plain LefRt_lib_iterate) as [l' [Hp He]]; try (vm_compute; reflexivity).
  pose proof (proj1 LefRt_points_to_semi_refuted) as R. unfold reads_back in R. rewrite Hp in R. congruence.
Qed.
Theorem C04_dbu_mantissa_orig_refuted : ~ C04_read_render_stmt cfg_only_dbu_mantissa.
Proof.
  intro H. destruct (H LefRt_sty_zeros LefRt_lib_dbu) as [l' [Hp He]]; try (vm_compute; reflexivity).
  pose proof (proj1 LefRt_dbu_mantissa_refuted) as R. unfold reads_back in R. rewrite Hp in R. congruence.
Qed.

Check C04_charpos_orig_refuted : ~ C04_read_render_stmt cfg_only_charpos.
Check C04_drop_props_orig_refuted : ~ C04_read_render_stmt cfg_only_drop_props.
Check C04_points_to_semi_orig_refuted : ~ C04_read_render_stmt cfg_only_points_to_semi.
Check C04_dbu_mantissa_orig_refuted : ~ C04_read_render_stmt cfg_only_dbu_mantissa.

Print Assumptions C04_charpos_orig_refuted.
Print Assumptions C04_drop_props_orig_refuted.
Print Assumptions C04_points_to_semi_orig_refuted.
Print Assumptions C04_dbu_mantissa_orig_refuted.
