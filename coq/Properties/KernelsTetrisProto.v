(** Kernels, tetris <-> protobuf (property C19): the definitions GENERATED on every run from
    layout21tetris/src/conv/proto.rs and outline.rs (Gen/KernelsTetrisProtoGen.v, tools/translate_rust_kernels.py unit "tproto")
    against the hand-written model Tetris/TProto.v.  Readings: Tetris/KernelsInstProto.v.  Proofs:
    Tetris/KernelsTieProto_proofs.v (family tetris_proto).  The cell orderer of the exporter (CellOrder):
    Properties/KernelsOrderTetris.v. *)
From Coq Require Import ZArith Bool List.
From L21 Require Import Base.KernelOps Base.KernelOpsX Base.KernelOpsS Order.DepOrder Order.KernelsInstOrder Tetris.KernelsInstProto.
From L21 Require Tetris.TProto.
From L21 Require Tetris.KernelsTieProto_proofs.
Local Open Scope Z_scope.
Module T := Tetris.KernelsTieProto_proofs.

Theorem Ktie_proto_export_outline : forall o metals,
  Forall (fun p => i64v (TP.pp_num p)) (TP.to_x o) -> Forall (fun p => i64v (TP.pp_num p)) (TP.to_y o) -> usizev metals ->
  g_export_outline o metals = rmap Gpo (TP.export_outline o metals).
Proof. exact T.tie_proto_export_outline. Qed.
Theorem Ktie_proto_from_prim_pitches : forall x y, g_from_prim_pitches x y = rmap Gout (TP.from_prim_pitches x y).
Proof. exact T.tie_proto_from_prim_pitches. Qed.
Theorem Ktie_proto_import_outline : forall po,
  Forall i64v (TP.po_x po) -> Forall i64v (TP.po_y po) -> i64v (TP.po_metals po) ->
  g_import_outline po = rmap (fun om => (Gout (fst om), snd om)) (TP.import_outline po).
Proof. exact T.tie_proto_import_outline. Qed.

Print Assumptions Ktie_proto_export_outline.
Print Assumptions Ktie_proto_from_prim_pitches.
Print Assumptions Ktie_proto_import_outline.
