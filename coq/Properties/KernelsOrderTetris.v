(** Kernels, dependency orderers of layout21tetris (properties C17, C09, C19): the definitions GENERATED on every run from
    layout21tetris/src/library.rs, placer.rs, conv/proto.rs (Gen/KernelsTetrisOrderGen.v, Gen/KernelsTetrisProtoOrderGen.v;
    tools/translate_rust_kernels.py units "torder", "tporder") against the hand-written models.  See
    Properties/KernelsOrder.v for the scheme (open recursion, one step per theorem) and Tetris/KernelsInstOrderTetris.v for
    the readings.  Proofs in Tetris/KernelsTieOrderTetris_proofs.v (family order_tetris). *)
From Coq Require Import ZArith NArith Bool List.
From L21 Require Import Base.KernelOps Base.KernelOpsX Base.KernelOpsS Order.DepOrder Order.DepOrderFixed Order.KernelsInstOrder.
From L21 Require Import Tetris.KernelsInstOrderTetris.
From L21 Require Gen.KernelsOrderGen Gen.KernelsTetrisOrderGen Gen.KernelsTetrisProtoOrderGen.
From L21 Require Tetris.Placer Tetris.TProto Tetris.KernelsInstTetris.
From L21 Require Tetris.KernelsTieOrderTetris_proofs.
Import ListNotations.
Module T := Tetris.KernelsTieOrderTetris_proofs.

(** * library.rs DepOrder (C17) *)
Module KOT.
Import OT.
Theorem Ktie_tetris_push : forall ch ih lib f s item,
  g_push ch ih (rec_of lib (cpush f all_defined (tetris_deps ch ih))) (Gst lib s) (N.to_nat item)
  = rmap (Gst lib) (cpush (S f) all_defined (tetris_deps ch ih) s item).
Proof. exact T.tie_tetris_push. Qed.
Theorem Ktie_tetris_order : forall ch ih f items,
  g_order ch ih (rec_of (Gen.KernelsTetrisOrderGen.mk_gLibrary (map N.to_nat items)) (cpush f all_defined (tetris_deps ch ih)))
          (Gen.KernelsTetrisOrderGen.mk_gLibrary (map N.to_nat items))
  = rmap (map N.to_nat) (order_checked (S f) all_defined (tetris_deps ch ih) items).
Proof. exact T.tie_tetris_order. Qed.
End KOT.

(** * placer.rs PlaceOrder, conv/proto.rs CellOrder: the trait functions of the generic helper (C17, C09, C19) *)
Module KOP.
Theorem Ktie_place_process : forall (T : Type) h (pushf : T -> OP.gpl -> res T) item o,
  OP.g_process h pushf item o = match OP.place_dep h item with Some t => pushf o t | None => Ok o end.
Proof. exact T.tie_place_process. Qed.
Theorem Ktie_place_fail : Gen.KernelsTetrisOrderGen.g_PlaceOrder_fail od_xops = Err.
Proof. exact T.tie_place_fail. Qed.
Theorem Ktie_cell_process : forall (T : Type) ch ih (pushf : T -> kptr -> res T) item o,
  OC.g_process ch ih pushf item o = OC.for_each_ptr pushf o (OC.cell_deps ch ih item).
Proof. exact T.tie_cell_process. Qed.
Theorem Ktie_cell_fail : Gen.KernelsTetrisProtoOrderGen.g_CellOrder_fail od_xops = Err.
Proof. exact T.tie_cell_fail. Qed.
(** the graph `CellOrder::process` walks on the heap of a C19 library is [lib_deps] *)
Theorem Ktie_cell_process_lib : forall L p,
  map N.of_nat (OC.cell_deps (OC.ch_of L) OC.ih_id (N.to_nat p)) = TProto.lib_deps L p.
Proof. exact T.tie_cell_process_lib. Qed.
End KOP.

(** * the orderer inside the placement model of C09 *)
Module KOPl.
Module P := Tetris.Placer.
Theorem Ktie_placer_push : forall f pool s item,
  OPl.g_push (OPl.proc_of pool (P.push f pool)) (OPl.Gst s) item = OPl.pmap OPl.Gst (P.push (S f) pool s item).
Proof. exact T.tie_placer_push. Qed.
Theorem Ktie_placer_process : forall (T : Type) pool (pushf : T -> OPl.TG.gPlaceable unit Z -> P.res T) n o,
  OPl.g_process pool pushf n o
  = P.bind (P.node_dep pool n) (fun d => match d with Some t => pushf o (OPl.Gto pool t) | None => P.Ok o end).
Proof. exact T.tie_placer_process. Qed.
End KOPl.

Print Assumptions KOT.Ktie_tetris_push.
Print Assumptions KOT.Ktie_tetris_order.
Print Assumptions KOP.Ktie_place_process.
Print Assumptions KOP.Ktie_place_fail.
Print Assumptions KOP.Ktie_cell_process.
Print Assumptions KOP.Ktie_cell_fail.
Print Assumptions KOP.Ktie_cell_process_lib.
Print Assumptions KOPl.Ktie_placer_push.
Print Assumptions KOPl.Ktie_placer_process.
