(** C15 -- The GDSII real-number codec is exact over the format's range.
    Property theorems only; proofs are in Gds/GdsReal_proofs.v.
    Doubles and GDSII reals are 64-bit words (Z); see Base/F64.v, Gds/GdsReal.v.

    RANGE. [in_gds_range x] (Gds/GdsReal.v) is the whole range of normalised GDSII reals:
    x is a finite non-zero double with 16^-65 <= |x| < 16^63, i.e. 2^-260 <= |x| < 2^252
    (exponent byte 0..127, mantissa in [1/16, 1)). This includes the lowest hex decade
    [16^-65, 16^-64) = [2^-260, 2^-256), whose exponent byte is 0x00 and whose true base-16
    exponent is E = -64. (Until 2026-10-02 the predicate had the lower bound 2^-256 and the
    theorems (1)-(3) were silent on that decade; see DESIGN.md section 9.) *)
From Coq Require Import ZArith Bool Lia.
From L21 Require Import Base.F64 Gds.GdsReal Gds.GdsReal_proofs.
Local Open Scope Z_scope.

(** (1) Encoding does not depend on the libm estimate [est] at all (any integer: the clamp
    to -64..63 and the two correction loops find E from every start; on the lowest decade
    E = -64 and an estimate of -65 or less is clamped to it), and equals the reference
    encoding written from the format: exponent byte 64+E with 16^(E-1) <= |x| < 16^E,
    mantissa the exact integer |x| * 16^(14-E). *)
Theorem C15_encode_is_reference :
  forall est x, word64 x -> in_gds_range x ->
    gds_encode_with est x = gds_spec_encode x.
Proof. exact encode_is_reference. Qed.

(** (2) The encoding is a 64-bit word, normalised, carries the sign, and its value computed
    exactly, mantissa * 2^(4*(exp7-64)-56), equals the double's value m * 2^e. *)
Theorem C15_encode_exact :
  forall est x s m e, word64 x -> in_gds_range x -> f64_decomp x = Some (s, m, e) ->
    let w := gds_encode_with est x in
    word64 w /\ gds_normalised w /\ gds_sign w = s /\
    gds_e2 w <= e /\ gds_mant w = m * 2 ^ (e - gds_e2 w).
Proof. exact encode_exact. Qed.

(** (2') The exponent byte is 64 + E, E the true base-16 exponent, and 0 <= 64 + E <= 127;
    it is 0x00 exactly for |x| < 2^-256 = 16^-64 (the lowest hex decade). *)
Theorem C15_encode_exp_byte :
  forall est x s m e, word64 x -> in_gds_range x -> f64_decomp x = Some (s, m, e) ->
    gds_exp7 (gds_encode_with est x) = 64 + true_exp16 m e /\
    0 <= 64 + true_exp16 m e <= 127 /\
    (gds_exp7 (gds_encode_with est x) = 0 <-> dy_lt_pow2 m e (-256) = true).
Proof. exact encode_exp_byte. Qed.

(** The boolean [in_gds_rangeb] used by the checkers decides [in_gds_range]; the range used
    before the widening is contained in it; and every double m * 2^e of the lowest decade
    (2^52 <= m < 2^53, -312 <= e <= -309) is in range, was not in the old range, and has E = -64. *)
Theorem C15_rangeb_spec :
  forall x, in_gds_rangeb x = true <-> in_gds_range x.
Proof. exact in_gds_rangeb_spec. Qed.

Theorem C15_range_old_incl :
  forall x, in_gds_range_old x -> in_gds_range x.
Proof. exact in_gds_range_old_incl. Qed.

Theorem C15_lowest_decade_in_range :
  forall s m e, two52 <= m < two53 -> -312 <= e <= -309 ->
    in_gds_range (f64_of_norm s m e) /\ ~ in_gds_range_old (f64_of_norm s m e) /\
    true_exp16 m e = -64.
Proof. exact lowest_decade_in_range. Qed.

(** (3) encode then decode is the identity on every in-range double (bit identity),
    and maps both zeros to a zero. *)
Theorem C15_decode_encode :
  forall est x, word64 x -> in_gds_range x ->
    gds_decode (gds_encode_with est x) = x.
Proof. exact decode_encode. Qed.

Theorem C15_decode_encode_zero :
  forall est x, f64_is_zero x = true ->
    f64_is_zero (gds_decode (gds_encode_with est x)) = true.
Proof. exact decode_encode_zero. Qed.

(** (4) Decoding any eight-byte real (normalised or not) with non-zero mantissa M yields
    the correctly rounded double: with sh = log2 M - 52 the result is q * 2^(sh + e2)
    where q is M scaled exactly when M has at most 53 bits, and otherwise the multiple
    of 2^sh nearest to M, ties to even; the pair (q, exponent) is put in IEEE normal
    form and is a normal double. [rne_unique] says the conditions determine q. *)
(* rne_of, f64_of_dyadic, sig53 are defined in Gds/GdsReal_proofs.v *)

Theorem C15_decode_correctly_rounded :
  forall w, word64 w -> gds_mant w <> 0 ->
    exists q, rne_of (gds_mant w) q /\
      let e := Z.log2 (gds_mant w) - 52 + gds_e2 w in
      gds_decode w = f64_of_dyadic (gds_sign w) q e /\
      f64_normal (gds_decode w) /\ f64_sign (gds_decode w) = gds_sign w.
Proof. exact decode_correctly_rounded. Qed.

Theorem C15_rne_unique :
  forall M q1 q2, 0 < M -> rne_of M q1 -> rne_of M q2 -> q1 = q2.
Proof. exact rne_unique. Qed.

Theorem C15_decode_zero_mantissa :
  forall w, word64 w -> gds_mant w = 0 -> f64_is_zero (gds_decode w) = true.
Proof. exact decode_zero_mantissa. Qed.

(** (5) Re-encoding a normalised real that carries at most 53 significant bits
    reproduces the same eight bytes. *)
Theorem C15_encode_decode53 :
  forall est w, word64 w -> gds_normalised w -> sig53 (gds_mant w) ->
    gds_encode_with est (gds_decode w) = w.
Proof. exact encode_decode53. Qed.

(** (6) What the reader relies on (C10): decode . encode . decode = decode for every word,
    including un-normalised and tiny ones (clamp at exponent -64), EXCEPT the sixteen words
    with exponent byte 127 whose 56-bit mantissa rounds up to 2^56 when converted to a
    double: they decode to +-16^63 = 2^252, which no GDSII real can represent
    (known-finding class gds-real-rounds-to-16^63, see C10 and known_findings.json). *)
Definition rounds_to_max (w : Z) : Prop := gds_exp7 w = 127 /\ two56 - 4 <= gds_mant w.

Theorem C15_decode_reencode_stable :
  forall est w, word64 w -> ~ rounds_to_max w ->
    gds_decode (gds_encode_with est (gds_decode w)) = gds_decode w
    \/ (f64_is_zero (gds_decode w) = true /\
        f64_is_zero (gds_decode (gds_encode_with est (gds_decode w))) = true).
Proof. exact decode_reencode_stable_below_max. Qed.

(** The excluded class really fails: w = 0x7FFFFFFFFFFFFFFF decodes to 2^252 and re-encodes
    to a word that decodes to 0, whatever the estimate. *)
Theorem C15_decode_reencode_max_refuted :
  exists w, word64 w /\ forall est,
    ~ (gds_decode (gds_encode_with est (gds_decode w)) = gds_decode w
       \/ (f64_is_zero (gds_decode w) = true /\
           f64_is_zero (gds_decode (gds_encode_with est (gds_decode w))) = true)).
Proof. exact decode_reencode_stable_refuted. Qed.

(** The code before the repair violated (3) even with an estimate within one of the
    true exponent: x = 16 - 2^-49, est = 2. *)
Theorem C15_orig_refuted :
  exists x est, word64 x /\ in_gds_rangeb x = true /\
    gds_decode (gds_encode_orig_with est x) <> x.
Proof. exact orig_refuted. Qed.

(** Non-vacuity: concrete in-range doubles and normalised reals meeting the hypotheses,
    among them values of the lowest hex decade [16^-65, 16^-64): 1e-78, -6e-79 and the
    lower end 2^-260 = 16^-65 itself; 2^-261 (just below) and 2^252 are out of range. *)
Example C15_nonvacuous :
  in_gds_rangeb 4611686018427387904 = true (* 2.0 *) /\
  in_gds_rangeb 0x2FBDA48CE468E7C7 = true (* 1e-78 *) /\
  gds_encode 0x2FBDA48CE468E7C7 = 0x001DA48CE468E7C7 /\
  gds_encode_with (-65) 0x2FBDA48CE468E7C7 = 0x001DA48CE468E7C7 (* estimate E-1, clamped *) /\
  gds_encode_with (-63) 0x2FBDA48CE468E7C7 = 0x001DA48CE468E7C7 (* estimate E+1, first loop *) /\
  gds_spec_encode 0x2FBDA48CE468E7C7 = 0x001DA48CE468E7C7 /\
  gds_decode 0x001DA48CE468E7C7 = 0x2FBDA48CE468E7C7 /\
  gds_exp7 0x001DA48CE468E7C7 = 0 /\ two52 <= gds_mant 0x001DA48CE468E7C7 /\
  in_gds_rangeb 0xAFB1C92155D88B11 = true (* -6e-79 *) /\
  gds_decode (gds_encode 0xAFB1C92155D88B11) = 0xAFB1C92155D88B11 /\
  gds_exp7 (gds_encode 0xAFB1C92155D88B11) = 0 /\
  in_gds_rangeb 0x2FB0000000000000 = true (* 2^-260 = 16^-65, the smallest normalised real *) /\
  gds_encode 0x2FB0000000000000 = 0x0010000000000000 /\
  gds_decode 0x0010000000000000 = 0x2FB0000000000000 /\
  in_gds_rangeb 0x2FAFFFFFFFFFFFFF = false (* the double just below 2^-260 *) /\
  in_gds_rangeb 0x4FB0000000000000 = false (* 2^252 = 16^63 *) /\
  in_gds_rangeb 0x4FAFFFFFFFFFFFFF = true (* the double just below 2^252 *) /\
  in_gds_rangeb 13826050856027422720 = true (* -0.75-ish *) /\
  (* literal corrected: 2.0 = 0.125 * 16^1 encodes as 0x4120000000000000 = 4692750811720056832
     (the earlier 4765553605630853120 was a mis-converted constant; checked by vm_compute) *)
  gds_encode 4611686018427387904 = 4692750811720056832 (* 0x4120000000000000 *) /\
  gds_decode 4692750811720056832 = 4611686018427387904.
Proof. vm_compute. repeat split; try reflexivity; discriminate. Qed.

Print Assumptions C15_encode_is_reference.
Print Assumptions C15_encode_exact.
Print Assumptions C15_encode_exp_byte.
Print Assumptions C15_rangeb_spec.
Print Assumptions C15_range_old_incl.
Print Assumptions C15_lowest_decade_in_range.
Print Assumptions C15_decode_encode.
Print Assumptions C15_decode_encode_zero.
Print Assumptions C15_decode_correctly_rounded.
Print Assumptions C15_rne_unique.
Print Assumptions C15_decode_zero_mantissa.
Print Assumptions C15_encode_decode53.
Print Assumptions C15_decode_reencode_stable.
Print Assumptions C15_decode_reencode_max_refuted.
Print Assumptions C15_orig_refuted.
