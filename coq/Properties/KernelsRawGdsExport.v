(** Kernels, GDSII exporter (property C07): the definitions GENERATED on every run from layout21raw/src/gds.rs
    (Gen/KernelsRawGdsExportGen.v, tools/translate_rust_kernels.py unit "rawgdsx") against the hand-written exporter model
    Raw/RawGdsExport.v.  Readings: Raw/KernelsInstRawGdsExport.v ([rc_xops]: Z with the range checks of a debug build,
    abstract errors; [ounit] forgets the model's error kinds).  Proofs: Raw/KernelsTieRawGdsExport_proofs.v (family raw_gdsx). *)
From Coq Require Import ZArith Bool List String.
From L21 Require Import Base.KernelOps Base.KernelOpsX Base.KernelOpsS Base.Outcome Raw.KernelsInstRaw2 Raw.KernelsInstRawGdsExport.
From L21 Require Import Raw.RawData Raw.RawGdsExport.
From L21 Require Raw.KernelsTieRawGdsExport_proofs.
Local Open Scope Z_scope.
Module T := Raw.KernelsTieRawGdsExport_proofs.

Theorem Ktie_gdsx_export_point : forall p, g_export_point p = ounit (omap Ggp (export_point p)).
Proof. exact T.tie_gdsx_export_point. Qed.
Theorem Ktie_gdsx_export_layerspec : forall ly key p,
  g_export_layerspec ly key p = ounit (omap Gspec (export_layerspec ly key p)).
Proof. exact T.tie_gdsx_export_layerspec. Qed.
(** the tree as repaired: a path is exported open *)
Theorem Ktie_gdsx_export_shape : forall cfg s spec, x_path_close cfg = false ->
  g_export_shape s spec = ounit (omap Gelem (export_shape cfg s spec)).
Proof. exact T.tie_gdsx_export_shape. Qed.
Theorem Ktie_gdsx_rect_label : forall p0 p1, g_rect_label p0 p1 = ounit (omap Gpt (rect_center p0 p1)).
Proof. exact T.tie_gdsx_rect_label. Qed.
Theorem Ktie_gdsx_path_label : forall ps w, g_path_label ps w = ounit (omap Gpt (path_label ps)).
Proof. exact T.tie_gdsx_path_label. Qed.
Theorem Ktie_gdsx_poly_label : forall orig ps, g_poly_label orig ps = ounit (omap Gpt (poly_label orig ps)).
Proof. exact T.tie_gdsx_poly_label. Qed.
Theorem Ktie_gdsx_label_location : forall cfg s,
  g_label_location (x_contains_orig cfg) s = ounit (omap Gpt (label_location cfg s)).
Proof. exact T.tie_gdsx_label_location. Qed.

Print Assumptions Ktie_gdsx_export_point.
Print Assumptions Ktie_gdsx_export_layerspec.
Print Assumptions Ktie_gdsx_export_shape.
Print Assumptions Ktie_gdsx_rect_label.
Print Assumptions Ktie_gdsx_path_label.
Print Assumptions Ktie_gdsx_poly_label.
Print Assumptions Ktie_gdsx_label_location.
