(** C02 -- Bytes written for a library are a well-formed GDSII stream with that content.
    Property theorems only; proofs in Gds/GdsWrite_proofs.v, Gds/GdsWFits_proofs.v,
    Gds/GdsRtSpec_proofs.v, Gds/GdsWTables_proofs.v.

    Model: Gds/GdsWrite.v ([write_lib] = gds21 `GdsLibrary::write` into a Vec<u8>).
    Specification, written from the format manual and independent of the model: Gds/GdsSpec.v
    ([spec_render] reference encoder, [spec_parse] reference decoder, [stream_wf]).
    [lib_ok l]: only the invariants of the Rust types (i16 / i32 / u8 ranges, Strings are byte lists
    that are valid UTF-8, [GdsPoint; 3] / [GdsPoint; 5] have 3 / 5 points) and, for the real-valued
    fields (units, magnification, angle), a double inside the GDSII real range or a zero.
    [KnownClass_C01 l]: some string of [l] has even length and last byte NUL (known-finding class
    gds-string-even-len-trailing-nul: the format's one-NUL padding makes that byte indistinguishable
    from padding). [some_payload_too_long l]: some string (padded to even length) or coordinate list
    (8 bytes per point) of [l] is longer than 65531 bytes. Doubles are IEEE bit patterns;
    [lib_canon l] is [l] with every real-valued field that is -0.0 replaced by +0.0 (a GDSII real has
    one zero); [lib_rust_eqb] is Rust's derived `PartialEq` on GdsLibrary (doubles by `==`). *)
From Coq Require Import ZArith Bool List String.
From L21 Require Import Base.Outcome Base.Hex Base.F64 Gen.GdsTablesGen Gds.GdsData Gds.GdsRecord Gds.GdsWrite Gds.GdsRead
  Gds.GdsSpec Gds.GdsRtDefs Gds.GdsRtStrip Gds.GdsRtExamples Gds.GdsWTables_proofs Gds.GdsWrite_proofs Gds.GdsWFits_proofs
  Gds.GdsRoundtrip_proofs Gds.GdsRtSpec_proofs Gds.GdsRtStrip_proofs.
Import ListNotations.
Local Open Scope Z_scope.

(** (1) Whatever the writer writes is, byte for byte, the reference encoding of the specification:
    record order of the grammar, record-type / data-type numbers of the table, big-endian integers,
    excess-64 base-16 reals (C15), STRANS flag bits, one NUL after odd-length strings, ENDLIB last. *)
Theorem C02_writer_is_reference :
  forall l bs, lib_ok l -> write_lib l = Ok bs -> bs = spec_render l.
Proof.
  intros l bs Hok Hw. destruct (GdsRt_write_ok_fits l bs Hw) as [_ ->].
  symmetry. apply GdsRtS_spec_render_encb, Hok.
Qed.

(** (2) The writer never panics and fails only with the record-length error, exactly when some
    payload does not fit the 16-bit length field. (All libraries; no hypothesis.) *)
Theorem C02_write_errors_only_on_length :
  forall l, (some_payload_too_long l = false /\ exists bs, write_lib l = Ok bs) \/
            (some_payload_too_long l = true /\ write_lib l = Err ERecordLen).
Proof.
  intros l. rewrite GdsW_write_lib_eq, GdsW_fits_iff_payloads.
  destruct (some_payload_too_long l); cbn [negb]; [right | left]; eauto.
Qed.

(** (3) The bytes are a well-formed stream: complete records with even lengths >= 4 up to ENDLIB,
    every (record type, data type) pair from the specification's table, none of the unused record
    types, and the record sequence derives from <library> of the grammar. *)
Theorem C02_stream_wf :
  forall l bs, lib_ok l -> ~ KnownClass_C01 l -> write_lib l = Ok bs -> stream_wf bs.
Proof.
  intros l bs Hok Hk Hw. rewrite (C02_writer_is_reference l bs Hok Hw), <- (app_nil_r (spec_render l)).
  apply GdsRtS_stream_wf_render; [exact Hok | exact Hk | apply (GdsRt_write_ok_fits l bs Hw)].
Qed.

(** (3b) ... and the stream ENDS with the end-of-library record: splitting the bytes into records up to ENDLIB leaves no byte
    over (what [stream_wf] alone does not say: it reads up to ENDLIB and ignores what follows, as a reader of tape-padded
    files must). *)
Theorem C02_stream_ends_at_endlib :
  forall l bs, lib_ok l -> ~ KnownClass_C01 l -> write_lib l = Ok bs -> exists rs, split_stream bs = Some (rs, []).
Proof.
  intros l bs Hok Hk Hw. exists (g_library l). rewrite (C02_writer_is_reference l bs Hok Hw), <- (app_nil_r (spec_render l)).
  apply GdsRtS_split_render; [exact Hok | exact Hk | apply (GdsRt_write_ok_fits l bs Hw)].
Qed.

(** (4) The independent decoder recovers the library from the bytes: exactly [l], except that a
    real-valued field holding -0.0 comes back as +0.0. *)
Theorem C02_spec_parse :
  forall l bs, lib_ok l -> ~ KnownClass_C01 l -> write_lib l = Ok bs -> spec_parse bs = Some (lib_canon l).
Proof.
  intros l bs Hok Hk Hw. rewrite (C02_writer_is_reference l bs Hok Hw), <- (app_nil_r (spec_render l)).
  apply GdsRtS_spec_parse_render; [exact Hok | exact Hk | apply (GdsRt_write_ok_fits l bs Hw)].
Qed.
Corollary C02_spec_parse_eq :
  forall l bs, lib_ok l -> ~ KnownClass_C01 l -> write_lib l = Ok bs ->
    exists l', spec_parse bs = Some l' /\ lib_rust_eqb l l' = true.
Proof.
  intros l bs Hok Hk Hw. exists (lib_canon l). split; [apply C02_spec_parse; assumption | apply GdsRt_lib_ok_canon_rust_eq, Hok].
Qed.
Corollary C02_spec_parse_exact :
  forall l bs, lib_ok l -> ~ KnownClass_C01 l -> (forall x, In x (lib_reals l) -> x <> two63) ->
    write_lib l = Ok bs -> spec_parse bs = Some l.
Proof.
  intros l bs Hok Hk Hz Hw. rewrite (C02_spec_parse l bs Hok Hk Hw), (GdsRt_canon_no_negzero l Hz). reflexivity.
Qed.

(** (4') For EVERY library (also inside the class) the bytes are a well-formed stream, and the
    independent decoder recovers [lib_canon (lib_strip l)]: [l] with the last byte removed from
    every string of even length ending in NUL and nothing else changed ([lib_strip], Gds/GdsRtStrip.v;
    [lib_strip l = l] outside the class, C01_strip_outside_class). *)
Theorem C02_stream_wf_total :
  forall l bs, lib_ok l -> write_lib l = Ok bs -> stream_wf bs.
Proof.
  intros l bs Hok Hw. rewrite (C02_writer_is_reference l bs Hok Hw), <- (app_nil_r (spec_render l)).
  apply GdsRtP_spec_parse_total; [exact Hok | apply (GdsRt_write_ok_fits l bs Hw)].
Qed.
Theorem C02_spec_parse_total :
  forall l bs, lib_ok l -> write_lib l = Ok bs -> spec_parse bs = Some (lib_canon (lib_strip l)).
Proof.
  intros l bs Hok Hw. rewrite (C02_writer_is_reference l bs Hok Hw), <- (app_nil_r (spec_render l)).
  apply GdsRtP_spec_parse_total; [exact Hok | apply (GdsRt_write_ok_fits l bs Hw)].
Qed.

(** (5) The excluded class really is excluded for a reason: library name "a\0" is written as the
    two bytes 61 00, which the reference decoder (like every GDSII reader) reads as "a". *)
Theorem C02_known_class_refuted :
  exists l bs, lib_ok l /\ KnownClass_C01 l /\ write_lib l = Ok bs /\ stream_wf bs /\
    exists l', spec_parse bs = Some l' /\ lib_rust_eqb l l' = false.
Proof.
  exists GdsRt_known_lib. eexists. split; [vm_compute; reflexivity|]. split; [vm_compute; reflexivity|].
  split; [vm_compute; reflexivity|]. split; [vm_compute; reflexivity|].
  exists GdsRt_known_lib_read. split; vm_compute; reflexivity.
Qed.

(** (6) Translator leg (re-checked on every run against the Rust source, Gen/GdsTablesGen.v):
    the implementation's record and data type numbering is the specification's, and the
    (record type, data type, length) tables of `write_record_header` / `read_record_content` are
    the table [arm_of] of the model and carry the data types of the specification's table. *)
Theorem C02_numbering_is_spec :
  gen_rtypes = map (fun '(_, nm, c, _) => (nm, c)) spec_records /\ gen_dtypes = spec_dtypes /\ gen_invalid = spec_unused.
Proof. exact (conj GdsW_rtypes_eq_spec (conj GdsW_dtypes_eq_spec GdsW_invalid_eq_spec)). Qed.
Theorem C02_tables_are_model :
  gen_rtypes = rtype_table /\ gen_dtypes = dtype_table /\ gen_invalid = invalid_table /\
  GdsW_same_set GdsW_arm_eqb GdsW_write_arms arm_table = true /\
  GdsW_same_set GdsW_arm_eqb GdsW_read_arms arm_table = true.
Proof.
  exact (conj GdsW_rtypes_eq_model (conj GdsW_dtypes_eq_model (conj GdsW_invalid_eq_model
        (conj GdsW_write_arms_eq_model GdsW_read_arms_eq_model)))).
Qed.

(** Non-vacuity: a library with all seven element kinds, once with every optional field present
    (flags, plex, path type / width / extensions, presentation, transforms with magnification and
    angle, property lists with an empty and a non-ASCII string, coordinates at both ends of the i32
    range) and once with none, meets the hypotheses and is written; a -0.0 magnification; the longest
    coordinate list that fits; a structure name one byte too long gives the length error. *)
Example C02_nonvacuous :
  lib_okb GdsRt_full_lib = true /\ known_class_c01b GdsRt_full_lib = false /\
  some_payload_too_long GdsRt_full_lib = false /\ is_ok (write_lib GdsRt_full_lib) = true /\
  (match write_lib GdsRt_full_lib with Ok bs => spec_parse bs | _ => None end) = Some GdsRt_full_lib /\
  lib_okb GdsRt_negzero_lib = true /\ known_class_c01b GdsRt_negzero_lib = false /\
  lib_eqb (lib_canon GdsRt_negzero_lib) GdsRt_negzero_lib = false /\
  lib_okb GdsRt_max_xy_lib = true /\ is_ok (write_lib GdsRt_max_xy_lib) = true /\
  lib_okb GdsRt_long_lib = true /\ some_payload_too_long GdsRt_long_lib = true /\
  is_err (write_lib GdsRt_long_lib) = true.
Proof. vm_compute. repeat split; reflexivity. Qed.

(** statements pinned: a change of a statement above breaks the build *)
Check C02_writer_is_reference : forall l bs, lib_ok l -> write_lib l = Ok bs -> bs = spec_render l.
Check C02_write_errors_only_on_length :
  forall l, (some_payload_too_long l = false /\ exists bs, write_lib l = Ok bs) \/
            (some_payload_too_long l = true /\ write_lib l = Err ERecordLen).
Check C02_stream_wf : forall l bs, lib_ok l -> ~ KnownClass_C01 l -> write_lib l = Ok bs -> stream_wf bs.
Check C02_stream_ends_at_endlib : forall l bs, lib_ok l -> ~ KnownClass_C01 l -> write_lib l = Ok bs -> exists rs, split_stream bs = Some (rs, []).
Check C02_spec_parse : forall l bs, lib_ok l -> ~ KnownClass_C01 l -> write_lib l = Ok bs -> spec_parse bs = Some (lib_canon l).
Check C02_spec_parse_eq :
  forall l bs, lib_ok l -> ~ KnownClass_C01 l -> write_lib l = Ok bs ->
    exists l', spec_parse bs = Some l' /\ lib_rust_eqb l l' = true.
Check C02_spec_parse_exact :
  forall l bs, lib_ok l -> ~ KnownClass_C01 l -> (forall x, In x (lib_reals l) -> x <> two63) ->
    write_lib l = Ok bs -> spec_parse bs = Some l.
Check C02_stream_wf_total : forall l bs, lib_ok l -> write_lib l = Ok bs -> stream_wf bs.
Check C02_spec_parse_total : forall l bs, lib_ok l -> write_lib l = Ok bs -> spec_parse bs = Some (lib_canon (lib_strip l)).
Check C02_known_class_refuted :
  exists l bs, lib_ok l /\ KnownClass_C01 l /\ write_lib l = Ok bs /\ stream_wf bs /\
    exists l', spec_parse bs = Some l' /\ lib_rust_eqb l l' = false.

Print Assumptions C02_writer_is_reference.
Print Assumptions C02_write_errors_only_on_length.
Print Assumptions C02_stream_wf.
Print Assumptions C02_spec_parse.
Print Assumptions C02_spec_parse_eq.
Print Assumptions C02_spec_parse_exact.
Print Assumptions C02_stream_wf_total.
Print Assumptions C02_stream_ends_at_endlib.
Print Assumptions C02_spec_parse_total.
Print Assumptions C02_known_class_refuted.
Print Assumptions C02_numbering_is_spec.
Print Assumptions C02_tables_are_model.
