(** C05 -- LEF write-then-read returns the library that was written.

    Model: Lef/LefLex.v, Lef/LefParse.v ([parse]), Lef/LefWrite.v ([write_lib]); [cfg_fixed] = the repaired code,
    the flags of [cfg] = the defects found; [lef_eq] (Lef/LefCheck.v): structural equality, decimals compared
    numerically (rust_decimal's PartialEq). The libraries are those the reader returns on valid UTF-8 texts (a Rust
    `&str` is valid UTF-8 by construction). Proofs: Lef/LefW*_proofs.v (writer side), Lef/LefI*_proofs.v (image of
    the reader), Lef/LefRt*_proofs.v (reading a token sequence in general form, shared with C04). *)
From Coq Require Import String.
From Coq Require Import ZArith List Bool.
From L21 Require Import Lef.LefDec Lef.LefData Lef.LefLex Lef.LefParse Lef.LefWrite Lef.LefSpec Lef.LefCheck
                        Lef.LefLex_proofs Lef.LefRtLex_proofs Lef.LefWFrame_proofs Lef.LefWDec_proofs
                        Lef.LefIFrame_proofs Lef.LefILex_proofs Lef.LefWrite_proofs.
Import ListNotations.
Local Open Scope Z_scope.

(** * The property *)
(** for the reader and writer [cf]: every library the reader can produce is written, and the text is read back
    as an equal library *)
Definition C05_write_read_stmt (cf : cfg) : Prop :=
  forall src l, utf8_valid src -> parse cf src = Ok l ->
    exists t l', write_lib cf l = Ok t /\ parse cf t = Ok l' /\ lef_eq l l' = true.

(** The repaired code has the property. *)
Theorem C05_write_read : C05_write_read_stmt cfg_fixed.
Proof. exact LefW_write_read. Qed.

(** * Its two halves *)
(** the image of the reader: names are name tokens, string literals are terminated, decimals are well formed,
    polygons have three points, version-dependent statements agree with the version, ... ([lib_wr]) *)
Theorem C05_reader_image : forall src l, U8 src -> parse cfg_fixed src = Ok l -> lib_wr l.
Proof. exact LefW_parse_image. Qed.
(** such a library is written, and the text is read back *)
Theorem C05_writer_reads_back : forall l, lib_wr l ->
  exists t l', write_lib cfg_fixed l = Ok t /\ parse cfg_fixed t = Ok l' /\ lef_eq l l' = true.
Proof. exact LefW_write_read_wr. Qed.
(** the image of the lexer: every token but an unterminated final string literal is lexed again as itself *)
Theorem C05_lex_image : forall src tis e, U8 src -> lex false src = (tis, e) ->
  exists a, Forall2 (sees_tok src) tis a /\ good a.
Proof. exact lex_image. Qed.
(** `Display` then `from_str` of a decimal *)
Theorem C05_display_parses : forall d, dec_wf d ->
  dec_of_bytes (dec_to_bytes d) = DOk (mkdec (d_neg d && negb (d_mant d =? 0)) (d_mant d) (d_scale d)).
Proof. exact display_parses. Qed.

(** * The code as found (one defect at a time) does not have the property *)
Lemma C05_refute (cf : cfg) (src : bytes) : utf8_valid src -> write_read_ok cf src = Some false -> ~ C05_write_read_stmt cf.
Proof.
  unfold write_read_ok. intros V R H. destruct (parse cf src) as [l| | | |] eqn:Hp; try discriminate.
  destruct (H src l V Hp) as [t [l' [Hw [Hr He]]]]. rewrite Hw, Hr, He in R. discriminate.
Qed.
Theorem C05_w_site_orig_refuted : ~ C05_write_read_stmt cfg_only_w_site_orig.
Proof. apply (C05_refute _ LefW_src_site); [vm_compute; reflexivity | exact (proj1 LefW_site_orig_refuted)]. Qed.
Theorem C05_nowire_ungated_orig_refuted : ~ C05_write_read_stmt cfg_only_nowire_ungated.
Proof. apply (C05_refute _ LefW_src_nowire); [vm_compute; reflexivity | exact (proj1 LefW_nowire_ungated_refuted)]. Qed.
Theorem C05_w_prop_nosemi_orig_refuted : ~ C05_write_read_stmt cfg_only_w_prop_nosemi.
Proof. apply (C05_refute _ LefW_src_prop); [vm_compute; reflexivity | exact (proj1 LefW_prop_nosemi_refuted)]. Qed.
Theorem C05_version_repeat_orig_refuted : ~ C05_write_read_stmt cfg_only_version_repeat.
Proof. apply (C05_refute _ LefW_src_version_ncs); [vm_compute; reflexivity | exact (proj1 LefW_version_repeat_refuted)]. Qed.

(** * Non-vacuity: a text with non-ASCII names, a comment, exponent numbers, a site, a via, a macro with pin, port,
      obstruction, properties and density, and an extension is read; its library is written and read back *)
Definition C05_ex_src : bytes :=
  bs "VERSION 5.4 ; NAMESCASESENSITIVE ON ; BUSBITCHARS ""[]"" ; UNITS DATABASE MICRONS 2e3 ; END UNITS # c
SITE s CLASS CORE ; SIZE 0.46 BY 2.72 ; END s VIA v DEFAULT RESISTANCE 1.50 ; LAYER m1 ; RECT MASK 1 -.5 0 5. 1 ; END v
MACRO m CLASS CORE TIEHIGH ; SOURCE USER ; FOREIGN f 0 0 FN ; SIZE 1E1 BY 2.0 ; PROPERTY p ""a b"" q 007 ;
 PIN a DIRECTION OUTPUT TRISTATE ; antennagatearea 1.5 LAYER m1 ; NETEXPR ""n e"" ;
  PORT CLASS CORE ; LAYER m1 EXCEPTPGNET SPACING 0.1 ; WIDTH 0.14 ; POLYGON ITERATE 0 0 1 0 1 1 DO 2 BY 3 STEP 4 5 ; VIA 0 0 v ; END
 END a OBS LAYER m2 ; PATH 0 0 1 1 ; END DENSITY LAYER m1 ; RECT 0 0 1 1 50 ; END END m
BEGINEXT ""t"" x 1.5 ; ""q r"" ENDEXT END LIBRARY" ++ [32; 195; 169].
Example C05_write_read_nonvacuous :
  utf8_valid C05_ex_src /\ write_read_ok cfg_fixed C05_ex_src = Some true
  /\ write_read_ok (mkcfg false false false false false true true false) C05_ex_src = Some false   (* the writer as found *)
  /\ match parse cfg_fixed C05_ex_src with
     | Ok l => (List.length (lib_macros l), List.length (lib_vias l), List.length (lib_sites l), List.length (lib_extensions l)) = (1, 1, 1, 1)%nat
     | _ => False
     end.
Proof. vm_compute. repeat split; reflexivity. Qed.

Check C05_write_read : forall src l, utf8_valid src -> parse cfg_fixed src = Ok l ->
  exists t l', write_lib cfg_fixed l = Ok t /\ parse cfg_fixed t = Ok l' /\ lef_eq l l' = true.
Check C05_reader_image : forall src l, U8 src -> parse cfg_fixed src = Ok l -> lib_wr l.
Check C05_writer_reads_back : forall l, lib_wr l ->
  exists t l', write_lib cfg_fixed l = Ok t /\ parse cfg_fixed t = Ok l' /\ lef_eq l l' = true.
Check C05_lex_image : forall src tis e, U8 src -> lex false src = (tis, e) -> exists a, Forall2 (sees_tok src) tis a /\ good a.
Check C05_display_parses : forall d, dec_wf d ->
  dec_of_bytes (dec_to_bytes d) = DOk (mkdec (d_neg d && negb (d_mant d =? 0)) (d_mant d) (d_scale d)).
Check C05_w_site_orig_refuted : ~ C05_write_read_stmt cfg_only_w_site_orig.
Check C05_nowire_ungated_orig_refuted : ~ C05_write_read_stmt cfg_only_nowire_ungated.
Check C05_w_prop_nosemi_orig_refuted : ~ C05_write_read_stmt cfg_only_w_prop_nosemi.
Check C05_version_repeat_orig_refuted : ~ C05_write_read_stmt cfg_only_version_repeat.

Print Assumptions C05_write_read.
Print Assumptions C05_reader_image.
Print Assumptions C05_writer_reads_back.
Print Assumptions C05_lex_image.
Print Assumptions C05_display_parses.
Print Assumptions C05_w_site_orig_refuted.
Print Assumptions C05_nowire_ungated_orig_refuted.
Print Assumptions C05_w_prop_nosemi_orig_refuted.
Print Assumptions C05_version_repeat_orig_refuted.
