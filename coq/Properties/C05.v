(** C05 -- LEF write-then-read returns the library that was written.

    Model: Lef/LefParse.v ([parse]), Lef/LefWrite.v ([write_lib]); [lef_eq] (Lef/LefCheck.v): structural
    equality, decimals compared numerically. *)
From Coq Require Import ZArith List Bool.
From L21 Require Import Lef.LefDec Lef.LefData Lef.LefLex Lef.LefParse Lef.LefWrite Lef.LefSpec Lef.LefCheck
                        Lef.LefWrite_proofs.
Import ListNotations.
Local Open Scope Z_scope.

(** The property, for the reader and writer [cf]: every library the reader can produce is written, and the
    text is read back as an equal library. *)
Definition C05_write_read_stmt (cf : cfg) : Prop :=
  forall src l, parse cf src = Ok l ->
    exists t l', write_lib cf l = Ok t /\ parse cf t = Ok l' /\ lef_eq l l' = true.

Lemma C05_refute (cf : cfg) (src : bytes) : write_read_ok cf src = Some false -> ~ C05_write_read_stmt cf.
Proof.
  unfold write_read_ok. intros R H. destruct (parse cf src) as [l| | | |] eqn:Hp; try discriminate.
  destruct (H src l Hp) as [t [l' [Hw [Hr He]]]]. rewrite Hw, Hr, He in R. discriminate.
Qed.

(** The code as found (one defect at a time) does not have the property. *)
Theorem C05_w_site_orig_refuted : ~ C05_write_read_stmt cfg_only_w_site_orig.
Proof. exact (C05_refute _ _ (proj1 LefW_site_orig_refuted)). Qed.
Theorem C05_nowire_ungated_orig_refuted : ~ C05_write_read_stmt cfg_only_nowire_ungated.
Proof. exact (C05_refute _ _ (proj1 LefW_nowire_ungated_refuted)). Qed.
Theorem C05_w_prop_nosemi_orig_refuted : ~ C05_write_read_stmt cfg_only_w_prop_nosemi.
Proof. exact (C05_refute _ _ (proj1 LefW_prop_nosemi_refuted)). Qed.
Theorem C05_version_repeat_orig_refuted : ~ C05_write_read_stmt cfg_only_version_repeat.
Proof. exact (C05_refute _ _ (proj1 LefW_version_repeat_refuted)). Qed.

Check C05_w_site_orig_refuted : ~ C05_write_read_stmt cfg_only_w_site_orig.
Check C05_nowire_ungated_orig_refuted : ~ C05_write_read_stmt cfg_only_nowire_ungated.
Check C05_w_prop_nosemi_orig_refuted : ~ C05_write_read_stmt cfg_only_w_prop_nosemi.
Check C05_version_repeat_orig_refuted : ~ C05_write_read_stmt cfg_only_version_repeat.

Print Assumptions C05_w_site_orig_refuted.
Print Assumptions C05_nowire_ungated_orig_refuted.
Print Assumptions C05_w_prop_nosemi_orig_refuted.
Print Assumptions C05_version_repeat_orig_refuted.
