(** Kernels, GDSII family: the generated reading of `GdsFloat64::decode` (gds21/src/data.rs, Gen/KernelsGen.v)
    against the fields and the float expression of Gds/GdsReal.v. See Properties/Kernels.v for the scheme.
    Proof in Gds/KernelsTieGds_proofs.v. *)
From Coq Require Import ZArith Bool List.
From L21 Require Import Base.KernelOps Gen.KernelsGen Gds.GdsReal Gds.KernelsInstGds.
From L21 Require Gds.KernelsTieGds_proofs.
Local Open Scope Z_scope.

(** for every 64-bit word: the sign bit is [gds_sign], the seven-bit exponent minus 64 is [gds_exp7 w - 64], the
    low 56 bits are [gds_mant], no integer operation overflows, and the value returned is
    `(mantissa as f64 / 2f64.powi(56)) * 16f64.powi(exp)`, preceded by `-1.0 *` when the sign bit is set *)
Theorem Ktie_gds_decode : forall w : Z, 0 <= w < 2 ^ 64 ->
  g_GdsFloat64_decode sym_kops w = Some (decode_expr (gds_sign w) (gds_mant w) (gds_exp7 w - 64)).
Proof. exact KernelsTieGds_proofs.tie_gds_decode. Qed.

Print Assumptions Ktie_gds_decode.
