(** C08 -- Compiled gridded layouts realise exactly their tracks, cuts, vias and nets.
    Property theorems only; proofs are in Tetris/Compile_proofs.v.
    Model: Tetris/Stack.v, Tracks.v, Compile.v ([orig] = the code at the pinned commit, [fixed] = with
    the repairs of /verif/work/c08/fix-*.patch).  Specification: Tetris/CompileSpec.v
    (track_pos, tiles, centred, blocks, via_okb, nets_okb), evaluated by Tetris/CompileCheck.v.

    What is proved: the per-track theorems (1)-(5), the track-position theorems (6)-(7), the
    per-track realisation (8) and the absence of panics (10).  The whole-cell statement [C08_full]
    is a Definition: its proof needs the composition of (1)-(8) over the layers, periods and
    tracks of a cell (see the comment at [C08_full]); it is covered by the correspondence run,
    which evaluates it on the implementation's output for every generated case. *)
From Coq Require Import ZArith List Bool Permutation.
From L21 Require Import Tetris.Stack Tetris.Tracks Tetris.Compile Tetris.CompileSpec Tetris.CompileCheck
                        Tetris.Compile_proofs.
Import ListNotations.
Local Open Scope Z_scope.

(** (1) cut_or_block keeps a track tiled and changes only the requested interval.
    [Tiled span segs]: segs is non-empty and its segments go from 0 to span, each starting where
    the previous stops (start <= stop; the code does produce empty segments).
    [splits_at a b tp segs segs']: segs = pre ++ s :: post with s a wire or rail segment containing
    [a, b], and segs' = pre ++ s[start..a] :: (tp)[a..b] :: s[b..stop]? ++ post. *)
Theorem C08_cut_or_block_preserves :
  forall span segs a b tp segs',
    Tiled span segs -> 0 <= a -> a < b -> b <= span ->
    cut_or_block a b tp segs = Ok segs' ->
    Tiled span segs' /\ splits_at a b tp segs segs'.
Proof. exact cut_or_block_preserves. Qed.

(** (2) The outcome is Ok exactly when [a, b] lies inside ONE wire or rail segment; otherwise --
    the interval meets an existing cut or blockage, or runs over a segment boundary -- it is an
    Err, never a panic. *)
Theorem C08_cut_or_block_ok_iff :
  forall span segs a b tp,
    Tiled span segs -> 0 <= a -> a < b -> b <= span ->
    ((exists segs', cut_or_block a b tp segs = Ok segs') <->
     (exists s, In s segs /\ wire_or_rail (s_tp s) /\ s_start s <= a /\ b <= s_stop s)) /\
    (forall c, cut_or_block a b tp segs <> Panic c).
Proof. exact cut_or_block_ok_iff. Qed.

(** (3) set_net: the FIRST segment covering the point (closed interval) is the one affected; a wire
    gets the net, a blockage leaves everything unchanged (the code's FIXME), nothing else changes;
    on a track without rail segments it never panics. *)
Theorem C08_set_net :
  forall at_ net l lo hi l',
    chain lo l hi -> set_net at_ net l = Ok l' ->
    chain lo l' hi /\
    exists pre s post,
      l = pre ++ s :: post /\ s_start s <= at_ <= s_stop s /\
      (forall p, In p pre -> ~ (s_start p <= at_ <= s_stop p)) /\
      ((exists src, s_tp s = TBlock src /\ l' = l) \/
       (exists n0, s_tp s = TWire n0 /\
                   l' = pre ++ mkSeg (TWire (Some net)) (s_start s) (s_stop s) :: post)).
Proof. exact set_net_ok. Qed.

Theorem C08_set_net_no_panic :
  forall at_ net l c, Forall (fun s => ~ is_rail_seg s) l -> set_net at_ net l <> Panic c.
Proof. exact set_net_no_panic. Qed.

(** (4) ANY sequence of cut / block / set_net operations that returns Ok, from any tiled track,
    keeps it tiled, and the cut and blockage segments of the result are exactly the ones the track
    had plus the requested ones (same intervals, same sources). *)
Theorem C08_track_ops_partial :
  forall span ops segs0 segs',
    Tiled span segs0 -> Forall (op_ok span) ops -> foldM apply_op ops segs0 = Ok segs' ->
    Tiled span segs' /\ Permutation (filter nonwire segs') (filter nonwire segs0 ++ requested ops).
Proof. exact track_ops_tiled. Qed.

(** (5) The net phase (the exporter assigns nets after all cuts and blockages of the period): the
    geometry and the cuts/blockages do not change, and every wire segment that carries a net
    covers the crossing of an assignment of that net -- no other wire piece carries a net. *)
Theorem C08_nets_phase :
  forall nets done l0 l' lo hi,
    chain lo l0 hi -> netted_covered done l0 ->
    foldM (fun l an => set_net (fst an) (snd an) l) nets l0 = Ok l' ->
    chain lo l' hi /\ map bounds l' = map bounds l0 /\ filter nonwire l' = filter nonwire l0 /\
    netted_covered (done ++ nets) l'.
Proof. exact nets_phase. Qed.

(** (6) TRACK POSITIONS.  For every period index q >= 0, flipped or not, whatever the Repeat
    structure of the pattern: the r-th signal track that to_layer_period instantiates has
    exactly the start and width that the specification ([track_pos_m], defined from the flattened
    pattern with mirrored odd periods, never mentioning cursors or reversed iteration) gives to
    signal track number q * n + r. *)
Theorem C08_track_pos :
  forall m q stop sigs rails r,
    0 <= q -> to_layer_period m q stop = Ok (sigs, rails) -> 0 <= r < nsig m ->
    option_map (fun t => (td_start (t_data t), td_width (t_data t))) (nth_error sigs (Z.to_nat r))
    = track_pos_m m (q * nsig m + r).
Proof. exact track_pos_model. Qed.

(** (7) center / span of the REPAIRED code return the specification's position of every track
    (so cuts and vias are placed on the drawn tracks); the code before the repair does not, see
    C08_orig_flip_refuted. *)
Theorem C08_center_span_repaired :
  forall px py m index vm k,
    validate_metal px py m index = Ok vm -> 0 <= k -> 0 < nsig m ->
    exists p, track_pos_m m k = Some p /\
      span fixed vm k = Ok (fst p, fst p + snd p) /\
      center fixed vm k = Ok (fst p + Z.quot (snd p) 2).
Proof.
  intros px py m index vm k Hv Hk Hn.
  destruct (track_start_width_spec px py m index vm k Hv Hk Hn) as [p [H1 H2]].
  exists p. unfold span, center. rewrite H2. simpl. auto.
Qed.

(** (8) PER-TRACK REALISATION (proved part of the tiling statement).  Start from the fresh
    full-length segment of a track with data d on [0, span]; apply any sequence of operations that
    all return Ok; export the track.  Then the rectangles drawn, together with exactly the
    requested cut and blockage intervals, tile [0, span] in the specification's sense, and every
    rectangle is on the layer's raw layer at the track's start and width. *)
Theorem C08_track_realised_partial :
  forall vs vm vm0 lay d span ops segs' shapes,
    metal_at vs (vm_index vm) = Ok vm0 -> m_raw (vm_spec vm0) = Some lay ->
    0 <= span -> Forall (op_ok span) ops ->
    foldM apply_op ops (t_segs (fresh_track span d)) = Ok segs' ->
    export_track vs vm (mkTrack d segs') = Ok shapes ->
    tiles_set (map (sh_along (vm_spec vm)) shapes ++ map bounds (requested ops)) 0 span /\
    Forall (fun s => sh_layer s = lay /\
                     sh_across (vm_spec vm) s = (td_start d, td_start d + td_width d)) shapes.
Proof. exact track_realised. Qed.

(** (9) THE FULL STATEMENT (not proved as a theorem; evaluated on the implementation's output
    by the correspondence run).  For the repaired code: whenever compilation returns Ok, the shapes
    of every well-formed cell pass the specification: per layer and track the wire rectangles with
    the requested cuts and the blocked spans tile [0, outline], at the specification's track
    position; one via per assignment, of the via layer's size, centred on the crossing; the
    pieces covering a crossing carry the net, rails carry their names, no other piece carries a
    net; nothing else is drawn.  Missing for a proof: the composition of (1)-(8) through
    export_period / export_layer / export_layout -- that the operations applied to the track
    selected by `track % nsig` in period `track / nsig` are exactly the specification's cuts,
    blocks and assignments of that track, with [0 <= a < b <= span] following from [wf_cellb]. *)
Definition C08_full : Prop :=
  forall st cells out,
    compile fixed st cells = Ok out ->
    Forall2 (fun c shapes => wf_cellb st c = true -> spec_cell st c shapes = []) cells out.

(** (10) NO PANIC.  For the repaired code every failure is an Err: on any stack whose metal and
    via layers all have a raw layer, and any cells whose outline sizes and track numbers are
    non-negative (which `usize` and `Outline` guarantee in Rust), compile never panics. *)
Theorem C08_no_panic :
  forall st cells c, stack_drawable st -> Forall cell_nonneg cells -> compile fixed st cells <> Panic c.
Proof. exact compile_fixed_no_panic. Qed.

(** The code BEFORE the repairs violates the property; closed witnesses, replayed on the real
    code by the directed cases of tools/props/c08.py. *)
Theorem C08_orig_flip_refuted :
  all_wfb st_flip cells_flip_via = true /\
  compile orig st_flip cells_flip_via =
    Ok [[mkShape 10020 0 0 800 100 None; mkShape 10044 30 430 70 470 (Some 1);
         mkShape 10020 0 700 800 800 (Some 1); mkShape 11020 0 0 100 800 (Some 1);
         mkShape 11020 400 0 500 800 None]] /\
  realisesb orig st_flip cells_flip_via = false /\ realisesb fixed st_flip cells_flip_via = true.
Proof. exact orig_flip_via_refuted. Qed.

Theorem C08_orig_reflect_refuted :
  all_wfb st_noflip cells_reflect_h = true /\
  realisesb orig st_noflip cells_reflect_h = false /\ realisesb fixed st_noflip cells_reflect_h = true /\
  exists a b, compile orig st_noflip cells_reflect_h = Ok [a; mkShape 10020 0 0 800 100 None :: b].
Proof. exact orig_reflect_refuted. Qed.

Theorem C08_orig_underflow_panics :
  (exists c, compile orig st_noflip cells_underflow = Panic c) /\
  (exists c, compile fixed st_noflip cells_underflow = Err c).
Proof. exact orig_underflow_panics. Qed.

Theorem C08_orig_bounds_panics :
  (exists c, compile orig st_noflip cells_cut_above_metals = Panic c) /\
  (exists c, compile fixed st_noflip cells_cut_above_metals = Err c).
Proof. exact orig_bounds_panics. Qed.

Theorem C08_orig_odd_refuted :
  all_wfb st_odd cells_odd_via = true /\
  realisesb orig st_odd cells_odd_via = false /\ realisesb fixed st_odd cells_odd_via = true.
Proof. exact orig_odd_refuted. Qed.

(** Non-vacuity: the suite's own cell (tests/mod.rs create_lib1: 3 metals, 50 x 5 pitches, 6 cuts, one
    assignment) on the repo's sample stack is well-formed, compiles to Ok with 137 rectangles and
    satisfies the specification; a fresh track cut twice is a non-trivial instance of (1)-(4). *)
Example C08_nonvacuous :
  all_wfb st_pdka cells_create_lib1 = true /\ realisesb fixed st_pdka cells_create_lib1 = true /\
  match compile fixed st_pdka cells_create_lib1 with Ok [shapes] => length shapes | _ => O end = 137%nat.
Proof. exact pdka_create_lib1_ok. Qed.

Example C08_nonvacuous_track :
  foldM apply_op [OCut 100 350 0; OBlock 400 800 1; ONet 50 7] (t_segs (fresh_track 1000 (mkTd Signal 0 140)))
  = Ok [mkSeg (TWire (Some 7)) 0 100; mkSeg (TCut 0) 100 350; mkSeg (TWire None) 350 400;
        mkSeg (TBlock 1) 400 800; mkSeg (TWire None) 800 1000].
Proof. vm_compute. reflexivity. Qed.

Print Assumptions C08_cut_or_block_preserves.
Print Assumptions C08_cut_or_block_ok_iff.
Print Assumptions C08_set_net.
Print Assumptions C08_set_net_no_panic.
Print Assumptions C08_track_ops_partial.
Print Assumptions C08_nets_phase.
Print Assumptions C08_track_pos.
Print Assumptions C08_center_span_repaired.
Print Assumptions C08_track_realised_partial.
Print Assumptions C08_no_panic.
Print Assumptions C08_orig_flip_refuted.
Print Assumptions C08_orig_reflect_refuted.
Print Assumptions C08_orig_underflow_panics.
Print Assumptions C08_orig_bounds_panics.
Print Assumptions C08_orig_odd_refuted.
