(** C08 -- Compiled gridded layouts realise exactly their tracks, cuts, vias and nets.
    Property theorems only; proofs are in Tetris/Compile_proofs.v.
    Model: Tetris/Stack.v, Tracks.v, Compile.v ([orig] = the code at the pinned commit, [fixed] = with
    the six repairs of /verif/work/c08/fix-*.patch, the sixth -- fix-stack-raw-layers, 2026-10-02 -- being the
    check in `export_stack` that every metal and via layer has a raw layer; [fixed5] = the first five only).  Specification: Tetris/CompileSpec.v
    (track_pos, tiles, centred, blocks, via_okb, nets_okb), evaluated by Tetris/CompileCheck.v.

    What is proved: the per-track theorems (1)-(5), the track-position theorems (6)-(7), the
    per-track realisation (8), the absence of panics on ANY stack (10)-(10c), and -- proofs in
    Tetris/CompileFull_proofs.v -- the composition over the layers, periods and tracks of a cell:
    vias and centres (11), per-period selection (12)-(13), per-layer tiling (14)-(15), nets (16)-(17)
    and the whole cell (19)-(21).  The whole-cell statement [C08_full] AS FIRST WRITTEN is refuted by a
    closed witness (18): the specification answers 9xx ("not judged") where tracks of different
    kinds coincide, and 9xx is not [].  The whole-cell theorems state what the correspondence run
    judges (no code below 900), resp. [] when no such coincidence exists.  Well-formedness
    ([wf_cellb], clause [crossing_clearb] of [assign_wfb], added 2026-10-01 by coordinator decision)
    excludes an assignment whose crossing ROUNDED DOWN, as `center` computes it for a track of odd
    width, sits on the end of a cut / blocked span; (22) shows on the real code's output what
    happens there (a net lost, or a net on the wrong piece); the clause is vacuous for even widths. *)
From Coq Require Import ZArith List Bool Permutation.
From L21 Require Import Tetris.Stack Tetris.Tracks Tetris.Compile Tetris.CompileSpec Tetris.CompileCheck
                        Tetris.Compile_proofs Tetris.CompileFull_proofs.
Import ListNotations.
Local Open Scope Z_scope.

(** (1) cut_or_block keeps a track tiled and changes only the requested interval.
    [Tiled span segs]: segs is non-empty and its segments go from 0 to span, each starting where
    the previous stops (start <= stop; the code does produce empty segments).
    [splits_at a b tp segs segs']: segs = pre ++ s :: post with s a wire or rail segment containing
    [a, b], and segs' = pre ++ s[start..a] :: (tp)[a..b] :: s[b..stop]? ++ post. *)
Theorem C08_cut_or_block_preserves :
  forall span segs a b tp segs',
    Tiled span segs -> 0 <= a -> a < b -> b <= span ->
    cut_or_block a b tp segs = Ok segs' ->
    Tiled span segs' /\ splits_at a b tp segs segs'.
Proof. exact cut_or_block_preserves. Qed.

(** (2) The outcome is Ok exactly when [a, b] lies inside ONE wire or rail segment; otherwise --
    the interval meets an existing cut or blockage, or runs over a segment boundary -- it is an
    Err, never a panic. *)
Theorem C08_cut_or_block_ok_iff :
  forall span segs a b tp,
    Tiled span segs -> 0 <= a -> a < b -> b <= span ->
    ((exists segs', cut_or_block a b tp segs = Ok segs') <->
     (exists s, In s segs /\ wire_or_rail (s_tp s) /\ s_start s <= a /\ b <= s_stop s)) /\
    (forall c, cut_or_block a b tp segs <> Panic c).
Proof. exact cut_or_block_ok_iff. Qed.

(** (3) set_net: the FIRST segment covering the point (closed interval) is the one affected; a wire
    gets the net, a blockage leaves everything unchanged (the code's FIXME), nothing else changes;
    on a track without rail segments it never panics. *)
Theorem C08_set_net :
  forall at_ net l lo hi l',
    chain lo l hi -> set_net at_ net l = Ok l' ->
    chain lo l' hi /\
    exists pre s post,
      l = pre ++ s :: post /\ s_start s <= at_ <= s_stop s /\
      (forall p, In p pre -> ~ (s_start p <= at_ <= s_stop p)) /\
      ((exists src, s_tp s = TBlock src /\ l' = l) \/
       (exists n0, s_tp s = TWire n0 /\
                   l' = pre ++ mkSeg (TWire (Some net)) (s_start s) (s_stop s) :: post)).
Proof. exact set_net_ok. Qed.

Theorem C08_set_net_no_panic :
  forall at_ net l c, Forall (fun s => ~ is_rail_seg s) l -> set_net at_ net l <> Panic c.
Proof. exact set_net_no_panic. Qed.

(** (4) ANY sequence of cut / block / set_net operations that returns Ok, from any tiled track,
    keeps it tiled, and the cut and blockage segments of the result are exactly the ones the track
    had plus the requested ones (same intervals, same sources). *)
Theorem C08_track_ops_partial :
  forall span ops segs0 segs',
    Tiled span segs0 -> Forall (op_ok span) ops -> foldM apply_op ops segs0 = Ok segs' ->
    Tiled span segs' /\ Permutation (filter nonwire segs') (filter nonwire segs0 ++ requested ops).
Proof. exact track_ops_tiled. Qed.

(** (5) The net phase (the exporter assigns nets after all cuts and blockages of the period): the
    geometry and the cuts/blockages do not change, and every wire segment that carries a net
    covers the crossing of an assignment of that net -- no other wire piece carries a net. *)
Theorem C08_nets_phase :
  forall nets done l0 l' lo hi,
    chain lo l0 hi -> netted_covered done l0 ->
    foldM (fun l an => set_net (fst an) (snd an) l) nets l0 = Ok l' ->
    chain lo l' hi /\ map bounds l' = map bounds l0 /\ filter nonwire l' = filter nonwire l0 /\
    netted_covered (done ++ nets) l'.
Proof. exact nets_phase. Qed.

(** (6) TRACK POSITIONS.  For every period index q >= 0, flipped or not, whatever the Repeat
    structure of the pattern: the r-th signal track that to_layer_period instantiates has
    exactly the start and width that the specification ([track_pos_m], defined from the flattened
    pattern with mirrored odd periods, never mentioning cursors or reversed iteration) gives to
    signal track number q * n + r. *)
Theorem C08_track_pos :
  forall m q stop sigs rails r,
    0 <= q -> to_layer_period m q stop = Ok (sigs, rails) -> 0 <= r < nsig m ->
    option_map (fun t => (td_start (t_data t), td_width (t_data t))) (nth_error sigs (Z.to_nat r))
    = track_pos_m m (q * nsig m + r).
Proof. exact track_pos_model. Qed.

(** (7) center / span of the REPAIRED code return the specification's position of every track
    (so cuts and vias are placed on the drawn tracks); the code before the repair does not, see
    C08_orig_flip_refuted. *)
Theorem C08_center_span_repaired :
  forall px py m index vm k,
    validate_metal px py m index = Ok vm -> 0 <= k -> 0 < nsig m ->
    exists p, track_pos_m m k = Some p /\
      span fixed vm k = Ok (fst p, fst p + snd p) /\
      center fixed vm k = Ok (fst p + Z.quot (snd p) 2).
Proof.
  intros px py m index vm k Hv Hk Hn.
  destruct (track_start_width_spec px py m index vm k Hv Hk Hn) as [p [H1 H2]].
  exists p. unfold span, center. rewrite H2. simpl. auto.
Qed.

(** (8) PER-TRACK REALISATION (proved part of the tiling statement).  Start from the fresh
    full-length segment of a track with data d on [0, span]; apply any sequence of operations that
    all return Ok; export the track.  Then the rectangles drawn, together with exactly the
    requested cut and blockage intervals, tile [0, span] in the specification's sense, and every
    rectangle is on the layer's raw layer at the track's start and width. *)
Theorem C08_track_realised_partial :
  forall vs vm vm0 lay d span ops segs' shapes,
    metal_at vs (vm_index vm) = Ok vm0 -> m_raw (vm_spec vm0) = Some lay ->
    0 <= span -> Forall (op_ok span) ops ->
    foldM apply_op ops (t_segs (fresh_track span d)) = Ok segs' ->
    export_track vs vm (mkTrack d segs') = Ok shapes ->
    tiles_set (map (sh_along (vm_spec vm)) shapes ++ map bounds (requested ops)) 0 span /\
    Forall (fun s => sh_layer s = lay /\
                     sh_across (vm_spec vm) s = (td_start d, td_start d + td_width d)) shapes.
Proof. exact track_realised. Qed.

(** (9) THE FULL STATEMENT AS FIRST WRITTEN (evaluated on the implementation's output by the
    correspondence run, which counts codes >= 900 as "not judged"; as a statement with `= []` it is
    refuted, see (18); the proved whole-cell theorems are (19)-(21)).  For the repaired code: whenever compilation returns Ok, the shapes
    of every well-formed cell pass the specification: per layer and track the wire rectangles with
    the requested cuts and the blocked spans tile [0, outline], at the specification's track
    position; one via per assignment, of the via layer's size, centred on the crossing; the
    pieces covering a crossing carry the net, rails carry their names, no other piece carries a
    net; nothing else is drawn.  Missing for a proof: the composition of (1)-(8) through
    export_period / export_layer / export_layout -- that the operations applied to the track
    selected by `track % nsig` in period `track / nsig` are exactly the specification's cuts,
    blocks and assignments of that track, with [0 <= a < b <= span] following from [wf_cellb]. *)
Definition C08_full : Prop :=
  forall st cells out,
    compile fixed st cells = Ok out ->
    Forall2 (fun c shapes => wf_cellb st c = true -> spec_cell st c shapes = []) cells out.

(** (10) NO PANIC, ON ANY STACK.  For the repaired code every failure is an Err: on ANY stack -- also one that
    validation rejects, and one whose metal or via layers lack a raw layer (`raw: None`): since
    fix-stack-raw-layers `export_stack` reports that as an Err before anything is drawn -- and any cells whose
    outline sizes and track numbers are non-negative (which `usize` and `Outline` guarantee in Rust), compile
    never panics.  (Strengthened 2026-10-02: the hypothesis [stack_drawable st] is no longer needed.) *)
Theorem C08_no_panic_any_stack :
  forall st cells c, Forall cell_nonneg cells -> compile fixed st cells <> Panic c.
Proof. exact compile_fixed_no_panic_any. Qed.

(** (10a) the statement as it stood before fix-stack-raw-layers -- a corollary of (10) *)
Theorem C08_no_panic :
  forall st cells c, stack_drawable st -> Forall cell_nonneg cells -> compile fixed st cells <> Panic c.
Proof. intros st cells c _. apply C08_no_panic_any_stack. Qed.

(** (10b) the tree with the five earlier repairs only ([fixed5]: all flags but [fx_raw]; /repo as it stood on
    2026-10-01): there [stack_drawable] -- every metal and via layer has a raw layer -- is exactly the
    hypothesis that is needed, see (10c). *)
Theorem C08_no_panic_before_raw_fix :
  forall st cells c, stack_drawable st -> Forall cell_nonneg cells -> compile fixed5 st cells <> Panic c.
Proof. exact compile_fixed5_no_panic. Qed.

(** (10c) A STACK LAYER WITHOUT A RAW LAYER (closed witnesses, replayed on the real code by the family
    `stack_no_raw_layer` of tools/props/c08.py).  Metal 0 of the stack has `raw: None`, one empty 1x1 cell of one
    metal: `.raw.unwrap()` in export_track panics at the pinned commit and with the five earlier repairs; the
    repaired export_stack reports an Err.  Likewise a via layer without raw layer and one assignment.  A raw-less
    layer the cell never draws on went unnoticed before the repair (Ok) and is an Err after it; on the complete
    stack the repair changes nothing. *)
Theorem C08_orig_no_raw_layer_panics :
  (compile orig st_noraw_metal0 cells_plain = Panic 540 /\ compile fixed5 st_noraw_metal0 cells_plain = Panic 540 /\
   compile fixed st_noraw_metal0 cells_plain = Err 562) /\
  (compile orig st_noraw_via0 cells_one_via = Panic 541 /\ compile fixed5 st_noraw_via0 cells_one_via = Panic 541 /\
   compile fixed st_noraw_via0 cells_one_via = Err 563) /\
  ((exists out, compile fixed5 st_noraw_metal3 cells_plain = Ok out) /\ compile fixed st_noraw_metal3 cells_plain = Err 562 /\
   (exists out, compile fixed5 st_noraw_via0 cells_plain = Ok out) /\ compile fixed st_noraw_via0 cells_plain = Err 563 /\
   compile fixed st_noflip cells_one_via = compile fixed5 st_noflip cells_one_via /\
   exists out, compile fixed st_noflip cells_one_via = Ok out).
Proof. exact orig_no_raw_layer_panics. Qed.

(** the witness stacks are st_noflip (four metals, three vias, all drawn) with ONE raw layer removed; they are
    outside [wf_stackb] (the tiling / net clauses do not judge them) but inside the no-panic clause, which
    quantifies over every stack *)
Example C08_no_raw_layer_witness_shape :
  s_metals st_noraw_metal0 <> [] /\ map m_raw (s_metals st_noraw_metal0) = [None; Some 11020; Some 12020; Some 13020] /\
  map v_raw (s_vias st_noraw_via0) = [None; Some 11044; Some 12044] /\
  ~ stack_drawable st_noraw_metal0 /\ ~ stack_drawable st_noraw_via0 /\ stack_drawable st_noflip /\
  wf_stackb st_noraw_metal0 = false /\ wf_stackb st_noraw_via0 = false /\ wf_stackb st_noflip = true /\
  Forall cell_nonneg cells_plain /\ Forall cell_nonneg cells_one_via.
Proof.
  repeat split; try (vm_compute; reflexivity); try (vm_compute; discriminate).
  - intros [H _]. inversion H as [|? ? H0 _]. apply H0. reflexivity.
  - intros [_ H]. inversion H as [|? ? H0 _]. apply H0. reflexivity.
  - repeat constructor; discriminate.
  - repeat constructor; discriminate.
  - repeat constructor; vm_compute; discriminate.
  - repeat constructor; vm_compute; discriminate.
Qed.

(** The code BEFORE the repairs violates the property; closed witnesses, replayed on the real
    code by the directed cases of tools/props/c08.py. *)
Theorem C08_orig_flip_refuted :
  all_wfb st_flip cells_flip_via = true /\
  compile orig st_flip cells_flip_via =
    Ok [[mkShape 10020 0 0 800 100 None; mkShape 10044 30 430 70 470 (Some 1);
         mkShape 10020 0 700 800 800 (Some 1); mkShape 11020 0 0 100 800 (Some 1);
         mkShape 11020 400 0 500 800 None]] /\
  realisesb orig st_flip cells_flip_via = false /\ realisesb fixed st_flip cells_flip_via = true.
Proof. exact orig_flip_via_refuted. Qed.

Theorem C08_orig_reflect_refuted :
  all_wfb st_noflip cells_reflect_h = true /\
  realisesb orig st_noflip cells_reflect_h = false /\ realisesb fixed st_noflip cells_reflect_h = true /\
  exists a b, compile orig st_noflip cells_reflect_h = Ok [a; mkShape 10020 0 0 800 100 None :: b].
Proof. exact orig_reflect_refuted. Qed.

Theorem C08_orig_underflow_panics :
  (exists c, compile orig st_noflip cells_underflow = Panic c) /\
  (exists c, compile fixed st_noflip cells_underflow = Err c).
Proof. exact orig_underflow_panics. Qed.

Theorem C08_orig_bounds_panics :
  (exists c, compile orig st_noflip cells_cut_above_metals = Panic c) /\
  (exists c, compile fixed st_noflip cells_cut_above_metals = Err c).
Proof. exact orig_bounds_panics. Qed.

Theorem C08_orig_odd_refuted :
  all_wfb st_odd cells_odd_via = true /\
  realisesb orig st_odd cells_odd_via = false /\ realisesb fixed st_odd cells_odd_via = true.
Proof. exact orig_odd_refuted. Qed.

(** Non-vacuity: the suite's own cell (tests/mod.rs create_lib1: 3 metals, 50 x 5 pitches, 6 cuts, one
    assignment) on the repo's sample stack is well-formed, compiles to Ok with 137 rectangles and
    satisfies the specification; a fresh track cut twice is a non-trivial instance of (1)-(4). *)
Example C08_nonvacuous :
  all_wfb st_pdka cells_create_lib1 = true /\ realisesb fixed st_pdka cells_create_lib1 = true /\
  match compile fixed st_pdka cells_create_lib1 with Ok [shapes] => length shapes | _ => O end = 137%nat.
Proof. exact pdka_create_lib1_ok. Qed.

Example C08_nonvacuous_track :
  foldM apply_op [OCut 100 350 0; OBlock 400 800 1; ONet 50 7] (t_segs (fresh_track 1000 (mkTd Signal 0 140)))
  = Ok [mkSeg (TWire (Some 7)) 0 100; mkSeg (TCut 0) 100 350; mkSeg (TWire None) 350 400;
        mkSeg (TBlock 1) 400 800; mkSeg (TWire None) 800 1000].
Proof. vm_compute. reflexivity. Qed.

Print Assumptions C08_cut_or_block_preserves.
Print Assumptions C08_cut_or_block_ok_iff.
Print Assumptions C08_set_net.
Print Assumptions C08_set_net_no_panic.
Print Assumptions C08_track_ops_partial.
Print Assumptions C08_nets_phase.
Print Assumptions C08_track_pos.
Print Assumptions C08_center_span_repaired.
Print Assumptions C08_track_realised_partial.
Print Assumptions C08_no_panic_any_stack.
Print Assumptions C08_no_panic.
Print Assumptions C08_no_panic_before_raw_fix.
Print Assumptions C08_orig_no_raw_layer_panics.
Print Assumptions C08_orig_flip_refuted.
Print Assumptions C08_orig_reflect_refuted.
Print Assumptions C08_orig_underflow_panics.
Print Assumptions C08_orig_bounds_panics.
Print Assumptions C08_orig_odd_refuted.

(** * The composition over layers, periods and tracks (proofs: Tetris/CompileFull_proofs.v) *)

(** (11) VIAS AND CENTRES.  Whenever the repaired compiler returns Ok, for every well-formed cell: among
    the (normalised) shapes there are exactly as many via rectangles as assignments; every
    assignment has a via passing [via_okb] -- on the raw layer of the via layer between its two
    metals, of exactly that via layer's size, centred (within half a unit) on the crossing of the
    two tracks' centres as the SPECIFICATION positions them, carrying the net -- and every via
    rectangle is the via of some assignment. *)
Theorem C08_vias_and_centres :
  forall st cells out, compile fixed st cells = Ok out ->
    Forall2 (fun c shapes => wf_cellb st c = true -> vias_okb st c shapes = true) cells out.
Proof. exact compile_vias. Qed.

(** [vias_okb] is literally the via clause of [spec_cell]. *)
Theorem C08_vias_okb_is_spec_clause :
  forall st c shapes0,
    vias_okb st c shapes0 =
    (let shapes := map norm shapes0 in
     let vs := filter (is_via_shape st) shapes in
     (zlen vs =? zlen (c_assigns c))
     && forallb (fun a => existsb (via_okb st a) vs) (c_assigns c)
     && forallb (fun s => existsb (fun a => via_okb st a s) (c_assigns c)) vs).
Proof. reflexivity. Qed.

(** (12) PER-PERIOD SELECTION.  For layer l (metal m, validated as vm), period q and the r-th signal track of
    the period -- the one `&mut signals[track % nsig]` selects -- with k = q * nsig + r its number:
    the spans the exporter blocks on every track of the period are the specification's [blocks];
    the cuts it applies to that track are exactly the cell's cuts on track (l, k), in order; the
    bottom / top assignments it applies are exactly the validated assignments whose bottom / top
    track is (l, k), in order. *)
Theorem C08_period_selection :
  forall st vs c vas m l vm q (N r : nat),
    vs_of st vs -> vm_of m l vm -> (0 < N)%nat -> Z.of_nat N = nsig m -> 0 <= q -> (r < N)%nat ->
    let tp := temp_period fixed vs c vas vm q in
    let k := q * nsig m + Z.of_nat r in
    map bounds (requested (map (block_op vs (m_horiz m)) (tp_blocks tp))) = blocks st c l m q /\
    map snd (filter (fun x => Nat.eqb (cut_idx N x) r) (tp_cuts tp))
      = filter (fun x => (x_tl x =? l) && (x_tt x =? k)) (c_cuts c) /\
    filter (fun x => Nat.eqb (asg_idx N false x) r) (tp_bot tp)
      = filter (fun v => (fst (va_bot v) =? l) && (snd (va_bot v) =? k)) vas /\
    filter (fun x => Nat.eqb (asg_idx N true x) r) (tp_top tp)
      = filter (fun v => (fst (va_top v) =? l) && (snd (va_top v) =? k)) vas.
Proof. exact period_selection. Qed.

(** (13) EVERY DRAWN TRACK OF A PERIOD in the specification's terms.  The output of one period is its vias
    followed by the rectangles of a list of drawn tracks; the tracks drawn are a permutation of the
    specification's tracks of that period (rails and signal tracks, mirrored periods included), and
    each satisfies [track_real]: its rectangles are the wire segments left after applying, to the
    fresh full-length track at the specification's position, the blockages of the period, one
    admissible placement of each of ITS cuts (0 <= a < b <= outline), and ITS net assignments. *)
Theorem C08_period_tracks :
  forall st vs c vas l m vm lay,
    wf_cell st c -> vs_of st vs -> Forall2 (asg_rel st vs c) (c_assigns c) vas ->
    metal_of st l = Some m -> metal_at vs l = Ok vm ->
    validate_metal (s_px st) (s_py st) m l = Ok vm -> m_raw m = Some lay ->
    forall q out, 0 <= q ->
      period_rel vs vm (along_len st c m) (temp_period fixed vs c vas vm q) q out ->
      exists vias etr,
        out = vias ++ concat (map snd etr) /\
        Forall2 (via_rel vs vm) (tp_bot (temp_period fixed vs c vas vm q)) vias /\
        Forall (track_real st c l m lay) etr /\
        Permutation (map fst etr) (period_cts st c m q).
Proof. exact period_tracks. Qed.

(** (14) PER-LAYER TILING.  For every metal layer of a well-formed compiled cell: on every track whose
    position no other track of the layer shares, the specification's tiling statement holds (Prop
    and boolean form): the wire rectangles found AT THE SPECIFICATION'S POSITION of the track,
    with the blocked spans of its period and an admissible placement of each of its cuts, tile
    [0, outline]; and every rectangle on the layer's raw layer sits exactly on a track of the cell. *)
Theorem C08_layer_tiling :
  forall st cells out, compile fixed st cells = Ok out ->
    Forall2 (fun c shapes => wf_cellb st c = true ->
       forall l m, layer_in_cell st c l m ->
         (forall t, alone_at st c m t ->
            track_tiled st c l m t (map norm shapes) /\ track_tiledb st c l m t (map norm shapes) = true) /\
         (forall s, In s (map norm shapes) -> on_layer (m_raw m) s = true ->
            exists t, In t (tracks_of st c m) /\
                      sh_across m s = (fst (ct_pos t), fst (ct_pos t) + snd (ct_pos t)))) cells out.
Proof. exact compile_layer_tiled. Qed.

(** (15) NOTHING ELSE IS DRAWN: every shape is a via rectangle or lies on the raw layer of one of the
    cell's own metals. *)
Theorem C08_nothing_else :
  forall st cells out, compile fixed st cells = Ok out ->
    Forall2 (fun c shapes => wf_cellb st c = true ->
       forallb (fun s => is_via_shape st s || is_metal_shape st c s) (map norm shapes) = true) cells out.
Proof. exact compile_nothing_else. Qed.

(** (16) NETS.  On every track alone at its position the specification's net test holds: a rail's pieces carry the rail's name; on a signal
    track every piece covering the crossing of an assignment carries its net and every piece
    carrying a net covers the crossing of an assignment of that net. *)
Theorem C08_nets :
  forall st cells out, compile fixed st cells = Ok out ->
    Forall2 (fun c shapes => wf_cellb st c = true ->
       forall l m t, layer_in_cell st c l m -> alone_at st c m t ->
         nets_okb st c l m t (map norm shapes) = true) cells out.
Proof. exact compile_nets. Qed.

(** (17) RAILS SHARED BETWEEN PERIODS (coinciding rails of one kind, e.g. through the pattern overlap of
    the repo's sample stack): the group passes the specification's group test -- the non-empty
    pieces drawn there are exactly the gaps of every member's blocked spans -- and carries the
    rail's name. *)
Theorem C08_shared_rails :
  forall st cells out, compile fixed st cells = Ok out ->
    Forall2 (fun c shapes => wf_cellb st c = true ->
       forall l m t k, layer_in_cell st c l m -> In t (tracks_of st c m) -> ct_rail t = Some k ->
         forallb (fun u => rail_kind_eqb (ct_rail u) (ct_rail t)) (same_track_group t (tracks_of st c m)) = true ->
         group_tiledb st c l m (same_track_group t (tracks_of st c m)) (pieces_at m (ct_pos t) (map norm shapes)) = true /\
         nets_okb st c l m t (map norm shapes) = true) cells out.
Proof. exact compile_shared_rails. Qed.

(** (18) [C08_full] AS FIRST WRITTEN IS FALSE (closed witness [coincide_witness]: pattern sig(100) gap(50)
    sig(100) with overlap 100 -- the last signal track of a period coincides with the first of the
    next; [wf_cellb] holds, compile returns Ok, the specification answers [900; 900]). *)
Theorem C08_full_as_stated_refuted : ~ C08_full.
Proof. exact full_as_stated_refuted. Qed.

(** (19) THE WHOLE CELL, as the correspondence run judges it: whenever the repaired compiler returns Ok,
    for every well-formed cell, the specification emits no
    failure code -- every code it emits is >= 900 (a layer with coinciding tracks of different
    kinds, which the specification does not judge). *)
Theorem C08_full_partial_judged :
  forall st cells out, compile fixed st cells = Ok out ->
    Forall2 (fun c shapes => wf_cellb st c = true ->
               forall code, In code (spec_cell st c shapes) -> 900 <= code) cells out.
Proof. exact compile_spec_judged. Qed.

(** (20) THE WHOLE CELL, [C08_full] with its missing hypothesis: no coinciding tracks of different
    kinds ([unambiguousb]). *)
Theorem C08_full_partial_unambiguous :
  forall st cells out, compile fixed st cells = Ok out ->
    Forall2 (fun c shapes => wf_cellb st c = true -> unambiguousb st c = true ->
               spec_cell st c shapes = []) cells out.
Proof. exact compile_spec_holds. Qed.

(** (21) The clearance clause of well-formedness is implied by it ([half_clearb] collects the clause over a
    cell), and on stacks whose signal tracks all have even width it is vacuous: it holds for every
    assignment between two existing tracks. *)
Theorem C08_wf_half_clear :
  forall st c, wf_cellb st c = true -> half_clearb st c = true.
Proof. intros st c H. apply wf_half_clear. apply wf_cellb_wf. exact H. Qed.

Theorem C08_even_widths_clear :
  forall st c a n b t mb mt cb2 ct2, even_sig_widthsb st = true ->
    assign_bt a = Some (n, b, t) -> metal_of st (fst b) = Some mb -> metal_of st (fst t) = Some mt ->
    cross2 st (fst t) (snd t) = Some cb2 -> cross2 st (fst b) (snd b) = Some ct2 ->
    crossing_clearb st c a = true.
Proof. exact even_widths_clear. Qed.

(** (22) WHY THE CLEARANCE CLAUSE IS PART OF WELL-FORMEDNESS (closed witness, replayed on the real code: vertical
    track at x 3..8, centre 5.5 rounded to 5 = end of the span 0..5 blocked by an instance; the cell
    is not well-formed only because of that clause; it compiles, the wire piece 5..10 covers the
    crossing and gets no net: the specification would answer [200]). *)
Theorem C08_clearance_needed :
  wf_cellb st_oddc cell_oddc = false /\ half_clearb st_oddc cell_oddc = false /\ unambiguousb st_oddc cell_oddc = true /\
  compile fixed st_oddc [cell_oddc] =
    Ok [[mkShape 10044 4 4 6 6 (Some 1); mkShape 10020 0 0 0 10 None; mkShape 10020 5 0 10 10 None;
         mkShape 11020 3 0 8 10 (Some 1)]] /\
  spec_cell st_oddc cell_oddc
    [mkShape 10044 4 4 6 6 (Some 1); mkShape 10020 0 0 0 10 None; mkShape 10020 5 0 10 10 None;
     mkShape 11020 3 0 8 10 (Some 1)] = [200].
Proof. exact oddc_witness. Qed.

(** Non-vacuity of (19)-(21): the suite's own cell on the repo's sample stack (rails shared between
    periods) satisfies well-formedness (hence clearance) and unambiguity, and the stack
    has even signal widths; with C08_nonvacuous, compile returns Ok with 137 rectangles. *)
Example C08_full_hyps_nonvacuous :
  all_wfb st_pdka cells_create_lib1 = true /\
  forallb (half_clearb st_pdka) cells_create_lib1 = true /\ forallb (unambiguousb st_pdka) cells_create_lib1 = true /\
  even_sig_widthsb st_pdka = true.
Proof. exact pdka_hyps. Qed.

Print Assumptions C08_vias_and_centres.
Print Assumptions C08_period_selection.
Print Assumptions C08_period_tracks.
Print Assumptions C08_layer_tiling.
Print Assumptions C08_nothing_else.
Print Assumptions C08_nets.
Print Assumptions C08_shared_rails.
Print Assumptions C08_full_as_stated_refuted.
Print Assumptions C08_full_partial_judged.
Print Assumptions C08_full_partial_unambiguous.
Print Assumptions C08_wf_half_clear.
Print Assumptions C08_even_widths_clear.
Print Assumptions C08_clearance_needed.
