(** Kernels, dependency orderers (property C17; the same helper orders C09's placements and C19's cells): the definitions
    GENERATED on every run from layout21utils/src/dep_order.rs, layout21raw/src/data.rs, layout21raw/src/gds.rs
    (Gen/KernelsOrderGen.v, Gen/KernelsRawOrderGen.v; tools/translate_rust_kernels.py units "order", "raworder") against the
    hand-written models of C17, Order/DepOrder.v and Order/DepOrderFixed.v.  The generated terms are read with the models'
    outcomes and list sets ([od_xops], [set_N], [set_ptr], [lm_ops]: Order/KernelsInstOrder.v; `HashSet` / `HashMap` are
    abstract finite sets / maps in the generated code, Base/KernelOpsS.v).

    The `push` functions are recursive.  The generated definition is the BODY, the recursive call (for the generic
    helper: the trait function `P::process`) being an argument; a tie theorem puts the model at fuel f there and states
    that the body is then the model at fuel S f.  Since the models are defined by recursion on the fuel with [OutOfFuel]
    at 0, this determines them.  For the generic helper the iteration on fuel is also carried out in Coq
    ([OG.g_push_fuel]) and proved equal to the model function itself.
    Proofs in Order/KernelsTieOrder_proofs.v (family order_generic) and Order/KernelsTieOrderRaw_proofs.v (family order_raw);
    the orderers of layout21tetris are in Properties/KernelsOrderTetris.v. *)
From Coq Require Import ZArith NArith Bool List.
From L21 Require Import Base.KernelOps Base.KernelOpsX Base.KernelOpsS Order.DepOrder Order.DepOrderFixed Order.KernelsInstOrder.
From L21 Require Gen.KernelsOrderGen Gen.KernelsRawOrderGen.
From L21 Require Order.KernelsTieOrder_proofs Order.KernelsTieOrderRaw_proofs.
Import ListNotations.

(** * family order_generic: layout21utils/src/dep_order.rs *)
Module KOG.
Import OG.
(** the body of `DepOrderer::push` for ANY `P::process` (given on model states as [proc]), `P::fail()` = the error *)
Theorem Ktie_order_push_body : forall (proc : N -> st -> res st) s item,
  g_push (fun it o => rmap Gst (proc it (unG o))) (Gst s) item
  = rmap Gst
      (if mem item (seen s) then Ok s
       else if mem item (pending s) then Err
       else match proc item (mkst (stack s) (seen s) (set_insert item (pending s))) with
            | Ok s2 => if mem item (pending s2)
                       then Ok (mkst (stack s2 ++ [item]) (set_insert item (seen s2)) (set_remove item (pending s2)))
                       else Err
            | e => e
            end).
Proof. exact KernelsTieOrder_proofs.tie_order_push_body. Qed.
(** ONE STEP: `process` = push every dependency with the model at fuel f: the body is the model at fuel S f *)
Theorem Ktie_order_push_step : forall f deps s item,
  g_push (fun it o => rmap Gst (for_each (push f deps) (unG o) (deps it))) (Gst s) item = rmap Gst (push (S f) deps s item).
Proof. exact KernelsTieOrder_proofs.tie_order_push_step. Qed.
(** the WHOLE function: the generated body iterated on the model's fuel is the model *)
Theorem Ktie_order_push : forall fuel deps s item, g_push_fuel fuel deps (Gst s) item = rmap Gst (push fuel deps s item).
Proof. exact KernelsTieOrder_proofs.tie_order_push. Qed.
(** `DepOrderer::order` *)
Theorem Ktie_order_order : forall fuel deps items, g_order_fuel fuel deps items = order_pending fuel deps items.
Proof. exact KernelsTieOrder_proofs.tie_order_order. Qed.
End KOG.

(** * family order_raw: layout21raw/src/data.rs DepOrder *)
Module KOR.
Import OR.
Theorem Ktie_raw_push : forall h lib f s item,
  g_push h (rec_of lib (cpush f all_defined (raw_deps h))) (Gst lib s) (N.to_nat item)
  = rmap (Gst lib) (cpush (S f) all_defined (raw_deps h) s item).
Proof. exact KernelsTieOrderRaw_proofs.tie_raw_push. Qed.
Theorem Ktie_raw_order : forall h f items,
  g_order h (rec_of (Gen.KernelsRawOrderGen.mk_gLibrary (map N.to_nat items)) (cpush f all_defined (raw_deps h)))
          (Gen.KernelsRawOrderGen.mk_gLibrary (map N.to_nat items))
  = rmap (map N.to_nat) (order_checked (S f) all_defined (raw_deps h) items).
Proof. exact KernelsTieOrderRaw_proofs.tie_raw_order. Qed.
End KOR.

(** * family order_raw: layout21raw/src/gds.rs GdsDepOrder *)
Module KOD.
Import OGds.
Import KernelsTieOrderRaw_proofs.
(** `get`: the struct of that name, an error when the name is not defined *)
Theorem Ktie_gds_get : forall t defined m s name, map_ok t defined m ->
  g_get (Gst t m s) name = if defined name then Ok (t name) else Err.
Proof. exact tie_gds_get. Qed.
Theorem Ktie_gds_push : forall t defined m f s item, names_ok t -> map_ok t defined m ->
  g_push (rec_of t m (cpush f defined (struct_deps t))) (Gst t m s) (t item)
  = rmap (Gst t m) (cpush (S f) defined (struct_deps t) s item).
Proof. exact tie_gds_push. Qed.
(** `order`: the name map is built from the listing, then every listed struct is pushed; a name is defined iff listed *)
Theorem Ktie_gds_order : forall t f items, names_ok t ->
  g_order (rec_of t (m_of t items) (cpush f (fun n => mem n items) (struct_deps t))) (map t items)
  = rmap (map t) (order_checked (S f) (fun n => mem n items) (struct_deps t) items).
Proof. exact tie_gds_order. Qed.
End KOD.

(** non-vacuity: the generated orderers RUN on a small graph (1 -> 0, 2 -> {0, 1}; listing 2, 1, 0), and on a cycle *)
Definition ex_deps (n : N) : list N := match n with 1%N => [0%N] | 2%N => [0%N; 1%N] | 3%N => [3%N] | _ => [] end.
Example Korder_nonvacuous :
  OG.g_order_fuel 4 ex_deps [2%N; 1%N; 0%N] = Ok [0%N; 1%N; 2%N] /\ OG.g_order_fuel 4 ex_deps [3%N] = Err.
Proof. vm_compute. split; reflexivity. Qed.

Print Assumptions KOG.Ktie_order_push_body.
Print Assumptions KOG.Ktie_order_push_step.
Print Assumptions KOG.Ktie_order_push.
Print Assumptions KOG.Ktie_order_order.
Print Assumptions KOR.Ktie_raw_push.
Print Assumptions KOR.Ktie_raw_order.
Print Assumptions KOD.Ktie_gds_get.
Print Assumptions KOD.Ktie_gds_push.
Print Assumptions KOD.Ktie_gds_order.
