(** C01 -- placeholder while the models are validated; theorems follow. *)
From Coq Require Import ZArith Bool List.
From L21 Require Import Base.Outcome Base.Hex Gds.GdsData Gds.GdsRecord Gds.GdsWrite Gds.GdsRead Gds.GdsSpec.
Import ListNotations.
Local Open Scope Z_scope.
