(** C01 -- GDSII write-then-read returns the library that was written.
    Property theorems only; the proof is the composition of C02 (the writer model produces the
    reference encoding; Gds/GdsWrite_proofs.v) and C03 (the reader model reads it back;
    Gds/GdsRtRead_proofs.v, Gds/GdsRoundtrip_proofs.v).

    Models: Gds/GdsWrite.v [write_lib] (gds21 `GdsLibrary::write` into a Vec<u8>), Gds/GdsRead.v
    [read_lib] (`GdsLibrary::from_bytes`, after the repair of read_str) and [read_lib_orig] (as
    found). Vocabulary ([lib_ok], [KnownClass_C01], [some_payload_too_long], [lib_canon]): see
    Properties/C02.v. Equality: [lib_rust_eqb] is Rust's derived `PartialEq` on GdsLibrary; the
    real-valued fields (units, magnification, angle) are IEEE bit patterns compared as Rust compares
    f64 values ([f64_rust_eq]: equal bits and not NaN, or both zeros), every other field by identity.
    In fact the library read back is [lib_canon l]: identical bits except that -0.0 becomes +0.0. *)
From Coq Require Import ZArith Bool List.
From L21 Require Import Base.Outcome Base.Hex Base.F64 Gds.GdsData Gds.GdsRecord Gds.GdsWrite Gds.GdsRead
  Gds.GdsSpec Gds.GdsRtDefs Gds.GdsRtStrip Gds.GdsRtExamples Gds.GdsWTables_proofs Gds.GdsWrite_proofs Gds.GdsWFits_proofs
  Gds.GdsRoundtrip_proofs Gds.GdsRtStrip_proofs.
Import ListNotations.
Local Open Scope Z_scope.

(** (1) Bytes produced for a library read back to a library equal to it, field for field. *)
Theorem C01_roundtrip :
  forall l bs, lib_ok l -> ~ KnownClass_C01 l -> write_lib l = Ok bs ->
    exists l', read_lib bs = Ok l' /\ lib_rust_eqb l l' = true.
Proof.
  intros l bs Hok Hk Hw. exists (lib_readback l). split.
  - apply GdsRt_roundtrip_core; [apply GdsRt_lib_ok_shape, Hok | exact Hk | exact Hw].
  - apply GdsRt_lib_ok_rust_eq, Hok.
Qed.
(** ... precisely: *)
Theorem C01_roundtrip_exact :
  forall l bs, lib_ok l -> ~ KnownClass_C01 l -> write_lib l = Ok bs -> read_lib bs = Ok (lib_canon l).
Proof.
  intros l bs Hok Hk Hw. rewrite <- (GdsRt_readback_canon l Hok).
  apply GdsRt_roundtrip_core; [apply GdsRt_lib_ok_shape, Hok | exact Hk | exact Hw].
Qed.
Corollary C01_roundtrip_identity :
  forall l bs, lib_ok l -> ~ KnownClass_C01 l -> (forall x, In x (lib_reals l) -> x <> two63) ->
    write_lib l = Ok bs -> read_lib bs = Ok l.
Proof.
  intros l bs Hok Hk Hz Hw. rewrite (C01_roundtrip_exact l bs Hok Hk Hw), (GdsRt_canon_no_negzero l Hz). reflexivity.
Qed.

(** (2) "Either fails with an error or ...": writing never panics; it fails only with the
    record-length error, exactly when a payload exceeds the 16-bit length field; otherwise the
    bytes read back. *)
Theorem C01_write_then_read :
  forall l, lib_ok l -> ~ KnownClass_C01 l ->
    (some_payload_too_long l = true /\ write_lib l = Err ERecordLen) \/
    (some_payload_too_long l = false /\
     exists bs l', write_lib l = Ok bs /\ read_lib bs = Ok l' /\ lib_rust_eqb l l' = true).
Proof.
  intros l Hok Hk. pose proof (GdsW_write_lib_eq l) as E. rewrite GdsW_fits_iff_payloads in E.
  destruct (some_payload_too_long l); cbn [negb] in E; [left; auto | right].
  split; [reflexivity|]. destruct (C01_roundtrip l _ Hok Hk E) as (l' & H1 & H2). eauto.
Qed.

(** (3) The excluded class fails, on the model as on the implementation: library name "a\0". *)
Theorem C01_known_class_refuted :
  exists l bs, lib_ok l /\ KnownClass_C01 l /\ write_lib l = Ok bs /\
    exists l', read_lib bs = Ok l' /\ lib_rust_eqb l l' = false.
Proof.
  exists GdsRt_known_lib. eexists. split; [vm_compute; reflexivity|]. split; [vm_compute; reflexivity|].
  split; [vm_compute; reflexivity|]. exists GdsRt_known_lib_read. split; vm_compute; reflexivity.
Qed.

(** (3') What the class does, exactly, for EVERY library (no exclusion): the library read back is
    [lib_canon (lib_strip l)], where [lib_strip] (Gds/GdsRtStrip.v) removes the last byte of every
    string of even length that ends in NUL and changes nothing else; outside the class
    [lib_strip l = l]. So the property fails on exactly that byte of exactly those strings. *)
Theorem C01_roundtrip_total :
  forall l bs, lib_ok l -> write_lib l = Ok bs -> read_lib bs = Ok (lib_canon (lib_strip l)).
Proof.
  intros l bs Hok Hw. rewrite <- (GdsRtP_readback_strip_canon l Hok).
  apply GdsRtP_roundtrip_total; [apply GdsRt_lib_ok_shape, Hok | exact Hw].
Qed.
Theorem C01_strip_outside_class : forall l, ~ KnownClass_C01 l -> lib_strip l = l.
Proof. exact GdsRtP_strip_id. Qed.

(** (4) The reader as found (before the repair `len > 0 &&` in read_str) violated the property:
    a library with an empty name is written and then panics the reader (`data[len - 1]`). *)
Theorem C01_orig_refuted :
  exists l bs, lib_ok l /\ ~ KnownClass_C01 l /\ write_lib l = Ok bs /\ read_lib_orig bs = Panic.
Proof.
  exists GdsRt_empty_name_lib. eexists. split; [vm_compute; reflexivity|]. split; [vm_compute; discriminate|].
  split; [vm_compute; reflexivity|]. vm_compute. reflexivity.
Qed.

(** Non-vacuity: see C02_nonvacuous / C03_nonvacuous for the hypotheses on the example library with
    every element kind and every optional field; here the round trip itself, by computation. *)
Example C01_nonvacuous :
  lib_okb GdsRt_full_lib = true /\ known_class_c01b GdsRt_full_lib = false /\
  (match write_lib GdsRt_full_lib with
   | Ok bs => match read_lib bs with Ok l' => lib_eqb l' GdsRt_full_lib | _ => false end
   | _ => false end) = true /\
  (match write_lib GdsRt_negzero_lib with
   | Ok bs => match read_lib bs with
              | Ok l' => lib_rust_eqb GdsRt_negzero_lib l' && negb (lib_eqb GdsRt_negzero_lib l')
              | _ => false end
   | _ => false end) = true /\
  (match write_lib GdsRt_max_xy_lib with
   | Ok bs => match read_lib bs with Ok l' => lib_eqb l' GdsRt_max_xy_lib | _ => false end
   | _ => false end) = true /\
  lib_okb GdsRt_long_lib = true /\ is_err (write_lib GdsRt_long_lib) = true.
Proof. vm_compute. repeat split; reflexivity. Qed.

(** statements pinned *)
Check C01_roundtrip :
  forall l bs, lib_ok l -> ~ KnownClass_C01 l -> write_lib l = Ok bs ->
    exists l', read_lib bs = Ok l' /\ lib_rust_eqb l l' = true.
Check C01_roundtrip_exact :
  forall l bs, lib_ok l -> ~ KnownClass_C01 l -> write_lib l = Ok bs -> read_lib bs = Ok (lib_canon l).
Check C01_roundtrip_identity :
  forall l bs, lib_ok l -> ~ KnownClass_C01 l -> (forall x, In x (lib_reals l) -> x <> two63) ->
    write_lib l = Ok bs -> read_lib bs = Ok l.
Check C01_write_then_read :
  forall l, lib_ok l -> ~ KnownClass_C01 l ->
    (some_payload_too_long l = true /\ write_lib l = Err ERecordLen) \/
    (some_payload_too_long l = false /\
     exists bs l', write_lib l = Ok bs /\ read_lib bs = Ok l' /\ lib_rust_eqb l l' = true).
Check C01_known_class_refuted :
  exists l bs, lib_ok l /\ KnownClass_C01 l /\ write_lib l = Ok bs /\
    exists l', read_lib bs = Ok l' /\ lib_rust_eqb l l' = false.
Check C01_roundtrip_total :
  forall l bs, lib_ok l -> write_lib l = Ok bs -> read_lib bs = Ok (lib_canon (lib_strip l)).
Check C01_orig_refuted :
  exists l bs, lib_ok l /\ ~ KnownClass_C01 l /\ write_lib l = Ok bs /\ read_lib_orig bs = Panic.

Print Assumptions C01_roundtrip.
Print Assumptions C01_roundtrip_exact.
Print Assumptions C01_roundtrip_identity.
Print Assumptions C01_write_then_read.
Print Assumptions C01_known_class_refuted.
Print Assumptions C01_roundtrip_total.
Print Assumptions C01_strip_outside_class.
Print Assumptions C01_orig_refuted.
