(** Kernels, raw-export family: the generated readings of `Rect::center` and `BoundBox::center`
    (layout21raw/src/geom.rs, bbox.rs, Gen/KernelsGen.v) against the label-placement arithmetic of
    Raw/RawGdsExport.v. See Properties/Kernels.v for the scheme. Proofs in Raw/KernelsTieRaw_proofs.v. *)
From Coq Require Import ZArith Bool List.
From L21 Require Import Base.KernelOps Base.Outcome Gen.KernelsGen Raw.RawData Raw.RawGdsExport Geom.KernelsInst.
From L21 Require Geom.Contains.
From L21 Require Import Raw.KernelsTieRaw_proofs.
Local Open Scope Z_scope.

Theorem Ktie_rect_center : forall p0 p1 : point,
  raw_of (g_Rect_center zc_kops (mk_gRect (Gp p0) (Gp p1))) = rect_center p0 p1.
Proof. exact tie_rect_center. Qed.

Theorem Ktie_bbox_center : forall bb : Contains.point * Contains.point,
  raw_of (g_BoundBox_center zc_kops (B_of bb)) =
  (let '(b0, b1) := bb in
   obind (half_sum (fst b0) (fst b1)) (fun x => obind (half_sum (snd b0) (snd b1)) (fun y => Ok (mkpt x y)))).
Proof. exact tie_bbox_center. Qed.

(** `self.points.bbox().center()` *)
Theorem Ktie_points_bbox_center : forall ps : list point,
  raw_of (cbnd _ _ (g_Vec_Point_bbox zc_kops (map (fun p => P_of (pt2 p)) ps))
               (fun b => g_BoundBox_center zc_kops b))
  = bbox_center ps.
Proof. exact tie_points_bbox_center. Qed.

Print Assumptions Ktie_rect_center.
Print Assumptions Ktie_bbox_center.
Print Assumptions Ktie_points_bbox_center.
