(** C20 -- Conversions are deterministic.
    A Gallina function is deterministic by construction, so the content of these theorems sits where
    nondeterminism can enter the implementation: iteration over a HashMap.  The map's iteration order is
    an arbitrary permutation of its entries (keys distinct); the theorem says the order does not matter
    once the entries are sorted by key (what the repaired exporters do), and that without the sort it does. *)
From Coq Require Import ZArith List Permutation String.
From L21 Require Import Order.SortedIter Order.HashIterAllowed Gen.HashIterGen.
Import ListNotations.
Local Open Scope Z_scope.

Theorem C20_sorted_iteration_order_irrelevant :
  forall (A : Type) (l1 l2 : list (Z * A)),
    NoDup (map fst l1) -> Permutation l1 l2 -> isort l1 = isort l2.
Proof. intros A. exact sorted_iteration_order_irrelevant. Qed.

Theorem C20_sorted_iteration_is_a_permutation :
  forall (A : Type) (l : list (Z * A)), Permutation (isort l) l.
Proof. intros A. exact isort_perm. Qed.

Theorem C20_unsorted_iteration_refuted :
  exists l1 l2 : list (Z * Z), NoDup (map fst l1) /\ Permutation l1 l2 /\ iterate_unsorted l1 <> iterate_unsorted l2.
Proof. exact unsorted_iteration_refuted. Qed.

(** The tie of that theorem to the code: EVERY place where the conversion crates iterate over a name of hash
    type (list regenerated from the Rust sources on every run by tools/translate_hash_iter.py) either goes
    through a sort by key -- the situation of the theorem above -- or is on the reviewed list
    Order/HashIterAllowed.v of iterations that are not over a hash container at all.  A conversion that starts
    to iterate a hash map directly (or drops the sort) makes this obligation fail. *)
Theorem C20_hash_iteration_sites : sites_ok hash_iter_sites = true.
Proof. vm_compute. reflexivity. Qed.

Example C20_sites_nonvacuous :
  (7 <= List.length (filter (fun s => snd s) hash_iter_sites))%nat /\
  existsb (fun s => site_eqb (fst s) ("layout21raw/src/lef.rs"%string, "export_abstract"%string, "sorted_by_layer(abs.blockages)"%string)) hash_iter_sites = true.
Proof. vm_compute. split; [repeat constructor | reflexivity]. Qed.

Example C20_nonvacuous :
  isort [(6, 1); (5, 0); (7, 2)] = [(5, 0); (6, 1); (7, 2)] /\ isort [(7, 2); (6, 1); (5, 0)] = [(5, 0); (6, 1); (7, 2)].
Proof. vm_compute. split; reflexivity. Qed.

Print Assumptions C20_sorted_iteration_order_irrelevant.
Print Assumptions C20_sorted_iteration_is_a_permutation.
Print Assumptions C20_unsorted_iteration_refuted.
Print Assumptions C20_hash_iteration_sites.

(** * At the level of the conversion models

    Definitions (Order/Determinism_proofs.v).  A `HashMap<LayerKey, Vec<Shape>>` is an association list
    [shapemap] with pairwise distinct keys (Raw/RawData.v); the order of the list stands for the order in which
    the hash map yields its entries in one particular process.
    [map_permuted m1 m2]      := NoDup (map fst m1) /\ Permutation m1 m2;
    [lib_maps_permuted L1 L2] := same name, units, layer table; cells pairwise with the same name and the same
                                 layout; abstracts pairwise with the same name, outline and ports (same nets, in
                                 the same order) where each port's [ap_shapes] and the abstract's [ab_blockages]
                                 are [map_permuted]: ONE library as two processes may hold it;
    [lib_maps_wf L]           := lib_maps_permuted L L (every map has distinct keys);
    [perm_oracle h]           := forall m, Permutation (h m) m: an iteration order of a hash map. *)
From L21 Require Import Base.Outcome Raw.RawData Order.Determinism_proofs.
From L21 Require Raw.RawProto Raw.RawGdsExport Raw.RawGds Raw.RawLef Raw.RawLefTypes Tetris.Stack Tetris.Compile Tetris.TProto Gds.GdsData Order.DepOrder.

(** `sorted_by_layer` (data.rs) as modelled is the sorted iteration of the first theorem of this file *)
Theorem C20_sorted_by_layer_order_irrelevant :
  forall m1 m2 : shapemap, NoDup (map fst m1) -> Permutation m1 m2 ->
    RawProto.sorted_by_layer m1 = RawProto.sorted_by_layer m2.
Proof. exact sorted_by_layer_order_irrelevant. Qed.

(** ** raw -> protobuf (Library::to_proto; model Raw/RawProto.v, property C14).
    The exporter of the tree visits both maps through `sorted_by_layer`: its result does not depend on the
    order in which the maps list their entries.  [xrot] is the rotation variant (C14): the statement covers
    [to_proto] and [to_proto_orig]. *)
Theorem C20_proto_export_order_independent :
  forall xrot L1 L2, lib_maps_permuted L1 L2 ->
    RawProto.to_proto_with xrot RawProto.sorted_by_layer L1 = RawProto.to_proto_with xrot RawProto.sorted_by_layer L2.
Proof. exact proto_export_order_independent. Qed.

Theorem C20_proto_export_order_independent_code :
  forall L1 L2, lib_maps_permuted L1 L2 -> RawProto.to_proto L1 = RawProto.to_proto L2.
Proof. intros L1 L2. exact (proto_export_order_independent RawProto.export_rotation (L1 := L1) (L2 := L2)). Qed.

(** the same in the form of DESIGN.md section 5: the hash map yields its entries in an arbitrary order [h],
    the code sorts what it gets; any two orders give the same message *)
Theorem C20_proto_export_any_hash_order :
  forall xrot h1 h2 L, perm_oracle h1 -> perm_oracle h2 -> lib_maps_wf L ->
    RawProto.to_proto_with xrot (fun m => RawProto.sorted_by_layer (h1 m)) L =
    RawProto.to_proto_with xrot (fun m => RawProto.sorted_by_layer (h2 m)) L.
Proof. exact proto_export_any_hash_order. Qed.

(** the exporter that iterates in map order -- the code before /repo commit 4604246 -- is not deterministic:
    one port on two layers, both runs succeed, the messages differ *)
Theorem C20_proto_export_map_order_refuted :
  exists L1 L2 P1 P2, lib_maps_permuted L1 L2 /\
    RawProto.to_proto_with RawProto.export_rotation (fun m => m) L1 = Ok P1 /\
    RawProto.to_proto_with RawProto.export_rotation (fun m => m) L2 = Ok P2 /\ P1 <> P2.
Proof. exact proto_export_map_order_refuted. Qed.

(** ** raw -> GDSII (Library::to_gds; model Raw/RawGdsExport.v, property C07).
    The model has no order argument (it transcribes the tree: `sorted_by_layer` inside export_abstract_port;
    blockages are not exported).  [cfg] is the C07 variant record: the statement covers [export_lib] and
    [export_lib_orig]. *)
Theorem C20_gds_export_order_independent :
  forall cfg L1 L2, lib_maps_permuted L1 L2 -> RawGdsExport.export_lib_gen cfg L1 = RawGdsExport.export_lib_gen cfg L2.
Proof. exact gds_export_order_independent. Qed.

(** [gds_export_lib_with ord] (Order/Determinism_proofs.v) is the text of the model with the visiting order of
    a port's shapes as an argument; at [sorted_by_layer] it is the model *)
Theorem C20_gds_export_with_sorted_is_model :
  forall cfg L, gds_export_lib_with RawGdsExport.sorted_by_layer cfg L = RawGdsExport.export_lib_gen cfg L.
Proof. exact gds_export_lib_with_sorted. Qed.

Theorem C20_gds_export_any_hash_order :
  forall cfg h1 h2 L, perm_oracle h1 -> perm_oracle h2 -> lib_maps_wf L ->
    gds_export_lib_with (fun m => RawGdsExport.sorted_by_layer (h1 m)) cfg L =
    gds_export_lib_with (fun m => RawGdsExport.sorted_by_layer (h2 m)) cfg L.
Proof. exact gds_export_any_hash_order. Qed.

Theorem C20_gds_export_map_order_refuted :
  exists L1 L2 G1 G2, lib_maps_permuted L1 L2 /\
    gds_export_lib_with (fun m => m) RawGdsExport.xcfg_fixed L1 = Ok G1 /\
    gds_export_lib_with (fun m => m) RawGdsExport.xcfg_fixed L2 = Ok G2 /\ G1 <> G2.
Proof. exact gds_export_map_order_refuted. Qed.

(** Dates.  `GdsLibrary::new` / `GdsStruct::new` stamp the time of the call; the model has no clock argument:
    every date field of an exported library is the constant [zero_dates].  The harnesses overwrite the dates
    of the implementation's output with a constant before comparing (c07: zeros, c20: a fixed date). *)
Theorem C20_gds_export_dates_constant :
  forall cfg L g, RawGdsExport.export_lib_gen cfg L = Ok g ->
    GdsData.l_dates g = RawGdsExport.zero_dates /\
    Forall (fun s => GdsData.s_dates s = RawGdsExport.zero_dates) (GdsData.l_structs g).
Proof. exact gds_export_dates_constant. Qed.

(** ** The importers.  Their models take no order argument: *)
Check (RawProto.from_proto : layers -> RawProto.plib -> RawProto.res library).
Check (RawGds.import_lib : RawGds.cfg -> layers -> GdsData.library -> RawGds.ires library).
Check (RawLef.import_gen : RawLef.variant -> RawLefTypes.llib -> option RawLefTypes.layers ->
                           RawLef.res (list RawLefTypes.abstract * RawLefTypes.layers)).
Check (Compile.compile : Compile.fixes -> Stack.stack -> list Compile.cell -> Stack.res (list (list Compile.shape))).
Check (TProto.export : TProto.TLib -> DepOrder.res TProto.PLib).
Check (TProto.import : TProto.PLib -> DepOrder.res TProto.TLib).
(** so each is a function of its input alone; that this is a faithful picture -- the code iterates no hash
    container in those conversions -- is [C20_conversion_sites_covered] below.  What the protobuf importer
    BUILDS are hash maps; the library it returns has maps with distinct keys, so re-exporting it is inside the
    exporter theorem whatever order those freshly built maps are iterated in: *)
Theorem C20_import_deterministic_proto_maps_wf :
  forall ly0 Pm L, RawProto.from_proto ly0 Pm = Ok L -> lib_maps_wf L.
Proof. exact proto_import_maps_wf. Qed.

Theorem C20_proto_reexport_any_hash_order :
  forall xrot h ly0 Pm L, perm_oracle h -> RawProto.from_proto ly0 Pm = Ok L ->
    RawProto.to_proto_with xrot (fun m => RawProto.sorted_by_layer (h m)) L =
    RawProto.to_proto_with xrot RawProto.sorted_by_layer L.
Proof. exact proto_reexport_any_hash_order. Qed.

(** maps that are only looked up: the answer does not depend on the order of the entries *)
Theorem C20_lookup_order_irrelevant :
  forall m1 m2 k, map_permuted m1 m2 -> sm_get m1 k = sm_get m2 k.
Proof. exact lookup_order_irrelevant. Qed.

(** ** Conversion by conversion.  [conversions] (Order/Determinism_proofs.v) lists, for every conversion, the
    hash-typed names its code touches with the operations used, its model, and the (file, function) pairs whose
    iteration sites belong to it.  [table_ok] checks the table against the sites regenerated from the sources:
    every site belongs to exactly one row; a row of kind [NoHashIteration] (all importers, the gridded
    conversions) has only sites on the reviewed list of Vec / slice iterations and none through a sort; a row of
    kind [SortedIteration] (the three raw exporters, Layers::from_proto, the helper) has a sorted site and
    nothing that is neither sorted nor reviewed. *)
Theorem C20_conversion_sites_covered : table_ok hash_iter_sites = true.
Proof. vm_compute. reflexivity. Qed.

Example C20_table_refuses_new_iteration :
  table_ok (("layout21raw/src/proto.rs", "import_abstract", "abs.blockages.iter()", false)%string :: hash_iter_sites) = false /\
  table_ok (("layout21raw/src/proto.rs", "import_abstract", "sorted_by_layer(abs.blockages)", true)%string :: hash_iter_sites) = false /\
  table_ok (("layout21raw/src/lef.rs", "export_abstract", "abs.blockages.iter()", false)%string :: hash_iter_sites) = false /\
  table_ok (("layout21raw/src/gds.rs", "import_layout", "layers.values()", false)%string :: hash_iter_sites) = false.
Proof. vm_compute. repeat split; reflexivity. Qed.

(** The flag "goes through a sort" of a site is a textual criterion; the theorem behind it needs the sort key to
    be the map's own key.  It is for `sorted_by_layer`; it is not for `Layers::from_proto`, which sorts the layers
    of a technology by the layer number TRUNCATED to `i16` while the map is keyed by the 64-bit index: *)
Theorem C20_sort_by_truncated_key_refuted :
  exists l1 l2 : list (Z * Z), NoDup (map fst l1) /\ Permutation l1 l2 /\
    isort (map (fun e => (wrap16 (fst e), snd e)) l1) <> isort (map (fun e => (wrap16 (fst e), snd e)) l2).
Proof. exact sort_by_truncated_key_refuted. Qed.

(** the hypotheses are satisfiable on a non-trivial input: the two-layer library of the refutations, held in two
    orders; the libraries differ, the exported messages and streams do not *)
Example C20_models_nonvacuous :
  lib_maps_permuted (w_lib w_m12) (w_lib w_m21) /\ w_lib w_m12 <> w_lib w_m21 /\
  (exists Pm, RawProto.to_proto (w_lib w_m12) = Ok Pm /\ RawProto.to_proto (w_lib w_m21) = Ok Pm /\
              option_map (fun a => List.length (RawProto.pab_blockages a))
                         (match RawProto.pb_cells Pm with c :: _ => RawProto.pc_abs c | [] => None end) = Some 2%nat) /\
  (exists g, RawGdsExport.export_lib (w_lib w_m12) = Ok g /\ RawGdsExport.export_lib (w_lib w_m21) = Ok g).
Proof.
  split; [exact w_permuted|]. split; [discriminate|]. split.
  - eexists. split; [vm_compute; reflexivity|]. split; vm_compute; reflexivity.
  - eexists. split; vm_compute; reflexivity.
Qed.

Print Assumptions C20_sorted_by_layer_order_irrelevant.
Print Assumptions C20_proto_export_order_independent.
Print Assumptions C20_proto_export_order_independent_code.
Print Assumptions C20_proto_export_any_hash_order.
Print Assumptions C20_proto_export_map_order_refuted.
Print Assumptions C20_gds_export_order_independent.
Print Assumptions C20_gds_export_with_sorted_is_model.
Print Assumptions C20_gds_export_any_hash_order.
Print Assumptions C20_gds_export_map_order_refuted.
Print Assumptions C20_gds_export_dates_constant.
Print Assumptions C20_import_deterministic_proto_maps_wf.
Print Assumptions C20_proto_reexport_any_hash_order.
Print Assumptions C20_lookup_order_irrelevant.
Print Assumptions C20_conversion_sites_covered.
Print Assumptions C20_sort_by_truncated_key_refuted.
