(** C20 -- Conversions are deterministic.
    A Gallina function is deterministic by construction, so the content of these theorems sits where
    nondeterminism can enter the implementation: iteration over a HashMap.  The map's iteration order is
    an arbitrary permutation of its entries (keys distinct); the theorem says the order does not matter
    once the entries are sorted by key (what the repaired exporters do), and that without the sort it does. *)
From Coq Require Import ZArith List Permutation String.
From L21 Require Import Order.SortedIter Order.HashIterAllowed Gen.HashIterGen.
Import ListNotations.
Local Open Scope Z_scope.

Theorem C20_sorted_iteration_order_irrelevant :
  forall (A : Type) (l1 l2 : list (Z * A)),
    NoDup (map fst l1) -> Permutation l1 l2 -> isort l1 = isort l2.
Proof. intros A. exact sorted_iteration_order_irrelevant. Qed.

Theorem C20_sorted_iteration_is_a_permutation :
  forall (A : Type) (l : list (Z * A)), Permutation (isort l) l.
Proof. intros A. exact isort_perm. Qed.

Theorem C20_unsorted_iteration_refuted :
  exists l1 l2 : list (Z * Z), NoDup (map fst l1) /\ Permutation l1 l2 /\ iterate_unsorted l1 <> iterate_unsorted l2.
Proof. exact unsorted_iteration_refuted. Qed.

(** The tie of that theorem to the code: EVERY place where the conversion crates iterate over a name of hash
    type (list regenerated from the Rust sources on every run by tools/translate_hash_iter.py) either goes
    through a sort by key -- the situation of the theorem above -- or is on the reviewed list
    Order/HashIterAllowed.v of iterations that are not over a hash container at all.  A conversion that starts
    to iterate a hash map directly (or drops the sort) makes this obligation fail. *)
Theorem C20_hash_iteration_sites : sites_ok hash_iter_sites = true.
Proof. vm_compute. reflexivity. Qed.

Example C20_sites_nonvacuous :
  (7 <= List.length (filter (fun s => snd s) hash_iter_sites))%nat /\
  existsb (fun s => site_eqb (fst s) ("layout21raw/src/lef.rs"%string, "export_abstract"%string, "sorted_by_layer(abs.blockages)"%string)) hash_iter_sites = true.
Proof. vm_compute. split; [repeat constructor | reflexivity]. Qed.

Example C20_nonvacuous :
  isort [(6, 1); (5, 0); (7, 2)] = [(5, 0); (6, 1); (7, 2)] /\ isort [(7, 2); (6, 1); (5, 0)] = [(5, 0); (6, 1); (7, 2)].
Proof. vm_compute. split; reflexivity. Qed.

Print Assumptions C20_sorted_iteration_order_irrelevant.
Print Assumptions C20_sorted_iteration_is_a_permutation.
Print Assumptions C20_unsorted_iteration_refuted.
Print Assumptions C20_hash_iteration_sites.

(** * At the level of the conversion models

    Definitions (Order/Determinism_proofs.v).  A `HashMap<LayerKey, Vec<Shape>>` is an association list
    [shapemap] with pairwise distinct keys (Raw/RawData.v); the order of the list stands for the order in which
    the hash map yields its entries in one particular process.
    [map_permuted m1 m2]      := NoDup (map fst m1) /\ Permutation m1 m2;
    [lib_maps_permuted L1 L2] := same name, units, layer table; cells pairwise with the same name and the same
                                 layout; abstracts pairwise with the same name, outline and ports (same nets, in
                                 the same order) where each port's [ap_shapes] and the abstract's [ab_blockages]
                                 are [map_permuted]: ONE library as two processes may hold it;
    [lib_maps_wf L]           := lib_maps_permuted L L (every map has distinct keys);
    [perm_oracle h]           := forall m, Permutation (h m) m: an iteration order of a hash map. *)
From L21 Require Import Base.Outcome Raw.RawData Order.Determinism_proofs.
From L21 Require Raw.RawProto Raw.RawGdsExport Raw.RawGds Raw.RawLef Raw.RawLefTypes Tetris.Stack Tetris.Compile Tetris.TProto Gds.GdsData Order.DepOrder.

(** `sorted_by_layer` (data.rs) as modelled is the sorted iteration of the first theorem of this file *)
Theorem C20_sorted_by_layer_order_irrelevant :
  forall m1 m2 : shapemap, NoDup (map fst m1) -> Permutation m1 m2 ->
    RawProto.sorted_by_layer m1 = RawProto.sorted_by_layer m2.
Proof. exact sorted_by_layer_order_irrelevant. Qed.

(** ** raw -> protobuf (Library::to_proto; model Raw/RawProto.v, property C14).
    The exporter of the tree visits both maps through `sorted_by_layer`: its result does not depend on the
    order in which the maps list their entries.  [xrot] is the rotation variant (C14): the statement covers
    [to_proto] and [to_proto_orig]. *)
Theorem C20_proto_export_order_independent :
  forall xrot L1 L2, lib_maps_permuted L1 L2 ->
    RawProto.to_proto_with xrot RawProto.sorted_by_layer L1 = RawProto.to_proto_with xrot RawProto.sorted_by_layer L2.
Proof. exact proto_export_order_independent. Qed.

Theorem C20_proto_export_order_independent_code :
  forall L1 L2, lib_maps_permuted L1 L2 -> RawProto.to_proto L1 = RawProto.to_proto L2.
Proof. intros L1 L2. exact (proto_export_order_independent RawProto.export_rotation (L1 := L1) (L2 := L2)). Qed.

(** the same in the form of DESIGN.md section 5: the hash map yields its entries in an arbitrary order [h],
    the code sorts what it gets; any two orders give the same message *)
Theorem C20_proto_export_any_hash_order :
  forall xrot h1 h2 L, perm_oracle h1 -> perm_oracle h2 -> lib_maps_wf L ->
    RawProto.to_proto_with xrot (fun m => RawProto.sorted_by_layer (h1 m)) L =
    RawProto.to_proto_with xrot (fun m => RawProto.sorted_by_layer (h2 m)) L.
Proof. exact proto_export_any_hash_order. Qed.

(** the exporter that iterates in map order -- the code before /repo commit 4604246 -- is not deterministic:
    one port on two layers, both runs succeed, the messages differ *)
Theorem C20_proto_export_map_order_refuted :
  exists L1 L2 P1 P2, lib_maps_permuted L1 L2 /\
    RawProto.to_proto_with RawProto.export_rotation (fun m => m) L1 = Ok P1 /\
    RawProto.to_proto_with RawProto.export_rotation (fun m => m) L2 = Ok P2 /\ P1 <> P2.
Proof. exact proto_export_map_order_refuted. Qed.

(** ** raw -> GDSII (Library::to_gds; model Raw/RawGdsExport.v, property C07).
    The model has no order argument (it transcribes the tree: `sorted_by_layer` inside export_abstract_port;
    blockages are not exported).  [cfg] is the C07 variant record: the statement covers [export_lib] and
    [export_lib_orig]. *)
Theorem C20_gds_export_order_independent :
  forall cfg L1 L2, lib_maps_permuted L1 L2 -> RawGdsExport.export_lib_gen cfg L1 = RawGdsExport.export_lib_gen cfg L2.
Proof. exact gds_export_order_independent. Qed.

(** [gds_export_lib_with ord] (Order/Determinism_proofs.v) is the text of the model with the visiting order of
    a port's shapes as an argument; at [sorted_by_layer] it is the model *)
Theorem C20_gds_export_with_sorted_is_model :
  forall cfg L, gds_export_lib_with RawGdsExport.sorted_by_layer cfg L = RawGdsExport.export_lib_gen cfg L.
Proof. exact gds_export_lib_with_sorted. Qed.

Theorem C20_gds_export_any_hash_order :
  forall cfg h1 h2 L, perm_oracle h1 -> perm_oracle h2 -> lib_maps_wf L ->
    gds_export_lib_with (fun m => RawGdsExport.sorted_by_layer (h1 m)) cfg L =
    gds_export_lib_with (fun m => RawGdsExport.sorted_by_layer (h2 m)) cfg L.
Proof. exact gds_export_any_hash_order. Qed.

Theorem C20_gds_export_map_order_refuted :
  exists L1 L2 G1 G2, lib_maps_permuted L1 L2 /\
    gds_export_lib_with (fun m => m) RawGdsExport.xcfg_fixed L1 = Ok G1 /\
    gds_export_lib_with (fun m => m) RawGdsExport.xcfg_fixed L2 = Ok G2 /\ G1 <> G2.
Proof. exact gds_export_map_order_refuted. Qed.

(** Dates.  `GdsLibrary::new` / `GdsStruct::new` stamp the time of the call; the model has no clock argument:
    every date field of an exported library is the constant [zero_dates].  The harnesses overwrite the dates
    of the implementation's output with a constant before comparing (c07: zeros, c20: a fixed date). *)
Theorem C20_gds_export_dates_constant :
  forall cfg L g, RawGdsExport.export_lib_gen cfg L = Ok g ->
    GdsData.l_dates g = RawGdsExport.zero_dates /\
    Forall (fun s => GdsData.s_dates s = RawGdsExport.zero_dates) (GdsData.l_structs g).
Proof. exact gds_export_dates_constant. Qed.

(** ** The importers.  Their models take no order argument: *)
Check (RawProto.from_proto : layers -> RawProto.plib -> RawProto.res library).
Check (RawGds.import_lib : RawGds.cfg -> layers -> GdsData.library -> RawGds.ires library).
Check (RawLef.import_gen : RawLef.variant -> RawLefTypes.llib -> option RawLefTypes.layers ->
                           RawLef.res (list RawLefTypes.abstract * RawLefTypes.layers)).
Check (Compile.compile : Compile.fixes -> Stack.stack -> list Compile.cell -> Stack.res (list (list Compile.shape))).
Check (TProto.export : TProto.TLib -> DepOrder.res TProto.PLib).
Check (TProto.import : TProto.PLib -> DepOrder.res TProto.TLib).
(** so each is a function of its input alone; that this is a faithful picture -- the code iterates no hash
    container in those conversions -- is [C20_conversion_sites_covered] below.  What the protobuf importer
    BUILDS are hash maps; the library it returns has maps with distinct keys, so re-exporting it is inside the
    exporter theorem whatever order those freshly built maps are iterated in: *)
Theorem C20_import_deterministic_proto_maps_wf :
  forall ly0 Pm L, RawProto.from_proto ly0 Pm = Ok L -> lib_maps_wf L.
Proof. exact proto_import_maps_wf. Qed.

Theorem C20_proto_reexport_any_hash_order :
  forall xrot h ly0 Pm L, perm_oracle h -> RawProto.from_proto ly0 Pm = Ok L ->
    RawProto.to_proto_with xrot (fun m => RawProto.sorted_by_layer (h m)) L =
    RawProto.to_proto_with xrot RawProto.sorted_by_layer L.
Proof. exact proto_reexport_any_hash_order. Qed.

(** maps that are only looked up: the answer does not depend on the order of the entries *)
Theorem C20_lookup_order_irrelevant :
  forall m1 m2 k, map_permuted m1 m2 -> sm_get m1 k = sm_get m2 k.
Proof. exact lookup_order_irrelevant. Qed.

(** ** Conversion by conversion.  [conversions] (Order/Determinism_proofs.v) lists, for every conversion, the
    hash-typed names its code touches with the operations used, its model, and the (file, function) pairs whose
    iteration sites belong to it.  [table_ok] checks the table against the sites regenerated from the sources:
    every site belongs to exactly one row; a row of kind [NoHashIteration] (all importers, the gridded
    conversions) has only sites on the reviewed list of Vec / slice iterations and none through a sort; a row of
    kind [SortedIteration] (the three raw exporters, Layers::from_proto, the helper) has a sorted site and
    nothing that is neither sorted nor reviewed. *)
Theorem C20_conversion_sites_covered : table_ok hash_iter_sites = true.
Proof. vm_compute. reflexivity. Qed.

Example C20_table_refuses_new_iteration :
  table_ok (("layout21raw/src/proto.rs", "import_abstract", "abs.blockages.iter()", false)%string :: hash_iter_sites) = false /\
  table_ok (("layout21raw/src/proto.rs", "import_abstract", "sorted_by_layer(abs.blockages)", true)%string :: hash_iter_sites) = false /\
  table_ok (("layout21raw/src/lef.rs", "export_abstract", "abs.blockages.iter()", false)%string :: hash_iter_sites) = false /\
  table_ok (("layout21raw/src/gds.rs", "import_layout", "layers.values()", false)%string :: hash_iter_sites) = false.
Proof. vm_compute. repeat split; reflexivity. Qed.

(** The flag "goes through a sort" of a site is a textual criterion; the theorem behind it needs the sort key to
    be the map's own key.  It is for `sorted_by_layer`; it was not for `Layers::from_proto` after its first repair
    (/repo commit ff55d4d), which sorted the layers of a technology by the layer number TRUNCATED to `i16` while the
    map is keyed by the 64-bit index (the function has its own model and theorems at the end of this file): *)
Theorem C20_sort_by_truncated_key_refuted :
  exists l1 l2 : list (Z * Z), NoDup (map fst l1) /\ Permutation l1 l2 /\
    isort (map (fun e => (wrap16 (fst e), snd e)) l1) <> isort (map (fun e => (wrap16 (fst e), snd e)) l2).
Proof. exact sort_by_truncated_key_refuted. Qed.

(** the hypotheses are satisfiable on a non-trivial input: the two-layer library of the refutations, held in two
    orders; the libraries differ, the exported messages and streams do not *)
Example C20_models_nonvacuous :
  lib_maps_permuted (w_lib w_m12) (w_lib w_m21) /\ w_lib w_m12 <> w_lib w_m21 /\
  (exists Pm, RawProto.to_proto (w_lib w_m12) = Ok Pm /\ RawProto.to_proto (w_lib w_m21) = Ok Pm /\
              option_map (fun a => List.length (RawProto.pab_blockages a))
                         (match RawProto.pb_cells Pm with c :: _ => RawProto.pc_abs c | [] => None end) = Some 2%nat) /\
  (exists g, RawGdsExport.export_lib (w_lib w_m12) = Ok g /\ RawGdsExport.export_lib (w_lib w_m21) = Ok g).
Proof.
  split; [exact w_permuted|]. split; [discriminate|]. split.
  - eexists. split; [vm_compute; reflexivity|]. split; vm_compute; reflexivity.
  - eexists. split; vm_compute; reflexivity.
Qed.

Print Assumptions C20_sorted_by_layer_order_irrelevant.
Print Assumptions C20_proto_export_order_independent.
Print Assumptions C20_proto_export_order_independent_code.
Print Assumptions C20_proto_export_any_hash_order.
Print Assumptions C20_proto_export_map_order_refuted.
Print Assumptions C20_gds_export_order_independent.
Print Assumptions C20_gds_export_with_sorted_is_model.
Print Assumptions C20_gds_export_any_hash_order.
Print Assumptions C20_gds_export_map_order_refuted.
Print Assumptions C20_gds_export_dates_constant.
Print Assumptions C20_import_deterministic_proto_maps_wf.
Print Assumptions C20_proto_reexport_any_hash_order.
Print Assumptions C20_lookup_order_irrelevant.
Print Assumptions C20_conversion_sites_covered.
Print Assumptions C20_sort_by_truncated_key_refuted.

(** * The raw -> LEF exporter (LefExporter::export; model Raw/RawLefExport.v, proofs Raw/RawLefExport_proofs.v)

    [LX.export_with v ord L] transcribes lef.rs with the visiting order of the two hash maps (`Abstract.blockages`,
    `AbstractPort.shapes`) as the argument [ord], exactly as [RawProto.to_proto_with]; the code of the tree is
    [LX.export_gen v] = [LX.export_with v RawProto.sorted_by_layer] (by definition).  [v] is the variant of
    `export_point`: [LX.original] = the code as found (`LefDecimal::from(point.x)`: raw units written as they are),
    [LX.repaired] = the proposed change that writes microns; every statement below covers both. *)
From L21 Require Raw.RawLefDec Raw.RawLefSpec Raw.RawLef_proofs Raw.RawLefExport Raw.RawLefExport_proofs.
Module LX := Raw.RawLefExport.
Module LXP := Raw.RawLefExport_proofs.
Module LT := Raw.RawLefTypes.

(** libraries equal up to the listing order of each abstract's blockages map and each port's shapes map export
    to the same LefLibrary (or the same error, or both panic) *)
Theorem C20_lef_export_order_independent :
  forall v L1 L2, lib_maps_permuted L1 L2 -> LX.export_gen v L1 = LX.export_gen v L2.
Proof. exact LXP.lef_export_order_independent. Qed.

(** the hash map yields its entries in an arbitrary order [h], the code sorts what it gets *)
Theorem C20_lef_export_any_hash_order :
  forall v h1 h2 L, perm_oracle h1 -> perm_oracle h2 -> lib_maps_wf L ->
    LX.export_with v (fun m => RawProto.sorted_by_layer (h1 m)) L =
    LX.export_with v (fun m => RawProto.sorted_by_layer (h2 m)) L.
Proof. exact LXP.lef_export_any_hash_order. Qed.

(** the exporter iterating in map order -- the code before /repo commit 4604246 -- is not deterministic:
    one port and the obstructions on two named layers, both runs succeed, the libraries differ *)
Theorem C20_lef_export_map_order_refuted :
  forall v, exists L1 L2 X1 X2, lib_maps_permuted L1 L2 /\
    LX.export_with v (fun m => m) L1 = Ok X1 /\ LX.export_with v (fun m => m) L2 = Ok X2 /\ X1 <> X2.
Proof. exact LXP.lef_export_map_order_refuted. Qed.

(** the exporter reads the units, the layer table and the abstracts in the order of the cell list; cell names,
    cells without abstract and layouts (elements, instances) are never looked at *)
Theorem C20_lef_export_reads_abstracts_only :
  forall v ord L1 L2, lib_units L1 = lib_units L2 -> lib_layers L1 = lib_layers L2 ->
    LXP.abstracts_of (lib_cells L1) = LXP.abstracts_of (lib_cells L2) -> LX.export_with v ord L1 = LX.export_with v ord L2.
Proof. exact LXP.lef_export_reads_abstracts_only. Qed.

(** ** LEF -> raw -> LEF (model of the importer: Raw/RawLef.v, property C16).
    The importer builds the hash maps; what it returns has maps with distinct keys, so the re-export is the same
    whatever order those maps are iterated in: *)
Theorem C20_lef_reexport_any_hash_order :
  forall v h lib L0 r, Forall LT.lmacro_wf (LT.lib_macros lib) -> RawLef_proofs.layers0_wf L0 -> perm_oracle h ->
    RawLef.import lib L0 = Ok r ->
    LX.export_with v (fun m => RawProto.sorted_by_layer (h m)) (LX.raw_lib_of_import r) = LX.export_gen v (LX.raw_lib_of_import r).
Proof. exact LXP.lef_reexport_any_hash_order. Qed.

(** What comes back.  [LXP.macro_back v L' m m'] (Raw/RawLefExport_proofs.v, section 3): the macro [m'] has the
    name of [m], NO SIZE, one pin per pin of [m], in order, with the same name and exactly ONE port; the LAYER
    statements of that port ([LXP.lgs_back], likewise for the obstructions) are: one statement per layer NAME used
    anywhere in the pin's ports, the same set of names, in ascending order of the layer keys of the importer's
    final table [L'] (the order in which the names were first registered, not the order of the LEF text), without
    WIDTH / SPACING / EXCEPTPGNET / vias; under each name the rectangles and polygons written under that name in
    any port of the pin, in order, one for one ([LXP.geom_back]: same kind, same number of points), every
    coordinate related by [LXP.coord_back v d d']: the LEF decimal [d] is a whole number [n] of raw units
    (value(d) * 10000 = n) and [d'] is what the exporter writes for [n].
    The export succeeding is a hypothesis: it does exactly when the library has no PATH (next theorem). *)
Theorem C20_lef_import_export_coordinates :
  forall v lib L0 cells L' X,
    Forall LT.lmacro_wf (LT.lib_macros lib) -> RawLef_proofs.layers0_wf L0 ->
    RawLef.import lib L0 = Ok (cells, L') -> LX.export_gen v (LX.raw_lib_of_import (cells, L')) = Ok X ->
    LX.xl_dbu X = 10000 /\ LT.lib_case_off (LX.xl_lib X) = false /\
    Forall2 (LXP.macro_back v L') (LT.lib_macros lib) (LT.lib_macros (LX.xl_lib X)).
Proof. exact LXP.lef_import_export_coordinates. Qed.

(** the decimal VALUES: the exporter as found gives back every coordinate multiplied by 10000 (the number of
    Angstrom in the LEF number of microns, written as a LEF number of microns, with scale 0); the repaired exporter
    gives back the same value ([dec_eq]), always written with 4 decimals (the scale of the LEF text is not kept) *)
Theorem C20_lef_coord_back_original :
  forall d d', LXP.coord_back LX.original d d' ->
    RawLefDec.dscale d' = 0%nat /\ RawLefDec.dec_num d' * RawLefDec.pow10 (RawLefDec.dscale d) = RawLefDec.dec_num d * 10000.
Proof. exact LXP.coord_back_original. Qed.

Theorem C20_lef_coord_back_repaired :
  forall d d', LXP.coord_back LX.repaired d d' -> RawLefDec.dscale d' = 4%nat /\ RawLefDec.dec_eq d d'.
Proof. exact LXP.coord_back_repaired. Qed.

(** so for the code as found "LEF -> raw -> LEF gives back the same decimal values" is refuted: 1.50 comes back 15000 *)
Theorem C20_lef_import_export_values_orig_refuted :
  exists d d', RawLefDec.dec_wf d /\ LXP.coord_back LX.original d d' /\ ~ RawLefDec.dec_eq d d'.
Proof. exact LXP.coord_back_original_not_value. Qed.

(** one coordinate the other way, raw -> LEF -> raw: the repaired exporter's decimal imports to the integer it came
    from; the decimal of the exporter as found imports to 10000 times that *)
Theorem C20_lef_export_import_dist :
  (forall n, RawLefDec.in_isize n = true -> RawLef.import_dist (LX.export_dist LX.repaired Angstrom n) = Ok n) /\
  (forall u n, RawLefDec.in_isize n = true -> RawLefDec.in_isize (n * 10000) = true ->
     RawLef.import_dist (LX.export_dist LX.original u n) = Ok (n * 10000)).
Proof. exact (conj LXP.import_export_dist_repaired LXP.import_export_dist_original). Qed.

(** on the importer's image the exporter never returns an error: it succeeds exactly when no LAYER statement of the
    library holds a PATH, and panics (`unimplemented!("LefExporter::PATH")`) otherwise *)
Theorem C20_lef_reexport_outcome :
  forall v lib L0 cells L',
    Forall LT.lmacro_wf (LT.lib_macros lib) -> RawLef_proofs.layers0_wf L0 -> RawLef.import lib L0 = Ok (cells, L') ->
    ((exists X, LX.export_gen v (LX.raw_lib_of_import (cells, L')) = Ok X) \/ LX.export_gen v (LX.raw_lib_of_import (cells, L')) = Panic) /\
    ((exists X, LX.export_gen v (LX.raw_lib_of_import (cells, L')) = Ok X) <-> Forall LXP.macro_no_path (LT.lib_macros lib)).
Proof. exact LXP.lef_reexport_outcome. Qed.

(** raw -> LEF -> raw does not exist: the exporter writes no SIZE (it does not export the abstract's outline), and
    the importer refuses a macro without SIZE; every exported library that has a macro fails to import *)
Theorem C20_lef_export_reimport_no_size :
  forall v ord L X L0, LX.export_with v ord L = Ok X -> LT.lib_macros (LX.xl_lib X) <> [] ->
    RawLef.import (LX.xl_lib X) L0 = Err LT.ENoSize.
Proof. exact LXP.lef_export_reimport_no_size. Qed.

(** ** Inputs the exporter cannot express (observations, pinned as computations of the model; each is also a
    fixed case of the correspondence run) *)
Example C20_lef_export_units :
  LX.export_units Micro = Err LX.XUnits /\ LX.export_units Nano = Ok 1000 /\
  LX.export_units Angstrom = Ok 10000 /\ LX.export_units Pico = Err LX.XUnits.
Proof. vm_compute. repeat split; reflexivity. Qed.

Definition lx_lib (u : units) (names : list (option string)) (cells : list cell) : library :=
  mklib "lib" u (map (fun nm => mklayer 5 nm []) names) cells.
Definition lx_abs (m blk : shapemap) : cell :=
  mkcell "c" (Some (mkabstract "c" [mkpt 0 0; mkpt 100 0; mkpt 100 100; mkpt 0 100] [mkabsport "a" m] blk)) None.
Definition lx_path : shape := Path [mkpt 0 0; mkpt 5 0] 2.

Example C20_lef_export_inexpressible :
  (* a shape on a layer without a name, or on a key that is in no slot: an error *)
  LX.export_orig (lx_lib Nano [Some "met1"; None]%string [lx_abs [(1%nat, [w_rect 0])] []]) = Err LX.XNoName /\
  LX.export_orig (lx_lib Nano [Some "met1"]%string [lx_abs [(7%nat, [])] []]) = Err LX.XNoName /\
  (* a path: a panic; the layer name is looked up first, so an unnamed layer wins; the units are checked before everything *)
  LX.export_orig (lx_lib Nano [Some "met1"]%string [lx_abs [(0%nat, [lx_path])] []]) = Panic /\
  LX.export_orig (lx_lib Nano [None] [lx_abs [(0%nat, [lx_path])] []]) = Err LX.XNoName /\
  LX.export_orig (lx_lib Pico [None] [lx_abs [(0%nat, [lx_path])] []]) = Err LX.XUnits /\
  (* cells without abstract (with or without a layout, instances included) are skipped silently *)
  LX.export_orig (lx_lib Angstrom [None]
     [mkcell "a" None None;
      mkcell "b" None (Some (mklayout "b" [mkinst "i" 0 (mkpt 1 2) false None] [mkelem None 0 Drawing lx_path] []))]) =
    Ok (LX.mkxlef 10000 (LT.mkllib false [])).
Proof. vm_compute. repeat split; reflexivity. Qed.

(** ** Non-vacuity.  The two-layer library of the refutation, held in two orders: the libraries differ, the
    exported LefLibrary is the same and lists met1 before met2, in the pin and in the obstructions *)
Example C20_lef_export_nonvacuous :
  lib_maps_permuted (LXP.wl_lib w_m12) (LXP.wl_lib w_m21) /\ LXP.wl_lib w_m12 <> LXP.wl_lib w_m21 /\
  exists X, LX.export_orig (LXP.wl_lib w_m12) = Ok X /\ LX.export_orig (LXP.wl_lib w_m21) = Ok X /\
            map (fun m => (map (fun p => map (map LT.lg_layer) (LT.pin_ports p)) (LT.m_pins m), map LT.lg_layer (LT.m_obs m)))
                (LT.lib_macros (LX.xl_lib X)) = [([[["met1"; "met2"]]], ["met1"; "met2"])]%string.
Proof.
  split; [exact LXP.wl_permuted|]. split; [discriminate|].
  eexists. split; [vm_compute; reflexivity|]. split; vm_compute; reflexivity.
Qed.

(** LEF -> raw -> LEF on a macro with two pins (one with two ports that share a layer), obstructions, rectangles
    and a polygon, decimals with trailing zeros and a negative value: hypotheses of
    [C20_lef_import_export_coordinates] hold, the import and both exports succeed; pin A's two ports come back as
    one port with met2 (registered first) before met1; 1.50 comes back as 15000 (as found) / 1.5000 (repaired) *)
Definition lx_d (neg : bool) (m : Z) (s : nat) : RawLefDec.dec := RawLefDec.mkdec neg m s.
Definition lx_p (x y : RawLefDec.dec) : LT.lpoint := LT.mklpoint x y.
Definition lx_lg1 : LT.llayergeoms :=
  LT.mkllg "met1" [LT.LShape (LT.LRect (lx_p (lx_d false 150 2) (lx_d false 2 0)) (lx_p (lx_d false 3000 3) (lx_d true 5 1)))]
           0 false None None.
Definition lx_lg2 : LT.llayergeoms :=
  LT.mkllg "met2" [LT.LShape (LT.LPolygon [lx_p (lx_d false 0 0) (lx_d false 0 2); lx_p (lx_d false 1 0) (lx_d false 0 0);
                                           lx_p (lx_d false 1 0) (lx_d false 10 1)])]
           0 false None (Some (lx_d false 140 3)).
Definition lx_macro : LT.lmacro :=
  LT.mklmacro "inv" (Some (lx_d false 150 2, lx_d false 2 0))
              [LT.mklpin "A" [[lx_lg2]; [lx_lg1; lx_lg2]]; LT.mklpin "Y" [[lx_lg1]]] [lx_lg1; lx_lg2].
Definition lx_leflib : LT.llib := LT.mkllib false [lx_macro].
Definition lx_pin_A (v : LX.xvariant) (X : LX.xlef) : list (list (string * list LT.lgeom)) :=
  match LT.lib_macros (LX.xl_lib X) with
  | m :: _ => match LT.m_pins m with
              | p :: _ => map (map (fun lg => (LT.lg_layer lg, LT.lg_geoms lg))) (LT.pin_ports p)
              | [] => []
              end
  | [] => []
  end.
Definition lx_rect_back (d : Z -> RawLefDec.dec) : LT.lgeom :=
  LT.LShape (LT.LRect (lx_p (d 15000) (d 20000)) (lx_p (d 30000) (d (-5000)))).
Definition lx_poly_back (d : Z -> RawLefDec.dec) : LT.lgeom :=
  LT.LShape (LT.LPolygon [lx_p (d 0) (d 0); lx_p (d 10000) (d 0); lx_p (d 10000) (d 10000)]).

Example C20_lef_import_export_nonvacuous :
  exists r, RawLef.import lx_leflib None = Ok r /\
    (exists X, LX.export_orig (LX.raw_lib_of_import r) = Ok X /\
       lx_pin_A LX.original X = [[("met2", [lx_poly_back LX.dec_of_int; lx_poly_back LX.dec_of_int]); ("met1", [lx_rect_back LX.dec_of_int])]]%string) /\
    (exists X, LX.export (LX.raw_lib_of_import r) = Ok X /\
       lx_pin_A LX.repaired X = [[("met2", [lx_poly_back (fun n => LX.dec_new n 4); lx_poly_back (fun n => LX.dec_new n 4)]);
                                  ("met1", [lx_rect_back (fun n => LX.dec_new n 4)])]]%string).
Proof.
  eexists. split; [vm_compute; reflexivity|]. split; eexists; (split; [vm_compute; reflexivity|vm_compute; reflexivity]).
Qed.

Example C20_lef_import_export_nonvacuous_wf : Forall LT.lmacro_wf (LT.lib_macros lx_leflib) /\ RawLef_proofs.layers0_wf None.
Proof.
  split; [|exact I]. constructor; [|constructor].
  assert (Hd : forall n m s, 0 <= m < RawLefDec.two96 -> (s <= 28)%nat -> RawLefDec.dec_wf (lx_d n m s)) by (intros; split; assumption).
  assert (H96 : RawLefDec.two96 = 79228162514264337593543950336) by reflexivity.
  unfold LT.lmacro_wf, LT.lpin_wf, LT.llg_wf, lx_macro. cbn.
  repeat match goal with
         | |- _ /\ _ => split
         | |- Forall _ _ => constructor
         | |- forall _, _ => intros
         | H : Some _ = Some _ |- _ => injection H as <-
         | H : (_, _) = (_, _) |- _ => injection H as <- <-
         | H : None = Some _ |- _ => discriminate H
         | H : LT.lg_width _ = Some _ |- _ => cbn in H
         | H : _ = ?x |- RawLefDec.dec_wf ?x => rewrite <- H
         | |- RawLefDec.dec_wf _ => apply Hd; [rewrite H96; Lia.lia|Lia.lia]
         | |- LT.lgeom_wf _ => cbn
         | |- LT.lpoint_wf _ => split
         end.
Qed.

Print Assumptions C20_lef_export_order_independent.
Print Assumptions C20_lef_export_any_hash_order.
Print Assumptions C20_lef_export_map_order_refuted.
Print Assumptions C20_lef_export_reads_abstracts_only.
Print Assumptions C20_lef_reexport_any_hash_order.
Print Assumptions C20_lef_import_export_coordinates.
Print Assumptions C20_lef_coord_back_original.
Print Assumptions C20_lef_coord_back_repaired.
Print Assumptions C20_lef_import_export_values_orig_refuted.
Print Assumptions C20_lef_export_import_dist.
Print Assumptions C20_lef_reexport_outcome.
Print Assumptions C20_lef_export_reimport_no_size.

(** * technology protobuf -> layer table (`Layers::from_proto`, layout21raw/src/proto.rs; model Raw/RawLayersProto.v,
      proofs Raw/RawLayersProto_proofs.v)

    [LP.tlayer] is one `LayerInfo` of the technology: `index` and `sub_index` (u64 in the schema, [Z] here) and the optional
    purpose type number.  The function files every entry under its 64-bit index in a local hash map (a new index creates
    `Layer::from_num(index as i16)`, [wrap16]) with `add_purpose(sub_index as i16, purpose)`, then ITERATES the map, sorts
    what the iterator yielded by the map key and adds the layers to a fresh table.  [LP.from_proto ord tech] transcribes
    it with the iterator as the ORDER ORACLE [ord : LP.lmap -> LP.lmap] ([LP.lmap] = the association list of the map's
    entries); an oracle is any function that returns a permutation of the entries.  The result [LP.res layers] is the
    table as the list of its slots in key order ([layers] of Raw/RawData.v: a [layer] is its number, its name and the
    `add_purpose` calls made on it, in order), or the error of `add_purpose`.
    [LP.from_proto_with v] has the text of the second loop as the argument [v]: [LP.SortByKey] (the tree, = [LP.from_proto]),
    [LP.SortByNum] (commit ff55d4d: stable sort by the truncated number), [LP.NoSort] (as found, = [LP.from_proto_orig]);
    which one /repo has is read from the source on every run (tools/props/c20.py layers_variant). *)
From Coq Require Import Sorted.
From L21 Require Raw.RawLayersProto Raw.RawLayersProto_proofs.
Module LP := Raw.RawLayersProto.
Module LPP := Raw.RawLayersProto_proofs.

(** (a) for any two iteration orders of the hash map the function returns the same table; every technology, no bound *)
Theorem C20_layers_from_proto_order_independent :
  forall (ord1 ord2 : LP.lmap -> LP.lmap) (tech : list LP.tlayer),
    (forall m, Permutation (ord1 m) m) -> (forall m, Permutation (ord2 m) m) ->
    LP.from_proto ord1 tech = LP.from_proto ord2 tech.
Proof. exact LPP.from_proto_order_independent. Qed.

(** the same without oracle functions: [m] is what the map holds after the first loop, [p1] and [p2] are any two
    permutations of its entries; the second loop ([LP.visit]: sort; [LP.add_all]: `Layers::add` one by one) gives one table *)
Theorem C20_layers_from_proto_any_permutation :
  forall (tech : list LP.tlayer) (m p1 p2 : LP.lmap), LP.collect [] tech = Ok m ->
    Permutation p1 m -> Permutation p2 m ->
    LP.add_all (LP.visit LP.SortByKey p1) = LP.add_all (LP.visit LP.SortByKey p2).
Proof. exact LPP.from_proto_any_permutation. Qed.

(** (b) what the table is.  The function never fails.  It returns one layer per distinct index of the technology, in
    STRICTLY ascending order of the index; the layer of index [k] is [LP.layer_for tech k] =
    [mklayer (wrap16 k) None (LP.pairs_for tech k)]: number `k as i16`, no name, and as `add_purpose` calls exactly the
    pairs (`sub_index as i16`, purpose) of the entries of the technology whose index is [k], in input order, where the
    purpose is `Label` for a purpose message of type LABEL and `Other(sub_index as i16)` otherwise (no message included).
    ([keys] is unique: [LPP.sorted_same_members_eq], two strictly ascending lists with the same members are equal.) *)
Theorem C20_layers_from_proto_spec :
  forall (ord : LP.lmap -> LP.lmap) (tech : list LP.tlayer), (forall m, Permutation (ord m) m) ->
    exists keys : list Z,
      LP.from_proto ord tech = Ok (map (LP.layer_for tech) keys) /\
      StronglySorted Z.lt keys /\
      (forall k, In k keys <-> In k (map LP.tl_index tech)).
Proof. exact LPP.from_proto_spec. Qed.

(** (b) in closed form, without [exists]: [LP.table_spec tech] = [map (LP.layer_for tech) (LP.spec_keys tech)], where
    [LP.spec_keys tech] is the list of the indices of the technology with duplicates removed, sorted (Raw/RawLayersProto.v,
    a definition that consults no map and no oracle; it is also what the correspondence run compares the
    implementation's table with, next to the model) *)
Theorem C20_layers_from_proto_closed_form :
  forall (ord : LP.lmap -> LP.lmap) (tech : list LP.tlayer), (forall m, Permutation (ord m) m) ->
    LP.from_proto ord tech = Ok (LP.table_spec tech).
Proof. exact LPP.from_proto_closed_form. Qed.

(** every text of the second loop returns a table, for any oracle whatever (no error, no panic) *)
Theorem C20_layers_from_proto_total :
  forall v ord tech, exists ly, LP.from_proto_with v ord tech = Ok ly.
Proof. exact LPP.from_proto_with_total. Qed.

(** (c) WITHOUT the sort -- the code before /repo commit ff55d4d, `for layer in layers_by_number.values()` -- two
    iteration orders give two tables (two layers, indices 1 and 2) *)
Theorem C20_layers_from_proto_orig_refuted :
  exists (tech : list LP.tlayer) (ord1 ord2 : LP.lmap -> LP.lmap) (r1 r2 : layers),
    (forall m, Permutation (ord1 m) m) /\ (forall m, Permutation (ord2 m) m) /\
    LP.from_proto_orig ord1 tech = Ok r1 /\ LP.from_proto_orig ord2 tech = Ok r2 /\ r1 <> r2.
Proof. exact LPP.from_proto_orig_refuted. Qed.

(** and with the sort of the first repair (commit ff55d4d: by `layernum`, the truncated index): indices 1 and 65537 *)
Theorem C20_layers_from_proto_sort_by_num_refuted :
  exists (tech : list LP.tlayer) (ord1 ord2 : LP.lmap -> LP.lmap) (r1 r2 : layers),
    (forall m, Permutation (ord1 m) m) /\ (forall m, Permutation (ord2 m) m) /\
    LP.from_proto_with LP.SortByNum ord1 tech = Ok r1 /\ LP.from_proto_with LP.SortByNum ord2 tech = Ok r2 /\ r1 <> r2.
Proof. exact LPP.from_proto_sort_by_num_refuted. Qed.

Check C20_layers_from_proto_order_independent :
  forall (ord1 ord2 : LP.lmap -> LP.lmap) (tech : list LP.tlayer),
    (forall m, Permutation (ord1 m) m) -> (forall m, Permutation (ord2 m) m) -> LP.from_proto ord1 tech = LP.from_proto ord2 tech.
Check C20_layers_from_proto_any_permutation :
  forall (tech : list LP.tlayer) (m p1 p2 : LP.lmap), LP.collect [] tech = Ok m -> Permutation p1 m -> Permutation p2 m ->
    LP.add_all (LP.visit LP.SortByKey p1) = LP.add_all (LP.visit LP.SortByKey p2).
Check C20_layers_from_proto_spec :
  forall (ord : LP.lmap -> LP.lmap) (tech : list LP.tlayer), (forall m, Permutation (ord m) m) ->
    exists keys : list Z, LP.from_proto ord tech = Ok (map (LP.layer_for tech) keys) /\
      StronglySorted Z.lt keys /\ (forall k, In k keys <-> In k (map LP.tl_index tech)).
Check C20_layers_from_proto_closed_form :
  forall (ord : LP.lmap -> LP.lmap) (tech : list LP.tlayer), (forall m, Permutation (ord m) m) -> LP.from_proto ord tech = Ok (LP.table_spec tech).
Check C20_layers_from_proto_total : forall v ord tech, exists ly, LP.from_proto_with v ord tech = Ok ly.
Check C20_layers_from_proto_orig_refuted :
  exists (tech : list LP.tlayer) (ord1 ord2 : LP.lmap -> LP.lmap) (r1 r2 : layers),
    (forall m, Permutation (ord1 m) m) /\ (forall m, Permutation (ord2 m) m) /\
    LP.from_proto_orig ord1 tech = Ok r1 /\ LP.from_proto_orig ord2 tech = Ok r2 /\ r1 <> r2.
Check C20_layers_from_proto_sort_by_num_refuted :
  exists (tech : list LP.tlayer) (ord1 ord2 : LP.lmap -> LP.lmap) (r1 r2 : layers),
    (forall m, Permutation (ord1 m) m) /\ (forall m, Permutation (ord2 m) m) /\
    LP.from_proto_with LP.SortByNum ord1 tech = Ok r1 /\ LP.from_proto_with LP.SortByNum ord2 tech = Ok r2 /\ r1 <> r2.
Check (LP.from_proto : (LP.lmap -> LP.lmap) -> list LP.tlayer -> LP.res layers).

(** ** Non-vacuity.  A technology of seven entries over three indices -- 5 and 65541 share the layer number 5 --, with a
    sub-index beyond `i16` (70000 -> 4464), an absent purpose, LABEL and other types, and one (index, sub_index) pair
    given twice.  The identity and the reversal are oracles; they hand the second loop DIFFERENT lists; the function
    returns the same table under both: index 5, then 7, then 65541, each with its `add_purpose` calls in input order.
    The unsorted second loop gives two different tables on the same input. *)
Definition lp_tech : list LP.tlayer :=
  [LP.mktl 65541 1 (Some 1); LP.mktl 7 0 (Some 2); LP.mktl 5 2 None; LP.mktl 7 70000 (Some 3);
   LP.mktl 5 2 (Some 1); LP.mktl 65541 9 (Some 4); LP.mktl 7 1 (Some 1)].
Definition lp_table : layers :=
  [mklayer 5 None [(2, Other 2); (2, Label)];
   mklayer 7 None [(0, Other 0); (4464, Other 4464); (1, Label)];
   mklayer 5 None [(1, Label); (9, Other 9)]].

Example C20_layers_from_proto_nonvacuous :
  (forall m : LP.lmap, Permutation ((fun x => x) m) m) /\ (forall m : LP.lmap, Permutation (rev m) m) /\
  (exists m, LP.collect [] lp_tech = Ok m /\ map fst m = [65541; 7; 5] /\ rev m <> m) /\
  LP.from_proto (fun m => m) lp_tech = Ok lp_table /\ LP.from_proto (@rev _) lp_tech = Ok lp_table /\
  lp_table = map (LP.layer_for lp_tech) [5; 7; 65541] /\ LP.table_spec lp_tech = lp_table /\
  (* the derived lookups: `Layers.nums[5]` is the key of the LAST layer numbered 5; purps / nums of the first layer *)
  ly_keynum lp_table 5 = Some 2%nat /\ layer_purpose (nth 0 lp_table (layer_from_num 0)) 2 = Some Label /\
  layer_pnum (nth 0 lp_table (layer_from_num 0)) (Other 2) = Some 2 /\
  LP.from_proto_orig (fun m => m) lp_tech <> LP.from_proto_orig (@rev _) lp_tech.
Proof.
  split; [exact LPP.lperm_id|]. split; [exact LPP.lperm_rev|].
  split; [eexists; split; [vm_compute; reflexivity|split; [reflexivity|discriminate]]|].
  vm_compute. repeat split; try reflexivity. discriminate.
Qed.

Print Assumptions C20_layers_from_proto_order_independent.
Print Assumptions C20_layers_from_proto_any_permutation.
Print Assumptions C20_layers_from_proto_spec.
Print Assumptions C20_layers_from_proto_closed_form.
Print Assumptions C20_layers_from_proto_total.
Print Assumptions C20_layers_from_proto_orig_refuted.
Print Assumptions C20_layers_from_proto_sort_by_num_refuted.
