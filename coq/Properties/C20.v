(** C20 -- Conversions are deterministic.
    A Gallina function is deterministic by construction, so the content of these theorems sits where
    nondeterminism can enter the implementation: iteration over a HashMap.  The map's iteration order is
    an arbitrary permutation of its entries (keys distinct); the theorem says the order does not matter
    once the entries are sorted by key (what the repaired exporters do), and that without the sort it does. *)
From Coq Require Import ZArith List Permutation String.
From L21 Require Import Order.SortedIter Order.HashIterAllowed Gen.HashIterGen.
Import ListNotations.
Local Open Scope Z_scope.

Theorem C20_sorted_iteration_order_irrelevant :
  forall (A : Type) (l1 l2 : list (Z * A)),
    NoDup (map fst l1) -> Permutation l1 l2 -> isort l1 = isort l2.
Proof. intros A. exact sorted_iteration_order_irrelevant. Qed.

Theorem C20_sorted_iteration_is_a_permutation :
  forall (A : Type) (l : list (Z * A)), Permutation (isort l) l.
Proof. intros A. exact isort_perm. Qed.

Theorem C20_unsorted_iteration_refuted :
  exists l1 l2 : list (Z * Z), NoDup (map fst l1) /\ Permutation l1 l2 /\ iterate_unsorted l1 <> iterate_unsorted l2.
Proof. exact unsorted_iteration_refuted. Qed.

(** The tie of that theorem to the code: EVERY place where the conversion crates iterate over a name of hash
    type (list regenerated from the Rust sources on every run by tools/translate_hash_iter.py) either goes
    through a sort by key -- the situation of the theorem above -- or is on the reviewed list
    Order/HashIterAllowed.v of iterations that are not over a hash container at all.  A conversion that starts
    to iterate a hash map directly (or drops the sort) makes this obligation fail. *)
Theorem C20_hash_iteration_sites : sites_ok hash_iter_sites = true.
Proof. vm_compute. reflexivity. Qed.

Example C20_sites_nonvacuous :
  (7 <= List.length (filter (fun s => snd s) hash_iter_sites))%nat /\
  existsb (fun s => site_eqb (fst s) ("layout21raw/src/lef.rs"%string, "export_abstract"%string, "sorted_by_layer(abs.blockages)"%string)) hash_iter_sites = true.
Proof. vm_compute. split; [repeat constructor | reflexivity]. Qed.

Example C20_nonvacuous :
  isort [(6, 1); (5, 0); (7, 2)] = [(5, 0); (6, 1); (7, 2)] /\ isort [(7, 2); (6, 1); (5, 0)] = [(5, 0); (6, 1); (7, 2)].
Proof. vm_compute. split; reflexivity. Qed.

Print Assumptions C20_sorted_iteration_order_irrelevant.
Print Assumptions C20_sorted_iteration_is_a_permutation.
Print Assumptions C20_unsorted_iteration_refuted.
Print Assumptions C20_hash_iteration_sites.
