(** Kernels, the GDSII codec gds21 (properties C01, C02, C03, C10): the definitions GENERATED on every run from
    gds21/src/write.rs, read.rs, data.rs (Gen/KernelsGdsWriteGen.v, Gen/KernelsGdsReadGen.v; tools/translate_rust_kernels.py units
    "gdsw", "gdsr") against the hand-written codec models Gds/GdsWrite.v, Gds/GdsRead.v.
    Writer (family gds_write; reading Gds/KernelsInstGdsWrite.v, proofs Gds/KernelsTieGdsWrite_proofs.v): every provided method of
    `trait Encode` hands to the required method `encode_record` exactly the records of the model's [flat_*] functions, in the
    model's order, stopping at its first error, whatever the implementor's state [S] and `encode_record` [emit] are; with
    `encode_record` = [enc_record] appended to a byte vector the whole of `encode_lib` is [write_lib].
    Reader, record level (family gds_read; reading Gds/KernelsInstGdsRead.v with MONADIC SELF, the bytes not yet read being the state
    of the effect; proofs Gds/KernelsTieGdsRead_proofs.v): `read_record_header`, `read_record_content` (all 49 arms: which typed
    read, which length, which elements of the vector go to which field of the variant) and `read_record` are [read_header],
    [read_content], [read_record] of Gds/GdsRead.v, the `GdsError` variant apart; byte-level IO is external.
    Parser (families gds_parse, gds_parse_e1, gds_parse_e2, gds_parse_lib; reading Gds/KernelsInstGdsParse.v: monadic self = look-ahead record
    + unread bytes, `next` through the generated `read_record`, loops on fuel): [P0.sim f x y] = the generated run x and the model's run y
    end in the same class, with the same value and state, and the state stays well-formed; `parse_property`, `parse_strans`, the seven
    element parsers, `parse_struct`, `parse_lib` are the model's functions WHOLE and fuel for fuel; with the first record read by the
    generated `read_record`, `parse_lib` is [read_lib_fuel]. *)
From Coq Require Import ZArith Bool List.
From L21 Require Import Base.KernelOps Base.KernelOpsX Base.Outcome.
From L21 Require Import Gds.GdsData Gds.GdsRecord Gds.GdsWrite Gds.KernelsInstGdsWrite.
From L21 Require Gds.KernelsTieGdsWrite_proofs.
From L21 Require Gds.GdsRead Gds.KernelsInstGdsRead Gds.KernelsTieGdsRead_proofs.
From L21 Require Gds.KernelsInstGdsParse Gds.KernelsTieGdsParse_proofs Gds.KernelsTieGdsParseE1_proofs Gds.KernelsTieGdsParseE2_proofs Gds.KernelsTieGdsParseL_proofs.
Import ListNotations.
Local Open Scope Z_scope.
Module W := Gds.KernelsTieGdsWrite_proofs.
Module RI := Gds.KernelsInstGdsRead.
Module R := Gds.KernelsTieGdsRead_proofs.
Module PI := Gds.KernelsInstGdsParse.
Module P0 := Gds.KernelsTieGdsParse_proofs.
Module P1 := Gds.KernelsTieGdsParseE1_proofs.
Module P2 := Gds.KernelsTieGdsParseE2_proofs.
Module PL := Gds.KernelsTieGdsParseL_proofs.

Section Writer.
Context {S : Type} (emit : S -> record -> gres S).
Theorem Ktie_encode_strans : forall s x, g_encode_strans emit s x = emit_all emit s (flat_strans x).
Proof. exact (W.tie_encode_strans emit). Qed.
Theorem Ktie_encode_boundary : forall s x, len2_ok (b_xy x) -> g_encode_boundary emit s x = emit_all emit s (flat_boundary x).
Proof. exact (W.tie_encode_boundary emit). Qed.
Theorem Ktie_encode_path : forall s x, len2_ok (p_xy x) -> g_encode_path emit s x = emit_all emit s (flat_path x).
Proof. exact (W.tie_encode_path emit). Qed.
Theorem Ktie_encode_struct_ref : forall s x, g_encode_struct_ref emit s x = emit_all emit s (flat_sref x).
Proof. exact (W.tie_encode_struct_ref emit). Qed.
(** `[GdsPoint; 3]` *)
Theorem Ktie_encode_array_ref : forall s x, length (ar_xy x) = 3%nat -> g_encode_array_ref emit s x = emit_all emit s (flat_aref x).
Proof. exact (W.tie_encode_array_ref emit). Qed.
Theorem Ktie_encode_text_elem : forall s x, g_encode_text_elem emit s x = emit_all emit s (flat_text x).
Proof. exact (W.tie_encode_text_elem emit). Qed.
Theorem Ktie_encode_node : forall s x, len2_ok (n_xy x) -> g_encode_node emit s x = emit_all emit s (flat_node x).
Proof. exact (W.tie_encode_node emit). Qed.
Theorem Ktie_encode_box : forall s x, len2_ok (x_xy x) -> g_encode_box emit s x = emit_all emit s (flat_box x).
Proof. exact (W.tie_encode_box emit). Qed.
Theorem Ktie_encode_element : forall s x, element_len_ok x -> g_encode_element emit s x = emit_all emit s (flat_element x).
Proof. exact (W.tie_encode_element emit). Qed.
Theorem Ktie_encode_datetimes : forall (s : S) d, g_encode_datetimes s d = Ok (flat_dates d).
Proof. exact W.tie_encode_datetimes. Qed.
Theorem Ktie_encode_struct : forall s x, struct_len_ok x -> g_encode_struct emit s x = emit_all emit s (flat_struct x).
Proof. exact (W.tie_encode_struct emit). Qed.
Theorem Ktie_encode_lib : forall s x, lib_len_ok x -> g_encode_lib emit s x = emit_all emit s (flatten_lib x).
Proof. exact (W.tie_encode_lib emit). Qed.
End Writer.
Theorem Ktie_flatten_vec : forall l, len2_ok l -> Gen.KernelsGdsWriteGen.g_GdsPoint_flatten_vec gw_xops (map Gpt l) = Ok (flat_points l).
Proof. exact W.tie_flatten_vec. Qed.
(** `GdsLibrary::write` into a byte vector: the generated `encode_lib` over [enc_record] is the model's [write_lib] *)
Theorem Ktie_write_lib : forall l, lib_len_ok l -> g_encode_lib W.emit_bytes [] l = write_lib l.
Proof. exact W.tie_write_lib. Qed.

(** * the reader, record level *)
Theorem Ktie_valid : forall r bs, RI.g_valid r bs = Ok (rtype_valid r, bs).
Proof. exact R.tie_valid. Qed.
(** the two bytes of the length are bytes *)
Theorem Ktie_read_record_header : forall bs, forallb u8b (firstn 2 bs) = true ->
  RI.g_read_record_header bs = RI.ounit (omap R.hdr_of (GdsRead.read_header bs)).
Proof. exact R.tie_read_record_header. Qed.
Theorem Ktie_read_record_content : forall rt dt len bs,
  RI.as_rec (RI.g_read_record_content rt dt len bs) = RI.ounit (GdsRead.read_content true rt dt len bs).
Proof. exact R.tie_read_record_content. Qed.
Theorem Ktie_read_record : forall bs, forallb u8b (firstn 2 bs) = true ->
  RI.as_rec (RI.g_read_record bs) = RI.ounit (GdsRead.read_record true bs).
Proof. exact R.tie_read_record. Qed.

(** * the parser *)
Import PI.
Theorem Ktie_parse_property : forall s attr, u8s s -> P0.sim Mprop (g_parse_property attr s) (GdsRead.parse_property true (Rst s) attr).
Proof. exact P0.tie_parse_property. Qed.
Theorem Ktie_parse_strans : forall f s d0 d1, u8s s -> P0.sim Mstrans (g_parse_strans f d0 d1 s) (GdsRead.parse_strans true f (Rst s) d0 d1).
Proof. exact P0.tie_parse_strans. Qed.
Theorem Ktie_parse_boundary : forall f s, u8s s -> P0.sim (fun e => EBoundary (Mboundary e)) (g_parse_boundary f s) (GdsRead.parse_elem true f GdsRead.KBoundary (Rst s) [] []).
Proof. exact P1.tie_parse_boundary. Qed.
Theorem Ktie_parse_path : forall f s, u8s s -> P0.sim (fun e => EPath (Mpath e)) (g_parse_path f s) (GdsRead.parse_elem true f GdsRead.KPath (Rst s) [] []).
Proof. exact P1.tie_parse_path. Qed.
Theorem Ktie_parse_node : forall f s, u8s s -> P0.sim (fun e => ENode (Mnode e)) (g_parse_node f s) (GdsRead.parse_elem true f GdsRead.KNode (Rst s) [] []).
Proof. exact P1.tie_parse_node. Qed.
Theorem Ktie_parse_box : forall f s, u8s s -> P0.sim (fun e => EBox (Mbox e)) (g_parse_box f s) (GdsRead.parse_elem true f GdsRead.KBox (Rst s) [] []).
Proof. exact P1.tie_parse_box. Qed.
Theorem Ktie_parse_struct_ref : forall f s, u8s s -> P0.sim (fun e => ESref (Msref e)) (g_parse_struct_ref f s) (GdsRead.parse_elem true f GdsRead.KSref (Rst s) [] []).
Proof. exact P2.tie_parse_struct_ref. Qed.
Theorem Ktie_parse_array_ref : forall f s, u8s s -> P0.sim (fun e => EAref (Maref e)) (g_parse_array_ref f s) (GdsRead.parse_elem true f GdsRead.KAref (Rst s) [] []).
Proof. exact P2.tie_parse_array_ref. Qed.
Theorem Ktie_parse_text_elem : forall f s, u8s s -> P0.sim (fun e => EText (Mtext e)) (g_parse_text_elem f s) (GdsRead.parse_elem true f GdsRead.KText (Rst s) [] []).
Proof. exact P2.tie_parse_text_elem. Qed.
(** `dates: &[i16; 12]` *)
Theorem Ktie_parse_struct : forall f s dates, u8s s -> length dates = 12%nat -> P0.sim Mstruct (g_parse_struct f dates s) (GdsRead.parse_struct true f (Rst s) dates).
Proof. exact PL.tie_parse_struct. Qed.
Theorem Ktie_parse_lib : forall f s, u8s s -> omap (fun ls => Mlib (fst ls)) (g_parse_lib f s) = RI.ounit (GdsRead.parse_lib true f (Rst s)).
Proof. exact PL.tie_parse_lib. Qed.
(** `GdsLibrary::from_bytes`: generated `read_record`, then generated `parse_lib` = the model's reader *)
Theorem Ktie_read_lib : forall f bs, forallb u8b bs = true -> omap (fun ls => Mlib (fst ls)) (PL.g_read_lib f bs) = RI.ounit (GdsRead.read_lib_fuel true f bs).
Proof. exact PL.tie_read_lib. Qed.

Print Assumptions Ktie_encode_strans.
Print Assumptions Ktie_encode_boundary.
Print Assumptions Ktie_encode_path.
Print Assumptions Ktie_encode_struct_ref.
Print Assumptions Ktie_encode_array_ref.
Print Assumptions Ktie_encode_text_elem.
Print Assumptions Ktie_encode_node.
Print Assumptions Ktie_encode_box.
Print Assumptions Ktie_encode_element.
Print Assumptions Ktie_encode_datetimes.
Print Assumptions Ktie_encode_struct.
Print Assumptions Ktie_encode_lib.
Print Assumptions Ktie_flatten_vec.
Print Assumptions Ktie_write_lib.
Print Assumptions Ktie_valid.
Print Assumptions Ktie_read_record_header.
Print Assumptions Ktie_read_record_content.
Print Assumptions Ktie_read_record.
Print Assumptions Ktie_parse_property.
Print Assumptions Ktie_parse_strans.
Print Assumptions Ktie_parse_boundary.
Print Assumptions Ktie_parse_path.
Print Assumptions Ktie_parse_node.
Print Assumptions Ktie_parse_box.
Print Assumptions Ktie_parse_struct_ref.
Print Assumptions Ktie_parse_array_ref.
Print Assumptions Ktie_parse_text_elem.
Print Assumptions Ktie_parse_struct.
Print Assumptions Ktie_parse_lib.
Print Assumptions Ktie_read_lib.
