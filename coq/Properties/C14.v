(** C14 -- Raw layout survives the trip through the protobuf schema (in progress). *)
From L21 Require Import Raw.RawData Raw.RawProto Raw.RawProtoSpec Raw.RawProto_proofs.
