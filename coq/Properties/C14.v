(** C14 -- Raw layout survives the trip through the protobuf schema.
    Property theorems only; proofs are in Raw/RawProto*_proofs.v.

    Model (Raw/RawProto.v): [to_proto_with xrot ord L] is `Library::to_proto`
    (ProtoExporter + `DepOrder`), [from_proto ly0 P] is `Library::from_proto` (ProtoImporter) with
    [ly0] the `layers` argument ([[]] for `None`).  [xrot] is the rotation written by
    `export_instance`: [export_rotation] after the repair (the angle is written as it is,
    `None => 0`, a whole number of degrees that fits an `i32` => that number, anything else =>
    error), [export_rotation_orig] the code as found (constant 0); [to_proto] / [to_proto_orig]
    are the two with the code's own iteration order [sorted_by_layer].  [ord] is the order in
    which the entries of a `HashMap<LayerKey, Vec<Shape>>` are visited; statements about the
    exporter hold for EVERY [ord] that returns a permutation of the entries ([perm_oracle]).
    `DepOrder` is the model of property C17 ([DepOrderFixed.order_checked]); its properties are
    the C17 theorems, not re-proved here.

    Specification (Raw/RawProtoSpec.v, written from the property statement and raw.proto):
    [raw_content L] / [proto_content P] map both formats to what a library SAYS: name, units,
    cells by name with layout and abstract, instances with name, target cell NAME, location,
    reflection and rotation, annotations, shapes with points, width, net and layer / purpose
    NUMBERS.  The rotation is the whole number of degrees: raw `Some(a)` says the integer a is
    equal to, a message field r says r; no angle, `Some(0.0)` and `Some(-0.0)` all say 0, so a
    library that had `Some(0.0)` and comes back with `None` has kept its rotation.
    [raw_equiv_grouped L L'] : both say something and say the same, comparing cells as a
    multiset, the shapes of a layout as a list after the documented grouping [spec_group] (by
    first-seen (layer, purpose), then rectangles / polygons / paths), rectangles up to the
    choice of the two stored corners, the layers of a port or of the blockages as a multiset. *)
From Coq Require Import ZArith NArith List String Bool Permutation.
From L21 Require Import Base.F64 Base.Outcome Raw.RawData Raw.RawProto Raw.RawProtoSpec Raw.RawProto_proofs.
Import ListNotations.
Local Open Scope Z_scope.

(** ** (1) raw -> proto -> raw
    [proto_exportable L] (Raw/RawProtoSpec.v) is "L is in the schema's supported subset": units
    other than Pico; cell names distinct (the schema refers to cells by name); no cell reaches
    itself through instances; instances point into the library and their angle is a whole
    number of degrees that fits an `i32`; every element's and every abstract entry's layer and
    purpose resolve to `i16` numbers, with distinct layer numbers inside one port / the blockages;
    coordinates in `i64`, rectangle sides at most `i64::MAX`, path widths in `0..=i64::MAX`.
    For every iteration order of the hash maps, every such library and every well-formed
    layer table handed to the importer: export succeeds, import of the result succeeds, and
    the library that comes back says the same as the original. *)
Theorem C14_raw_proto_raw :
  forall ord L ly0, perm_oracle ord -> proto_exportable L -> layers_wf ly0 ->
    exists P L', to_proto_with export_rotation ord L = Ok P /\ from_proto ly0 P = Ok L' /\ raw_equiv_grouped L L'.
Proof. exact raw_proto_raw. Qed.

(** the same for the code's own order (`sorted_by_layer`, which visits every entry once) *)
Theorem C14_raw_proto_raw_code :
  forall L ly0, proto_exportable L -> layers_wf ly0 ->
    exists P L', to_proto L = Ok P /\ from_proto ly0 P = Ok L' /\ raw_equiv_grouped L L'.
Proof. exact raw_proto_raw_code. Qed.

Theorem C14_sorted_by_layer_perm : perm_oracle sorted_by_layer.
Proof. exact sorted_by_layer_perm. Qed.

(** The two halves of (1), each stronger than what (1) uses.
    The importer keeps the content of EVERY message it accepts (not only exported ones), in
    message order, provided the layer numbers inside one port / the blockages are distinct (a
    second entry for a layer replaces the first in the hash map). *)
Theorem C14_import_content :
  forall ly0 P L, layers_wf ly0 -> abs_layers_distinct P -> proto_typed P -> from_proto ly0 P = Ok L ->
    raw_content L = proto_content P /\ layers_wf (lib_layers L) /\ ly_ext ly0 (lib_layers L).
Proof. exact import_content. Qed.

(** The exporter writes the content, grouped as [spec_group] says, and a message that has
    everything the importer needs. *)
Theorem C14_export_content :
  forall ord L, perm_oracle ord -> proto_exportable L ->
    exists P C C', to_proto_with export_rotation ord L = Ok P /\ raw_content L = Some C /\ proto_content P = Some C' /\
      content_equiv_grouped C C' /\ Forall pcell_imp (pb_cells P) /\ abs_layers_distinct P /\ proto_typed P /\
      units_content (pb_units P) <> None.
Proof. exact export_content. Qed.

(** the documented grouping applied twice is the grouping applied once (so "compare after
    grouping" is a well-defined comparison) *)
Theorem C14_spec_group_idempotent : forall es, spec_group (spec_group es) = spec_group es.
Proof. exact spec_group_idem. Qed.

(** ** (2) proto -> raw -> proto
    [canonical ly0 P] (Raw/RawProtoSpec.v) singles out one encoding among the redundant ones
    the schema allows; each clause is needed for the SAME message to come back:
    - `author`, `interface`, `module` absent (the raw model has no place for them);
    - in a layout: every LayerShapes has a layer with `i16` numbers, is non-empty, and no two
      have the same (layer, purpose) (the exporter writes one per pair, and none when empty);
      rectangles have a corner and non-negative width / height (the exporter writes the
      lower-left corner), path widths are non-negative;
    - in an abstract: an outline without net; shapes without nets (the raw abstract has none);
      the layer is one of [ly0] and the purpose number is the one [ly0] registers for pin /
      obstruction on it (the raw abstract stores only the layer key); the layer lists of a
      port and of the blockages in the order of the layer table (the exporter writes a hash
      map's entries in ascending key order).
    No restriction on rotations: 360, -90, 720 come back as they are.
    [proto_typed P] is the type invariant "`rotation_clockwise_degrees` is an `i32`".
    [deps_first P]: cells listed before their users. *)
Theorem C14_proto_raw_proto :
  forall ly0 P L, layers_wf ly0 -> proto_typed P -> deps_first P -> canonical ly0 P ->
    from_proto ly0 P = Ok L -> to_proto L = Ok P.
Proof. exact proto_raw_proto. Qed.

(** ... and such a message IS imported when it has every field the importer needs
    ([pcell_imp]: locations, layers with `i16` numbers, corners that do not overflow,
    non-negative path widths, outlines): never an error, never a panic. *)
Theorem C14_import_total :
  forall ly0 P, units_content (pb_units P) <> None -> deps_first P -> Forall pcell_imp (pb_cells P) ->
    exists L, from_proto ly0 P = Ok L.
Proof. exact import_total. Qed.

(** ** (3) exported libraries list a cell after the cells it instantiates -- for either
    rotation code, every iteration order and EVERY library for which export returns a message
    (no [proto_exportable] needed); hence import after export never fails on an undefined
    reference (whatever else may make it fail, e.g. layer numbers outside `i16`). *)
Theorem C14_export_deps_first :
  forall xrot ord L P, to_proto_with xrot ord L = Ok P -> deps_first P.
Proof. exact export_deps_first. Qed.

Theorem C14_import_no_undefined :
  forall ly0 P e, deps_first P -> from_proto ly0 P = Err e -> e <> undefined_msg.
Proof. exact import_no_undefined. Qed.

Theorem C14_export_import_no_undefined :
  forall xrot ord L P ly0 e, to_proto_with xrot ord L = Ok P -> from_proto ly0 P = Err e -> e <> undefined_msg.
Proof. intros xrot ord L P ly0 e H. apply import_no_undefined. exact (export_deps_first _ _ _ _ H). Qed.

(** [undefined_msg] is the importer's error for an unknown cell name; it does occur on a
    message that is not deps-first *)
Theorem C14_undefined_exists :
  from_proto [] (mkplib "" 0 [mkpcell "a" false None (Some (mkplayout "a" [] [mkpinst "i" (Some (Some (RefLocal "b"))) (Some (mkpp 0 0)) false 0] []))] false)
  = Err undefined_msg.
Proof. exact import_undefined_exists. Qed.

(** the order of the exported cells, in full: each cell exactly once, each after its targets
    (from the C17 theorem for `DepOrder`) *)
Theorem C14_dep_order_sound :
  forall cells order, dep_order cells = Ok order ->
    NoDup order /\ (forall i, (i < List.length cells)%nat -> In i order) /\
    (closed cells -> forall i, In i order -> (i < List.length cells)%nat) /\
    (forall l1 x l2, order = l1 ++ x :: l2 -> forall d, In d (deps_of cells x) -> In d l1).
Proof. exact dep_order_sound. Qed.

(** ** (4) What the schema cannot express.
    The rotation written is exactly the rotation content; an angle that is not a whole number
    of degrees in the `i32` range (fractional, NaN, infinite, 2^31 ...) is an error. *)
Theorem C14_export_rotation_exact : forall a v, export_rotation a = Ok v <-> angle_content a = Some v.
Proof. exact export_rotation_exact. Qed.
Theorem C14_export_rotation_error : forall a, angle_content a = None -> exists e, export_rotation a = Err e.
Proof. exact export_rotation_error. Qed.
(** `f64::from(i32)` read back as a whole number is the `i32` (the importer's side) *)
Theorem C14_f64_int_of_int : forall z, i32_ok z -> z <> 0 -> f64_int_value (f64_of_int z) = Some z.
Proof. exact f64_int_of_int. Qed.

(** A library in which a cell reaches itself is refused with an error: no panic, no
    unbounded recursion (C17's repaired `DepOrder`). *)
Theorem C14_export_cyclic_error :
  forall xrot ord L, lib_units L <> Pico -> closed (lib_cells L) -> ~ acyclic (lib_cells L) ->
    exists e, to_proto_with xrot ord L = Err e.
Proof. exact export_cyclic_error. Qed.

(** OBSERVATION (outside the property's space: the schema has no such unit): `Units::Pico` makes
    the real exporter PANIC (`unimplemented!()`), it is not an error return. *)
Theorem C14_export_pico_panics : forall xrot ord L, lib_units L = Pico -> to_proto_with xrot ord L = Panic.
Proof. exact export_pico_panics. Qed.

(** ** (5) The exporter as found (`rotation_clockwise_degrees: 0`) does not have the property.
    Closed witness [Lw]: cell "b" instantiates cell "a" reflected and rotated by 90 degrees;
    the message says rotation 0, the library that comes back has no angle. *)
Theorem C14_raw_proto_raw_orig_witness :
  proto_exportable Lw /\ layers_wf [] /\
  exists P L', to_proto_orig Lw = Ok P /\ from_proto [] P = Ok L' /\ ~ raw_equiv_grouped Lw L'.
Proof. exact raw_proto_raw_orig_witness. Qed.

Theorem C14_raw_proto_raw_orig_refuted :
  ~ (forall ord L ly0, perm_oracle ord -> proto_exportable L -> layers_wf ly0 ->
       exists P L', to_proto_with export_rotation_orig ord L = Ok P /\ from_proto ly0 P = Ok L' /\ raw_equiv_grouped L L').
Proof. exact raw_proto_raw_orig_refuted. Qed.

(** and from the message side: the canonical message [Pw] with rotation 90 comes back with 0 *)
Theorem C14_proto_raw_proto_orig_witness :
  layers_wf [] /\ proto_typed Pw /\ deps_first Pw /\ canonical [] Pw /\
  exists L P', from_proto [] Pw = Ok L /\ to_proto_orig L = Ok P' /\ P' <> Pw.
Proof. exact proto_raw_proto_orig_witness. Qed.

Theorem C14_proto_raw_proto_orig_refuted :
  ~ (forall ly0 P L, layers_wf ly0 -> proto_typed P -> deps_first P -> canonical ly0 P ->
       from_proto ly0 P = Ok L -> to_proto_orig L = Ok P).
Proof. exact proto_raw_proto_orig_refuted. Qed.

(** ** Non-vacuity.
    [L_nv]: users listed first, a rectangle with swapped corners, nets, three layer/purpose
    pairs interleaved, a reflected instance rotated by 90 degrees, an annotation, an abstract
    with a two-layer port and blockages.  It meets every hypothesis of (1); the exporter
    reorders the cells, groups the shapes and writes rotation 90; the library comes back. *)
Example C14_raw_proto_raw_nonvacuous :
  proto_exportable L_nv /\ layers_wf ly_nv /\ layers_wf [] /\
  (exists P, to_proto L_nv = Ok P /\ map pc_name (pb_cells P) = ["a"; "b"]%string /\
     (exists c l, nth_error (pb_cells P) 1 = Some c /\ pc_layout c = Some l /\ map pi_rot (ply_insts l) = [90; 0]) /\
     (exists c l, nth_error (pb_cells P) 0 = Some c /\ pc_layout c = Some l /\
        map (fun ls => (pls_lp ls, List.length (pls_rects ls), List.length (pls_polys ls), List.length (pls_paths ls))) (ply_shapes l)
        = [(Some (5, 0), 1%nat, 1%nat, 0%nat); (Some (7, 0), 1%nat, 0%nat, 1%nat)]) /\
     exists L', from_proto [] P = Ok L' /\ map c_name (lib_cells L') = ["a"; "b"]%string).
Proof.
  split; [exact L_nv_exportable|]. split; [exact ly_nv_wf|]. split; [split; [constructor|intros l []]|].
  eexists. split; [vm_compute; reflexivity|]. split; [reflexivity|]. split; [|split].
  - eexists. eexists. split; [reflexivity|]. split; reflexivity.
  - eexists. eexists. split; [reflexivity|]. split; reflexivity.
  - eexists. split; [vm_compute; reflexivity|]. reflexivity.
Qed.

(** [P_nv] meets every hypothesis of (2) with the layer table [ly_nv]: two LayerShapes in a
    layout (one on a layer the table does not have yet), an abstract with a two-layer port and
    blockages, rotations 90, -90, 720, 0; it is imported, and exported as itself. *)
Example C14_proto_raw_proto_nonvacuous :
  layers_wf ly_nv /\ proto_typed P_nv /\ deps_first P_nv /\ canonical ly_nv P_nv /\
  exists L, from_proto ly_nv P_nv = Ok L /\ to_proto L = Ok P_nv /\ List.length (lib_layers L) = 3%nat.
Proof.
  split; [exact ly_nv_wf|]. destruct P_nv_ok as [A [B C]]. repeat (split; auto).
  eexists. split; [vm_compute; reflexivity|]. split; vm_compute; reflexivity.
Qed.

Check C14_raw_proto_raw :
  forall ord L ly0, perm_oracle ord -> proto_exportable L -> layers_wf ly0 ->
    exists P L', to_proto_with export_rotation ord L = Ok P /\ from_proto ly0 P = Ok L' /\ raw_equiv_grouped L L'.
Check C14_proto_raw_proto :
  forall ly0 P L, layers_wf ly0 -> proto_typed P -> deps_first P -> canonical ly0 P ->
    from_proto ly0 P = Ok L -> to_proto L = Ok P.
Check C14_export_deps_first :
  forall xrot ord L P, to_proto_with xrot ord L = Ok P -> deps_first P.
Check C14_export_import_no_undefined :
  forall xrot ord L P ly0 e, to_proto_with xrot ord L = Ok P -> from_proto ly0 P = Err e -> e <> undefined_msg.
Check C14_import_content :
  forall ly0 P L, layers_wf ly0 -> abs_layers_distinct P -> proto_typed P -> from_proto ly0 P = Ok L ->
    raw_content L = proto_content P /\ layers_wf (lib_layers L) /\ ly_ext ly0 (lib_layers L).
Check C14_raw_proto_raw_orig_refuted :
  ~ (forall ord L ly0, perm_oracle ord -> proto_exportable L -> layers_wf ly0 ->
       exists P L', to_proto_with export_rotation_orig ord L = Ok P /\ from_proto ly0 P = Ok L' /\ raw_equiv_grouped L L').

Print Assumptions C14_raw_proto_raw.
Print Assumptions C14_raw_proto_raw_code.
Print Assumptions C14_sorted_by_layer_perm.
Print Assumptions C14_import_content.
Print Assumptions C14_export_content.
Print Assumptions C14_spec_group_idempotent.
Print Assumptions C14_proto_raw_proto.
Print Assumptions C14_import_total.
Print Assumptions C14_export_deps_first.
Print Assumptions C14_import_no_undefined.
Print Assumptions C14_export_import_no_undefined.
Print Assumptions C14_undefined_exists.
Print Assumptions C14_dep_order_sound.
Print Assumptions C14_export_rotation_exact.
Print Assumptions C14_export_rotation_error.
Print Assumptions C14_f64_int_of_int.
Print Assumptions C14_export_cyclic_error.
Print Assumptions C14_export_pico_panics.
Print Assumptions C14_raw_proto_raw_orig_witness.
Print Assumptions C14_raw_proto_raw_orig_refuted.
Print Assumptions C14_proto_raw_proto_orig_witness.
Print Assumptions C14_proto_raw_proto_orig_refuted.
Print Assumptions C14_raw_proto_raw_nonvacuous.
Print Assumptions C14_proto_raw_proto_nonvacuous.
