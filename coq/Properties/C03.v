(** C03 -- Every grammar-conformant GDSII stream is read to exactly the content it encodes.
    Property theorems only; proofs in Gds/GdsRtRead_proofs.v (the reader on encoded records),
    Gds/GdsRoundtrip_proofs.v, Gds/GdsRtSpec_proofs.v (specification side), Gds/GdsRtUnsupp_proofs.v.

    Streams: [spec_render l] of the independent specification Gds/GdsSpec.v (reference encoder,
    written from the format manual), followed by ARBITRARY bytes [tail] (tape-block padding).
    Reader model: Gds/GdsRead.v, [read_lib] = gds21 `GdsLibrary::from_bytes`, with the fuel
    [read_fuel] (3 + length/4) computed from the input. Vocabulary ([lib_ok], [KnownClass_C01],
    [some_payload_too_long], [lib_canon], [lib_rust_eqb]): see Properties/C02.v.
    The reference encoding exists only when every payload fits the 16-bit record length, hence the
    hypothesis [some_payload_too_long l = false]. *)
From Coq Require Import ZArith Bool List.
From L21 Require Import Base.Outcome Base.Hex Base.F64 Gds.GdsData Gds.GdsRecord Gds.GdsWrite Gds.GdsRead
  Gds.GdsSpec Gds.GdsRtDefs Gds.GdsRtStrip Gds.GdsRtExamples Gds.GdsWTables_proofs Gds.GdsWrite_proofs Gds.GdsWFits_proofs
  Gds.GdsRoundtrip_proofs Gds.GdsRtSpec_proofs Gds.GdsRtUnsupp_proofs Gds.GdsRtUnsuppKind_proofs Gds.GdsRtStrip_proofs.
Import ListNotations.
Local Open Scope Z_scope.

Lemma C03_fits l : some_payload_too_long l = false -> lib_fitsb l = true.
Proof. intros H. rewrite GdsW_fits_iff_payloads, H. reflexivity. Qed.

(** (1) The reader reads the reference encoding of any library -- all seven element kinds, every
    subset of the optional records, property lists, empty / odd / even strings, any dates, any
    coordinates -- whatever bytes follow ENDLIB, to that library; a real-valued field holding
    -0.0 comes back as +0.0, everything else bit for bit. *)
Theorem C03_reads_reference :
  forall l tail, lib_ok l -> ~ KnownClass_C01 l -> some_payload_too_long l = false ->
    read_lib (spec_render l ++ tail) = Ok (lib_canon l).
Proof.
  intros l tail Hok Hk Hf. rewrite (GdsRtS_spec_render_encb l Hok), <- (GdsRt_readback_canon l Hok).
  apply GdsRt_reads_encoded; [apply GdsRt_lib_ok_shape, Hok | exact Hk | apply C03_fits, Hf].
Qed.
Corollary C03_reads_reference_eq :
  forall l tail, lib_ok l -> ~ KnownClass_C01 l -> some_payload_too_long l = false ->
    exists l', read_lib (spec_render l ++ tail) = Ok l' /\ lib_rust_eqb l l' = true.
Proof.
  intros l tail Hok Hk Hf. exists (lib_canon l).
  split; [apply C03_reads_reference; assumption | apply GdsRt_lib_ok_canon_rust_eq, Hok].
Qed.
Corollary C03_reads_reference_exact :
  forall l tail, lib_ok l -> ~ KnownClass_C01 l -> some_payload_too_long l = false ->
    (forall x, In x (lib_reals l) -> x <> two63) ->
    read_lib (spec_render l ++ tail) = Ok l.
Proof.
  intros l tail Hok Hk Hf Hz. rewrite (C03_reads_reference l tail Hok Hk Hf), (GdsRt_canon_no_negzero l Hz). reflexivity.
Qed.

(** (2) The specification is self-consistent: its decoder inverts its encoder (so the streams above
    do encode [l] "according to the grammar"), and the reference encoding is a well-formed stream. *)
Theorem C03_spec_self_consistent :
  forall l tail, lib_ok l -> ~ KnownClass_C01 l -> some_payload_too_long l = false ->
    spec_parse (spec_render l ++ tail) = Some (lib_canon l) /\ stream_wf (spec_render l ++ tail).
Proof.
  intros l tail Hok Hk Hf. split.
  - apply GdsRtS_spec_parse_render; [exact Hok | exact Hk | apply C03_fits, Hf].
  - apply GdsRtS_stream_wf_render; [exact Hok | exact Hk | apply C03_fits, Hf].
Qed.
(** hence reader and reference decoder agree on every reference stream *)
Corollary C03_reader_agrees_with_spec :
  forall l tail, lib_ok l -> ~ KnownClass_C01 l -> some_payload_too_long l = false ->
    exists l', read_lib (spec_render l ++ tail) = Ok l' /\ spec_parse (spec_render l ++ tail) = Some l'.
Proof.
  intros l tail Hok Hk Hf. exists (lib_canon l). split.
  - apply C03_reads_reference; assumption.
  - apply C03_spec_self_consistent; assumption.
Qed.

(** (2') For EVERY library (also inside the known class): reader and reference decoder both return
    [lib_canon (lib_strip l)], i.e. [l] with the last byte removed from every string of even length
    ending in NUL ([lib_strip], Gds/GdsRtStrip.v; [lib_strip l = l] outside the class); the stream is
    well formed. *)
Theorem C03_reads_reference_total :
  forall l tail, lib_ok l -> some_payload_too_long l = false ->
    read_lib (spec_render l ++ tail) = Ok (lib_canon (lib_strip l)) /\
    spec_parse (spec_render l ++ tail) = Some (lib_canon (lib_strip l)) /\ stream_wf (spec_render l ++ tail).
Proof.
  intros l tail Hok Hf. split.
  - rewrite (GdsRtS_spec_render_encb l Hok), <- (GdsRtP_readback_strip_canon l Hok).
    apply GdsRtP_reads_encoded_total; [apply GdsRt_lib_ok_shape, Hok | apply C03_fits, Hf].
  - apply GdsRtP_spec_parse_total; [exact Hok | apply C03_fits, Hf].
Qed.

(** (3) Streams that use the library-level features documented as unsupported: any of LIBDIRSIZE,
    SRFNAME, LIBSECUR between BGNLIB and LIBNAME, any of REFLIBS, FONTS, ATTRTABLE, GENERATIONS,
    FORMAT, MASK, ENDMASKS between LIBNAME and UNITS, with ANY payload, in any number: the answer
    is an error, never a library. ([optrec] / [optrec_srec]: Gds/GdsRtDefs.v, GdsSpec.v [x_...].) *)
Theorem C03_unsupported_is_error :
  forall l (pre post : list optrec) tail,
    lib_ok l -> ~ KnownClass_C01 l -> some_payload_too_long l = false -> pre ++ post <> [] ->
    exists e, read_lib (spec_render_with (map optrec_srec pre) (map optrec_srec post) l ++ tail) = Err e.
Proof.
  intros l pre post tail Hok Hk Hf Hne. apply GdsRt_unsupported_is_error; [exact Hok | exact Hk | apply C03_fits, Hf | exact Hne].
Qed.

(** (3') ... and the error is `GdsError::Unsupported` when the optional records are ones gds21's
    record decoder accepts ([optrec_goodb], Gds/GdsRtUnsuppKind_proofs.v: integers in i16 range,
    strings valid UTF-8 that fit and are outside the known class, LIBSECUR with exactly one integer
    as gds21's arm `(LibSecur, I16, 2)` has it): the kind is decided by the FIRST optional record
    ([optrec_error]: `Unsupported` for the eight documented types, `Parse` for a MASK / ENDMASKS
    that does not follow FORMAT). *)
Theorem C03_unsupported_kind :
  forall l (pre post : list optrec) tail,
    lib_ok l -> ~ KnownClass_C01 l -> some_payload_too_long l = false ->
    forallb optrec_goodb (pre ++ post) = true -> pre ++ post <> [] ->
    read_lib (spec_render_with (map optrec_srec pre) (map optrec_srec post) l ++ tail) =
    Err (optrec_error (hd OEndMasks (pre ++ post))).
Proof.
  intros l pre post tail Hok Hk Hf Hg Hne. apply GdsRt_unsupported_kind; [exact Hok | exact Hk | apply C03_fits, Hf | exact Hg | exact Hne].
Qed.

(** (4) The excluded class: the reference encoding of a library named "a\0" is 61 00, read as "a". *)
Theorem C03_known_class_refuted :
  exists l tail, lib_ok l /\ KnownClass_C01 l /\ some_payload_too_long l = false /\
    exists l', read_lib (spec_render l ++ tail) = Ok l' /\ lib_rust_eqb l l' = false.
Proof.
  exists GdsRt_known_lib, [0; 0; 255]. split; [vm_compute; reflexivity|]. split; [vm_compute; reflexivity|].
  split; [vm_compute; reflexivity|]. exists GdsRt_known_lib_read. split; vm_compute; reflexivity.
Qed.

(** Non-vacuity: the library with every element kind and every optional field (and none) meets the
    hypotheses and is read back from its reference encoding followed by garbage, by computation;
    each optional library-level record gives the `Unsupported` error by computation. *)
Example C03_nonvacuous :
  lib_okb GdsRt_full_lib = true /\ known_class_c01b GdsRt_full_lib = false /\
  some_payload_too_long GdsRt_full_lib = false /\
  (match read_lib (spec_render GdsRt_full_lib ++ [0; 0; 7; 255; 0; 4; 4; 0]) with
   | Ok l' => lib_eqb l' GdsRt_full_lib | _ => false end) = true /\
  lib_okb GdsRt_negzero_lib = true /\ some_payload_too_long GdsRt_negzero_lib = false /\
  (match read_lib (spec_render GdsRt_negzero_lib) with
   | Ok l' => lib_eqb l' (lib_canon GdsRt_negzero_lib) && negb (lib_eqb l' GdsRt_negzero_lib) && lib_rust_eqb l' GdsRt_negzero_lib
   | _ => false end) = true /\
  lib_okb GdsRt_max_xy_lib = true /\ some_payload_too_long GdsRt_max_xy_lib = false /\
  forallb (fun o => match read_lib (spec_render_with (map optrec_srec (fst o)) (map optrec_srec (snd o)) GdsRt_full_lib) with
                    | Err EUnsupported => true | _ => false end)
          [([OLibDirSize 3], []); ([OSrfName [83; 82]], []); ([OLibSecur [1]], []);
           ([], [ORefLibs [108; 105; 98; 0]]); ([], [OFonts [70]]); ([], [OAttrTable [65]]);
           ([], [OGenerations 3]); ([], [OFormat 0])] = true /\
  forallb optrec_goodb [OLibDirSize 3; OSrfName [83; 82]; OLibSecur [1]; ORefLibs [108; 105; 98]; OFonts [70];
                        OAttrTable [65]; OGenerations 3; OFormat 1; OMask [49; 32; 53]; OEndMasks] = true.
Proof. vm_compute. repeat split; reflexivity. Qed.

(** statements pinned *)
Check C03_reads_reference :
  forall l tail, lib_ok l -> ~ KnownClass_C01 l -> some_payload_too_long l = false ->
    read_lib (spec_render l ++ tail) = Ok (lib_canon l).
Check C03_reads_reference_eq :
  forall l tail, lib_ok l -> ~ KnownClass_C01 l -> some_payload_too_long l = false ->
    exists l', read_lib (spec_render l ++ tail) = Ok l' /\ lib_rust_eqb l l' = true.
Check C03_reads_reference_exact :
  forall l tail, lib_ok l -> ~ KnownClass_C01 l -> some_payload_too_long l = false ->
    (forall x, In x (lib_reals l) -> x <> two63) -> read_lib (spec_render l ++ tail) = Ok l.
Check C03_spec_self_consistent :
  forall l tail, lib_ok l -> ~ KnownClass_C01 l -> some_payload_too_long l = false ->
    spec_parse (spec_render l ++ tail) = Some (lib_canon l) /\ stream_wf (spec_render l ++ tail).
Check C03_reads_reference_total :
  forall l tail, lib_ok l -> some_payload_too_long l = false ->
    read_lib (spec_render l ++ tail) = Ok (lib_canon (lib_strip l)) /\
    spec_parse (spec_render l ++ tail) = Some (lib_canon (lib_strip l)) /\ stream_wf (spec_render l ++ tail).
Check C03_unsupported_is_error :
  forall l (pre post : list optrec) tail,
    lib_ok l -> ~ KnownClass_C01 l -> some_payload_too_long l = false -> pre ++ post <> [] ->
    exists e, read_lib (spec_render_with (map optrec_srec pre) (map optrec_srec post) l ++ tail) = Err e.
Check C03_unsupported_kind :
  forall l (pre post : list optrec) tail,
    lib_ok l -> ~ KnownClass_C01 l -> some_payload_too_long l = false ->
    forallb optrec_goodb (pre ++ post) = true -> pre ++ post <> [] ->
    read_lib (spec_render_with (map optrec_srec pre) (map optrec_srec post) l ++ tail) =
    Err (optrec_error (hd OEndMasks (pre ++ post))).
Check C03_known_class_refuted :
  exists l tail, lib_ok l /\ KnownClass_C01 l /\ some_payload_too_long l = false /\
    exists l', read_lib (spec_render l ++ tail) = Ok l' /\ lib_rust_eqb l l' = false.

Print Assumptions C03_reads_reference.
Print Assumptions C03_reads_reference_eq.
Print Assumptions C03_reads_reference_exact.
Print Assumptions C03_spec_self_consistent.
Print Assumptions C03_reader_agrees_with_spec.
Print Assumptions C03_reads_reference_total.
Print Assumptions C03_unsupported_is_error.
Print Assumptions C03_unsupported_kind.
Print Assumptions C03_known_class_refuted.
