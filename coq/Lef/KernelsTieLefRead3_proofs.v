(** Tie (a) of DESIGN.md 2.3 for the LEF parser, third part (family "lef_parse3", properties C04, C05, C11): the definitions generated from
    lef21/src/read.rs `LefParser::parse_layer_geometries` (the two loops: the options of the LAYER statement, the body with PATH / POLYGON / RECT / VIA / WIDTH;
    derive_builder of `LefLayerGeometries`), `parse_via_shape`, `parse_via_layer_geometries`, `parse_obstructions`, `parse_port`,
    `parse_property_definition_tail` and `parse_property_definitions` (Gen/KernelsLefRead2Gen.v, unit "lefr2"), read as in Lef/KernelsInstLefRead2.v,
    EQUAL the functions of the same names of Lef/LefParse.v ([layer_opts_loop], [layer_body_loop], [via_layer_loop], [obs_loop], [port_loop],
    [propdefs_loop]), the error value apart; the functions they call are rewritten by their own ties (family lef_parse2).  Stated for the reader as it
    is now ([cfr_now]: `parse_point_list` stops at the first non-number).
    Naming: a helper lemma `tie_<fn>_loop` / `tie_<fn>_opts_loop` / `tie_<fn>_body_loop` belongs to the published theorem `Ktie_<fn>`. *)
From Coq Require Import ZArith Bool List String Lia.
From L21 Require Import Lef.LefDec Lef.LefData Lef.LefLex Lef.LefParse.
From L21 Require Import Base.KernelOps Base.KernelOpsX Base.KernelOpsS Base.KernelOpsL Base.Outcome Gen.KernelsLefRead2Gen.
From L21 Require Import Lef.KernelsInstLefRead.
From L21 Require Lef.KernelsTieLefRead_proofs.
From L21 Require Import Lef.KernelsInstLefRead2.
From L21 Require Lef.KernelsTieLefRead2_proofs.
Import ListNotations.
Local Open Scope Z_scope.
Module R := Lef.KernelsTieLefRead_proofs.
Module R2 := Lef.KernelsTieLefRead2_proofs.
Import R2(lres, lmap, unctrl, MG_key, MG_tty, MG_tok, MG_ctx, map_MG_ctx, MG_point).

Lemma MG_pclass : forall x, MLefPortClass (GLefPortClass x) = x.
Proof. destruct x; reflexivity. Qed.
Lemma MG_pdobj : forall x, MLefPropertyDefinitionObjectType (GLefPropertyDefinitionObjectType x) = x.
Proof. destruct x; reflexivity. Qed.

Section Ties.
Variable cf : cfg.
Variable src : bytes.
Hypothesis Hcf : cfr_now cf.
Local Notation lu := (@lunit _).
Definition fail_lu := R2.fail_lu cf src.
Definition fail_back := R2.fail_back cf src.
Definition bind_ret_id := R2.bind_ret_id.
Definition len_lt := R2.len_lt.
Ltac ls := cbn [lm_xops kx_base lm_kops k_bind k_ret k_panic k_fail i_lt i_lit v_len]; unfold lm_bind, lm_ret, lm_pan.
Ltac xs := unfold x_advance, x_matches, x_expect, x_peek_key, x_get_key, x_expect_key, x_parse_ident, x_parse_number, x_parse_point, x_try_new, x_enum, x_txt,
  x_peek_token, lmU, lmG; cbn [MLefKey Mtty].
Ltac red1 := cbn [lunit backl omap obind fst snd option_map].
Ltac mstep :=
  match goal with
  | |- context [lunit ?X] =>
    lazymatch X with
    | context [match _ with _ => _ end] => fail
    | lmap _ _ => fail
    | _ => destruct X as [[? ?]| | | |]
    end
  end; red1; try reflexivity.
Ltac ur := repeat match goal with u : unit |- _ => destruct u end; try reflexivity.
Ltac flt := cbn [k_fail lm_xops]; unfold lm_fail, LefParse.fail, fail_msg;
  match goal with |- context [state cf src ?st] => destruct (state cf src st) as [[[[? ?] ?] ?]|]; reflexivity end.
Ltac bstep := match goal with |- context [matches ?t ?s] => destruct (matches t s) end; cbn [negb]; red1; try reflexivity.
Ltac keq := repeat match goal with |- context [LefKey_eqb ?a ?b] => let v := eval vm_compute in (LefKey_eqb a b) in change (LefKey_eqb a b) with v end; cbn beta iota.
Ltac kcase k := destruct k; cbn [GLefKey gLefKey_eqb]; keq; red1; try reflexivity.
Ltac fl := try (cbn [k_fail lm_xops]; first [ rewrite (fail_lu _ EtInvalidKey) | idtac ]; reflexivity).
Ltac foldloop run := match goal with |- context [k_loop ?a ?b ?c ?d ?e ?st] => change (k_loop a b c d e st) with (run c e st) end.
Ltac useloop P := match type of P with backl _ ?L = lunit (lmap Some ?Rr) => destruct L as [[[?|?] ?]| | |]; destruct Rr as [[? ?]| | | |] end;
  cbn [backl omap obind lunit lmap fst snd unctrl] in P; try discriminate P; red1; ur; try (inversion P; subst; clear P).
Ltac usetie T al := match goal with p : pst |- _ => let E := fresh "E" in pose proof (T p) as E; unfold al in E;
  match type of E with backl _ ?L = lunit ?Rr => (match goal with |- context [L] => idtac end); destruct L as [[? ?]| | |]; destruct Rr as [[? ?]| | | |] end;
  cbn [backl omap obind lunit fst snd] in E; try discriminate E; red1; ur; try (inversion E; subst; clear E) end.
Ltac rwtie T al := let E := fresh "E" in pose proof T as E; unfold al in E; rewrite E; clear E.


Ltac foldg := repeat first [ fail
  | progress change (g_LefParser_parse_units ?a0 ?a1 ?a2 ?a3 ?a4 ?a5 ?a6 ?a7 ?a8 ?a9 ?a10 ?a11) with (g_parse_units cf src)
  | progress change (g_LefParser_parse_size ?a0 ?a1 ?a2 ?a3 ?a4) with (g_parse_size cf src)
  | progress change (g_LefParser_parse_symmetries ?a0 ?a1 ?a2 ?a3 ?a4 ?a5 ?a6) with (g_parse_symmetries cf src)
  | progress change (g_LefParser_parse_macro_class ?a0 ?a1 ?a2 ?a3 ?a4 ?a5 ?a6 ?a7 ?a8) with (g_parse_macro_class cf src)
  | progress change (g_LefParser_expect_and_get_str ?a0 ?a1 ?a2 ?a3) with (g_expect_and_get_str cf src)
  | progress change (g_LefParser_get_name ?a0 ?a1 ?a2 ?a3) with (g_get_name cf src)
  | progress change (g_LefParser_expect_ident ?a0 ?a1 ?a2 ?a3 ?a4) with (g_expect_ident cf src)
  | progress change (g_LefParser_parse_site_def ?a0 ?a1 ?a2 ?a3 ?a4 ?a5 ?a6 ?a7 ?a8 ?a9 ?a10 ?a11 ?a12 ?a13 ?a14 ?a15 ?a16 ?a17 ?a18) with (g_parse_site_def cf src)
  | progress change (g_LefParser_peek_token ?a0) with (g_peek_token cf src)
  | progress change (g_LefParser_parse_property ?a0 ?a1 ?a2 ?a3 ?a4 ?a5 ?a6 ?a7 ?a8 ?a9 ?a10) with (g_parse_property cf src)
  | progress change (g_LefParser_parse_pin_direction ?a0 ?a1 ?a2 ?a3 ?a4) with (g_parse_pin_direction cf src)
  | progress change (g_LefParser_parse_geometry_mask ?a0 ?a1 ?a2 ?a3 ?a4 ?a5) with (g_parse_geometry_mask cf src)
  | progress change (g_LefParser_parse_iterate ?a0 ?a1 ?a2 ?a3) with (g_parse_iterate cf src)
  | progress change (g_LefParser_parse_step_pattern ?a0 ?a1 ?a2 ?a3) with (g_parse_step_pattern cf src)
  | progress change (g_LefParser_parse_point_list ?a0 ?a1 ?a2 ?a3 ?a4 ?a5) with (g_parse_point_list cf src)
  | progress change (g_LefParser_parse_geometry_tail ?a0 ?a1 ?a2 ?a3 ?a4) with (g_parse_geometry_tail cf src)
  | progress change (g_LefParser_parse_geometry ?a0 ?a1 ?a2 ?a3 ?a4 ?a5 ?a6 ?a7 ?a8 ?a9 ?a10 ?a11) with (g_parse_geometry cf src)
  | progress change (g_LefParser_parse_layer_geometries ?a0 ?a1 ?a2 ?a3 ?a4 ?a5 ?a6 ?a7 ?a8 ?a9 ?a10 ?a11 ?a12 ?a13 ?a14 ?a15 ?a16 ?a17) with (g_parse_layer_geometries cf src)
  | progress change (g_LefParser_parse_via_shape ?a0 ?a1 ?a2 ?a3 ?a4 ?a5 ?a6 ?a7 ?a8 ?a9 ?a10) with (g_parse_via_shape cf src)
  | progress change (g_LefParser_parse_via_layer_geometries ?a0 ?a1 ?a2 ?a3 ?a4 ?a5 ?a6 ?a7 ?a8 ?a9 ?a10 ?a11 ?a12 ?a13 ?a14 ?a15 ?a16 ?a17) with (g_parse_via_layer_geometries cf src)
  | progress change (g_LefParser_parse_obstructions ?a0 ?a1 ?a2 ?a3 ?a4 ?a5 ?a6 ?a7 ?a8 ?a9 ?a10 ?a11 ?a12 ?a13 ?a14 ?a15 ?a16 ?a17) with (g_parse_obstructions cf src)
  | progress change (g_LefParser_parse_port ?a0 ?a1 ?a2 ?a3 ?a4 ?a5 ?a6 ?a7 ?a8 ?a9 ?a10 ?a11 ?a12 ?a13 ?a14 ?a15 ?a16 ?a17 ?a18) with (g_parse_port cf src)
  | progress change (g_LefParser_parse_property_definition_tail ?a0 ?a1 ?a2 ?a3 ?a4 ?a5) with (g_parse_property_definition_tail cf src)
  | progress change (g_LefParser_parse_property_definitions ?a0 ?a1 ?a2 ?a3 ?a4 ?a5 ?a6 ?a7 ?a8 ?a9 ?a10 ?a11 ?a12 ?a13 ?a14 ?a15) with (g_parse_property_definitions cf src) ].
Ltac usetie1 T := match goal with p : pst |- _ => let E := fresh "E" in pose proof (T p) as E;
  match type of E with backl _ ?L = lunit ?Rr => (match goal with |- context [L] => idtac end); destruct L as [[? ?]| | |]; destruct Rr as [[? ?]| | | |] end;
  cbn [backl omap obind lunit fst snd] in E; try discriminate E; red1; ur; try (inversion E; subst; clear E) end.

(** ** parse_via_shape *)
Lemma tie_parse_via_shape : forall s, backl Mvia_shape (g_parse_via_shape cf src s) = lunit (parse_via_shape cf src s).
Proof.
  intros s. unfold g_parse_via_shape, g_LefParser_parse_via_shape, g_LefMask_new, parse_via_shape, parse_via_mask, expect_semi, bind, get, ret. ls. foldg. unfold x_peek_key at 1. unfold lmG. mstep.
  destruct l; cbn [GLefKey]; red1; try apply fail_back.
  - (* POLYGON *) xs. mstep. bstep.
    + mstep. kcase l; try flt. mstep.
      usetie1 (R2.tie_parse_point_list cf src Hcf). unfold when.
      change 3 with (Z.of_nat 3). rewrite (len_lt _ _ Mpoint). destruct (Nat.ltb (List.length (map Mpoint l)) 3); [flt|]. unfold ret. red1. repeat mstep.
    + usetie1 (R2.tie_parse_point_list cf src Hcf). unfold when.
      change 3 with (Z.of_nat 3). rewrite (len_lt _ _ Mpoint). destruct (Nat.ltb (List.length (map Mpoint l)) 3); [flt|]. unfold ret. red1. repeat mstep.
  - (* RECT *) xs. mstep. bstep.
    + mstep. kcase l; try flt. repeat mstep. cbn [Mvia_shape Mmask option_map gLefMask_mask]. rewrite !MG_point. reflexivity.
    + repeat mstep. cbn [Mvia_shape Mmask option_map]. rewrite !MG_point. reflexivity.
Qed.

Ltac pstep := unfold g_peek_token, g_LefParser_peek_token, x_peek_token; match goal with |- context [peek_token ?s] => destruct (peek_token s) end; cbn [option_map]; red1; try reflexivity.

(** ** parse_via_layer_geometries *)
Definition vl_run (f : nat) (acc : list (gLefViaShape dec unit Z)) (s : pst) := k_loop lm_kops (lm_nofuel _) f (fun fuel st => g_parse_via_layer_geometries_loop1 cf src fuel st) acc s.
Lemma tie_parse_via_layer_geometries_loop : forall f s acc,
  backl (unctrl (fun _ => None) (fun l => Some (map Mvia_shape l))) (vl_run f acc s) = lunit (lmap Some (via_layer_loop cf src f (map Mvia_shape acc) s)).
Proof.
  induction f as [|f IH]; intros s acc; unfold vl_run; [reflexivity|].
  cbn [k_loop via_layer_loop]. ls. unfold g_parse_via_layer_geometries_loop1 at 1. unfold g_LefParser_parse_via_layer_geometries_loop1 at 1. ls. foldg. unfold bind, get, ret.
  pstep. unfold x_peek_key at 1. unfold lmG. mstep.
  destruct l; cbn [GLefKey]; red1; try flt; try reflexivity.
  - usetie1 tie_parse_via_shape.
    match goal with |- context [k_loop _ _ _ _ (?ac ++ [?x]) ?q] => pose proof (IH q (ac ++ [x])) as Q end; unfold vl_run in Q; rewrite map_app in Q; exact Q.
  - usetie1 tie_parse_via_shape.
    match goal with |- context [k_loop _ _ _ _ (?ac ++ [?x]) ?q] => pose proof (IH q (ac ++ [x])) as Q end; unfold vl_run in Q; rewrite map_app in Q; exact Q.
Qed.
Lemma tie_parse_via_layer_geometries : forall s, backl Mvia_layer_geoms (g_parse_via_layer_geometries cf src s) = lunit (parse_via_layer_geometries cf src s).
Proof.
  intros s. unfold g_parse_via_layer_geometries, g_LefParser_parse_via_layer_geometries, parse_via_layer_geometries, expect_semi, bind, push, pop, get, ret.
  unfold g_LefViaLayerGeometriesBuilder_layer_name, g_LefViaLayerGeometriesBuilder_shapes, g_LefViaLayerGeometriesBuilder_build. ls.
  unfold x_get at 1. unfold x_put at 1. cbn [gLefParser_ctx]. rewrite map_app, map_MG_ctx. cbn [map Mctx].
  unfold x_expect_key at 1. unfold x_parse_ident at 1. unfold x_expect at 1. unfold lmU, lmG. cbn [MLefKey Mtty]. mstep. mstep. mstep.
  unfold x_fuel at 1. foldloop vl_run.
  match goal with |- context [vl_run ?f ?e ?q] => pose proof (tie_parse_via_layer_geometries_loop f q e) as P end. cbn [map] in P. useloop P.
  unfold g_LefViaLayerGeometriesBuilder_layer_name, g_LefViaLayerGeometriesBuilder_shapes, g_LefViaLayerGeometriesBuilder_build. ls.
  cbn [gLefViaLayerGeometriesBuilder_layer_name gLefViaLayerGeometriesBuilder_shapes].
  unfold x_get, x_put. cbn [gLefParser_ctx]. unfold k_pop. rewrite R.removelast_map, map_MG_ctx. reflexivity.
Qed.

(** ** parse_property_definition_tail, parse_property_definitions *)
Definition Mtail (x : option dec * option (gLefPropertyRange dec unit Z)) : option dec * option (dec * dec) := (fst x, option_map Mrange (snd x)).
Lemma tie_parse_property_definition_tail : forall s, backl Mtail (g_parse_property_definition_tail cf src s) = lunit (parse_property_definition_tail cf src s).
Proof.
  intros s. unfold g_parse_property_definition_tail, g_LefParser_parse_property_definition_tail, parse_property_definition_tail, expect_semi, bind, get, ret. ls. xs.
  bstep.
  - mstep. mstep. mstep. bstep; repeat mstep.
  - bstep; repeat mstep.
Qed.
Definition pd_run (f : nat) (acc : list (gLefPropertyDefinition dec bytes unit Z)) (s : pst) := k_loop lm_kops (lm_nofuel _) f (fun fuel st => g_parse_property_definitions_loop1 cf src fuel st) acc s.
Lemma tie_parse_property_definitions_loop : forall f s acc,
  backl (unctrl (fun _ => None) (fun l => Some (map Mpropdef l))) (pd_run f acc s) = lunit (lmap Some (propdefs_loop cf src f (map Mpropdef acc) s)).
Proof.
  induction f as [|f IH]; intros s acc; unfold pd_run; [reflexivity|].
  cbn [k_loop propdefs_loop]. ls. unfold g_parse_property_definitions_loop1 at 1. unfold g_LefParser_parse_property_definitions_loop1 at 1. ls. foldg. unfold expect_semi, bind, get, ret.
  unfold x_peek_key at 1. unfold lmG. mstep.
  destruct l; cbn [GLefKey]; red1; try flt.
  all: try (unfold x_enum at 1; unfold lmG; mstep; rewrite (R2.tie_get_name cf src); mstep; unfold x_get_key at 1; unfold lmG; mstep;
    (destruct l0; cbn [GLefKey]; red1; try flt);
    [ xs; bstep; repeat (mstep; rewrite ?MG_tok);
      match goal with |- context [k_loop _ _ _ _ (?ac ++ [?x]) ?q] => pose proof (IH q (ac ++ [x])) as Q end; unfold pd_run in Q; rewrite map_app in Q; cbn [map Mpropdef] in Q; rewrite MG_pdobj in Q; exact Q
    | usetie1 tie_parse_property_definition_tail; repeat match goal with x : (option dec * _)%type |- _ => destruct x end; cbn [Mtail fst snd]; red1;
      match goal with |- context [k_loop _ _ _ _ (?ac ++ [?x]) ?q] => pose proof (IH q (ac ++ [x])) as Q end; unfold pd_run in Q; rewrite map_app in Q; cbn [map Mpropdef] in Q; rewrite MG_pdobj in Q; exact Q
    | usetie1 tie_parse_property_definition_tail; repeat match goal with x : (option dec * _)%type |- _ => destruct x end; cbn [Mtail fst snd]; red1;
      match goal with |- context [k_loop _ _ _ _ (?ac ++ [?x]) ?q] => pose proof (IH q (ac ++ [x])) as Q end; unfold pd_run in Q; rewrite map_app in Q; cbn [map Mpropdef] in Q; rewrite MG_pdobj in Q; exact Q ]).
  (* END *) xs. repeat mstep.
Qed.
Lemma tie_parse_property_definitions : forall s, backl (map Mpropdef) (g_parse_property_definitions cf src s) = lunit (parse_property_definitions cf src s).
Proof.
  intros s. unfold g_parse_property_definitions, g_LefParser_parse_property_definitions, parse_property_definitions, bind, push, pop, get, ret. ls.
  unfold x_get at 1. unfold x_put at 1. cbn [gLefParser_ctx]. rewrite map_app, map_MG_ctx. cbn [map Mctx].
  unfold x_expect_key at 1. unfold lmU. cbn [MLefKey]. mstep.
  unfold x_fuel at 1. foldloop pd_run.
  match goal with |- context [pd_run ?f ?e ?q] => pose proof (tie_parse_property_definitions_loop f q e) as P end. cbn [map] in P. useloop P.
  unfold x_get, x_put. cbn [gLefParser_ctx]. unfold k_pop. rewrite R.removelast_map, map_MG_ctx. reflexivity.
Qed.

(** ** parse_layer_geometries: the builder `LefLayerGeometriesBuilder` (name, options) and the two vectors are the loop states; the model keeps the record *)
Notation lgbuilder := (gLefLayerGeometriesBuilder dec bytes unit Z).
Definition jn {A : Type} (x : option (option A)) : option A := match x with Some v => v | None => None end.
Definition LGB (nm : bytes) (ex : option (option bool)) (sp : option (option (gLefLayerSpacing dec unit Z))) (w : option (option dec)) : lgbuilder :=
  mk_gLefLayerGeometriesBuilder dec bytes (Some nm) None None ex sp w.
Definition LGM (nm : bytes) (gs : list (gLefGeometry dec unit Z)) (vs : list (gLefVia dec bytes unit Z))
               (ex : option (option bool)) (sp : option (option (gLefLayerSpacing dec unit Z))) (w : option (option dec)) : lef_layer_geoms :=
  Build_lef_layer_geoms nm (map Mgeometry gs) (map Mvia vs) (jn ex) (option_map Mspacing (jn sp)) (jn w).
(** what the loops keep of a builder: its six fields, the options joined *)
Definition Bparts (b : lgbuilder) :=
  (gLefLayerGeometriesBuilder_layer_name dec bytes b, gLefLayerGeometriesBuilder_geometries dec bytes b, gLefLayerGeometriesBuilder_vias dec bytes b,
   (jn (gLefLayerGeometriesBuilder_except_pg_net dec bytes b), option_map Mspacing (jn (gLefLayerGeometriesBuilder_spacing dec bytes b)), jn (gLefLayerGeometriesBuilder_width dec bytes b))).
Definition Lparts (lg : lef_layer_geoms) := (lg_except_pg_net lg, lg_spacing lg, lg_width lg).
Definition lo_run (f : nat) (b : lgbuilder) (s : pst) := k_loop lm_kops (lm_nofuel _) f (fun fuel st => g_parse_layer_geometries_loop1 cf src fuel st) b s.
Lemma tie_parse_layer_geometries_opts_loop : forall f s nm ex sp w,
  backl (unctrl (fun _ => None) (fun b' => Some (Bparts b', @nil lef_geometry, @nil lef_via_inst))) (lo_run f (LGB nm ex sp w) s)
  = lunit (lmap (fun lg => Some (Some (lg_layer_name lg), None, None, Lparts lg, lg_geometries lg, lg_vias lg)) (layer_opts_loop cf src f (LGM nm [] [] ex sp w) s)).
Proof.
  induction f as [|f IH]; intros s nm ex sp w; unfold lo_run; [reflexivity|].
  cbn [k_loop layer_opts_loop]. ls. unfold g_parse_layer_geometries_loop1 at 1. unfold g_LefParser_parse_layer_geometries_loop1 at 1.
  unfold g_LefLayerGeometriesBuilder_except_pg_net, g_LefLayerGeometriesBuilder_spacing. ls. unfold bind, get, ret. xs.
  bstep. mstep.
  destruct l; cbn [GLefKey]; red1; try flt.
  - (* EXCEPTPGNET *) exact (IH _ nm (Some (Some true)) sp w).
  - (* DESIGNRULEWIDTH *) mstep. exact (IH _ nm ex (Some (Some (gLefLayerSpacing_DesignRuleWidth dec d))) w).
  - (* SPACING *) mstep. exact (IH _ nm ex (Some (Some (gLefLayerSpacing_Spacing dec d))) w).
Qed.

Lemma Mvia_G : forall b l, Mvia (mk_gLefVia dec bytes b (Gpoint l)) = Build_lef_via_inst b l.
Proof. intros. unfold Mvia. cbn [gLefVia_via_name gLefVia_pt]. rewrite MG_point. reflexivity. Qed.
Notation lbstate := (list (gLefGeometry dec unit Z) * list (gLefVia dec bytes unit Z) * lgbuilder)%type.
Definition lb_run (f : nat) (st : lbstate) (s : pst) := k_loop lm_kops (lm_nofuel _) f (fun fuel st => g_parse_layer_geometries_loop2 cf src fuel st) st s.
Definition Bview (st : lbstate) :=
  let '(g, v, b) := st in
  (map Mgeometry g, map Mvia v, (gLefLayerGeometriesBuilder_layer_name dec bytes b,
    (jn (gLefLayerGeometriesBuilder_except_pg_net dec bytes b), option_map Mspacing (jn (gLefLayerGeometriesBuilder_spacing dec bytes b)), jn (gLefLayerGeometriesBuilder_width dec bytes b)))).
Lemma tie_parse_layer_geometries_body_loop : forall f s nm gs vs ex sp w,
  backl (unctrl (fun _ => None) (fun st => Some (Bview st))) (lb_run f (gs, vs, LGB nm ex sp w) s)
  = lunit (lmap (fun lg => Some (lg_geometries lg, lg_vias lg, (Some (lg_layer_name lg), Lparts lg))) (layer_body_loop cf src f (LGM nm gs vs ex sp w) s)).
Proof.
  induction f as [|f IH]; intros s nm gs vs ex sp w; unfold lb_run; [reflexivity|].
  cbn [k_loop layer_body_loop]. ls. unfold g_parse_layer_geometries_loop2 at 1. unfold g_LefParser_parse_layer_geometries_loop2 at 1.
  unfold g_LefLayerGeometriesBuilder_width. ls. foldg. unfold expect_semi, bind, get, ret.
  pstep. unfold x_peek_key at 1. unfold lmG. mstep.
  destruct l; cbn [GLefKey]; red1; try flt; try reflexivity.
  - (* PATH *) usetie1 (R2.tie_parse_geometry cf src Hcf).
    match goal with |- context [k_loop _ _ _ _ (?g ++ [?x], _, _) ?q] => pose proof (IH q nm (g ++ [x]) vs ex sp w) as Q end. unfold lb_run, LGM in Q. rewrite map_app in Q. exact Q.
  - (* POLYGON *) usetie1 (R2.tie_parse_geometry cf src Hcf).
    match goal with |- context [k_loop _ _ _ _ (?g ++ [?x], _, _) ?q] => pose proof (IH q nm (g ++ [x]) vs ex sp w) as Q end. unfold lb_run, LGM in Q. rewrite map_app in Q. exact Q.
  - (* RECT *) usetie1 (R2.tie_parse_geometry cf src Hcf).
    match goal with |- context [k_loop _ _ _ _ (?g ++ [?x], _, _) ?q] => pose proof (IH q nm (g ++ [x]) vs ex sp w) as Q end. unfold lb_run, LGM in Q. rewrite map_app in Q. exact Q.
  - (* VIA *) xs. mstep. unfold when. bstep; [flt|]. unfold ret. red1. repeat mstep.
    match goal with |- context [k_loop _ _ _ _ (_, ?v ++ [?x], _) ?q] => pose proof (IH q nm gs (v ++ [x]) ex sp w) as Q end. unfold lb_run, LGM in Q. rewrite map_app in Q.
    cbn [map] in Q. rewrite Mvia_G in Q. exact Q.
  - (* WIDTH *) xs. repeat mstep. exact (IH _ nm gs vs ex sp (Some (Some d))).
Qed.

Lemma tie_parse_layer_geometries : forall s, backl Mlayer_geoms (g_parse_layer_geometries cf src s) = lunit (parse_layer_geometries cf src s).
Proof.
  intros s. unfold g_parse_layer_geometries, g_LefParser_parse_layer_geometries, parse_layer_geometries, expect_semi, bind, push, pop, get, ret.
  unfold g_LefLayerGeometriesBuilder_layer_name, g_LefLayerGeometriesBuilder_vias, g_LefLayerGeometriesBuilder_geometries, g_LefLayerGeometriesBuilder_build. ls.
  unfold x_get at 1. unfold x_put at 1. cbn [gLefParser_ctx]. rewrite map_app, map_MG_ctx. cbn [map Mctx].
  unfold x_expect_key at 1. unfold x_parse_ident at 1. unfold lmU. cbn [MLefKey]. mstep. mstep.
  cbn [gLefLayerGeometriesBuilder_layer_name gLefLayerGeometriesBuilder_geometries gLefLayerGeometriesBuilder_vias gLefLayerGeometriesBuilder_except_pg_net
       gLefLayerGeometriesBuilder_spacing gLefLayerGeometriesBuilder_width].
  unfold x_fuel at 1.
  match goal with |- context [k_loop ?a ?bb ?c ?d (mk_gLefLayerGeometriesBuilder _ _ (Some ?nm) None None None None None) ?st] =>
    change (k_loop a bb c d (mk_gLefLayerGeometriesBuilder dec bytes (Some nm) None None None None None) st) with (lo_run c (LGB nm None None None) st);
    pose proof (tie_parse_layer_geometries_opts_loop c st nm None None None) as P end.
  change (LGM b [] [] None None None) with (Build_lef_layer_geoms b [] [] None None None) in P.
  match type of P with backl _ ?L = lunit (lmap _ ?Rr) => destruct L as [[[?|bd] ?]| | |]; destruct Rr as [[lg ?]| | | |] end;
    cbn [backl omap obind lunit lmap fst snd unctrl] in P; try discriminate P; red1; ur.
  inversion P; subst; clear P. destruct bd as [bn bg bv bex bsp bw]. destruct lg as [ln lgs lvs lex lsp lw]. unfold Lparts in *.
  cbn [gLefLayerGeometriesBuilder_layer_name gLefLayerGeometriesBuilder_geometries gLefLayerGeometriesBuilder_vias gLefLayerGeometriesBuilder_except_pg_net
       gLefLayerGeometriesBuilder_spacing gLefLayerGeometriesBuilder_width lg_layer_name lg_geometries lg_vias lg_except_pg_net lg_spacing lg_width] in *. subst.
  unfold x_expect at 1. unfold lmG. cbn [Mtty]. mstep. unfold x_fuel at 1.
  match goal with |- context [k_loop ?a ?bb ?c ?d ?e ?st] =>
    change (k_loop a bb c d e st) with (lb_run c ([], [], LGB ln bex bsp bw) st); pose proof (tie_parse_layer_geometries_body_loop c st ln [] [] bex bsp bw) as P end.
  change (LGM ln [] [] bex bsp bw) with (Build_lef_layer_geoms ln [] [] (jn bex) (option_map Mspacing (jn bsp)) (jn bw)) in P.
  match type of P with backl _ ?L = lunit (lmap _ ?Rr) => destruct L as [[[?|[[g2 v2] bd]] ?]| | |]; destruct Rr as [[lg ?]| | | |] end;
    cbn [backl omap obind lunit lmap fst snd unctrl Bview] in P; try discriminate P; red1; ur.
  inversion P; subst; clear P. destruct bd as [bn bg bv bex2 bsp2 bw2]. destruct lg as [ln2 lgs lvs lex lsp lw]. unfold Lparts in *.
  cbn [gLefLayerGeometriesBuilder_layer_name gLefLayerGeometriesBuilder_geometries gLefLayerGeometriesBuilder_vias gLefLayerGeometriesBuilder_except_pg_net
       gLefLayerGeometriesBuilder_spacing gLefLayerGeometriesBuilder_width lg_layer_name lg_geometries lg_vias lg_except_pg_net lg_spacing lg_width] in *. subst.
  unfold x_get, x_put. cbn [gLefParser_ctx]. unfold k_pop. rewrite R.removelast_map, map_MG_ctx.
  unfold Mlayer_geoms, jn. cbn [gLefLayerGeometries_layer_name gLefLayerGeometries_geometries gLefLayerGeometries_vias gLefLayerGeometries_except_pg_net
       gLefLayerGeometries_spacing gLefLayerGeometries_width]. reflexivity.
Qed.

(** ** parse_obstructions, parse_port *)
Definition obs_run (f : nat) (acc : list (gLefLayerGeometries dec bytes unit Z)) (s : pst) := k_loop lm_kops (lm_nofuel _) f (fun fuel st => g_parse_obstructions_loop1 cf src fuel st) acc s.
Lemma tie_parse_obstructions_loop : forall f s acc,
  backl (unctrl (fun _ => None) (fun l => Some (map Mlayer_geoms l))) (obs_run f acc s) = lunit (lmap Some (obs_loop cf src f (map Mlayer_geoms acc) s)).
Proof.
  induction f as [|f IH]; intros s acc; unfold obs_run; [reflexivity|].
  cbn [k_loop obs_loop]. ls. unfold g_parse_obstructions_loop1 at 1. unfold g_LefParser_parse_obstructions_loop1 at 1. ls. foldg. unfold bind, get, ret.
  pstep. unfold x_peek_key at 1. unfold lmG. mstep.
  destruct l; cbn [GLefKey]; red1; try flt.
  - (* END *) xs. mstep.
  - (* LAYER *) usetie1 tie_parse_layer_geometries.
    match goal with |- context [k_loop _ _ _ _ (?ac ++ [?x]) ?q] => pose proof (IH q (ac ++ [x])) as Q end; unfold obs_run in Q; rewrite map_app in Q; exact Q.
Qed.
Lemma tie_parse_obstructions : forall s, backl (map Mlayer_geoms) (g_parse_obstructions cf src s) = lunit (parse_obstructions cf src s).
Proof.
  intros s. unfold g_parse_obstructions, g_LefParser_parse_obstructions, parse_obstructions, bind, get. ls. unfold x_expect_key at 1. unfold lmU. cbn [MLefKey]. mstep.
  unfold x_fuel at 1. foldloop obs_run.
  match goal with |- context [obs_run ?f ?e ?q] => pose proof (tie_parse_obstructions_loop f q e) as P end. cbn [map] in P. useloop P. reflexivity.
Qed.

Notation portstate := (option (gLefPortClass unit Z) * list (gLefLayerGeometries dec bytes unit Z))%type.
Definition port_run (f : nat) (st : portstate) (s : pst) := k_loop lm_kops (lm_nofuel _) f (fun fuel st => g_parse_port_loop1 cf src fuel st) st s.
Lemma tie_parse_port_loop : forall f s c ls,
  backl (unctrl (fun _ => None) (fun st : portstate => Some (Build_lef_port (option_map MLefPortClass (fst st)) (map Mlayer_geoms (snd st))))) (port_run f (c, ls) s)
  = lunit (lmap Some (port_loop cf src f (option_map MLefPortClass c) (map Mlayer_geoms ls) s)).
Proof.
  induction f as [|f IH]; intros s c lys; unfold port_run; [reflexivity|].
  cbn [k_loop port_loop]. ls. unfold g_parse_port_loop1 at 1. unfold g_LefParser_parse_port_loop1 at 1. ls. foldg. unfold expect_semi, bind, get, ret.
  unfold x_peek_key at 1. unfold lmG. mstep.
  destruct l; cbn [GLefKey]; red1; try flt.
  - (* END *) xs. mstep.
  - (* LAYER *) usetie1 tie_parse_layer_geometries.
    match goal with |- context [k_loop _ _ _ _ (_, ?ac ++ [?x]) ?q] => pose proof (IH q c (ac ++ [x])) as Q end; unfold port_run in Q; rewrite map_app in Q; exact Q.
  - (* CLASS *) xs. repeat mstep.
    match goal with |- context [k_loop _ _ _ _ (Some (GLefPortClass ?x), _) ?q] => pose proof (IH q (Some (GLefPortClass x)) lys) as Q end; unfold port_run in Q; cbn [option_map] in Q; rewrite MG_pclass in Q; exact Q.
Qed.
Lemma tie_parse_port : forall s, backl Mport (g_parse_port cf src s) = lunit (parse_port cf src s).
Proof.
  intros s. unfold g_parse_port, g_LefParser_parse_port, parse_port, bind, push, pop, get, ret. ls.
  unfold x_get at 1. unfold x_put at 1. cbn [gLefParser_ctx]. rewrite map_app, map_MG_ctx. cbn [map Mctx].
  unfold x_expect_key at 1. unfold lmU. cbn [MLefKey]. mstep.
  unfold x_fuel at 1. foldloop port_run.
  match goal with |- context [port_run ?f ?e ?q] => pose proof (tie_parse_port_loop f q None []) as P end. cbn [map option_map] in P.
  match type of P with backl _ ?L = lunit (lmap Some ?Rr) => destruct L as [[[?|[? ?]] ?]| | |]; destruct Rr as [[? ?]| | | |] end;
    cbn [backl omap obind lunit lmap fst snd unctrl] in P; try discriminate P; red1; ur. inversion P; subst; clear P.
  unfold x_get, x_put. cbn [gLefParser_ctx]. unfold k_pop. rewrite R.removelast_map, map_MG_ctx. reflexivity.
Qed.
End Ties.
