(** Lemmas about the lexer model (Lef/LefLex.v).

    Main results, for the repaired position counting (cm = false, byte offsets):
    - [lex_ok_gen]: every token span and every line start the lexer records is a character boundary of the
      source, in range, with start <= stop; the stream does not end in LPanic or LFuel; there are at most
      [length src] tokens.
    - [lex_no_panic], [lex_terminates] (the latter for both position units).
    - [slice_bnd]: slicing between two boundaries never panics.
    The code as found (cm = true) is refuted by [lex_orig_panics]. *)
From Coq Require Import ZArith List Bool Lia.
From L21 Require Import Lef.LefDec Lef.LefData Lef.LefLex.
Import ListNotations.
Local Open Scope Z_scope.
Local Arguments cp_at : simpl never.
Local Arguments adv : simpl never.

(** "VERSION -Ã© ;" *)
Definition witness_version : bytes := [86;69;82;83;73;79;78;32;45;195;169;32;59].
(** "MACRO mÃ©" *)
Definition witness_macro : bytes := [77;65;67;82;79;32;109;195;169].

Lemma lex_orig_panics : snd (lex true witness_version) = LPanic.
Proof. vm_compute. reflexivity. Qed.
Lemma lex_fixed_ok : exists ts p l ls, lex false witness_version = (ts, LEof p l ls) /\ length ts = 3%nat.
Proof. vm_compute. do 4 eexists. split; reflexivity. Qed.

(** * Lists *)
Lemma app_split {A} : forall (a b c d : list A),
  a ++ b = c ++ d -> (length a <= length c)%nat -> exists m, c = a ++ m /\ b = m ++ d.
Proof.
  induction a as [|x a IH]; intros b c d H L.
  - exists c. split; [reflexivity | exact H].
  - destruct c as [|y c]; [simpl in L; lia|].
    simpl in H. injection H as -> H. simpl in L.
    destruct (IH b c d H ltac:(lia)) as [m [-> ->]]. exists m. split; reflexivity.
Qed.

Lemma drop_app : forall (pre rem : bytes), drop (length pre) (pre ++ rem) = Some rem.
Proof. induction pre as [|x p IH]; intros; simpl; auto. Qed.
Lemma take_app : forall (mid r : bytes), take (length mid) (mid ++ r) = Some (mid, r).
Proof. induction mid as [|x m IH]; intros; simpl; auto. rewrite IH. reflexivity. Qed.

(** * Character boundaries *)
(** byte offset [p] is in range and a character boundary of [src] (Rust `is_char_boundary`) *)
Definition bnd (src : bytes) (p : Z) : Prop :=
  exists pre rem, src = pre ++ rem /\ p = Z.of_nat (length pre) /\ starts_on_boundary rem = true.

Lemma bnd_range : forall src p, bnd src p -> 0 <= p <= Z.of_nat (length src).
Proof. intros src p (pre & rem & -> & -> & _). rewrite app_length. lia. Qed.

Lemma slice_bnd : forall src a b, bnd src a -> bnd src b -> a <= b ->
  exists s, slice src a b = Some s /\ Z.of_nat (length s) = b - a.
Proof.
  intros src a b (pa & ra & Ha & -> & Sa) (pb & rb & Hb & -> & Sb) L.
  rewrite Ha in Hb. destruct (app_split _ _ _ _ Hb ltac:(lia)) as [m [-> ->]].
  exists m. unfold slice.
  replace ((0 <=? Z.of_nat (length pa)) && (Z.of_nat (length pa) <=? Z.of_nat (length (pa ++ m)))) with true
    by (symmetry; apply andb_true_intro; split; apply Z.leb_le; lia).
  rewrite Nat2Z.id, Ha, drop_app, Sa.
  replace (Z.to_nat (Z.of_nat (length (pa ++ m)) - Z.of_nat (length pa))) with (length m)
    by (rewrite app_length; lia).
  rewrite take_app, Sb. split; [reflexivity | rewrite app_length; lia].
Qed.

(** * Consumption: [s = x ++ r] and the position moved by [length x] bytes *)
Definition moved (s : bytes) (pos : Z) (r : bytes) (p : Z) : Prop :=
  exists x, s = x ++ r /\ p = pos + Z.of_nat (length x).

Lemma moved_refl : forall s pos, moved s pos s pos.
Proof. intros. exists []. split; [reflexivity | simpl; lia]. Qed.
Lemma moved_trans : forall s0 p0 s1 p1 s2 p2, moved s0 p0 s1 p1 -> moved s1 p1 s2 p2 -> moved s0 p0 s2 p2.
Proof.
  intros s0 p0 s1 p1 s2 p2 (x & -> & ->) (y & -> & ->). exists (x ++ y).
  split; [apply app_assoc | rewrite app_length; lia].
Qed.
Lemma moved_cons : forall b s pos r p, moved s (pos + 1) r p -> moved (b :: s) pos r p.
Proof. intros b s pos r p (x & -> & ->). exists (b :: x). split; [reflexivity | simpl length; lia]. Qed.
Lemma moved_len : forall s pos r p, moved s pos r p -> Z.of_nat (length s) = Z.of_nat (length r) + (p - pos).
Proof. intros s pos r p (x & -> & ->). rewrite app_length. lia. Qed.

Lemma adv_false : forall b pos, adv false b pos = pos + 1.
Proof. reflexivity. Qed.

Lemma skip_conts_moved : forall s pos r p, skip_conts false s pos = (r, p) ->
  moved s pos r p /\ starts_on_boundary r = true.
Proof.
  induction s as [|b s IH]; intros pos r p H; simpl in H.
  - injection H as <- <-. split; [apply moved_refl | reflexivity].
  - destruct (is_cont b) eqn:C.
    + rewrite adv_false in H. destruct (IH _ _ _ H) as [M S]. split; [apply moved_cons; exact M | exact S].
    + injection H as <- <-. split; [apply moved_refl | simpl; rewrite C; reflexivity].
Qed.

Lemma next_char_moved : forall s pos r p, next_char false s pos = (r, p) ->
  moved s pos r p /\ starts_on_boundary r = true /\ (s <> [] -> pos < p).
Proof.
  intros [|b s] pos r p H; simpl in H.
  - injection H as <- <-. split; [apply moved_refl|]. split; [reflexivity | congruence].
  - rewrite adv_false in H. destruct (skip_conts_moved _ _ _ _ H) as [M S].
    split; [apply moved_cons; exact M|]. split; [exact S|]. intros _.
    destruct M as (x & _ & ->). lia.
Qed.

Lemma accept_while_moved : forall pr s pos r p, accept_while false pr s pos = (r, p) ->
  moved s pos r p /\ starts_on_boundary r = true.
Proof.
  induction s as [|b s IH]; intros pos r p H; simpl in H.
  - injection H as <- <-. split; [apply moved_refl | reflexivity].
  - destruct (is_cont b) eqn:C.
    + rewrite adv_false in H. destruct (IH _ _ _ H) as [M S]. split; [apply moved_cons; exact M | exact S].
    + destruct (pr (cp_at (b :: s))) eqn:Pc.
      * rewrite adv_false in H. destruct (IH _ _ _ H) as [M S]. split; [apply moved_cons; exact M | exact S].
      * injection H as <- <-. split; [apply moved_refl | simpl; rewrite C; reflexivity].
Qed.

(** the first character is consumed when the predicate holds of it *)
Lemma accept_while_first : forall pr b s pos r p, accept_while false pr (b :: s) pos = (r, p) ->
  pr (cp_at (b :: s)) = true -> moved s (pos + 1) r p /\ starts_on_boundary r = true.
Proof.
  intros pr b s pos r p H Pc. simpl in H.
  destruct (is_cont b).
  - rewrite adv_false in H. apply accept_while_moved in H. exact H.
  - rewrite Pc in H. rewrite adv_false in H. apply accept_while_moved in H. exact H.
Qed.

(** * One token *)
(** the lexer's state: [rem] is the rest of [src] at byte offset [pos], on a character boundary *)
Definition at_pos (src rem : bytes) (pos : Z) : Prop :=
  exists pre, src = pre ++ rem /\ pos = Z.of_nat (length pre).

Lemma at_pos_moved : forall src rem pos r p, at_pos src rem pos -> moved rem pos r p -> at_pos src r p.
Proof.
  intros src rem pos r p (pre & -> & ->) (x & -> & ->). exists (pre ++ x).
  split; [apply app_assoc | rewrite app_length; lia].
Qed.
Lemma at_pos_bnd : forall src rem pos, at_pos src rem pos -> starts_on_boundary rem = true -> bnd src pos.
Proof. intros src rem pos (pre & -> & ->) S. exists pre, rem. auto. Qed.

Definition tok_ok (src : bytes) (t : token) : Prop :=
  bnd src (t_start t) /\ bnd src (t_stop t) /\ t_start t <= t_stop t.

Lemma tok_ok_substr : forall src t, tok_ok src t -> exists s, substr src t = Some s.
Proof.
  intros src t (A & B & L). destruct (slice_bnd _ _ _ A B L) as (s & E & _). exists s. exact E.
Qed.

Definition lex1_ok (src rem : bytes) (pos : Z) (r : lex1) : Prop :=
  match r with
  | L1None => rem = []
  | L1Tok t r p l ls =>
    moved rem pos r p /\ pos < p /\ starts_on_boundary r = true /\ t_start t = pos /\ t_stop t = p
  | L1Fail _ _ _ => True
  | L1Panic => False
  end.

Lemma mk_tok : forall rem pos r p, moved rem pos r p -> pos < p -> starts_on_boundary r = true ->
  forall ty line l ls, lex1_ok [] rem pos (L1Tok (mktok pos p line ty) r p l ls).
Proof. intros. simpl. auto. Qed.

Lemma lex_number_ok : forall b s pos line ls,
  not_ws (cp_at (b :: s)) = true ->
  lex1_ok [] (b :: s) pos (lex_number false b s (b :: s) pos line ls).
Proof.
  intros b s pos line ls Hp. unfold lex_number.
  destruct (accept_while false not_ws (b :: s) pos) as [r2 p2] eqn:E.
  destruct (accept_while_first _ _ _ _ _ _ E Hp) as [(x & -> & ->) S].
  replace (pos + 1 + Z.of_nat (length x) - pos - 1) with (Z.of_nat (length x)) by lia.
  replace (0 <=? Z.of_nat (length x)) with true by (symmetry; apply Z.leb_le; lia).
  rewrite Nat2Z.id, take_app, S. simpl. split.
  - exists (b :: x). split; [reflexivity | simpl length; lia].
  - repeat split; auto. lia.
Qed.

Lemma lex_one_ok : forall rem pos line ls, lex1_ok [] rem pos (lex_one false rem pos line ls).
Proof.
  intros [|b s] pos line ls; [reflexivity|].
  unfold lex_one. set (rem := b :: s). set (c := cp_at rem).
  destruct (next_char false rem pos) as [r1 p1] eqn:N.
  destruct (next_char_moved _ _ _ _ N) as (M1 & S1 & L1). specialize (L1 ltac:(discriminate)).
  destruct (c =? 10). { simpl. auto. }
  destruct (is_whitespace c) eqn:W.
  { destruct (accept_while false _ r1 p1) as [r2 p2] eqn:A.
    destruct (accept_while_moved _ _ _ _ _ A) as [M2 S2]. simpl.
    split; [eapply moved_trans; eauto|]. repeat split; auto. destruct M2 as (x & _ & ->). lia. }
  destruct (c =? 59). { simpl. auto. }
  destruct (c =? 34).
  { destruct (accept_while false _ r1 p1) as [r2 p2] eqn:A.
    destruct (accept_while_moved _ _ _ _ _ A) as [M2 S2].
    destruct (next_char false r2 p2) as [r3 p3] eqn:N3.
    destruct (next_char_moved _ _ _ _ N3) as (M3 & S3 & _). simpl.
    split; [eapply moved_trans; [eauto | eapply moved_trans; eauto]|]. repeat split; auto.
    destruct M2 as (x & _ & ->). destruct M3 as (y & _ & ->). lia. }
  destruct (c =? 35).
  { destruct (accept_while false _ r1 p1) as [r2 p2] eqn:A.
    destruct (accept_while_moved _ _ _ _ _ A) as [M2 S2]. simpl.
    split; [eapply moved_trans; eauto|]. repeat split; auto. destruct M2 as (x & _ & ->). lia. }
  destruct (is_digit10 c || (c =? 46) || (c =? 45)).
  { apply lex_number_ok. unfold not_ws. fold rem. fold c. rewrite W. reflexivity. }
  destruct (is_alphabetic c).
  { destruct (accept_while false _ r1 p1) as [r2 p2] eqn:A.
    destruct (accept_while_moved _ _ _ _ _ A) as [M2 S2]. simpl.
    split; [eapply moved_trans; eauto|]. repeat split; auto. destruct M2 as (x & _ & ->). lia. }
  exact I.
Qed.

(** line bookkeeping of one token: the new line start is the old one or the token's end *)
Lemma lex_one_linestart : forall cm rem pos line ls t r p l ls',
  lex_one cm rem pos line ls = L1Tok t r p l ls' -> ls' = ls \/ ls' = p.
Proof.
  intros cm [|b s] pos line ls t r p l ls' H; [discriminate|].
  unfold lex_one in H. set (rem := b :: s) in *. set (c := cp_at rem) in *.
  destruct (next_char cm rem pos) as [r1 p1].
  destruct (c =? 10). { injection H as <- <- <- <- <-. auto. }
  destruct (is_whitespace c).
  { destruct (accept_while cm _ r1 p1) as [r2 p2]. injection H as <- <- <- <- <-. auto. }
  destruct (c =? 59). { injection H as <- <- <- <- <-. auto. }
  destruct (c =? 34).
  { destruct (accept_while cm _ r1 p1) as [r2 p2]. destruct (next_char cm r2 p2) as [r3 p3].
    injection H as <- <- <- <- <-. auto. }
  destruct (c =? 35).
  { destruct (accept_while cm _ r1 p1) as [r2 p2]. injection H as <- <- <- <- <-. auto. }
  destruct (is_digit10 c || (c =? 46) || (c =? 45)).
  { unfold lex_number in H. destruct (accept_while cm not_ws rem pos) as [r2 p2].
    destruct (if 0 <=? p2 - pos - 1 then take (Z.to_nat (p2 - pos - 1)) s else None) as [[sb q]|]; [|discriminate].
    destruct (starts_on_boundary q); [|discriminate]. injection H as <- <- <- <- <-. auto. }
  destruct (is_alphabetic c).
  { destruct (accept_while cm _ r1 p1) as [r2 p2]. injection H as <- <- <- <- <-. auto. }
  discriminate.
Qed.

(** * The token stream *)
Definition ti_ok (src : bytes) (ti : tokinfo) : Prop :=
  tok_ok src (ti_tok ti) /\ bnd src (ti_linestart ti).
Definition end_ok (src : bytes) (e : lex_end) : Prop :=
  match e with
  | LEof p l ls => bnd src ls
  | LErr _ _ _ => True
  | LPanic | LFuel => False
  end.

Lemma lex_all_ok : forall src f rem pos line ls toks e,
  at_pos src rem pos -> starts_on_boundary rem = true -> bnd src ls ->
  (length rem < f)%nat ->
  lex_all f false rem pos line ls = (toks, e) ->
  Forall (ti_ok src) toks /\ end_ok src e /\ (length toks <= length rem)%nat.
Proof.
  induction f as [|f IH]; intros rem pos line ls toks e AP SB BL LF H; [lia|].
  simpl in H.
  pose proof (lex_one_ok rem pos line ls) as OK.
  pose proof (lex_one_linestart false rem pos line ls) as LS.
  destruct (lex_one false rem pos line ls) as [|t r p l ls'| |].
  - injection H as <- <-. split; [constructor|]. split; [exact BL | simpl; lia].
  - simpl in OK. destruct OK as (M & Lt & S & Ts & Te).
    pose proof (at_pos_moved _ _ _ _ _ AP M) as AP'.
    pose proof (at_pos_bnd _ _ _ AP' S) as Bp.
    pose proof (at_pos_bnd _ _ _ AP SB) as Bs.
    assert (BL' : bnd src ls') by (destruct (LS _ _ _ _ _ eq_refl) as [-> | ->]; assumption).
    pose proof (moved_len _ _ _ _ M) as ML.
    assert (LF' : (length r < f)%nat) by lia.
    assert (TK : tok_ok src t) by (unfold tok_ok; rewrite Ts, Te; repeat split; auto; lia).
    destruct (lex_all f false r p l ls') as [ts e'] eqn:R.
    destruct (IH _ _ _ _ _ _ AP' S BL' LF' R) as (F & E & N).
    destruct (t_ty t); injection H as <- <-;
      (split; [first [exact F | constructor; [split; assumption | exact F]] | split; [exact E | simpl length; lia]]).
  - injection H as <- <-. split; [constructor|]. split; [exact I | simpl; lia].
  - contradiction.
Qed.

Lemma valid_starts_on_boundary : forall src, utf8_valid src -> starts_on_boundary src = true.
Proof.
  intros [|b s] H; [reflexivity|]. unfold utf8_valid, utf8_validb in H. simpl in H.
  simpl. unfold is_cont.
  destruct ((0 <=? b) && (b <? 128)) eqn:A.
  { apply andb_prop in A. destruct A as [_ A]. apply Z.ltb_lt in A.
    replace (b <? 192) with true by (symmetry; apply Z.ltb_lt; lia).
    replace (128 <=? b) with false by (symmetry; apply Z.leb_gt; lia). reflexivity. }
  destruct ((194 <=? b) && (b <? 224)) eqn:B.
  { apply andb_prop in B. destruct B as [B _]. apply Z.leb_le in B.
    replace (b <? 192) with false by (symmetry; apply Z.ltb_ge; lia). rewrite andb_false_r. reflexivity. }
  destruct ((224 <=? b) && (b <? 240)) eqn:C.
  { apply andb_prop in C. destruct C as [C _]. apply Z.leb_le in C.
    replace (b <? 192) with false by (symmetry; apply Z.ltb_ge; lia). rewrite andb_false_r. reflexivity. }
  destruct ((240 <=? b) && (b <? 245)) eqn:D.
  { apply andb_prop in D. destruct D as [D _]. apply Z.leb_le in D.
    replace (b <? 192) with false by (symmetry; apply Z.ltb_ge; lia). rewrite andb_false_r. reflexivity. }
  discriminate.
Qed.

Lemma bnd_zero : forall src, starts_on_boundary src = true -> bnd src 0.
Proof. intros src S. exists [], src. auto. Qed.

(** the repaired lexer on any source that starts on a character boundary *)
Theorem lex_ok_gen : forall src toks e, starts_on_boundary src = true ->
  lex false src = (toks, e) ->
  Forall (ti_ok src) toks /\ end_ok src e /\ (length toks <= length src)%nat.
Proof.
  intros src toks e S H. unfold lex, lex_fuel in H.
  eapply lex_all_ok; [| exact S | apply bnd_zero; exact S | | exact H].
  - exists []. auto.
  - lia.
Qed.

Theorem lex_no_panic : forall src, utf8_valid src -> snd (lex false src) <> LPanic.
Proof.
  intros src V. destruct (lex false src) as [toks e] eqn:H.
  destruct (lex_ok_gen _ _ _ (valid_starts_on_boundary _ V) H) as (_ & E & _).
  simpl. intros ->. exact E.
Qed.

(** * Termination for either position unit: a token consumes at least one byte *)
Lemma skip_conts_len : forall cm s pos, (length (fst (skip_conts cm s pos)) <= length s)%nat.
Proof.
  induction s as [|b s IH]; intros pos; simpl; [lia|].
  destruct (is_cont b); simpl; [specialize (IH (adv cm b pos)); lia | lia].
Qed.
Lemma next_char_len : forall cm b s pos, (length (fst (next_char cm (b :: s) pos)) <= length s)%nat.
Proof. intros. simpl. apply skip_conts_len. Qed.
Lemma accept_while_len : forall cm pr s pos, (length (fst (accept_while cm pr s pos)) <= length s)%nat.
Proof.
  induction s as [|b s IH]; intros pos; simpl; [lia|].
  destruct (is_cont b); [specialize (IH (adv cm b pos)); lia|].
  destruct (pr _); [specialize (IH (adv cm b pos)); lia | simpl; lia].
Qed.
Lemma next_char_len0 : forall cm s pos, (length (fst (next_char cm s pos)) <= length s)%nat.
Proof. intros cm [|b s] pos; [simpl; lia|]. pose proof (next_char_len cm b s pos). simpl length in *. lia. Qed.

Lemma lex_one_consumes : forall cm rem pos line ls t r p l ls',
  lex_one cm rem pos line ls = L1Tok t r p l ls' -> (length r < length rem)%nat.
Proof.
  intros cm [|b s] pos line ls t r p l ls' H; [discriminate|].
  unfold lex_one in H. set (rem := b :: s) in *. set (c := cp_at rem) in *.
  pose proof (next_char_len cm b s pos) as N. fold rem in N.
  destruct (next_char cm rem pos) as [r1 p1]. simpl fst in N.
  assert (AW : forall pr, (length (fst (accept_while cm pr r1 p1)) <= length s)%nat)
    by (intros pr; pose proof (accept_while_len cm pr r1 p1); lia).
  destruct (c =? 10). { injection H as <- <- <- <- <-. simpl; lia. }
  destruct (is_whitespace c) eqn:W.
  { specialize (AW (fun c => is_ascii_whitespace c && negb (c =? 10))).
    destruct (accept_while cm _ r1 p1) as [r2 p2]. injection H as <- <- <- <- <-. simpl in *; lia. }
  destruct (c =? 59). { injection H as <- <- <- <- <-. simpl; lia. }
  destruct (c =? 34).
  { specialize (AW (fun c => negb (c =? 34))).
    destruct (accept_while cm _ r1 p1) as [r2 p2]. pose proof (next_char_len0 cm r2 p2) as N3.
    destruct (next_char cm r2 p2) as [r3 p3].
    injection H as <- <- <- <- <-. simpl in *; lia. }
  destruct (c =? 35).
  { specialize (AW (fun c => negb (c =? 10))).
    destruct (accept_while cm _ r1 p1) as [r2 p2]. injection H as <- <- <- <- <-. simpl in *; lia. }
  destruct (is_digit10 c || (c =? 46) || (c =? 45)).
  { unfold lex_number in H.
    assert (Hf : (length (fst (accept_while cm not_ws rem pos)) <= length s)%nat).
    { unfold rem at 1. simpl. destruct (is_cont b); [apply accept_while_len|].
      fold rem. fold c. unfold not_ws at 1. rewrite W. simpl. apply accept_while_len. }
    destruct (accept_while cm not_ws rem pos) as [r2 p2]. simpl in Hf.
    destruct (if 0 <=? p2 - pos - 1 then take (Z.to_nat (p2 - pos - 1)) s else None) as [[sb q]|]; [|discriminate].
    destruct (starts_on_boundary q); [|discriminate]. injection H as <- <- <- <- <-. simpl; lia. }
  destruct (is_alphabetic c).
  { specialize (AW not_ws).
    destruct (accept_while cm _ r1 p1) as [r2 p2]. injection H as <- <- <- <- <-. simpl in *; lia. }
  discriminate.
Qed.

Lemma lex_all_fuel : forall cm f rem pos line ls, (length rem < f)%nat ->
  snd (lex_all f cm rem pos line ls) <> LFuel.
Proof.
  induction f as [|f IH]; intros rem pos line ls L; [lia|]. simpl.
  pose proof (lex_one_consumes cm rem pos line ls) as C.
  destruct (lex_one cm rem pos line ls) as [|t r p l ls'| |]; try (simpl; discriminate).
  specialize (C _ _ _ _ _ eq_refl).
  specialize (IH r p l ls' ltac:(lia)).
  destruct (lex_all f cm r p l ls') as [ts e]. destruct (t_ty t); simpl in *; exact IH.
Qed.

(** the lexer terminates within [length src + 1] tokens, original and repaired position counting alike *)
Theorem lex_terminates : forall cm src, snd (lex cm src) <> LFuel.
Proof. intros. unfold lex, lex_fuel. apply lex_all_fuel. lia. Qed.

(** at most one token per byte, for either position unit *)
Lemma lex_all_count : forall cm f rem pos line ls,
  (length (fst (lex_all f cm rem pos line ls)) <= length rem)%nat.
Proof.
  induction f as [|f IH]; intros rem pos line ls; simpl; [lia|].
  pose proof (lex_one_consumes cm rem pos line ls) as C.
  destruct (lex_one cm rem pos line ls) as [|t r p l ls'| |]; try (simpl; lia).
  specialize (C _ _ _ _ _ eq_refl). specialize (IH r p l ls').
  destruct (lex_all f cm r p l ls') as [ts e]. destruct (t_ty t); simpl in *; lia.
Qed.
Lemma lex_count : forall cm src, (length (fst (lex cm src)) <= length src)%nat.
Proof. intros. unfold lex. apply lex_all_count. Qed.

(** the statement of [lex_ok_gen] spelled out, for valid UTF-8 *)
Theorem lex_positions :
  forall src toks e, utf8_valid src -> lex false src = (toks, e) ->
    Forall (fun ti => bnd src (t_start (ti_tok ti)) /\ bnd src (t_stop (ti_tok ti))
                      /\ t_start (ti_tok ti) <= t_stop (ti_tok ti) /\ bnd src (ti_linestart ti)
                      /\ substr src (ti_tok ti) <> None) toks
    /\ (forall p l ls, e = LEof p l ls -> bnd src ls)
    /\ (length toks <= length src)%nat.
Proof.
  intros src toks e V H.
  destruct (lex_ok_gen _ _ _ (valid_starts_on_boundary _ V) H) as (F & E & N).
  split; [|split; [|exact N]].
  - eapply Forall_impl; [|exact F]. intros ti [[A [B C]] D].
    repeat split; auto. destruct (tok_ok_substr src (ti_tok ti)) as [s ->]; [repeat split; auto | discriminate].
  - intros p l ls ->. exact E.
Qed.

(** * Well-formed UTF-8 as an inductive predicate *)
Inductive U8 : bytes -> Prop :=
| U8_nil : U8 []
| U8_1 : forall b r, 0 <= b < 128 -> U8 r -> U8 (b :: r)
| U8_2 : forall b0 b1 r, 194 <= b0 < 224 -> is_cont b1 = true -> U8 r -> U8 (b0 :: b1 :: r)
| U8_3 : forall b0 b1 b2 r, 224 <= b0 < 240 -> is_cont b1 = true -> is_cont b2 = true ->
    (b0 = 224 -> 160 <= b1) -> (b0 = 237 -> b1 < 160) -> U8 r -> U8 (b0 :: b1 :: b2 :: r)
| U8_4 : forall b0 b1 b2 b3 r, 240 <= b0 < 245 -> is_cont b1 = true -> is_cont b2 = true -> is_cont b3 = true ->
    (b0 = 240 -> 144 <= b1) -> (b0 = 244 -> b1 < 144) -> U8 r -> U8 (b0 :: b1 :: b2 :: b3 :: r).

Ltac zb :=
  repeat match goal with
  | H : _ && _ = true |- _ => apply andb_prop in H; destruct H
  | H : (_ <=? _) = true |- _ => apply Z.leb_le in H
  | H : (_ <? _) = true |- _ => apply Z.ltb_lt in H
  | H : (_ =? _) = true |- _ => apply Z.eqb_eq in H
  | H : (_ <=? _) = false |- _ => apply Z.leb_gt in H
  | H : (_ <? _) = false |- _ => apply Z.ltb_ge in H
  | H : (_ =? _) = false |- _ => apply Z.eqb_neq in H
  end.

Lemma validb_fuel_U8 : forall f s, utf8_validb_fuel f s = true -> U8 s.
Proof.
  induction f as [|f IH]; intros s H; simpl in H.
  - destruct s; [constructor | discriminate].
  - destruct s as [|b0 r]; [constructor|].
    destruct ((0 <=? b0) && (b0 <? 128)) eqn:A.
    { zb. apply U8_1; [lia | auto]. }
    destruct ((194 <=? b0) && (b0 <? 224)) eqn:B.
    { destruct r as [|b1 r']; [discriminate|]. apply andb_prop in H. destruct H as [H1 H2]. zb.
      apply U8_2; auto; lia. }
    destruct ((224 <=? b0) && (b0 <? 240)) eqn:C.
    { destruct r as [|b1 [|b2 r']]; try discriminate.
      apply andb_prop in H. destruct H as [H H5]. apply andb_prop in H. destruct H as [H H4].
      apply andb_prop in H. destruct H as [H H3]. apply andb_prop in H. destruct H as [H1 H2]. zb.
      apply U8_3; auto; try lia.
      - intros ->. simpl in H3. zb. lia.
      - intros ->. simpl in H4. zb. lia. }
    destruct ((240 <=? b0) && (b0 <? 245)) eqn:D; [|discriminate].
    { destruct r as [|b1 [|b2 [|b3 r']]]; try discriminate.
      apply andb_prop in H. destruct H as [H H6]. apply andb_prop in H. destruct H as [H H5].
      apply andb_prop in H. destruct H as [H H4]. apply andb_prop in H. destruct H as [H H3].
      apply andb_prop in H. destruct H as [H1 H2]. zb.
      apply U8_4; auto; try lia.
      - intros ->. simpl in H4. zb. lia.
      - intros ->. simpl in H5. zb. lia. }
Qed.
Lemma valid_U8 : forall s, utf8_valid s -> U8 s.
Proof. intros s H. eapply validb_fuel_U8. exact H. Qed.

Lemma U8_validb_fuel : forall s, U8 s -> forall f, (length s <= f)%nat -> utf8_validb_fuel f s = true.
Proof.
  induction 1 as [|b r Hb Hr IH|b0 b1 r Hb H1 Hr IH|b0 b1 b2 r Hb H1 H2 Ha Hd Hr IH|b0 b1 b2 b3 r Hb H1 H2 H3 Ha Hd Hr IH];
    intros f L.
  - destruct f; reflexivity.
  - destruct f as [|f]; [simpl in L; lia|]. simpl.
    replace ((0 <=? b) && (b <? 128)) with true
      by (symmetry; apply andb_true_intro; split; [apply Z.leb_le | apply Z.ltb_lt]; lia).
    apply IH. simpl in L. lia.
  - destruct f as [|f]; [simpl in L; lia|]. simpl.
    replace ((0 <=? b0) && (b0 <? 128)) with false
      by (symmetry; apply andb_false_intro2; apply Z.ltb_ge; lia).
    replace ((194 <=? b0) && (b0 <? 224)) with true
      by (symmetry; apply andb_true_intro; split; [apply Z.leb_le | apply Z.ltb_lt]; lia).
    rewrite H1. apply IH. simpl in L. lia.
  - destruct f as [|f]; [simpl in L; lia|]. simpl.
    replace ((0 <=? b0) && (b0 <? 128)) with false
      by (symmetry; apply andb_false_intro2; apply Z.ltb_ge; lia).
    replace ((194 <=? b0) && (b0 <? 224)) with false
      by (symmetry; apply andb_false_intro2; apply Z.ltb_ge; lia).
    replace ((224 <=? b0) && (b0 <? 240)) with true
      by (symmetry; apply andb_true_intro; split; [apply Z.leb_le | apply Z.ltb_lt]; lia).
    rewrite H1, H2.
    replace (if b0 =? 224 then 160 <=? b1 else true) with true
      by (symmetry; destruct (b0 =? 224) eqn:E; [zb; apply Z.leb_le; auto | reflexivity]).
    replace (if b0 =? 237 then b1 <? 160 else true) with true
      by (symmetry; destruct (b0 =? 237) eqn:E; [zb; apply Z.ltb_lt; auto | reflexivity]).
    apply IH. simpl in L. lia.
  - destruct f as [|f]; [simpl in L; lia|]. simpl.
    replace ((0 <=? b0) && (b0 <? 128)) with false
      by (symmetry; apply andb_false_intro2; apply Z.ltb_ge; lia).
    replace ((194 <=? b0) && (b0 <? 224)) with false
      by (symmetry; apply andb_false_intro2; apply Z.ltb_ge; lia).
    replace ((224 <=? b0) && (b0 <? 240)) with false
      by (symmetry; apply andb_false_intro2; apply Z.ltb_ge; lia).
    replace ((240 <=? b0) && (b0 <? 245)) with true
      by (symmetry; apply andb_true_intro; split; [apply Z.leb_le | apply Z.ltb_lt]; lia).
    rewrite H1, H2, H3.
    replace (if b0 =? 240 then 144 <=? b1 else true) with true
      by (symmetry; destruct (b0 =? 240) eqn:E; [zb; apply Z.leb_le; auto | reflexivity]).
    replace (if b0 =? 244 then b1 <? 144 else true) with true
      by (symmetry; destruct (b0 =? 244) eqn:E; [zb; apply Z.ltb_lt; auto | reflexivity]).
    apply IH. simpl in L. lia.
Qed.
Lemma U8_valid : forall s, U8 s -> utf8_valid s.
Proof. intros s H. apply U8_validb_fuel; auto. Qed.

Lemma U8_app : forall a b, U8 a -> U8 b -> U8 (a ++ b).
Proof.
  induction 1; intros Hb; simpl; [assumption | apply U8_1 | apply U8_2 | apply U8_3 | apply U8_4]; auto.
Qed.
Lemma U8_concat : forall l, Forall U8 l -> U8 (concat l).
Proof. induction 1; simpl; [constructor | apply U8_app; auto]. Qed.
Lemma U8_ascii : forall s, Forall (fun b => 0 <= b < 128) s -> U8 s.
Proof. induction 1; constructor; auto. Qed.

(** a valid text cut at a character boundary gives two valid texts *)
Lemma cont_not_ascii : forall b, is_cont b = true -> 128 <= b < 192.
Proof. intros b H. unfold is_cont in H. zb. lia. Qed.
Lemma U8_split : forall s, U8 s -> forall a b, s = a ++ b -> starts_on_boundary b = true -> U8 a /\ U8 b.
Proof.
  induction 1 as [|c r Hc Hr IH|c0 c1 r Hc H1 Hr IH|c0 c1 c2 r Hc H1 H2 Ha Hd Hr IH|c0 c1 c2 c3 r Hc H1 H2 H3 Ha Hd Hr IH];
    intros a b E S.
  - destruct a; [|discriminate]. simpl in E. subst b. split; constructor.
  - destruct a as [|x a].
    + simpl in E. subst b. split; [constructor | apply U8_1; auto].
    + simpl in E. injection E as <- E. destruct (IH _ _ E S). split; [apply U8_1; auto | auto].
  - destruct a as [|x [|y a]].
    + simpl in E. subst b. split; [constructor | apply U8_2; auto].
    + simpl in E. injection E as <- E. subst b. simpl in S. rewrite H1 in S. discriminate.
    + simpl in E. injection E as <- <- E. destruct (IH _ _ E S). split; [apply U8_2; auto | auto].
  - destruct a as [|x [|y [|z a]]].
    + simpl in E. subst b. split; [constructor | apply U8_3; auto].
    + simpl in E. injection E as <- E. subst b. simpl in S. rewrite H1 in S. discriminate.
    + simpl in E. injection E as <- <- E. subst b. simpl in S. rewrite H2 in S. discriminate.
    + simpl in E. injection E as <- <- <- E. destruct (IH _ _ E S). split; [apply U8_3; auto | auto].
  - destruct a as [|x [|y [|z [|w a]]]].
    + simpl in E. subst b. split; [constructor | apply U8_4; auto].
    + simpl in E. injection E as <- E. subst b. simpl in S. rewrite H1 in S. discriminate.
    + simpl in E. injection E as <- <- E. subst b. simpl in S. rewrite H2 in S. discriminate.
    + simpl in E. injection E as <- <- <- E. subst b. simpl in S. rewrite H3 in S. discriminate.
    + simpl in E. injection E as <- <- <- <- E. destruct (IH _ _ E S). split; [apply U8_4; auto | auto].
Qed.

Lemma drop_some : forall n s r, drop n s = Some r -> exists p, s = p ++ r.
Proof.
  induction n as [|n IH]; intros s r H; simpl in H.
  - injection H as <-. exists []. reflexivity.
  - destruct s as [|x s]; [discriminate|]. destruct (IH _ _ H) as [p ->]. exists (x :: p). reflexivity.
Qed.
Lemma take_some : forall n s p q, take n s = Some (p, q) -> s = p ++ q.
Proof.
  induction n as [|n IH]; intros s p q H; simpl in H.
  - injection H as <- <-. reflexivity.
  - destruct s as [|x s]; [discriminate|]. destruct (take n s) as [[p' q']|] eqn:E; [|discriminate].
    injection H as <- <-. rewrite (IH _ _ _ E). reflexivity.
Qed.

(** `&src[a..b]` of a valid text is a valid text *)
Theorem slice_valid : forall src a b s, U8 src -> slice src a b = Some s -> U8 s.
Proof.
  intros src a b s V H. unfold slice in H.
  destruct ((0 <=? a) && (a <=? b)); [|discriminate].
  destruct (drop (Z.to_nat a) src) as [s1|] eqn:D; [|discriminate].
  destruct (starts_on_boundary s1) eqn:S1; [|discriminate].
  destruct (take (Z.to_nat (b - a)) s1) as [[p q]|] eqn:T; [|discriminate].
  destruct (starts_on_boundary q) eqn:S2; [|discriminate]. injection H as <-.
  destruct (drop_some _ _ _ D) as [pre E]. pose proof (take_some _ _ _ _ T) as E2.
  destruct (U8_split _ V _ _ E S1) as [_ V1]. destruct (U8_split _ V1 _ _ E2 S2) as [V2 _]. exact V2.
Qed.
