(** Lemmas about the lexer model (Lef/LefLex.v). *)
From Coq Require Import ZArith List Bool Lia.
From L21 Require Import Lef.LefDec Lef.LefData Lef.LefLex Lef.LefParse.
Import ListNotations.
Local Open Scope Z_scope.

(** "VERSION -é ;" *)
Definition witness_version : bytes := [86;69;82;83;73;79;78;32;45;195;169;32;59].
(** "MACRO mé" *)
Definition witness_macro : bytes := [77;65;67;82;79;32;109;195;169].

Lemma lex_orig_panics : snd (lex true witness_version) = LPanic.
Proof. vm_compute. reflexivity. Qed.
Lemma lex_fixed_ok : exists ts p l ls, lex false witness_version = (ts, LEof p l ls) /\ length ts = 3%nat.
Proof. vm_compute. do 4 eexists. split; reflexivity. Qed.
