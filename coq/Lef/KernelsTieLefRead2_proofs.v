(** Tie (a) of DESIGN.md 2.3 for the LEF parser, second part (family "lef_parse2", properties C04, C05, C11): the definitions generated from
    lef21/src/read.rs `LefParser::parse_units` (the whole loop over the eight unit statements), `parse_size`, `parse_symmetries`, `parse_macro_class`,
    `parse_site_def` (loop, derive_builder of `LefSite`, `build()`), `parse_property`, `parse_pin_direction`, `parse_geometry_mask`, `parse_iterate`,
    `parse_step_pattern`, `parse_point_list`, `parse_geometry_tail`, `parse_geometry`, `parse_bus_bit_chars`, `parse_divider_char`, and of the helpers `expect_and_get_str`, `get_name`, `expect_ident`
    (Gen/KernelsLefRead2Gen.v, unit "lefr2"), read as in Lef/KernelsInstLefRead2.v (monadic self = the model's parser state; the token-level helpers
    tied in the family lef_parse external), EQUAL the functions of the same names of Lef/LefParse.v, the error value apart.  Where the model carries a
    variant flag ([c_points_to_semi]) the tie is stated for the code as it is now ([cfr_now]).
    Naming: a helper lemma `tie_<fn>_loop` belongs to the published theorem `Ktie_<fn>` (Properties/KernelsLef.v). *)
From Coq Require Import ZArith Bool List String Lia.
From L21 Require Import Lef.LefDec Lef.LefData Lef.LefLex Lef.LefParse.
From L21 Require Import Base.KernelOps Base.KernelOpsX Base.KernelOpsS Base.KernelOpsL Base.Outcome Gen.KernelsLefRead2Gen.
From L21 Require Import Lef.KernelsInstLefRead.
From L21 Require Lef.KernelsTieLefRead_proofs.
From L21 Require Import Lef.KernelsInstLefRead2.
Import ListNotations.
Local Open Scope Z_scope.
Module R := Lef.KernelsTieLefRead_proofs.

Lemma MG_key : forall k, MLefKey (GLefKey k) = k.
Proof. destruct k; reflexivity. Qed.
Lemma MG_tty : forall t, Mtty (Gtty t) = t.
Proof. destruct t; reflexivity. Qed.
Lemma MG_tok : forall t, Mtok (Gtok t) = t.
Proof. intros [a b c ty]. unfold Mtok, Gtok. cbn. rewrite MG_tty. reflexivity. Qed.
Lemma MG_ctx : forall c, Mctx (Gctx c) = c.
Proof. destruct c; reflexivity. Qed.
Lemma map_MG_ctx : forall l, map Mctx (map Gctx l) = l.
Proof. induction l as [|c l IH]; [reflexivity|]. cbn [map]. rewrite MG_ctx, IH. reflexivity. Qed.
Lemma MG_point : forall p, Mpoint (Gpoint p) = p.
Proof. destruct p; reflexivity. Qed.

Section Ties.
Variable cf : cfg.
Variable src : bytes.
Local Notation lu := (@lunit _).

Definition lres (A : Type) := LefParse.res (A * pst).
Definition lmap {A B : Type} (f : A -> B) (x : lres A) : lres B :=
  match x with LefParse.Ok (a, st) => LefParse.Ok (f a, st) | LefParse.Err e => LefParse.Err e | LefParse.Panic => LefParse.Panic
             | LefParse.OutOfFuel => LefParse.OutOfFuel | LefParse.Unmodelled => LefParse.Unmodelled end.
Definition unctrl {R S B : Type} (f : R -> B) (g : S -> B) (c : ctrl R S) : B := match c with Brk r => f r | Cont s => g s end.
Ltac ls := cbn [lm_xops kx_base lm_kops k_bind k_ret k_panic k_fail i_lt i_lit v_len]; unfold lm_bind, lm_ret, lm_pan.
Ltac xs := unfold x_advance, x_matches, x_expect, x_peek_key, x_get_key, x_expect_key, x_parse_ident, x_parse_number, x_parse_point, x_try_new, x_enum, x_txt,
  x_peek_token, lmU, lmG; cbn [MLefKey Mtty].
Ltac red1 := cbn [lunit backl omap obind fst snd option_map].
Ltac mstep :=
  match goal with
  | |- context [lunit ?X] =>
    lazymatch X with
    | context [match _ with _ => _ end] => fail
    | lmap _ _ => fail
    | _ => destruct X as [[? ?]| | | |]
    end
  end; red1; try reflexivity.
Ltac ur := repeat match goal with u : unit |- _ => destruct u end; try reflexivity.
Ltac flt := cbn [k_fail lm_xops]; unfold lm_fail, LefParse.fail, fail_msg;
  match goal with |- context [state cf src ?st] => destruct (state cf src st) as [[[[? ?] ?] ?]|]; reflexivity end.

Lemma tie_parse_size : forall s, g_parse_size cf src s = lunit (parse_size cf src s).
Proof.
  intros s. unfold g_parse_size, g_LefParser_parse_size, parse_size, expect_semi, bind, ret. ls. xs.
  repeat mstep.
Qed.

Lemma fail_lu : forall A tp s, lm_fail cf src A s = lunit (@LefParse.fail cf src A tp s).
Proof. exact (R.fail_lu cf src). Qed.
Lemma failmsg_lu : forall A tp m s, lm_fail cf src A s = lunit (@LefParse.fail_msg cf src A tp m s).
Proof. intros A tp m s. unfold lm_fail, LefParse.fail, fail_msg. destruct (state cf src s) as [[[[? ?] ?] ?]|]; reflexivity. Qed.
Lemma fail_back : forall A B (f : A -> B) tp s, backl f (lm_fail cf src A s) = lunit (@LefParse.fail cf src B tp s).
Proof. intros. unfold lm_fail, LefParse.fail, fail_msg. destruct (state cf src s) as [[[[? ?] ?] ?]|]; reflexivity. Qed.
Lemma failmsg_back : forall A B (f : A -> B) tp m s, backl f (lm_fail cf src A s) = lunit (@LefParse.fail_msg cf src B tp m s).
Proof. intros. unfold lm_fail, LefParse.fail, fail_msg. destruct (state cf src s) as [[[[? ?] ?] ?]|]; reflexivity. Qed.
Ltac bstep := match goal with |- context [matches ?t ?s] => destruct (matches t s) end; cbn [negb]; red1; try reflexivity.
Ltac keq := repeat match goal with |- context [LefKey_eqb ?a ?b] => let v := eval vm_compute in (LefKey_eqb a b) in change (LefKey_eqb a b) with v end; cbn beta iota.
Ltac kcase k := destruct k; cbn [GLefKey gLefKey_eqb]; keq; red1; try reflexivity.
Ltac fl := try (cbn [k_fail lm_xops]; first [ rewrite (fail_lu _ EtInvalidKey) | idtac ]; reflexivity).

Lemma tie_parse_step_pattern : forall s, backl Mstep (g_parse_step_pattern cf src s) = lunit (parse_step_pattern cf src s).
Proof.
  intros s. unfold g_parse_step_pattern, g_LefParser_parse_step_pattern, parse_step_pattern, bind, ret. ls. xs. repeat mstep.
Qed.
Lemma tie_parse_iterate : forall s, g_parse_iterate cf src s = lunit (parse_iterate cf src s).
Proof.
  intros s. unfold g_parse_iterate, g_LefParser_parse_iterate, parse_iterate, bind, ret, get. ls. xs. bstep. mstep.
  kcase l. mstep.
Qed.
Lemma tie_parse_geometry_mask : forall s, backl Mmask (g_parse_geometry_mask cf src s) = lunit (parse_geometry_mask cf src s).
Proof.
  intros s. unfold g_parse_geometry_mask, g_LefParser_parse_geometry_mask, g_LefMask_new, parse_geometry_mask, bind, ret, get. ls. xs. bstep. mstep.
  kcase l. repeat mstep.
Qed.

Ltac foldloop run := match goal with |- context [k_loop ?a ?b ?c ?d ?e ?st] => change (k_loop a b c d e st) with (run c e st) end.
Ltac useloop P := match type of P with backl _ ?L = lunit (lmap Some ?Rr) => destruct L as [[[?|?] ?]| | |]; destruct Rr as [[? ?]| | | |] end;
  cbn [backl omap obind lunit lmap fst snd unctrl] in P; try discriminate P; red1; ur; try (inversion P; subst; clear P).

Ltac usetie T al := match goal with p : pst |- _ => let E := fresh "E" in pose proof (T p) as E; unfold al in E;
  match type of E with backl _ ?L = lunit ?Rr => (match goal with |- context [L] => idtac end); destruct L as [[? ?]| | |]; destruct Rr as [[? ?]| | | |] end;
  cbn [backl omap obind lunit fst snd] in E; try discriminate E; red1; ur; try (inversion E; subst; clear E) end.
Ltac rwtie T al := let E := fresh "E" in pose proof T as E; unfold al in E; rewrite E; clear E.
Lemma bind_ret_id : forall (A : Type) (x : ures (A * pst)),
  match x with Ok (a, s') => Ok (a, s') | Err e => Err e | Panic => Panic | OutOfFuel => OutOfFuel end = x.
Proof. intros A [[? ?]| | |]; reflexivity. Qed.

Lemma tie_parse_geometry_tail : forall it sh s, backl Mgeometry (g_parse_geometry_tail cf src it sh s) = lunit (parse_geometry_tail cf src it (Mshape sh) s).
Proof.
  intros it sh s. unfold g_parse_geometry_tail, g_LefParser_parse_geometry_tail, parse_geometry_tail, expect_semi, bind, ret. ls. destruct it.
  - usetie tie_parse_step_pattern g_parse_step_pattern. xs. repeat mstep.
  - xs. repeat mstep.
Qed.

(** ** parse_point_list (the code as it is now: `while self.matches(TokenType::Number)`) *)
Section PointList.
Hypothesis Hcf : cfr_now cf.
Definition pl_run (f : nat) (acc : list gpoint) (s : pst) := k_loop lm_kops (lm_nofuel _) f (fun fuel st => g_parse_point_list_loop1 cf src fuel st) acc s.
Lemma tie_parse_point_list_loop : forall f s acc,
  backl (unctrl (fun _ => None) (fun l => Some (map Mpoint l))) (pl_run f acc s) = lunit (lmap Some (point_list_loop cf src f (map Mpoint acc) s)).
Proof.
  induction f as [|f IH]; intros s acc; unfold pl_run; [reflexivity|].
  cbn [k_loop point_list_loop]. ls. unfold g_parse_point_list_loop1 at 1. unfold g_LefParser_parse_point_list_loop1 at 1. ls. xs. unfold bind, get, ret.
  rewrite Hcf. bstep. mstep.
  pose proof (IH p (acc ++ [Gpoint l])) as Q. unfold pl_run in Q. rewrite map_app in Q. cbn [map] in Q. rewrite MG_point in Q. exact Q.
Qed.
Lemma tie_parse_point_list : forall s, backl (map Mpoint) (g_parse_point_list cf src s) = lunit (parse_point_list cf src s).
Proof.
  intros s. unfold g_parse_point_list, g_LefParser_parse_point_list, parse_point_list, bind, get. ls. unfold x_fuel at 1. foldloop pl_run.
  pose proof (tie_parse_point_list_loop (fuel_of s) s []) as P. cbn [map] in P. useloop P. reflexivity.
Qed.

Lemma len_lt : forall (A B : Type) (f : A -> B) (l : list A) (n : nat), (Z.of_nat (List.length l) <? Z.of_nat n) = Nat.ltb (List.length (map f l)) n.
Proof. intros. rewrite map_length. destruct (Nat.ltb_spec (List.length l) n); [apply Z.ltb_lt|apply Z.ltb_ge]; lia. Qed.

Lemma tie_parse_geometry : forall s, backl Mgeometry (g_parse_geometry cf src s) = lunit (parse_geometry cf src s).
Proof.
  intros s. unfold g_parse_geometry, g_LefParser_parse_geometry, parse_geometry, bind. ls. unfold x_get_key at 1. unfold lmG. mstep.
  destruct l; cbn [GLefKey]; red1; try apply fail_back.
  - (* PATH *) usetie tie_parse_geometry_mask g_parse_geometry_mask. rwtie tie_parse_iterate g_parse_iterate. mstep.
    usetie tie_parse_point_list g_parse_point_list. unfold when.
    change 2 with (Z.of_nat 2). rewrite (len_lt _ _ Mpoint). destruct (Nat.ltb (List.length (map Mpoint l)) 2).
    + rewrite (fail_lu _ EtInvalidValue). mstep. rewrite bind_ret_id. exact (tie_parse_geometry_tail _ _ _).
    + unfold ret. red1. rewrite bind_ret_id. exact (tie_parse_geometry_tail _ _ _).
  - (* POLYGON *) usetie tie_parse_geometry_mask g_parse_geometry_mask. rwtie tie_parse_iterate g_parse_iterate. mstep.
    usetie tie_parse_point_list g_parse_point_list. unfold when.
    change 3 with (Z.of_nat 3). rewrite (len_lt _ _ Mpoint). destruct (Nat.ltb (List.length (map Mpoint l)) 3).
    + rewrite (fail_lu _ EtInvalidValue). mstep. rewrite bind_ret_id. exact (tie_parse_geometry_tail _ _ _).
    + unfold ret. red1. rewrite bind_ret_id. exact (tie_parse_geometry_tail _ _ _).
  - (* RECT *) usetie tie_parse_geometry_mask g_parse_geometry_mask. rwtie tie_parse_iterate g_parse_iterate. mstep.
    unfold x_parse_point, lmG. mstep. mstep. rewrite bind_ret_id.
    match goal with |- backl _ (_ _ _ _ _ _ ?b (gLefShape_Rect _ ?o (Gpoint ?l1) (Gpoint ?l2)) ?p) = _ =>
      pose proof (tie_parse_geometry_tail b (gLefShape_Rect dec o (Gpoint l1) (Gpoint l2)) p) as T end.
    cbn [Mshape] in T. rewrite !MG_point in T. exact T.
Qed.
End PointList.

Lemma MG_sym : forall x, MLefSymmetry (GLefSymmetry x) = x.
Proof. destruct x; reflexivity. Qed.
Lemma MG_sclass : forall x, MLefSiteClass (GLefSiteClass x) = x.
Proof. destruct x; reflexivity. Qed.
Lemma MG_block : forall x, MLefBlockClassType (GLefBlockClassType x) = x.
Proof. destruct x; reflexivity. Qed.
Lemma MG_pad : forall x, MLefPadClassType (GLefPadClassType x) = x.
Proof. destruct x; reflexivity. Qed.
Lemma MG_core : forall x, MLefCoreClassType (GLefCoreClassType x) = x.
Proof. destruct x; reflexivity. Qed.
Lemma MG_endcap : forall x, MLefEndCapClassType (GLefEndCapClassType x) = x.
Proof. destruct x; reflexivity. Qed.
Lemma MG_prop : forall x, Mproperty (Gproperty x) = x.
Proof. destruct x; reflexivity. Qed.

Lemma tie_parse_pin_direction : forall s, backl Mpin_direction (g_parse_pin_direction cf src s) = lunit (parse_pin_direction cf src s).
Proof.
  intros s. unfold g_parse_pin_direction, g_LefParser_parse_pin_direction, parse_pin_direction, expect_semi, bind, ret, get. ls. xs. mstep. mstep.
  destruct l; cbn [GLefKey]; red1; try flt; repeat mstep.
  bstep; repeat mstep.
Qed.

Lemma tie_parse_macro_class : forall s, backl Mmacro_class (g_parse_macro_class cf src s) = lunit (parse_macro_class cf src s).
Proof.
  intros s. unfold g_parse_macro_class, g_LefParser_parse_macro_class, parse_macro_class, opt_sub, expect_semi, bind, ret, get. ls. xs. mstep. mstep.
  destruct l; cbn [GLefMacroClassName]; red1.
  - bstep; repeat mstep. cbn [Mmacro_class option_map]. rewrite MG_block. reflexivity.
  - bstep; repeat mstep. cbn [Mmacro_class option_map]. rewrite MG_pad. reflexivity.
  - bstep; repeat mstep. cbn [Mmacro_class option_map]. rewrite MG_core. reflexivity.
  - repeat mstep. cbn [Mmacro_class]. rewrite MG_endcap. reflexivity.
  - bstep; repeat mstep.
  - repeat mstep.
Qed.

(** ** parse_symmetries *)
Definition sym_run (f : nat) (acc : list (gLefSymmetry unit Z)) (s : pst) := k_loop lm_kops (lm_nofuel _) f (fun fuel st => g_parse_symmetries_loop1 cf src fuel st) acc s.
Lemma tie_parse_symmetries_loop : forall f s acc,
  backl (unctrl (fun _ => None) (fun l => Some (map MLefSymmetry l))) (sym_run f acc s) = lunit (lmap Some (symm_loop cf src f (map MLefSymmetry acc) s)).
Proof.
  induction f as [|f IH]; intros s acc; unfold sym_run; [reflexivity|].
  cbn [k_loop symm_loop]. ls. unfold g_parse_symmetries_loop1 at 1. unfold g_LefParser_parse_symmetries_loop1 at 1. ls. xs. unfold bind, get, ret.
  bstep. mstep.
  pose proof (IH p (acc ++ [GLefSymmetry l])) as Q. unfold sym_run in Q. rewrite map_app in Q. cbn [map] in Q. rewrite MG_sym in Q. exact Q.
Qed.
Lemma tie_parse_symmetries : forall s, backl (map MLefSymmetry) (g_parse_symmetries cf src s) = lunit (parse_symmetries cf src s).
Proof.
  intros s. unfold g_parse_symmetries, g_LefParser_parse_symmetries, parse_symmetries, expect_semi, bind, get, ret. ls. unfold x_expect_key at 1. unfold lmU. cbn [MLefKey]. mstep.
  unfold x_fuel at 1. foldloop sym_run.
  pose proof (tie_parse_symmetries_loop (fuel_of p) p []) as P. cbn [map] in P. useloop P. xs. repeat mstep.
Qed.

(** ** parse_property *)
Definition prop_run (f : nat) (acc : list (gLefProperty bytes unit Z)) (s : pst) := k_loop lm_kops (lm_nofuel _) f (fun fuel st => g_parse_property_loop1 cf src fuel st) acc s.
Lemma tie_parse_property_loop : forall f s acc,
  backl (unctrl (fun _ => None) (fun l => Some (map Mproperty l))) (prop_run f acc s) = lunit (lmap Some (property_loop cf src f (map Mproperty acc) s)).
Proof.
  induction f as [|f IH]; intros s acc; unfold prop_run; [reflexivity|].
  cbn [k_loop property_loop]. ls. unfold g_parse_property_loop1 at 1. unfold g_LefParser_parse_property_loop1, g_LefParser_peek_token at 1. ls. xs. unfold bind, get, ret.
  bstep. mstep. unfold peek_token. destruct (p_toks p) as [|ti rest]; cbn [option_map].
  - red1. flt.
  - destruct (ti_tok ti) as [ta tb tc ty] eqn:Et. cbn [Gtok gToken_ttype t_ty Gtty].
    destruct ty; cbn [Gtty gTokenType_eqb orb]; red1; try flt.
    all: change (mk_gToken (mk_gSourceLocation ta tb tc) ?g) with (Gtok (mktok ta tb tc (Mtty g))); cbn [Mtty]; rewrite MG_tok; mstep; mstep;
      match goal with |- context [k_loop _ _ _ _ (?ac ++ [?x]) ?q] => pose proof (IH q (ac ++ [x])) as Q end; unfold prop_run in Q; rewrite map_app in Q; exact Q.
Qed.
Lemma tie_parse_property : forall acc s, backl (map Mproperty) (g_parse_property cf src acc s) = lunit (parse_property cf src (map Mproperty acc) s).
Proof.
  intros acc s. unfold g_parse_property, g_LefParser_parse_property, parse_property, expect_semi, bind, get, ret. ls. unfold x_expect_key at 1. unfold lmU. cbn [MLefKey]. mstep.
  unfold x_fuel at 1. foldloop prop_run.
  pose proof (tie_parse_property_loop (fuel_of p) p acc) as P. useloop P. xs. repeat mstep.
Qed.

(** ** parse_units *)
Definition units_run (f : nat) (acc : gLefUnits Z dec unit Z) (s : pst) := k_loop lm_kops (lm_nofuel _) f (fun fuel st => g_parse_units_loop1 cf src fuel st) acc s.
Lemma tie_parse_units_loop : forall f s acc,
  backl (unctrl (fun _ => None) (fun u => Some (Munits u))) (units_run f acc s) = lunit (lmap Some (units_loop cf src f (Munits acc) s)).
Proof.
  induction f as [|f IH]; intros s acc; unfold units_run; [reflexivity|].
  cbn [k_loop units_loop]. ls. unfold g_parse_units_loop1 at 1. unfold g_LefParser_parse_units_loop1 at 1. ls. unfold x_get_key at 1. unfold lmG, unit_stmt, expect_semi, bind, ret. mstep.
  destruct l; cbn [GLefKey]; red1; try flt; xs; repeat mstep;
    try (match goal with |- context [k_loop _ _ _ _ ?u ?q] => exact (IH q u) end).
Qed.
Lemma tie_parse_units : forall s, backl Munits (g_parse_units cf src s) = lunit (parse_units cf src s).
Proof.
  intros s. unfold g_parse_units, g_LefParser_parse_units, parse_units, bind, push, pop, get, ret. ls.
  unfold x_get at 1. unfold x_put at 1. cbn [gLefParser_ctx]. rewrite map_app, map_MG_ctx. cbn [map Mctx].
  unfold x_expect_key at 1. unfold lmU. cbn [MLefKey]. mstep.
  unfold x_fuel at 1. foldloop units_run.
  pose proof (tie_parse_units_loop (fuel_of p) p (mk_gLefUnits Z dec None None None None None None None None)) as P.
  change (Munits (mk_gLefUnits Z dec None None None None None None None None)) with (Build_lef_units None None None None None None None None) in P. useloop P.
  unfold x_get, x_put. cbn [gLefParser_ctx]. unfold k_pop. rewrite R.removelast_map, map_MG_ctx. reflexivity.
Qed.

(** ** expect_and_get_str, get_name, expect_ident (not external in this unit: generated and tied here) *)
Lemma tie_expect_and_get_str : forall t s, g_expect_and_get_str cf src (Gtty t) s = lunit (expect_and_get_str cf src t s).
Proof.
  intros t s. unfold g_expect_and_get_str, g_LefParser_expect_and_get_str, expect_and_get_str, bind. ls. xs. rewrite MG_tty. mstep. rewrite MG_tok. mstep.
Qed.
Lemma tie_get_name : forall s, g_get_name cf src s = lunit (get_name cf src s).
Proof. intros s. exact (tie_expect_and_get_str TName s). Qed.
Lemma tie_expect_ident : forall id s, g_expect_ident cf src id s = lunit (expect_ident cf src id s).
Proof.
  intros id s. unfold g_expect_ident, g_LefParser_expect_ident, expect_ident, bind, ret. ls.
  rwtie tie_get_name g_get_name. mstep. destruct (bytes_eqb b id); [reflexivity|]. apply fail_lu.
Qed.

(** ** parse_site_def: the builder `LefSiteBuilder` is the loop state; the model keeps (class, size, symmetry) *)
Notation sbuilder := (gLefSiteBuilder dec bytes unit Z).
Definition Bsymm (b : sbuilder) : option (list LefSymmetry) :=
  match gLefSiteBuilder_symmetry dec bytes b with Some v => option_map (map MLefSymmetry) v | None => None end.
Definition Bcore (b : sbuilder) : option LefSiteClass * option (dec * dec) * option (list LefSymmetry) :=
  (option_map MLefSiteClass (gLefSiteBuilder_class dec bytes b), gLefSiteBuilder_size dec bytes b, Bsymm b).
Definition Bview (b : sbuilder) := (gLefSiteBuilder_name dec bytes b, gLefSiteBuilder_row_pattern dec bytes b, Bcore b).
Definition site_run (f : nat) (nm : bytes) (acc : sbuilder) (s : pst) :=
  k_loop lm_kops (lm_nofuel _) f (fun fuel st => g_parse_site_def_loop1 cf src fuel nm st) acc s.
Lemma map_MG_sym : forall l, map MLefSymmetry (map GLefSymmetry l) = l.
Proof. induction l as [|c l IH]; [reflexivity|]. cbn [map]. rewrite MG_sym, IH. reflexivity. Qed.
Lemma tie_parse_site_def_loop : forall f s nm b,
  backl (unctrl (fun _ => None) (fun b' => Some (Bview b'))) (site_run f nm b s)
  = lunit (lmap (fun r => Some (gLefSiteBuilder_name dec bytes b, gLefSiteBuilder_row_pattern dec bytes b, r))
                (site_loop cf src f nm (option_map MLefSiteClass (gLefSiteBuilder_class dec bytes b)) (gLefSiteBuilder_size dec bytes b) (Bsymm b) s)).
Proof.
  induction f as [|f IH]; intros s nm b; unfold site_run; [reflexivity|].
  cbn [k_loop site_loop]. ls. unfold g_parse_site_def_loop1 at 1. unfold g_LefParser_parse_site_def_loop1 at 1. ls. unfold x_peek_key at 1. unfold lmG, enum_stmt, expect_semi, bind, ret. mstep.
  destruct l; cbn [GLefKey]; red1; try flt.
  - (* END *) unfold x_advance at 1. unfold lmU. mstep. rwtie tie_expect_ident g_expect_ident. mstep.
  - (* CLASS *) xs. repeat mstep. unfold g_LefSiteBuilder_class. ls.
    match goal with |- context [k_loop _ _ _ _ ?u ?q] => pose proof (IH q nm u) as Q end. unfold site_run in Q.
    cbn [gLefSiteBuilder_class gLefSiteBuilder_size gLefSiteBuilder_name gLefSiteBuilder_row_pattern Bsymm gLefSiteBuilder_symmetry option_map] in Q. rewrite MG_sclass in Q. exact Q.
  - (* SYMMETRY *) usetie tie_parse_symmetries g_parse_symmetries. unfold g_LefSiteBuilder_symmetry. ls.
    match goal with |- context [k_loop _ _ _ _ ?u ?q] => pose proof (IH q nm u) as Q end. unfold site_run in Q.
    cbn [gLefSiteBuilder_class gLefSiteBuilder_size gLefSiteBuilder_name gLefSiteBuilder_row_pattern Bsymm gLefSiteBuilder_symmetry option_map] in Q. exact Q.
  - (* SIZE *) rwtie tie_parse_size g_parse_size. mstep. unfold g_LefSiteBuilder_size. ls.
    match goal with |- context [k_loop _ _ _ _ ?u ?q] => pose proof (IH q nm u) as Q end. unfold site_run in Q.
    cbn [gLefSiteBuilder_class gLefSiteBuilder_size gLefSiteBuilder_name gLefSiteBuilder_row_pattern Bsymm gLefSiteBuilder_symmetry option_map] in Q. exact Q.
Qed.
Lemma tie_parse_site_def : forall s, backl Msite (g_parse_site_def cf src s) = lunit (parse_site_def cf src s).
Proof.
  intros s. unfold g_parse_site_def, g_LefParser_parse_site_def, parse_site_def, bind, push, pop, get, ret. ls.
  unfold x_get at 1. unfold x_put at 1. cbn [gLefParser_ctx]. rewrite map_app, map_MG_ctx. cbn [map Mctx].
  unfold x_expect_key at 1. unfold x_parse_ident at 1. unfold lmU. cbn [MLefKey]. mstep. mstep.
  unfold g_LefSiteBuilder_name at 1. ls. unfold x_fuel at 1.
  cbn [gLefSiteBuilder_class gLefSiteBuilder_size gLefSiteBuilder_name gLefSiteBuilder_row_pattern gLefSiteBuilder_symmetry].
  match goal with |- context [k_loop ?a ?bb ?c ?d ?e ?st] =>
    lazymatch e with mk_gLefSiteBuilder _ _ (Some ?nm) _ _ _ _ => change (k_loop a bb c d e st) with (site_run c nm e st); pose proof (tie_parse_site_def_loop c st nm e) as P end end.
  cbn [gLefSiteBuilder_class gLefSiteBuilder_size gLefSiteBuilder_name gLefSiteBuilder_row_pattern Bsymm gLefSiteBuilder_symmetry option_map] in P.
  match type of P with backl _ ?L = lunit (lmap _ ?Rr) => destruct L as [[[?|sb] ?]| | |]; destruct Rr as [[[[? ?] ?] ?]| | | |] end;
    cbn [backl omap obind lunit lmap fst snd unctrl] in P; try discriminate P; red1; ur.
  inversion P; subst; clear P. destruct sb as [bn bc bs bsy brp]. unfold Bsymm in *.
  cbn [gLefSiteBuilder_class gLefSiteBuilder_size gLefSiteBuilder_name gLefSiteBuilder_row_pattern gLefSiteBuilder_symmetry] in *. subst.
  unfold x_get, x_put. cbn [gLefParser_ctx]. unfold k_pop. rewrite R.removelast_map, map_MG_ctx.
  unfold g_LefSiteBuilder_build. ls. cbn [gLefSiteBuilder_class gLefSiteBuilder_size gLefSiteBuilder_name gLefSiteBuilder_row_pattern gLefSiteBuilder_symmetry].
  destruct bc as [c|]; cbn [option_map]; [|reflexivity]. destruct bs as [sz|]; [|reflexivity]. destruct bsy as [[?|]|]; reflexivity.
Qed.
(** ** parse_bus_bit_chars, parse_divider_char: the characters of the string literal ([chars_of]), the length test, `chars[i]` *)
Lemma len_eq : forall (A : Type) (l : list A) (n : nat), (Z.of_nat (List.length l) =? Z.of_nat n) = Nat.eqb (List.length l) n.
Proof. intros. destruct (Nat.eqb_spec (List.length l) n); [apply Z.eqb_eq|apply Z.eqb_neq]; lia. Qed.
Lemma tie_parse_bus_bit_chars : forall s, g_parse_bus_bit_chars cf src s = lunit (parse_bus_bit_chars cf src s).
Proof.
  intros s. unfold g_parse_bus_bit_chars, g_LefParser_parse_bus_bit_chars, parse_bus_bit_chars, expect_semi, bind, ret. ls. cbn [i_eq v_get].
  change (g_LefParser_expect_and_get_str (lm_xops cf src) bytes (x_expect cf src) (x_txt src) gTokenType_StringLiteral) with (g_expect_and_get_str cf src (Gtty TString)).
  unfold x_expect_key at 1. unfold lmU. cbn [MLefKey]. mstep. rewrite tie_expect_and_get_str. mstep.
  unfold x_chars, x_collect, lm_ret. change 4 with (Z.of_nat 4). rewrite len_eq.
  destruct (chars_of b) as [|c0 [|c1 [|c2 [|c3 [|c4 r]]]]]; cbn [List.length Nat.eqb negb]; try flt.
  xs. mstep.
Qed.
Lemma tie_parse_divider_char : forall s, g_parse_divider_char cf src s = lunit (parse_divider_char cf src s).
Proof.
  intros s. unfold g_parse_divider_char, g_LefParser_parse_divider_char, parse_divider_char, expect_semi, bind, ret. ls. cbn [i_eq v_get].
  change (g_LefParser_expect_and_get_str (lm_xops cf src) bytes (x_expect cf src) (x_txt src) gTokenType_StringLiteral) with (g_expect_and_get_str cf src (Gtty TString)).
  unfold x_expect_key at 1. unfold lmU. cbn [MLefKey]. mstep. rewrite tie_expect_and_get_str. mstep.
  unfold x_chars, x_collect, lm_ret. change 3 with (Z.of_nat 3). rewrite len_eq.
  destruct (chars_of b) as [|c0 [|c1 [|c2 [|c3 r]]]]; cbn [List.length Nat.eqb negb]; try flt.
  xs. mstep.
Qed.
End Ties.
