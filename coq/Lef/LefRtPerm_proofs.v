(** Generic list / permutation lemmas about [interleave], invariance of a run of commuting
    relational steps under kind-stable reorderings, and UTF-8 encoding lemmas for [spec_utf8].
    Self-contained; no axioms. *)
From Coq Require Import ZArith List Bool Lia Arith PeanoNat.
From Coq Require Import Permutation.
From L21 Require Import Lef.LefDec Lef.LefData Lef.LefLex Lef.LefParse Lef.LefSpec Lef.LefLex_proofs.
Import ListNotations.

(* ------------------------------------------------------------------------------------------ *)
(** * Part A: [interleave] *)

Lemma LefRtPerm_insert_by_perm : forall (A : Type) k (x : A) l,
  Permutation (map snd (insert_by k x l)) (x :: map snd l).
Proof.
  intros A k x l. induction l as [|[k' y] r IH]; simpl.
  - apply Permutation_refl.
  - destruct (Nat.leb k' k); simpl.
    + eapply perm_trans; [apply perm_skip, IH | apply perm_swap].
    + apply Permutation_refl.
Qed.

Lemma LefRtPerm_sort_perm : forall (A : Type) keys (l : list A) off,
  Permutation (map snd (sort_by_keys keys off l)) l.
Proof.
  intros A keys l. induction l as [|x r IH]; intros off; simpl.
  - constructor.
  - eapply perm_trans; [apply LefRtPerm_insert_by_perm | apply perm_skip, IH].
Qed.

Lemma LefRtPerm_kinds_perm : forall (A : Type) keys off (items : list (nat * A)),
  Permutation (map (fun e => fst (snd e)) (sort_by_keys keys off items)) (map fst items).
Proof.
  intros A keys off items.
  rewrite <- (map_map snd fst). apply Permutation_map, LefRtPerm_sort_perm.
Qed.

Lemma LefRtPerm_take_kind_perm : forall (A : Type) k0 (pool : list (nat * A)) x pool',
  take_kind k0 pool = Some (x, pool') -> Permutation (map fst pool) (k0 :: map fst pool').
Proof.
  intros A k0 pool. induction pool as [|[k1 y] r IH]; intros x pool' H; simpl in H.
  - discriminate.
  - destruct (Nat.eqb_spec k1 k0) as [E|E].
    + inversion H; subst. simpl. apply Permutation_refl.
    + destruct (take_kind k0 r) as [[z r']|] eqn:T; [|discriminate].
      inversion H; subst. simpl.
      eapply perm_trans; [apply perm_skip, (IH _ _ eq_refl) | apply perm_swap].
Qed.

Lemma LefRtPerm_take_kind_none : forall (A : Type) k0 (pool : list (nat * A)),
  take_kind k0 pool = None -> ~ In k0 (map fst pool).
Proof.
  intros A k0 pool. induction pool as [|[k1 y] r IH]; intros H; simpl in *.
  - tauto.
  - destruct (Nat.eqb_spec k1 k0) as [E|E]; [discriminate|].
    destruct (take_kind k0 r) as [[z r']|] eqn:T; [discriminate|].
    intros [F|F]; [congruence | exact (IH eq_refl F)].
Qed.

Lemma LefRtPerm_take_kind_filter : forall (X : Type) (kind : X -> nat) k0 (pool : list (nat * X)) x pool',
  Forall (fun e => fst e = kind (snd e)) pool ->
  take_kind k0 pool = Some (x, pool') ->
  kind x = k0 /\ Forall (fun e => fst e = kind (snd e)) pool' /\
  forall k, filter (fun x => Nat.eqb (kind x) k) (map snd pool)
            = if Nat.eqb k0 k then x :: filter (fun x => Nat.eqb (kind x) k) (map snd pool')
              else filter (fun x => Nat.eqb (kind x) k) (map snd pool').
Proof.
  intros X kind k0 pool. induction pool as [|[k1 y] r IH]; intros x pool' W H; simpl in H.
  - discriminate.
  - inversion W as [|e l Wy Wr]; subst e l. simpl in Wy.
    destruct (Nat.eqb_spec k1 k0) as [E|E].
    + inversion H; subst. split; [reflexivity|]. split; [assumption|].
      intros k. simpl. destruct (Nat.eqb (kind x) k); reflexivity.
    + destruct (take_kind k0 r) as [[z r']|] eqn:T; [|discriminate].
      inversion H; subst.
      destruct (IH _ _ Wr eq_refl) as [K [W' F]].
      split; [assumption|]. split; [constructor; [simpl; congruence | exact W']|].
      intros k. simpl. rewrite F.
      destruct (Nat.eqb_spec k0 k) as [E2|E2].
      * destruct (Nat.eqb_spec (kind y) k) as [E3|E3]; [congruence | reflexivity].
      * reflexivity.
Qed.

Lemma LefRtPerm_refill_stable : forall (X : Type) (kind : X -> nat) ks (pool : list (nat * X)),
  Forall (fun e => fst e = kind (snd e)) pool ->
  Permutation ks (map fst pool) ->
  forall k, filter (fun x => Nat.eqb (kind x) k) (refill ks pool)
          = filter (fun x => Nat.eqb (kind x) k) (map snd pool).
Proof.
  intros X kind ks. induction ks as [|k0 ks IH]; intros pool W P k.
  - apply Permutation_nil in P. destruct pool; [reflexivity | discriminate].
  - simpl. destruct (take_kind k0 pool) as [[x pool']|] eqn:T.
    + destruct (LefRtPerm_take_kind_filter X kind k0 pool x pool' W T) as [K [W' F]].
      pose proof (LefRtPerm_take_kind_perm _ _ _ _ _ T) as P2.
      assert (P3 : Permutation ks (map fst pool')).
      { eapply Permutation_cons_inv. eapply perm_trans; [exact P | exact P2]. }
      rewrite F. simpl. rewrite K. rewrite (IH pool' W' P3 k). reflexivity.
    + exfalso. apply (LefRtPerm_take_kind_none _ _ _ T).
      eapply Permutation_in; [exact P | left; reflexivity].
Qed.

Lemma LefRtPerm_refill_length : forall (A : Type) ks (pool : list (nat * A)),
  Permutation ks (map fst pool) -> length (refill ks pool) = length pool.
Proof.
  intros A ks. induction ks as [|k0 ks IH]; intros pool P.
  - apply Permutation_nil in P. destruct pool; [reflexivity | discriminate].
  - simpl. destruct (take_kind k0 pool) as [[x pool']|] eqn:T.
    + pose proof (LefRtPerm_take_kind_perm _ _ _ _ _ T) as P2.
      assert (P3 : Permutation ks (map fst pool')).
      { eapply Permutation_cons_inv. eapply perm_trans; [exact P | exact P2]. }
      simpl. rewrite (IH pool' P3).
      apply Permutation_length in P2. simpl in P2. rewrite !map_length in P2. symmetry; exact P2.
    + exfalso. apply (LefRtPerm_take_kind_none _ _ _ T).
      eapply Permutation_in; [exact P | left; reflexivity].
Qed.

Lemma LefRtPerm_tagged_wf : forall (X : Type) (kind : X -> nat) (L : list X),
  Forall (fun e => fst e = kind (snd e)) (map (fun x => (kind x, x)) L).
Proof. intros X kind L. induction L; simpl; constructor; auto. Qed.

Lemma LefRtPerm_tagged_snd : forall (X : Type) (kind : X -> nat) (L : list X),
  map snd (map (fun x => (kind x, x)) L) = L.
Proof. intros X kind L. induction L; simpl; congruence. Qed.

Lemma interleave_kind_stable : forall (X : Type) (kind : X -> nat) (keys : list nat) (off : nat) (L : list X) (k : nat),
  filter (fun x => Nat.eqb (kind x) k) (interleave keys off (map (fun x => (kind x, x)) L))
  = filter (fun x => Nat.eqb (kind x) k) L.
Proof.
  intros X kind keys off L k. unfold interleave.
  rewrite (LefRtPerm_refill_stable X kind _ _ (LefRtPerm_tagged_wf X kind L)
             (LefRtPerm_kinds_perm _ keys off _) k).
  rewrite LefRtPerm_tagged_snd. reflexivity.
Qed.

Lemma interleave_length : forall (X : Type) (kind : X -> nat) keys off (L : list X),
  length (interleave keys off (map (fun x => (kind x, x)) L)) = length L.
Proof.
  intros X kind keys off L. unfold interleave.
  rewrite (LefRtPerm_refill_length _ _ _ (LefRtPerm_kinds_perm _ keys off _)).
  apply map_length.
Qed.

(** naturality *)
Lemma LefRtPerm_insert_by_map : forall (A B : Type) (g : A -> B) k x (l : list (nat * A)),
  insert_by k (g x) (map (fun p => (fst p, g (snd p))) l)
  = map (fun p => (fst p, g (snd p))) (insert_by k x l).
Proof.
  intros A B g k x l. induction l as [|[k' y] r IH]; simpl.
  - reflexivity.
  - destruct (Nat.leb k' k); simpl; [rewrite IH|]; reflexivity.
Qed.

Lemma LefRtPerm_sort_map : forall (A B : Type) (g : A -> B) keys (l : list A) off,
  sort_by_keys keys off (map g l) = map (fun p => (fst p, g (snd p))) (sort_by_keys keys off l).
Proof.
  intros A B g keys l. induction l as [|x r IH]; intros off; simpl.
  - reflexivity.
  - rewrite IH. apply LefRtPerm_insert_by_map.
Qed.

Lemma LefRtPerm_take_kind_map : forall (X Y : Type) (f : X -> Y) k (pool : list (nat * X)),
  take_kind k (map (fun e => (fst e, f (snd e))) pool)
  = match take_kind k pool with
    | Some (x, p) => Some (f x, map (fun e => (fst e, f (snd e))) p)
    | None => None
    end.
Proof.
  intros X Y f k pool. induction pool as [|[k1 y] r IH]; simpl.
  - reflexivity.
  - destruct (Nat.eqb k1 k); [reflexivity|].
    rewrite IH. destruct (take_kind k r) as [[z r']|]; reflexivity.
Qed.

Lemma LefRtPerm_refill_map : forall (X Y : Type) (f : X -> Y) ks (pool : list (nat * X)),
  refill ks (map (fun e => (fst e, f (snd e))) pool) = map f (refill ks pool).
Proof.
  intros X Y f ks. induction ks as [|k ks IH]; intros pool; simpl.
  - reflexivity.
  - rewrite LefRtPerm_take_kind_map.
    destruct (take_kind k pool) as [[z r']|]; simpl; rewrite IH; reflexivity.
Qed.

Lemma interleave_map : forall (X Y : Type) (f : X -> Y) keys off (items : list (nat * X)),
  interleave keys off (map (fun e => (fst e, f (snd e))) items) = map f (interleave keys off items).
Proof.
  intros X Y f keys off items. unfold interleave.
  rewrite LefRtPerm_sort_map, map_map. simpl.
  apply LefRtPerm_refill_map.
Qed.

(* ------------------------------------------------------------------------------------------ *)
(** * Part B: runs of relational steps *)
Section Steps.
  Context {S X : Type} (kind : X -> nat) (step : X -> S -> S -> Prop).
  Fixpoint steps (L : list X) (s s2 : S) : Prop :=
    match L with [] => s = s2 | x :: L' => exists s1, step x s s1 /\ steps L' s1 s2 end.
  Hypothesis comm : forall x y s s2, kind x <> kind y ->
    (exists s1, step x s s1 /\ step y s1 s2) -> exists s1, step y s s1 /\ step x s1 s2.

  Lemma steps_app : forall L1 L2 s s2, steps (L1 ++ L2) s s2 <-> exists s1, steps L1 s s1 /\ steps L2 s1 s2.
  Proof.
    induction L1 as [|a L1 IH]; simpl; intros L2 s s2.
    - split.
      + intros H. exists s. auto.
      + intros [s1 [E H]]. subst. exact H.
    - split.
      + intros [s1 [H1 H2]]. apply IH in H2. destruct H2 as [s3 [H3 H4]].
        exists s3. split; [exists s1; auto | exact H4].
      + intros [s3 [[s1 [H1 H2]] H4]]. exists s1. split; [exact H1|].
        apply IH. exists s3. auto.
  Qed.

  Lemma LefRtPerm_first_of_kind : forall a F L,
    filter (fun x => Nat.eqb (kind x) (kind a)) L = a :: F ->
    exists L1 L2, L = L1 ++ a :: L2 /\ Forall (fun x => kind x <> kind a) L1.
  Proof.
    intros a F L. induction L as [|x L' IH]; simpl; intros H.
    - discriminate.
    - destruct (Nat.eqb_spec (kind x) (kind a)) as [E|E].
      + inversion H; subst. exists [], L'. split; [reflexivity | constructor].
      + destruct (IH H) as [L1 [L2 [E1 F1]]]. subst L'.
        exists (x :: L1), L2. split; [reflexivity | constructor; assumption].
  Qed.

  Lemma LefRtPerm_move_front : forall a L2 L1 s s2,
    Forall (fun x => kind x <> kind a) L1 ->
    steps (L1 ++ a :: L2) s s2 -> steps (a :: L1 ++ L2) s s2.
  Proof.
    intros a L2 L1. induction L1 as [|x L1 IH]; intros s s2 HF H.
    - exact H.
    - inversion HF as [|y l Hx HF']; subst.
      simpl in H. destruct H as [s1 [H1 H2]].
      apply (IH _ _ HF') in H2. simpl in H2. destruct H2 as [s3 [H3 H4]].
      destruct (comm x a s s3 Hx (ex_intro _ s1 (conj H1 H3))) as [t [T1 T2]].
      simpl. exists t. split; [exact T1|]. exists s3. split; assumption.
  Qed.

  Lemma LefRtPerm_filter_none : forall a L1, Forall (fun x => kind x <> kind a) L1 ->
    filter (fun x => Nat.eqb (kind x) (kind a)) L1 = [].
  Proof.
    intros a L1 H. induction H as [|x l Hx _ IH]; simpl.
    - reflexivity.
    - destruct (Nat.eqb_spec (kind x) (kind a)); [contradiction | exact IH].
  Qed.

  Lemma LefRtPerm_filter_remove : forall a L1 L2 L0' k,
    Forall (fun x => kind x <> kind a) L1 ->
    filter (fun x => Nat.eqb (kind x) k) (L1 ++ a :: L2) = filter (fun x => Nat.eqb (kind x) k) (a :: L0') ->
    filter (fun x => Nat.eqb (kind x) k) (L1 ++ L2) = filter (fun x => Nat.eqb (kind x) k) L0'.
  Proof.
    intros a L1 L2 L0' k HF H.
    rewrite filter_app in *. simpl in H.
    destruct (Nat.eqb_spec (kind a) k) as [E|E].
    - subst k. rewrite (LefRtPerm_filter_none a L1 HF) in *. simpl in *.
      inversion H. reflexivity.
    - exact H.
  Qed.

  Lemma LefRtPerm_filters_nil : forall L : list X,
    (forall k, filter (fun x => Nat.eqb (kind x) k) L = []) -> L = [].
  Proof.
    intros [|x L] H; [reflexivity|].
    specialize (H (kind x)). simpl in H. rewrite Nat.eqb_refl in H. discriminate.
  Qed.

  Lemma steps_perm : forall L0 L,
    (forall k, filter (fun x => Nat.eqb (kind x) k) L = filter (fun x => Nat.eqb (kind x) k) L0) ->
    forall s s2, steps L s s2 -> steps L0 s s2.
  Proof.
    induction L0 as [|a L0 IH]; intros L HF s s2 HS.
    - simpl in HF. rewrite (LefRtPerm_filters_nil L HF) in HS. exact HS.
    - pose proof (HF (kind a)) as Ha. simpl in Ha. rewrite Nat.eqb_refl in Ha.
      destruct (LefRtPerm_first_of_kind _ _ _ Ha) as [L1 [L2 [E F1]]]. subst L.
      apply (LefRtPerm_move_front a L2 L1 s s2 F1) in HS.
      simpl in HS. destruct HS as [s1 [H1 H2]].
      simpl. exists s1. split; [exact H1|].
      apply (IH (L1 ++ L2)); [|exact H2].
      intros k. eapply LefRtPerm_filter_remove; [exact F1 | apply HF].
  Qed.
End Steps.

(* ------------------------------------------------------------------------------------------ *)
(** * Part C: UTF-8 *)
Local Open Scope Z_scope.
Local Ltac Zify.zify_post_hook ::= Z.div_mod_to_equations.

Definition scalar_ok (c : Z) : Prop := 0 <= c < 1114112 /\ ~ (55296 <= c < 57344).

Ltac LefRtPerm_ltb :=
  repeat match goal with
  | |- context [Z.ltb ?a ?b] => destruct (Z.ltb_spec a b)
  end.

Lemma LefRtPerm_is_cont_intro : forall b, 128 <= b < 192 -> is_cont b = true.
Proof.
  intros b H. unfold is_cont. apply andb_true_intro. split; [apply Z.leb_le | apply Z.ltb_lt]; lia.
Qed.

Lemma LefRtPerm_is_cont_mod : forall x, is_cont (128 + x mod 64) = true.
Proof. intros x. apply LefRtPerm_is_cont_intro. lia. Qed.

Lemma LefRtPerm_not_cont : forall b, b < 128 \/ 192 <= b -> is_cont b = false.
Proof.
  intros b H. unfold is_cont. apply andb_false_iff.
  destruct H; [left; apply Z.leb_gt | right; apply Z.ltb_ge]; lia.
Qed.

Lemma spec_utf8_U8 : forall c, scalar_ok c -> U8 (spec_utf8 c).
Proof.
  intros c [H1 H2]. unfold spec_utf8.
  destruct (Z.ltb_spec c 128); [apply U8_1; [lia | constructor]|].
  destruct (Z.ltb_spec c 2048).
  { apply U8_2; [lia | apply LefRtPerm_is_cont_mod | constructor]. }
  destruct (Z.ltb_spec c 65536).
  { apply U8_3; [lia | apply LefRtPerm_is_cont_mod | apply LefRtPerm_is_cont_mod
                | intros; lia | intros; lia | constructor]. }
  apply U8_4; [lia | apply LefRtPerm_is_cont_mod | apply LefRtPerm_is_cont_mod
              | apply LefRtPerm_is_cont_mod | intros; lia | intros; lia | constructor].
Qed.

Lemma spec_utf8_cp_at : forall c r, scalar_ok c -> cp_at (spec_utf8 c ++ r) = c.
Proof.
  intros c r [H1 H2]. unfold spec_utf8.
  destruct (Z.ltb_spec c 128).
  { unfold cp_at; cbn [app]. LefRtPerm_ltb; lia. }
  destruct (Z.ltb_spec c 2048).
  { unfold cp_at; cbn [app]. LefRtPerm_ltb; lia. }
  destruct (Z.ltb_spec c 65536).
  { unfold cp_at; cbn [app]. LefRtPerm_ltb; lia. }
  unfold cp_at; cbn [app]. LefRtPerm_ltb; lia.
Qed.

Lemma spec_utf8_head : forall c, scalar_ok c ->
  exists b t, spec_utf8 c = b :: t /\ is_cont b = false /\ forallb is_cont t = true.
Proof.
  intros c [H1 H2]. unfold spec_utf8.
  destruct (Z.ltb_spec c 128).
  { eexists; eexists; split; [reflexivity|]. split; [apply LefRtPerm_not_cont; lia | reflexivity]. }
  destruct (Z.ltb_spec c 2048).
  { eexists; eexists; split; [reflexivity|]. split; [apply LefRtPerm_not_cont; lia|].
    cbn [forallb]. rewrite !LefRtPerm_is_cont_mod. reflexivity. }
  destruct (Z.ltb_spec c 65536).
  { eexists; eexists; split; [reflexivity|]. split; [apply LefRtPerm_not_cont; lia|].
    cbn [forallb]. rewrite !LefRtPerm_is_cont_mod. reflexivity. }
  eexists; eexists; split; [reflexivity|]. split; [apply LefRtPerm_not_cont; lia|].
  cbn [forallb]. rewrite !LefRtPerm_is_cont_mod. reflexivity.
Qed.

Lemma LefRtPerm_chars_of_lead : forall b s, is_cont b = false ->
  chars_of (b :: s) = cp_at (b :: s) :: chars_of s.
Proof. intros b s H. cbn [chars_of]. rewrite H. reflexivity. Qed.

Lemma LefRtPerm_chars_of_conts : forall t r, forallb is_cont t = true -> chars_of (t ++ r) = chars_of r.
Proof.
  intros t r. induction t as [|b t IH]; intros H.
  - reflexivity.
  - cbn [forallb] in H. apply andb_prop in H. destruct H as [Hb Ht].
    cbn [app chars_of]. rewrite Hb. apply IH, Ht.
Qed.

Lemma spec_utf8_chars_of : forall c r, scalar_ok c -> chars_of (spec_utf8 c ++ r) = c :: chars_of r.
Proof.
  intros c r H.
  pose proof (spec_utf8_cp_at c r H) as Hc.
  destruct (spec_utf8_head c H) as [b [t [E [Hb Ht]]]].
  rewrite E in *. cbn [app] in *.
  rewrite (LefRtPerm_chars_of_lead b (t ++ r) Hb), Hc, (LefRtPerm_chars_of_conts t r Ht).
  reflexivity.
Qed.

Lemma char_ok_scalar : forall c, char_ok c = true -> scalar_ok c /\ c <> 34 /\ 32 < c.
Proof.
  intros c H. unfold char_ok in H. unfold scalar_ok.
  repeat match type of H with
  | context [Z.ltb ?a ?b] => destruct (Z.ltb_spec a b)
  | context [Z.leb ?a ?b] => destruct (Z.leb_spec a b)
  | context [Z.eqb ?a ?b] => destruct (Z.eqb_spec a b)
  end; cbn [andb negb] in H; try discriminate; lia.
Qed.

Lemma U8_cp_at_app : forall s r, U8 s -> s <> [] -> cp_at (s ++ r) = cp_at s.
Proof.
  intros s r H N. inversion H; subst; try congruence;
    unfold cp_at; cbn [app]; LefRtPerm_ltb; try reflexivity; lia.
Qed.

Lemma U8_cp_at_ge : forall b s, U8 (b :: s) -> 128 <= b -> 128 <= cp_at (b :: s).
Proof.
  intros b s H G. inversion H; subst;
    repeat match goal with Hc : is_cont _ = true |- _ => apply cont_not_ascii in Hc end;
    unfold cp_at; LefRtPerm_ltb; lia.
Qed.

Print Assumptions steps_perm.
Print Assumptions interleave_kind_stable.
Print Assumptions spec_utf8_chars_of.
