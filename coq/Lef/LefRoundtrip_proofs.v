(** C04: lemmas about reading the rendering of a library (Lef/LefSpec.v render, Lef/LefParse.v parse).

    Part 1 (this section): closed witnesses. For each defect flag of [cfg] that bears on C04, a supported
    library and a well-formed style whose rendering the code as found does not read back, while the
    repaired code does. *)
From Coq Require Import ZArith List String Bool Lia.
From L21 Require Import Lef.LefDec Lef.LefData Lef.LefLex Lef.LefParse Lef.LefWrite Lef.LefSpec Lef.LefCheck.
From L21 Require Import Gen.LefKeysGen.
Import ListNotations.
Local Open Scope Z_scope.

(** the reader returns a library equal to [l] (decimals numerically) *)
Definition reads_back (cf : cfg) (sty : style) (l : lef_lib) : bool :=
  match parse cf (render sty l) with Ok l' => lef_eq l l' | _ => false end.

(** one defect at a time *)
Definition cfg_only_charpos : cfg := mkcfg true false false false false false false false.
Definition cfg_only_drop_props : cfg := mkcfg false true false false false false false false.
Definition cfg_only_points_to_semi : cfg := mkcfg false false true false false false false false.
Definition cfg_only_dbu_mantissa : cfg := mkcfg false false false true false false false false.

Definition LefRt_sty_plain : style := mkstyle [] [[SWs 32]] [SWs 10] None [] [] [] false true.
(** a comment with a two-byte character between the tokens *)
Definition LefRt_sty_comment : style :=
  mkstyle [] [[SWs 32; SComment [195; 169]]] [SWs 10] None [] [] [] false true.
(** numbers written with one extra trailing zero: 100.0 *)
Definition LefRt_sty_zeros : style :=
  mkstyle [] [[SWs 32]] [SWs 10] None [] [mknumsp 0 false 1 false] [] false true.

Definition LefRt_lib_macro : lef_lib := set_lib_macros [empty_macro (bs "m")] empty_lib.
Definition LefRt_lib_macro_prop : lef_lib :=
  set_lib_macros [set_mac_properties [Build_lef_property (bs "p") (bs "v")] (empty_macro (bs "m"))] empty_lib.
Definition LefRt_lib_pin_prop : lef_lib :=
  set_lib_macros [set_mac_pins [set_pin_properties [Build_lef_property (bs "p") (bs "v")] (empty_pin (bs "a"))]
                               (empty_macro (bs "m"))] empty_lib.
Definition LefRt_pt (x y : Z) : lef_point := Build_lef_point (dec_of_Z x) (dec_of_Z y).
Definition LefRt_lib_iterate : lef_lib :=
  set_lib_macros
    [set_mac_obs [Build_lef_layer_geoms (bs "l")
                    [GIterate (ShPolygon None [LefRt_pt 0 0; LefRt_pt 1 0; LefRt_pt 1 1])
                              (Build_lef_step (dec_of_Z 2) (dec_of_Z 3) (dec_of_Z 4) (dec_of_Z 5))]
                    [] None None None]
                 (empty_macro (bs "m"))] empty_lib.
Definition LefRt_lib_dbu : lef_lib :=
  set_lib_units (Some (Build_lef_units (Some 100) None None None None None None None)) empty_lib.

Lemma LefRt_witnesses_supported :
  forallb (fun sl => lib_supportedb (snd sl) && style_okb (fst sl) (snd sl) && utf8_validb (render (fst sl) (snd sl)))
          [(LefRt_sty_comment, LefRt_lib_macro); (LefRt_sty_plain, LefRt_lib_macro_prop); (LefRt_sty_plain, LefRt_lib_pin_prop);
           (LefRt_sty_plain, LefRt_lib_iterate); (LefRt_sty_zeros, LefRt_lib_dbu)] = true.
Proof. vm_compute. reflexivity. Qed.

Lemma LefRt_charpos_refuted :
  reads_back cfg_only_charpos LefRt_sty_comment LefRt_lib_macro = false
  /\ reads_back cfg_fixed LefRt_sty_comment LefRt_lib_macro = true.
Proof. split; vm_compute; reflexivity. Qed.
Lemma LefRt_drop_props_refuted :
  reads_back cfg_only_drop_props LefRt_sty_plain LefRt_lib_macro_prop = false
  /\ reads_back cfg_only_drop_props LefRt_sty_plain LefRt_lib_pin_prop = false
  /\ reads_back cfg_fixed LefRt_sty_plain LefRt_lib_macro_prop = true
  /\ reads_back cfg_fixed LefRt_sty_plain LefRt_lib_pin_prop = true.
Proof. split; [|split; [|split]]; vm_compute; reflexivity. Qed.
Lemma LefRt_points_to_semi_refuted :
  reads_back cfg_only_points_to_semi LefRt_sty_plain LefRt_lib_iterate = false
  /\ reads_back cfg_fixed LefRt_sty_plain LefRt_lib_iterate = true.
Proof. split; vm_compute; reflexivity. Qed.
Lemma LefRt_dbu_mantissa_refuted :
  reads_back cfg_only_dbu_mantissa LefRt_sty_zeros LefRt_lib_dbu = false
  /\ reads_back cfg_fixed LefRt_sty_zeros LefRt_lib_dbu = true.
Proof. split; vm_compute; reflexivity. Qed.

(** Part 2: the tables of the hand-written model equal the tables regenerated from lef21/src/data.rs on every
    run (Gen/LefKeysGen.v, tools/translate_lef_keys.py). *)
Definition LefRt_model_enums : list (String.string * list (String.string * String.string)) := [
  ("LefKey", map snd LefKey_table); ("LefOnOff", map snd LefOnOff_table);
  ("LefClearanceStyle", map snd LefClearanceStyle_table); ("LefDefSource", map snd LefDefSource_table);
  ("LefSymmetry", map snd LefSymmetry_table); ("LefOrient", map snd LefOrient_table);
  ("LefPinUse", map snd LefPinUse_table); ("LefPinShape", map snd LefPinShape_table);
  ("LefMacroClassName", map snd LefMacroClassName_table); ("LefPadClassType", map snd LefPadClassType_table);
  ("LefEndCapClassType", map snd LefEndCapClassType_table); ("LefBlockClassType", map snd LefBlockClassType_table);
  ("LefCoreClassType", map snd LefCoreClassType_table); ("LefPortClass", map snd LefPortClass_table);
  ("LefSiteClass", map snd LefSiteClass_table); ("LefAntennaModel", map snd LefAntennaModel_table);
  ("LefPropertyDefinitionObjectType", map snd LefPropertyDefinitionObjectType_table)
]%string.
Lemma LefRt_keys_tied : LefRt_model_enums = gen_lef_enums.
Proof. vm_compute. reflexivity. Qed.
