(** Model of lef21/src/read.rs: LefLexer, Token::substr.

    The source is a list of UTF-8 bytes (Rust `&str`). `Chars` iteration is modelled on bytes: a
    character is its lead byte followed by continuation bytes (0x80..0xBF); [cp_at] decodes the
    scalar value at the head of the remaining input.

    Positions. The code counts `pos`, `start`, `linestart` in CHARACTERS (`self.pos += 1` per
    `next_char`) but slices the source by BYTES (`Token::substr`, `lex_number`'s
    `&buf[0..pos-start-1]`, `LefParser::state`). The model takes the counting unit as the
    parameter [cm]:
      cm = true   the original code: positions advance by one per character;
      cm = false  the repaired code (work/lef/fix-lexer-byte-offsets.patch): positions advance by
                  `len_utf8`, i.e. by one per byte.
    Slicing is always by bytes with Rust's `str` indexing contract made explicit: out of range or
    not on a character boundary is [None], which callers turn into Panic.

    `next_token`'s one-token lookahead is modelled eagerly: [lex_all] produces the list of
    significant tokens, each with the lexer state right after it (what `LefParser::state` reads
    while that token is the lookahead), and how the stream ends (end of input, a `LefError::Lex`,
    a panic). The parser model consumes this list; the lexer never depends on the parser.

    Character classes: ASCII by explicit comparisons, non-ASCII by the range tables generated from
    the Rust toolchain (Gen/UnicodeGen.v). No proofs in this file. *)
From Coq Require Import ZArith List Bool.
From L21 Require Import Lef.LefDec Gen.UnicodeGen.
Import ListNotations.
Local Open Scope Z_scope.

(** * Character classes (scalar values) *)
Fixpoint in_ranges (rs : list (Z * Z)) (c : Z) : bool :=
  match rs with
  | [] => false
  | (a, b) :: r => if c <? a then false else if c <=? b then true else in_ranges r c
  end.
(** `char::is_whitespace` *)
Definition is_whitespace (c : Z) : bool :=
  if c <? 128 then ((9 <=? c) && (c <=? 13)) || (c =? 32) else in_ranges gen_ws_ranges c.
(** `char::is_ascii_whitespace`: space, \t, \n, \x0C, \r *)
Definition is_ascii_whitespace (c : Z) : bool :=
  (c =? 32) || (c =? 9) || (c =? 10) || (c =? 12) || (c =? 13).
(** `char::is_digit(10)` *)
Definition is_digit10 (c : Z) : bool := (48 <=? c) && (c <=? 57).
(** `char::is_alphabetic` *)
Definition is_alphabetic (c : Z) : bool :=
  if c <? 128 then ((65 <=? c) && (c <=? 90)) || ((97 <=? c) && (c <=? 122))
  else in_ranges gen_alpha_ranges c.

(** * UTF-8 *)
Definition is_cont (b : Z) : bool := (128 <=? b) && (b <? 192).
(** scalar value of the character at the head of [s] (s starts on a character boundary) *)
Definition cp_at (s : bytes) : Z :=
  match s with
  | [] => 0
  | b0 :: r =>
    if b0 <? 128 then b0
    else if b0 <? 224 then
      match r with b1 :: _ => (b0 - 192) * 64 + (b1 - 128) | _ => 65533 end
    else if b0 <? 240 then
      match r with b1 :: b2 :: _ => (b0 - 224) * 4096 + (b1 - 128) * 64 + (b2 - 128) | _ => 65533 end
    else
      match r with
      | b1 :: b2 :: b3 :: _ => (b0 - 240) * 262144 + (b1 - 128) * 4096 + (b2 - 128) * 64 + (b3 - 128)
      | _ => 65533
      end
  end.
(** `char::len_utf8` from the lead byte *)
Definition lead_len (b0 : Z) : Z :=
  if b0 <? 128 then 1 else if b0 <? 224 then 2 else if b0 <? 240 then 3 else 4.

(** Well-formed UTF-8 (what Rust guarantees for `&str`), as a checker. Overlong forms, surrogates
    and values above 0x10FFFF are rejected like `str::from_utf8` does. *)
Fixpoint utf8_validb_fuel (fuel : nat) (s : bytes) : bool :=
  match fuel with
  | O => match s with [] => true | _ => false end
  | S f =>
    match s with
    | [] => true
    | b0 :: r =>
      if (0 <=? b0) && (b0 <? 128) then utf8_validb_fuel f r
      else if (194 <=? b0) && (b0 <? 224) then
        match r with
        | b1 :: r' => is_cont b1 && utf8_validb_fuel f r'
        | _ => false
        end
      else if (224 <=? b0) && (b0 <? 240) then
        match r with
        | b1 :: b2 :: r' =>
          is_cont b1 && is_cont b2
          && (if b0 =? 224 then 160 <=? b1 else true)
          && (if b0 =? 237 then b1 <? 160 else true)
          && utf8_validb_fuel f r'
        | _ => false
        end
      else if (240 <=? b0) && (b0 <? 245) then
        match r with
        | b1 :: b2 :: b3 :: r' =>
          is_cont b1 && is_cont b2 && is_cont b3
          && (if b0 =? 240 then 144 <=? b1 else true)
          && (if b0 =? 244 then b1 <? 144 else true)
          && utf8_validb_fuel f r'
        | _ => false
        end
      else false
    end
  end.
Definition utf8_validb (s : bytes) : bool := utf8_validb_fuel (length s) s.
Definition utf8_valid (s : bytes) : Prop := utf8_validb s = true.

(** * Byte slicing with Rust's `str` index contract *)
Fixpoint drop (n : nat) (s : bytes) : option bytes :=
  match n with
  | O => Some s
  | S k => match s with [] => None | _ :: r => drop k r end
  end.
Fixpoint take (n : nat) (s : bytes) : option (bytes * bytes) :=
  match n with
  | O => Some ([], s)
  | S k => match s with
           | [] => None
           | b :: r => match take k r with Some (p, q) => Some (b :: p, q) | None => None end
           end
  end.
(** [s] (a suffix of the source) starts on a character boundary *)
Definition starts_on_boundary (s : bytes) : bool :=
  match s with [] => true | b :: _ => negb (is_cont b) end.
(** `&src[a..b]`: [None] = the index expression panics *)
Definition slice (src : bytes) (a b : Z) : option bytes :=
  if (0 <=? a) && (a <=? b) then
    match drop (Z.to_nat a) src with
    | None => None
    | Some s1 =>
      if starts_on_boundary s1 then
        match take (Z.to_nat (b - a)) s1 with
        | Some (p, q) => if starts_on_boundary q then Some p else None
        | None => None
        end
      else None
    end
  else None.

(** * Tokens *)
Inductive ttype := TName | TNumber | TSemi | TString | TNewLine | TWhiteSpace | TComment | TEnd.
Definition ttype_eqb (a b : ttype) : bool :=
  match a, b with
  | TName, TName | TNumber, TNumber | TSemi, TSemi | TString, TString
  | TNewLine, TNewLine | TWhiteSpace, TWhiteSpace | TComment, TComment | TEnd, TEnd => true
  | _, _ => false
  end.
Record token := mktok { t_start : Z; t_stop : Z; t_line : Z; t_ty : ttype }.

(** `Token::substr` *)
Definition substr (src : bytes) (t : token) : option bytes := slice src (t_start t) (t_stop t).

(** * The lexer *)
(** position after consuming byte [b]: per character (cm) or per byte *)
Definition adv (cm : bool) (b pos : Z) : Z := if cm && is_cont b then pos else pos + 1.

(** the continuation bytes of the character whose lead byte has just been consumed *)
Fixpoint skip_conts (cm : bool) (s : bytes) (pos : Z) : bytes * Z :=
  match s with
  | b :: r => if is_cont b then skip_conts cm r (adv cm b pos) else (s, pos)
  | [] => ([], pos)
  end.
(** `self.next_char()` when a character is available: consume one character *)
Definition next_char (cm : bool) (s : bytes) (pos : Z) : bytes * Z :=
  match s with
  | [] => ([], pos)
  | b :: r => skip_conts cm r (adv cm b pos)
  end.
(** `while self.accept(p) { continue; }` -- [s] starts on a character boundary *)
Fixpoint accept_while (cm : bool) (p : Z -> bool) (s : bytes) (pos : Z) : bytes * Z :=
  match s with
  | [] => ([], pos)
  | b :: r =>
    if is_cont b then accept_while cm p r (adv cm b pos)
    else if p (cp_at s) then accept_while cm p r (adv cm b pos)
    else (s, pos)
  end.

Inductive lex1 :=
| L1None                                               (* end of input *)
| L1Tok (t : token) (rem : bytes) (pos line linestart : Z)
| L1Fail (ch line pos : Z)                             (* LefError::Lex *)
| L1Panic.

Definition not_ws (c : Z) : bool := negb (is_whitespace c).

(** `lex_number`: [rem] = lead :: buf, nothing consumed yet *)
Definition lex_number (cm : bool) (lead : Z) (buf rem : bytes) (pos line linestart : Z) : lex1 :=
  let start := pos in
  let '(r2, p2) := accept_while cm not_ws rem pos in
  let n := p2 - start - 1 in
  (* let subbuf = &buf[0..self.pos - self.start - 1]; *)
  match (if 0 <=? n then take (Z.to_nat n) buf else None) with
  | None => L1Panic
  | Some (subbuf, q) =>
    if starts_on_boundary q then
      let nstring := lead :: subbuf in
      let ty := if is_rust_float nstring then TNumber else TName in
      L1Tok (mktok start p2 line ty) r2 p2 line linestart
    else L1Panic
  end.

(** `lex_one` *)
Definition lex_one (cm : bool) (rem : bytes) (pos line linestart : Z) : lex1 :=
  match rem with
  | [] => L1None
  | b :: r =>
    let c := cp_at rem in
    let start := pos in
    let '(r1, p1) := next_char cm rem pos in
    if c =? 10 then                                     (* lex_newline *)
      L1Tok (mktok start p1 line TNewLine) r1 p1 (line + 1) p1
    else if is_whitespace c then                        (* lex_whitespace *)
      let '(r2, p2) := accept_while cm (fun c => is_ascii_whitespace c && negb (c =? 10)) r1 p1 in
      L1Tok (mktok start p2 line TWhiteSpace) r2 p2 line linestart
    else if c =? 59 then
      L1Tok (mktok start p1 line TSemi) r1 p1 line linestart
    else if c =? 34 then                                (* lex_string_literal *)
      let '(r2, p2) := accept_while cm (fun c => negb (c =? 34)) r1 p1 in
      let '(r3, p3) := next_char cm r2 p2 in            (* bump over the closing quote, if any *)
      L1Tok (mktok start p3 line TString) r3 p3 line linestart
    else if c =? 35 then                                (* lex_comment *)
      let '(r2, p2) := accept_while cm (fun c => negb (c =? 10)) r1 p1 in
      L1Tok (mktok start p2 line TComment) r2 p2 line linestart
    else if is_digit10 c || (c =? 46) || (c =? 45) then
      lex_number cm b r rem pos line linestart
    else if is_alphabetic c then                        (* lex_name *)
      let '(r2, p2) := accept_while cm not_ws r1 p1 in
      L1Tok (mktok start p2 line TName) r2 p2 line linestart
    else L1Fail c line pos
  end.

(** A significant token together with the lexer state right after it was lexed
    (pos = t_stop, line = t_line). *)
Record tokinfo := mkti { ti_tok : token; ti_rem : bytes; ti_linestart : Z }.

Inductive lex_end :=
| LEof (pos line linestart : Z)        (* `_next_token` returned None; lexer state at that point *)
| LErr (ch line pos : Z)               (* LefError::Lex { next_char: Some(ch), line, pos } *)
| LPanic
| LFuel.

(** `_next_token` repeated to the end of the stream *)
Fixpoint lex_all (fuel : nat) (cm : bool) (rem : bytes) (pos line linestart : Z) : list tokinfo * lex_end :=
  match fuel with
  | O => ([], LFuel)
  | S f =>
    match lex_one cm rem pos line linestart with
    | L1None => ([], LEof pos line linestart)
    | L1Fail c l p => ([], LErr c l p)
    | L1Panic => ([], LPanic)
    | L1Tok t r p l ls =>
      match t_ty t with
      | TNewLine | TWhiteSpace | TComment => lex_all f cm r p l ls
      | _ => let '(ts, e) := lex_all f cm r p l ls in (mkti t r ls :: ts, e)
      end
    end
  end.

(** every `lex_one` that returns a token consumes at least one byte *)
Definition lex_fuel (src : bytes) : nat := S (length src).
Definition lex (cm : bool) (src : bytes) : list tokinfo * lex_end :=
  lex_all (lex_fuel src) cm src 0 1 0.
