(** C05, reader-image side: MACRO blocks (CLASS, DENSITY, OBS, the macro body). *)
From Coq Require Import String.
From Coq Require Import ZArith List Bool Lia.
From L21 Require Import Lef.LefDec Lef.LefData Lef.LefLex Lef.LefParse Lef.LefSpec Lef.LefCheck
                        Lef.LefLex_proofs Lef.LefParse_proofs Lef.LefRtLex_proofs Lef.LefRtFrame_proofs
                        Lef.LefRtLib_proofs Lef.LefWDec_proofs Lef.LefWFrame_proofs Lef.LefIFrame_proofs
                        Lef.LefIConstr_proofs.
Import ListNotations.
Local Open Scope list_scope.
Local Open Scope Z_scope.

Lemma app_nn_l {A} : forall (c1 c2 : list A), c1 <> [] -> c1 ++ c2 <> [].
Proof. intros c1 c2 H E. apply app_eq_nil in E. exact (H (proj1 E)). Qed.
Lemma app_nn_r {A} : forall (c1 c2 : list A), c2 <> [] -> c1 ++ c2 <> [].
Proof. intros c1 c2 H E. apply app_eq_nil in E. exact (H (proj2 E)). Qed.

(** close a goal [c1 ++ .. ++ cn <> []] from a fact on one of the pieces *)
Ltac nn :=
  lazymatch goal with
  | |- ?x ++ ?y <> [] => first [apply app_nn_l; nn | apply app_nn_r; nn]
  | |- ?c <> [] =>
    match goal with
    | H : c <> [] |- _ => exact H
    | H : c = [_] |- _ => rewrite H; discriminate
    | H : exists _, c = [_] |- _ => destruct H as (? & ->); discriminate
    | H : exists _, c = [_] /\ _ |- _ => destruct H as (? & -> & _); discriminate
    | H : c = [_] /\ _ |- _ => destruct H as (-> & _); discriminate
    | H : _ /\ c <> [] |- _ => exact (proj2 H)
    | H : _ /\ _ /\ c <> [] |- _ => exact (proj2 (proj2 H))
    | H : _ /\ exists _, c = [_] |- _ => destruct H as (_ & ? & ->); discriminate
    end
  end.

Section IMacro.
Variable src : bytes.
Hypothesis Hsrc : starts_on_boundary src = true.
Notation cf := cfg_fixed.
Notation ispec := (ispec src).
Notation ispecv := (ispecv src).
Notation iR := (iR src).
Notation isees := (isees src).

Hypothesis parse_pin_ispec : ispec (parse_pin cf src) (fun p c a' => pin_wr p /\ c <> []).
Hypothesis parse_property_ispec : forall acc, ispec (parse_property cf src acc)
  (fun ps c a' => (Forall property_wr acc -> Forall property_wr ps) /\ c <> []).
Hypothesis ident_stmt_ispec : ispec (ident_stmt cf src) (fun v c a' => name_tok v /\ c <> []).
Hypothesis enum_stmt_ispec : forall T (f : bytes -> option T), ispec (enum_stmt cf src f) (fun _ c a' => c <> []).
Hypothesis parse_size_ispec : ispec (parse_size cf src) (fun s c a' => dec_wf (fst s) /\ dec_wf (snd s) /\ c <> []).
Hypothesis parse_symmetries_ispec : ispec (parse_symmetries cf src) (fun _ c a' => c <> []).
Existing Instance parse_pin_ispec.
Existing Instance parse_property_ispec.
Existing Instance ident_stmt_ispec.
Existing Instance enum_stmt_ispec.
Existing Instance parse_size_ispec.
Existing Instance parse_symmetries_ispec.

(** ** CLASS *)
Global Instance opt_sub_ispec {T} (f : bytes -> option T) : ispec (opt_sub cf src f) (fun _ c a' => c <> []).
Proof.
  intros st a Hs. unfold opt_sub. istep. destruct (negb (matches TSemi st)).
  - istep. istep. istep. istep. iret. nn.
  - istep. istep. iret. nn.
Qed.
Global Instance parse_macro_class_ispec : ispec (parse_macro_class cf src) (fun _ c a' => c <> []).
Proof.
  intros st a Hs. unfold parse_macro_class. istep. istep.
  lazymatch goal with |- LefIFrame_proofs.iR _ _ _ _ (match ?n with LefMacroClassName_Block => _ | _ => _ end _) => destruct n end.
  - istep. iret. nn.
  - istep. iret. nn.
  - istep. iret. nn.
  - istep. istep. iret. nn.
  - istep. match goal with |- context [matches TSemi ?s] => destruct (negb (matches TSemi s)) end.
    + istep. istep. istep. istep. iret. nn.
    + istep. istep. iret. nn.
  - istep. iret. nn.
Qed.

(** ** DENSITY *)
Global Instance density_rect_loop_ispec f : forall acc,
  ispec (density_rect_loop cf src f acc) (fun rs c a' => Forall density_rect_wr acc -> Forall density_rect_wr rs).
Proof.
  induction f as [|f IH]; intros acc st a Hs; [exact I|]. cbn [density_rect_loop].
  istep. destruct key; try apply iR_fail; try (iret; auto; fail).
  (* RECT *)
  istep. istep. istep. istep. istep.
  eapply iR_weaken; [|eapply iR_spec; [eapply IH | eassumption | congruence]].
  cbv beta. intros rs cc aa _ G Fa. apply G. apply Forall_app. split; [exact Fa | constructor; [|constructor]].
  unfold density_rect_wr. cbn [dr_pt1 dr_pt2 dr_density_value].
  repeat match goal with H : _ /\ _ |- _ => destruct H end. isplit; assumption.
Qed.
Global Instance density_loop_ispec f : forall acc,
  ispec (density_loop cf src f acc) (fun d c a' => density_wr acc -> density_wr d).
Proof.
  induction f as [|f IH]; intros acc st a Hs; [exact I|]. cbn [density_loop].
  istep. destruct key; try apply iR_fail.
  - (* END *) istep. iret. auto.
  - (* LAYER *)
    istep. istep. istep. istep.
    lazymatch goal with |- LefIFrame_proofs.iR _ _ _ _ (bind (density_rect_loop _ _ ?fu ?ac) _ _) =>
      eapply iR_bind; [apply (density_rect_loop_ispec fu ac) | eassumption | congruence |] end.
    intros rects st' c' a'' ? ? ? G. cbv beta in G.
    eapply iR_weaken; [|eapply iR_spec; [eapply IH | eassumption | congruence]].
    cbv beta. intros d cc aa _ G2 Fa. apply G2. apply Forall_app. split; [exact Fa | constructor; [|constructor]].
    cbn [dg_layer_name dg_geometries]. split; [|apply G; constructor].
    match goal with q : _ = [(TName, ?n)] /\ tok_fact _ _ |- name_tok ?n => exact (tok_fact_name _ _ (proj2 q)) end.
Qed.
Global Instance parse_density_ispec : ispec (parse_density cf src) (fun d c a' => density_wr d /\ c <> []).
Proof.
  intros st a Hs. unfold parse_density. istep. istep. istep.
  lazymatch goal with |- LefIFrame_proofs.iR _ _ _ _ (bind (density_loop _ _ ?fu ?ac) _ _) =>
    eapply iR_bind; [apply (density_loop_ispec fu ac) | eassumption | congruence |] end.
  intros d st' c' a'' ? ? ? G. cbv beta in G.
  istep. iret. split; [apply G; constructor | nn].
Qed.

(** ** OBS *)
Global Instance obs_loop_ispec f : forall acc,
  ispec (obs_loop cf src f acc) (fun ls c a' => Forall layer_wr acc -> Forall layer_wr ls).
Proof.
  induction f as [|f IH]; intros acc st a Hs; [exact I|]. cbn [obs_loop].
  istep. destruct (peek_token st) as [t|]; [|iret; auto].
  istep. destruct key; try apply iR_fail.
  - (* END *) istep. iret. auto.
  - (* LAYER *)
    istep. eapply iR_weaken; [|eapply iR_spec; [eapply IH | eassumption | congruence]].
    cbv beta. intros ls cc aa _ G Fa. apply G. apply Forall_app. split; [exact Fa | constructor; [|constructor]].
    match goal with q : layer_wr ?l /\ _ |- layer_wr ?l => exact (proj1 q) end.
Qed.
Global Instance parse_obstructions_ispec : ispec (parse_obstructions cf src) (fun ls c a' => Forall layer_wr ls /\ c <> []).
Proof.
  intros st a Hs. unfold parse_obstructions. istep. istep.
  eapply iR_weaken; [|eapply iR_spec; [eapply (obs_loop_ispec _ []) | eassumption | congruence]].
  cbv beta. intros ls cc aa _ G. split; [apply G; constructor | nn].
Qed.

(** ** the macro body *)
(** [iR_bind] with the fact on the first step given directly (for loops whose postcondition mentions the version) *)
Lemma iR_bind_iR {A B} (m : P A) (k : A -> P B) Q1 a v (Q : B -> list atok -> list atok -> Prop) st :
  iR a v Q1 (m st) ->
  (forall x st1 c1 a1, a = c1 ++ a1 -> isees st1 a1 -> p_ver st1 = v -> Q1 x c1 a1 ->
     iR a1 v (fun y c2 a2 => Q y (c1 ++ c2) a2) (k x st1)) ->
  iR a v Q (bind m k st).
Proof.
  intros H K. unfold bind. destruct (m st) as [[x st1]|e| | |]; try exact I.
  destruct H as (c1 & a1 & E & Hs1 & Hv1 & q). specialize (K x st1 c1 a1 E Hs1 Hv1 q).
  destruct (k x st1) as [[y st2]|e| | |]; try exact I.
  destruct K as (c2 & a2 & E2 & Hs2 & Hv2 & q2). exists (c1 ++ c2), a2.
  split; [rewrite E, E2, app_assoc; reflexivity|]. auto.
Qed.

(** [macro_wr] without the clause on the properties (they are carried separately by the loop) *)
Definition macro_inv (m : lef_macro) : Prop :=
  name_tok (mac_name m) /\ Forall pin_wr (mac_pins m) /\ Forall layer_wr (mac_obs m)
  /\ optP foreign_wr (mac_foreign m) /\ optP point_wr (mac_origin m)
  /\ optP (fun s => dec_wf (fst s) /\ dec_wf (snd s)) (mac_size m)
  /\ optP name_tok (mac_site m) /\ optP name_tok (mac_eeq m)
  /\ optP density_wr (mac_density m).
Definition macro_linv (v : dec) (mp : lef_macro * list lef_property) : Prop :=
  macro_inv (fst mp) /\ Forall property_wr (snd mp) /\ (mac_source (fst mp) <> None -> dec_gt v V5P4 = false).

Ltac mac_cbn :=
  cbn [fst snd optP mac_name mac_pins mac_obs mac_class mac_foreign mac_origin mac_size mac_symmetry mac_site mac_source
       mac_eeq mac_fixed_mask mac_properties mac_density
       set_mac_pins set_mac_obs set_mac_class set_mac_foreign set_mac_origin set_mac_size set_mac_symmetry set_mac_site
       set_mac_source set_mac_eeq set_mac_fixed_mask set_mac_properties set_mac_density] in *.
(** apply the induction hypothesis [IH] of the loop and reduce to the clauses of the invariant that changed *)
Ltac mac_step IH :=
  eapply iR_weaken; [|eapply IH; [eassumption | congruence]];
  cbv beta;
  let G := fresh "G" in let I0 := fresh "I0" in
  intros ? ? ? _ G I0; apply G; clear G;
  destruct I0 as ((? & ? & ? & ? & ? & ? & ? & ? & ?) & ? & ?);
  unfold macro_linv, macro_inv; mac_cbn; isplit; auto.

Lemma macro_loop_iR f : forall mac props st a v, isees st a -> p_ver st = v ->
  iR a v (fun r c a' => macro_linv v (mac, props) -> macro_linv v r) (macro_loop cf src f mac props st).
Proof.
  induction f as [|f IH]; intros mac props st a v Hs Hv; [exact I|]. cbn [macro_loop].
  istep. destruct key; try apply iR_fail.
  - (* FOREIGN *)
    istep. istep. istep.
    match goal with |- context [matches TSemi ?s] => destruct (matches TSemi s) eqn:M1 end; cbn [negb].
    + (* next token is `;`: no point, and then no orientation *)
      istep. istep. rewrite M1. cbn [negb]. istep. istep.
      mac_step IH. unfold foreign_wr. cbn [fo_cell_name fo_pt fo_orient optP]. isplit; auto.
      match goal with q : _ = [(TName, ?n)] /\ tok_fact _ _ |- name_tok ?n => exact (tok_fact_name _ _ (proj2 q)) end.
    + istep. istep. istep. istep.
      match goal with |- context [matches TSemi ?s] => destruct (negb (matches TSemi s)) end.
      * istep. istep. istep. istep.
        mac_step IH. unfold foreign_wr. cbn [fo_cell_name fo_pt fo_orient optP]. isplit; try discriminate.
        -- match goal with q : _ = [(TName, ?n)] /\ tok_fact _ _ |- name_tok ?n => exact (tok_fact_name _ _ (proj2 q)) end.
        -- match goal with q : point_wr ?p /\ _ |- point_wr ?p => exact (proj1 q) end.
      * istep. istep.
        mac_step IH. unfold foreign_wr. cbn [fo_cell_name fo_pt fo_orient optP]. isplit; try discriminate.
        -- match goal with q : _ = [(TName, ?n)] /\ tok_fact _ _ |- name_tok ?n => exact (tok_fact_name _ _ (proj2 q)) end.
        -- match goal with q : point_wr ?p /\ _ |- point_wr ?p => exact (proj1 q) end.
  - (* ORIGIN *)
    istep. istep. istep. mac_step IH.
    match goal with q : point_wr ?p /\ _ |- point_wr ?p => exact (proj1 q) end.
  - (* SOURCE *)
    istep. unfold when. destruct (dec_gt (p_ver st) V5P4) eqn:G5; [istep|].
    istep. istep. mac_step IH. intros _. congruence.
  - (* END *)
    istep. iret. auto.
  - (* PIN *)
    istep. mac_step IH. apply Forall_app. split; [assumption | constructor; [|constructor]].
    match goal with q : pin_wr ?p /\ _ |- pin_wr ?p => exact (proj1 q) end.
  - (* OBS *)
    istep. mac_step IH.
    match goal with q : Forall layer_wr ?p /\ _ |- Forall layer_wr ?p => exact (proj1 q) end.
  - (* CLASS *)
    istep. mac_step IH.
  - (* SYMMETRY *)
    istep. mac_step IH.
  - (* SITE *)
    istep. mac_step IH.
    match goal with q : name_tok ?p /\ _ |- name_tok ?p => exact (proj1 q) end.
  - (* SIZE *)
    istep. mac_step IH; match goal with q : dec_wf (fst ?p) /\ _ |- _ => destruct q as (? & ? & _); assumption end.
  - (* EEQ *)
    istep. mac_step IH.
    match goal with q : name_tok ?p /\ _ |- name_tok ?p => exact (proj1 q) end.
  - (* FIXEDMASK *)
    istep. istep. mac_step IH.
  - (* PROPERTY *)
    istep. mac_step IH.
    match goal with q : (_ -> Forall property_wr ?p) /\ _ |- Forall property_wr ?p => apply (proj1 q); assumption end.
  - (* DENSITY *)
    istep. mac_step IH.
    match goal with q : density_wr ?p /\ _ |- density_wr ?p => exact (proj1 q) end.
Qed.

(** MACRO: the value is writable, and SOURCE is only ever read in a session of version <= 5.4 *)
Lemma parse_macro_ispecv : ispecv (parse_macro cf src)
  (fun v m c a' => macro_wr m /\ (mac_source m <> None -> dec_gt v V5P4 = false) /\ c <> []).
Proof.
  intros st a Hs. remember (p_ver st) as v eqn:Hv. symmetry in Hv.
  unfold parse_macro. istep. istep. istep. istep.
  lazymatch goal with |- LefIFrame_proofs.iR _ _ _ _ (bind (macro_loop _ _ ?fu ?m ?ps) _ ?s) =>
    eapply iR_bind_iR; [apply (macro_loop_iR fu m ps s); [eassumption | congruence] |] end.
  intros [mac props] st' c' a'' ? ? ? G. cbv beta in G.
  istep. istep. iret. cbn [c_drop_props cfg_fixed].
  assert (I0 : macro_linv v (mac, props)).
  { apply G. unfold macro_linv, macro_inv, empty_macro. mac_cbn. isplit; auto; try discriminate; try (let N := fresh in intros N; exfalso; exact (N eq_refl)).
    match goal with q : _ = [(TName, ?n)] /\ tok_fact _ _ |- name_tok ?n => exact (tok_fact_name _ _ (proj2 q)) end. }
  destruct I0 as ((? & ? & ? & ? & ? & ? & ? & ? & ?) & ? & ?).
  mac_cbn. unfold macro_wr. mac_cbn. isplit; auto. nn.
Qed.

End IMacro.

Check parse_macro_class_ispec.
Check parse_density_ispec.
Check parse_obstructions_ispec.
Check macro_loop_iR.
Check parse_macro_ispecv.
Print Assumptions parse_macro_class_ispec.
Print Assumptions parse_density_ispec.
Print Assumptions parse_obstructions_ispec.
Print Assumptions parse_macro_ispecv.
