(** C04 / C05: one success lemma per construct of the LEF parser, over abstract tokens. *)
From Coq Require Import String.
From Coq Require Import ZArith List Bool Lia.
From L21 Require Import Lef.LefDec Lef.LefData Lef.LefLex Lef.LefParse Lef.LefSpec Lef.LefCheck
                        Lef.LefLex_proofs Lef.LefParse_proofs Lef.LefRtLex_proofs Lef.LefRtPerm_proofs Lef.LefRtFrame_proofs.
Import ListNotations.
Local Open Scope list_scope.
Local Open Scope Z_scope.

Section Constr.
Variable src : bytes.
Hypothesis Hsrc : starts_on_boundary src = true.
Notation cf := cfg_fixed.
Notation spec := (spec src).
Notation post := (post src).
Notation sees := (sees src).

Lemma parse_point_ok : forall p atoks, Forall2 arel (t_point p) atoks ->
  spec (parse_point cf src) atoks Any (fun p' => lef_point_eqb dec_eq p p' = true).
Proof.
  intros p atoks F. unfold t_point in F. inv_arel.
  intros st rest _ Hs. cbn [app] in Hs. unfold parse_point.
  pstep. pstep. pret. unfold lef_point_eqb. cbn.
  repeat match goal with H : _ /\ _ |- _ => destruct H end.
  repeat match goal with H : dec_eq _ _ = true |- _ => rewrite H end. reflexivity.
Qed.


(** ** generic facts about the comparison functions *)
Lemma list_eqb_length {A} (f : A -> A -> bool) : forall a b, list_eqb f a b = true -> List.length a = List.length b.
Proof.
  induction a as [|x a IH]; intros [|y b] H; try discriminate; [reflexivity|].
  cbn [list_eqb] in H. apply andb_prop in H. destruct H as [_ H]. cbn [List.length]. f_equal. apply IH. exact H.
Qed.
Lemma list_eqb_app {A} (f : A -> A -> bool) : forall a a' b b', list_eqb f a a' = true -> list_eqb f b b' = true ->
  list_eqb f (a ++ b) (a' ++ b') = true.
Proof.
  induction a as [|x a IH]; intros [|y a'] b b' H1 H2; try discriminate; [exact H2|].
  cbn [list_eqb] in H1. apply andb_prop in H1. destruct H1 as [H0 H1]. cbn [app list_eqb]. rewrite H0. apply IH; assumption.
Qed.
Lemma list_eqb_snoc {A} (f : A -> A -> bool) : forall a a' x x', list_eqb f a a' = true -> f x x' = true ->
  list_eqb f (a ++ [x]) (a' ++ [x']) = true.
Proof. intros. apply list_eqb_app; [assumption|]. cbn [list_eqb]. rewrite H0. reflexivity. Qed.
Lemma bytes_eqb_refl : forall b, bytes_eqb b b = true.
Proof. induction b as [|x b IH]; [reflexivity|]. cbn [bytes_eqb]. rewrite Z.eqb_refl. exact IH. Qed.

(** what may follow a list of numbers: not a number *)
Definition nonum (rest : list atok) : Prop := match rest with x :: _ => fst x <> TNumber | [] => True end.
Lemma nonum_matches : forall st rest, sees st rest -> nonum rest -> matches TNumber st = false.
Proof.
  intros st [|x r] Hs N; [apply (matches_nil src); exact Hs|].
  rewrite (matches_cons src TNumber st x r Hs). simpl in N. destruct (fst x); try reflexivity. congruence.
Qed.

Lemma point_list_loop_ok : forall ps atoks, Forall2 arel (t_points ps) atoks -> forall f acc,
  spec (point_list_loop cf src f acc) atoks
       (fun rest => nonum rest /\ (List.length atoks + List.length rest < f)%nat)
       (fun ps' => exists l, ps' = acc ++ l /\ list_eqb (lef_point_eqb dec_eq) ps l = true).
Proof.
  induction ps as [|p ps IH]; intros atoks F f acc st rest [N L] Hs.
  - cbn in F. inv_arel. cbn [app] in Hs. destruct f as [|f]; [cbn in L; lia|].
    cbn [point_list_loop]. pstep. cbn [c_points_to_semi cfg_fixed]. rewrite (nonum_matches _ _ Hs N).
    pret. exists []. rewrite app_nil_r. split; reflexivity.
  - unfold t_points in F. cbn [flat_map] in F. fold (t_points ps) in F. inv_arel.
    destruct f as [|f]; [cbn in L; lia|].
    cbn [point_list_loop]. pstep. cbn [c_points_to_semi cfg_fixed].
    unfold t_point in F0. inv_arel. cbn [app] in Hs.
    rewrite (matches_cons src TNumber st a _ Hs).
    replace (fst a) with TNumber by (symmetry; exact (proj1 A)). cbn [ttype_eqb].
    pb (parse_point_ok p [a; a0] ltac:(unfold t_point; constructor; [exact A | constructor; [exact A0 | constructor]])).
    eapply post_weaken; [|eapply post_spec; [eapply (IH at1 F1 f (acc ++ [a1])) | split; [exact N|] | eassumption | congruence]].
    + cbv beta. intros ps' (l & -> & E). exists (a1 :: l). rewrite <- app_assoc. split; [reflexivity|].
      cbn [list_eqb]. rewrite Q, E. reflexivity.
    + cbn [List.length app] in L. lia.
Qed.

Lemma parse_point_list_ok : forall ps atoks, Forall2 arel (t_points ps) atoks ->
  spec (parse_point_list cf src) atoks nonum (fun ps' => list_eqb (lef_point_eqb dec_eq) ps ps' = true).
Proof.
  intros ps atoks F st rest N Hs. unfold parse_point_list. pstep.
  eapply post_weaken; [|eapply post_spec; [eapply (point_list_loop_ok ps atoks F (fuel_of st) []) | split; [exact N|] | exact Hs | reflexivity]].
  - cbv beta. intros ps' (l & -> & E). exact E.
  - rewrite (fuel_of_sees src _ _ Hs), app_length. lia.
Qed.


(** ** geometries *)
(** after an optional `MASK n`: a number, or a keyword other than MASK *)
Definition kw_not (k0 : LefKey) (x : atok) : Prop :=
  exists s k, arel (SKw s) x /\ LefKey_from_str (bytes_of_string s) = Some k /\ LefKey_eqb k k0 = false.
Definition mask_follow (rest : list atok) : Prop :=
  exists x r, rest = x :: r /\ (fst x = TNumber \/ kw_not K_Mask x).

Lemma parse_geometry_mask_ok : forall m atoks, Forall2 arel (t_mask m) atoks ->
  spec (parse_geometry_mask cf src) atoks mask_follow (fun m' => option_eqb dec_eq m m' = true).
Proof.
  intros [d|] atoks F st rest MF Hs; unfold t_mask, K in F; inv_arel; cbn [app] in Hs; unfold parse_geometry_mask.
  - pstep. head_ty. pstep. keq. pstep. pstep. pret. deq.
  - destruct MF as (x & r & -> & [Ty|(s & k & A & Kf & Ne)]).
    + pstep. rewrite (matches_cons src TName st x r Hs), Ty. cbn [ttype_eqb]. pret. reflexivity.
    + destruct (arel_kw_key _ _ _ A Kf) as [Ty Kp].
      pstep. rewrite (matches_cons src TName st x r Hs), Ty. cbn [ttype_eqb].
      eapply (post_peek_key src); [exact Hs | exact Ty | exact Kp |]. rewrite Ne. pret. reflexivity.
Qed.

Definition iter_follow (rest : list atok) : Prop := exists x r, rest = x :: r /\ fst x = TNumber.
Lemma parse_iterate_yes : forall a, arel (SKw "ITERATE") a -> spec (parse_iterate cf src) [a] Any (eq true).
Proof.
  intros a A st rest _ Hs. cbn [app] in Hs. unfold parse_iterate.
  pstep. head_ty. pstep. keq. pstep. pret. reflexivity.
Qed.
Lemma parse_iterate_no : spec (parse_iterate cf src) [] iter_follow (eq false).
Proof.
  intros st rest (x & r & -> & Ty) Hs. cbn [app] in Hs. unfold parse_iterate.
  pstep. rewrite (matches_cons src TName st x r Hs), Ty. cbn [ttype_eqb]. pret. reflexivity.
Qed.

Lemma parse_step_pattern_ok : forall p atoks, Forall2 arel (t_step p) atoks ->
  spec (parse_step_pattern cf src) atoks Any (fun p' => lef_step_eqb dec_eq p p' = true).
Proof.
  intros p atoks F st rest _ Hs. unfold t_step, K in F. inv_arel. cbn [app] in Hs. unfold parse_step_pattern.
  do 7 pstep. pret. unfold lef_step_eqb. deq.
Qed.


Definition is_some {A} (o : option A) : bool := match o with Some _ => true | None => false end.
Definition mk_geom (s : lef_shape) (op : option lef_step) : lef_geometry :=
  match op with Some p => GIterate s p | None => GShape s end.

Lemma post_mask_iter {B} m (iter : bool) atoks rest1 (k : option dec -> bool -> P B) st rest v (Q : B -> Prop) :
  Forall2 arel (t_mask m ++ (if iter then [K "ITERATE"] else [])) atoks -> iter_follow rest1 ->
  sees st (atoks ++ rest1) ->
  (forall m' st1, sees st1 rest1 -> p_ver st1 = p_ver st -> option_eqb dec_eq m m' = true -> post rest v Q (k m' iter st1)) ->
  post rest v Q (bind (parse_geometry_mask cf src) (fun mask => bind (parse_iterate cf src) (fun it => k mask it)) st).
Proof.
  intros F IF Hs Kk. inv_arel. rewrite <- app_assoc in Hs.
  destruct iter; unfold K in *; inv_arel.
  - pb (parse_geometry_mask_ok m at0 F0).
    { eexists _, _. split; [reflexivity|]. right. exists "ITERATE"%string, K_Iterate. split; [exact A|]. split; vm_compute; reflexivity. }
    pb (parse_iterate_yes a A). apply Kk; [assumption | congruence | assumption].
  - cbn [app] in Hs. pb (parse_geometry_mask_ok m at0 F0).
    { destruct IF as (x & r & -> & Ty). eexists _, _. split; [reflexivity|]. left. exact Ty. }
    pb parse_iterate_no; [exact IF|]. apply Kk; [assumption | congruence | assumption].
Qed.

Lemma parse_geometry_tail_ok : forall op shape' atoks,
  Forall2 arel ((match op with Some p => t_step p | None => [] end) ++ [SSemi]) atoks ->
  spec (parse_geometry_tail cf src (is_some op) shape') atoks Any
       (fun g' => exists op', g' = mk_geom shape' op' /\ option_eqb (lef_step_eqb dec_eq) op op' = true).
Proof.
  intros [p|] shape' atoks F st rest _ Hs; inv_arel; unfold parse_geometry_tail; cbn [is_some].
  - rewrite <- app_assoc in Hs. pb (parse_step_pattern_ok p at0 F0). cbn [app] in *. pstep. pret.
    exists (Some a0). split; [reflexivity | assumption].
  - cbn [app] in Hs. pstep. pret. exists None. split; reflexivity.
Qed.

Definition shape_len_ok (s : lef_shape) : bool :=
  match s with
  | ShRect _ _ _ => true
  | ShPolygon _ ps => Nat.leb 3 (List.length ps)
  | ShPath _ ps => Nat.leb 2 (List.length ps)
  end.
Definition geom_len_ok (g : lef_geometry) : bool := match g with GShape s | GIterate s _ => shape_len_ok s end.

Lemma t_points_head : forall ps atoks, (1 <= List.length ps)%nat -> Forall2 arel (t_points ps) atoks ->
  forall rest, iter_follow (atoks ++ rest).
Proof.
  intros [|p ps] atoks L F rest; [cbn in L; lia|]. unfold t_points in F. cbn [flat_map] in F. unfold t_point in F at 1.
  cbn [app] in F. inv_arel. cbn [app]. eexists _, _. split; [reflexivity | exact (proj1 A)].
Qed.

Lemma tail_nonum : forall op at_t rest,
  Forall2 arel ((match op with Some p => t_step p | None => [] end) ++ [SSemi]) at_t -> nonum (at_t ++ rest).
Proof.
  intros [p|] at_t rest F; unfold t_step, K in F; cbn [app] in F; inv_arel; cbn.
  - rewrite (proj1 A). discriminate.
  - rewrite A. discriminate.
Qed.

Lemma parse_geometry_ok : forall g atoks, geom_len_ok g = true -> Forall2 arel (t_geometry g) atoks ->
  spec (parse_geometry cf src) atoks Any (fun g' => lef_geometry_eqb dec_eq g g' = true).
Proof.
  intros g atoks LO F.
  assert (G : exists s op, g = mk_geom s op) by (destruct g as [s|s p]; [exists s, None | exists s, (Some p)]; reflexivity).
  destruct G as (s & op & ->).
  assert (F' : Forall2 arel (t_shape_head s (is_some op) ++ (match op with Some p => t_step p | None => [] end) ++ [SSemi]) atoks).
  { destruct op; exact F. }
  assert (LO' : shape_len_ok s = true) by (destruct op; exact LO).
  clear F LO. intros st rest _ Hs.
  destruct s as [m a b|m ps|m ps]; cbn [t_shape_head shape_len_ok] in *; unfold K in F';
    repeat rewrite <- app_assoc in F'; cbn [app] in F'.
  - (* RECT *)
    apply LefRt_Forall2_cons_inv in F'. destruct F' as (akw & at' & -> & A & F').
    rewrite app_assoc in F'. apply Forall2_app_inv_l in F'. destruct F' as (at_mi & at2 & Fmi & F2 & ->).
    apply Forall2_app_inv_l in F2. destruct F2 as (at_a & at3 & Fa & F3 & ->).
    apply Forall2_app_inv_l in F3. destruct F3 as (at_b & at_t & Fb & Ft & ->).
    cbn [app] in Hs. repeat rewrite <- app_assoc in Hs.
    unfold parse_geometry. pstep. cbv iota.
    eapply (post_mask_iter m (is_some op) at_mi); [destruct op; exact Fmi | | eassumption |].
    { unfold t_point in Fa. inv_arel. cbn [app]. eexists _, _. split; [reflexivity | exact (proj1 A0)]. }
    intros m' stm Hsm Hvm Em.
    pb (parse_point_ok a at_a Fa). pb (parse_point_ok b at_b Fb).
    eapply post_weaken; [|eapply post_spec; [eapply (parse_geometry_tail_ok op (ShRect m' a0 a1) at_t Ft) | exact I | eassumption | congruence]].
    cbv beta. intros g' (op' & -> & Eo). destruct op as [p|], op' as [p'|]; cbn in *; try discriminate; deq.
  - (* POLYGON *)
    apply LefRt_Forall2_cons_inv in F'. destruct F' as (akw & at' & -> & A & F').
    rewrite app_assoc in F'. apply Forall2_app_inv_l in F'. destruct F' as (at_mi & at2 & Fmi & F2 & ->).
    apply Forall2_app_inv_l in F2. destruct F2 as (at_p & at_t & Fp & Ft & ->).
    cbn [app] in Hs. repeat rewrite <- app_assoc in Hs.
    unfold parse_geometry. pstep. cbv iota.
    apply Nat.leb_le in LO'.
    eapply (post_mask_iter m (is_some op) at_mi); [destruct op; exact Fmi | | eassumption |].
    { apply (t_points_head ps); [lia | exact Fp]. }
    intros m' stm Hsm Hvm Em.
    pb (parse_point_list_ok ps at_p Fp).
    { apply (tail_nonum op). exact Ft. }
    pose proof (list_eqb_length _ _ _ Q) as EL.
    unfold when. replace (Nat.ltb (List.length a) 3) with false by (symmetry; apply Nat.ltb_ge; lia).
    pstep.
    eapply post_weaken; [|eapply post_spec; [eapply (parse_geometry_tail_ok op (ShPolygon m' a) at_t Ft) | exact I | eassumption | congruence]].
    cbv beta. intros g' (op' & -> & Eo). destruct op as [p|], op' as [p'|]; cbn in *; try discriminate; deq.
  - (* PATH *)
    apply LefRt_Forall2_cons_inv in F'. destruct F' as (akw & at' & -> & A & F').
    rewrite app_assoc in F'. apply Forall2_app_inv_l in F'. destruct F' as (at_mi & at2 & Fmi & F2 & ->).
    apply Forall2_app_inv_l in F2. destruct F2 as (at_p & at_t & Fp & Ft & ->).
    cbn [app] in Hs. repeat rewrite <- app_assoc in Hs.
    unfold parse_geometry. pstep. cbv iota.
    apply Nat.leb_le in LO'.
    eapply (post_mask_iter m (is_some op) at_mi); [destruct op; exact Fmi | | eassumption |].
    { apply (t_points_head ps); [lia | exact Fp]. }
    intros m' stm Hsm Hvm Em.
    pb (parse_point_list_ok ps at_p Fp).
    { apply (tail_nonum op). exact Ft. }
    pose proof (list_eqb_length _ _ _ Q) as EL.
    unfold when. replace (Nat.ltb (List.length a) 2) with false by (symmetry; apply Nat.ltb_ge; lia).
    pstep.
    eapply post_weaken; [|eapply post_spec; [eapply (parse_geometry_tail_ok op (ShPath m' a) at_t Ft) | exact I | eassumption | congruence]].
    cbv beta. intros g' (op' & -> & Eo). destruct op as [p|], op' as [p'|]; cbn in *; try discriminate; deq.
Qed.


(** ** LAYER blocks: the statements after `LAYER name .. ;` in any order *)
Inductive lstmt := LsWidth (w : dec) | LsGeom (g : lef_geometry) | LsVia (v : lef_via_inst).
Definition ls_kind (s : lstmt) : nat := match s with LsGeom _ => 0 | LsVia _ => 1 | LsWidth _ => 2 end.
Definition ls_toks (s : lstmt) : list stok :=
  match s with
  | LsWidth w => [K "WIDTH"; SNum w; SSemi]
  | LsGeom g => t_geometry g
  | LsVia v => t_via_inst v
  end.
Definition ls_ok (s : lstmt) : bool := match s with LsGeom g => geom_len_ok g | _ => true end.
Definition lstep (s : lstmt) (lg lg' : lef_layer_geoms) : Prop :=
  match s with
  | LsWidth w => exists w', dec_eq w w' = true /\ lg' = set_lg_width (Some w') lg
  | LsGeom g => exists g', lef_geometry_eqb dec_eq g g' = true /\ lg' = set_lg_geometries (lg_geometries lg ++ [g']) lg
  | LsVia v => exists v', lef_via_inst_eqb dec_eq v v' = true /\ lg' = set_lg_vias (lg_vias lg ++ [v']) lg
  end.

(** a keyword token whose key is one of [ks] *)
Definition kw_in (ks : list LefKey) (x : atok) : Prop :=
  exists s k, arel (SKw s) x /\ LefKey_from_str (bytes_of_string s) = Some k /\ In k ks.
Definition layer_follow (rest : list atok) : Prop :=
  rest = [] \/ exists x r, rest = x :: r /\ kw_in [K_Layer; K_End] x.

Lemma t_geometry_head : forall g atoks, Forall2 arel (t_geometry g) atoks ->
  exists a at', atoks = a :: at' /\ kw_in [K_Rect; K_Polygon; K_Path] a.
Proof.
  intros g atoks F.
  destruct g as [s|s p]; destruct s as [m x y|m ps|m ps]; cbn [t_geometry t_shape_head] in F;
    repeat rewrite <- app_assoc in F; cbn [app] in F; unfold K in F;
    apply LefRt_Forall2_cons_inv in F; destruct F as (a & at' & -> & A & _); exists a, at'; (split; [reflexivity|]);
    eexists _, _; (split; [exact A|]); (split; [vm_compute; reflexivity|]); cbn; auto.
Qed.

Definition sfacts {X} (toks : X -> list stok) (ok : X -> bool) (x : X) (at_ : list atok) : Prop :=
  Forall2 arel (toks x) at_ /\ ok x = true.

Lemma layer_body_loop_ok : forall L atL, Forall2 (sfacts ls_toks ls_ok) L atL -> forall f lg,
  spec (layer_body_loop cf src f lg) (concat atL)
       (fun rest => layer_follow rest /\ (List.length (concat atL) + List.length rest < f)%nat)
       (fun lg' => steps lstep L lg lg').
Proof.
  induction L as [|x L IH]; intros atL FL f lg st rest [LF Lf] Hs.
  - inversion FL; subst. cbn [concat app] in *. destruct f as [|f]; [lia|]. cbn [layer_body_loop]. pstep.
    destruct LF as [->|(y & r & -> & s & k & A & Kf & Ik)].
    + rewrite (peek_token_nil src st Hs). pret. reflexivity.
    + destruct (peek_token_cons src st y r Hs) as (t & -> & _).
      destruct (arel_kw_key _ _ _ A Kf) as [Ty Kp].
      eapply (post_peek_key src); [exact Hs | exact Ty | exact Kp |].
      destruct Ik as [<-|[<-|[]]]; pret; reflexivity.
  - inversion FL as [|x' at_x L' atL' [Fx Ox] FL']; subst. cbn [concat] in *. rewrite <- app_assoc in Hs.
    destruct f as [|f]; [lia|]. cbn [layer_body_loop]. pstep.
    rewrite app_length in Lf.
    destruct x as [w|g|v]; cbn [ls_toks ls_ok] in *.
    + (* WIDTH w ; *)
      unfold K in Fx. inv_arel. cbn [app] in Hs.
      destruct (peek_token_cons src st a _ Hs) as (t & -> & _).
      pstep. cbv iota. pstep. pstep. pstep.
      eapply post_weaken; [|eapply post_spec; [eapply (IH atL' FL' f) | split; [exact LF|] | eassumption | congruence]].
      * cbv beta. intros lg' St. cbn [steps]. eexists. split; [|exact St]. cbn [lstep]. eexists. split; [|reflexivity]. deq.
      * cbn [List.length] in Lf. lia.
    + (* a geometry *)
      destruct (t_geometry_head g at_x Fx) as (a & at' & -> & s & k & A & Kf & Ik).
      cbn [app] in Hs. destruct (peek_token_cons src st a _ Hs) as (t & -> & _).
      destruct (arel_kw_key _ _ _ A Kf) as [Ty Kp].
      eapply (post_peek_key src); [exact Hs | exact Ty | exact Kp |].
      assert (G : post rest (p_ver st) (fun lg' => steps lstep (LsGeom g :: L) lg lg')
                    ((g0 <- parse_geometry cf src;; layer_body_loop cf src f (set_lg_geometries (lg_geometries lg ++ [g0]) lg)) st)).
      { pb (parse_geometry_ok g (a :: at') Ox Fx).
        eapply post_weaken; [|eapply post_spec; [eapply (IH atL' FL' f) | split; [exact LF|] | eassumption | congruence]].
        * cbv beta. intros lg' St. cbn [steps]. eexists. split; [|exact St]. cbn [lstep]. eexists. split; [eassumption | reflexivity].
        * cbn [List.length] in Lf. lia. }
      destruct Ik as [<-|[<-|[<-|[]]]]; exact G.
    + (* VIA pt name ; *)
      unfold t_via_inst, K in Fx. cbn [app] in Fx. inv_arel. unfold t_point in F. inv_arel. cbn [app] in *.
      destruct (peek_token_cons src st a _ Hs) as (t & -> & _).
      pstep. cbv iota. pstep. pstep. unfold when. head_ty. pstep.
      pb (parse_point_ok (vi_pt v) [a2; a3] ltac:(unfold t_point; constructor; [eassumption | constructor; [eassumption | constructor]])).
      pstep. pstep.
      eapply post_weaken; [|eapply post_spec; [eapply (IH atL' FL' f) | split; [exact LF|] | eassumption | congruence]].
      * cbv beta. intros lg' St. cbn [steps]. eexists. split; [|exact St]. cbn [lstep]. eexists. split; [|reflexivity].
        unfold lef_via_inst_eqb. cbn. rewrite bytes_eqb_refl. deq.
      * cbn [List.length] in Lf. lia.
Qed.


(** generic: splitting the tokens of a statement list; properties of kind-stable reorderings *)
Lemma Forall2_flat_map_inv {X} (f : X -> list stok) : forall L atoks, Forall2 arel (flat_map f L) atoks ->
  exists aL, atoks = concat aL /\ Forall2 (fun x ax => Forall2 arel (f x) ax) L aL.
Proof.
  induction L as [|x L IH]; intros atoks F; cbn [flat_map] in F.
  - inv_arel. exists []. split; [reflexivity | constructor].
  - apply Forall2_app_inv_l in F. destruct F as (a1 & a2 & F1 & F2 & ->).
    destruct (IH a2 F2) as (aL & -> & FL). exists (a1 :: aL). split; [reflexivity | constructor; assumption].
Qed.
Lemma filter_kinds_forall {X} (kind : X -> nat) (P : X -> Prop) : forall L L0,
  (forall k, filter (fun x => Nat.eqb (kind x) k) L = filter (fun x => Nat.eqb (kind x) k) L0) ->
  Forall P L0 -> Forall P L.
Proof.
  intros L L0 HF H0. apply Forall_forall. intros x Hx.
  assert (I : In x (filter (fun y => Nat.eqb (kind y) (kind x)) L)) by (apply filter_In; split; [exact Hx | apply Nat.eqb_refl]).
  rewrite HF in I. apply filter_In in I. destruct I as [I _]. rewrite Forall_forall in H0. apply H0. exact I.
Qed.
Lemma Forall2_sfacts {X} (toks : X -> list stok) (ok : X -> bool) : forall L aL,
  Forall2 (fun x ax => Forall2 arel (toks x) ax) L aL -> Forall (fun x => ok x = true) L -> Forall2 (sfacts toks ok) L aL.
Proof.
  induction 1 as [|x ax L aL F FL IH]; intros O; [constructor|]. inversion O; subst.
  constructor; [split; assumption | apply IH; assumption].
Qed.

(** the options on the `LAYER name` line *)
Definition lopts_toks (epg : bool) (sp : option lef_layer_spacing) : list stok :=
  (if epg then [K "EXCEPTPGNET"] else [])
  ++ match sp with
     | Some (LsSpacing d) => [K "SPACING"; SNum d]
     | Some (LsDesignRuleWidth d) => [K "DESIGNRULEWIDTH"; SNum d]
     | None => []
     end.
Definition semi_head (rest : list atok) : Prop := exists x r, rest = x :: r /\ fst x = TSemi.

Inductive ostmt := OEpg | OSp (d : dec) | ODrw (d : dec).
Definition o_toks (x : ostmt) : list stok :=
  match x with OEpg => [K "EXCEPTPGNET"] | OSp d => [K "SPACING"; SNum d] | ODrw d => [K "DESIGNRULEWIDTH"; SNum d] end.
Definition ostep (x : ostmt) (lg lg' : lef_layer_geoms) : Prop :=
  match x with
  | OEpg => lg' = set_lg_except_pg_net (Some true) lg
  | OSp d => exists d', dec_eq d d' = true /\ lg' = set_lg_spacing (Some (LsSpacing d')) lg
  | ODrw d => exists d', dec_eq d d' = true /\ lg' = set_lg_spacing (Some (LsDesignRuleWidth d')) lg
  end.
Lemma layer_opts_loop_gen : forall L aL, Forall2 (fun x ax => Forall2 arel (o_toks x) ax) L aL -> forall f lg,
  spec (layer_opts_loop cf src f lg) (concat aL)
       (fun rest => semi_head rest /\ (List.length (concat aL) + List.length rest < f)%nat)
       (fun lg' => steps ostep L lg lg').
Proof.
  induction L as [|x L IH]; intros aL FL f lg st rest [SH Lf] Hs.
  - inversion FL; subst. cbn [concat app] in *. destruct f as [|f]; [lia|]. cbn [layer_opts_loop]. pstep.
    destruct SH as (y & r & -> & Ty). rewrite (matches_cons src TSemi st y r Hs), Ty. cbn [ttype_eqb negb].
    pret. reflexivity.
  - inversion FL as [|x' ax L' aL' Fx FL']; subst. cbn [concat] in *. rewrite <- app_assoc in Hs.
    destruct f as [|f]; [lia|]. cbn [layer_opts_loop]. pstep. rewrite app_length in Lf.
    destruct x as [|d|d]; unfold o_toks, K in Fx; inv_arel; cbn [app List.length] in *; head_ty; pstep; cbv iota; try pstep;
      (eapply post_weaken; [|eapply post_spec; [eapply (IH aL' FL' f) | split; [exact SH | lia] | eassumption | congruence]]);
      cbv beta; intros lg' St; cbn [steps]; eexists; (split; [|exact St]); cbn [ostep];
      try reflexivity; eexists; (split; [|reflexivity]); deq.
Qed.

Lemma layer_opts_loop_ok : forall epg sp atoks, Forall2 arel (lopts_toks epg sp) atoks -> forall f lg,
  lg_except_pg_net lg = None -> lg_spacing lg = None ->
  spec (layer_opts_loop cf src f lg) atoks
       (fun rest => semi_head rest /\ (List.length atoks + List.length rest < f)%nat)
       (fun lg' => exists sp', option_eqb (lef_layer_spacing_eqb dec_eq) sp sp' = true
                               /\ lg' = set_lg_spacing sp' (set_lg_except_pg_net (if epg then Some true else None) lg)).
Proof.
  intros epg sp atoks F f lg E1 E2.
  set (L := (if epg then [OEpg] else []) ++ match sp with Some (LsSpacing d) => [OSp d] | Some (LsDesignRuleWidth d) => [ODrw d] | None => [] end).
  assert (FT : lopts_toks epg sp = flat_map o_toks L) by (unfold L, lopts_toks; destruct epg, sp as [[d|d]|]; reflexivity).
  rewrite FT in F. destruct (Forall2_flat_map_inv o_toks L atoks F) as (aL & -> & FL).
  eapply spec_weaken; [| |apply (layer_opts_loop_gen L aL FL f lg)]; [auto|].
  cbv beta. intros lg' St. destruct lg as [n gs vs e0 s0 w0]. cbn in E1, E2. subst e0 s0.
  unfold L in St. destruct epg, sp as [[d|d]|]; cbn [app steps ostep] in St;
    repeat match goal with H : exists _, _ |- _ => destruct H | H : _ /\ _ |- _ => destruct H end; subst;
    eexists; (split; [|reflexivity]); cbn; try assumption; reflexivity.
Qed.

Definition layer_epg (l : lef_layer_geoms) : bool := match lg_except_pg_net l with Some true => true | _ => false end.
Definition layer_hdr_toks (l : lef_layer_geoms) : list stok :=
  [K "LAYER"; SName (lg_layer_name l)] ++ lopts_toks (layer_epg l) (lg_spacing l) ++ [SSemi].
Definition layer_canon (l : lef_layer_geoms) : list lstmt :=
  (match lg_width l with Some w => [LsWidth w] | None => [] end)
  ++ map LsGeom (lg_geometries l) ++ map LsVia (lg_vias l).
Definition layer_struct_ok (l : lef_layer_geoms) : bool :=
  forallb geom_len_ok (lg_geometries l) && (match lg_except_pg_net l with Some false => false | _ => true end).

Lemma lstep_comm : forall x y s s2, ls_kind x <> ls_kind y ->
  (exists s1, lstep x s s1 /\ lstep y s1 s2) -> exists s1, lstep y s s1 /\ lstep x s1 s2.
Proof.
  intros x y s s2 NK (s1 & H1 & H2).
  destruct x, y; cbn [ls_kind] in NK; try congruence; cbn [lstep] in *;
    destruct H1 as (x' & E1 & ->); destruct H2 as (y' & E2 & ->);
    (eexists; split; [eexists; split; [exact E2 | reflexivity] | eexists; split; [exact E1 | destruct s; reflexivity]]).
Qed.

Lemma steps_geoms : forall gs lg lg', steps lstep (map LsGeom gs) lg lg' ->
  exists gs', list_eqb (lef_geometry_eqb dec_eq) gs gs' = true /\ lg' = set_lg_geometries (lg_geometries lg ++ gs') lg.
Proof.
  induction gs as [|g gs IH]; intros lg lg' H; cbn [map steps] in H.
  - subst. exists []. split; [reflexivity|]. rewrite app_nil_r. destruct lg'; reflexivity.
  - destruct H as (s1 & (g' & E & ->) & H). destruct (IH _ _ H) as (gs' & E' & ->).
    exists (g' :: gs'). split; [cbn [list_eqb]; rewrite E, E'; reflexivity|].
    destruct lg. cbn. rewrite <- app_assoc. reflexivity.
Qed.
Lemma steps_vias : forall vs lg lg', steps lstep (map LsVia vs) lg lg' ->
  exists vs', list_eqb (lef_via_inst_eqb dec_eq) vs vs' = true /\ lg' = set_lg_vias (lg_vias lg ++ vs') lg.
Proof.
  induction vs as [|v vs IH]; intros lg lg' H; cbn [map steps] in H.
  - subst. exists []. split; [reflexivity|]. rewrite app_nil_r. destruct lg'; reflexivity.
  - destruct H as (s1 & (v' & E & ->) & H). destruct (IH _ _ H) as (vs' & E' & ->).
    exists (v' :: vs'). split; [cbn [list_eqb]; rewrite E, E'; reflexivity|].
    destruct lg. cbn. rewrite <- app_assoc. reflexivity.
Qed.

Lemma parse_layer_geometries_gen : forall l L atoks, layer_struct_ok l = true ->
  (forall k, filter (fun x => Nat.eqb (ls_kind x) k) L = filter (fun x => Nat.eqb (ls_kind x) k) (layer_canon l)) ->
  Forall2 arel (layer_hdr_toks l ++ flat_map ls_toks L) atoks ->
  spec (parse_layer_geometries cf src) atoks layer_follow (fun l' => lef_layer_geoms_eqb dec_eq l l' = true).
Proof.
  intros l L atoks SO HF F st rest LF Hs.
  unfold layer_struct_ok in SO. apply andb_prop in SO. destruct SO as [SO1 SO2].
  assert (OKL : Forall (fun x => ls_ok x = true) L).
  { apply (filter_kinds_forall ls_kind _ L (layer_canon l) HF). unfold layer_canon.
    repeat rewrite Forall_app. repeat split.
    - destruct (lg_width l); repeat constructor.
    - apply Forall_forall. intros x Hx. apply in_map_iff in Hx. destruct Hx as (g & <- & Hg). cbn.
      rewrite forallb_forall in SO1. apply SO1. exact Hg.
    - apply Forall_forall. intros x Hx. apply in_map_iff in Hx. destruct Hx as (g & <- & Hg). reflexivity. }
  unfold layer_hdr_toks, K in F. repeat rewrite <- app_assoc in F. cbn [app] in F.
  apply LefRt_Forall2_cons_inv in F. destruct F as (a1 & at1 & -> & A1 & F).
  apply LefRt_Forall2_cons_inv in F. destruct F as (a2 & at2 & -> & A2 & F).
  apply Forall2_app_inv_l in F. destruct F as (at_o & at3 & Fo & F & ->).
  apply LefRt_Forall2_cons_inv in F. destruct F as (a3 & at4 & -> & A3 & F).
  destruct (Forall2_flat_map_inv ls_toks L at4 F) as (aL & -> & FL).
  pose proof (Forall2_sfacts ls_toks ls_ok L aL FL OKL) as FS.
  cbn [app] in Hs. repeat rewrite <- app_assoc in Hs. cbn [app] in Hs. unfold parse_layer_geometries.
  pstep. pstep. pstep. pstep.
  lazymatch goal with |- LefRtFrame_proofs.post _ _ _ _ (bind (layer_opts_loop _ _ (fuel_of ?s) ?lg) _ ?s') =>
    pb (layer_opts_loop_ok (layer_epg l) (lg_spacing l) at_o Fo (fuel_of s) lg eq_refl eq_refl) end.
  { split; [eexists _, _; split; [reflexivity | exact A3]|].
    match goal with Hx : sees ?s _ |- context [fuel_of ?s] => rewrite (fuel_of_sees src _ _ Hx) end.
    repeat rewrite app_length. cbn [List.length]. lia. }
  match goal with q : exists _, _ /\ _ = _ |- _ => destruct q as (sp' & Esp & ->) end.
  pstep. pstep.
  lazymatch goal with |- LefRtFrame_proofs.post _ _ _ _ (bind (layer_body_loop _ _ (fuel_of ?s) ?lg) _ ?s') =>
    pb (layer_body_loop_ok L aL FS (fuel_of s) lg) end.
  { split; [exact LF|].
    match goal with Hx : sees ?s _ |- context [fuel_of ?s] => rewrite (fuel_of_sees src _ _ Hx) end.
    repeat rewrite app_length. lia. }
  pstep. pret.
  match goal with q : steps lstep L _ _ |- _ => rename q into St end.
  apply (steps_perm ls_kind lstep lstep_comm (layer_canon l) L HF) in St.
  unfold layer_canon in St. apply steps_app in St. destruct St as (s1 & Q1 & St). apply steps_app in St. destruct St as (s2 & Q2 & Q3).
  apply steps_geoms in Q2. destruct Q2 as (gs' & Eg & ->).
  apply steps_vias in Q3. destruct Q3 as (vs' & Ev & ->).
  unfold lef_layer_geoms_eqb.
  destruct l as [n gs vs e sp w]. unfold layer_epg in *. cbn in *.
  assert (Ee : option_eqb Bool.eqb e (if match e with Some true => true | _ => false end then Some true else None) = true)
    by (destruct e as [[|]|]; try reflexivity; discriminate).
  destruct w as [w|]; cbn [steps] in Q1.
  - destruct Q1 as (s0 & (w' & Ew & ->) & <-). cbn. rewrite bytes_eqb_refl, Eg, Ev, Ee, Esp, Ew. reflexivity.
  - subst s1. cbn. rewrite bytes_eqb_refl, Eg, Ev, Ee, Esp. reflexivity.
Qed.


(** the specification's LAYER block: WIDTH first, then geometries and vias interleaved by the style's keys *)
Lemma concat_map_flat_map {X Y} (f : X -> list Y) (l : list X) : concat (map f l) = flat_map f l.
Proof. symmetry. apply flat_map_concat_map. Qed.

(** the token sequences of a LAYER block, in general form: header, then the statements in any order that keeps
    the order of the geometries and the order of the vias *)
Definition layer_toksP (l : lef_layer_geoms) (atoks : list atok) : Prop :=
  layer_struct_ok l = true /\
  exists L, (forall k, filter (fun x => Nat.eqb (ls_kind x) k) L = filter (fun x => Nat.eqb (ls_kind x) k) (layer_canon l))
            /\ Forall2 arel (layer_hdr_toks l ++ flat_map ls_toks L) atoks.

Lemma parse_layer_P : forall l atoks, layer_toksP l atoks ->
  spec (parse_layer_geometries cf src) atoks layer_follow (fun l' => lef_layer_geoms_eqb dec_eq l l' = true).
Proof. intros l atoks (SO & L & HF & F). exact (parse_layer_geometries_gen l L atoks SO HF F). Qed.

Lemma layer_toksP_spec : forall sty off l atoks, layer_struct_ok l = true ->
  Forall2 arel (t_layer_geoms sty off l) atoks -> layer_toksP l atoks.
Proof.
  intros sty off l atoks SO F. split; [exact SO|].
  set (body := map LsGeom (lg_geometries l) ++ map LsVia (lg_vias l)).
  exists ((match lg_width l with Some w => [LsWidth w] | None => [] end)
          ++ interleave (sty_keys sty) off (map (fun x => (ls_kind x, x)) body)).
  split.
  - intros k. unfold layer_canon. rewrite !filter_app. f_equal.
    rewrite (interleave_kind_stable lstmt ls_kind (sty_keys sty) off body k). unfold body. rewrite filter_app. reflexivity.
  - match goal with |- Forall2 arel ?t atoks => replace t with (t_layer_geoms sty off l); [exact F|] end.
    unfold t_layer_geoms, layer_hdr_toks, lopts_toks, layer_epg, K. repeat rewrite <- app_assoc. cbn [app].
    f_equal. f_equal.
    replace (match lg_except_pg_net l with Some true => [SKw "EXCEPTPGNET"] | _ => [] end)
      with (if match lg_except_pg_net l with Some true => true | _ => false end then [SKw "EXCEPTPGNET"] else [])
      by (destruct (lg_except_pg_net l) as [[|]|]; reflexivity).
    f_equal. f_equal. f_equal.
    rewrite flat_map_app. f_equal; [destruct (lg_width l); reflexivity|].
    rewrite <- concat_map_flat_map.
    rewrite <- (interleave_map lstmt (list stok) ls_toks (sty_keys sty) off (map (fun x => (ls_kind x, x)) body)).
    f_equal. f_equal. unfold body. rewrite !map_app, !map_map. reflexivity.
Qed.


(** ** small statements shared by several blocks *)
Lemma parse_size_ok : forall sz atoks, Forall2 arel (t_size sz) atoks ->
  spec (parse_size cf src) atoks Any (fun sz' => pair_eqb dec_eq dec_eq sz sz' = true).
Proof.
  intros sz atoks F st rest _ Hs. unfold t_size, K in F. inv_arel. cbn [app] in Hs. unfold parse_size.
  do 5 pstep. pret. unfold pair_eqb. deq.
Qed.

Lemma LefSymmetry_eqb_refl : forall e, LefSymmetry_eqb e e = true.
Proof. destruct e; reflexivity. Qed.
Lemma symm_loop_ok : forall sy atoks, Forall2 arel (map (fun x => K (s_symmetry x)) sy) atoks -> forall f acc,
  spec (symm_loop cf src f acc) atoks
       (fun rest => semi_head rest /\ (List.length atoks + List.length rest < f)%nat)
       (eq (acc ++ sy)).
Proof.
  induction sy as [|x sy IH]; intros atoks F f acc st rest [SH Lf] Hs; cbn [map] in F; inv_arel; cbn [app List.length] in *.
  - destruct f as [|f]; [lia|]. cbn [symm_loop]. pstep. destruct SH as (y & r & -> & Ty).
    rewrite (matches_cons src TSemi st y r Hs), Ty. cbn [ttype_eqb negb]. pret. rewrite app_nil_r. reflexivity.
  - destruct f as [|f]; [lia|]. cbn [symm_loop]. pstep. unfold K in *. head_ty.
    destruct x; cbn [s_symmetry] in *; pstep;
      (eapply post_weaken; [|eapply post_spec; [eapply (IH at0 F f) | split; [exact SH | lia] | eassumption | congruence]]);
      cbv beta; intros ? <-; rewrite <- app_assoc; reflexivity.
Qed.
Lemma parse_symmetries_ok : forall sy atoks, Forall2 arel (t_symmetry sy) atoks ->
  spec (parse_symmetries cf src) atoks Any (fun sy' => list_eqb LefSymmetry_eqb sy sy' = true).
Proof.
  intros sy atoks F st rest _ Hs. unfold t_symmetry, K in F. cbn [app] in F.
  apply LefRt_Forall2_cons_inv in F. destruct F as (a0 & at0 & -> & A0 & F).
  apply Forall2_app_inv_l in F. destruct F as (at1 & at2 & F1 & F2 & ->). inv_arel.
  cbn [app] in Hs. repeat rewrite <- app_assoc in Hs. cbn [app] in Hs. unfold parse_symmetries. pstep. pstep.
  lazymatch goal with |- LefRtFrame_proofs.post _ _ _ _ (bind (symm_loop _ _ (fuel_of ?s) ?acc) _ _) =>
    pb (symm_loop_ok sy at1 F1 (fuel_of s) acc) end.
  { split; [eexists _, _; split; [reflexivity | exact A]|].
    match goal with Hx : sees ?s _ |- context [fuel_of ?s] => rewrite (fuel_of_sees src _ _ Hx) end.
    rewrite app_length. cbn [List.length]. lia. }
  pstep. pret. cbn [app]. clear. induction sy as [|x sy IH]; [reflexivity|]. cbn [list_eqb]. rewrite LefSymmetry_eqb_refl. exact IH.
Qed.

(** `KEY name ;` and `KEY ENUMVALUE ;` *)
Lemma ident_stmt_ok : forall a0 n a1 a2, arel (SName n) a1 -> arel SSemi a2 ->
  spec (ident_stmt cf src) [a0; a1; a2] Any (eq n).
Proof.
  intros a0 n a1 a2 A1 A2 st rest _ Hs. cbn [app] in Hs. unfold ident_stmt. pstep. pstep. pstep. pret. reflexivity.
Qed.
Lemma enum_stmt_ok : forall {T} (from_str : bytes -> option T) a0 s e a1 a2, arel (SKw s) a1 ->
  from_str (bytes_of_string s) = Some e -> arel SSemi a2 ->
  spec (enum_stmt cf src from_str) [a0; a1; a2] Any (eq e).
Proof.
  intros T from_str a0 s e a1 a2 A1 Fe A2 st rest _ Hs. cbn [app] in Hs. unfold enum_stmt. pstep.
  pb (kw_enum src from_str s a1 e A1 Fe). pstep. pret. reflexivity.
Qed.

(** `PROPERTY name value ... ;` : the pairs are appended to the accumulator *)
Definition prop_toks (ps : list lef_property) : list stok :=
  [K "PROPERTY"] ++ flat_map (fun p => [SName (pr_name p); SRaw (pr_value p)]) ps ++ [SSemi].
Definition prop_val_ok (p : lef_property) : Prop := bytes_eqb (pr_value p) [59] = false.

Lemma property_loop_ok : forall ps atoks,
  Forall2 arel (flat_map (fun p => [SName (pr_name p); SRaw (pr_value p)]) ps) atoks -> Forall prop_val_ok ps ->
  forall f acc,
  spec (property_loop cf src f acc) atoks
       (fun rest => semi_head rest /\ (List.length atoks + List.length rest < f)%nat)
       (eq (acc ++ ps)).
Proof.
  induction ps as [|p ps IH]; intros atoks F PV f acc st rest [SH Lf] Hs; cbn [flat_map] in F.
  - inv_arel. cbn [app List.length] in *. destruct f as [|f]; [lia|]. cbn [property_loop]. pstep.
    destruct SH as (y & r & -> & Ty). rewrite (matches_cons src TSemi st y r Hs), Ty. cbn [ttype_eqb negb].
    pret. rewrite app_nil_r. reflexivity.
  - cbn [app] in F.
    apply LefRt_Forall2_cons_inv in F. destruct F as (an & atn & -> & An & F).
    apply LefRt_Forall2_cons_inv in F. destruct F as (a0 & at0 & -> & A0 & F).
    cbn [app List.length] in *. inversion PV as [|? ? Pp PV']; subst.
    destruct f as [|f]; [lia|]. cbn [property_loop]. pstep. head_ty. pstep. pstep.
    match goal with Hx : sees ?s (a0 :: _) |- _ => destruct (peek_token_cons src s a0 _ Hx) as (t & Et & Tt' & St') end.
    rewrite Et.
    assert (Ty3 : t_ty t = TName \/ t_ty t = TNumber \/ t_ty t = TString).
    { rewrite Tt'. destruct A0 as [_ A0]. unfold prop_val_ok in Pp. destruct (pr_value p) as [|b bs].
      - cbn in A0. tauto.
      - destruct (Z.eq_dec b 34) as [->|Nb].
        + right. right. exact A0.
        + assert (X : match b with 34 => fst a0 = TString | _ => if bytes_eqb (b :: bs) [59] then fst a0 = TSemi else fst a0 = TName \/ fst a0 = TNumber end
                      = (if bytes_eqb (b :: bs) [59] then fst a0 = TSemi else fst a0 = TName \/ fst a0 = TNumber)).
          { destruct b as [|q|q]; try reflexivity. do 6 (destruct q as [q|q|]; try reflexivity). congruence. }
          rewrite X in A0. rewrite Pp in A0. tauto. }
    assert (G : post rest (p_ver st) (eq (acc ++ p :: ps))
                  ((value <- txt src t;; advance;;; property_loop cf src f (acc ++ [Build_lef_property (pr_name p) value])) st1)).
    { unfold bind at 1. rewrite (txt_ok src t _ st1 St'). cbv beta iota. pstep.
      eapply post_weaken; [|eapply post_spec; [eapply (IH at0 F PV' f) | split; [exact SH | lia] | eassumption | congruence]].
      cbv beta. intros ? <-. rewrite <- app_assoc. cbn [app]. destruct A0 as [-> _]. destruct p; reflexivity. }
    destruct Ty3 as [E|[E|E]]; rewrite E; exact G.
Qed.

Lemma parse_property_ok : forall ps atoks, Forall2 arel (prop_toks ps) atoks -> Forall prop_val_ok ps -> forall acc,
  spec (parse_property cf src acc) atoks Any (eq (acc ++ ps)).
Proof.
  intros ps atoks F PV acc st rest _ Hs. unfold prop_toks, K in F. cbn [app] in F.
  apply LefRt_Forall2_cons_inv in F. destruct F as (a0 & at0 & -> & A0 & F).
  apply Forall2_app_inv_l in F. destruct F as (at1 & at2 & F1 & F2 & ->). inv_arel.
  cbn [app] in Hs. repeat rewrite <- app_assoc in Hs. cbn [app] in Hs. unfold parse_property. pstep. pstep.
  lazymatch goal with |- LefRtFrame_proofs.post _ _ _ _ (bind (property_loop _ _ (fuel_of ?s) ?a) _ _) =>
    pb (property_loop_ok ps at1 F1 PV (fuel_of s) a) end.
  { split; [eexists _, _; split; [reflexivity | exact A]|].
    match goal with Hx : sees ?s _ |- context [fuel_of ?s] => rewrite (fuel_of_sees src _ _ Hx) end.
    rewrite app_length. cbn [List.length]. lia. }
  pstep. pret. reflexivity.
Qed.

End Constr.
