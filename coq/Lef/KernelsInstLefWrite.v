(** Reading of the generated LEF-writer kernels (Gen/KernelsLefWriteGen.v: lef21/src/write.rs `LefWriter`) at the level of the writer
    model Lef/LefWrite.v.  MONADIC SELF: the `LefWriter` (indentation, session version) is the state of the effect, together with the
    lines written so far: [wm A] = wst -> outcome of (A, wst).

    - strings are byte strings: a literal is [bytes_of_string], concatenation [List.concat], `[String]::join` the model's [join];
      `Display`: an `enumstr!` enum is its text ([*_to_str] of Lef/LefData.v, tied to the source by Gen/LefKeysGen.v), a decimal
      [dec_to_bytes], a `LefPoint` [pt_str], a `LefMask` its decimal, a `char` its UTF-8 encoding, a `u32` the decimal of the number,
      `LefPinDirection` [dir_str];
    - `write_line(args)` (external) appends ONE line (the current indentation level, the text); `Indent += n` / `-= n` (external) move
      the level (`-=` below zero: a panic); `self.dest.flush()` does nothing to a byte vector;
    - `*V5P4`, `>` on decimals: the model's [V5P4], [dec_gt];
    - errors are abstract ([ures]); integers = Z with range checks.
    No proofs in this file. *)
From Coq Require Import ZArith Bool List String.
From L21 Require Import Lef.LefDec Lef.LefData Lef.LefLex Lef.LefParse Lef.LefWrite.
From L21 Require Import Base.KernelOps Base.KernelOpsX Base.KernelOpsS Base.KernelOpsL Base.Outcome Gen.KernelsLefWriteGen.
Import ListNotations.
Local Open Scope Z_scope.

Definition ures (A : Type) : Type := outcome unit A.
(** the model's result with the error value forgotten ([Unmodelled]: the model does not say; no generated run ends there) *)
Definition lunit {A : Type} (x : LefParse.res A) : ures A :=
  match x with LefParse.Ok a => Ok a | LefParse.Err _ => Err tt | LefParse.Panic => Panic | LefParse.OutOfFuel => OutOfFuel | LefParse.Unmodelled => OutOfFuel end.
Definition gwriter : Type := gLefWriter nat dec unit Z.
Definition wst : Type := (gwriter * list line)%type.
Definition wm (A : Type) : Type := wst -> ures (A * wst).
Definition wm_ret (A : Type) (a : A) : wm A := fun s => Ok (a, s).
Definition wm_bind (A B : Type) (x : wm A) (f : A -> wm B) : wm B :=
  fun s => match x s with Ok (a, s') => f a s' | Err e => Err e | Panic => Panic | OutOfFuel => OutOfFuel end.
Definition wm_pan (A : Type) : wm A := fun _ => Panic.
Definition wm_err (A : Type) : wm A := fun _ => Err tt.
Definition wm_chk (t : ity) (z : Z) : wm Z := if ity_in t z then wm_ret Z z else wm_pan Z.
Definition wm_nof1 (x : unit) : wm unit := wm_pan unit.
Definition wm_nof2 (x y : unit) : wm unit := wm_pan unit.
Definition wm_get (A : Type) (l : list A) (i : Z) : wm A :=
  if i <? 0 then wm_pan A else match nth_error l (Z.to_nat i) with Some x => wm_ret A x | None => wm_pan A end.
Definition wm_kops : kops wm unit Z :=
  {| k_ret := wm_ret; k_bind := wm_bind; k_panic := wm_pan;
     f_zero := tt; f_one := tt; f_lit := fun _ _ => tt;
     f_add := wm_nof2; f_sub := wm_nof2; f_mul := wm_nof2; f_div := wm_nof2; f_neg := wm_nof1;
     f_eq := fun _ _ => false; f_lt := fun _ _ => false; f_le := fun _ _ => false;
     KernelOps.f_round := wm_nof1; f_rem_euclid := wm_nof2;
     f_to_radians := wm_nof1; f_sin := wm_nof1; f_cos := wm_nof1;
     f_powi := fun _ _ => wm_pan unit;
     i_lit := fun z => z; i_minval := ity_min; i_maxval := ity_max;
     i_add := fun t a b => wm_chk t (a + b);
     i_sub := fun t a b => wm_chk t (a - b);
     i_mul := fun t a b => wm_chk t (a * b);
     i_div := fun t a b => if b =? 0 then wm_pan Z else wm_chk t (Z.quot a b);
     i_rem := fun t a b => if b =? 0 then wm_pan Z else wm_chk t (Z.rem a b);
     i_neg := fun t a => wm_chk t (- a);
     i_and := fun t a b => wm_ret Z (Z.land a b);
     i_or := fun t a b => wm_ret Z (Z.lor a b);
     i_shl := fun _ _ _ => wm_pan Z; i_shr := fun _ _ _ => wm_pan Z;
     i_min := Z.min; i_max := Z.max; i_eq := Z.eqb; i_lt := Z.ltb; i_le := Z.leb;
     i_cast := fun _ t z => if ity_in t z then wm_ret Z z else wm_pan Z;
     i_try_from := fun _ t z => if ity_in t z then wm_ret Z z else wm_pan Z;
     i_to_f := fun _ _ => wm_pan unit; f_to_i := fun _ _ => wm_pan Z;
     v_len := fun A l => Z.of_nat (List.length l); v_get := wm_get;
     k_for := fun Rt St => for_Z wm_ret wm_bind |}.
Definition wm_xops : kxops wm unit Z :=
  {| kx_base := wm_kops; k_fail := wm_err;
     k_unwrap := fun A x s => match x s with Err _ => Panic | y => y end;
     i_try_from_q := fun _ t z => if ity_in t z then wm_ret Z z else wm_err Z;
     v_set := fun A l i x =>
       if (i <? 0) || (Z.of_nat (List.length l) <=? i) then wm_pan _ else wm_ret _ (k_list_set l (Z.to_nat i) x);
     v_insert := fun A l i x =>
       if (i <? 0) || (Z.of_nat (List.length l) <? i) then wm_pan _ else wm_ret _ (k_list_insert l (Z.to_nat i) x) |}.

(** * the `enumstr!` enums: generated <-> model *)
Definition MLefKey (x : gLefKey unit Z) : LefKey :=
  match x with
  | gLefKey_Library => K_Library
  | gLefKey_Version => K_Version
  | gLefKey_Foreign => K_Foreign
  | gLefKey_Origin => K_Origin
  | gLefKey_Source => K_Source
  | gLefKey_NamesCaseSensitive => K_NamesCaseSensitive
  | gLefKey_NoWireExtensionAtPin => K_NoWireExtensionAtPin
  | gLefKey_Macro => K_Macro
  | gLefKey_End => K_End
  | gLefKey_Pin => K_Pin
  | gLefKey_Port => K_Port
  | gLefKey_Obs => K_Obs
  | gLefKey_Layer => K_Layer
  | gLefKey_Direction => K_Direction
  | gLefKey_Use => K_Use
  | gLefKey_Shape => K_Shape
  | gLefKey_Path => K_Path
  | gLefKey_Polygon => K_Polygon
  | gLefKey_Rect => K_Rect
  | gLefKey_Via => K_Via
  | gLefKey_Width => K_Width
  | gLefKey_Class => K_Class
  | gLefKey_Symmetry => K_Symmetry
  | gLefKey_RowPattern => K_RowPattern
  | gLefKey_Site => K_Site
  | gLefKey_Size => K_Size
  | gLefKey_Do => K_Do
  | gLefKey_Iterate => K_Iterate
  | gLefKey_Step => K_Step
  | gLefKey_By => K_By
  | gLefKey_BusBitChars => K_BusBitChars
  | gLefKey_DividerChar => K_DividerChar
  | gLefKey_BeginExtension => K_BeginExtension
  | gLefKey_EndExtension => K_EndExtension
  | gLefKey_Tristate => K_Tristate
  | gLefKey_Input => K_Input
  | gLefKey_Output => K_Output
  | gLefKey_Inout => K_Inout
  | gLefKey_FeedThru => K_FeedThru
  | gLefKey_ExceptPgNet => K_ExceptPgNet
  | gLefKey_DesignRuleWidth => K_DesignRuleWidth
  | gLefKey_Spacing => K_Spacing
  | gLefKey_Bump => K_Bump
  | gLefKey_Eeq => K_Eeq
  | gLefKey_FixedMask => K_FixedMask
  | gLefKey_Mask => K_Mask
  | gLefKey_UseMinSpacing => K_UseMinSpacing
  | gLefKey_TaperRule => K_TaperRule
  | gLefKey_NetExpr => K_NetExpr
  | gLefKey_SupplySensitivity => K_SupplySensitivity
  | gLefKey_GroundSensitivity => K_GroundSensitivity
  | gLefKey_MustJoin => K_MustJoin
  | gLefKey_Property => K_Property
  | gLefKey_ManufacturingGrid => K_ManufacturingGrid
  | gLefKey_ClearanceMeasure => K_ClearanceMeasure
  | gLefKey_Density => K_Density
  | gLefKey_Units => K_Units
  | gLefKey_Time => K_Time
  | gLefKey_Nanoseconds => K_Nanoseconds
  | gLefKey_Capacitance => K_Capacitance
  | gLefKey_Picofarads => K_Picofarads
  | gLefKey_Resistance => K_Resistance
  | gLefKey_Ohms => K_Ohms
  | gLefKey_Power => K_Power
  | gLefKey_Milliwatts => K_Milliwatts
  | gLefKey_Current => K_Current
  | gLefKey_Milliamps => K_Milliamps
  | gLefKey_Voltage => K_Voltage
  | gLefKey_Volts => K_Volts
  | gLefKey_Database => K_Database
  | gLefKey_Microns => K_Microns
  | gLefKey_Frequency => K_Frequency
  | gLefKey_Megahertz => K_Megahertz
  | gLefKey_AntennaModel => K_AntennaModel
  | gLefKey_AntennaDiffArea => K_AntennaDiffArea
  | gLefKey_AntennaGateArea => K_AntennaGateArea
  | gLefKey_AntennaPartialMetalArea => K_AntennaPartialMetalArea
  | gLefKey_AntennaPartialMetalSideArea => K_AntennaPartialMetalSideArea
  | gLefKey_AntennaPartialCutArea => K_AntennaPartialCutArea
  | gLefKey_AntennaPartialDiffArea => K_AntennaPartialDiffArea
  | gLefKey_AntennaMaxAreaCar => K_AntennaMaxAreaCar
  | gLefKey_AntennaMaxSideAreaCar => K_AntennaMaxSideAreaCar
  | gLefKey_AntennaMaxCutCar => K_AntennaMaxCutCar
  | gLefKey_Default => K_Default
  | gLefKey_ViaRule => K_ViaRule
  | gLefKey_CutSize => K_CutSize
  | gLefKey_Layers => K_Layers
  | gLefKey_CutSpacing => K_CutSpacing
  | gLefKey_Enclosure => K_Enclosure
  | gLefKey_RowCol => K_RowCol
  | gLefKey_Offset => K_Offset
  | gLefKey_Pattern => K_Pattern
  | gLefKey_PropertyDefinitions => K_PropertyDefinitions
  | gLefKey_String => K_String
  | gLefKey_Real => K_Real
  | gLefKey_Range => K_Range
  | gLefKey_Integer => K_Integer
  | gLefKey_MaxViaStack => K_MaxViaStack
  | gLefKey_Generate => K_Generate
  | gLefKey_NonDefaultRule => K_NonDefaultRule
  end.
Definition GLefKey (x : LefKey) : gLefKey unit Z :=
  match x with
  | K_Library => gLefKey_Library
  | K_Version => gLefKey_Version
  | K_Foreign => gLefKey_Foreign
  | K_Origin => gLefKey_Origin
  | K_Source => gLefKey_Source
  | K_NamesCaseSensitive => gLefKey_NamesCaseSensitive
  | K_NoWireExtensionAtPin => gLefKey_NoWireExtensionAtPin
  | K_Macro => gLefKey_Macro
  | K_End => gLefKey_End
  | K_Pin => gLefKey_Pin
  | K_Port => gLefKey_Port
  | K_Obs => gLefKey_Obs
  | K_Layer => gLefKey_Layer
  | K_Direction => gLefKey_Direction
  | K_Use => gLefKey_Use
  | K_Shape => gLefKey_Shape
  | K_Path => gLefKey_Path
  | K_Polygon => gLefKey_Polygon
  | K_Rect => gLefKey_Rect
  | K_Via => gLefKey_Via
  | K_Width => gLefKey_Width
  | K_Class => gLefKey_Class
  | K_Symmetry => gLefKey_Symmetry
  | K_RowPattern => gLefKey_RowPattern
  | K_Site => gLefKey_Site
  | K_Size => gLefKey_Size
  | K_Do => gLefKey_Do
  | K_Iterate => gLefKey_Iterate
  | K_Step => gLefKey_Step
  | K_By => gLefKey_By
  | K_BusBitChars => gLefKey_BusBitChars
  | K_DividerChar => gLefKey_DividerChar
  | K_BeginExtension => gLefKey_BeginExtension
  | K_EndExtension => gLefKey_EndExtension
  | K_Tristate => gLefKey_Tristate
  | K_Input => gLefKey_Input
  | K_Output => gLefKey_Output
  | K_Inout => gLefKey_Inout
  | K_FeedThru => gLefKey_FeedThru
  | K_ExceptPgNet => gLefKey_ExceptPgNet
  | K_DesignRuleWidth => gLefKey_DesignRuleWidth
  | K_Spacing => gLefKey_Spacing
  | K_Bump => gLefKey_Bump
  | K_Eeq => gLefKey_Eeq
  | K_FixedMask => gLefKey_FixedMask
  | K_Mask => gLefKey_Mask
  | K_UseMinSpacing => gLefKey_UseMinSpacing
  | K_TaperRule => gLefKey_TaperRule
  | K_NetExpr => gLefKey_NetExpr
  | K_SupplySensitivity => gLefKey_SupplySensitivity
  | K_GroundSensitivity => gLefKey_GroundSensitivity
  | K_MustJoin => gLefKey_MustJoin
  | K_Property => gLefKey_Property
  | K_ManufacturingGrid => gLefKey_ManufacturingGrid
  | K_ClearanceMeasure => gLefKey_ClearanceMeasure
  | K_Density => gLefKey_Density
  | K_Units => gLefKey_Units
  | K_Time => gLefKey_Time
  | K_Nanoseconds => gLefKey_Nanoseconds
  | K_Capacitance => gLefKey_Capacitance
  | K_Picofarads => gLefKey_Picofarads
  | K_Resistance => gLefKey_Resistance
  | K_Ohms => gLefKey_Ohms
  | K_Power => gLefKey_Power
  | K_Milliwatts => gLefKey_Milliwatts
  | K_Current => gLefKey_Current
  | K_Milliamps => gLefKey_Milliamps
  | K_Voltage => gLefKey_Voltage
  | K_Volts => gLefKey_Volts
  | K_Database => gLefKey_Database
  | K_Microns => gLefKey_Microns
  | K_Frequency => gLefKey_Frequency
  | K_Megahertz => gLefKey_Megahertz
  | K_AntennaModel => gLefKey_AntennaModel
  | K_AntennaDiffArea => gLefKey_AntennaDiffArea
  | K_AntennaGateArea => gLefKey_AntennaGateArea
  | K_AntennaPartialMetalArea => gLefKey_AntennaPartialMetalArea
  | K_AntennaPartialMetalSideArea => gLefKey_AntennaPartialMetalSideArea
  | K_AntennaPartialCutArea => gLefKey_AntennaPartialCutArea
  | K_AntennaPartialDiffArea => gLefKey_AntennaPartialDiffArea
  | K_AntennaMaxAreaCar => gLefKey_AntennaMaxAreaCar
  | K_AntennaMaxSideAreaCar => gLefKey_AntennaMaxSideAreaCar
  | K_AntennaMaxCutCar => gLefKey_AntennaMaxCutCar
  | K_Default => gLefKey_Default
  | K_ViaRule => gLefKey_ViaRule
  | K_CutSize => gLefKey_CutSize
  | K_Layers => gLefKey_Layers
  | K_CutSpacing => gLefKey_CutSpacing
  | K_Enclosure => gLefKey_Enclosure
  | K_RowCol => gLefKey_RowCol
  | K_Offset => gLefKey_Offset
  | K_Pattern => gLefKey_Pattern
  | K_PropertyDefinitions => gLefKey_PropertyDefinitions
  | K_String => gLefKey_String
  | K_Real => gLefKey_Real
  | K_Range => gLefKey_Range
  | K_Integer => gLefKey_Integer
  | K_MaxViaStack => gLefKey_MaxViaStack
  | K_Generate => gLefKey_Generate
  | K_NonDefaultRule => gLefKey_NonDefaultRule
  end.
Definition MLefOnOff (x : gLefOnOff unit Z) : LefOnOff :=
  match x with
  | gLefOnOff_On => LefOnOff_On
  | gLefOnOff_Off => LefOnOff_Off
  end.
Definition GLefOnOff (x : LefOnOff) : gLefOnOff unit Z :=
  match x with
  | LefOnOff_On => gLefOnOff_On
  | LefOnOff_Off => gLefOnOff_Off
  end.
Definition MLefClearanceStyle (x : gLefClearanceStyle unit Z) : LefClearanceStyle :=
  match x with
  | gLefClearanceStyle_MaxXY => LefClearanceStyle_MaxXY
  | gLefClearanceStyle_Euclidean => LefClearanceStyle_Euclidean
  end.
Definition GLefClearanceStyle (x : LefClearanceStyle) : gLefClearanceStyle unit Z :=
  match x with
  | LefClearanceStyle_MaxXY => gLefClearanceStyle_MaxXY
  | LefClearanceStyle_Euclidean => gLefClearanceStyle_Euclidean
  end.
Definition MLefDefSource (x : gLefDefSource unit Z) : LefDefSource :=
  match x with
  | gLefDefSource_Netlist => LefDefSource_Netlist
  | gLefDefSource_Dist => LefDefSource_Dist
  | gLefDefSource_Timing => LefDefSource_Timing
  | gLefDefSource_User => LefDefSource_User
  end.
Definition GLefDefSource (x : LefDefSource) : gLefDefSource unit Z :=
  match x with
  | LefDefSource_Netlist => gLefDefSource_Netlist
  | LefDefSource_Dist => gLefDefSource_Dist
  | LefDefSource_Timing => gLefDefSource_Timing
  | LefDefSource_User => gLefDefSource_User
  end.
Definition MLefSymmetry (x : gLefSymmetry unit Z) : LefSymmetry :=
  match x with
  | gLefSymmetry_X => LefSymmetry_X
  | gLefSymmetry_Y => LefSymmetry_Y
  | gLefSymmetry_R90 => LefSymmetry_R90
  end.
Definition GLefSymmetry (x : LefSymmetry) : gLefSymmetry unit Z :=
  match x with
  | LefSymmetry_X => gLefSymmetry_X
  | LefSymmetry_Y => gLefSymmetry_Y
  | LefSymmetry_R90 => gLefSymmetry_R90
  end.
Definition MLefOrient (x : gLefOrient unit Z) : LefOrient :=
  match x with
  | gLefOrient_N => LefOrient_N
  | gLefOrient_S => LefOrient_S
  | gLefOrient_E => LefOrient_E
  | gLefOrient_W => LefOrient_W
  | gLefOrient_FN => LefOrient_FN
  | gLefOrient_FS => LefOrient_FS
  | gLefOrient_FE => LefOrient_FE
  | gLefOrient_FW => LefOrient_FW
  end.
Definition GLefOrient (x : LefOrient) : gLefOrient unit Z :=
  match x with
  | LefOrient_N => gLefOrient_N
  | LefOrient_S => gLefOrient_S
  | LefOrient_E => gLefOrient_E
  | LefOrient_W => gLefOrient_W
  | LefOrient_FN => gLefOrient_FN
  | LefOrient_FS => gLefOrient_FS
  | LefOrient_FE => gLefOrient_FE
  | LefOrient_FW => gLefOrient_FW
  end.
Definition MLefPinUse (x : gLefPinUse unit Z) : LefPinUse :=
  match x with
  | gLefPinUse_Signal => LefPinUse_Signal
  | gLefPinUse_Analog => LefPinUse_Analog
  | gLefPinUse_Power => LefPinUse_Power
  | gLefPinUse_Ground => LefPinUse_Ground
  | gLefPinUse_Clock => LefPinUse_Clock
  end.
Definition GLefPinUse (x : LefPinUse) : gLefPinUse unit Z :=
  match x with
  | LefPinUse_Signal => gLefPinUse_Signal
  | LefPinUse_Analog => gLefPinUse_Analog
  | LefPinUse_Power => gLefPinUse_Power
  | LefPinUse_Ground => gLefPinUse_Ground
  | LefPinUse_Clock => gLefPinUse_Clock
  end.
Definition MLefPinShape (x : gLefPinShape unit Z) : LefPinShape :=
  match x with
  | gLefPinShape_Abutment => LefPinShape_Abutment
  | gLefPinShape_Ring => LefPinShape_Ring
  | gLefPinShape_FeedThru => LefPinShape_FeedThru
  end.
Definition GLefPinShape (x : LefPinShape) : gLefPinShape unit Z :=
  match x with
  | LefPinShape_Abutment => gLefPinShape_Abutment
  | LefPinShape_Ring => gLefPinShape_Ring
  | LefPinShape_FeedThru => gLefPinShape_FeedThru
  end.
Definition MLefMacroClassName (x : gLefMacroClassName unit Z) : LefMacroClassName :=
  match x with
  | gLefMacroClassName_Block => LefMacroClassName_Block
  | gLefMacroClassName_Pad => LefMacroClassName_Pad
  | gLefMacroClassName_Core => LefMacroClassName_Core
  | gLefMacroClassName_EndCap => LefMacroClassName_EndCap
  | gLefMacroClassName_Cover => LefMacroClassName_Cover
  | gLefMacroClassName_Ring => LefMacroClassName_Ring
  end.
Definition GLefMacroClassName (x : LefMacroClassName) : gLefMacroClassName unit Z :=
  match x with
  | LefMacroClassName_Block => gLefMacroClassName_Block
  | LefMacroClassName_Pad => gLefMacroClassName_Pad
  | LefMacroClassName_Core => gLefMacroClassName_Core
  | LefMacroClassName_EndCap => gLefMacroClassName_EndCap
  | LefMacroClassName_Cover => gLefMacroClassName_Cover
  | LefMacroClassName_Ring => gLefMacroClassName_Ring
  end.
Definition MLefPadClassType (x : gLefPadClassType unit Z) : LefPadClassType :=
  match x with
  | gLefPadClassType_Input => LefPadClassType_Input
  | gLefPadClassType_Output => LefPadClassType_Output
  | gLefPadClassType_Inout => LefPadClassType_Inout
  | gLefPadClassType_Power => LefPadClassType_Power
  | gLefPadClassType_Spacer => LefPadClassType_Spacer
  | gLefPadClassType_AreaIo => LefPadClassType_AreaIo
  end.
Definition GLefPadClassType (x : LefPadClassType) : gLefPadClassType unit Z :=
  match x with
  | LefPadClassType_Input => gLefPadClassType_Input
  | LefPadClassType_Output => gLefPadClassType_Output
  | LefPadClassType_Inout => gLefPadClassType_Inout
  | LefPadClassType_Power => gLefPadClassType_Power
  | LefPadClassType_Spacer => gLefPadClassType_Spacer
  | LefPadClassType_AreaIo => gLefPadClassType_AreaIo
  end.
Definition MLefEndCapClassType (x : gLefEndCapClassType unit Z) : LefEndCapClassType :=
  match x with
  | gLefEndCapClassType_Pre => LefEndCapClassType_Pre
  | gLefEndCapClassType_Post => LefEndCapClassType_Post
  | gLefEndCapClassType_TopLeft => LefEndCapClassType_TopLeft
  | gLefEndCapClassType_TopRight => LefEndCapClassType_TopRight
  | gLefEndCapClassType_BottomLeft => LefEndCapClassType_BottomLeft
  | gLefEndCapClassType_BottomRight => LefEndCapClassType_BottomRight
  end.
Definition GLefEndCapClassType (x : LefEndCapClassType) : gLefEndCapClassType unit Z :=
  match x with
  | LefEndCapClassType_Pre => gLefEndCapClassType_Pre
  | LefEndCapClassType_Post => gLefEndCapClassType_Post
  | LefEndCapClassType_TopLeft => gLefEndCapClassType_TopLeft
  | LefEndCapClassType_TopRight => gLefEndCapClassType_TopRight
  | LefEndCapClassType_BottomLeft => gLefEndCapClassType_BottomLeft
  | LefEndCapClassType_BottomRight => gLefEndCapClassType_BottomRight
  end.
Definition MLefBlockClassType (x : gLefBlockClassType unit Z) : LefBlockClassType :=
  match x with
  | gLefBlockClassType_BlackBox => LefBlockClassType_BlackBox
  | gLefBlockClassType_Soft => LefBlockClassType_Soft
  end.
Definition GLefBlockClassType (x : LefBlockClassType) : gLefBlockClassType unit Z :=
  match x with
  | LefBlockClassType_BlackBox => gLefBlockClassType_BlackBox
  | LefBlockClassType_Soft => gLefBlockClassType_Soft
  end.
Definition MLefCoreClassType (x : gLefCoreClassType unit Z) : LefCoreClassType :=
  match x with
  | gLefCoreClassType_FeedThru => LefCoreClassType_FeedThru
  | gLefCoreClassType_TieHigh => LefCoreClassType_TieHigh
  | gLefCoreClassType_TieLow => LefCoreClassType_TieLow
  | gLefCoreClassType_Spacer => LefCoreClassType_Spacer
  | gLefCoreClassType_AntennaCell => LefCoreClassType_AntennaCell
  | gLefCoreClassType_WellTap => LefCoreClassType_WellTap
  end.
Definition GLefCoreClassType (x : LefCoreClassType) : gLefCoreClassType unit Z :=
  match x with
  | LefCoreClassType_FeedThru => gLefCoreClassType_FeedThru
  | LefCoreClassType_TieHigh => gLefCoreClassType_TieHigh
  | LefCoreClassType_TieLow => gLefCoreClassType_TieLow
  | LefCoreClassType_Spacer => gLefCoreClassType_Spacer
  | LefCoreClassType_AntennaCell => gLefCoreClassType_AntennaCell
  | LefCoreClassType_WellTap => gLefCoreClassType_WellTap
  end.
Definition MLefPortClass (x : gLefPortClass unit Z) : LefPortClass :=
  match x with
  | gLefPortClass_None => LefPortClass_None
  | gLefPortClass_Core => LefPortClass_Core
  | gLefPortClass_Bump => LefPortClass_Bump
  end.
Definition GLefPortClass (x : LefPortClass) : gLefPortClass unit Z :=
  match x with
  | LefPortClass_None => gLefPortClass_None
  | LefPortClass_Core => gLefPortClass_Core
  | LefPortClass_Bump => gLefPortClass_Bump
  end.
Definition MLefSiteClass (x : gLefSiteClass unit Z) : LefSiteClass :=
  match x with
  | gLefSiteClass_Pad => LefSiteClass_Pad
  | gLefSiteClass_Core => LefSiteClass_Core
  end.
Definition GLefSiteClass (x : LefSiteClass) : gLefSiteClass unit Z :=
  match x with
  | LefSiteClass_Pad => gLefSiteClass_Pad
  | LefSiteClass_Core => gLefSiteClass_Core
  end.
Definition MLefAntennaModel (x : gLefAntennaModel unit Z) : LefAntennaModel :=
  match x with
  | gLefAntennaModel_Oxide1 => LefAntennaModel_Oxide1
  | gLefAntennaModel_Oxide2 => LefAntennaModel_Oxide2
  | gLefAntennaModel_Oxide3 => LefAntennaModel_Oxide3
  | gLefAntennaModel_Oxide4 => LefAntennaModel_Oxide4
  end.
Definition GLefAntennaModel (x : LefAntennaModel) : gLefAntennaModel unit Z :=
  match x with
  | LefAntennaModel_Oxide1 => gLefAntennaModel_Oxide1
  | LefAntennaModel_Oxide2 => gLefAntennaModel_Oxide2
  | LefAntennaModel_Oxide3 => gLefAntennaModel_Oxide3
  | LefAntennaModel_Oxide4 => gLefAntennaModel_Oxide4
  end.
Definition MLefPropertyDefinitionObjectType (x : gLefPropertyDefinitionObjectType unit Z) : LefPropertyDefinitionObjectType :=
  match x with
  | gLefPropertyDefinitionObjectType_Layer => LefPropertyDefinitionObjectType_Layer
  | gLefPropertyDefinitionObjectType_Library => LefPropertyDefinitionObjectType_Library
  | gLefPropertyDefinitionObjectType_Macro => LefPropertyDefinitionObjectType_Macro
  | gLefPropertyDefinitionObjectType_NonDefaultRule => LefPropertyDefinitionObjectType_NonDefaultRule
  | gLefPropertyDefinitionObjectType_Pin => LefPropertyDefinitionObjectType_Pin
  | gLefPropertyDefinitionObjectType_Via => LefPropertyDefinitionObjectType_Via
  | gLefPropertyDefinitionObjectType_ViaRule => LefPropertyDefinitionObjectType_ViaRule
  end.
Definition GLefPropertyDefinitionObjectType (x : LefPropertyDefinitionObjectType) : gLefPropertyDefinitionObjectType unit Z :=
  match x with
  | LefPropertyDefinitionObjectType_Layer => gLefPropertyDefinitionObjectType_Layer
  | LefPropertyDefinitionObjectType_Library => gLefPropertyDefinitionObjectType_Library
  | LefPropertyDefinitionObjectType_Macro => gLefPropertyDefinitionObjectType_Macro
  | LefPropertyDefinitionObjectType_NonDefaultRule => gLefPropertyDefinitionObjectType_NonDefaultRule
  | LefPropertyDefinitionObjectType_Pin => gLefPropertyDefinitionObjectType_Pin
  | LefPropertyDefinitionObjectType_Via => gLefPropertyDefinitionObjectType_Via
  | LefPropertyDefinitionObjectType_ViaRule => gLefPropertyDefinitionObjectType_ViaRule
  end.

(** * the state, `write_line`, the indentation *)
Definition w_indent (w : gwriter) : nat := gLefWriter_indent nat dec w.
Definition x_get : wm gwriter := fun s => Ok (fst s, s).
Definition x_put (w : gwriter) : wm unit := fun s => Ok (tt, (w, snd s)).
Definition x_add_assign (lvl : nat) (n : Z) : wm nat := wm_ret nat (lvl + Z.to_nat n)%nat.
Definition x_sub_assign (lvl : nat) (n : Z) : wm nat := if Z.of_nat lvl <? n then wm_pan nat else wm_ret nat (lvl - Z.to_nat n)%nat.
Definition x_write_line (txt : bytes) : wm unit := fun s => Ok (tt, (fst s, snd s ++ [(w_indent (fst s), txt)])).
Definition x_flush : wm unit := wm_ret unit tt.
Definition x_lt (a b : dec) : bool := dec_gt b a.

(** * `Display` and strings *)
Definition x_lit (s : string) : bytes := bytes_of_string s.
Definition x_concat (l : list bytes) : bytes := List.concat l.
Definition x_join (sep : bytes) (l : list bytes) : bytes := join sep l.
Definition x_dkey (k : gLefKey unit Z) : bytes := kw (MLefKey k).
Definition x_ddec (d : dec) : bytes := dstr d.
Definition Mpoint (p : gLefPoint dec unit Z) : lef_point := {| pt_x := gLefPoint_x dec p; pt_y := gLefPoint_y dec p |}.
Definition x_dpoint (p : gLefPoint dec unit Z) : bytes := pt_str (Mpoint p).
Definition x_dmask (m : gLefMask dec unit Z) : bytes := dstr (gLefMask_mask dec m).

(** * the model's data as the generated records *)
Definition Gpoint (p : lef_point) : gLefPoint dec unit Z := mk_gLefPoint dec (pt_x p) (pt_y p).
Definition Gmask (m : option dec) : option (gLefMask dec unit Z) := option_map (fun d => mk_gLefMask dec d) m.
Definition Gshape (s : lef_shape) : gLefShape dec unit Z :=
  match s with
  | ShRect m p0 p1 => gLefShape_Rect dec (Gmask m) (Gpoint p0) (Gpoint p1)
  | ShPolygon m pts => gLefShape_Polygon dec (Gmask m) (map Gpoint pts)
  | ShPath m pts => gLefShape_Path dec (Gmask m) (map Gpoint pts)
  end.
Definition Gstep (p : lef_step) : gLefStepPattern dec unit Z := mk_gLefStepPattern dec (st_numx p) (st_numy p) (st_spacex p) (st_spacey p).
Definition Ggeometry (g : lef_geometry) : gLefGeometry dec unit Z :=
  match g with
  | GShape s => gLefGeometry_Shape dec (Gshape s)
  | GIterate s p => gLefGeometry_Iterate dec (Gshape s) (Gstep p)
  end.
Definition Gvia_inst (v : lef_via_inst) : gLefVia dec bytes unit Z := mk_gLefVia dec bytes (vi_via_name v) (Gpoint (vi_pt v)).
Definition Gspacing (s : lef_layer_spacing) : gLefLayerSpacing dec unit Z :=
  match s with LsSpacing d => gLefLayerSpacing_Spacing dec d | LsDesignRuleWidth d => gLefLayerSpacing_DesignRuleWidth dec d end.
Definition Glayer_geoms (l : lef_layer_geoms) : gLefLayerGeometries dec bytes unit Z :=
  mk_gLefLayerGeometries dec bytes (lg_layer_name l) (map Ggeometry (lg_geometries l)) (map Gvia_inst (lg_vias l)) (lg_except_pg_net l)
                         (option_map Gspacing (lg_spacing l)) (lg_width l).
Definition Gproperty (p : lef_property) : gLefProperty bytes unit Z := mk_gLefProperty bytes (pr_name p) (pr_value p).
Definition Gdensity_rect (r : lef_density_rect) : gLefDensityRectangle dec unit Z :=
  mk_gLefDensityRectangle dec (Gpoint (dr_pt1 r)) (Gpoint (dr_pt2 r)) (dr_density_value r).
Definition Gdensity_geoms (g : lef_density_geoms) : gLefDensityGeometries dec bytes unit Z :=
  mk_gLefDensityGeometries dec bytes (dg_layer_name g) (map Gdensity_rect (dg_geometries g)).

(** * the translated functions at this reading *)
Definition g_format_mask (m : option dec) : wm (list bytes) := g_LefWriter_format_mask wm_xops dec bytes x_dkey x_dmask (Gmask m).
Definition g_format_geom (s : lef_shape) (p : option lef_step) : wm (list bytes) :=
  g_LefWriter_format_geom wm_xops dec bytes x_ddec x_dkey x_dmask x_dpoint (Gshape s) (option_map Gstep p).
Definition g_write_geom (g : lef_geometry) : wm unit :=
  g_LefWriter_write_geom wm_xops dec bytes x_write_line x_ddec x_dkey x_dmask x_dpoint x_concat x_join x_lit (Ggeometry g).
Definition g_write_layer_geom (l : lef_layer_geoms) : wm unit :=
  g_LefWriter_write_layer_geom wm_xops nat dec bytes x_get x_put x_add_assign x_sub_assign x_write_line x_ddec x_dkey x_dmask x_dpoint
                               x_concat x_join x_lit (Glayer_geoms l).
Definition g_write_property (p : lef_property) : wm unit :=
  g_LefWriter_write_property wm_xops bytes x_write_line x_dkey x_concat x_lit (Gproperty p).
Definition g_write_density (d : list lef_density_geoms) : wm unit :=
  g_LefWriter_write_density wm_xops nat dec bytes x_get x_put x_add_assign x_sub_assign x_write_line x_ddec x_dkey x_dpoint x_concat x_lit
                            (map Gdensity_geoms d).

(** the writer's state after the lines [ls] were written at its indentation *)
Definition wrote (s : wst) (ls : list line) : ures (unit * wst) := Ok (tt, (fst s, snd s ++ ls)).
(** the tree as repaired: `SITE name `, `CLASS x ;`, `PROPERTY name value ;` *)
Definition cf_now : cfg -> Prop := fun cf => c_w_site_orig cf = false /\ c_w_prop_nosemi cf = false.

(** * second batch: the remaining `write_*` *)
Definition x_denum {T} (to_str : T -> string) (x : T) : bytes := enum_s to_str x.
Definition x_dsym (x : gLefSymmetry unit Z) : bytes := enum_s LefSymmetry_to_str (MLefSymmetry x).
Definition x_dendcap (x : gLefEndCapClassType unit Z) : bytes := enum_s LefEndCapClassType_to_str (MLefEndCapClassType x).
Definition x_dmcname (x : gLefMacroClassName unit Z) : bytes := enum_s LefMacroClassName_to_str (MLefMacroClassName x).
Definition x_dsiteclass (x : gLefSiteClass unit Z) : bytes := enum_s LefSiteClass_to_str (MLefSiteClass x).
Definition x_dportclass (x : gLefPortClass unit Z) : bytes := enum_s LefPortClass_to_str (MLefPortClass x).
Definition x_dant (x : gLefAntennaModel unit Z) : bytes := enum_s LefAntennaModel_to_str (MLefAntennaModel x).
Definition x_dpinshape (x : gLefPinShape unit Z) : bytes := enum_s LefPinShape_to_str (MLefPinShape x).
Definition x_dpinuse (x : gLefPinUse unit Z) : bytes := enum_s LefPinUse_to_str (MLefPinUse x).
Definition x_dsource (x : gLefDefSource unit Z) : bytes := enum_s LefDefSource_to_str (MLefDefSource x).
Definition x_dorient (x : gLefOrient unit Z) : bytes := enum_s LefOrient_to_str (MLefOrient x).
Definition x_donoff (x : gLefOnOff unit Z) : bytes := enum_s LefOnOff_to_str (MLefOnOff x).
Definition x_dclear (x : gLefClearanceStyle unit Z) : bytes := enum_s LefClearanceStyle_to_str (MLefClearanceStyle x).
Definition x_dobjtype (x : gLefPropertyDefinitionObjectType unit Z) : bytes := enum_s LefPropertyDefinitionObjectType_to_str (MLefPropertyDefinitionObjectType x).
Definition Mdir (d : gLefPinDirection unit Z) : lef_pin_direction :=
  match d with gLefPinDirection_Input => DirInput | gLefPinDirection_Output b => DirOutput b | gLefPinDirection_Inout => DirInout | gLefPinDirection_FeedThru => DirFeedThru end.
Definition Gdir (d : lef_pin_direction) : gLefPinDirection unit Z :=
  match d with DirInput => gLefPinDirection_Input | DirOutput b => gLefPinDirection_Output b | DirInout => gLefPinDirection_Inout | DirFeedThru => gLefPinDirection_FeedThru end.
Definition x_ddir (d : gLefPinDirection unit Z) : bytes := dir_str (Mdir d).
Definition x_dint (z : Z) : bytes := dstr (dec_of_Z z).
Definition x_dchar (c : Z) : bytes := utf8_enc c.
Definition x_dopt_block (o : option (gLefBlockClassType unit Z)) : wm bytes := wm_ret _ (display_option LefBlockClassType_to_str (option_map MLefBlockClassType o)).
Definition x_dopt_core (o : option (gLefCoreClassType unit Z)) : wm bytes := wm_ret _ (display_option LefCoreClassType_to_str (option_map MLefCoreClassType o)).
Definition x_dopt_pad (o : option (gLefPadClassType unit Z)) : wm bytes := wm_ret _ (display_option LefPadClassType_to_str (option_map MLefPadClassType o)).

Definition Gmacro_class (c : lef_macro_class) : gLefMacroClass unit Z :=
  match c with
  | McCover b => gLefMacroClass_Cover b | McRing => gLefMacroClass_Ring
  | McBlock t => gLefMacroClass_Block (option_map GLefBlockClassType t) | McPad t => gLefMacroClass_Pad (option_map GLefPadClassType t)
  | McCore t => gLefMacroClass_Core (option_map GLefCoreClassType t) | McEndCap t => gLefMacroClass_EndCap (GLefEndCapClassType t)
  end.
Definition Gunits (u : lef_units) : gLefUnits dec unit Z :=
  mk_gLefUnits dec (option_map (fun z => mk_gLefDbuPerMicron z) (u_database_microns u)) (u_time_ns u) (u_capacitance_pf u) (u_resistance_ohms u)
               (u_power_mw u) (u_current_ma u) (u_voltage_volts u) (u_frequency_mhz u).
Definition Gsite (s : lef_site) : gLefSite dec bytes unit Z :=
  mk_gLefSite dec bytes (site_name s) (GLefSiteClass (site_class s)) (site_size s) (option_map (map GLefSymmetry) (site_symmetry s)) None.
Definition Gport (p : lef_port) : gLefPort dec bytes unit Z := mk_gLefPort dec bytes (option_map GLefPortClass (po_class p)) (map Glayer_geoms (po_layers p)).
Definition Gantenna (a : lef_antenna_attr) : gLefPinAntennaAttr dec bytes unit Z := mk_gLefPinAntennaAttr dec bytes (aa_key a) (aa_val a) (aa_layer a).
Definition Gpin (p : lef_pin) : gLefPin dec bytes unit Z :=
  mk_gLefPin dec bytes (pin_name p) (map Gport (pin_ports p)) (option_map Gdir (pin_direction p)) (option_map GLefPinUse (pin_use_ p))
             (option_map GLefPinShape (pin_shape p)) (option_map GLefAntennaModel (pin_antenna_model p)) (map Gantenna (pin_antenna_attrs p))
             (pin_taper_rule p) (pin_supply_sensitivity p) (pin_ground_sensitivity p) (pin_must_join p) (pin_net_expr p) (map Gproperty (pin_properties p)).
Definition Gvia_shape (s : lef_via_shape) : gLefViaShape dec unit Z :=
  match s with VsRect m p0 p1 => gLefViaShape_Rect dec (Gmask m) (Gpoint p0) (Gpoint p1) | VsPolygon m pts => gLefViaShape_Polygon dec (Gmask m) (map Gpoint pts) end.
Definition Gvia_lg (l : lef_via_layer_geoms) : gLefViaLayerGeometries dec bytes unit Z := mk_gLefViaLayerGeometries dec bytes (vl_layer_name l) (map Gvia_shape (vl_shapes l)).
Definition Gvia_data (d : lef_via_data) : gLefViaDefData dec bytes unit Z :=
  match d with
  | VdFixed f => gLefViaDefData_Fixed dec bytes (mk_gLefFixedViaDef dec bytes (fv_resistance_ohms f) (map Gvia_lg (fv_layers f)))
  | VdGenerated g => gLefViaDefData_Generated dec bytes
      (mk_gLefGeneratedViaDef dec bytes (gv_via_rule_name g) (gv_cut_size_x g) (gv_cut_size_y g) (gv_bot_metal_layer g) (gv_cut_layer g) (gv_top_metal_layer g)
         (gv_cut_spacing_x g) (gv_cut_spacing_y g) (gv_bot_enc_x g) (gv_bot_enc_y g) (gv_top_enc_x g) (gv_top_enc_y g)
         (option_map (fun r => mk_gLefRowCol dec (rc_rows r) (rc_cols r)) (gv_rowcol g)) (option_map Gpoint (gv_origin g))
         (option_map (fun o => mk_gLefOffset dec (of_bot_x o) (of_bot_y o) (of_top_x o) (of_top_y o)) (gv_offset g)) None)
  end.
Definition Gvia_def (v : lef_via_def) : gLefViaDef dec bytes unit Z := mk_gLefViaDef dec bytes (vd_name v) (vd_default v) (Gvia_data (vd_data v)) None.

Definition g_write_symmetries (l : list LefSymmetry) : wm unit :=
  g_LefWriter_write_symmetries wm_xops bytes x_write_line x_dkey x_dsym x_concat x_join x_lit (map GLefSymmetry l).
Definition g_write_macro_class (c : lef_macro_class) : wm unit :=
  g_LefWriter_write_macro_class wm_xops bytes x_write_line x_dendcap x_dkey x_dmcname x_dopt_block x_dopt_core x_dopt_pad x_concat x_lit (Gmacro_class c).
Definition g_write_units (u : lef_units) : wm unit :=
  g_LefWriter_write_units wm_xops nat dec bytes x_get x_put x_add_assign x_sub_assign x_write_line x_ddec x_dkey x_dint x_concat x_lit (Gunits u).
Definition g_write_site (s : lef_site) : wm unit :=
  g_LefWriter_write_site wm_xops nat dec bytes x_get x_put x_add_assign x_sub_assign x_write_line x_ddec x_dkey x_dsiteclass x_dsym x_concat x_join x_lit (Gsite s).
Definition g_write_port (p : lef_port) : wm unit :=
  g_LefWriter_write_port wm_xops nat dec bytes x_get x_put x_add_assign x_sub_assign x_write_line x_ddec x_dkey x_dmask x_dpoint x_dportclass x_concat x_join x_lit (Gport p).
Definition g_write_pin (p : lef_pin) : wm unit :=
  g_LefWriter_write_pin wm_xops nat dec bytes x_get x_put x_add_assign x_sub_assign x_write_line x_dant x_ddec x_dkey x_dmask x_ddir x_dpinshape x_dpinuse x_dpoint
                        x_dportclass x_concat x_join x_lit (Gpin p).
Definition g_write_via_shape (s : lef_via_shape) : wm unit :=
  g_LefWriter_write_via_shape wm_xops dec bytes x_write_line x_dkey x_dmask x_dpoint x_concat x_join x_lit (Gvia_shape s).
Definition g_write_via_layer_geom (l : lef_via_layer_geoms) : wm unit :=
  g_LefWriter_write_via_layer_geom wm_xops nat dec bytes x_get x_put x_add_assign x_sub_assign x_write_line x_dkey x_dmask x_dpoint x_concat x_join x_lit (Gvia_lg l).
Definition g_write_via (v : lef_via_def) : wm unit :=
  g_LefWriter_write_via wm_xops nat dec bytes x_get x_put x_add_assign x_sub_assign x_write_line x_ddec x_dkey x_dmask x_dpoint x_concat x_join x_lit (Gvia_def v).

(** * third batch: `write_macro`, `format_numeric_prop_def`, `write_lib` *)
Definition Gforeign (f : lef_foreign) : gLefForeign dec bytes unit Z :=
  mk_gLefForeign dec bytes (fo_cell_name f) (option_map Gpoint (fo_pt f)) (option_map GLefOrient (fo_orient f)).
Definition Gmacro (m : lef_macro) : gLefMacro dec bytes unit Z :=
  mk_gLefMacro dec bytes (mac_name m) (map Gpin (mac_pins m)) (map Glayer_geoms (mac_obs m)) (option_map Gmacro_class (mac_class m))
               (option_map Gforeign (mac_foreign m)) (option_map Gpoint (mac_origin m)) (mac_size m) (option_map (map GLefSymmetry) (mac_symmetry m))
               (mac_site m) (option_map GLefDefSource (mac_source m)) (mac_eeq m) (mac_fixed_mask m) (map Gproperty (mac_properties m))
               (option_map (map Gdensity_geoms) (mac_density m)).
Definition Grange (r : dec * dec) : gLefPropertyRange dec unit Z := mk_gLefPropertyRange dec (fst r) (snd r).
Definition Gpropdef (p : lef_propdef) : gLefPropertyDefinition dec bytes unit Z :=
  match p with
  | PdLefString ot nm v => gLefPropertyDefinition_LefString dec bytes (GLefPropertyDefinitionObjectType ot) nm v
  | PdLefReal ot nm v r => gLefPropertyDefinition_LefReal dec bytes (GLefPropertyDefinitionObjectType ot) nm v (option_map Grange r)
  | PdLefInteger ot nm v r => gLefPropertyDefinition_LefInteger dec bytes (GLefPropertyDefinitionObjectType ot) nm v (option_map Grange r)
  end.
Definition Gextension (e : lef_extension) : gLefExtension bytes unit Z := mk_gLefExtension bytes (ext_name e) (ext_data e).
Definition Glib (l : lef_lib) : gLefLibrary dec bytes unit Z :=
  mk_gLefLibrary dec bytes (map Gmacro (lib_macros l)) (map Gsite (lib_sites l)) (map Gvia_def (lib_vias l)) (lib_version l)
                 (option_map GLefOnOff (lib_names_case_sensitive l)) (option_map GLefOnOff (lib_no_wire_extension_at_pin l)) (lib_bus_bit_chars l)
                 (lib_divider_char l) (option_map Gunits (lib_units l)) (lib_fixed_mask l) (option_map GLefClearanceStyle (lib_clearance_measure l))
                 (map Gextension (lib_extensions l)) (lib_manufacturing_grid l) (option_map GLefOnOff (lib_use_min_spacing l))
                 (map Gpropdef (lib_property_definitions l)) None None None None None.

Definition g_write_macro (m : lef_macro) : wm unit :=
  g_LefWriter_write_macro wm_xops nat dec bytes x_get x_put x_add_assign x_sub_assign x_lt x_write_line V5P4 x_dant x_ddec x_dsource x_dendcap x_dkey x_dmcname x_dmask
                          x_dorient x_ddir x_dpinshape x_dpinuse x_dpoint x_dportclass x_dsym x_dopt_block x_dopt_core x_dopt_pad x_concat x_join x_lit (Gmacro m).
Definition g_format_numeric_prop_def (ot : LefPropertyDefinitionObjectType) (nm : bytes) (k : LefKey) (v : option dec) (r : option (dec * dec)) : wm bytes :=
  g_LefWriter_format_numeric_prop_def wm_xops dec bytes x_ddec x_dkey x_dobjtype x_concat x_join x_lit (GLefPropertyDefinitionObjectType ot) nm (GLefKey k) v (option_map Grange r).
Definition g_write_lib (l : lef_lib) : wm unit :=
  g_LefWriter_write_lib wm_xops nat dec bytes x_get x_put x_add_assign x_sub_assign x_lt x_flush x_write_line V5P4 x_dant x_dclear x_ddec x_dsource x_dendcap x_dkey x_dmcname
                        x_dmask x_donoff x_dorient x_ddir x_dpinshape x_dpinuse x_dpoint x_dportclass x_dobjtype x_dsiteclass x_dsym x_dchar x_dint x_dopt_block x_dopt_core
                        x_dopt_pad x_concat x_join x_lit (Glib l).
(** the session's version *)
Definition w_ver (w : gwriter) : dec := gLefWriterSession_lef_version dec (gLefWriter_session nat dec w).
(** the writer after [LefWriter::new]: no indentation, version 5.8 *)
Definition w_new : gwriter := mk_gLefWriter nat dec O (mk_gLefWriterSession dec V5P8).
(** the outcome of a generated run that, on success, has written the lines the model gives *)
Definition wrote_res (s : wst) (r : LefParse.res (list line)) : ures (unit * wst) :=
  match r with LefParse.Ok ls => Ok (tt, (fst s, snd s ++ ls)) | LefParse.Err _ => Err tt | LefParse.Panic => Panic | LefParse.OutOfFuel => OutOfFuel | LefParse.Unmodelled => OutOfFuel end.
