(** Byte strings and decimals for the LEF family (C04, C05, C11).

    - [bytes]: UTF-8 text as a list of byte values (Z in 0..255), hex conversion for the runner.
    - [dec]: rust_decimal::Decimal as sign / 96-bit mantissa / scale; [dec_eq] is the numeric
      equality that rust_decimal's PartialEq implements, [dec_repr_eqb] compares representations.
    - [is_rust_float]: recogniser of the grammar accepted by Rust's `f64::from_str` (every string
      accepted by `i32::from_str` is in it), which is `LefLexer::lex_number`'s number test.
    - [dec_of_bytes]: specification of `Decimal::from_str` (rust_decimal 1.43, str.rs
      parse_str_radix_10 and decimal.rs from_scientific_lossy), an EXTERNAL library: written from
      its source, validated by the correspondence run (harness op "dec"). Paths not specified here
      return the distinct outcome [DUnmodelled] (digit separators `_`; a positive exponent whose
      product overflows 96 bits while a fractional scale is present).
    - [dec_to_bytes]: `Display for Decimal`.
    No proofs in this file. *)
From Coq Require Import ZArith List String Ascii Bool.
Import ListNotations.
Local Open Scope string_scope.
Local Open Scope list_scope.
Local Open Scope Z_scope.

(** * bytes *)
Definition bytes := list Z.

Fixpoint bytes_eqb (a b : bytes) : bool :=
  match a, b with
  | [], [] => true
  | x :: a', y :: b' => (x =? y) && bytes_eqb a' b'
  | _, _ => false
  end.

Definition byte_of_ascii (c : ascii) : Z := Z.of_N (N_of_ascii c).
Fixpoint bytes_of_string (s : string) : bytes :=
  match s with
  | EmptyString => []
  | String c s' => byte_of_ascii c :: bytes_of_string s'
  end.
Definition bs (s : string) : bytes := bytes_of_string s.

Definition hexval (c : ascii) : Z :=
  let n := byte_of_ascii c in
  if (48 <=? n) && (n <=? 57) then n - 48
  else if (97 <=? n) && (n <=? 102) then n - 87
  else if (65 <=? n) && (n <=? 70) then n - 55
  else 0.
Fixpoint unhex (s : string) : bytes :=
  match s with
  | String a (String b s') => (16 * hexval a + hexval b) :: unhex s'
  | _ => []
  end.
Definition hexdigit (n : Z) : ascii :=
  ascii_of_N (Z.to_N (if n <? 10 then 48 + n else 87 + n)).
Fixpoint hex (b : bytes) : string :=
  match b with
  | [] => EmptyString
  | x :: b' => String (hexdigit (x / 16)) (String (hexdigit (x mod 16)) (hex b'))
  end.

Definition is_digit_b (b : Z) : bool := (48 <=? b) && (b <=? 57).
(** ASCII `to_ascii_uppercase` on one byte; bytes >= 128 (pieces of non-ASCII characters) are unchanged *)
Definition upper_b (b : Z) : Z := if (97 <=? b) && (b <=? 122) then b - 32 else b.
Definition upper_bytes (s : bytes) : bytes := map upper_b s.

(** * Decimals *)
Record dec := mkdec { d_neg : bool; d_mant : Z; d_scale : Z }.

Definition two96 : Z := 2 ^ 96.
Definition dec_wf (d : dec) : Prop := 0 <= d_mant d < two96 /\ 0 <= d_scale d <= 28.

(** signed mantissa *)
Definition d_smant (d : dec) : Z := if d_neg d then - d_mant d else d_mant d.

(** numeric comparison: a ? b, by cross-multiplying with powers of ten *)
Definition dec_cmp (a b : dec) : comparison :=
  (d_smant a * 10 ^ d_scale b) ?= (d_smant b * 10 ^ d_scale a).
Definition dec_eq (a b : dec) : bool := match dec_cmp a b with Eq => true | _ => false end.
Definition dec_gt (a b : dec) : bool := match dec_cmp a b with Gt => true | _ => false end.
Definition dec_ge (a b : dec) : bool := match dec_cmp a b with Lt => false | _ => true end.
Definition dec_repr_eqb (a b : dec) : bool :=
  Bool.eqb (d_neg a) (d_neg b) && (d_mant a =? d_mant b) && (d_scale a =? d_scale b).

Definition dec_of_Z (n : Z) : dec := mkdec (n <? 0) (Z.abs n) 0.
Definition dec_is_zero (d : dec) : bool := d_mant d =? 0.

(** `Decimal::fract`, `floor` as used by parse_version / try_new (on values from dec_of_bytes) *)
Definition dec_fract_is_zero (d : dec) : bool := d_mant d mod 10 ^ d_scale d =? 0.
(** floor of the value as an integer *)
Definition dec_floor (d : dec) : Z := d_smant d / 10 ^ d_scale d.
(** truncation towards zero *)
Definition dec_trunc (d : dec) : Z :=
  let q := d_mant d / 10 ^ d_scale d in if d_neg d then - q else q.

(** * Rust's float grammar (core::num::dec2flt):
      Float  ::= Sign? ( 'inf' | 'infinity' | 'nan' | Number )       (letters in any case)
      Number ::= ( Digit+ | Digit+ '.' Digit* | Digit* '.' Digit+ ) Exp?
      Exp    ::= ('e'|'E') Sign? Digit+         Sign ::= '+' | '-'  *)
Fixpoint skip_digits (s : bytes) : Z * bytes :=
  match s with
  | b :: s' => if is_digit_b b then let '(n, r) := skip_digits s' in (n + 1, r) else (0, s)
  | [] => (0, [])
  end.
Definition is_sign_b (b : Z) : bool := (b =? 43) || (b =? 45).
Definition strip_sign (s : bytes) : bytes :=
  match s with b :: s' => if is_sign_b b then s' else s | [] => [] end.
Definition is_float_exp (s : bytes) : bool :=
  match s with
  | [] => true
  | b :: s' =>
    if (b =? 101) || (b =? 69) then
      let '(n, r) := skip_digits (strip_sign s') in
      (0 <? n) && match r with [] => true | _ => false end
    else false
  end.
Definition is_float_number (s : bytes) : bool :=
  let '(n1, r1) := skip_digits s in
  match r1 with
  | 46 :: r2 => let '(n2, r3) := skip_digits r2 in (0 <? n1 + n2) && is_float_exp r3
  | _ => (0 <? n1) && is_float_exp r1
  end.
Definition is_inf_nan (s : bytes) : bool :=
  let u := upper_bytes s in
  bytes_eqb u (bs "INF") || bytes_eqb u (bs "INFINITY") || bytes_eqb u (bs "NAN").
Definition is_rust_float (s : bytes) : bool :=
  let t := strip_sign s in is_inf_nan t || is_float_number t.

(** * `Decimal::from_str` *)
Inductive dec_res := DOk (d : dec) | DErr | DUnmodelled.

Definition all_digits (s : bytes) : bool := forallb is_digit_b s.

(** str.rs maybe_round: [b] is the byte at the rounding position, [rest] the bytes after it *)
Definition maybe_round (neg : bool) (data scale b : Z) (rest : bytes) : dec_res :=
  if negb (is_digit_b b) then (if b =? 95 then DUnmodelled else DErr)
  else
    let '(data1, scale1, ovf) :=
      if 5 <=? b - 48 then
        let d1 := data + 1 in
        if two96 <=? d1 then (if scale =? 0 then (d1, scale, true) else ((d1 + 4) / 10, scale - 1, false))
        else (d1, scale, false)
      else (data, scale, false) in
    if ovf then DErr
    else if existsb (fun c => c =? 95) rest then DUnmodelled
    else if all_digits rest then DOk (mkdec (neg && negb (data1 =? 0)) data1 scale1)
    else DErr.

(** str.rs parse_str_radix_10 (both the 64-bit and the 96-bit phase; they differ only in the
    integer width). [big] = the string has at least 18 bytes. *)
Fixpoint parse10_loop (big neg point has first : bool) (data scale : Z) (s : bytes) : dec_res :=
  match s with
  | [] => if has then DOk (mkdec (neg && negb (data =? 0)) data scale) else DErr
  | b :: rest =>
    if is_digit_b b then
      let nxt := data * 10 + (b - 48) in
      if two96 <=? nxt then
        (if point then maybe_round neg data scale b rest else DErr)
      else
        let scale' := if point then scale + 1 else 0 in
        match rest with
        | [] => DOk (mkdec (neg && negb (nxt =? 0)) nxt scale')
        | n :: rest' =>
          if point && big && (28 <=? scale') then maybe_round neg nxt scale' n rest'
          else parse10_loop big neg point true false nxt scale' rest
        end
    else if b =? 46 then
      (if point then DErr else parse10_loop big neg true has false data scale rest)
    else if b =? 45 then
      (if first && negb has then parse10_loop big true false false false data scale rest else DErr)
    else if b =? 43 then
      (if first && negb has then parse10_loop big false false false false data scale rest else DErr)
    else if b =? 95 then (if has then DUnmodelled else DErr)
    else DErr
  end.
Definition parse10 (s : bytes) : dec_res :=
  match s with
  | [] => DErr
  | _ => parse10_loop (18 <=? Z.of_nat (List.length s)) false false false true 0 0 s
  end.

(** split at the first 'e' / 'E' *)
Fixpoint split_e (s : bytes) : bytes * option bytes :=
  match s with
  | [] => ([], None)
  | b :: r => if (b =? 101) || (b =? 69) then ([], Some r)
              else let '(a, e) := split_e r in (b :: a, e)
  end.
(** Rust `u32::from_str`: optional '+', at least one digit, value < 2^32 *)
Fixpoint digits_val (acc : Z) (s : bytes) : Z :=
  match s with b :: r => digits_val (acc * 10 + (b - 48)) r | [] => acc end.
Definition parse_u32 (s : bytes) : option Z :=
  let t := match s with 43 :: r => r | _ => s end in
  match t with
  | [] => None
  | _ => if all_digits t then let v := digits_val 0 t in if v <? 2 ^ 32 then Some v else None else None
  end.

(** ops/array.rs rescale (scaling down by [diff] >= 1 digits, rounding on the most significant dropped digit) *)
Definition rescale_down (m diff : Z) : Z :=
  if m =? 0 then 0 else
  let q := m / 10 ^ (diff - 1) in q / 10 + (if 5 <=? q mod 10 then 1 else 0).

(** decimal.rs from_scientific_lossy *)
Definition sci_lossy (s : bytes) : dec_res :=
  match split_e s with
  | (_, None) => DErr
  | (base, Some ex) =>
    match parse10 base with
    | DErr => DErr
    | DUnmodelled => DUnmodelled
    | DOk r =>
      let cs := d_scale r in
      match ex with
      | 45 :: stripped =>
        match parse_u32 stripped with
        | None => DErr
        | Some e =>
          if 28 <? e then DErr
          else if 28 <? cs + e then DOk (mkdec (d_neg r) (rescale_down (d_mant r) (cs - (28 - e))) 28)
          else DOk (mkdec (d_neg r) (d_mant r) (cs + e))
        end
      | _ =>
        match parse_u32 ex with
        | None => DErr
        | Some e =>
          if e <=? cs then DOk (mkdec (d_neg r) (d_mant r) (cs - e))
          else if 28 <? e then DErr
          else if d_mant r =? 0 then DOk (mkdec false 0 0)
          else
            let p := d_mant r * 10 ^ e in
            if p <? two96 then DOk (mkdec (d_neg r) (d_mant r * 10 ^ (e - cs)) 0)
            else if cs =? 0 then DErr else DUnmodelled
        end
      end
    end
  end.

Definition has_e (s : bytes) : bool := existsb (fun b => (b =? 101) || (b =? 69)) s.

Definition dec_of_bytes (s : bytes) : dec_res :=
  match parse10 s with
  | DOk d => DOk d
  | DUnmodelled => DUnmodelled
  | DErr => if has_e s then sci_lossy s else DErr
  end.

(** * `Display for Decimal` (str.rs to_str_internal, no precision) *)
Fixpoint digits_rev (fuel : nat) (n : Z) : bytes :=
  match fuel with
  | O => []
  | S f => if n <=? 0 then [] else (48 + n mod 10) :: digits_rev f (n / 10)
  end.
(** decimal digits of n >= 0, most significant first; empty for 0 (96 bits have at most 29 digits;
    the fuel covers any mantissa below 10^40) *)
Definition digits_of (n : Z) : bytes := rev (digits_rev 40 n).
Fixpoint zeros (n : nat) : bytes := match n with O => [] | S k => 48 :: zeros k end.

Definition dec_to_bytes (d : dec) : bytes :=
  let ds := digits_of (d_mant d) in
  let sc := Z.to_nat (d_scale d) in
  let ds' := zeros (sc - List.length ds) ++ ds in
  let whole := firstn (List.length ds' - sc) ds' in
  let frac := skipn (List.length ds' - sc) ds' in
  let body :=
    match sc with
    | O => match whole with [] => [48] | _ => whole end
    | _ => (match whole with [] => [48] | _ => whole end) ++ 46 :: frac
    end in
  if d_neg d then 45 :: body else body.
