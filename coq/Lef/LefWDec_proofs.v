(** Printing and re-reading decimals: [dec_to_bytes] (Display) followed by [dec_of_bytes]
    (from_str) gives the decimal back; what [dec_of_bytes] returns is well formed.
    Self-contained over L21.Lef.LefDec; no axioms. *)
From Coq Require Import ZArith List Bool Lia.
From L21 Require Import Lef.LefDec.
Import ListNotations.
Local Open Scope Z_scope.

Definition num_char' (b : Z) : bool := is_digit_b b || (b =? 46) || (b =? 45).

(** * Facts about 2^96 (kept folded everywhere else) *)
Lemma LefWDec_two96_ge2 : 2 <= two96.
Proof. vm_compute. discriminate. Qed.
Lemma LefWDec_two96_lt_pow40 : two96 < 10 ^ 40.
Proof. vm_compute. reflexivity. Qed.
Local Opaque two96.

(** * Digit strings *)
Lemma LefWDec_digit_range b : is_digit_b b = true -> 0 <= b - 48 <= 9.
Proof. unfold is_digit_b. intros H. apply andb_prop in H as [H1 H2]. lia. Qed.

Lemma LefWDec_dv_ge : forall l acc,
  forallb is_digit_b l = true -> 0 <= acc -> acc <= digits_val acc l.
Proof.
  induction l as [|a l IH]; intros acc H Hacc; cbn [digits_val].
  - lia.
  - cbn [forallb] in H. apply andb_prop in H as [Ha Hl].
    apply LefWDec_digit_range in Ha.
    specialize (IH (acc * 10 + (a - 48)) Hl). lia.
Qed.

Lemma LefWDec_dv_app : forall a b acc,
  digits_val acc (a ++ b) = digits_val (digits_val acc a) b.
Proof. induction a as [|x a IH]; intros b acc; cbn [app digits_val]; auto. Qed.

Lemma LefWDec_dv_snoc l b acc : digits_val acc (l ++ [b]) = digits_val acc l * 10 + (b - 48).
Proof. rewrite LefWDec_dv_app. reflexivity. Qed.

(** [digits_rev] produces the decimal expansion, least significant digit first *)
Lemma LefWDec_digits_rev_ok : forall fuel n, 0 <= n < 10 ^ Z.of_nat fuel ->
  forallb is_digit_b (rev (digits_rev fuel n)) = true /\
  digits_val 0 (rev (digits_rev fuel n)) = n.
Proof.
  induction fuel as [|f IH]; intros n Hn.
  - change (Z.of_nat 0) with 0 in Hn. rewrite Z.pow_0_r in Hn.
    cbn [digits_rev rev forallb digits_val]. split; [reflexivity | lia].
  - rewrite Nat2Z.inj_succ, Z.pow_succ_r in Hn by lia.
    cbn [digits_rev]. destruct (n <=? 0) eqn:E.
    + cbn [rev forallb digits_val]. split; [reflexivity | lia].
    + assert (Hq : 0 <= n / 10 < 10 ^ Z.of_nat f).
      { split; [apply Z.div_pos; lia | apply Z.div_lt_upper_bound; lia]. }
      destruct (IH (n / 10) Hq) as [A B].
      cbn [rev]. rewrite forallb_app, LefWDec_dv_snoc, A, B.
      pose proof (Z.mod_pos_bound n 10 ltac:(lia)) as Hm.
      pose proof (Z.div_mod n 10 ltac:(lia)) as Hdm.
      split.
      * cbn [forallb]. unfold is_digit_b.
        replace (48 <=? 48 + n mod 10) with true by lia.
        replace (48 + n mod 10 <=? 57) with true by lia. reflexivity.
      * lia.
Qed.

Lemma LefWDec_digits_of_ok m : 0 <= m < two96 ->
  forallb is_digit_b (digits_of m) = true /\ digits_val 0 (digits_of m) = m.
Proof.
  intros Hm. unfold digits_of. apply LefWDec_digits_rev_ok.
  change (Z.of_nat 40) with 40. pose proof LefWDec_two96_lt_pow40. lia.
Qed.

Lemma LefWDec_zeros_ok k :
  forallb is_digit_b (zeros k) = true /\ digits_val 0 (zeros k) = 0 /\ length (zeros k) = k.
Proof.
  induction k as [|k [A [B C]]]; cbn [zeros forallb digits_val length].
  - auto.
  - change (0 * 10 + (48 - 48)) with 0. change (is_digit_b 48) with true.
    rewrite A, B, C. auto.
Qed.

(** * One step of [parse10_loop] *)
Lemma LefWDec_loop_cons big neg point has first data scale b rest :
  parse10_loop big neg point has first data scale (b :: rest) =
    if is_digit_b b then
      let nxt := data * 10 + (b - 48) in
      if two96 <=? nxt then
        (if point then maybe_round neg data scale b rest else DErr)
      else
        let scale' := if point then scale + 1 else 0 in
        match rest with
        | [] => DOk (mkdec (neg && negb (nxt =? 0)) nxt scale')
        | n :: rest' =>
          if point && big && (28 <=? scale') then maybe_round neg nxt scale' n rest'
          else parse10_loop big neg point true false nxt scale' rest
        end
    else if b =? 46 then
      (if point then DErr else parse10_loop big neg true has false data scale rest)
    else if b =? 45 then
      (if first && negb has then parse10_loop big true false false false data scale rest else DErr)
    else if b =? 43 then
      (if first && negb has then parse10_loop big false false false false data scale rest else DErr)
    else if b =? 95 then (if has then DUnmodelled else DErr)
    else DErr.
Proof. reflexivity. Qed.

Lemma LefWDec_step_nopoint big neg has first data scale b rest :
  is_digit_b b = true -> data * 10 + (b - 48) < two96 ->
  parse10_loop big neg false has first data scale (b :: rest) =
  parse10_loop big neg false true false (data * 10 + (b - 48)) 0 rest.
Proof.
  intros Hb Hlt. rewrite LefWDec_loop_cons, Hb. cbv zeta.
  destruct (two96 <=? data * 10 + (b - 48)) eqn:E; [lia|].
  destruct rest; reflexivity.
Qed.

Lemma LefWDec_step_point big neg has first data scale b rest :
  is_digit_b b = true -> data * 10 + (b - 48) < two96 ->
  scale + 1 + Z.of_nat (length rest) <= 28 ->
  parse10_loop big neg true has first data scale (b :: rest) =
  parse10_loop big neg true true false (data * 10 + (b - 48)) (scale + 1) rest.
Proof.
  intros Hb Hlt Hs. rewrite LefWDec_loop_cons, Hb. cbv zeta.
  destruct (two96 <=? data * 10 + (b - 48)) eqn:E; [lia|].
  destruct rest as [|n r]; [reflexivity|].
  cbn [length] in Hs. rewrite Nat2Z.inj_succ in Hs.
  assert (F : (28 <=? scale + 1) = false) by lia.
  cbv beta iota. rewrite F, andb_false_r. reflexivity.
Qed.

(** digits after the point *)
Lemma LefWDec_loop_point big neg : forall l has first data scale,
  forallb is_digit_b l = true -> 0 <= data -> digits_val data l < two96 ->
  scale + Z.of_nat (length l) <= 28 -> (l <> [] \/ has = true) ->
  parse10_loop big neg true has first data scale l =
  DOk (mkdec (neg && negb (digits_val data l =? 0)) (digits_val data l)
             (scale + Z.of_nat (length l))).
Proof.
  induction l as [|b l IH]; intros has first data scale Hl Hd Hv Hs Hne.
  - destruct Hne as [Hne | ->]; [congruence|].
    cbn [parse10_loop digits_val length]. change (Z.of_nat 0) with 0.
    rewrite Z.add_0_r. reflexivity.
  - cbn [forallb] in Hl. apply andb_prop in Hl as [Hb Hl].
    cbn [digits_val] in Hv |- *. cbn [length] in Hs |- *. rewrite Nat2Z.inj_succ in Hs |- *.
    pose proof (LefWDec_digit_range b Hb) as Hr.
    assert (Hn : 0 <= data * 10 + (b - 48)) by lia.
    pose proof (LefWDec_dv_ge l _ Hl Hn) as Hge.
    rewrite LefWDec_step_point by (auto; lia).
    rewrite IH by (auto; lia).
    replace (scale + 1 + Z.of_nat (length l)) with (scale + Z.succ (Z.of_nat (length l))) by lia.
    reflexivity.
Qed.

(** digits before the point *)
Lemma LefWDec_loop_nopoint big neg tl : forall l b has first data scale,
  is_digit_b b = true -> forallb is_digit_b l = true -> 0 <= data ->
  digits_val data (b :: l) < two96 ->
  parse10_loop big neg false has first data scale ((b :: l) ++ tl) =
  parse10_loop big neg false true false (digits_val data (b :: l)) 0 tl.
Proof.
  induction l as [|a l IH]; intros b has first data scale Hb Hl Hd Hv.
  - cbn [app digits_val] in *. apply LefWDec_step_nopoint; auto.
  - cbn [forallb] in Hl. apply andb_prop in Hl as [Ha Hl].
    pose proof (LefWDec_digit_range b Hb) as Hr.
    assert (Hn : 0 <= data * 10 + (b - 48)) by lia.
    change (digits_val data (b :: a :: l)) with (digits_val (data * 10 + (b - 48)) (a :: l)) in *.
    assert (Hge : data * 10 + (b - 48) <= digits_val (data * 10 + (b - 48)) (a :: l)).
    { apply LefWDec_dv_ge; auto. cbn [forallb]. rewrite Ha, Hl. reflexivity. }
    change ((b :: a :: l) ++ tl) with (b :: ((a :: l) ++ tl)).
    rewrite LefWDec_step_nopoint by (auto; lia).
    apply IH; auto.
Qed.

(** * Shape of the printed text *)
Lemma LefWDec_display_shape d : dec_wf d -> exists W frac,
  dec_to_bytes d =
    (if d_neg d then [45] else []) ++ W ++ (if d_scale d =? 0 then [] else 46 :: frac) /\
  W <> [] /\ forallb is_digit_b W = true /\ forallb is_digit_b frac = true /\
  Z.of_nat (length frac) = d_scale d /\ digits_val 0 (W ++ frac) = d_mant d.
Proof.
  destruct d as [neg m sc]. unfold dec_wf. cbn [d_neg d_mant d_scale]. intros [Hm Hs].
  unfold dec_to_bytes. cbn [d_neg d_mant d_scale]. cbv zeta.
  destruct (LefWDec_digits_of_ok m Hm) as [Hd Hv].
  remember (digits_of m) as ds eqn:Eds. clear Eds.
  remember (Z.to_nat sc) as n eqn:En.
  destruct (LefWDec_zeros_ok (n - length ds)) as [Hz1 [Hz2 Hz3]].
  remember (zeros (n - length ds) ++ ds) as ds' eqn:Eds'.
  assert (Hd' : forallb is_digit_b ds' = true).
  { subst ds'. rewrite forallb_app, Hz1, Hd. reflexivity. }
  assert (Hv' : digits_val 0 ds' = m).
  { subst ds'. rewrite LefWDec_dv_app, Hz2. exact Hv. }
  assert (Hlen : (n <= length ds')%nat).
  { subst ds'. rewrite app_length, Hz3. lia. }
  clear Eds' Hz1 Hz2 Hz3 Hd Hv.
  remember (length ds' - n)%nat as k eqn:Ek.
  pose proof (firstn_skipn k ds') as Hsplit.
  pose proof (skipn_length k ds') as Hfl.
  remember (firstn k ds') as whole eqn:Ew. remember (skipn k ds') as frac eqn:Ef.
  clear Ew Ef.
  assert (Hfn : length frac = n) by lia.
  rewrite <- Hsplit in Hd', Hv'. rewrite forallb_app in Hd'.
  apply andb_prop in Hd' as [Hdw Hdf].
  exists (match whole with [] => [48] | _ => whole end), frac.
  split; [|split; [|split; [|split; [|split]]]].
  - destruct n as [|n'].
    + assert (sc = 0) by lia. subst sc. change (0 =? 0) with true. cbv iota.
      destruct neg; cbn [app]; rewrite app_nil_r; reflexivity.
    + assert (F : (sc =? 0) = false) by lia. rewrite F.
      destruct neg; reflexivity.
  - destruct whole; discriminate.
  - destruct whole; [reflexivity | exact Hdw].
  - exact Hdf.
  - lia.
  - destruct whole; [|exact Hv'].
    cbn [app] in Hv' |- *. cbn [digits_val]. change (0 * 10 + (48 - 48)) with 0. exact Hv'.
Qed.

(** * (2) Display then from_str *)
Lemma LefWDec_parse_body big neg first W frac (sc m : Z) :
  W <> [] -> forallb is_digit_b W = true -> forallb is_digit_b frac = true ->
  Z.of_nat (length frac) = sc -> sc <= 28 -> digits_val 0 (W ++ frac) = m -> m < two96 ->
  parse10_loop big neg false false first 0 0 (W ++ (if sc =? 0 then [] else 46 :: frac)) =
  DOk (mkdec (neg && negb (m =? 0)) m sc).
Proof.
  intros Hne HW Hf Hlen Hsc Hv Hm.
  destruct W as [|b l]; [congruence|]. clear Hne.
  pose proof HW as HW'. cbn [forallb] in HW. apply andb_prop in HW as [Hb Hl].
  rewrite LefWDec_dv_app in Hv.
  assert (H0 : 0 <= digits_val 0 (b :: l)) by (apply LefWDec_dv_ge; [exact HW' | lia]).
  pose proof (LefWDec_dv_ge frac _ Hf H0) as Hge.
  rewrite LefWDec_loop_nopoint by (auto; lia).
  destruct (sc =? 0) eqn:E.
  - assert (Hsc0 : sc = 0) by lia.
    destruct frac as [|x fr]; [|cbn [length] in Hlen; lia].
    change (digits_val (digits_val 0 (b :: l)) []) with (digits_val 0 (b :: l)) in Hv.
    rewrite Hv, Hsc0. reflexivity.
  - rewrite LefWDec_loop_cons.
    change (is_digit_b 46) with false. change (46 =? 46) with true. cbv iota.
    rewrite LefWDec_loop_point by (auto; lia).
    rewrite Hv, Hlen. reflexivity.
Qed.

Theorem display_parses : forall d, dec_wf d ->
  dec_of_bytes (dec_to_bytes d) =
  DOk (mkdec (d_neg d && negb (d_mant d =? 0)) (d_mant d) (d_scale d)).
Proof.
  intros d Hwf.
  destruct (LefWDec_display_shape d Hwf) as [W [frac [Hs [Hne [HW [Hf [Hlen Hv]]]]]]].
  destruct Hwf as [Hm Hsc].
  assert (Hp : parse10 (dec_to_bytes d) =
    DOk (mkdec (d_neg d && negb (d_mant d =? 0)) (d_mant d) (d_scale d))).
  { rewrite Hs. destruct (d_neg d).
    - cbn [app]. unfold parse10.
      generalize (18 <=? Z.of_nat (length (45 :: W ++ (if d_scale d =? 0 then [] else 46 :: frac)))).
      intros big. rewrite LefWDec_loop_cons.
      change (is_digit_b 45) with false. change (45 =? 46) with false.
      change (45 =? 45) with true. cbv iota.
      change (true && negb false) with true. cbv iota.
      apply LefWDec_parse_body; auto; lia.
    - cbn [app]. unfold parse10.
      destruct W as [|b l]; [congruence|].
      change ((b :: l) ++ (if d_scale d =? 0 then [] else 46 :: frac))
        with (b :: (l ++ (if d_scale d =? 0 then [] else 46 :: frac))).
      cbv iota.
      change (b :: (l ++ (if d_scale d =? 0 then [] else 46 :: frac)))
        with ((b :: l) ++ (if d_scale d =? 0 then [] else 46 :: frac)).
      apply LefWDec_parse_body; auto; lia. }
  unfold dec_of_bytes. rewrite Hp. reflexivity.
Qed.

(** * (3) the lexer's number test *)
Lemma LefWDec_skip_digits_app : forall l tl, forallb is_digit_b l = true ->
  match tl with [] => True | c :: _ => is_digit_b c = false end ->
  skip_digits (l ++ tl) = (Z.of_nat (length l), tl).
Proof.
  induction l as [|a l IH]; intros tl Hl Ht.
  - cbn [app length]. destruct tl as [|c t]; cbn [skip_digits]; [reflexivity|].
    rewrite Ht. reflexivity.
  - cbn [forallb] in Hl. apply andb_prop in Hl as [Ha Hl].
    cbn [app skip_digits length]. rewrite Ha, (IH tl Hl Ht).
    rewrite Nat2Z.inj_succ. f_equal.
Qed.

Lemma LefWDec_skip_digits_all l : forallb is_digit_b l = true ->
  skip_digits l = (Z.of_nat (length l), []).
Proof.
  intros H. rewrite <- (app_nil_r l) at 1. apply LefWDec_skip_digits_app; auto.
Qed.

Theorem display_float : forall d, dec_wf d -> is_rust_float (dec_to_bytes d) = true.
Proof.
  intros d Hwf.
  destruct (LefWDec_display_shape d Hwf) as [W [frac [Hs [Hne [HW [Hf [Hlen Hv]]]]]]].
  rewrite Hs. unfold is_rust_float.
  set (T := if d_scale d =? 0 then [] else 46 :: frac).
  assert (Hst : strip_sign ((if d_neg d then [45] else []) ++ W ++ T) = W ++ T).
  { destruct (d_neg d); [reflexivity|].
    destruct W as [|b l]; [congruence|]. cbn [app strip_sign].
    cbn [forallb] in HW. apply andb_prop in HW as [Hb _].
    apply LefWDec_digit_range in Hb.
    assert (F : is_sign_b b = false) by (unfold is_sign_b; lia).
    rewrite F. reflexivity. }
  cbv zeta. rewrite Hst.
  assert (Hn : is_float_number (W ++ T) = true).
  { unfold is_float_number.
    assert (HT : match T with [] => True | c :: _ => is_digit_b c = false end).
    { unfold T. destruct (d_scale d =? 0); [exact I | reflexivity]. }
    rewrite (LefWDec_skip_digits_app W T HW HT).
    assert (HlW : 0 < Z.of_nat (length W)).
    { destruct W; [congruence | cbn [length]; lia]. }
    unfold T. destruct (d_scale d =? 0).
    - cbv beta iota. cbn [is_float_exp]. rewrite andb_true_r. lia.
    - cbv beta iota. rewrite (LefWDec_skip_digits_all frac Hf).
      cbv beta iota. cbn [is_float_exp]. rewrite andb_true_r. lia. }
  rewrite Hn. apply orb_true_r.
Qed.

(** * (4) the characters of the printed text *)
Lemma LefWDec_digits_num_char : forall l, forallb is_digit_b l = true -> forallb num_char' l = true.
Proof.
  induction l as [|a l IH]; intros H; [reflexivity|].
  cbn [forallb] in H |- *. apply andb_prop in H as [Ha Hl].
  unfold num_char' at 1. rewrite Ha, (IH Hl). reflexivity.
Qed.

Theorem display_chars : forall d, dec_wf d ->
  dec_to_bytes d <> [] /\ forallb num_char' (dec_to_bytes d) = true.
Proof.
  intros d Hwf.
  destruct (LefWDec_display_shape d Hwf) as [W [frac [Hs [Hne [HW [Hf [Hlen Hv]]]]]]].
  rewrite Hs. split.
  - destruct (d_neg d); [discriminate|]. destruct W; [congruence | discriminate].
  - rewrite !forallb_app, (LefWDec_digits_num_char W HW).
    assert (A : forallb num_char' (if d_neg d then [45] else []) = true)
      by (destruct (d_neg d); reflexivity).
    assert (B : forallb num_char' (if d_scale d =? 0 then [] else 46 :: frac) = true).
    { destruct (d_scale d =? 0); [reflexivity|].
      cbn [forallb]. rewrite (LefWDec_digits_num_char frac Hf). reflexivity. }
    rewrite A, B. reflexivity.
Qed.

(** * (1) the reader returns well-formed decimals *)
Lemma LefWDec_DOk_inj a d : DOk a = DOk d -> a = d.
Proof. intros H. injection H. auto. Qed.
Ltac LefWDec_dok H := apply LefWDec_DOk_inj in H; rewrite <- H; clear H.
Lemma LefWDec_maybe_round_wf neg data scale b rest d :
  0 <= data < two96 -> 0 <= scale <= 28 ->
  maybe_round neg data scale b rest = DOk d -> dec_wf d.
Proof.
  intros Hd Hs. unfold maybe_round. pose proof LefWDec_two96_ge2 as H2.
  destruct (negb (is_digit_b b)); [destruct (b =? 95); discriminate|].
  destruct (5 <=? b - 48).
  - destruct (two96 <=? data + 1) eqn:E1.
    + destruct (scale =? 0) eqn:E2; cbv beta iota; [discriminate|].
      destruct (existsb (fun c => c =? 95) rest); [discriminate|].
      destruct (all_digits rest); [|discriminate].
      intros H; LefWDec_dok H. unfold dec_wf; cbn [d_mant d_scale].
      assert (Hq : 0 <= (data + 1 + 4) / 10 < two96).
      { split; [apply Z.div_pos; lia | apply Z.div_lt_upper_bound; lia]. }
      lia.
    + cbv beta iota.
      destruct (existsb (fun c => c =? 95) rest); [discriminate|].
      destruct (all_digits rest); [|discriminate].
      intros H; LefWDec_dok H. unfold dec_wf; cbn [d_mant d_scale]. lia.
  - cbv beta iota.
    destruct (existsb (fun c => c =? 95) rest); [discriminate|].
    destruct (all_digits rest); [|discriminate].
    intros H; LefWDec_dok H. unfold dec_wf; cbn [d_mant d_scale]. lia.
Qed.

Lemma LefWDec_loop_wf : forall s big neg point has first data scale d,
  0 <= data < two96 -> 0 <= scale -> (big = true -> scale <= 27) ->
  (big = false -> scale + Z.of_nat (length s) <= 28) ->
  parse10_loop big neg point has first data scale s = DOk d -> dec_wf d.
Proof.
  induction s as [|b rest IH]; intros big neg point has first data scale d Hd Hs Hb Hnb H.
  - cbn [parse10_loop] in H. destruct has; [|discriminate].
    LefWDec_dok H. unfold dec_wf; cbn [d_mant d_scale].
    cbn [length] in Hnb. change (Z.of_nat 0) with 0 in Hnb.
    destruct big; [specialize (Hb eq_refl) | specialize (Hnb eq_refl)]; lia.
  - rewrite LefWDec_loop_cons in H. cbv zeta in H.
    cbn [length] in Hnb. rewrite Nat2Z.inj_succ in Hnb.
    assert (H27 : scale <= 27).
    { destruct big; [apply Hb; reflexivity | specialize (Hnb eq_refl); lia]. }
    destruct (is_digit_b b) eqn:Eb.
    + apply LefWDec_digit_range in Eb.
      destruct (two96 <=? data * 10 + (b - 48)) eqn:E.
      * destruct point; [|discriminate].
        eapply LefWDec_maybe_round_wf; [| |exact H]; lia.
      * assert (Hsc' : 0 <= (if point then scale + 1 else 0) <= 28) by (destruct point; lia).
        destruct rest as [|n rest'].
        -- LefWDec_dok H. unfold dec_wf; cbn [d_mant d_scale]. lia.
        -- destruct (point && big && (28 <=? (if point then scale + 1 else 0))) eqn:Ec.
           ++ eapply LefWDec_maybe_round_wf; [| |exact H]; lia.
           ++ eapply IH; [| | | |exact H].
              ** lia.
              ** lia.
              ** intros ->. destruct point; [|lia]. cbn [andb] in Ec. lia.
              ** intros Hbig. specialize (Hnb Hbig). destruct point; lia.
    + destruct (b =? 46).
      { destruct point; [discriminate|].
        eapply IH; [| | | |exact H]; auto. intros Hbig. specialize (Hnb Hbig). lia. }
      destruct (b =? 45).
      { destruct (first && negb has); [|discriminate].
        eapply IH; [| | | |exact H]; auto. intros Hbig. specialize (Hnb Hbig). lia. }
      destruct (b =? 43).
      { destruct (first && negb has); [|discriminate].
        eapply IH; [| | | |exact H]; auto. intros Hbig. specialize (Hnb Hbig). lia. }
      destruct (b =? 95); [destruct has|]; discriminate.
Qed.

Lemma LefWDec_parse10_wf s d : parse10 s = DOk d -> dec_wf d.
Proof.
  unfold parse10. destruct s as [|b r]; [discriminate|].
  pose proof LefWDec_two96_ge2.
  apply LefWDec_loop_wf; lia.
Qed.

Lemma LefWDec_parse_u32_nonneg s e : parse_u32 s = Some e -> 0 <= e.
Proof.
  unfold parse_u32. generalize (match s with 43 :: r => r | _ => s end). intros t.
  cbv zeta. destruct t as [|x t]; [discriminate|].
  destruct (all_digits (x :: t)) eqn:A; [|discriminate].
  destruct (digits_val 0 (x :: t) <? 2 ^ 32); [|discriminate].
  intros H; injection H as <-. exact (LefWDec_dv_ge (x :: t) 0 A (Z.le_refl 0)).
Qed.

Lemma LefWDec_rescale_down_bound m diff :
  0 <= m < two96 -> 1 <= diff -> 0 <= rescale_down m diff < two96.
Proof.
  intros Hm Hdiff. unfold rescale_down. pose proof LefWDec_two96_ge2 as H2.
  destruct (m =? 0); [lia|]. cbv zeta.
  assert (Hp : 0 < 10 ^ (diff - 1)) by (apply Z.pow_pos_nonneg; lia).
  assert (Hq : 0 <= m / 10 ^ (diff - 1) <= m).
  { split; [apply Z.div_pos; lia | apply Z.div_le_upper_bound; [lia | nia]]. }
  set (q := m / 10 ^ (diff - 1)) in *.
  pose proof (Z.div_mod q 10 ltac:(lia)) as Hdm.
  pose proof (Z.mod_pos_bound q 10 ltac:(lia)) as Hmb.
  destruct (5 <=? q mod 10); lia.
Qed.

Lemma LefWDec_sci_neg_wf r st d : dec_wf r ->
  match parse_u32 st with
  | None => DErr
  | Some e =>
    if 28 <? e then DErr
    else if 28 <? d_scale r + e
         then DOk (mkdec (d_neg r) (rescale_down (d_mant r) (d_scale r - (28 - e))) 28)
         else DOk (mkdec (d_neg r) (d_mant r) (d_scale r + e))
  end = DOk d -> dec_wf d.
Proof.
  intros [Hm Hs]. destruct (parse_u32 st) as [e|] eqn:P; [|discriminate].
  apply LefWDec_parse_u32_nonneg in P.
  destruct (28 <? e) eqn:E1; [discriminate|].
  destruct (28 <? d_scale r + e) eqn:E2; intros H; LefWDec_dok H;
    unfold dec_wf; cbn [d_mant d_scale].
  - split; [apply LefWDec_rescale_down_bound; lia | lia].
  - lia.
Qed.

Lemma LefWDec_sci_pos_wf r ex d : dec_wf r ->
  match parse_u32 ex with
  | None => DErr
  | Some e =>
    if e <=? d_scale r then DOk (mkdec (d_neg r) (d_mant r) (d_scale r - e))
    else if 28 <? e then DErr
    else if d_mant r =? 0 then DOk (mkdec false 0 0)
    else
      let p := d_mant r * 10 ^ e in
      if p <? two96 then DOk (mkdec (d_neg r) (d_mant r * 10 ^ (e - d_scale r)) 0)
      else if d_scale r =? 0 then DErr else DUnmodelled
  end = DOk d -> dec_wf d.
Proof.
  intros [Hm Hs]. pose proof LefWDec_two96_ge2 as H2.
  destruct (parse_u32 ex) as [e|] eqn:P; [|discriminate].
  apply LefWDec_parse_u32_nonneg in P.
  destruct (e <=? d_scale r) eqn:E0.
  { intros H; LefWDec_dok H. unfold dec_wf; cbn [d_mant d_scale]. lia. }
  destruct (28 <? e) eqn:E1; [discriminate|].
  destruct (d_mant r =? 0) eqn:E2.
  { intros H; LefWDec_dok H. unfold dec_wf; cbn [d_mant d_scale]. lia. }
  cbv zeta. destruct (d_mant r * 10 ^ e <? two96) eqn:E3.
  - intros H; LefWDec_dok H. unfold dec_wf; cbn [d_mant d_scale].
    assert (Hle : 10 ^ (e - d_scale r) <= 10 ^ e) by (apply Z.pow_le_mono_r; lia).
    assert (Hp : 0 <= 10 ^ (e - d_scale r)) by (apply Z.pow_nonneg; lia).
    assert (Hmul : d_mant r * 10 ^ (e - d_scale r) <= d_mant r * 10 ^ e)
      by (apply Z.mul_le_mono_nonneg_l; lia).
    assert (H0 : 0 <= d_mant r * 10 ^ (e - d_scale r)) by (apply Z.mul_nonneg_nonneg; lia).
    lia.
  - destruct (d_scale r =? 0); discriminate.
Qed.

Ltac LefWDec_sci_fin r d P :=
  match goal with
  | |- context [parse_u32 ?ex] =>
    first [ exact (LefWDec_sci_pos_wf r ex d P) | exact (LefWDec_sci_neg_wf r ex d P) ]
  end.

Lemma LefWDec_sci_lossy_wf s d : sci_lossy s = DOk d -> dec_wf d.
Proof.
  unfold sci_lossy. destruct (split_e s) as [base [ex|]]; [|discriminate].
  destruct (parse10 base) as [r| |] eqn:P; try discriminate.
  apply LefWDec_parse10_wf in P. cbv zeta.
  destruct ex as [|z st]; [LefWDec_sci_fin r d P|].
  destruct z as [|p|p]; try LefWDec_sci_fin r d P.
  do 6 (try (destruct p as [p|p|]; try LefWDec_sci_fin r d P)).
Qed.

Theorem dec_of_bytes_wf : forall s d, dec_of_bytes s = DOk d -> dec_wf d.
Proof.
  intros s d. unfold dec_of_bytes.
  destruct (parse10 s) as [r| |] eqn:P.
  - intros H; LefWDec_dok H. exact (LefWDec_parse10_wf _ _ P).
  - destruct (has_e s); [apply LefWDec_sci_lossy_wf | discriminate].
  - discriminate.
Qed.

(** * (5) numeric equality *)
Theorem dec_eq_refl : forall d, dec_eq d d = true.
Proof. intros d. unfold dec_eq, dec_cmp. rewrite Z.compare_refl. reflexivity. Qed.

Theorem dec_eq_norm : forall d,
  dec_eq d (mkdec (d_neg d && negb (d_mant d =? 0)) (d_mant d) (d_scale d)) = true.
Proof.
  intros [n m s]. unfold dec_eq, dec_cmp, d_smant. cbn [d_neg d_mant d_scale].
  rewrite (proj2 (Z.compare_eq_iff _ _)); [reflexivity|].
  destruct (m =? 0) eqn:E.
  - assert (m = 0) by lia. subst m. destruct n; reflexivity.
  - rewrite andb_true_r. reflexivity.
Qed.

Print Assumptions dec_of_bytes_wf.
Print Assumptions display_parses.
Print Assumptions display_float.
Print Assumptions display_chars.
Print Assumptions dec_eq_refl.
Print Assumptions dec_eq_norm.
