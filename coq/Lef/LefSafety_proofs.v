(** C11, writing side: a library the reader returned can be written and the text read again without a crash.

    - [write_lib_ok_or_err]: the writer model returns text or a `LefError`, nothing else.
    - [write_lib_sob], [rewrite_safe_gen]: the text starts with a keyword, hence on a character boundary, and
      reading it neither panics nor runs out of fuel (for ANY library, whatever its strings).
    - [parse_valid]: every string of a library read from valid UTF-8 is valid UTF-8 ([val_lib]); proved with a
      second, partial-correctness family of per-function lemmas [SV Q m] ("whatever m returns satisfies Q").
    - [write_lib_valid]: the writer emits valid UTF-8 for a library whose strings are valid, hence
      [rewrite_valid]: the text written for a library read from valid UTF-8 is valid UTF-8 (which is what
      makes the model's [parse] of that text stand for the implementation's). *)
From Coq Require Import ZArith List Bool Lia.
From L21 Require Import Lef.LefDec Lef.LefData Lef.LefLex Lef.LefParse Lef.LefWrite Lef.LefLex_proofs Lef.LefParse_proofs.
Import ListNotations.
Local Open Scope list_scope.
Local Open Scope Z_scope.

(** * The writer returns text or an error *)
Definition is_ok_or_err {A} (r : res A) : Prop := match r with Ok _ | Err _ => True | _ => False end.

Lemma write_macro_ok_or_err : forall cf ver i m, is_ok_or_err (write_macro cf ver i m).
Proof. intros. unfold write_macro. destruct (mac_source m); [destruct (dec_gt ver V5P4)|]; exact I. Qed.
Lemma write_macros_ok_or_err : forall cf ver ms, is_ok_or_err (write_macros cf ver ms).
Proof.
  induction ms as [|m r IH]; simpl; [exact I|].
  pose proof (write_macro_ok_or_err cf ver 0 m) as H.
  destruct (write_macro cf ver 0 m); simpl in H; try contradiction; [|exact I].
  destruct (write_macros cf ver r); simpl in *; auto.
Qed.
Lemma write_lib_ok_or_err : forall cf l, is_ok_or_err (write_lib cf l).
Proof.
  intros. unfold write_lib, write_lib_lines.
  destruct (_ && _); [exact I|]. destruct (_ && _); [exact I|].
  pose proof (write_macros_ok_or_err cf (match lib_version l with Some v => v | None => V5P8 end) (lib_macros l)) as H.
  destruct (write_macros cf _ (lib_macros l)); simpl in *; auto.
Qed.

(** * The written text starts with a keyword *)
Lemma kw_sob : forall k rest, starts_on_boundary (kw k ++ rest) = true.
Proof. intros k rest. destruct k; reflexivity. Qed.

Definition first_ok (ls : list line) : Prop :=
  match ls with (O, t) :: _ => forall rest, starts_on_boundary (t ++ rest) = true | _ => False end.
Definition seg_ok (ls : list line) : Prop := ls = [] \/ first_ok ls.

Lemma first_ok_app : forall a b, first_ok a -> first_ok (a ++ b).
Proof. intros [|[[|i] t] r] b H; simpl in *; auto; contradiction. Qed.
Lemma seg_first : forall a b, seg_ok a -> first_ok b -> first_ok (a ++ b).
Proof. intros a b [-> | H] Hb; [exact Hb | apply first_ok_app; exact H]. Qed.
Lemma seg_app : forall a b, seg_ok a -> seg_ok b -> seg_ok (a ++ b).
Proof. intros a b [-> | H] Hb; [exact Hb | right; apply first_ok_app; exact H]. Qed.
Lemma first_ok_sob : forall ls, first_ok ls -> starts_on_boundary (render_lines ls) = true.
Proof.
  intros [|[[|i] t] r] H; simpl in H; try contradiction.
  unfold render_lines. simpl. rewrite <- app_assoc. apply H.
Qed.
Lemma seg_flat_map {X} (f : X -> list line) (xs : list X) : (forall x, first_ok (f x)) -> seg_ok (flat_map f xs).
Proof. intros H. destruct xs as [|x r]; [left; reflexivity | right; simpl; apply first_ok_app; apply H]. Qed.

Local Arguments kw : simpl never.
Ltac kwline := cbn [app map first_ok]; intros; reflexivity.

Lemma write_via_first : forall v, first_ok (write_via O v).
Proof. intros. unfold write_via. apply first_ok_app. destruct (vd_default v); kwline. Qed.
Lemma write_site_first : forall cf s, first_ok (write_site cf O s).
Proof. intros. unfold write_site. apply first_ok_app. destruct (c_w_site_orig cf); kwline. Qed.
Lemma write_macros_seg : forall cf ver ms ls, write_macros cf ver ms = Ok ls -> seg_ok ls.
Proof.
  intros cf ver [|m r] ls H; simpl in H.
  - injection H as <-. left; reflexivity.
  - unfold write_macro in H.
    destruct (match mac_source m with Some _ => if dec_gt ver V5P4 then true else false | None => false end) eqn:G.
    + destruct (mac_source m); [destruct (dec_gt ver V5P4)|]; discriminate.
    + right.
      assert (exists body, write_macro cf ver 0 m = Ok ((O, cat [kw K_Macro; sp; mac_name m]) :: body)) as [body E].
      { unfold write_macro. destruct (mac_source m); [destruct (dec_gt ver V5P4); [discriminate|]|]; eexists; reflexivity. }
      fold (write_macro cf ver 0 m) in H. rewrite E in H.
      destruct (write_macros cf ver r); try discriminate. injection H as <-. kwline.
Qed.

Lemma write_lib_first : forall cf l ls, write_lib_lines cf l = Ok ls -> first_ok ls.
Proof.
  intros cf l ls H. unfold write_lib_lines in H.
  destruct (_ && _); [discriminate|]. destruct (_ && _); [discriminate|].
  destruct (write_macros cf _ (lib_macros l)) as [ml| | | |] eqn:M; try discriminate.
  apply write_macros_seg in M. injection H as <-.
  repeat (apply seg_first;
          [ first [ exact M
                  | apply seg_flat_map; intros; first [apply write_via_first | apply write_site_first]
                  | repeat match goal with |- seg_ok (match ?x with _ => _ end) => destruct x end;
                    first [left; reflexivity | right; try apply first_ok_app; kwline]
                  | match goal with |- seg_ok (map _ ?x) => destruct x; [left; reflexivity | right; kwline] end ]
          | ]).
  kwline.
Qed.

Theorem write_lib_sob : forall cf l t, write_lib cf l = Ok t -> starts_on_boundary t = true.
Proof.
  intros cf l t H. unfold write_lib in H.
  destruct (write_lib_lines cf l) as [ls| | | |] eqn:E; try discriminate.
  injection H as <-. apply first_ok_sob. eapply write_lib_first; eauto.
Qed.

Theorem rewrite_safe_gen : forall cf l, c_charpos cf = false ->
  write_lib cf l <> Panic /\
  (forall t, write_lib cf l = Ok t -> parse cf t <> Panic /\ parse cf t <> OutOfFuel).
Proof.
  intros cf l Hcf. split.
  - pose proof (write_lib_ok_or_err cf l) as H. intros E. rewrite E in H. exact H.
  - intros t E. apply parse_safe_gen; [exact Hcf | eapply write_lib_sob; eauto].
Qed.

(** * Every string of a library the reader returns is valid UTF-8 *)
Definition vopt {A} (P : A -> Prop) (o : option A) : Prop := match o with Some x => P x | None => True end.
(** a `char`: a scalar value whose encoding is well-formed *)
Definition val_char (c : Z) : Prop := U8 (utf8_enc c).
Definition val_via_inst (v : lef_via_inst) : Prop := U8 (vi_via_name v).
Definition val_lg (l : lef_layer_geoms) : Prop := U8 (lg_layer_name l) /\ Forall val_via_inst (lg_vias l).
Definition val_port (p : lef_port) : Prop := Forall val_lg (po_layers p).
Definition val_attr (a : lef_antenna_attr) : Prop := U8 (aa_key a) /\ vopt U8 (aa_layer a).
Definition val_prop (p : lef_property) : Prop := U8 (pr_name p) /\ U8 (pr_value p).
Definition val_pin (p : lef_pin) : Prop :=
  U8 (pin_name p) /\ Forall val_port (pin_ports p) /\ Forall val_attr (pin_antenna_attrs p)
  /\ vopt U8 (pin_taper_rule p) /\ vopt U8 (pin_supply_sensitivity p) /\ vopt U8 (pin_ground_sensitivity p)
  /\ vopt U8 (pin_must_join p) /\ vopt U8 (pin_net_expr p) /\ Forall val_prop (pin_properties p).
Definition val_foreign (f : lef_foreign) : Prop := U8 (fo_cell_name f).
Definition val_dg (g : lef_density_geoms) : Prop := U8 (dg_layer_name g).
Definition val_macro (m : lef_macro) : Prop :=
  U8 (mac_name m) /\ Forall val_pin (mac_pins m) /\ Forall val_lg (mac_obs m) /\ vopt val_foreign (mac_foreign m)
  /\ vopt U8 (mac_site m) /\ vopt U8 (mac_eeq m) /\ Forall val_prop (mac_properties m)
  /\ vopt (Forall val_dg) (mac_density m).
Definition val_vlg (l : lef_via_layer_geoms) : Prop := U8 (vl_layer_name l).
Definition val_gen_via (g : lef_gen_via) : Prop :=
  U8 (gv_via_rule_name g) /\ U8 (gv_bot_metal_layer g) /\ U8 (gv_cut_layer g) /\ U8 (gv_top_metal_layer g).
Definition val_via_data (d : lef_via_data) : Prop :=
  match d with VdFixed f => Forall val_vlg (fv_layers f) | VdGenerated g => val_gen_via g end.
Definition val_via_def (v : lef_via_def) : Prop := U8 (vd_name v) /\ val_via_data (vd_data v).
Definition val_site (s : lef_site) : Prop := U8 (site_name s).
Definition val_propdef (p : lef_propdef) : Prop :=
  match p with
  | PdLefString _ name v => U8 name /\ vopt U8 v
  | PdLefReal _ name _ _ | PdLefInteger _ name _ _ => U8 name
  end.
Definition val_ext (e : lef_extension) : Prop := U8 (ext_name e) /\ U8 (ext_data e).
Definition val_bbc (p : Z * Z) : Prop := val_char (fst p) /\ val_char (snd p).
Definition val_lib (l : lef_lib) : Prop :=
  Forall val_macro (lib_macros l) /\ Forall val_site (lib_sites l) /\ Forall val_via_def (lib_vias l)
  /\ vopt val_bbc (lib_bus_bit_chars l) /\ vopt val_char (lib_divider_char l)
  /\ Forall val_ext (lib_extensions l) /\ Forall val_propdef (lib_property_definitions l).
Definition val_gvb (b : gv_builder) : Prop :=
  vopt (fun t => U8 (fst (fst t)) /\ U8 (snd (fst t)) /\ U8 (snd t)) (gb_layers b).

Create HintDb vdb.
#[local] Hint Unfold vopt val_via_inst val_lg val_port val_attr val_prop val_pin val_foreign val_dg val_macro val_vlg
  val_gen_via val_via_data val_via_def val_site val_propdef val_ext val_bbc val_lib val_gvb
  empty_pin empty_macro empty_lib T
  set_pt_x set_pt_y set_st_numx set_st_numy set_st_spacex set_st_spacey set_vi_via_name set_vi_pt set_lg_layer_name set_lg_geometries set_lg_vias set_lg_except_pg_net set_lg_spacing set_lg_width set_po_class set_po_layers set_aa_key set_aa_val set_aa_layer set_pr_name set_pr_value set_pin_name set_pin_ports set_pin_direction set_pin_use_ set_pin_shape set_pin_antenna_model set_pin_antenna_attrs set_pin_taper_rule set_pin_supply_sensitivity set_pin_ground_sensitivity set_pin_must_join set_pin_net_expr set_pin_properties set_fo_cell_name set_fo_pt set_fo_orient set_dr_pt1 set_dr_pt2 set_dr_density_value set_dg_layer_name set_dg_geometries set_mac_name set_mac_pins set_mac_obs set_mac_class set_mac_foreign set_mac_origin set_mac_size set_mac_symmetry set_mac_site set_mac_source set_mac_eeq set_mac_fixed_mask set_mac_properties set_mac_density set_vl_layer_name set_vl_shapes set_fv_resistance_ohms set_fv_layers set_rc_rows set_rc_cols set_of_bot_x set_of_bot_y set_of_top_x set_of_top_y set_gv_via_rule_name set_gv_cut_size_x set_gv_cut_size_y set_gv_bot_metal_layer set_gv_cut_layer set_gv_top_metal_layer set_gv_cut_spacing_x set_gv_cut_spacing_y set_gv_bot_enc_x set_gv_bot_enc_y set_gv_top_enc_x set_gv_top_enc_y set_gv_rowcol set_gv_origin set_gv_offset set_vd_name set_vd_default set_vd_data set_site_name set_site_class set_site_size set_site_symmetry set_u_database_microns set_u_time_ns set_u_capacitance_pf set_u_resistance_ohms set_u_power_mw set_u_current_ma set_u_voltage_volts set_u_frequency_mhz set_ext_name set_ext_data set_lib_macros set_lib_sites set_lib_vias set_lib_version set_lib_names_case_sensitive set_lib_no_wire_extension_at_pin set_lib_bus_bit_chars set_lib_divider_char set_lib_units set_lib_fixed_mask set_lib_clearance_measure set_lib_extensions set_lib_manufacturing_grid set_lib_use_min_spacing set_lib_property_definitions : vdb.

Lemma U8_sp : U8 [32].
Proof. apply U8_1; [lia | constructor]. Qed.

(** the characters of a valid text are scalar values that encode back to well-formed UTF-8 *)
Lemma chars_of_valid : forall s, U8 s -> Forall val_char (chars_of s).
Proof.
  Ltac Zify.zify_post_hook ::= Z.div_mod_to_equations.
  induction 1 as [|c r Hc Hr IH|c0 c1 r Hc H1 Hr IH|c0 c1 c2 r Hc H1 H2 Ha Hd Hr IH|c0 c1 c2 c3 r Hc H1 H2 H3 Ha Hd Hr IH].
  - constructor.
  - cbn [chars_of]. replace (is_cont c) with false by (unfold is_cont; symmetry; apply andb_false_intro1; apply Z.leb_gt; lia).
    constructor; [|exact IH]. unfold val_char, cp_at.
    replace (c <? 128) with true by (symmetry; apply Z.ltb_lt; lia). cbv iota. unfold utf8_enc.
    replace (c <? 128) with true by (symmetry; apply Z.ltb_lt; lia). apply U8_1; [lia | constructor].
  - pose proof (cont_not_ascii _ H1) as B1.
    cbn [chars_of]. replace (is_cont c0) with false by (unfold is_cont; symmetry; apply andb_false_intro2; apply Z.ltb_ge; lia).
    rewrite H1. constructor; [|exact IH]. unfold val_char, cp_at.
    replace (c0 <? 128) with false by (symmetry; apply Z.ltb_ge; lia).
    replace (c0 <? 224) with true by (symmetry; apply Z.ltb_lt; lia). cbv iota.
    set (cp := (c0 - 192) * 64 + (c1 - 128)). unfold utf8_enc.
    replace (cp <? 128) with false by (symmetry; apply Z.ltb_ge; unfold cp; lia).
    replace (cp <? 2048) with true by (symmetry; apply Z.ltb_lt; unfold cp; lia). cbv iota.
    replace (192 + cp / 64) with c0 by (unfold cp; lia). replace (128 + cp mod 64) with c1 by (unfold cp; lia).
    apply U8_2; auto. constructor.
  - pose proof (cont_not_ascii _ H1) as B1. pose proof (cont_not_ascii _ H2) as B2.
    cbn [chars_of]. replace (is_cont c0) with false by (unfold is_cont; symmetry; apply andb_false_intro2; apply Z.ltb_ge; lia).
    rewrite H1, H2. constructor; [|exact IH]. unfold val_char, cp_at.
    replace (c0 <? 128) with false by (symmetry; apply Z.ltb_ge; lia).
    replace (c0 <? 224) with false by (symmetry; apply Z.ltb_ge; lia).
    replace (c0 <? 240) with true by (symmetry; apply Z.ltb_lt; lia). cbv iota.
    set (cp := (c0 - 224) * 4096 + (c1 - 128) * 64 + (c2 - 128)). unfold utf8_enc.
    assert (2048 <= cp < 65536) by (unfold cp; destruct (Z.eq_dec c0 224) as [E|E]; [specialize (Ha E) |]; lia).
    replace (cp <? 128) with false by (symmetry; apply Z.ltb_ge; lia).
    replace (cp <? 2048) with false by (symmetry; apply Z.ltb_ge; lia).
    replace (cp <? 65536) with true by (symmetry; apply Z.ltb_lt; lia). cbv iota.
    replace (224 + cp / 4096) with c0 by (unfold cp; lia).
    replace (128 + (cp / 64) mod 64) with c1 by (unfold cp; lia).
    replace (128 + cp mod 64) with c2 by (unfold cp; lia).
    apply U8_3; auto. constructor.
  - pose proof (cont_not_ascii _ H1) as B1. pose proof (cont_not_ascii _ H2) as B2. pose proof (cont_not_ascii _ H3) as B3.
    cbn [chars_of]. replace (is_cont c0) with false by (unfold is_cont; symmetry; apply andb_false_intro2; apply Z.ltb_ge; lia).
    rewrite H1, H2, H3. constructor; [|exact IH]. unfold val_char, cp_at.
    replace (c0 <? 128) with false by (symmetry; apply Z.ltb_ge; lia).
    replace (c0 <? 224) with false by (symmetry; apply Z.ltb_ge; lia).
    replace (c0 <? 240) with false by (symmetry; apply Z.ltb_ge; lia). cbv iota.
    set (cp := (c0 - 240) * 262144 + (c1 - 128) * 4096 + (c2 - 128) * 64 + (c3 - 128)). unfold utf8_enc.
    assert (65536 <= cp) by (unfold cp; destruct (Z.eq_dec c0 240) as [E|E]; [specialize (Ha E) |]; lia).
    replace (cp <? 128) with false by (symmetry; apply Z.ltb_ge; lia).
    replace (cp <? 2048) with false by (symmetry; apply Z.ltb_ge; lia).
    replace (cp <? 65536) with false by (symmetry; apply Z.ltb_ge; lia). cbv iota.
    replace (240 + cp / 262144) with c0 by (unfold cp; lia).
    replace (128 + (cp / 4096) mod 64) with c1 by (unfold cp; lia).
    replace (128 + (cp / 64) mod 64) with c2 by (unfold cp; lia).
    replace (128 + cp mod 64) with c3 by (unfold cp; lia).
    apply U8_4; auto. constructor.
Qed.

Section SV.
Variable cf : cfg.
Variable src : bytes.
Hypothesis Hsrc : U8 src.

(** partial correctness: whatever [m] returns satisfies [Q] (no statement about panics or fuel: that is [Spec]) *)
Class SV {A} (Q : A -> Prop) (m : P A) : Prop :=
  sv : forall st a st', m st = Ok (a, st') -> Q a.

Lemma SV_bind {A B} (Q1 : A -> Prop) (Q : B -> Prop) (m : P A) (k : A -> P B) :
  SV Q1 m -> (forall a, Q1 a -> SV Q (k a)) -> SV Q (bind m k).
Proof.
  intros H K st b st'' E. unfold bind in E. destruct (m st) as [[a st']|e| | |] eqn:M; try discriminate.
  exact (K a (H _ _ _ M) _ _ _ E).
Qed.
Lemma SV_weaken {A} (Q1 Q : A -> Prop) (m : P A) : SV Q1 m -> (forall a, Q1 a -> Q a) -> SV Q m.
Proof. intros H W st a st' E. apply W. exact (H _ _ _ E). Qed.
Lemma SV_assoc {A B C} (Q : C -> Prop) (m : P A) (k1 : A -> P B) (k2 : B -> P C) :
  SV Q (bind m (fun a => bind (k1 a) k2)) -> SV Q (bind (bind m k1) k2).
Proof.
  intros H st c st' E. apply (H st c st'). unfold bind in *. destruct (m st) as [[a s]|e| | |]; auto.
Qed.
Lemma SV_get {B} (Q : B -> Prop) (k : pst -> P B) : (forall s, SV Q (k s)) -> SV Q (bind get k).
Proof. intros K st a st' E. exact (K st st a st' E). Qed.
Lemma SV_ret_bind {A B} (Q : B -> Prop) (a : A) (k : A -> P B) : SV Q (k a) -> SV Q (bind (ret a) k).
Proof. intros H st b st' E. exact (H st b st' E). Qed.
Lemma SV_ret {A} (Q : A -> Prop) (a : A) : Q a -> SV Q (ret a).
Proof. intros H st b st' E. injection E as <- _. exact H. Qed.
Lemma SV_fn {A} (Q : A -> Prop) (a : A) (f : pst -> pst) : Q a -> SV Q (fun st => Ok (a, f st)).
Proof. intros H st b st' E. injection E as <- _. exact H. Qed.
Lemma SV_fail_msg {A} (Q : A -> Prop) tp m : SV Q (@fail_msg cf src A tp m).
Proof. intros st a st' E. unfold fail_msg in E. destruct (state cf src st) as [[[[? ?] ?] ?]|]; discriminate. Qed.
Lemma SV_fail {A} (Q : A -> Prop) tp : SV Q (@fail cf src A tp).
Proof. apply SV_fail_msg. Qed.
Lemma SV_lift_none {A} (Q : A -> Prop) (r : res A) : (forall a, r = Ok a -> Q a) -> SV Q (lift r).
Proof. intros H st a st' E. unfold lift in E. destruct r; try discriminate. injection E as <- _. auto. Qed.

(** anything satisfies the trivial postcondition: the fallback instance *)
Global Instance SV_T {A} (m : P A) : SV T m | 100.
Proof. intros st a st' E. exact I. Qed.
Global Instance txt_sv t : SV U8 (txt src t).
Proof.
  intros st a st' E. unfold txt in E. destruct (substr src t) as [s|] eqn:S; [|discriminate].
  injection E as <- _. unfold substr in S. eapply slice_valid; eauto.
Qed.
Global Instance fail_sv {A} tp : SV (fun _ : A => False) (fail cf src tp).
Proof. apply SV_fail. Qed.
Global Instance fail_msg_sv {A} tp m : SV (fun _ : A => False) (fail_msg cf src tp m).
Proof. apply SV_fail_msg. Qed.
Global Instance lift_gvb_sv rule b :
  SV (fun g => U8 rule -> val_gvb b -> val_gen_via g) (lift (gen_via_build rule b)).
Proof.
  apply SV_lift_none. intros g E Hr Hb. unfold gen_via_build in E. unfold val_gvb in Hb.
  destruct (gb_cut_size b) as [[? ?]|]; [|discriminate].
  destruct (gb_layers b) as [[[? ?] ?]|]; [|discriminate].
  destruct (gb_cut_spacing b) as [[? ?]|]; [|discriminate].
  destruct (gb_enclosure b) as [[[[? ?] ?] ?]|]; [|discriminate].
  injection E as <-. simpl in Hb. unfold val_gen_via. simpl. tauto.
Qed.

#[local] Hint Resolve U8_app U8_nil U8_sp Forall_nil : vdb.
#[local] Hint Extern 1 (Forall _ (_ :: _)) => (constructor; simpl; repeat split) : vdb.
Ltac vside :=
  intros; autounfold with vdb in *; cbn beta iota in *; simpl in *;
  repeat match goal with |- context [if ?b then _ else _] => destruct b end;
  repeat match goal with p : (_ * _)%type |- _ => destruct p end; simpl in *;
  repeat rewrite Forall_app in *;
  repeat match goal with
         | H : ?A -> _ |- _ =>
           let HA := fresh in assert (HA : A) by (intuition (auto with vdb)); specialize (H HA); clear HA
         end;
  intuition (auto with vdb).

Ltac vstep :=
  cbv beta;
  lazymatch goal with
  | |- SV _ (bind ?m ?k) =>
    lazymatch m with
    | get => apply SV_get; intros ?
    | ret _ => apply SV_ret_bind
    | bind _ _ => apply SV_assoc
    | when _ _ => unfold when
    | match ?x with _ => _ end => destruct x eqn:?
    | _ => eapply SV_bind; [typeclasses eauto | intros ? ?; try contradiction]
    end
  | |- SV _ (ret _) => apply SV_ret; vside
  | |- SV _ (fail _ _ _) => apply SV_fail
  | |- SV _ (fail_msg _ _ _ _) => apply SV_fail_msg
  | |- SV _ (lift OutOfFuel) => apply SV_lift_none; intros; discriminate
  | |- SV _ (lift (Err _)) => apply SV_lift_none; intros; discriminate
  | |- SV _ (when _ _) => unfold when
  | |- SV _ (match ?x with _ => _ end) => destruct x eqn:?
  | |- SV _ ?m => eapply SV_weaken; [typeclasses eauto | intros ? ?; vside]
  end.
Ltac vrun := repeat vstep.
Ltac vloop f := induction f as [|f IH]; intros; [apply SV_lift_none; intros; discriminate|].

Global Instance expect_and_get_str_sv ty : SV U8 (expect_and_get_str cf src ty).
Proof. unfold expect_and_get_str. vrun. Qed.
Global Instance get_name_sv : SV U8 (get_name cf src).
Proof. unfold get_name. typeclasses eauto. Qed.
Global Instance parse_ident_sv : SV U8 (parse_ident cf src).
Proof. unfold parse_ident. typeclasses eauto. Qed.
Global Instance ident_stmt_sv : SV U8 (ident_stmt cf src).
Proof. unfold ident_stmt. vrun. Qed.

Global Instance layer_opts_loop_sv f : forall lg, SV (fun r => val_lg lg -> val_lg r) (layer_opts_loop cf src f lg).
Proof. vloop f. cbn [layer_opts_loop]. vrun. Qed.
Global Instance layer_body_loop_sv f : forall lg, SV (fun r => val_lg lg -> val_lg r) (layer_body_loop cf src f lg).
Proof. vloop f. cbn [layer_body_loop]. vrun. Qed.
Global Instance parse_layer_geometries_sv : SV val_lg (parse_layer_geometries cf src).
Proof. unfold parse_layer_geometries. vrun. Qed.
Global Instance port_loop_sv f : forall cl ly, SV (fun r => Forall val_lg ly -> val_port r) (port_loop cf src f cl ly).
Proof. vloop f. cbn [port_loop]. vrun. Qed.
Global Instance parse_port_sv : SV val_port (parse_port cf src).
Proof. unfold parse_port. vrun. Qed.
Global Instance density_loop_sv f : forall acc, SV (fun r => Forall val_dg acc -> Forall val_dg r) (density_loop cf src f acc).
Proof. vloop f. cbn [density_loop]. vrun. Qed.
Global Instance parse_density_sv : SV (Forall val_dg) (parse_density cf src).
Proof. unfold parse_density. vrun. Qed.
Global Instance obs_loop_sv f : forall acc, SV (fun r => Forall val_lg acc -> Forall val_lg r) (obs_loop cf src f acc).
Proof. vloop f. cbn [obs_loop]. vrun. Qed.
Global Instance parse_obstructions_sv : SV (Forall val_lg) (parse_obstructions cf src).
Proof. unfold parse_obstructions. vrun. Qed.
Global Instance property_loop_sv f : forall acc, SV (fun r => Forall val_prop acc -> Forall val_prop r) (property_loop cf src f acc).
Proof. vloop f. cbn [property_loop]. vrun. Qed.
Global Instance parse_property_sv acc : SV (fun r => Forall val_prop acc -> Forall val_prop r) (parse_property cf src acc).
Proof. unfold parse_property. vrun. Qed.
Global Instance pin_loop_sv f : forall pin props,
  SV (fun r => val_pin pin -> Forall val_prop props -> val_pin (fst r) /\ Forall val_prop (snd r)) (pin_loop cf src f pin props).
Proof. vloop f. cbn [pin_loop]. vrun. Qed.
Global Instance parse_pin_sv : SV val_pin (parse_pin cf src).
Proof. unfold parse_pin. vrun. Qed.
Global Instance macro_loop_sv f : forall mac props,
  SV (fun r => val_macro mac -> Forall val_prop props -> val_macro (fst r) /\ Forall val_prop (snd r)) (macro_loop cf src f mac props).
Proof. vloop f. cbn [macro_loop]. vrun. Qed.
Global Instance parse_macro_sv : SV val_macro (parse_macro cf src).
Proof. unfold parse_macro. vrun. Qed.
Global Instance propdefs_loop_sv f : forall acc,
  SV (fun r => Forall val_propdef acc -> Forall val_propdef r) (propdefs_loop cf src f acc).
Proof. vloop f. cbn [propdefs_loop]. vrun. Qed.
Global Instance parse_property_definitions_sv : SV (Forall val_propdef) (parse_property_definitions cf src).
Proof. unfold parse_property_definitions. vrun. Qed.
Global Instance parse_site_def_sv : SV val_site (parse_site_def cf src).
Proof. unfold parse_site_def. vrun. Qed.
Global Instance gen_via_loop_sv f : forall b, SV (fun r => val_gvb b -> val_gvb r) (gen_via_loop cf src f b).
Proof. vloop f. cbn [gen_via_loop]. vrun. Qed.
Global Instance parse_via_layer_geometries_sv : SV val_vlg (parse_via_layer_geometries cf src).
Proof. unfold parse_via_layer_geometries. vrun. Qed.
Global Instance fixed_via_layers_loop_sv f : forall acc,
  SV (fun r => Forall val_vlg acc -> Forall val_vlg r) (fixed_via_layers_loop cf src f acc).
Proof. vloop f. cbn [fixed_via_layers_loop]. vrun. Qed.
Global Instance parse_via_sv : SV val_via_def (parse_via cf src).
Proof. unfold parse_via. vrun. Qed.
Global Instance ext_loop_sv f : forall data, SV (fun r => U8 data -> U8 r) (ext_loop cf src f data).
Proof. vloop f. cbn [ext_loop]. vrun. Qed.

Global Instance parse_bus_bit_chars_sv : SV val_bbc (parse_bus_bit_chars cf src).
Proof.
  unfold parse_bus_bit_chars.
  eapply SV_bind; [typeclasses eauto | intros ? _].
  eapply SV_bind; [apply expect_and_get_str_sv | intros s Hs].
  pose proof (chars_of_valid s Hs) as F.
  destruct (chars_of s) as [|x0 [|c1 [|c2 [|x3 [|? ?]]]]]; try apply SV_fail.
  eapply SV_bind; [typeclasses eauto | intros ? _]. apply SV_ret.
  repeat match goal with H : Forall _ (_ :: _) |- _ => inversion H; clear H; subst end.
  split; assumption.
Qed.
Global Instance parse_divider_char_sv : SV val_char (parse_divider_char cf src).
Proof.
  unfold parse_divider_char.
  eapply SV_bind; [typeclasses eauto | intros ? _].
  eapply SV_bind; [apply expect_and_get_str_sv | intros s Hs].
  pose proof (chars_of_valid s Hs) as F.
  destruct (chars_of s) as [|x0 [|c1 [|x3 [|? ?]]]]; try apply SV_fail.
  eapply SV_bind; [typeclasses eauto | intros ? _]. apply SV_ret.
  repeat match goal with H : Forall _ (_ :: _) |- _ => inversion H; clear H; subst end.
  assumption.
Qed.
Global Instance lib_loop_sv f : forall lib, SV (fun r => val_lib lib -> val_lib r) (lib_loop cf src f lib).
Proof. vloop f. cbn [lib_loop]. vrun. Qed.
Global Instance parse_lib_sv : SV val_lib (parse_lib cf src).
Proof. unfold parse_lib. vrun. Qed.

End SV.

(** every string of a library read from valid UTF-8 is valid UTF-8 (names and string literals are token texts,
    sliced on character boundaries; extension data is a concatenation of token texts and spaces; the bus-bit and
    divider characters are decoded scalar values) *)
Theorem parse_valid : forall cf src l, U8 src -> parse cf src = Ok l -> val_lib l.
Proof.
  intros cf src l V H. unfold parse in H. destruct (lex (c_charpos cf) src) as [toks e].
  assert (G : forall st, match parse_lib cf src st with
                         | Ok (l0, _) => Ok l0
                         | Err er => Err er | Panic => Panic | OutOfFuel => OutOfFuel | Unmodelled => Unmodelled
                         end = Ok l -> val_lib l).
  { intros st E. destruct (parse_lib cf src st) as [[l0 st']|er| | |] eqn:PL; try discriminate.
    injection E as <-. exact (parse_lib_sv cf src V _ _ _ PL). }
  destruct toks; destruct e; try discriminate; eapply G; eauto.
Qed.

(** * The writer emits valid UTF-8 when the library's strings are valid *)
Definition asc (b : Z) : Prop := 0 <= b < 128.

Lemma Forall_firstn {A} (P : A -> Prop) : forall n l, Forall P l -> Forall P (firstn n l).
Proof. induction n; intros l H; simpl; [constructor|]. destruct H; constructor; auto. Qed.
Lemma Forall_skipn {A} (P : A -> Prop) : forall n l, Forall P l -> Forall P (skipn n l).
Proof. induction n; intros l H; simpl; [exact H|]. destruct H; [constructor | auto]. Qed.

Lemma digits_rev_asc : forall f n, Forall asc (digits_rev f n).
Proof.
  Ltac Zify.zify_post_hook ::= Z.div_mod_to_equations.
  induction f as [|f IH]; intros n; cbn [digits_rev]; [constructor|].
  destruct (n <=? 0); [constructor | constructor; [unfold asc; lia | apply IH]].
Qed.
Lemma zeros_asc : forall n, Forall asc (zeros n).
Proof. induction n; simpl; constructor; [unfold asc; lia | auto]. Qed.
Lemma dec_to_bytes_asc : forall d, Forall asc (dec_to_bytes d).
Proof.
  intros d. unfold dec_to_bytes.
  set (ds' := zeros _ ++ digits_of (d_mant d)).
  assert (F : Forall asc ds').
  { apply Forall_app. split; [apply zeros_asc | unfold digits_of; apply Forall_rev; apply digits_rev_asc]. }
  set (whole := firstn _ ds'). set (frac := skipn _ ds').
  assert (Fw : Forall asc (match whole with [] => [48] | _ => whole end)).
  { pose proof (Forall_firstn asc (length ds' - Z.to_nat (d_scale d)) ds' F) as W. fold whole in W.
    destruct whole; [repeat constructor; unfold asc; lia | exact W]. }
  assert (Ff : Forall asc frac) by (apply Forall_skipn; exact F).
  assert (Fb : Forall asc (match Z.to_nat (d_scale d) with
                           | O => match whole with [] => [48] | _ => whole end
                           | S _ => (match whole with [] => [48] | _ => whole end) ++ 46 :: frac
                           end)).
  { destruct (Z.to_nat (d_scale d)); [exact Fw|]. apply Forall_app. split; [exact Fw|].
    constructor; [unfold asc; lia | exact Ff]. }
  destruct (d_neg d); [constructor; [unfold asc; lia | exact Fb] | exact Fb].
Qed.
Lemma U8_dstr : forall d, U8 (dstr d).
Proof. intros. apply U8_ascii. apply dec_to_bytes_asc. Qed.

Lemma U8_asc1 : forall b r, (0 <=? b) && (b <? 128) = true -> U8 r -> U8 (b :: r).
Proof. intros b r H Hr. apply andb_prop in H. destruct H as [A B]. apply Z.leb_le in A. apply Z.ltb_lt in B. apply U8_1; [lia | exact Hr]. Qed.
Ltac closed_u8 := apply valid_U8; vm_compute; reflexivity.
Lemma U8_kw : forall k, U8 (kw k).
Proof. intros k. destruct k; closed_u8. Qed.
Lemma U8_nl : U8 [10].
Proof. closed_u8. Qed.
Lemma U8_indent : forall n, U8 (indent_str n).
Proof. induction n; simpl; [constructor|]. repeat (apply U8_1; [lia|]). exact IHn. Qed.
Lemma U8_join : forall sep l, U8 sep -> Forall U8 l -> U8 (join sep l).
Proof.
  intros sep l Hs F. induction F as [|x r Hx Hr IH]; simpl; [constructor|].
  destruct r; [exact Hx|]. apply U8_app; [exact Hx|]. apply U8_app; [exact Hs | exact IH].
Qed.
Lemma U8_pt_str : forall p, U8 (pt_str p).
Proof.
  intros. unfold pt_str, cat. cbn [concat].
  apply U8_app; [apply U8_dstr|]. apply U8_app; [apply U8_sp|]. apply U8_app; [apply U8_dstr | constructor].
Qed.
Lemma Forall_map_all {A B} (P : B -> Prop) (f : A -> B) (l : list A) : (forall x, P (f x)) -> Forall P (map f l).
Proof. intros H. induction l; simpl; constructor; auto. Qed.
Lemma Forall_map_of {A B} (Q : A -> Prop) (P : B -> Prop) (f : A -> B) (l : list A) :
  Forall Q l -> (forall x, Q x -> P (f x)) -> Forall P (map f l).
Proof. intros F H. induction F; simpl; constructor; auto. Qed.

Definition lines_ok (ls : list line) : Prop := Forall (fun ln => U8 (snd ln)) ls.
Lemma render_lines_valid : forall ls, lines_ok ls -> U8 (render_lines ls).
Proof.
  intros ls F. unfold render_lines. apply U8_concat. induction F as [|[i t] r Ht Hr IH]; simpl; constructor; auto.
  apply U8_app; [apply U8_indent|]. apply U8_app; [exact Ht | apply U8_nl].
Qed.
Lemma lines_ok_nil : lines_ok [].
Proof. constructor. Qed.
Lemma lines_ok_cons : forall i t r, U8 t -> lines_ok r -> lines_ok ((i, t) :: r).
Proof. intros. constructor; auto. Qed.
Lemma lines_ok_app : forall a b, lines_ok a -> lines_ok b -> lines_ok (a ++ b).
Proof. intros. apply Forall_app. split; assumption. Qed.
Lemma lines_ok_flat_map {X} (Q : X -> Prop) (f : X -> list line) (xs : list X) :
  Forall Q xs -> (forall x, Q x -> lines_ok (f x)) -> lines_ok (flat_map f xs).
Proof. intros F H. induction F; simpl; [constructor|]. apply lines_ok_app; auto. Qed.
Lemma lines_ok_flat_map_all {X} (f : X -> list line) (xs : list X) :
  (forall x, lines_ok (f x)) -> lines_ok (flat_map f xs).
Proof. intros H. induction xs; simpl; [constructor|]. apply lines_ok_app; auto. Qed.

(** ** a solver for "this text is valid UTF-8" *)
Ltac hyps :=
  unfold val_gen_via, val_via_data, val_foreign, val_ext, val_bbc, val_char, val_attr, val_prop, val_dg, val_vlg,
         val_via_inst, val_site, vopt in *;
  repeat match goal with
         | H : _ /\ _ |- _ => destruct H
         | H : vopt _ (Some _) |- _ => simpl in H
         end.
Ltac u8 :=
  repeat first
    [ assumption
    | apply U8_nil | apply U8_sp | apply U8_kw | apply U8_dstr | apply U8_pt_str | apply U8_nl
    | match goal with
      | |- U8 (cat _) => unfold cat; cbn [concat]
      | |- U8 (_ ++ _) => apply U8_app
      | |- U8 (_ :: _) => apply U8_asc1; [vm_compute; reflexivity |]
      | |- U8 (bs _) => closed_u8
      | |- U8 (enum_s _ ?x) => destruct x; closed_u8
      | |- U8 (dir_str ?d) => destruct d; repeat match goal with |- context [DirOutput ?b] => is_var b; destruct b end; closed_u8
      | |- U8 (display_option _ ?o) => destruct o as [?x|]; [destruct x; closed_u8 | apply U8_nil]
      | |- U8 (if ?b then _ else _) => destruct b
      | |- U8 (match ?x with _ => _ end) => destruct x eqn:?; hyps
      | |- U8 (join _ _) => apply U8_join
      | |- Forall U8 (map pt_str _) => apply Forall_map_all; intros
      | |- Forall U8 (map (enum_s _) _) => apply Forall_map_all; intros
      | |- Forall U8 (_ ++ _) => apply Forall_app; split
      | |- Forall U8 (_ :: _) => constructor
      | |- Forall U8 [] => constructor
      | |- Forall U8 (match ?x with _ => _ end) => destruct x eqn:?; hyps
      | |- Forall U8 (if ?b then _ else _) => destruct b
      end ].
(** [Ok b = Ok x] without normalising [b] (unlike [injection]) *)
Ltac ok_inj E :=
  match type of E with Ok ?b = Ok ?x => let EE := fresh in assert (EE : b = x) by congruence; clear E; subst x end.
Ltac lok_ext := fail.
Ltac lok :=
  repeat first
    [ lok_ext
    | match goal with
      | |- lines_ok (_ ++ _) => apply lines_ok_app
      | |- lines_ok (_ :: _) => apply lines_ok_cons; [u8 |]
      | |- lines_ok [] => apply lines_ok_nil
      | |- lines_ok (match ?x with _ => _ end) => destruct x eqn:?; hyps
      | |- lines_ok (if ?b then _ else _) => destruct b
      end ].

Section WV.
Variable cf : cfg.

Lemma write_symmetries_ok : forall i s, lines_ok (write_symmetries i s).
Proof. intros. unfold write_symmetries. lok. Qed.
Lemma format_mask_ok : forall m, Forall U8 (format_mask m).
Proof. intros [d|]; simpl; u8. Qed.
Lemma format_geom_ok : forall sh pat, Forall U8 (format_geom sh pat).
Proof.
  intros sh pat. unfold format_geom.
  apply Forall_app. split.
  - destruct sh; repeat (apply Forall_app; split); try apply format_mask_ok; u8.
  - u8.
Qed.
Lemma write_geom_ok : forall i g, lines_ok (write_geom i g).
Proof.
  intros i g. unfold write_geom. constructor; [|constructor]. cbn [snd].
  apply U8_app; [|u8]. apply U8_join; [apply U8_sp|]. destruct g; apply format_geom_ok.
Qed.
Lemma write_layer_geom_ok : forall i l, val_lg l -> lines_ok (write_layer_geom i l).
Proof.
  intros i l [Hn Hv]. unfold write_layer_geom. lok.
  - apply lines_ok_flat_map_all. intros. apply write_geom_ok.
  - unfold lines_ok. eapply Forall_map_of; [exact Hv|]. intros v Hvi. cbn [snd]. unfold val_via_inst in Hvi. u8.
Qed.
Lemma write_via_shape_ok : forall i s, lines_ok (write_via_shape i s).
Proof. intros i s. unfold write_via_shape. destruct s; lok. Qed.
Lemma write_via_layer_geom_ok : forall i l, val_vlg l -> lines_ok (write_via_layer_geom i l).
Proof.
  intros i l H. unfold val_vlg in H. unfold write_via_layer_geom. lok.
  apply lines_ok_flat_map_all. intros. apply write_via_shape_ok.
Qed.
Lemma write_via_ok : forall i v, val_via_def v -> lines_ok (write_via i v).
Proof.
  intros i v [Hn Hd]. unfold write_via. destruct (vd_data v) as [f|g]; simpl in Hd.
  - lok; eapply lines_ok_flat_map; [exact Hd|]; intros; apply write_via_layer_geom_ok; assumption.
  - hyps. lok.
Qed.
Lemma write_site_ok : forall i s, val_site s -> lines_ok (write_site cf i s).
Proof. intros i s H. unfold val_site in H. unfold write_site. lok; apply write_symmetries_ok. Qed.
Lemma write_units_ok : forall i u, lines_ok (write_units i u).
Proof. intros i u. unfold write_units. lok. Qed.
Lemma write_property_ok : forall i p, val_prop p -> lines_ok (write_property cf i p).
Proof. intros i p [H1 H2]. unfold write_property. lok. Qed.
Lemma write_port_ok : forall i p, val_port p -> lines_ok (write_port i p).
Proof.
  intros i p H. unfold val_port in H. unfold write_port.
  lok; eapply lines_ok_flat_map; [exact H|]; intros; apply write_layer_geom_ok; assumption.
Qed.
Lemma write_pin_ok : forall i p, val_pin p -> lines_ok (write_pin cf i p).
Proof.
  intros i p H. unfold val_pin in H. hyps. unfold write_pin. unfold vopt in *. lok;
  try (eapply lines_ok_flat_map; [eassumption|]; intros; first [apply write_property_ok | apply write_port_ok]; assumption).
  all: unfold lines_ok; eapply Forall_map_of; [eassumption|]; intros a Ha; cbn [snd]; unfold val_attr, vopt in Ha; hyps; u8.
Qed.
Lemma write_density_ok : forall i d, Forall val_dg d -> lines_ok (write_density i d).
Proof.
  intros i d H. unfold write_density. lok.
  eapply lines_ok_flat_map; [exact H|]. intros g Hg. unfold val_dg in Hg. lok.
  unfold lines_ok. apply Forall_map_all. intros r. cbn [snd]. u8.
Qed.
Lemma obs_lines_ok : forall i obs, Forall val_lg obs ->
  lines_ok (match obs with
            | [] => []
            | o => [(S i, kw K_Obs ++ sp)] ++ flat_map (write_layer_geom (S (S i))) o ++ [(S i, kw K_End ++ sp)]
            end).
Proof.
  intros i obs F. destruct obs as [|x r]; [apply lines_ok_nil|].
  apply lines_ok_app; [lok|]. apply lines_ok_app; [|lok].
  eapply lines_ok_flat_map; [exact F|]. intros; apply write_layer_geom_ok; assumption.
Qed.
Ltac lok_ext ::=
  match goal with |- lines_ok (match mac_obs _ with _ => _ end) => apply obs_lines_ok; assumption end.
Lemma write_macro_class_ok : forall i c, lines_ok (write_macro_class i c).
Proof. intros i c. unfold write_macro_class. destruct c; lok. Qed.
Lemma write_macro_ok : forall ver i m ls, val_macro m -> write_macro cf ver i m = Ok ls -> lines_ok ls.
Proof.
  intros ver i m ls H E. unfold val_macro in H. hyps. unfold vopt in *. unfold write_macro in E.
  assert (E' : exists body, ls = body /\ lines_ok body); [|destruct E' as (? & -> & ?); assumption].
  destruct (mac_source m) eqn:S; [destruct (dec_gt ver V5P4); [discriminate|]|]; ok_inj E; eexists; (split; [reflexivity|]).
  all: unfold val_foreign in *.
  all: lok.
  all:
  try apply write_macro_class_ok; try apply write_symmetries_ok; try (apply write_density_ok; assumption);
  try (eapply lines_ok_flat_map; [eassumption|]; intros; first [apply write_pin_ok | apply write_property_ok | apply write_layer_geom_ok]; assumption).
Qed.
Lemma write_macros_ok : forall ver ms ls, Forall val_macro ms -> write_macros cf ver ms = Ok ls -> lines_ok ls.
Proof.
  intros ver ms. induction ms as [|m r IH]; intros ls F E; simpl in E.
  - injection E as <-. constructor.
  - inversion F as [|? ? Hm Hr]; subst.
    destruct (write_macro cf ver 0 m) as [l1| | | |] eqn:E1; try discriminate.
    destruct (write_macros cf ver r) as [l2| | | |] eqn:E2; try discriminate.
    injection E as <-. apply lines_ok_app; [eapply write_macro_ok; eauto | apply IH; auto].
Qed.
Lemma propdef_str_ok : forall p, val_propdef p -> U8 (propdef_str p).
Proof.
  intros p H. unfold val_propdef, vopt in H. unfold propdef_str, format_numeric_prop_def.
  destruct p as [ot n [v|]|ot n v r|ot n v r]; hyps; u8.
Qed.

Theorem write_lib_valid : forall l t, val_lib l -> write_lib cf l = Ok t -> U8 t.
Proof.
  intros l t H E. unfold write_lib in E.
  destruct (write_lib_lines cf l) as [ls| | | |] eqn:EL; try discriminate. injection E as <-.
  apply render_lines_valid. unfold write_lib_lines in EL.
  destruct (_ && _); [discriminate|]. destruct (_ && _); [discriminate|].
  destruct (write_macros cf _ (lib_macros l)) as [ml| | | |] eqn:M; try discriminate.
  unfold val_lib in H. hyps. apply write_macros_ok in M; [|assumption]. ok_inj EL.
  unfold vopt, val_bbc, val_char in *.
  lok; try assumption; try apply write_units_ok;
  try (eapply lines_ok_flat_map; [eassumption|]; intros; first [apply write_via_ok | apply write_site_ok]; assumption).
  all: unfold lines_ok; eapply Forall_map_of; [eassumption|]; intros x Hx; cbn [snd]; unfold val_ext in *; hyps;
       first [apply U8_app; [apply propdef_str_ok; assumption | u8] | u8].
Qed.

End WV.

Theorem rewrite_valid : forall cf src l t, utf8_valid src -> parse cf src = Ok l -> write_lib cf l = Ok t -> utf8_valid t.
Proof.
  intros cf src l t V P W. apply U8_valid. eapply write_lib_valid; [|exact W].
  eapply parse_valid; [apply valid_U8; exact V | exact P].
Qed.
