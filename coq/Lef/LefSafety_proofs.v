(** C11, writing side: a library can be written and the text read again without a crash.

    - [write_lib_ok_or_err]: the writer model returns text or a `LefError`, nothing else.
    - [write_lib_sob]: the text starts with a keyword, hence on a character boundary.
    - [rewrite_safe_gen]: reading the written text neither panics nor runs out of fuel. *)
From Coq Require Import ZArith List Bool Lia.
From L21 Require Import Lef.LefDec Lef.LefData Lef.LefLex Lef.LefParse Lef.LefWrite Lef.LefLex_proofs Lef.LefParse_proofs.
Import ListNotations.
Local Open Scope list_scope.
Local Open Scope Z_scope.

(** * The writer returns text or an error *)
Definition is_ok_or_err {A} (r : res A) : Prop := match r with Ok _ | Err _ => True | _ => False end.

Lemma write_macro_ok_or_err : forall cf ver i m, is_ok_or_err (write_macro cf ver i m).
Proof. intros. unfold write_macro. destruct (mac_source m); [destruct (dec_gt ver V5P4)|]; exact I. Qed.
Lemma write_macros_ok_or_err : forall cf ver ms, is_ok_or_err (write_macros cf ver ms).
Proof.
  induction ms as [|m r IH]; simpl; [exact I|].
  pose proof (write_macro_ok_or_err cf ver 0 m) as H.
  destruct (write_macro cf ver 0 m); simpl in H; try contradiction; [|exact I].
  destruct (write_macros cf ver r); simpl in *; auto.
Qed.
Lemma write_lib_ok_or_err : forall cf l, is_ok_or_err (write_lib cf l).
Proof.
  intros. unfold write_lib, write_lib_lines.
  destruct (_ && _); [exact I|]. destruct (_ && _); [exact I|].
  pose proof (write_macros_ok_or_err cf (match lib_version l with Some v => v | None => V5P8 end) (lib_macros l)) as H.
  destruct (write_macros cf _ (lib_macros l)); simpl in *; auto.
Qed.

(** * The written text starts with a keyword *)
Lemma kw_sob : forall k rest, starts_on_boundary (kw k ++ rest) = true.
Proof. intros k rest. destruct k; reflexivity. Qed.

Definition first_ok (ls : list line) : Prop :=
  match ls with (O, t) :: _ => forall rest, starts_on_boundary (t ++ rest) = true | _ => False end.
Definition seg_ok (ls : list line) : Prop := ls = [] \/ first_ok ls.

Lemma first_ok_app : forall a b, first_ok a -> first_ok (a ++ b).
Proof. intros [|[[|i] t] r] b H; simpl in *; auto; contradiction. Qed.
Lemma seg_first : forall a b, seg_ok a -> first_ok b -> first_ok (a ++ b).
Proof. intros a b [-> | H] Hb; [exact Hb | apply first_ok_app; exact H]. Qed.
Lemma seg_app : forall a b, seg_ok a -> seg_ok b -> seg_ok (a ++ b).
Proof. intros a b [-> | H] Hb; [exact Hb | right; apply first_ok_app; exact H]. Qed.
Lemma first_ok_sob : forall ls, first_ok ls -> starts_on_boundary (render_lines ls) = true.
Proof.
  intros [|[[|i] t] r] H; simpl in H; try contradiction.
  unfold render_lines. simpl. rewrite <- app_assoc. apply H.
Qed.
Lemma seg_flat_map {X} (f : X -> list line) (xs : list X) : (forall x, first_ok (f x)) -> seg_ok (flat_map f xs).
Proof. intros H. destruct xs as [|x r]; [left; reflexivity | right; simpl; apply first_ok_app; apply H]. Qed.

Local Arguments kw : simpl never.
Ltac kwline := cbn [app map first_ok]; intros; reflexivity.

Lemma write_via_first : forall v, first_ok (write_via O v).
Proof. intros. unfold write_via. apply first_ok_app. destruct (vd_default v); kwline. Qed.
Lemma write_site_first : forall cf s, first_ok (write_site cf O s).
Proof. intros. unfold write_site. apply first_ok_app. destruct (c_w_site_orig cf); kwline. Qed.
Lemma write_macros_seg : forall cf ver ms ls, write_macros cf ver ms = Ok ls -> seg_ok ls.
Proof.
  intros cf ver [|m r] ls H; simpl in H.
  - injection H as <-. left; reflexivity.
  - unfold write_macro in H.
    destruct (match mac_source m with Some _ => if dec_gt ver V5P4 then true else false | None => false end) eqn:G.
    + destruct (mac_source m); [destruct (dec_gt ver V5P4)|]; discriminate.
    + right.
      assert (exists body, write_macro cf ver 0 m = Ok ((O, cat [kw K_Macro; sp; mac_name m]) :: body)) as [body E].
      { unfold write_macro. destruct (mac_source m); [destruct (dec_gt ver V5P4); [discriminate|]|]; eexists; reflexivity. }
      fold (write_macro cf ver 0 m) in H. rewrite E in H.
      destruct (write_macros cf ver r); try discriminate. injection H as <-. kwline.
Qed.

Lemma write_lib_first : forall cf l ls, write_lib_lines cf l = Ok ls -> first_ok ls.
Proof.
  intros cf l ls H. unfold write_lib_lines in H.
  destruct (_ && _); [discriminate|]. destruct (_ && _); [discriminate|].
  destruct (write_macros cf _ (lib_macros l)) as [ml| | | |] eqn:M; try discriminate.
  apply write_macros_seg in M. injection H as <-.
  repeat (apply seg_first;
          [ first [ exact M
                  | apply seg_flat_map; intros; first [apply write_via_first | apply write_site_first]
                  | repeat match goal with |- seg_ok (match ?x with _ => _ end) => destruct x end;
                    first [left; reflexivity | right; try apply first_ok_app; kwline]
                  | match goal with |- seg_ok (map _ ?x) => destruct x; [left; reflexivity | right; kwline] end ]
          | ]).
  kwline.
Qed.

Theorem write_lib_sob : forall cf l t, write_lib cf l = Ok t -> starts_on_boundary t = true.
Proof.
  intros cf l t H. unfold write_lib in H.
  destruct (write_lib_lines cf l) as [ls| | | |] eqn:E; try discriminate.
  injection H as <-. apply first_ok_sob. eapply write_lib_first; eauto.
Qed.

Theorem rewrite_safe_gen : forall cf l, c_charpos cf = false ->
  write_lib cf l <> Panic /\
  (forall t, write_lib cf l = Ok t -> parse cf t <> Panic /\ parse cf t <> OutOfFuel).
Proof.
  intros cf l Hcf. split.
  - pose proof (write_lib_ok_or_err cf l) as H. intros E. rewrite E in H. exact H.
  - intros t E. apply parse_safe_gen; [exact Hcf | eapply write_lib_sob; eauto].
Qed.
