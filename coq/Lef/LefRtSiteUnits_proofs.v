(** C04 / C05: success lemmas for SITE definitions and the UNITS block, over abstract tokens. *)
From Coq Require Import String.
From Coq Require Import ZArith List Bool Lia.
From L21 Require Import Lef.LefDec Lef.LefData Lef.LefLex Lef.LefParse Lef.LefSpec Lef.LefCheck
                        Lef.LefLex_proofs Lef.LefParse_proofs Lef.LefRtLex_proofs Lef.LefRtPerm_proofs Lef.LefRtFrame_proofs
                        Lef.LefRtConstr_proofs.
Import ListNotations.
Local Open Scope list_scope.
Local Open Scope Z_scope.

Definition su_opt_list {A B} (f : A -> B) (o : option A) : list B := match o with Some x => [f x] | None => [] end.

(** * DATABASE MICRONS: a number equal to a positive integer is that integer *)
Lemma dbu_arith : forall v d', 0 < v -> dec_eq (dec_of_Z v) d' = true -> dec_wf d' ->
  dec_fract_is_zero d' = true /\ dec_trunc d' = v.
Proof.
  intros v [n m s] Hv E [Hm Hs]. cbn [d_mant d_scale] in *.
  unfold dec_eq, dec_cmp in E.
  destruct (d_smant (dec_of_Z v) * 10 ^ d_scale (mkdec n m s) ?= d_smant (mkdec n m s) * 10 ^ d_scale (dec_of_Z v)) eqn:C;
    try discriminate E.
  apply Z.compare_eq in C. unfold d_smant, dec_of_Z in C. cbn [d_neg d_mant d_scale] in C.
  rewrite Z.pow_0_r, Z.mul_1_r in C.
  assert (P : 0 < 10 ^ s) by (apply Z.pow_pos_nonneg; lia).
  destruct (Z.ltb_spec v 0) as [N|N]; [lia|]. rewrite Z.abs_eq in C by lia.
  destruct n.
  - exfalso. nia.
  - unfold dec_fract_is_zero, dec_trunc. cbn [d_neg d_mant d_scale]. rewrite <- C.
    rewrite Z.mod_mul by lia. rewrite Z.div_mul by lia. split; [apply Z.eqb_refl | reflexivity].
Qed.

Lemma dbu_allowed_pos : forall v, dbu_allowed v = true -> 0 < v.
Proof.
  intros v H. unfold dbu_allowed in H. cbn [existsb] in H.
  repeat (apply orb_prop in H; destruct H as [H|H]; [apply Z.eqb_eq in H; lia|]). discriminate H.
Qed.

Lemma dbu_try_new_ok : forall v d', dbu_allowed v = true -> dec_eq (dec_of_Z v) d' = true -> dec_wf d' ->
  dbu_try_new cfg_fixed d' = Ok v.
Proof.
  intros v d' Al E Wf. destruct (dbu_arith v d' (dbu_allowed_pos v Al) E Wf) as [Fz Tr].
  unfold dbu_try_new. rewrite Fz. cbn [negb c_dbu_mantissa cfg_fixed]. rewrite Tr, Al. reflexivity.
Qed.

Section SiteUnits.
Variable src : bytes.
Hypothesis Hsrc : starts_on_boundary src = true.
Notation cf := cfg_fixed.
Notation spec := (spec src).
Notation post := (post src).
Notation sees := (sees src).

Lemma su_post_lift_ok {A B} (r : res A) (a : A) (k : A -> P B) rest v (Q : B -> Prop) st :
  r = Ok a -> post rest v Q (k a st) -> post rest v Q (bind (lift r) k st).
Proof. intros ->. exact (fun x => x). Qed.

(** * SITE *)
Inductive sstmt := SsClass (c : LefSiteClass) | SsSymm (l : list LefSymmetry) | SsSize (sz : dec * dec).
Definition ss_kind (s : sstmt) : nat := match s with SsClass _ => 0 | SsSymm _ => 1 | SsSize _ => 2 end.
Definition ss_toks (s : sstmt) : list stok :=
  match s with
  | SsClass c => [K "CLASS"; K (s_site_class c); SSemi]
  | SsSymm l => t_symmetry l
  | SsSize sz => t_size sz
  end.
Definition ss_eqb (s s' : sstmt) : bool :=
  match s, s' with
  | SsClass c, SsClass c' => LefSiteClass_eqb c c'
  | SsSymm l, SsSymm l' => list_eqb LefSymmetry_eqb l l'
  | SsSize z, SsSize z' => pair_eqb dec_eq dec_eq z z'
  | _, _ => false
  end.
Definition sstate : Type := option LefSiteClass * option (dec * dec) * option (list LefSymmetry).
Definition ss_apply (s : sstmt) (t : sstate) : sstate :=
  match s, t with
  | SsClass e, (c, z, y) => (Some e, z, y)
  | SsSymm l, (c, z, y) => (c, z, Some l)
  | SsSize s0, (c, z, y) => (c, Some s0, y)
  end.
Definition sstep (s : sstmt) (t t' : sstate) : Prop := exists s', ss_eqb s s' = true /\ t' = ss_apply s' t.

Lemma site_loop_ok : forall L aL, Forall2 (fun x ax => Forall2 arel (ss_toks x) ax) L aL ->
  forall name aE aN, arel (SKw "END") aE -> arel (SName name) aN -> forall f c z y,
  spec (site_loop cf src f name c z y) (concat aL ++ [aE; aN])
       (fun rest => (List.length (concat aL) + 2 + List.length rest < f)%nat)
       (fun r => steps sstep L (c, z, y) r).
Proof.
  induction L as [|x L IH]; intros aL FL name aE aN AE AN f c z y st rest Lf Hs.
  - inversion FL; subst. cbn [concat app] in *. destruct f as [|f]; [lia|]. cbn [site_loop].
    pstep. cbv iota. pstep. unfold expect_ident. pstep. pstep. rewrite bytes_eqb_refl. pstep. pret. reflexivity.
  - inversion FL as [|x' ax L' aL' Fx FL']; subst. cbn [concat] in *. do 2 rewrite <- (app_assoc ax) in Hs.
    destruct f as [|f]; [lia|]. cbn [site_loop]. rewrite app_length in Lf.
    destruct x as [e|l|sz]; cbn [ss_toks] in Fx.
    + (* CLASS e ; *)
      destruct e; unfold K in Fx; cbn [s_site_class] in Fx; inv_arel; cbn [app List.length] in *; pstep; cbv iota;
        (match goal with Hx : sees ?s (?x0 :: ?x1 :: ?x2 :: _), B1 : arel (SKw ?kw) ?x1, B2 : arel SSemi ?x2
                         |- LefRtFrame_proofs.post _ _ _ _ (bind _ _ ?s) =>
           pb (enum_stmt_ok src LefSiteClass_from_str x0 kw _ x1 x2 B1 ltac:(vm_compute; reflexivity) B2) end);
        (eapply post_weaken; [|eapply post_spec; [eapply (IH aL' FL' name aE aN AE AN f) | cbv beta; lia | eassumption | congruence]]);
        cbv beta; intros r St; cbn [steps]; eexists; (split; [|exact St]); eexists (SsClass _); (split; [|reflexivity]); reflexivity.
    + (* SYMMETRY .. ; *)
      pose proof Fx as Fx'. unfold t_symmetry, K in Fx'. cbn [app] in Fx'.
      apply LefRt_Forall2_cons_inv in Fx'. destruct Fx' as (a & at' & -> & A & _). cbn [app] in Hs. cbn [List.length] in Lf.
      pstep. cbv iota. pb (parse_symmetries_ok src l (a :: at') Fx).
      eapply post_weaken; [|eapply post_spec; [eapply (IH aL' FL' name aE aN AE AN f) | cbv beta; lia | eassumption | congruence]].
      cbv beta. intros r St. cbn [steps]. eexists. split; [|exact St]. eexists (SsSymm _). split; [|reflexivity]. assumption.
    + (* SIZE w BY h ; *)
      pose proof Fx as Fx'. unfold t_size, K in Fx'.
      apply LefRt_Forall2_cons_inv in Fx'. destruct Fx' as (a & at' & -> & A & _). cbn [app] in Hs. cbn [List.length] in Lf.
      pstep. cbv iota. pb (parse_size_ok src sz (a :: at') Fx).
      eapply post_weaken; [|eapply post_spec; [eapply (IH aL' FL' name aE aN AE AN f) | cbv beta; lia | eassumption | congruence]].
      cbv beta. intros r St. cbn [steps]. eexists. split; [|exact St]. eexists (SsSize _). split; [|reflexivity]. assumption.
Qed.

Lemma ss_eqb_kind : forall s s', ss_eqb s s' = true -> ss_kind s' = ss_kind s.
Proof. intros s s' H. destruct s, s'; try discriminate H; reflexivity. Qed.
Lemma ss_apply_comm : forall x y t, ss_kind x <> ss_kind y -> ss_apply y (ss_apply x t) = ss_apply x (ss_apply y t).
Proof. intros x y [[c z] sy] NK. destruct x, y; cbn [ss_kind] in NK; try congruence; reflexivity. Qed.
Lemma sstep_comm : forall x y s s2, ss_kind x <> ss_kind y ->
  (exists s1, sstep x s s1 /\ sstep y s1 s2) -> exists s1, sstep y s s1 /\ sstep x s1 s2.
Proof.
  intros x y s s2 NK (s1 & (x' & Ex & ->) & (y' & Ey & ->)).
  exists (ss_apply y' s). split; [exists y'; split; [exact Ey | reflexivity]|].
  exists x'. split; [exact Ex|]. apply ss_apply_comm. rewrite (ss_eqb_kind _ _ Ex), (ss_eqb_kind _ _ Ey). exact NK.
Qed.

Definition site_canon (s : lef_site) : list sstmt :=
  [SsClass (site_class s)] ++ su_opt_list SsSymm (site_symmetry s) ++ [SsSize (site_size s)].

(** the token sequences of a SITE definition, in general form: CLASS, SYMMETRY and SIZE in any order *)
Definition site_toksP (s : lef_site) (atoks : list atok) : Prop :=
  exists L, (forall k, filter (fun x => Nat.eqb (ss_kind x) k) L = filter (fun x => Nat.eqb (ss_kind x) k) (site_canon s))
            /\ Forall2 arel ([K "SITE"; SName (site_name s)] ++ flat_map ss_toks L ++ [K "END"; SName (site_name s)]) atoks.

Lemma site_toksP_head : forall s atoks, site_toksP s atoks -> exists a0 at', atoks = a0 :: at' /\ arel (SKw "SITE") a0.
Proof.
  intros s atoks (L & _ & F). unfold K in F. cbn [app] in F. apply LefRt_Forall2_cons_inv in F.
  destruct F as (a0 & at' & -> & A & _). eauto.
Qed.

Lemma parse_site_P : forall s atoks, site_toksP s atoks ->
  spec (parse_site_def cf src) atoks Any (fun s' => lef_site_eqb dec_eq s s' = true).
Proof.
  intros s atoks (L & HF & F) st rest _ Hs. unfold K in F. cbn [app] in F.
  apply LefRt_Forall2_cons_inv in F. destruct F as (a1 & at1 & -> & A1 & F).
  apply LefRt_Forall2_cons_inv in F. destruct F as (a2 & at2 & -> & A2 & F).
  apply Forall2_app_inv_l in F. destruct F as (at_b & at_e & Fb & Fe & ->). inv_arel.
  destruct (Forall2_flat_map_inv ss_toks L at_b Fb) as (aL & -> & FL).
  cbn [app] in Hs. unfold parse_site_def. pstep. pstep. pstep. pstep.
  lazymatch goal with |- LefRtFrame_proofs.post _ _ _ _ (bind (site_loop _ _ (fuel_of ?s0) ?n ?c ?z ?y) _ ?s') =>
    match goal with B1 : arel (SKw "END") ?x1, B2 : arel (SName n) ?x2, Hx : sees s' ((_ ++ [?x1; ?x2]) ++ _) |- _ =>
      pb (site_loop_ok L aL FL n x1 x2 B1 B2 (fuel_of s0) c z y) end end.
  { match goal with Hx : sees ?s0 _ |- context [fuel_of ?s0] => rewrite (fuel_of_sees src _ _ Hx) end.
    repeat rewrite app_length. cbn [List.length]. lia. }
  match goal with q : steps sstep L _ _ |- _ => rename q into St end.
  apply (steps_perm ss_kind sstep sstep_comm (site_canon s) L HF) in St.
  unfold site_canon in St. cbn [app steps] in St. destruct St as (t1 & (s1 & E1 & ->) & St).
  destruct s1 as [c'| |]; try discriminate E1. cbn [ss_eqb ss_apply] in *.
  apply steps_app in St. destruct St as (t2 & St2 & St3). cbn [steps] in St3.
  destruct St3 as (t3 & (s3 & E3 & ->) & <-). destruct s3 as [| |z']; try discriminate E3. cbn [ss_eqb] in E3.
  assert (R : exists y', option_eqb (list_eqb LefSymmetry_eqb) (site_symmetry s) y' = true /\ t2 = (Some c', None, y')).
  { destruct (site_symmetry s) as [l|]; cbn [su_opt_list steps] in St2.
    - destruct St2 as (? & (s' & E & ->) & <-). destruct s' as [|l'|]; try discriminate E. exists (Some l'). split; [exact E | reflexivity].
    - subst t2. exists None. split; reflexivity. }
  destruct R as (y' & Ey & ->). cbn [ss_apply]. cbv beta iota. pstep. cbv iota. pret.
  unfold lef_site_eqb. cbn [site_name site_class site_size site_symmetry].
  rewrite bytes_eqb_refl, E1, E3, Ey. reflexivity.
Qed.

Lemma site_toksP_spec : forall sty off s atoks, site_ok s = true ->
  Forall2 arel (t_site sty off s) atoks -> site_toksP s atoks.
Proof.
  intros sty off s atoks _ F.
  set (L := interleave (sty_keys sty) off (map (fun x => (ss_kind x, x)) (site_canon s))).
  exists L. split; [intros k; apply interleave_kind_stable|].
  unfold t_site in F.
  match type of F with context [List.concat (interleave ?k ?o ?it)] =>
    assert (E : List.concat (interleave k o it) = flat_map ss_toks L) end.
  { unfold L. rewrite <- concat_map_flat_map, <- interleave_map. f_equal. f_equal. unfold site_canon.
    destruct (site_symmetry s); reflexivity. }
  rewrite E in F. exact F.
Qed.

(** * UNITS *)
Inductive ukind := UTime | UCap | URes | UPower | UCurrent | UVolt | UFreq.
Definition uk_num (k : ukind) : nat :=
  match k with UTime => 0 | UCap => 1 | URes => 2 | UPower => 3 | UCurrent => 4 | UVolt => 5 | UFreq => 7 end.
Definition uk_kw1 (k : ukind) : string :=
  match k with UTime => "TIME" | UCap => "CAPACITANCE" | URes => "RESISTANCE" | UPower => "POWER"
  | UCurrent => "CURRENT" | UVolt => "VOLTAGE" | UFreq => "FREQUENCY" end.
Definition uk_kw2 (k : ukind) : string :=
  match k with UTime => "NANOSECONDS" | UCap => "PICOFARADS" | URes => "OHMS" | UPower => "MILLIWATTS"
  | UCurrent => "MILLIAMPS" | UVolt => "VOLTS" | UFreq => "MEGAHERTZ" end.
Definition uk_set (k : ukind) : option dec -> lef_units -> lef_units :=
  match k with UTime => set_u_time_ns | UCap => set_u_capacitance_pf | URes => set_u_resistance_ohms
  | UPower => set_u_power_mw | UCurrent => set_u_current_ma | UVolt => set_u_voltage_volts | UFreq => set_u_frequency_mhz end.

Inductive ustmt := UsDb (v : Z) | UsNum (k : ukind) (d : dec).
Definition us_kind (s : ustmt) : nat := match s with UsDb _ => 6 | UsNum k _ => uk_num k end.
Definition us_toks (s : ustmt) : list stok :=
  match s with
  | UsDb v => [K "DATABASE"; K "MICRONS"; SNum (dec_of_Z v); SSemi]
  | UsNum k d => [K (uk_kw1 k); K (uk_kw2 k); SNum d; SSemi]
  end.
Definition us_ok (s : ustmt) : bool := match s with UsDb v => dbu_allowed v | UsNum _ _ => true end.
Definition us_eqb (s s' : ustmt) : bool :=
  match s, s' with
  | UsDb v, UsDb v' => Z.eqb v v'
  | UsNum k d, UsNum k' d' => Nat.eqb (uk_num k) (uk_num k') && dec_eq d d'
  | _, _ => false
  end.
Definition us_apply (s : ustmt) (u : lef_units) : lef_units :=
  match s with UsDb v => set_u_database_microns (Some v) u | UsNum k d => uk_set k (Some d) u end.
Definition ustep (s : ustmt) (u u' : lef_units) : Prop := exists s', us_eqb s s' = true /\ u' = us_apply s' u.

Lemma unit_stmt_ok : forall key s a1 a2 a3 d, arel (SKw s) a1 -> LefKey_from_str (bytes_of_string s) = Some key ->
  arel (SNum d) a2 -> arel SSemi a3 ->
  spec (unit_stmt cf src key) [a1; a2; a3] Any (fun d' => dec_eq d d' = true /\ dec_wf d').
Proof.
  intros key s a1 a2 a3 d A1 Kf A2 A3 st rest _ Hs. cbn [app] in Hs. unfold unit_stmt.
  pb (kw_expect_key src s a1 key A1 Kf). pstep. pstep. pret. assumption.
Qed.

Lemma units_loop_ok : forall L aL, Forall2 (sfacts us_toks us_ok) L aL ->
  forall aE aU, arel (SKw "END") aE -> arel (SKw "UNITS") aU -> forall f u,
  spec (units_loop cf src f u) (concat aL ++ [aE; aU])
       (fun rest => (List.length (concat aL) + 2 + List.length rest < f)%nat)
       (fun u' => steps ustep L u u').
Proof.
  induction L as [|x L IH]; intros aL FL aE aU AE AU f u st rest Lf Hs.
  - inversion FL; subst. cbn [concat app] in *. destruct f as [|f]; [lia|]. cbn [units_loop].
    pstep. cbv iota. pstep. pret. reflexivity.
  - inversion FL as [|x' ax L' aL' [Fx Ox] FL']; subst. cbn [concat] in *. do 2 rewrite <- (app_assoc ax) in Hs.
    destruct f as [|f]; [lia|]. cbn [units_loop]. rewrite app_length in Lf.
    destruct x as [v|k d]; cbn [us_toks us_ok] in *.
    + (* DATABASE MICRONS v ; *)
      unfold K in Fx. inv_arel. cbn [app List.length] in *. pstep. cbv iota.
      match goal with Hx : sees ?s (?x1 :: ?x2 :: ?x3 :: _), B1 : arel (SKw ?kw) ?x1, B2 : arel (SNum ?dd) ?x2, B3 : arel SSemi ?x3
                      |- LefRtFrame_proofs.post _ _ _ _ (bind _ _ ?s) =>
        pb (unit_stmt_ok _ kw x1 x2 x3 dd B1 ltac:(vm_compute; reflexivity) B2 B3) end.
      match goal with q : dec_eq (dec_of_Z v) ?d' = true /\ dec_wf ?d' |- _ =>
        eapply su_post_lift_ok; [exact (dbu_try_new_ok v d' Ox (proj1 q) (proj2 q))|] end.
      eapply post_weaken; [|eapply post_spec; [eapply (IH aL' FL' aE aU AE AU f) | cbv beta; lia | eassumption | congruence]].
      cbv beta. intros u' St. cbn [steps]. eexists. split; [|exact St]. exists (UsDb v). split; [|reflexivity].
      cbn [us_eqb]. apply Z.eqb_refl.
    + (* <QUANTITY> <UNIT> d ; *)
      destruct k; unfold K, uk_kw1, uk_kw2 in Fx; inv_arel; cbn [app List.length] in *; pstep; cbv iota;
        (match goal with Hx : sees ?s (?x1 :: ?x2 :: ?x3 :: _), B1 : arel (SKw ?kw) ?x1, B2 : arel (SNum ?dd) ?x2, B3 : arel SSemi ?x3
                         |- LefRtFrame_proofs.post _ _ _ _ (bind _ _ ?s) =>
           pb (unit_stmt_ok _ kw x1 x2 x3 dd B1 ltac:(vm_compute; reflexivity) B2 B3) end);
        (eapply post_weaken; [|eapply post_spec; [eapply (IH aL' FL' aE aU AE AU f) | cbv beta; lia | eassumption | congruence]]);
        cbv beta; intros u' St; cbn [steps]; eexists; (split; [|exact St]);
        [ eexists (UsNum UTime _) | eexists (UsNum UCap _) | eexists (UsNum URes _) | eexists (UsNum UPower _)
        | eexists (UsNum UCurrent _) | eexists (UsNum UVolt _) | eexists (UsNum UFreq _) ];
        (split; [|reflexivity]); cbn [us_eqb uk_num Nat.eqb andb]; tauto.
Qed.

Lemma uk_num_inj : forall k k', Nat.eqb (uk_num k) (uk_num k') = true -> k = k'.
Proof. intros k k' H. destruct k, k'; try discriminate H; reflexivity. Qed.
Lemma us_eqb_kind : forall s s', us_eqb s s' = true -> us_kind s' = us_kind s.
Proof.
  intros s s' H. destruct s as [v|k d], s' as [v'|k' d']; try discriminate H; [reflexivity|].
  cbn [us_eqb] in H. apply andb_prop in H. destruct H as [H _]. rewrite (uk_num_inj _ _ H). reflexivity.
Qed.
Lemma us_apply_comm : forall x y u, us_kind x <> us_kind y -> us_apply y (us_apply x u) = us_apply x (us_apply y u).
Proof.
  intros x y u NK. destruct x as [v|k d], y as [v'|k' d']; cbn [us_kind] in NK; try congruence;
    try destruct k; try destruct k'; cbn [uk_num] in NK; try congruence; reflexivity.
Qed.
Lemma ustep_comm : forall x y s s2, us_kind x <> us_kind y ->
  (exists s1, ustep x s s1 /\ ustep y s1 s2) -> exists s1, ustep y s s1 /\ ustep x s1 s2.
Proof.
  intros x y s s2 NK (s1 & (x' & Ex & ->) & (y' & Ey & ->)).
  exists (us_apply y' s). split; [exists y'; split; [exact Ey | reflexivity]|].
  exists x'. split; [exact Ex|]. apply us_apply_comm. rewrite (us_eqb_kind _ _ Ex), (us_eqb_kind _ _ Ey). exact NK.
Qed.

Definition units_canon (u : lef_units) : list ustmt :=
  su_opt_list (UsNum UTime) (u_time_ns u) ++ su_opt_list (UsNum UCap) (u_capacitance_pf u)
  ++ su_opt_list (UsNum URes) (u_resistance_ohms u) ++ su_opt_list (UsNum UPower) (u_power_mw u)
  ++ su_opt_list (UsNum UCurrent) (u_current_ma u) ++ su_opt_list (UsNum UVolt) (u_voltage_volts u)
  ++ su_opt_list UsDb (u_database_microns u) ++ su_opt_list (UsNum UFreq) (u_frequency_mhz u).
Definition units_struct_ok (u : lef_units) : bool := optb dbu_allowed (u_database_microns u).

Lemma steps_unum : forall k o a b, steps ustep (su_opt_list (UsNum k) o) a b ->
  exists o', option_eqb dec_eq o o' = true /\ b = match o' with Some d => uk_set k (Some d) a | None => a end.
Proof.
  intros k [d|] a b H; cbn [su_opt_list steps] in H.
  - destruct H as (? & (s' & E & ->) & <-). destruct s' as [v|k' d']; [discriminate E|]. cbn [us_eqb] in E.
    apply andb_prop in E. destruct E as [E1 E2]. rewrite <- (uk_num_inj _ _ E1). exists (Some d'). split; [exact E2 | reflexivity].
  - subst b. exists None. split; reflexivity.
Qed.
Lemma steps_udb : forall o a b, steps ustep (su_opt_list UsDb o) a b ->
  exists o', option_eqb Z.eqb o o' = true /\ b = match o' with Some v => set_u_database_microns (Some v) a | None => a end.
Proof.
  intros [d|] a b H; cbn [su_opt_list steps] in H.
  - destruct H as (? & (s' & E & ->) & <-). destruct s' as [v|k' d']; [|discriminate E]. cbn [us_eqb] in E.
    exists (Some v). split; [exact E | reflexivity].
  - subst b. exists None. split; reflexivity.
Qed.

Lemma units_canon_run : forall u u', steps ustep (units_canon u) (Build_lef_units None None None None None None None None) u' ->
  lef_units_eqb dec_eq u u' = true.
Proof.
  intros u u' St. unfold units_canon in St.
  apply steps_app in St. destruct St as (u1 & S1 & St). apply steps_unum in S1. destruct S1 as (o1 & E1 & X1).
  assert (Y1 : u1 = Build_lef_units None o1 None None None None None None) by (destruct o1; exact X1). clear X1. subst u1.
  apply steps_app in St. destruct St as (u2 & S2 & St). apply steps_unum in S2. destruct S2 as (o2 & E2 & X2).
  assert (Y2 : u2 = Build_lef_units None o1 o2 None None None None None) by (destruct o2; exact X2). clear X2. subst u2.
  apply steps_app in St. destruct St as (u3 & S3 & St). apply steps_unum in S3. destruct S3 as (o3 & E3 & X3).
  assert (Y3 : u3 = Build_lef_units None o1 o2 o3 None None None None) by (destruct o3; exact X3). clear X3. subst u3.
  apply steps_app in St. destruct St as (u4 & S4 & St). apply steps_unum in S4. destruct S4 as (o4 & E4 & X4).
  assert (Y4 : u4 = Build_lef_units None o1 o2 o3 o4 None None None) by (destruct o4; exact X4). clear X4. subst u4.
  apply steps_app in St. destruct St as (u5 & S5 & St). apply steps_unum in S5. destruct S5 as (o5 & E5 & X5).
  assert (Y5 : u5 = Build_lef_units None o1 o2 o3 o4 o5 None None) by (destruct o5; exact X5). clear X5. subst u5.
  apply steps_app in St. destruct St as (u6 & S6 & St). apply steps_unum in S6. destruct S6 as (o6 & E6 & X6).
  assert (Y6 : u6 = Build_lef_units None o1 o2 o3 o4 o5 o6 None) by (destruct o6; exact X6). clear X6. subst u6.
  apply steps_app in St. destruct St as (u7 & S7 & S8). apply steps_udb in S7. destruct S7 as (o7 & E7 & X7).
  assert (Y7 : u7 = Build_lef_units o7 o1 o2 o3 o4 o5 o6 None) by (destruct o7; exact X7). clear X7. subst u7.
  apply steps_unum in S8. destruct S8 as (o8 & E8 & X8).
  assert (Y8 : u' = Build_lef_units o7 o1 o2 o3 o4 o5 o6 o8) by (destruct o8; exact X8). clear X8. subst u'.
  unfold lef_units_eqb.
  cbn [u_database_microns u_time_ns u_capacitance_pf u_resistance_ohms u_power_mw u_current_ma u_voltage_volts u_frequency_mhz].
  rewrite E1, E2, E3, E4, E5, E6, E7, E8. reflexivity.
Qed.

(** the token sequences of a UNITS block, in general form: the statements in any order; the DATABASE MICRONS value is one
    of the values `LefDbuPerMicron::try_new` accepts *)
Definition units_toksP (u : lef_units) (atoks : list atok) : Prop :=
  units_struct_ok u = true /\
  exists L, (forall k, filter (fun x => Nat.eqb (us_kind x) k) L = filter (fun x => Nat.eqb (us_kind x) k) (units_canon u))
            /\ Forall2 arel ([K "UNITS"] ++ flat_map us_toks L ++ [K "END"; K "UNITS"]) atoks.

Lemma units_toksP_head : forall u atoks, units_toksP u atoks -> exists a0 at', atoks = a0 :: at' /\ arel (SKw "UNITS") a0.
Proof.
  intros u atoks (_ & L & _ & F). unfold K in F. cbn [app] in F. apply LefRt_Forall2_cons_inv in F.
  destruct F as (a0 & at' & -> & A & _). eauto.
Qed.

Lemma parse_units_P : forall u atoks, units_toksP u atoks ->
  spec (parse_units cf src) atoks Any (fun u' => lef_units_eqb dec_eq u u' = true).
Proof.
  intros u atoks (SO & L & HF & F) st rest _ Hs.
  assert (OKL : Forall (fun x => us_ok x = true) L).
  { apply (filter_kinds_forall us_kind _ L (units_canon u) HF). unfold units_canon, units_struct_ok in *.
    repeat rewrite Forall_app. repeat split;
      match goal with |- Forall _ (su_opt_list _ ?o) => destruct o; repeat constructor end. exact SO. }
  unfold K in F. cbn [app] in F.
  apply LefRt_Forall2_cons_inv in F. destruct F as (a1 & at1 & -> & A1 & F).
  apply Forall2_app_inv_l in F. destruct F as (at_b & at_e & Fb & Fe & ->). inv_arel.
  destruct (Forall2_flat_map_inv us_toks L at_b Fb) as (aL & -> & FL).
  pose proof (Forall2_sfacts us_toks us_ok L aL FL OKL) as FS.
  cbn [app] in Hs. unfold parse_units. pstep. pstep. pstep.
  lazymatch goal with |- LefRtFrame_proofs.post _ _ _ _ (bind (units_loop _ _ (fuel_of ?s0) ?u0) _ ?s') =>
    match goal with B1 : arel (SKw "END") ?x1, B2 : arel (SKw "UNITS") ?x2, Hx : sees s' ((_ ++ [?x1; ?x2]) ++ _) |- _ =>
      pb (units_loop_ok L aL FS x1 x2 B1 B2 (fuel_of s0) u0) end end.
  { match goal with Hx : sees ?s0 _ |- context [fuel_of ?s0] => rewrite (fuel_of_sees src _ _ Hx) end.
    repeat rewrite app_length. cbn [List.length]. lia. }
  match goal with q : steps ustep L _ _ |- _ => rename q into St end.
  apply (steps_perm us_kind ustep ustep_comm (units_canon u) L HF) in St.
  pstep. pret. exact (units_canon_run u _ St).
Qed.

Lemma units_toksP_spec : forall sty off u atoks, units_ok u = true ->
  Forall2 arel (t_units sty off u) atoks -> units_toksP u atoks.
Proof.
  intros sty off u atoks OK F. split.
  { unfold units_ok in OK. apply andb_prop in OK. exact (proj1 OK). }
  set (L := interleave (sty_keys sty) off (map (fun x => (us_kind x, x)) (units_canon u))).
  exists L. split; [intros k; apply interleave_kind_stable|].
  unfold t_units in F.
  match type of F with context [List.concat (interleave ?k ?o ?it)] =>
    assert (E : List.concat (interleave k o it) = flat_map us_toks L) end.
  { unfold L. rewrite <- concat_map_flat_map, <- interleave_map. f_equal. f_equal. unfold units_canon.
    destruct (u_time_ns u), (u_capacitance_pf u), (u_resistance_ohms u), (u_power_mw u), (u_current_ma u),
             (u_voltage_volts u), (u_database_microns u), (u_frequency_mhz u); reflexivity. }
  rewrite E in F. exact F.
Qed.
End SiteUnits.

Print Assumptions dbu_arith.
Print Assumptions parse_site_P.
Print Assumptions site_toksP_spec.
Print Assumptions parse_units_P.
Print Assumptions units_toksP_spec.
