(** C05, reader-image side: the IMAGE of the lexer.

    [lex_image]: every significant token the repaired lexer (byte positions) returns on a well-formed UTF-8
    source has a byte slice of the source that is lexically well formed ([tok_lex_ok]), except that the LAST
    token may be an unterminated string literal ([ustr]): it then runs to the end of the input. *)
From Coq Require Import String.
From Coq Require Import ZArith List Bool Lia.
From L21 Require Import Lef.LefDec Lef.LefData Lef.LefLex Lef.LefParse Lef.LefSpec Lef.LefLex_proofs Lef.LefRtLex_proofs
                        Lef.LefRtFrame_proofs Lef.LefWFrame_proofs Lef.LefIFrame_proofs.
Import ListNotations.
Local Open Scope list_scope.
Local Open Scope Z_scope.

(** * Well-formed texts *)
Lemma ILex_U8_sb : forall s, U8 s -> starts_on_boundary s = true.
Proof. intros [|b s] U; [reflexivity|]. cbn [starts_on_boundary]. rewrite (U8_head_not_cont _ _ U). reflexivity. Qed.

(** an ASCII character at the head of a well-formed text is one byte *)
Lemma ILex_ascii_head : forall b s, U8 (b :: s) -> cp_at (b :: s) < 128 ->
  cp_at (b :: s) = b /\ 0 <= b < 128 /\ U8 s.
Proof.
  intros b s U L. destruct (Z_lt_dec b 128) as [Lb|Gb].
  - inversion U; subst; try lia. split; [|split; assumption].
    cbn [cp_at]. replace (b <? 128) with true by (symmetry; apply Z.ltb_lt; lia). reflexivity.
  - pose proof (U8_multibyte_ge b s U ltac:(lia)). lia.
Qed.

(** * One step of [accept_while] *)
Lemma ILex_aw_cons : forall p b r pos,
  accept_while false p (b :: r) pos =
  if is_cont b then accept_while false p r (pos + 1)
  else if p (cp_at (b :: r)) then accept_while false p r (pos + 1) else (b :: r, pos).
Proof. reflexivity. Qed.
Lemma ILex_aw_cont : forall p b r pos, is_cont b = true ->
  accept_while false p (b :: r) pos = accept_while false p r (pos + 1).
Proof. intros. rewrite ILex_aw_cons, H. reflexivity. Qed.

(** converse of [accept_while_U8]: what the scan consumed and where it stopped *)
Lemma ILex_accept_while_inv : forall p s, U8 s -> forall pos r p',
  accept_while false p s pos = (r, p') ->
  exists x, s = x ++ r /\ U8 x /\ U8 r /\ all_chars p x = true /\ p' = pos + Z.of_nat (length x)
            /\ (r = [] \/ p (cp_at r) = false).
Proof.
  intros p s U. induction U as [|b r B U IH|b0 b1 r B0 C1 U IH|b0 b1 b2 r B0 C1 C2 X1 X2 U IH
                               |b0 b1 b2 b3 r B0 C1 C2 C3 X1 X2 U IH]; intros pos r' p' H.
  - cbn [accept_while] in H. injection H as <- <-. exists [].
    split; [reflexivity|]. split; [constructor|]. split; [constructor|]. split; [reflexivity|].
    split; [cbn [length]; lia | left; reflexivity].
  - rewrite ILex_aw_cons, (not_cont_lt b) in H by lia.
    destruct (p (cp_at (b :: r))) eqn:Pc.
    + destruct (IH _ _ _ H) as (x & -> & Ux & Ur & A & -> & St).
      exists (b :: x). split; [reflexivity|]. split; [apply U8_1; assumption|]. split; [assumption|].
      split; [|split; [cbn [length]; lia | assumption]].
      cbn [all_chars]. rewrite (not_cont_lt b) by lia.
      assert (E : cp_at (b :: x) = cp_at (b :: x ++ r')) by cp_at_dec b.
      rewrite E, Pc, A. reflexivity.
    + injection H as <- <-. exists [].
      split; [reflexivity|]. split; [constructor|]. split; [apply U8_1; assumption|]. split; [reflexivity|].
      split; [cbn [length]; lia | right; assumption].
  - rewrite ILex_aw_cons, (not_cont_ge b0) in H by lia.
    destruct (p (cp_at (b0 :: b1 :: r))) eqn:Pc.
    + rewrite (ILex_aw_cont _ _ _ _ C1) in H.
      destruct (IH _ _ _ H) as (x & -> & Ux & Ur & A & -> & St).
      exists (b0 :: b1 :: x). split; [reflexivity|]. split; [apply U8_2; assumption|]. split; [assumption|].
      split; [|split; [cbn [length]; lia | assumption]].
      cbn [all_chars]. rewrite (not_cont_ge b0) by lia. rewrite C1.
      assert (E : cp_at (b0 :: b1 :: x) = cp_at (b0 :: b1 :: x ++ r')) by cp_at_dec b0.
      rewrite E, Pc, A. reflexivity.
    + injection H as <- <-. exists [].
      split; [reflexivity|]. split; [constructor|]. split; [apply U8_2; assumption|]. split; [reflexivity|].
      split; [cbn [length]; lia | right; assumption].
  - rewrite ILex_aw_cons, (not_cont_ge b0) in H by lia.
    destruct (p (cp_at (b0 :: b1 :: b2 :: r))) eqn:Pc.
    + rewrite (ILex_aw_cont _ _ _ _ C1), (ILex_aw_cont _ _ _ _ C2) in H.
      destruct (IH _ _ _ H) as (x & -> & Ux & Ur & A & -> & St).
      exists (b0 :: b1 :: b2 :: x). split; [reflexivity|]. split; [apply U8_3; assumption|]. split; [assumption|].
      split; [|split; [cbn [length]; lia | assumption]].
      cbn [all_chars]. rewrite (not_cont_ge b0) by lia. rewrite C1, C2.
      assert (E : cp_at (b0 :: b1 :: b2 :: x) = cp_at (b0 :: b1 :: b2 :: x ++ r')) by cp_at_dec b0.
      rewrite E, Pc, A. reflexivity.
    + injection H as <- <-. exists [].
      split; [reflexivity|]. split; [constructor|]. split; [apply U8_3; assumption|]. split; [reflexivity|].
      split; [cbn [length]; lia | right; assumption].
  - rewrite ILex_aw_cons, (not_cont_ge b0) in H by lia.
    destruct (p (cp_at (b0 :: b1 :: b2 :: b3 :: r))) eqn:Pc.
    + rewrite (ILex_aw_cont _ _ _ _ C1), (ILex_aw_cont _ _ _ _ C2), (ILex_aw_cont _ _ _ _ C3) in H.
      destruct (IH _ _ _ H) as (x & -> & Ux & Ur & A & -> & St).
      exists (b0 :: b1 :: b2 :: b3 :: x). split; [reflexivity|]. split; [apply U8_4; assumption|]. split; [assumption|].
      split; [|split; [cbn [length]; lia | assumption]].
      cbn [all_chars]. rewrite (not_cont_ge b0) by lia. rewrite C1, C2, C3.
      assert (E : cp_at (b0 :: b1 :: b2 :: b3 :: x) = cp_at (b0 :: b1 :: b2 :: b3 :: x ++ r')) by cp_at_dec b0.
      rewrite E, Pc, A. reflexivity.
    + injection H as <- <-. exists [].
      split; [reflexivity|]. split; [constructor|]. split; [apply U8_4; assumption|]. split; [reflexivity|].
      split; [cbn [length]; lia | right; assumption].
Qed.

(** a scan that starts on a character satisfying the predicate consumes it *)
Lemma ILex_accept_while_ne : forall p b s, U8 (b :: s) -> p (cp_at (b :: s)) = true -> forall pos r p',
  accept_while false p (b :: s) pos = (r, p') ->
  exists x, s = x ++ r /\ U8 (b :: x) /\ U8 r /\ all_chars p (b :: x) = true
            /\ p' = pos + Z.of_nat (length (b :: x)) /\ (r = [] \/ p (cp_at r) = false).
Proof.
  intros p b s U Pc pos r p' H.
  destruct (ILex_accept_while_inv p _ U _ _ _ H) as (x & E & Ux & Ur & A & -> & St).
  destruct x as [|b' x].
  - cbn [app] in E. subst r. destruct St as [St|St]; [discriminate | congruence].
  - cbn [app] in E. injection E as <- ->. exists x. auto 10.
Qed.

(** no character equal to the ASCII character [c] => no byte equal to [c] *)
Lemma ILex_all_chars_ne_notin : forall c s, U8 s -> 0 <= c < 128 ->
  all_chars (fun k => negb (k =? c)) s = true -> ~ In c s.
Proof.
  intros c s U C. induction U as [|b r B U IH|b0 b1 r B0 C1 U IH|b0 b1 b2 r B0 C1 C2 X1 X2 U IH
                                 |b0 b1 b2 b3 r B0 C1 C2 C3 X1 X2 U IH]; intros A.
  - intros [].
  - cbn [all_chars] in A. rewrite (not_cont_lt b) in A by lia.
    apply andb_prop in A. destruct A as [A1 A2].
    assert (E : cp_at (b :: r) = b).
    { cbn [cp_at]. replace (b <? 128) with true by (symmetry; apply Z.ltb_lt; lia). reflexivity. }
    rewrite E in A1. apply negb_true_iff, Z.eqb_neq in A1.
    intros [I|I]; [congruence | exact (IH A2 I)].
  - cbn [all_chars] in A. rewrite (not_cont_ge b0) in A by lia. rewrite C1 in A.
    apply andb_prop in A. destruct A as [_ A2]. apply is_cont_range in C1.
    intros [I|[I|I]]; [lia | lia | exact (IH A2 I)].
  - cbn [all_chars] in A. rewrite (not_cont_ge b0) in A by lia. rewrite C1, C2 in A.
    apply andb_prop in A. destruct A as [_ A2]. apply is_cont_range in C1. apply is_cont_range in C2.
    intros [I|[I|[I|I]]]; [lia | lia | lia | exact (IH A2 I)].
  - cbn [all_chars] in A. rewrite (not_cont_ge b0) in A by lia. rewrite C1, C2, C3 in A.
    apply andb_prop in A. destruct A as [_ A2].
    apply is_cont_range in C1. apply is_cont_range in C2. apply is_cont_range in C3.
    intros [I|[I|[I|[I|I]]]]; [lia | lia | lia | lia | exact (IH A2 I)].
Qed.

(** * One token *)
Definition ILex_insig (ty : ttype) : Prop := ty = TNewLine \/ ty = TWhiteSpace \/ ty = TComment.

(** what [lex_one] returns on a well-formed text: the token text [x], and its lexical class *)
Lemma ILex_lex_one_image : forall rem pos line ls t r p l ls', U8 rem ->
  lex_one false rem pos line ls = L1Tok t r p l ls' ->
  exists x, rem = x ++ r /\ U8 r /\ t_start t = pos /\ t_stop t = pos + Z.of_nat (length x)
            /\ p = pos + Z.of_nat (length x)
            /\ (ILex_insig (t_ty t) \/ tok_lex_ok (t_ty t, x) \/ (t_ty t = TString /\ ustr x /\ r = [])).
Proof.
  intros rem pos line ls t r p l ls' U H.
  pose proof (lex_one_ok rem pos line ls) as OK. rewrite H in OK. cbn [lex1_ok] in OK.
  destruct OK as ((x & Ex & Ep) & Lt & S & Ts & Te).
  destruct (U8_split _ U _ _ Ex S) as [Ux Ur].
  exists x. split; [exact Ex|]. split; [exact Ur|]. split; [exact Ts|]. split; [congruence|]. split; [exact Ep|].
  assert (K : forall x', rem = x' ++ r -> x = x').
  { intros x' E'. rewrite Ex in E'. apply app_inv_tail in E'. exact E'. }
  clear Ex Ep Lt S Ts Te Ux.
  destruct rem as [|b s]; [discriminate|].
  unfold lex_one in H. set (c := cp_at (b :: s)) in *.
  destruct (next_char false (b :: s) pos) as [r1 p1] eqn:N.
  destruct (c =? 10). { injection H as <- <- <- <- <-. left. left. reflexivity. }
  destruct (is_whitespace c) eqn:W.
  { destruct (accept_while false _ r1 p1) as [r2 p2]. injection H as <- <- <- <- <-. left. right. left. reflexivity. }
  destruct (c =? 59) eqn:C59.
  { apply Z.eqb_eq in C59. destruct (ILex_ascii_head b s U ltac:(fold c; lia)) as (Eb & _ & Us).
    fold c in Eb. rewrite (next_char_head b s pos (ILex_U8_sb _ Us)) in N. injection N as <- <-.
    injection H as <- <- <- <- <-. right. left. cbn [t_ty].
    rewrite (K [b] eq_refl). replace b with 59 by congruence. constructor. }
  destruct (c =? 34) eqn:C34.
  { apply Z.eqb_eq in C34. destruct (ILex_ascii_head b s U ltac:(fold c; lia)) as (Eb & _ & Us).
    fold c in Eb. rewrite (next_char_head b s pos (ILex_U8_sb _ Us)) in N. injection N as <- <-.
    clearbody c. assert (Hb : b = 34) by congruence. clear Eb. subst b.
    destruct (accept_while false _ s (pos + 1)) as [r2 p2] eqn:A.
    destruct (ILex_accept_while_inv _ s Us _ _ _ A) as (body & Es & Ub & Ur2 & Ab & -> & St).
    pose proof (ILex_all_chars_ne_notin 34 body Ub ltac:(lia) Ab) as NI.
    destruct r2 as [|b2 r3].
    - cbn [next_char] in H. injection H as <- <- <- <- <-. right. right. cbn [t_ty].
      split; [reflexivity|]. split; [|reflexivity].
      rewrite (K (34 :: body) ltac:(rewrite Es; reflexivity)). exists body. auto.
    - destruct St as [St|St]; [discriminate|]. apply negb_false_iff, Z.eqb_eq in St.
      destruct (ILex_ascii_head b2 r3 Ur2 ltac:(lia)) as (Eb2 & _ & Ur3).
      assert (b2 = 34) by congruence. subst b2.
      rewrite (next_char_head 34 r3 _ (ILex_U8_sb _ Ur3)) in H. injection H as <- <- <- <- <-.
      right. left. cbn [t_ty].
      rewrite (K (34 :: body ++ [34])
                 ltac:(rewrite Es; cbn [app]; rewrite <- app_assoc; reflexivity)).
      constructor; assumption. }
  destruct (c =? 35).
  { destruct (accept_while false _ r1 p1) as [r2 p2]. injection H as <- <- <- <- <-. left. right. right. reflexivity. }
  assert (NW : not_ws c = true) by (unfold not_ws; rewrite W; reflexivity).
  destruct (is_digit10 c || (c =? 46) || (c =? 45)) eqn:ND.
  { assert (L : c < 128).
    { unfold is_digit10 in ND. repeat rewrite orb_true_iff in ND. rewrite andb_true_iff in ND.
      repeat rewrite Z.leb_le in ND. repeat rewrite Z.eqb_eq in ND. lia. }
    destruct (ILex_ascii_head b s U ltac:(fold c; lia)) as (Eb & _ & Us). fold c in Eb.
    unfold lex_number in H.
    destruct (accept_while false not_ws (b :: s) pos) as [r2 p2] eqn:A.
    destruct (ILex_accept_while_ne not_ws b s U NW _ _ _ A) as (y & -> & Uy & Ur2 & Ay & -> & St).
    replace (pos + Z.of_nat (length (b :: y)) - pos - 1) with (Z.of_nat (length y)) in H by (cbn [length]; lia).
    replace (0 <=? Z.of_nat (length y)) with true in H by (symmetry; apply Z.leb_le; lia).
    rewrite Nat2Z.id, take_app, (ILex_U8_sb _ Ur2) in H. injection H as <- <- <- <- <-.
    right. left. cbn [t_ty]. rewrite (K (b :: y) eq_refl).
    apply tlo_numlike; [exact Uy | rewrite no_space_all_chars; exact Ay|].
    unfold numstart. rewrite <- Eb. exact ND. }
  destruct (is_alphabetic c) eqn:AL; [|discriminate].
  { pose proof (next_char_accept not_ws b s pos (U8_head_not_cont _ _ U) NW) as NA. rewrite N in NA.
    destruct (accept_while false not_ws r1 p1) as [r2 p2] eqn:A. symmetry in NA.
    destruct (ILex_accept_while_ne not_ws b s U NW _ _ _ NA) as (y & -> & Uy & Ur2 & Ay & -> & St).
    injection H as <- <- <- <- <-.
    right. left. cbn [t_ty]. rewrite (K (b :: y) eq_refl).
    apply tlo_name; [exact Uy | discriminate | rewrite no_space_all_chars; exact Ay|].
    rewrite <- (U8_cp_at_app_ne (b :: y) r2 Uy ltac:(discriminate)). exact AL. }
Qed.

(** * The token stream *)
Lemma ILex_tok_lex_ok_ty : forall a, tok_lex_ok a ->
  fst a = TName \/ fst a = TNumber \/ fst a = TSemi \/ fst a = TString.
Proof. intros a T. destruct T; cbn [fst]; try destruct (is_rust_float _); auto. Qed.

Lemma ILex_good_cons : forall y a, tok_lex_ok y -> good a -> good (y :: a).
Proof. intros y [|z a] T G; (split; [|exact G]); [left; exact T | exact T]. Qed.

Lemma ILex_lex_all_nil : forall f pos line ls, fst (lex_all f false [] pos line ls) = [].
Proof. intros [|f] pos line ls; reflexivity. Qed.

Lemma ILex_lex_all_image : forall f src rem pos line ls tis e,
  at_pos src rem pos -> U8 rem -> lex_all f false rem pos line ls = (tis, e) ->
  exists a, Forall2 (sees_tok src) tis a /\ good a.
Proof.
  induction f as [|f IH]; intros src rem pos line ls tis e AP U H.
  - cbn [lex_all] in H. injection H as <- <-. exists []. split; [constructor | exact I].
  - cbn [lex_all] in H.
    destruct (lex_one false rem pos line ls) as [|t r p l ls'| |] eqn:L1;
      try (injection H as <- <-; exists []; split; [constructor | exact I]).
    destruct (ILex_lex_one_image _ _ _ _ _ _ _ _ _ U L1) as (x & Ex & Ur & Ts & Te & Ep & Cl).
    assert (AP' : at_pos src r p).
    { apply (at_pos_moved _ _ _ _ _ AP). exists x. split; assumption. }
    assert (V : sees_tok src (mkti t r ls') (t_ty t, x)).
    { split; [reflexivity|]. unfold substr. cbn [ti_tok snd]. rewrite Ts, Te.
      destruct AP as (pre & -> & ->). rewrite Ex. apply slice_mid; [rewrite <- Ex|]; apply ILex_U8_sb; assumption. }
    destruct (lex_all f false r p l ls') as [ts e'] eqn:R.
    destruct (IH _ _ _ _ _ _ _ AP' Ur R) as (a & F & G).
    destruct Cl as [In|[T|(Ty & Us & Er)]].
    + destruct In as [E|[E|E]]; rewrite E in H; injection H as <- <-; exists a; split; assumption.
    + pose proof (ILex_tok_lex_ok_ty _ T) as TY. cbn [fst] in TY.
      assert (H' : (mkti t r ls' :: ts, e') = (tis, e))
        by (destruct TY as [Ty|[Ty|[Ty|Ty]]]; rewrite Ty in H; exact H).
      injection H' as <- <-. exists ((t_ty t, x) :: a).
      split; [constructor; assumption | apply ILex_good_cons; assumption].
    + rewrite Ty in H. injection H as <- <-.
      pose proof (ILex_lex_all_nil f p l ls') as Nl. rewrite <- Er, R in Nl. cbn [fst] in Nl. subst ts.
      exists [(t_ty t, x)]. split; [constructor; [exact V | constructor]|].
      split; [|exact I]. right. split; [exact Ty | exact Us].
Qed.

Theorem lex_image : forall src tis e, U8 src -> lex false src = (tis, e) ->
  exists a, Forall2 (sees_tok src) tis a /\ good a.
Proof.
  intros src tis e U H. unfold lex in H.
  eapply ILex_lex_all_image; [| exact U | exact H]. exists []. split; reflexivity.
Qed.

Print Assumptions lex_image.
